/-
  Lemmas about the netcode model (RenetVerif/Netcode): replay window, wire codec (`Packet::encode` / `decode`),
  connect tokens, `NetcodeServer::process_packet`, `NetcodeClient::{process_packet, update}`.
  Used by Props/C04 (authentic, at most once), C07 (totality, unauthentic no-op), C13N (sizes, wire round trip),
  C19 (no amplification).

  Sections:
    1. replay window                     (namespace RP)
    2. little-endian codecs, writer, `encode` closed form, `decode` case analysis, `read` closed forms,
       wire round trip, receive-side runs (namespace Packet, Recv)
    3. `Res.Sat` / `Res.Post`, connect-token totality, server, client, sizes
-/
import RenetVerif.Netcode.Server
import RenetVerif.Netcode.Client

/-! # 1. replay window -/
namespace RenetVerif.Netcode
namespace RP
open Replay

/-! ## replay window (`replay_protection.rs`) -/

theorem empty_eq : EMPTY = 2 ^ 64 - 1 := rfl
theorem u64_eq : alreadyReceived.U64 = 2 ^ 64 - 1 := rfl

/-- closed form of `already_received` -/
theorem alreadyReceived_iff (rp : RP) (s : Nat) :
    alreadyReceived rp s = true ↔
      (s + 256 ≤ 2 ^ 64 - 1 ∧ s + 256 ≤ rp.mostRecent) ∨ (rp.at s ≠ EMPTY ∧ s ≤ rp.at s) := by
  unfold alreadyReceived
  rw [u64_eq]
  by_cases h1 : s + 256 ≤ 2 ^ 64 - 1 ∧ s + 256 ≤ rp.mostRecent
  · simp [h1]
  · by_cases h3 : rp.at s = EMPTY
    · simp [h3]
    · by_cases h4 : rp.at s ≥ s
      · simp [h3, h4]
      · simp [h3, h4]

theorem alreadyReceived_false_iff (rp : RP) (s : Nat) :
    alreadyReceived rp s = false ↔
      ¬ (s + 256 ≤ 2 ^ 64 - 1 ∧ s + 256 ≤ rp.mostRecent) ∧ (rp.at s = EMPTY ∨ rp.at s < s) := by
  have h := alreadyReceived_iff rp s
  cases hb : alreadyReceived rp s with
  | true =>
    have := h.1 hb
    constructor
    · intro h'; cases h'
    · rintro ⟨h1, h2⟩
      rcases this with h | h
      · exact absurd h h1
      · omega
  | false =>
    have hn : ¬ ((s + 256 ≤ 2 ^ 64 - 1 ∧ s + 256 ≤ rp.mostRecent) ∨ (rp.at s ≠ EMPTY ∧ s ≤ rp.at s)) := by
      intro hh; have := h.2 hh; rw [hb] at this; cases this
    constructor
    · intro _
      refine ⟨fun hh => hn (Or.inl hh), ?_⟩
      by_cases he : rp.at s = EMPTY
      · exact Or.inl he
      · right
        by_cases hl : rp.at s < s
        · exact hl
        · exact absurd (Or.inr ⟨he, by omega⟩) hn
    · intro _; rfl

@[simp] theorem advance_at_same (rp : RP) (s : Nat) : (advance rp s).at s = s := by simp [advance, RP.at]
theorem advance_at_other (rp : RP) (s t : Nat) (h : t % 256 ≠ s % 256) : (advance rp s).at t = rp.at t := by
  simp [advance, RP.at, Ne.symm h]
theorem advance_at_eqmod (rp : RP) (s t : Nat) (h : t % 256 = s % 256) : (advance rp s).at t = s := by
  simp [advance, RP.at, h]
theorem advance_mr (rp : RP) (s : Nat) : (advance rp s).mostRecent = max s rp.mostRecent := by
  simp [advance]; split <;> omega
theorem at_congr (rp : RP) {s t : Nat} (h : t % 256 = s % 256) : rp.at t = rp.at s := by simp [RP.at, h]

/-- The window invariant, relative to the ghost list `acc` of all sequence numbers that were `advance`d.
    * every value is a u64;
    * `mostRecent` is the maximum of `acc` (0 if `acc` is empty);
    * every window entry is EMPTY or an accepted sequence congruent to its index;
    * every accepted sequence other than the sentinel is either at least 256 behind `mostRecent`
      or covered by a window entry that is not EMPTY and not smaller. -/
structure Inv (rp : RP) (acc : List Nat) : Prop where
  mr_lt : rp.mostRecent < 2 ^ 64
  acc_le : ∀ s ∈ acc, s ≤ rp.mostRecent
  mr_mem : rp.mostRecent = 0 ∨ rp.mostRecent ∈ acc
  entry : ∀ t, rp.at t = EMPTY ∨ (rp.at t ∈ acc ∧ rp.at t % 256 = t % 256)
  cover : ∀ s ∈ acc, s ≠ EMPTY → s + 256 ≤ rp.mostRecent ∨ (rp.at s ≠ EMPTY ∧ s ≤ rp.at s)

theorem inv_new : Inv RP.new [] := by
  refine ⟨by simp [RP.new], by simp, Or.inl rfl, ?_, by simp⟩
  intro t; left; simp [RP.new, RP.at]

/-- `advance` after a negative `already_received` keeps the invariant (the decode discipline). -/
theorem inv_advance {rp : RP} {acc : List Nat} {s : Nat} (h : Inv rp acc) (hs : s < 2 ^ 64)
    (hf : alreadyReceived rp s = false) : Inv (advance rp s) (s :: acc) := by
  obtain ⟨hnot, he⟩ := (alreadyReceived_false_iff rp s).1 hf
  refine ⟨?_, ?_, ?_, ?_, ?_⟩
  · rw [advance_mr]; have := h.mr_lt; omega
  · intro t ht
    rw [advance_mr]
    rcases List.mem_cons.1 ht with rfl | ht
    · omega
    · have := h.acc_le t ht; omega
  · right
    rw [advance_mr]
    by_cases hm : s ≤ rp.mostRecent
    · have : max s rp.mostRecent = rp.mostRecent := by omega
      rw [this]
      rcases h.mr_mem with h0 | hmem
      · have : s = 0 := by omega
        rw [h0, this]; simp
      · exact List.mem_cons_of_mem _ hmem
    · have : max s rp.mostRecent = s := by omega
      rw [this]; simp
  · intro t
    by_cases hm : t % 256 = s % 256
    · by_cases hse : s = EMPTY
      · left; rw [advance_at_eqmod _ _ _ hm]; exact hse
      · right; rw [advance_at_eqmod _ _ _ hm]; exact ⟨by simp, hm.symm⟩
    · rw [advance_at_other _ _ _ hm]
      rcases h.entry t with h' | h'
      · left; exact h'
      · right; exact ⟨List.mem_cons_of_mem _ h'.1, h'.2⟩
  · intro t ht hte
    rw [advance_mr]
    by_cases hts : t = s
    · subst hts
      right; rw [advance_at_same]; exact ⟨hte, Nat.le_refl _⟩
    · have ht' : t ∈ acc := by
        rcases List.mem_cons.1 ht with h' | h'
        · exact absurd h' hts
        · exact h'
      rcases h.cover t ht' hte with hc | hc
      · left; omega
      · by_cases hm : t % 256 = s % 256
        · left
          have hat : rp.at t = rp.at s := at_congr rp hm
          have hlt : rp.at s < s := by
            rcases he with he | he
            · exact absurd (hat ▸ he) hc.1
            · exact he
          omega
        · right; rw [advance_at_other _ _ _ hm]; exact hc

/-- C04 at-most-once core: a sequence that was accepted is reported as already received for ever after
    (every sequence except the sentinel `2^64-1`, see `sentinel_collision`). -/
theorem no_reaccept {rp : RP} {acc : List Nat} {s : Nat} (h : Inv rp acc) (hs : s ∈ acc) (hne : s ≠ 2 ^ 64 - 1) :
    alreadyReceived rp s = true := by
  rw [alreadyReceived_iff]
  rcases h.cover s hs hne with hc | hc
  · left; have := h.mr_lt; omega
  · right; exact hc

/-- C04 converse core: a sequence never accepted and less than 256 behind the newest is not rejected. -/
theorem fresh_accept {rp : RP} {acc : List Nat} {s : Nat} (h : Inv rp acc) (hs : s ∉ acc)
    (hw : rp.mostRecent < s + 256) : alreadyReceived rp s = false := by
  rw [alreadyReceived_false_iff]
  refine ⟨by omega, ?_⟩
  rcases h.entry s with he | ⟨hmem, hmod⟩
  · left; exact he
  · right
    have hle := h.acc_le _ hmem
    have hne : rp.at s ≠ s := fun heq => hs (heq ▸ hmem)
    omega

/-- The excluded point: sequence `2^64-1` equals the EMPTY marker, so the window cannot remember it.
    A packet carrying it is accepted, and accepted again. -/
theorem sentinel_collision :
    alreadyReceived RP.new (2 ^ 64 - 1) = false ∧
    alreadyReceived (advance RP.new (2 ^ 64 - 1)) (2 ^ 64 - 1) = false := by
  constructor
  · rw [alreadyReceived_false_iff]; refine ⟨by omega, Or.inl ?_⟩; simp [RP.new, RP.at]
  · rw [alreadyReceived_false_iff]; refine ⟨by omega, Or.inl ?_⟩; rw [advance_at_same]; rfl

/-- right after being accepted a sequence (other than the sentinel) is reported as received -/
theorem alreadyReceived_advance_self (rp : RP) {s : Nat} (h : s ≠ 2 ^ 64 - 1) :
    alreadyReceived (advance rp s) s = true := by
  rw [alreadyReceived_iff]; right; rw [advance_at_same]; exact ⟨h, Nat.le_refl _⟩

/-- … and it is the only such point: after the sentinel was accepted every other sequence that was
    accepted stays rejected (instance of `no_reaccept`); stated for the record. -/
theorem sentinel_only {rp : RP} {acc : List Nat} {s : Nat} (h : Inv rp acc) (hs : s ∈ acc)
    (hf : alreadyReceived rp s = false) : s = 2 ^ 64 - 1 := by
  by_cases hne : s = 2 ^ 64 - 1
  · exact hne
  · rw [no_reaccept h hs hne] at hf; cases hf

end RP
end RenetVerif.Netcode

/-! # 2. wire -/
namespace RenetVerif.Netcode

/-! ## little-endian codecs and the cursor reader -/

@[simp] theorem leBytes_length (n k : Nat) : (leBytes n k).length = k := by
  induction k generalizing n with
  | zero => rfl
  | succ k ih => simp [leBytes, ih]

theorem leVal_lt (b : Bytes) : leVal b < 256 ^ b.length := by
  induction b with
  | nil => simp [leVal]
  | cons x r ih =>
    have hx : x.toNat < 256 := x.toNat_lt
    simp only [leVal, List.length_cons, Nat.pow_succ]
    omega

theorem leVal_leBytes (n k : Nat) : leVal (leBytes n k) = n % 256 ^ k := by
  induction k generalizing n with
  | zero => simp [leBytes, leVal, Nat.mod_one]
  | succ k ih =>
    simp only [leBytes, leVal, ih, UInt8.toNat_ofNat']
    have : n % 256 % (2 ^ 7 * 2) = n % 256 := by omega
    rw [this, Nat.pow_succ, Nat.mul_comm (256 ^ k) 256, Nat.mod_mul]

theorem leVal_leBytes_of_lt {n k : Nat} (h : n < 256 ^ k) : leVal (leBytes n k) = n := by
  rw [leVal_leBytes, Nat.mod_eq_of_lt h]

theorem take_leBytes (n : Nat) {k m : Nat} (h : k ≤ m) : (leBytes n m).take k = leBytes n k := by
  induction k generalizing n m with
  | zero => simp [leBytes]
  | succ k ih =>
    cases m with
    | zero => omega
    | succ m => simp [leBytes, ih (n / 256) (Nat.le_of_succ_le_succ h)]

theorem readN_append (b r : Bytes) : readN b.length (b ++ r) = some (b, r) := by
  simp [readN]

theorem readN_append' {n : Nat} (b r : Bytes) (h : b.length = n) : readN n (b ++ r) = some (b, r) := by
  subst h; exact readN_append b r

theorem readN_some {n : Nat} {src b r : Bytes} (h : readN n src = some (b, r)) :
    n ≤ src.length ∧ b = src.take n ∧ r = src.drop n ∧ b.length = n ∧ src = b ++ r := by
  unfold readN at h
  split at h
  · cases h
  · cases h
    refine ⟨by omega, rfl, rfl, ?_, (List.take_append_drop n src).symm⟩
    simp [List.length_take]; omega

theorem readN_eq_none {n : Nat} {src : Bytes} : readN n src = none ↔ src.length < n := by
  unfold readN; split <;> simp [*]

theorem readU_some {n : Nat} {src r : Bytes} {v : Nat} (h : readU n src = some (v, r)) :
    n ≤ src.length ∧ v = leVal (src.take n) ∧ r = src.drop n ∧ v < 256 ^ n := by
  unfold readU at h
  cases hr : readN n src with
  | none => rw [hr] at h; cases h
  | some p =>
    obtain ⟨b, r'⟩ := p
    rw [hr] at h; cases h
    obtain ⟨h1, h2, h3, h4, _⟩ := readN_some hr
    refine ⟨h1, by rw [h2], h3, ?_⟩
    have := leVal_lt b; rw [h4] at this; exact this

theorem readU_leBytes {n k : Nat} (r : Bytes) (h : n < 256 ^ k) : readU k (leBytes n k ++ r) = some (n, r) := by
  unfold readU
  rw [readN_append' _ _ (leBytes_length n k)]
  simp [leVal_leBytes_of_lt h]

/-! ## prefix byte and sequence bytes -/
namespace Packet

theorem sbr_go_bounds (s k : Nat) : 1 ≤ sequenceBytesRequired.go s k ∧ sequenceBytesRequired.go s k ≤ max 1 k := by
  induction k with
  | zero => simp [sequenceBytesRequired.go]
  | succ k ih =>
    unfold sequenceBytesRequired.go
    split
    · omega
    · omega

theorem sbr_go_lt (s k : Nat) (h : s < 256 ^ k) : s < 256 ^ sequenceBytesRequired.go s k := by
  induction k with
  | zero => simp [sequenceBytesRequired.go] at *; omega
  | succ k ih =>
    unfold sequenceBytesRequired.go
    split
    · exact h
    · rename_i hz
      have hz : s / 256 ^ k % 256 = 0 := by simpa using hz
      have hd : s / 256 ^ k < 256 := by
        rw [Nat.div_lt_iff_lt_mul (Nat.pow_pos (by decide))]
        rw [Nat.pow_succ, Nat.mul_comm] at h; exact h
      have : s / 256 ^ k = 0 := by
        generalize s / 256 ^ k = d at hz hd; omega
      have : s < 256 ^ k := by
        rcases Nat.div_eq_zero_iff.1 this with h' | h'
        · have := Nat.pow_pos (n := k) (show 0 < 256 by decide); omega
        · exact h'
      exact ih this

theorem sbr_pos (s : Nat) : 1 ≤ sequenceBytesRequired s := (sbr_go_bounds s 8).1
theorem sbr_le (s : Nat) : sequenceBytesRequired s ≤ 8 := by
  have := (sbr_go_bounds s 8).2; unfold sequenceBytesRequired; omega
theorem sbr_lt {s : Nat} (h : s < 2 ^ 64) : s < 256 ^ sequenceBytesRequired s :=
  sbr_go_lt s 8 (by simpa using h)

end Packet

/-! ## the bounded writer -/
namespace Wr
theorem writeAll_eq (w : Wr) (b : Bytes) :
    w.writeAll b = if w.out.length + b.length ≤ w.cap then some ⟨w.cap, w.out ++ b⟩ else none := rfl

theorem writeAll_append (w : Wr) (b1 b2 : Bytes) :
    (w.writeAll b1 >>= fun w => w.writeAll b2) = w.writeAll (b1 ++ b2) := by
  simp only [writeAll_eq]
  by_cases h1 : w.out.length + b1.length ≤ w.cap
  · simp only [h1, if_true, Option.bind_eq_bind, Option.bind_some, List.length_append, List.append_assoc]
    by_cases h2 : w.out.length + b1.length + b2.length ≤ w.cap
    · have : w.out.length + (b1.length + b2.length) ≤ w.cap := by omega
      simp [h2, this]
    · have : ¬ w.out.length + (b1.length + b2.length) ≤ w.cap := by omega
      simp [h2, this]
  · have : ¬ w.out.length + (b1 ++ b2).length ≤ w.cap := by simp; omega
    simp only [h1, this, if_false]; rfl
end Wr

namespace Packet

/-- the bytes `Packet::write` produces -/
def body : Packet → Bytes
  | connectionRequest v pid e x d => v ++ (leBytes pid 8 ++ (leBytes e 8 ++ (x ++ d)))
  | challenge s d | response s d => leBytes s 8 ++ d
  | keepAlive i m => leBytes i 4 ++ leBytes m 4
  | payload b => b
  | connectionDenied | disconnect => []

theorem write_eq (p : Packet) (w : Wr) (hw : w.out.length ≤ w.cap) : p.write w = w.writeAll p.body := by
  cases p <;> simp only [write, body, Wr.writeAll_append]
  all_goals (simp [Wr.writeAll_eq, hw])


/-- the sealed-kind branch of `Packet::encode` -/
def encodeSealed (a : AEAD) (p : Packet) (cap proto seq : Nat) (key : Bytes) : NRes Bytes := do
  let pfx := encodePrefix p.id seq
  let w ← io? ((Wr.new cap).writeAll [pfx])
  let (w, _) := writeSequence w seq
  let start := w.pos
  let w ← io? (p.write w)
  let «end» := w.pos
  if cap < «end» + C.NETCODE_MAC_BYTES then .err .ioError
  else
    let aad := additionalData pfx proto
    pure (w.out.take start ++ sealBody a key seq aad (w.out.drop start))

theorem encode_eq_encodeSealed (a : AEAD) (p : Packet) (cap proto seq : Nat) (key : Bytes)
    (hp : p.packetType ≠ .connectionRequest) :
    encode a p cap proto (some (seq, key)) = encodeSealed a p cap proto seq key := by
  cases p <;> first | rfl | exact absurd rfl hp

/-- what a sealed datagram looks like -/
def sealedBytes (a : AEAD) (p : Packet) (proto seq : Nat) (key : Bytes) : Bytes :=
  encodePrefix p.id seq :: (leBytes seq (sequenceBytesRequired seq) ++
    a.seal key (nonce seq) (additionalData (encodePrefix p.id seq) proto) p.body)

theorem mac_eq : C.NETCODE_MAC_BYTES = 16 := rfl

theorem encodeSealed_eq (a : AEAD) (p : Packet) (cap proto seq : Nat) (key : Bytes) :
    encodeSealed a p cap proto seq key =
      if 1 + sequenceBytesRequired seq + p.body.length + 16 ≤ cap then .ok (sealedBytes a p proto seq key)
      else .err .ioError := by
  have hk1 := sbr_pos seq
  have hk8 := sbr_le seq
  unfold encodeSealed
  by_cases hc0 : cap = 0
  · subst hc0
    simp [Wr.new, Wr.writeAll_eq, io?]
  · have h1 : (Wr.new cap).writeAll [encodePrefix p.id seq] = some ⟨cap, [encodePrefix p.id seq]⟩ := by
      simp [Wr.new, Wr.writeAll_eq]; omega
    simp only [h1, io?, Res.bind_ok, writeSequence, Wr.write, Wr.pos, take_leBytes seq hk8, leBytes_length,
      List.length_cons, List.length_nil, Nat.zero_add]
    by_cases hk : sequenceBytesRequired seq ≤ cap - 1
    · have hmin : min (sequenceBytesRequired seq) (cap - 1) = sequenceBytesRequired seq := by omega
      rw [hmin]
      rw [write_eq _ _ (by simp; omega)]
      simp only [Wr.writeAll_eq, List.length_append, List.length_cons, List.length_nil, List.length_take,
        leBytes_length, Nat.min_self, Nat.zero_add]
      by_cases hb : 1 + sequenceBytesRequired seq + p.body.length ≤ cap
      · simp only [hb, if_true, Res.bind_ok, List.length_append, List.length_cons, List.length_nil,
          List.length_take, leBytes_length, Nat.min_self, Nat.zero_add, mac_eq]
        by_cases hm : 1 + sequenceBytesRequired seq + p.body.length + 16 ≤ cap
        · have : ¬ cap < 1 + sequenceBytesRequired seq + p.body.length + 16 := by omega
          simp only [this, hm, if_true, if_false, Res.pure_eq, sealBody, sealedBytes]
          congr 1
          have htk : List.take (sequenceBytesRequired seq) (leBytes seq (sequenceBytesRequired seq))
              = leBytes seq (sequenceBytesRequired seq) := List.take_of_length_le (by simp)
          have hl : ([encodePrefix p.id seq] ++ leBytes seq (sequenceBytesRequired seq)).length
              = 1 + sequenceBytesRequired seq := by simp; omega
          rw [htk, List.take_left' hl, List.drop_left' hl]
          rfl
        · have : cap < 1 + sequenceBytesRequired seq + p.body.length + 16 := by omega
          simp [this, hm]
      · have : ¬ 1 + sequenceBytesRequired seq + p.body.length + 16 ≤ cap := by omega
        simp only [hb, this, if_false]; rfl
    · have hmin : min (sequenceBytesRequired seq) (cap - 1) = cap - 1 := by omega
      have : ¬ 1 + sequenceBytesRequired seq + p.body.length + 16 ≤ cap := by omega
      rw [hmin, if_neg this]
      rw [write_eq _ _ (by simp [List.length_take]; omega)]
      simp only [Wr.writeAll_eq, List.length_append, List.length_cons, List.length_nil, List.length_take,
        leBytes_length, Nat.zero_add]
      have hmin2 : min (cap - 1) (sequenceBytesRequired seq) = cap - 1 := by omega
      rw [hmin2]
      by_cases hb : 1 + (cap - 1) + p.body.length ≤ cap
      · simp only [hb, if_true, Res.bind_ok, List.length_append, List.length_cons, List.length_nil, List.length_take,
          leBytes_length, Nat.zero_add, hmin2, mac_eq]
        have : cap < 1 + (cap - 1) + p.body.length + 16 := by omega
        simp [this]
      · simp only [hb, if_false]; rfl

theorem encode_sealed_eq (a : AEAD) (p : Packet) (cap proto seq : Nat) (key : Bytes)
    (hp : p.packetType ≠ .connectionRequest) :
    encode a p cap proto (some (seq, key)) =
      if 1 + sequenceBytesRequired seq + p.body.length + 16 ≤ cap then .ok (sealedBytes a p proto seq key)
      else .err .ioError := by
  rw [encode_eq_encodeSealed a p cap proto seq key hp, encodeSealed_eq]


theorem encode_request_eq (a : AEAD) (v : Bytes) (pid e : Nat) (x d : Bytes) (cap proto : Nat)
    (crypto : Option (Nat × Bytes)) :
    encode a (connectionRequest v pid e x d) cap proto crypto =
      if 1 + (connectionRequest v pid e x d).body.length ≤ cap then .ok (0 :: (connectionRequest v pid e x d).body)
      else .err .ioError := by
  simp only [encode]
  by_cases hc0 : cap = 0
  · subst hc0; simp [Wr.new, Wr.writeAll_eq, io?]
  · have h1 : (Wr.new cap).writeAll [UInt8.ofNat (connectionRequest v pid e x d).id]
        = some ⟨cap, [0]⟩ := by
      simp [Wr.new, Wr.writeAll_eq, Packet.id, packetType, PacketType.toNat]; omega
    rw [h1]
    simp only [io?, Res.bind_ok]
    rw [write_eq _ _ (by simp; omega)]
    simp only [Wr.writeAll_eq, List.length_cons, List.length_nil, Nat.zero_add]
    by_cases hb : 1 + (connectionRequest v pid e x d).body.length ≤ cap
    · simp only [hb, if_true, Res.bind_ok, Res.pure_eq]; rfl
    · simp only [hb, if_false]; rfl

/-! ## the header of a datagram as functions of its bytes -/

def wirePrefix (buf : Bytes) : UInt8 := buf.headD 0
def wireType (buf : Bytes) : Nat := (wirePrefix buf).toNat % 16
def wireSeqLen (buf : Bytes) : Nat := (wirePrefix buf).toNat / 16
/-- the sequence number a sealed datagram carries (bound into nonce and, through its length, the AAD) -/
def wireSeq (buf : Bytes) : Nat := leVal ((buf.drop 1).take (wireSeqLen buf))
def wireBody (buf : Bytes) : Bytes := buf.drop (1 + wireSeqLen buf)

/-- the datagram is of sealed kind `ty`, long enough, and its body opens to `plain` under `k` with the nonce and
    additional data its header determines -/
structure SealedOpen (a : AEAD) (buf : Bytes) (proto : Nat) (k : Bytes) (ty : PacketType) (plain : Bytes) : Prop where
  len18 : 18 ≤ buf.length
  kind : PacketType.fromU8 (wireType buf) = .ok ty
  not_request : ty ≠ .connectionRequest
  seq_len : wireSeqLen buf ≤ 8
  len : 1 + wireSeqLen buf + 16 ≤ buf.length
  opened : a.open k (nonce (wireSeq buf)) (additionalData (wirePrefix buf) proto) (wireBody buf) = some plain

/-- window update of a successful open -/
def stepWindow (ty : PacketType) (seq : Nat) (rp : Option RP) : Option RP :=
  rp.map fun w => if ty.applyReplayProtection then w.advance seq else w

/-- the replay check `decode` performs before opening -/
def isDup (ty : PacketType) (seq : Nat) (rp : Option RP) : Bool :=
  match rp with
  | some w => ty.applyReplayProtection && w.alreadyReceived seq
  | none => false

theorem fromU8_no_panic (v : Nat) (m : String) : PacketType.fromU8 v ≠ .panic m := by
  unfold PacketType.fromU8; split <;> simp

theorem wireSeq_lt {buf : Bytes} (h : wireSeqLen buf ≤ 8) : wireSeq buf < 2 ^ 64 := by
  have := leVal_lt ((buf.drop 1).take (wireSeqLen buf))
  have hl : ((buf.drop 1).take (wireSeqLen buf)).length ≤ 8 := by simp [List.length_take]; omega
  have : 256 ^ ((buf.drop 1).take (wireSeqLen buf)).length ≤ 256 ^ 8 := Nat.pow_le_pow_right (by decide) hl
  unfold wireSeq; omega

theorem readSequence_some {src : Bytes} {len seq : Nat} {body : Bytes}
    (h : readSequence src len = some (seq, body)) :
    len ≤ 8 ∧ len ≤ src.length ∧ seq = leVal (src.take len) ∧ body = src.drop len := by
  unfold readSequence at h
  split at h
  · cases h
  · cases hr : readN len src with
    | none => rw [hr] at h; cases h
    | some p =>
      obtain ⟨b, r⟩ := p
      rw [hr] at h; cases h
      obtain ⟨h1, h2, h3, _, _⟩ := readN_some hr
      exact ⟨by omega, h1, by rw [h2], h3⟩

theorem stepWindow_eq (ty : PacketType) (seq : Nat) (rp : Option RP) :
    (match rp with
      | some w => if ty.applyReplayProtection = true then some (w.advance seq) else some w
      | none => none) = stepWindow ty seq rp := by
  cases rp with
  | none => rfl
  | some w => simp only [stepWindow, Option.map]; split <;> rfl

/-- `decode`, all cases.  Either an error with the window untouched, or a connection request (never
    authenticated, window untouched), or a sealed datagram that passed the replay check and opened: then the
    window is stepped and the result is whatever `Packet::read` makes of the plaintext. -/
theorem decode_cases (a : AEAD) (buf : Bytes) (proto : Nat) (key : Option Bytes) (rp : Option RP) :
    (∃ e, decode a buf proto key rp = (.err e, rp)) ∨
    (18 ≤ buf.length ∧ wireType buf = 0 ∧
      decode a buf proto key rp = (read .connectionRequest (buf.drop 1) >>= fun p => pure (0, p), rp)) ∨
    (∃ k ty plain, key = some k ∧ SealedOpen a buf proto k ty plain ∧ isDup ty (wireSeq buf) rp = false ∧
      decode a buf proto key rp =
        (read ty plain >>= fun p => pure (wireSeq buf, p), stepWindow ty (wireSeq buf) rp)) := by
  generalize hD : decode a buf proto key rp = D
  unfold decode at hD
  by_cases hlen : buf.length < 2 + C.NETCODE_MAC_BYTES
  · left; exact ⟨_, by rw [← hD, if_pos hlen]⟩
  · rw [if_neg hlen] at hD
    have hlen' : 18 ≤ buf.length := by simp [mac_eq] at hlen; omega
    cases buf with
    | nil => simp at hlen'
    | cons pfx rest =>
      simp only [decodePrefix] at hD
      cases hty : PacketType.fromU8 (pfx.toNat % 16) with
      | err e => rw [hty] at hD; left; exact ⟨e, hD.symm⟩
      | panic m => exact absurd hty (fromU8_no_panic _ _)
      | ok ty =>
        rw [hty] at hD
        simp only [] at hD
        by_cases hreq : ty = .connectionRequest
        · right; left
          subst hreq
          refine ⟨hlen', ?_, by rw [← hD]; simp⟩
          simp only [wireType, wirePrefix, List.headD_cons]
          revert hty; unfold PacketType.fromU8; split <;> simp
          all_goals omega
        · rw [if_neg hreq] at hD
          cases key with
          | none => left; exact ⟨_, hD.symm⟩
          | some k =>
            simp only [] at hD
            cases hsq : readSequence rest (pfx.toNat / 16) with
            | none => rw [hsq] at hD; left; exact ⟨_, hD.symm⟩
            | some sb =>
              obtain ⟨sequence, body⟩ := sb
              rw [hsq] at hD
              simp only [] at hD
              obtain ⟨hs8, hsl, hseq, hbody⟩ := readSequence_some hsq
              by_cases hl2 : (pfx :: rest).length < 1 + pfx.toNat / 16 + C.NETCODE_MAC_BYTES
              · left; exact ⟨_, by rw [← hD, if_pos hl2]⟩
              · rw [if_neg hl2] at hD
                have hwseq : wireSeq (pfx :: rest) = sequence := by
                  simp only [wireSeq, wireSeqLen, wirePrefix, List.headD_cons, List.drop_one, List.tail_cons]
                  exact hseq.symm
                have hwbody : wireBody (pfx :: rest) = body := by
                  simp only [wireBody, wireSeqLen, wirePrefix, List.headD_cons]
                  rw [Nat.add_comm, List.drop_succ_cons]; exact hbody.symm
                have hbl : ¬ body.length < C.NETCODE_MAC_BYTES := by
                  rw [hbody, List.length_drop]; simp only [List.length_cons, mac_eq] at hl2 ⊢; omega
                have tail : ∀ (dup : Bool) (rp' : Option RP), isDup ty sequence rp = dup →
                    stepWindow ty sequence rp = rp' →
                    (if dup = true then (Res.err NetcodeError.duplicatedSequence, rp) else
                      match openBody a k sequence (additionalData pfx proto) body with
                      | .err e => (.err e, rp)
                      | .panic s => (.panic s, rp)
                      | .ok plain => (do let p ← read ty plain; pure (sequence, p), rp')) = D →
                    ((∃ e, D = (.err e, rp)) ∨
                     (∃ k' ty' plain, some k = some k' ∧ SealedOpen a (pfx :: rest) proto k' ty' plain ∧
                        isDup ty' (wireSeq (pfx :: rest)) rp = false ∧
                        D = (read ty' plain >>= fun p => pure (wireSeq (pfx :: rest), p),
                              stepWindow ty' (wireSeq (pfx :: rest)) rp))) := by
                  intro dup rp' hdup hstep hD
                  cases dup with
                  | true => left; exact ⟨_, hD.symm⟩
                  | false =>
                    simp only [Bool.false_eq_true, if_false] at hD
                    unfold openBody at hD
                    rw [if_neg hbl] at hD
                    cases hop : a.open k (nonce sequence) (additionalData pfx proto) body with
                    | none => rw [hop] at hD; left; exact ⟨_, hD.symm⟩
                    | some plain =>
                      rw [hop] at hD
                      right
                      refine ⟨k, ty, plain, rfl, ⟨hlen', ?_, hreq, hs8, ?_, ?_⟩, ?_, ?_⟩
                      · simpa [wireType, wirePrefix] using hty
                      · simp only [wireSeqLen, wirePrefix, List.headD_cons]
                        simp only [List.length_cons, mac_eq] at hl2 ⊢; omega
                      · rw [hwseq, hwbody]; simpa [wirePrefix] using hop
                      · rw [hwseq]; exact hdup
                      · rw [← hD, hwseq, hstep]
                have fin : (∃ e, D = (.err e, rp)) ∨
                     (∃ k' ty' plain, some k = some k' ∧ SealedOpen a (pfx :: rest) proto k' ty' plain ∧
                        isDup ty' (wireSeq (pfx :: rest)) rp = false ∧
                        D = (read ty' plain >>= fun p => pure (wireSeq (pfx :: rest), p),
                              stepWindow ty' (wireSeq (pfx :: rest)) rp)) := by
                  cases rp with
                  | none => exact tail false none rfl rfl hD
                  | some w =>
                    refine tail (ty.applyReplayProtection && w.alreadyReceived sequence) _ rfl ?_ hD
                    simp only [stepWindow, Option.map]; split <;> rfl
                rcases fin with h | h
                · exact Or.inl h
                · exact Or.inr (Or.inr h)


/-! ## `Packet::read`, closed forms -/

theorem readN_eq (n : Nat) (src : Bytes) :
    readN n src = if src.length < n then none else some (src.take n, src.drop n) := rfl

theorem readU_eq (n : Nat) (src : Bytes) :
    readU n src = if src.length < n then none else some (leVal (src.take n), src.drop n) := by
  unfold readU; rw [readN_eq]; by_cases h : src.length < n <;> simp [h]

@[simp] theorem read_payload (src : Bytes) : read .payload src = .ok (.payload src) := rfl
@[simp] theorem read_denied (src : Bytes) : read .connectionDenied src = .ok .connectionDenied := rfl
@[simp] theorem read_disconnect (src : Bytes) : read .disconnect src = .ok .disconnect := rfl

theorem read_keepAlive (src : Bytes) :
    read .keepAlive src = if src.length < 8 then .err .ioError
      else .ok (.keepAlive (leVal (src.take 4)) (leVal ((src.drop 4).take 4))) := by
  simp only [read, readU32, readU_eq]
  by_cases h : src.length < 8
  · by_cases h4 : src.length < 4
    · simp [h, h4, io?]
    · have : src.length - 4 < 4 := by omega
      simp [h, h4, this, io?]
  · have h4 : ¬ src.length < 4 := by omega
    have : ¬ src.length - 4 < 4 := by omega
    simp [h, h4, this, io?]

theorem read_challenge (src : Bytes) :
    read .challenge src = if src.length < 8 + C.NETCODE_CHALLENGE_TOKEN_BYTES then .err .ioError
      else .ok (.challenge (leVal (src.take 8)) ((src.drop 8).take C.NETCODE_CHALLENGE_TOKEN_BYTES)) := by
  simp only [read, readU64, readU_eq, readN_eq]
  by_cases h : src.length < 8 + C.NETCODE_CHALLENGE_TOKEN_BYTES
  · by_cases h4 : src.length < 8
    · simp [h, h4, io?]
    · have : src.length - 8 < C.NETCODE_CHALLENGE_TOKEN_BYTES := by omega
      simp [h, h4, this, io?]
  · have h4 : ¬ src.length < 8 := by omega
    have : ¬ src.length - 8 < C.NETCODE_CHALLENGE_TOKEN_BYTES := by omega
    simp [h, h4, this, io?]

theorem read_response (src : Bytes) :
    read .response src = if src.length < 8 + C.NETCODE_CHALLENGE_TOKEN_BYTES then .err .ioError
      else .ok (.response (leVal (src.take 8)) ((src.drop 8).take C.NETCODE_CHALLENGE_TOKEN_BYTES)) := by
  simp only [read, readU64, readU_eq, readN_eq]
  by_cases h : src.length < 8 + C.NETCODE_CHALLENGE_TOKEN_BYTES
  · by_cases h4 : src.length < 8
    · simp [h, h4, io?]
    · have : src.length - 8 < C.NETCODE_CHALLENGE_TOKEN_BYTES := by omega
      simp [h, h4, this, io?]
  · have h4 : ¬ src.length < 8 := by omega
    have : ¬ src.length - 8 < C.NETCODE_CHALLENGE_TOKEN_BYTES := by omega
    simp [h, h4, this, io?]


theorem readN_bind {β} (n : Nat) (src : Bytes) (f : Bytes × Bytes → Option β) :
    (readN n src >>= f) = if src.length < n then none else f (src.take n, src.drop n) := by
  rw [readN_eq]; by_cases h : src.length < n <;> simp [h]

theorem readU_bind {β} (n : Nat) (src : Bytes) (f : Nat × Bytes → Option β) :
    (readU n src >>= f) = if src.length < n then none else f (leVal (src.take n), src.drop n) := by
  rw [readU_eq]; by_cases h : src.length < n <;> simp [h]

theorem xnonce_eq : C.NETCODE_CONNECT_TOKEN_XNONCE_BYTES = 24 := rfl
theorem private_eq : C.NETCODE_CONNECT_TOKEN_PRIVATE_BYTES = 1024 := rfl
theorem challenge_eq : C.NETCODE_CHALLENGE_TOKEN_BYTES = 300 := rfl

/-- 13 + 8 + 8 + xnonce + private token -/
def REQUEST_BODY : Nat := 13 + 8 + 8 + C.NETCODE_CONNECT_TOKEN_XNONCE_BYTES + C.NETCODE_CONNECT_TOKEN_PRIVATE_BYTES

theorem read_request (src : Bytes) :
    read .connectionRequest src = if src.length < REQUEST_BODY then .err .ioError
      else .ok (.connectionRequest (src.take 13) (leVal ((src.drop 13).take 8)) (leVal ((src.drop 21).take 8))
                 ((src.drop 29).take C.NETCODE_CONNECT_TOKEN_XNONCE_BYTES)
                 ((src.drop (29 + C.NETCODE_CONNECT_TOKEN_XNONCE_BYTES)).take C.NETCODE_CONNECT_TOKEN_PRIVATE_BYTES)) := by
  simp only [read, readU64, readU_bind, readN_bind, List.length_drop, List.drop_drop, REQUEST_BODY]
  by_cases h1 : src.length < 13
  · have : src.length < 13 + 8 + 8 + C.NETCODE_CONNECT_TOKEN_XNONCE_BYTES + C.NETCODE_CONNECT_TOKEN_PRIVATE_BYTES := by omega
    simp [h1, this, io?]
  · by_cases h2 : src.length - 13 < 8
    · have : src.length < 13 + 8 + 8 + C.NETCODE_CONNECT_TOKEN_XNONCE_BYTES + C.NETCODE_CONNECT_TOKEN_PRIVATE_BYTES := by omega
      simp [h1, h2, this, io?]
    · by_cases h3 : src.length - 13 - 8 < 8
      · have : src.length < 13 + 8 + 8 + C.NETCODE_CONNECT_TOKEN_XNONCE_BYTES + C.NETCODE_CONNECT_TOKEN_PRIVATE_BYTES := by omega
        simp [h1, h2, h3, this, io?]
      · by_cases h4 : src.length - 13 - 8 - 8 < C.NETCODE_CONNECT_TOKEN_XNONCE_BYTES
        · have : src.length < 13 + 8 + 8 + C.NETCODE_CONNECT_TOKEN_XNONCE_BYTES + C.NETCODE_CONNECT_TOKEN_PRIVATE_BYTES := by omega
          simp [h1, h2, h3, h4, this, io?]
        · by_cases h5 : src.length - 13 - 8 - 8 - C.NETCODE_CONNECT_TOKEN_XNONCE_BYTES < C.NETCODE_CONNECT_TOKEN_PRIVATE_BYTES
          · have : src.length < 13 + 8 + 8 + C.NETCODE_CONNECT_TOKEN_XNONCE_BYTES + C.NETCODE_CONNECT_TOKEN_PRIVATE_BYTES := by omega
            simp [h1, h2, h3, h4, h5, this, io?]
          · have : ¬ src.length < 13 + 8 + 8 + C.NETCODE_CONNECT_TOKEN_XNONCE_BYTES + C.NETCODE_CONNECT_TOKEN_PRIVATE_BYTES := by omega
            simp [h1, h2, h3, h4, h5, this, io?]
            congr 2


/-- least plaintext length `Packet::read` accepts for a kind -/
def minBody : PacketType → Nat
  | .connectionRequest => REQUEST_BODY
  | .challenge | .response => 8 + C.NETCODE_CHALLENGE_TOKEN_BYTES
  | .keepAlive => 8
  | _ => 0

theorem read_eq (ty : PacketType) (src : Bytes) :
    (src.length < minBody ty ∧ read ty src = .err .ioError) ∨
    (minBody ty ≤ src.length ∧ ∃ p, read ty src = .ok p ∧ p.packetType = ty ∧ p.WF ∧
      (ty = .payload → p = .payload src)) := by
  have hlt : ∀ (l : Bytes), leVal (l.take 8) < 2 ^ 64 := fun l => by
    have := leVal_lt (l.take 8)
    have hl : (l.take 8).length ≤ 8 := by simp [List.length_take]; omega
    have := Nat.pow_le_pow_right (show 0 < 256 by decide) hl
    omega
  have hlt4 : ∀ (l : Bytes), leVal (l.take 4) < 2 ^ 32 := fun l => by
    have := leVal_lt (l.take 4)
    have hl : (l.take 4).length ≤ 4 := by simp [List.length_take]; omega
    have := Nat.pow_le_pow_right (show 0 < 256 by decide) hl
    omega
  cases ty with
  | connectionRequest =>
    rw [read_request]
    by_cases h : src.length < REQUEST_BODY
    · left; exact ⟨h, by rw [if_pos h]⟩
    · right; refine ⟨by simp only [minBody]; omega, _, if_neg h, rfl, ?_, by intro h; cases h⟩
      simp only [REQUEST_BODY, xnonce_eq, private_eq] at h
      refine ⟨?_, hlt _, hlt _, ?_, ?_⟩ <;> simp [List.length_take, xnonce_eq, private_eq] <;> omega
  | connectionDenied => right; exact ⟨Nat.zero_le _, _, rfl, rfl, trivial, by intro h; cases h⟩
  | challenge =>
    rw [read_challenge]
    by_cases h : src.length < 8 + C.NETCODE_CHALLENGE_TOKEN_BYTES
    · left; exact ⟨h, by rw [if_pos h]⟩
    · right; refine ⟨by simp only [minBody]; omega, _, if_neg h, rfl, ?_, by intro h; cases h⟩
      refine ⟨hlt _, ?_⟩
      simp [List.length_take]; omega
  | response =>
    rw [read_response]
    by_cases h : src.length < 8 + C.NETCODE_CHALLENGE_TOKEN_BYTES
    · left; exact ⟨h, by rw [if_pos h]⟩
    · right; refine ⟨by simp only [minBody]; omega, _, if_neg h, rfl, ?_, by intro h; cases h⟩
      refine ⟨hlt _, ?_⟩
      simp [List.length_take]; omega
  | keepAlive =>
    rw [read_keepAlive]
    by_cases h : src.length < 8
    · left; exact ⟨h, by rw [if_pos h]⟩
    · right; refine ⟨by simp only [minBody]; omega, _, if_neg h, rfl, ?_, by intro h; cases h⟩
      exact ⟨hlt4 _, hlt4 _⟩
  | payload => right; exact ⟨Nat.zero_le _, _, rfl, rfl, trivial, fun _ => rfl⟩
  | disconnect => right; exact ⟨Nat.zero_le _, _, rfl, rfl, trivial, by intro h; cases h⟩

theorem read_no_panic (ty : PacketType) (src : Bytes) (m : String) : read ty src ≠ .panic m := by
  rcases read_eq ty src with ⟨_, h⟩ | ⟨_, p, h, _⟩ <;> rw [h] <;> simp

theorem read_ok {ty : PacketType} {src : Bytes} {p : Packet} (h : read ty src = .ok p) :
    minBody ty ≤ src.length ∧ p.packetType = ty ∧ p.WF ∧ (ty = .payload → p = .payload src) := by
  rcases read_eq ty src with ⟨_, h'⟩ | ⟨hl, p', h', h2, h3, h4⟩
  · rw [h'] at h; cases h
  · rw [h'] at h; cases h; exact ⟨hl, h2, h3, h4⟩

theorem read_err {ty : PacketType} {src : Bytes} {e : NetcodeError} (h : read ty src = .err e) :
    src.length < minBody ty ∧ e = .ioError := by
  rcases read_eq ty src with ⟨hl, h'⟩ | ⟨hl, p', h', _⟩
  · rw [h'] at h; cases h; exact ⟨hl, rfl⟩
  · rw [h'] at h; cases h


/-! ## consequences of `decode_cases` -/

theorem stepWindow_unprotected {ty : PacketType} (h : ty.applyReplayProtection = false) (seq : Nat) (rp : Option RP) :
    stepWindow ty seq rp = rp := by
  cases rp <;> simp [stepWindow, h]

theorem stepWindow_protected {ty : PacketType} (h : ty.applyReplayProtection = true) (seq : Nat) (rp : Option RP) :
    stepWindow ty seq rp = rp.map (·.advance seq) := by
  cases rp <;> simp [stepWindow, h]

theorem isDup_some (ty : PacketType) (seq : Nat) (w : RP) :
    isDup ty seq (some w) = (ty.applyReplayProtection && w.alreadyReceived seq) := rfl

/-- C07: `Packet::decode` returns normally on every byte string, key option and window. -/
theorem decode_total (a : AEAD) (buf : Bytes) (proto : Nat) (key : Option Bytes) (rp : Option RP) (m : String) :
    (decode a buf proto key rp).1 ≠ .panic m := by
  rcases decode_cases a buf proto key rp with ⟨e, h⟩ | ⟨_, _, h⟩ | ⟨k, ty, plain, _, _, _, h⟩
  · rw [h]; simp
  · rw [h]
    rcases read_eq .connectionRequest (buf.drop 1) with ⟨_, h'⟩ | ⟨_, p, h', _⟩ <;> rw [h'] <;> simp
  · rw [h]
    rcases read_eq ty plain with ⟨_, h'⟩ | ⟨_, p, h', _⟩ <;> rw [h'] <;> simp

/-- the successful results of `decode` -/
theorem decode_ok {a : AEAD} {buf : Bytes} {proto : Nat} {key : Option Bytes} {rp rp' : Option RP}
    {seq : Nat} {p : Packet} (h : decode a buf proto key rp = (.ok (seq, p), rp')) :
    (rp' = rp ∧ seq = 0 ∧ wireType buf = 0 ∧ 1 + REQUEST_BODY ≤ buf.length ∧
      p.packetType = .connectionRequest ∧ p.WF ∧ read .connectionRequest (buf.drop 1) = .ok p) ∨
    (∃ k ty plain, key = some k ∧ SealedOpen a buf proto k ty plain ∧ isDup ty seq rp = false ∧
      seq = wireSeq buf ∧ read ty plain = .ok p ∧ rp' = stepWindow ty seq rp) := by
  rcases decode_cases a buf proto key rp with ⟨e, h'⟩ | ⟨_, ht, h'⟩ | ⟨k, ty, plain, hk, hso, hd, h'⟩
  · rw [h'] at h; cases h
  · rw [h'] at h
    rcases read_eq .connectionRequest (buf.drop 1) with ⟨_, hr⟩ | ⟨hl, p', hr, hp1, hp2, _⟩
    · rw [hr] at h; cases h
    · rw [hr] at h; cases h
      left
      refine ⟨rfl, rfl, ht, ?_, hp1, hp2, hr⟩
      simp only [minBody, List.length_drop] at hl; omega
  · rw [h'] at h
    rcases read_eq ty plain with ⟨_, hr⟩ | ⟨hl, p', hr, _⟩
    · rw [hr] at h; cases h
    · rw [hr] at h; cases h
      right
      exact ⟨k, ty, plain, hk, hso, hd, rfl, hr, rfl⟩

/-- the error results of `decode`: the window is the one passed in, except for an authentic keep-alive whose
    plaintext is shorter than 8 bytes (window advanced before the body is parsed; `IoError`). -/
theorem decode_err {a : AEAD} {buf : Bytes} {proto : Nat} {key : Option Bytes} {rp rp' : Option RP}
    {e : NetcodeError} (h : decode a buf proto key rp = (.err e, rp')) :
    rp' = rp ∨
    (∃ k plain, key = some k ∧ SealedOpen a buf proto k .keepAlive plain ∧
      isDup .keepAlive (wireSeq buf) rp = false ∧ plain.length < 8 ∧ e = .ioError ∧
      rp' = rp.map (·.advance (wireSeq buf))) := by
  rcases decode_cases a buf proto key rp with ⟨e, h'⟩ | ⟨_, ht, h'⟩ | ⟨k, ty, plain, hk, hso, hd, h'⟩
  · rw [h'] at h; cases h; exact Or.inl rfl
  · rw [h'] at h
    rcases read_eq .connectionRequest (buf.drop 1) with ⟨_, hr⟩ | ⟨hl, p', hr, _⟩
    · rw [hr] at h; cases h; exact Or.inl rfl
    · rw [hr] at h; cases h
  · rw [h'] at h
    rcases read_eq ty plain with ⟨hl, hr⟩ | ⟨hl, p', hr, _⟩
    · rw [hr] at h; cases h
      cases ty with
      | keepAlive =>
        right
        exact ⟨k, plain, hk, hso, hd, hl, rfl, stepWindow_protected rfl _ _⟩
      | connectionRequest => exact absurd rfl hso.not_request
      | challenge => left; exact stepWindow_unprotected rfl _ _
      | response => left; exact stepWindow_unprotected rfl _ _
      | connectionDenied => simp [minBody] at hl
      | payload => simp [minBody] at hl
      | disconnect => simp [minBody] at hl
    · rw [hr] at h; cases h

/-- completeness: a sealed datagram that opens and is not a replay decodes -/
theorem decode_of_sealedOpen {a : AEAD} {buf : Bytes} {proto : Nat} {k : Bytes} {ty : PacketType} {plain : Bytes}
    (rp : Option RP) (hso : SealedOpen a buf proto k ty plain) (hd : isDup ty (wireSeq buf) rp = false) :
    decode a buf proto (some k) rp =
      (read ty plain >>= fun p => pure (wireSeq buf, p), stepWindow ty (wireSeq buf) rp) := by
  obtain ⟨h18, hkind, hnr, hs8, hlen, hop⟩ := hso
  cases buf with
  | nil => simp at h18
  | cons pfx rest =>
    have hwp : wirePrefix (pfx :: rest) = pfx := rfl
    have hwl : wireSeqLen (pfx :: rest) = pfx.toNat / 16 := rfl
    have hwt : wireType (pfx :: rest) = pfx.toNat % 16 := rfl
    rw [hwp] at hop; rw [hwl] at hs8 hlen; rw [hwt] at hkind
    have hrs : readSequence rest (pfx.toNat / 16) = some (wireSeq (pfx :: rest), wireBody (pfx :: rest)) := by
      unfold readSequence
      have : ¬ pfx.toNat / 16 > 8 := by omega
      rw [if_neg this, readN_eq]
      have : ¬ rest.length < pfx.toNat / 16 := by simp only [List.length_cons] at hlen; omega
      rw [if_neg this]
      simp only [wireSeq, wireBody, hwl, List.drop_one, List.tail_cons]
      rw [Nat.add_comm 1, List.drop_succ_cons]
    have hbl : ¬ (wireBody (pfx :: rest)).length < C.NETCODE_MAC_BYTES := by
      simp only [wireBody, hwl, List.length_drop, mac_eq]; omega
    unfold decode
    have h1 : ¬ (pfx :: rest).length < 2 + C.NETCODE_MAC_BYTES := by simp only [mac_eq]; omega
    have h2 : ¬ (pfx :: rest).length < 1 + pfx.toNat / 16 + C.NETCODE_MAC_BYTES := by simp only [mac_eq]; omega
    rw [if_neg h1]
    simp only [decodePrefix, hkind, if_neg hnr, hrs, if_neg h2]
    cases rp with
    | none =>
      simp only [Bool.false_eq_true, if_false, openBody, if_neg hbl, hop]
      rfl
    | some w =>
      rw [isDup_some] at hd
      simp only [hd, Bool.false_eq_true, if_false, openBody, if_neg hbl, hop]
      simp only [stepWindow, Option.map]
      split <;> rfl


/-! ## wire round trip (C04 converse, C16 netcode half) -/

theorem id_le (p : Packet) : p.id ≤ 6 := by cases p <;> simp [Packet.id, packetType, PacketType.toNat]
theorem fromU8_id (p : Packet) : PacketType.fromU8 p.id = .ok p.packetType := by cases p <;> rfl

theorem encodePrefix_toNat (p : Packet) (seq : Nat) :
    (encodePrefix p.id seq).toNat = p.id + sequenceBytesRequired seq * 16 := by
  have := id_le p; have := sbr_le seq
  simp only [encodePrefix, UInt8.toNat_ofNat']
  omega

theorem read_body {p : Packet} (h : p.WF) : read p.packetType p.body = .ok p := by
  cases p with
  | connectionRequest v pid e x d =>
    obtain ⟨hv, hp, he, hx, hd⟩ := h
    rw [show (connectionRequest v pid e x d).packetType = .connectionRequest from rfl, read_request]
    have hl : ¬ (connectionRequest v pid e x d).body.length < REQUEST_BODY := by
      simp [body, REQUEST_BODY, hv, hx, hd]; omega
    rw [if_neg hl]
    simp only [body]
    have e1 : List.take 13 (v ++ (leBytes pid 8 ++ (leBytes e 8 ++ (x ++ d)))) = v := List.take_left' hv
    have e2 : List.drop 13 (v ++ (leBytes pid 8 ++ (leBytes e 8 ++ (x ++ d)))) = leBytes pid 8 ++ (leBytes e 8 ++ (x ++ d)) :=
      List.drop_left' hv
    have e3 : List.drop 21 (v ++ (leBytes pid 8 ++ (leBytes e 8 ++ (x ++ d)))) = leBytes e 8 ++ (x ++ d) := by
      rw [show 21 = 13 + 8 from rfl, ← List.drop_drop, e2, List.drop_left' (leBytes_length pid 8)]
    have e4 : List.drop 29 (v ++ (leBytes pid 8 ++ (leBytes e 8 ++ (x ++ d)))) = x ++ d := by
      rw [show 29 = 21 + 8 from rfl, ← List.drop_drop, e3, List.drop_left' (leBytes_length e 8)]
    have e5 : List.drop (29 + C.NETCODE_CONNECT_TOKEN_XNONCE_BYTES) (v ++ (leBytes pid 8 ++ (leBytes e 8 ++ (x ++ d)))) = d := by
      rw [← List.drop_drop, e4, List.drop_left' hx]
    rw [e1, e2, e3, e4, e5, List.take_left' (leBytes_length pid 8), List.take_left' (leBytes_length e 8),
      List.take_left' hx, List.take_of_length_le (Nat.le_of_eq hd),
      leVal_leBytes_of_lt (by simpa using hp), leVal_leBytes_of_lt (by simpa using he)]
  | connectionDenied => rfl
  | challenge s d =>
    obtain ⟨hs, hd⟩ := h
    rw [show (challenge s d).packetType = .challenge from rfl, read_challenge]
    have hl : ¬ (challenge s d).body.length < 8 + C.NETCODE_CHALLENGE_TOKEN_BYTES := by simp [body, hd]
    rw [if_neg hl]
    simp only [body]
    rw [List.take_left' (leBytes_length s 8), List.drop_left' (leBytes_length s 8),
      List.take_of_length_le (Nat.le_of_eq hd), leVal_leBytes_of_lt (by simpa using hs)]
  | response s d =>
    obtain ⟨hs, hd⟩ := h
    rw [show (response s d).packetType = .response from rfl, read_response]
    have hl : ¬ (response s d).body.length < 8 + C.NETCODE_CHALLENGE_TOKEN_BYTES := by simp [body, hd]
    rw [if_neg hl]
    simp only [body]
    rw [List.take_left' (leBytes_length s 8), List.drop_left' (leBytes_length s 8),
      List.take_of_length_le (Nat.le_of_eq hd), leVal_leBytes_of_lt (by simpa using hs)]
  | keepAlive i m =>
    obtain ⟨hi, hm⟩ := h
    rw [show (keepAlive i m).packetType = .keepAlive from rfl, read_keepAlive]
    have hl : ¬ (keepAlive i m).body.length < 8 := by simp [body]
    rw [if_neg hl]
    simp only [body]
    rw [List.take_left' (leBytes_length i 4), List.drop_left' (leBytes_length i 4),
      List.take_of_length_le (Nat.le_of_eq (leBytes_length m 4)),
      leVal_leBytes_of_lt (by simpa using hi), leVal_leBytes_of_lt (by simpa using hm)]
  | payload b => rfl
  | disconnect => rfl

section sealedHeader
variable (a : AEAD) (p : Packet) (proto seq : Nat) (key : Bytes)

theorem sealed_wirePrefix : wirePrefix (sealedBytes a p proto seq key) = encodePrefix p.id seq := rfl

theorem sealed_wireType : wireType (sealedBytes a p proto seq key) = p.id := by
  have := id_le p
  simp only [wireType, sealed_wirePrefix, encodePrefix_toNat]; omega

theorem sealed_wireSeqLen : wireSeqLen (sealedBytes a p proto seq key) = sequenceBytesRequired seq := by
  have := id_le p
  simp only [wireSeqLen, sealed_wirePrefix, encodePrefix_toNat]; omega

theorem sealed_wireSeq (hs : seq < 2 ^ 64) : wireSeq (sealedBytes a p proto seq key) = seq := by
  unfold wireSeq
  rw [sealed_wireSeqLen]
  simp only [sealedBytes, List.drop_one, List.tail_cons]
  rw [List.take_left' (leBytes_length _ _)]
  exact leVal_leBytes_of_lt (sbr_lt hs)

theorem sealed_wireBody : wireBody (sealedBytes a p proto seq key) =
    a.seal key (nonce seq) (additionalData (encodePrefix p.id seq) proto) p.body := by
  unfold wireBody
  rw [sealed_wireSeqLen]
  simp only [sealedBytes]
  rw [Nat.add_comm 1, List.drop_succ_cons, List.drop_left' (leBytes_length _ _)]

theorem sealed_length (hl : a.Laws) :
    (sealedBytes a p proto seq key).length = 1 + sequenceBytesRequired seq + p.body.length + 16 := by
  simp only [sealedBytes, List.length_cons, List.length_append, leBytes_length, hl.seal_length]; omega

theorem sealed_sealedOpen (hl : a.Laws) (hs : seq < 2 ^ 64) (hp : p.packetType ≠ .connectionRequest) :
    SealedOpen a (sealedBytes a p proto seq key) proto key p.packetType p.body := by
  have h1 := sbr_pos seq
  have h8 := sbr_le seq
  have hlen := sealed_length a p proto seq key hl
  refine ⟨by omega, ?_, hp, ?_, ?_, ?_⟩
  · rw [sealed_wireType]; exact fromU8_id p
  · rw [sealed_wireSeqLen]; exact h8
  · rw [sealed_wireSeqLen]; omega
  · rw [sealed_wireSeq a p proto seq key hs, sealed_wirePrefix, sealed_wireBody]; exact hl.open_seal _ _ _ _

/-- decoding what `encode` sealed, on any window that has not seen the sequence number -/
theorem decode_sealedBytes (hl : a.Laws) (hs : seq < 2 ^ 64) (hp : p.packetType ≠ .connectionRequest) (hwf : p.WF)
    (rp : Option RP) (hd : isDup p.packetType seq rp = false) :
    decode a (sealedBytes a p proto seq key) proto (some key) rp = (.ok (seq, p), stepWindow p.packetType seq rp) := by
  have hso := sealed_sealedOpen a p proto seq key hl hs hp
  have hws := sealed_wireSeq a p proto seq key hs
  rw [decode_of_sealedOpen rp hso (by rw [hws]; exact hd), hws, read_body hwf]; rfl

end sealedHeader

/-- a connection request is sent in clear: prefix 0, then the body -/
theorem decode_request_bytes (a : AEAD) {p : Packet} (hp : p.packetType = .connectionRequest) (hwf : p.WF)
    (proto : Nat) (key : Option Bytes) (rp : Option RP) :
    decode a (0 :: p.body) proto key rp = (.ok (0, p), rp) := by
  have hr := read_body hwf
  rw [hp] at hr
  have hl := (read_ok hr).1
  simp only [minBody, REQUEST_BODY, xnonce_eq, private_eq] at hl
  unfold decode
  have h1 : ¬ (0 :: p.body).length < 2 + C.NETCODE_MAC_BYTES := by simp only [List.length_cons, mac_eq]; omega
  rw [if_neg h1]
  simp only [decodePrefix]
  have : PacketType.fromU8 ((0 : UInt8).toNat % 16) = .ok .connectionRequest := rfl
  simp only [this, if_true, hr]
  rfl

/-! ## a session's receive side: datagrams through `decode` with one key, the window threaded -/

structure Recv where
  window : RP
  /-- ghost: the sequence numbers the window was advanced with, newest first -/
  accepted : List Nat
  /-- the successful results, newest first -/
  surfaced : List (Nat × Packet)

/-- one datagram, exactly as `NetcodeServer::process_packet` / `NetcodeClient::process_packet` use `decode`:
    the returned window is stored whatever the result -/
def Recv.step (a : AEAD) (proto : Nat) (key : Bytes) (st : Recv) (b : Bytes) : Recv :=
  match decode a b proto (some key) (some st.window) with
  | (.ok (s, p), w') =>
    { window := w'.getD st.window
      accepted := if p.packetType.applyReplayProtection then s :: st.accepted else st.accepted
      surfaced := (s, p) :: st.surfaced }
  | (_, w') =>
    { window := w'.getD st.window
      accepted := if w'.getD st.window = st.window then st.accepted else wireSeq b :: st.accepted
      surfaced := st.surfaced }

def Recv.init : Recv := ⟨RP.new, [], []⟩
def Recv.run (a : AEAD) (proto : Nat) (key : Bytes) (bufs : List Bytes) : Recv :=
  bufs.foldl (Recv.step a proto key) Recv.init

/-- sequence numbers of the surfaced replay-protected packets (keep-alive, payload, disconnect), the sentinel
    `2^64-1` excluded -/
def protectedSeqs (l : List (Nat × Packet)) : List Nat :=
  (l.filter fun r => r.2.packetType.applyReplayProtection && decide (r.1 ≠ 2 ^ 64 - 1)).map (·.1)

/-- invariant of a receive side; `P` = "this datagram was presented" -/
structure Recv.Good (a : AEAD) (proto : Nat) (key : Bytes) (P : Bytes → Prop) (st : Recv) : Prop where
  inv : RP.Inv st.window st.accepted
  nodup : (protectedSeqs st.surfaced).Nodup
  sub : ∀ s ∈ protectedSeqs st.surfaced, s ∈ st.accepted
  /-- every accepted sequence was carried by a presented datagram of a replay-protected kind that opened under the key -/
  auth : ∀ s ∈ st.accepted, ∃ buf ty plain, P buf ∧ wireSeq buf = s ∧ SealedOpen a buf proto key ty plain ∧
    ty.applyReplayProtection = true
  /-- every surfaced sealed packet is the `Packet::read` of the plaintext of a presented datagram that opened under
      the key (nonce = its sequence, additional data = version, protocol id, its prefix byte) -/
  surf : ∀ r ∈ st.surfaced, r.2.packetType ≠ .connectionRequest →
    ∃ buf plain, P buf ∧ wireSeq buf = r.1 ∧ SealedOpen a buf proto key r.2.packetType plain ∧
      read r.2.packetType plain = .ok r.2

theorem Recv.good_init (a : AEAD) (proto : Nat) (key : Bytes) (P : Bytes → Prop) : Recv.Good a proto key P Recv.init :=
  ⟨RP.inv_new, List.nodup_nil, by simp [Recv.init, protectedSeqs], by simp [Recv.init], by simp [Recv.init]⟩

theorem Recv.good_step {a : AEAD} {proto : Nat} {key : Bytes} {P : Bytes → Prop} {st : Recv}
    (h : Recv.Good a proto key P st) (b : Bytes) (hb : P b) :
    Recv.Good a proto key P (Recv.step a proto key st b) := by
  obtain ⟨hinv, hnd, hsub, hauth, hsurf⟩ := h
  unfold Recv.step
  cases hdec : decode a b proto (some key) (some st.window) with
  | mk r w' =>
    cases r with
    | ok sp =>
      obtain ⟨s, p⟩ := sp
      simp only []
      rcases decode_ok hdec with ⟨hw, hs0, _, _, hpt, _, _⟩ | ⟨k, ty, plain, hk, hso, hd, hs, hr, hw⟩
      · -- connection request: nothing moves
        have hnp : p.packetType.applyReplayProtection = false := by rw [hpt]; rfl
        subst hw
        simp only [hnp, Bool.false_eq_true, if_false, Option.getD_some]
        refine ⟨hinv, ?_, ?_, hauth, ?_⟩
        · simpa [protectedSeqs, hnp] using hnd
        · intro x hx; apply hsub; simpa [protectedSeqs, hnp] using hx
        · intro r hr hne
          rcases List.mem_cons.1 hr with rfl | hr
          · exact absurd hpt hne
          · exact hsurf r hr hne
      · cases hk
        have hpt : p.packetType = ty := (read_ok hr).2.1
        have hsurf' : ∀ r ∈ (s, p) :: st.surfaced, r.2.packetType ≠ .connectionRequest →
            ∃ buf plain, P buf ∧ wireSeq buf = r.1 ∧ SealedOpen a buf proto key r.2.packetType plain ∧
              read r.2.packetType plain = .ok r.2 := by
          intro r hmem hne
          rcases List.mem_cons.1 hmem with rfl | hmem
          · exact ⟨b, plain, hb, hs.symm, by rw [hpt]; exact hso, by rw [hpt]; exact hr⟩
          · exact hsurf r hmem hne
        by_cases hprot : ty.applyReplayProtection = true
        · have hfalse : st.window.alreadyReceived s = false := by
            rw [isDup_some, hprot, Bool.true_and] at hd; exact hd
          have hslt : s < 2 ^ 64 := by rw [hs]; exact wireSeq_lt hso.seq_len
          subst hw
          simp only [hpt, hprot, if_true, stepWindow_protected hprot, Option.map_some, Option.getD_some]
          have hinv' := RP.inv_advance hinv hslt hfalse
          have hnotin : s ≠ 2 ^ 64 - 1 → s ∉ st.accepted := fun hne hmem => by
            rw [RP.no_reaccept hinv hmem hne] at hfalse; cases hfalse
          refine ⟨hinv', ?_, ?_, ?_, hsurf'⟩
          · by_cases hne : s = 2 ^ 64 - 1
            · simpa [protectedSeqs, hne] using hnd
            · have : protectedSeqs ((s, p) :: st.surfaced) = s :: protectedSeqs st.surfaced := by
                simp [protectedSeqs, hpt, hprot, hne]
              rw [this]
              exact List.nodup_cons.2 ⟨fun hm => hnotin hne (hsub s hm), hnd⟩
          · intro x hx
            by_cases hne : s = 2 ^ 64 - 1
            · have : x ∈ protectedSeqs st.surfaced := by simpa [protectedSeqs, hne] using hx
              exact List.mem_cons_of_mem _ (hsub x this)
            · have : protectedSeqs ((s, p) :: st.surfaced) = s :: protectedSeqs st.surfaced := by
                simp [protectedSeqs, hpt, hprot, hne]
              rw [this] at hx
              rcases List.mem_cons.1 hx with rfl | hx
              · exact List.mem_cons_self
              · exact List.mem_cons_of_mem _ (hsub x hx)
          · intro x hx
            rcases List.mem_cons.1 hx with rfl | hx
            · exact ⟨b, ty, plain, hb, hs.symm, hso, hprot⟩
            · exact hauth x hx
        · have hprot : ty.applyReplayProtection = false := by simpa using hprot
          subst hw
          simp only [hpt, hprot, Bool.false_eq_true, if_false, stepWindow_unprotected hprot, Option.getD_some]
          refine ⟨hinv, ?_, ?_, hauth, hsurf'⟩
          · simpa [protectedSeqs, hpt, hprot] using hnd
          · intro x hx; apply hsub; simpa [protectedSeqs, hpt, hprot] using hx
    | err e =>
      simp only []
      rcases decode_err hdec with hw | ⟨k, plain, hk, hso, hd, _, _, hw⟩
      · subst hw
        simp only [Option.getD_some, if_true]
        exact ⟨hinv, hnd, hsub, hauth, hsurf⟩
      · cases hk
        have hfalse : st.window.alreadyReceived (wireSeq b) = false := by
          rw [isDup_some] at hd; simpa [PacketType.applyReplayProtection] using hd
        have hslt : wireSeq b < 2 ^ 64 := wireSeq_lt hso.seq_len
        have hinv' := RP.inv_advance hinv hslt hfalse
        subst hw
        simp only [Option.map_some, Option.getD_some]
        split
        · rename_i heq
          refine ⟨by rw [heq]; exact hinv, hnd, hsub, hauth, hsurf⟩
        · refine ⟨hinv', hnd, fun x hx => List.mem_cons_of_mem _ (hsub x hx), ?_, hsurf⟩
          intro x hx
          rcases List.mem_cons.1 hx with rfl | hx
          · exact ⟨b, .keepAlive, plain, hb, rfl, hso, rfl⟩
          · exact hauth x hx
    | panic m =>
      have := decode_total a b proto (some key) (some st.window) m
      rw [hdec] at this; exact absurd rfl this

theorem Recv.good_foldl {a : AEAD} {proto : Nat} {key : Bytes} {P : Bytes → Prop} (bufs : List Bytes)
    (hP : ∀ b ∈ bufs, P b) {st : Recv}
    (h : Recv.Good a proto key P st) : Recv.Good a proto key P (bufs.foldl (Recv.step a proto key) st) := by
  induction bufs generalizing st with
  | nil => exact h
  | cons b bs ih =>
    exact ih (fun x hx => hP x (List.mem_cons_of_mem _ hx)) (Recv.good_step h b (hP b List.mem_cons_self))

theorem Recv.good_run (a : AEAD) (proto : Nat) (key : Bytes) (bufs : List Bytes) :
    Recv.Good a proto key (· ∈ bufs) (Recv.run a proto key bufs) :=
  Recv.good_foldl bufs (fun _ h => h) (Recv.good_init a proto key _)

end Packet
end RenetVerif.Netcode

/-! # 3. tokens, server, client -/
namespace RenetVerif
namespace Res

/-- `r` does not panic, an `Ok` value satisfies `P`, an `Err` value satisfies `E` -/
def Sat {ε α} (r : Res ε α) (E : ε → Prop) (P : α → Prop) : Prop :=
  match r with
  | .ok a => P a
  | .err e => E e
  | .panic _ => False

@[simp] theorem sat_ok {ε α} (a : α) (E : ε → Prop) (P : α → Prop) : (Res.ok a : Res ε α).Sat E P ↔ P a := Iff.rfl
@[simp] theorem sat_err {ε α} (e : ε) (E : ε → Prop) (P : α → Prop) : (Res.err e : Res ε α).Sat E P ↔ E e := Iff.rfl
@[simp] theorem sat_panic {ε α} (m : String) (E : ε → Prop) (P : α → Prop) : (Res.panic m : Res ε α).Sat E P ↔ False := Iff.rfl
@[simp] theorem sat_pure {ε α} (a : α) (E : ε → Prop) (P : α → Prop) : (pure a : Res ε α).Sat E P ↔ P a := Iff.rfl

theorem sat_bind {ε α β} {x : Res ε α} {f : α → Res ε β} {E : ε → Prop} {Q : α → Prop} {P : β → Prop}
    (hx : x.Sat E Q) (hf : ∀ a, Q a → (f a).Sat E P) : (x >>= f).Sat E P := by
  cases x with
  | ok a => exact hf a hx
  | err e => exact hx
  | panic m => exact hx

theorem Sat.mono {ε α} {r : Res ε α} {E E' : ε → Prop} {P P' : α → Prop} (h : r.Sat E P)
    (hE : ∀ e, E e → E' e) (hP : ∀ a, P a → P' a) : r.Sat E' P' := by
  cases r with
  | ok a => exact hP a h
  | err e => exact hE e h
  | panic m => exact h

theorem Sat.no_panic {ε α} {r : Res ε α} {E : ε → Prop} {P : α → Prop} (h : r.Sat E P) (m : String) : r ≠ .panic m := by
  intro hm; rw [hm] at h; exact h

theorem Sat.of_ok {ε α} {r : Res ε α} {E : ε → Prop} {P : α → Prop} (h : r.Sat E P) {a : α} (hr : r = .ok a) : P a := by
  rw [hr] at h; exact h

theorem sat_of_eq {ε α} {r : Res ε α} {E : ε → Prop} {P : α → Prop}
    (hp : ∀ m, r ≠ .panic m) (he : ∀ e, r = .err e → E e) (ho : ∀ a, r = .ok a → P a) : r.Sat E P := by
  cases r with
  | ok a => exact ho a rfl
  | err e => exact he e rfl
  | panic m => exact absurd rfl (hp m)

/-- partial correctness: if `r` is `Ok a` then `P a` -/
def Post {ε α} (r : Res ε α) (P : α → Prop) : Prop := ∀ a, r = .ok a → P a

theorem post_bind {ε α β} {x : Res ε α} {f : α → Res ε β} {P : β → Prop}
    (hf : ∀ a, x = .ok a → (f a).Post P) : (x >>= f).Post P := by
  cases x with
  | ok a => exact hf a rfl
  | err e => intro b hb; cases hb
  | panic m => intro b hb; cases hb

theorem post_ok {ε α} {a : α} {P : α → Prop} (h : P a) : (Res.ok a : Res ε α).Post P := by
  intro b hb; cases hb; exact h
theorem post_pure {ε α} {a : α} {P : α → Prop} (h : P a) : (pure a : Res ε α).Post P := post_ok h
theorem post_err {ε α} {e : ε} {P : α → Prop} : (Res.err e : Res ε α).Post P := by intro b hb; cases hb
theorem post_panic {ε α} {m : String} {P : α → Prop} : (Res.panic m : Res ε α).Post P := by intro b hb; cases hb

end Res

namespace Netcode
open Res

theorem sat_io? {α} {x : Option α} {E : NetcodeError → Prop} {Q : α → Prop} (hE : E .ioError)
    (h : ∀ v, x = some v → Q v) : (io? x).Sat E Q := by
  cases x with
  | none => exact hE
  | some v => exact h v rfl

/-! ## connect tokens: parsing is total (C07) -/

theorem readServerAddresses_head {src : Bytes} {arr : AddrArray} {r : Bytes}
    (h : readServerAddresses src = some (arr, r)) :
    (∃ x, arr.head? = some (some x)) ∧ C.NETCODE_TOKEN_MAX_ADDRESSES ≤ arr.length := by
  unfold readServerAddresses at h
  simp only [Option.bind_eq_bind, Option.bind_eq_some_iff] at h
  obtain ⟨⟨num, r1⟩, _, ⟨l, r2⟩, _, h⟩ := h
  simp only [] at h
  split at h
  · rename_i x hx
    simp only [Option.pure_def, Option.some.injEq, Prod.mk.injEq] at h
    rw [← h.1]
    refine ⟨⟨_, hx⟩, ?_⟩
    simp only [List.length_append, List.length_replicate]; omega
  · cases h

theorem readI32_lt {src r : Bytes} {t : Int} (h : readI32 src = some (t, r)) : t < 2 ^ 31 := by
  unfold readI32 at h
  cases hu : readU 4 src with
  | none => rw [hu] at h; cases h
  | some vr =>
    obtain ⟨v, r'⟩ := vr
    rw [hu] at h; cases h
    have hv := (readU_some hu).2.2.2
    unfold i32OfU32
    split <;> omega

/-- `ConnectToken::read` returns `Ok` or `Err` on every byte string, and a token it accepts has a server
    address in its first slot (the repaired defect D7). -/
theorem ConnectToken.read_sat (src : Bytes) :
    (ConnectToken.read src).Sat (fun _ => True) (fun t => (∃ x, t.serverAddresses.head? = some (some x)) ∧
      C.NETCODE_TOKEN_MAX_ADDRESSES ≤ t.serverAddresses.length ∧ t.timeoutSeconds < 2 ^ 31) := by
  unfold ConnectToken.read
  refine sat_bind (Q := fun _ => True) (sat_io? trivial fun _ _ => trivial) ?_; rintro ⟨clientId, r⟩ _
  refine sat_bind (Q := fun _ => True) (sat_io? trivial fun _ _ => trivial) ?_; rintro ⟨versionInfo, r⟩ _
  dsimp only
  split
  · trivial
  refine sat_bind (Q := fun _ => True) (sat_io? trivial fun _ _ => trivial) ?_; rintro ⟨protocolId, r⟩ _
  refine sat_bind (Q := fun _ => True) (sat_io? trivial fun _ _ => trivial) ?_; rintro ⟨createTimestamp, r⟩ _
  refine sat_bind (Q := fun _ => True) (sat_io? trivial fun _ _ => trivial) ?_; rintro ⟨expireTimestamp, r⟩ _
  refine sat_bind (Q := fun _ => True) (sat_io? trivial fun _ _ => trivial) ?_; rintro ⟨xnonce, r⟩ _
  refine sat_bind (Q := fun _ => True) (sat_io? trivial fun _ _ => trivial) ?_; rintro ⟨privateData, r⟩ _
  refine sat_bind (Q := fun p => p.1 < 2 ^ 31) (sat_io? trivial fun v hv => readI32_lt (r := v.2) hv) ?_
  rintro ⟨timeoutSeconds, r⟩ hto
  refine sat_bind (Q := fun p => (∃ x, p.1.head? = some (some x)) ∧ C.NETCODE_TOKEN_MAX_ADDRESSES ≤ p.1.length)
    (sat_io? trivial fun v hv => readServerAddresses_head (r := v.2) hv) ?_
  rintro ⟨serverAddresses, r⟩ hsa
  refine sat_bind (Q := fun _ => True) (sat_io? trivial fun _ _ => trivial) ?_; rintro ⟨clientToServerKey, r⟩ _
  refine sat_bind (Q := fun _ => True) (sat_io? trivial fun _ _ => trivial) ?_; rintro ⟨serverToClientKey, r⟩ _
  exact ⟨hsa.1, hsa.2, hto⟩

theorem ConnectToken.read_total (src : Bytes) (m : String) : ConnectToken.read src ≠ .panic m :=
  (ConnectToken.read_sat src).no_panic m

/-- `NetcodeClient::new` does not panic on a token `ConnectToken::read` accepted -/
theorem NetcodeClient.new_of_read {src : Bytes} {t : ConnectToken} (h : ConnectToken.read src = .ok t) (now : Nat) :
    ∃ c, NetcodeClient.new now t = .ok c := by
  obtain ⟨⟨x, hx⟩, _⟩ := (ConnectToken.read_sat src).of_ok h
  unfold NetcodeClient.new
  rw [hx]
  exact ⟨_, rfl⟩


/-! ## server: counters, replies -/

theorem incU64_ok {ε} {a : Nat} (h : a + 1 ≤ U64_MAX) (site : String) : (incU64 a site : Res ε Nat) = .ok (a + 1) := by
  simp [incU64, h]

theorem mem_pendingSet {m : List (Addr × Connection)} {addr : Addr} {c : Connection} {x : Addr × Connection}
    (h : x ∈ pendingSet m addr c) : x ∈ m ∨ x.2 = c := by
  induction m with
  | nil => simp [pendingSet] at h; right; rw [h]
  | cons y ys ih =>
    obtain ⟨a', c'⟩ := y
    simp only [pendingSet] at h
    split at h
    · rcases List.mem_cons.1 h with h | h
      · right; rw [h]
      · left; exact List.mem_cons_of_mem _ h
    · rcases List.mem_cons.1 h with h | h
      · left; rw [h]; exact List.mem_cons_self
      · rcases ih h with h | h
        · left; exact List.mem_cons_of_mem _ h
        · right; exact h

theorem mem_pendingRemove {m : List (Addr × Connection)} {addr : Addr} {x : Addr × Connection}
    (h : x ∈ pendingRemove m addr) : x ∈ m := (List.mem_filter.1 h).1

theorem pendingFind_mem {m : List (Addr × Connection)} {addr : Addr} {c : Connection}
    (h : pendingFind m addr = some c) : (addr, c) ∈ m := by
  induction m with
  | nil => cases h
  | cons y ys ih =>
    obtain ⟨a', c'⟩ := y
    simp only [pendingFind] at h
    split at h
    · rename_i heq; cases h; rw [heq]; exact List.mem_cons_self
    · exact List.mem_cons_of_mem _ (ih h)

theorem pendingSet_self {m : List (Addr × Connection)} {addr : Addr} {c : Connection}
    (h : pendingFind m addr = some c) : pendingSet m addr c = m := by
  induction m with
  | nil => cases h
  | cons y ys ih =>
    obtain ⟨a', c'⟩ := y
    simp only [pendingFind] at h
    simp only [pendingSet]
    split at h
    · rename_i heq; cases h; rw [if_pos heq]
    · rename_i hne; rw [if_neg hne, ih h]

namespace Packet

theorem encode_sealed_ok (a : AEAD) (hl : a.Laws) (p : Packet) (cap proto seq : Nat) (key : Bytes)
    (hp : p.packetType ≠ .connectionRequest) (hc : p.body.length + 25 ≤ cap) :
    encode a p cap proto (some (seq, key)) = .ok (sealedBytes a p proto seq key) ∧
    (sealedBytes a p proto seq key).length = 1 + sequenceBytesRequired seq + p.body.length + 16 ∧
    (sealedBytes a p proto seq key).length ≤ p.body.length + 25 := by
  have h8 := sbr_le seq
  have hlen := sealed_length a p proto seq key hl
  refine ⟨?_, hlen, by omega⟩
  rw [encode_sealed_eq a p cap proto seq key hp, if_pos (by omega)]

/-- `encode` of a sealed kind never panics; what it returns is at most body + 25 bytes long (AEAD laws) -/
theorem encode_sealed_sat (a : AEAD) (p : Packet) (cap proto seq : Nat) (key : Bytes)
    (hp : p.packetType ≠ .connectionRequest) :
    (encode a p cap proto (some (seq, key))).Sat (fun _ => True) (fun out => a.Laws → out.length ≤ p.body.length + 25) := by
  rw [encode_sealed_eq a p cap proto seq key hp]
  split
  · intro hl
    have h8 := sbr_le seq
    have hlen := sealed_length a p proto seq key hl
    omega
  · trivial

end Packet

theorem ChallengeToken.generate_sat (a : AEAD) (cid : Nat) (ud : Bytes) (cs : Nat) (key : Bytes) :
    (ChallengeToken.generate a cid ud cs key).Sat (fun _ => True)
      (fun p => ∃ d, p = .challenge cs d ∧ (a.Laws → d.length = C.NETCODE_CHALLENGE_TOKEN_BYTES)) := by
  unfold ChallengeToken.generate
  refine sat_bind (Q := fun w => w.cap = C.NETCODE_CHALLENGE_TOKEN_BYTES ∧ w.out.length ≤ w.cap) (sat_io? trivial ?_) ?_
  · intro w hw
    rw [Wr.writeAll_eq] at hw
    split at hw
    · cases hw; rename_i h; exact ⟨rfl, by simpa [Wr.new] using h⟩
    · cases hw
  intro w hw
  refine sat_bind (Q := fun w => w.cap = C.NETCODE_CHALLENGE_TOKEN_BYTES ∧ w.out.length ≤ w.cap) (sat_io? trivial ?_) ?_
  · intro w' hw'
    rw [Wr.writeAll_eq] at hw'
    split at hw'
    · cases hw'; rename_i h
      exact ⟨hw.1, by simpa using h⟩
    · cases hw'
  intro w' hw'
  refine ⟨_, rfl, ?_⟩
  intro hl
  obtain ⟨hc, hw'⟩ := hw'
  rw [hc] at hw'
  simp only [Packet.sealBody, hl.seal_length, List.length_take, List.length_append, List.length_replicate,
    Packet.challenge_eq, Packet.mac_eq] at hw' ⊢
  omega


namespace NetcodeServer

/-- counters leave room for `n` more increments (`u64` additions in the debug profile panic on overflow);
    the only state condition `process_packet` needs -/
def SInv (n : Nat) (s : NetcodeServer) : Prop :=
  s.globalSequence + n ≤ U64_MAX ∧ s.challengeSequence + n ≤ U64_MAX ∧
  ∀ x ∈ s.pendingClients, x.2.sequence + n ≤ U64_MAX

theorem SInv.mono {n m : Nat} {s : NetcodeServer} (h : SInv n s) (hm : m ≤ n) : SInv m s :=
  ⟨by have := h.1; omega, by have := h.2.1; omega, fun x hx => by have := h.2.2 x hx; omega⟩

/-- what `process_packet` may answer to an address that is not connected: nothing, or — only if `V` holds —
    one datagram to that same address, of at most `bound` bytes if `L` (the AEAD length laws) holds -/
def Reply (L V : Prop) (addr : Addr) (bound : Nat) (r : ServerResult) : Prop :=
  r = .none ∨ (V ∧ ((∃ out, r = .packetToSend addr out ∧ (L → out.length ≤ bound)) ∨
                     (∃ id ud out, r = .clientConnected id addr ud out ∧ (L → out.length ≤ bound))))

/-- the fields `find_or_add_connect_token_entry` leaves alone -/
def SameButEntries (s s' : NetcodeServer) : Prop :=
  s'.globalSequence = s.globalSequence ∧ s'.challengeSequence = s.challengeSequence ∧
  s'.pendingClients = s.pendingClients ∧ s'.clients = s.clients ∧ s'.protocolId = s.protocolId ∧
  s'.currentTime = s.currentTime

theorem findOrAdd_fields (s : NetcodeServer) (e : ConnectTokenEntry) :
    SameButEntries s (s.findOrAddConnectTokenEntry e).1 := by
  unfold findOrAddConnectTokenEntry
  dsimp only
  split <;> exact ⟨rfl, rfl, rfl, rfl, rfl, rfl⟩

theorem PrivateConnectToken_decode_no_panic (a : AEAD) {buffer : Bytes} (h : C.NETCODE_MAC_BYTES ≤ buffer.length)
    (proto exp : Nat) (xn key : Bytes) (m : String) :
    PrivateConnectToken.decode a buffer proto exp xn key ≠ .panic m := by
  unfold PrivateConnectToken.decode
  rw [if_neg (by omega)]
  split
  · simp
  · split <;> simp

theorem lift_sat {α} {x : NRes α} {s : NetcodeServer} {E : NetcodeError × NetcodeServer → Prop} {Q : α → Prop}
    (hx : x.Sat (fun _ => True) Q) (hE : ∀ e, E (e, s)) : (lift s x).Sat E Q := by
  cases x with
  | ok a => exact hx
  | err e => exact hE e
  | panic m => exact hx

theorem denied_body : Packet.connectionDenied.body.length = 0 := rfl
theorem max_packet_eq : C.NETCODE_MAX_PACKET_BYTES = 1400 := rfl

/-- a request is answered with a challenge (1 + ≤8 + 8 + 300 + 16) or a denial (1 + ≤8 + 16) -/
def REQUEST_REPLY_MAX : Nat := 1 + 8 + 8 + C.NETCODE_CHALLENGE_TOKEN_BYTES + C.NETCODE_MAC_BYTES

theorem handleConnectionRequest_sat (a : AEAD) {n : Nat} {s : NetcodeServer} (hinv : SInv (n + 1) s)
    (addr : Addr) (v : Bytes) (pid e : Nat) (x data : Bytes) (hd : C.NETCODE_MAC_BYTES ≤ data.length) :
    (handleConnectionRequest a s addr v pid e x data).Sat (fun es => SInv n es.2)
      (fun rs => SInv n rs.2 ∧
        Reply a.Laws (v = C.NETCODE_VERSION_INFO ∧ pid = s.protocolId ∧ ¬ asSecs s.currentTime ≥ e ∧
               ∃ tok, PrivateConnectToken.decode a data s.protocolId e x s.connectKey = .ok tok)
          addr REQUEST_REPLY_MAX rs.1) := by
  have hinv0 : SInv n s := hinv.mono (by omega)
  unfold handleConnectionRequest
  split
  · exact hinv0
  rename_i hv
  split
  · exact hinv0
  rename_i hp
  split
  · exact hinv0
  rename_i he
  split
  · rename_i m hm; exact absurd hm (PrivateConnectToken_decode_no_panic a hd _ _ _ _ m)
  · exact hinv0
  rename_i tok htok
  have hV : v = C.NETCODE_VERSION_INFO ∧ pid = s.protocolId ∧ ¬ asSecs s.currentTime ≥ e ∧
      ∃ tok, PrivateConnectToken.decode a data s.protocolId e x s.connectKey = .ok tok :=
    ⟨by simpa using hv, by simpa using hp, he, tok, htok⟩
  dsimp only
  split
  · exact hinv0
  split
  · exact ⟨hinv0, Or.inl rfl⟩
  split
  · exact ⟨hinv0, Or.inl rfl⟩
  generalize hfa : s.findOrAddConnectTokenEntry _ = fa
  have hf : SameButEntries s fa.1 := by rw [← hfa]; exact findOrAdd_fields s _
  obtain ⟨s1, added⟩ := fa
  simp only [SameButEntries] at hf
  obtain ⟨hg, hc, hpc, hcl, hpr, hct⟩ := hf
  have hinv1 : SInv (n + 1) s1 := ⟨by rw [hg]; exact hinv.1, by rw [hc]; exact hinv.2.1, by rw [hpc]; exact hinv.2.2⟩
  split
  · exact ⟨hinv1.mono (by omega), Or.inl rfl⟩
  have hmac : C.NETCODE_MAC_BYTES = 16 := rfl
  have hch : C.NETCODE_CHALLENGE_TOKEN_BYTES = 300 := rfl
  split
  · -- server full: denied
    dsimp only
    have henc := Packet.encode_sealed_sat a .connectionDenied C.NETCODE_MAX_PACKET_BYTES s1.protocolId
      s1.globalSequence tok.serverToClientKey (by decide)
    refine sat_bind (Q := fun out => a.Laws → out.length ≤ REQUEST_REPLY_MAX) (lift_sat (henc.mono (fun _ h => h) ?_) ?_) ?_
    · intro out h hl; have := h hl; rw [denied_body] at this
      simp only [REQUEST_REPLY_MAX, hmac, hch]; omega
    · intro _
      exact ⟨by have := hinv1.1; dsimp only; omega, by have := hinv1.2.1; dsimp only; omega,
        fun x hx => by have := hinv1.2.2 x (mem_pendingRemove hx); omega⟩
    intro out hout
    rw [incU64_ok (by have := hinv1.1; omega)]
    refine ⟨⟨by have := hinv1.1; dsimp only; omega, by have := hinv1.2.1; dsimp only; omega,
        fun x hx => by have := hinv1.2.2 x (mem_pendingRemove hx); omega⟩, Or.inr ⟨hV, Or.inl ⟨out, rfl, hout⟩⟩⟩
  · -- challenge
    dsimp only
    rw [incU64_ok (by have := hinv1.2.1; omega)]
    simp only [Res.bind_ok]
    have hE : ∀ (e : NetcodeError), SInv n (e, { s1 with challengeSequence := s1.challengeSequence + 1 }).2 := fun _ =>
      ⟨by have := hinv1.1; dsimp only; omega, by have := hinv1.2.1; dsimp only; omega,
        fun x hx => by have := hinv1.2.2 x hx; omega⟩
    refine sat_bind (lift_sat (ChallengeToken.generate_sat a _ _ _ _) hE) ?_
    rintro packet ⟨d, rfl, hdl⟩
    have henc := Packet.encode_sealed_sat a (.challenge (s1.challengeSequence + 1) d) C.NETCODE_MAX_PACKET_BYTES
      s1.protocolId s1.globalSequence tok.serverToClientKey (by simp [Packet.packetType])
    refine sat_bind (Q := fun out => a.Laws → out.length ≤ REQUEST_REPLY_MAX) (lift_sat (henc.mono (fun _ h => h) ?_) hE) ?_
    · intro out h hl; have := h hl; have hdl := hdl hl
      simp only [Packet.body, List.length_append, leBytes_length, hdl, hch] at this
      simp only [REQUEST_REPLY_MAX, hmac, hch]; omega
    intro out hout
    rw [incU64_ok (by have := hinv1.1; omega)]
    refine ⟨⟨by have := hinv1.1; dsimp only; omega, by have := hinv1.2.1; dsimp only; omega, ?_⟩,
      Or.inr ⟨hV, Or.inl ⟨out, rfl, hout⟩⟩⟩
    intro x hx
    rcases mem_pendingSet hx with hx | hx
    · have := hinv1.2.2 x hx; omega
    · rw [hx]; have := hinv.1; dsimp only; omega


theorem Reply.mono {L V V' : Prop} {addr : Addr} {b b' : Nat} {r : ServerResult} (h : Reply L V addr b r)
    (hV : V → V') (hb : b ≤ b') : Reply L V' addr b' r := by
  rcases h with h | ⟨hv, h⟩
  · exact Or.inl h
  · refine Or.inr ⟨hV hv, ?_⟩
    rcases h with ⟨out, h1, h2⟩ | ⟨id, ud, out, h1, h2⟩
    · exact Or.inl ⟨out, h1, fun hl => by have := h2 hl; omega⟩
    · exact Or.inr ⟨id, ud, out, h1, fun hl => by have := h2 hl; omega⟩

theorem ChallengeToken_decode_no_panic (a : AEAD) {td : Bytes} (h : C.NETCODE_MAC_BYTES ≤ td.length) (ts : Nat)
    (key : Bytes) (m : String) : ChallengeToken.decode a td ts key ≠ .panic m := by
  unfold ChallengeToken.decode Packet.openBody
  rw [if_neg (by omega)]
  cases a.open key (Packet.nonce ts) [] td with
  | none => simp
  | some plain =>
    simp only [Res.bind_ok]
    cases (do
      let (cid, r) ← readU64 (plain ++ List.drop plain.length td)
      let (ud, _) ← readN C.NETCODE_USER_DATA_BYTES r
      pure ({ clientId := cid, userData := ud } : ChallengeToken) : Option ChallengeToken) <;> simp [io?]

/-- least length of a datagram that decodes to a response: 1 + 0 + (8 + 300) + 16 -/
def RESPONSE_MIN : Nat := 1 + 8 + C.NETCODE_CHALLENGE_TOKEN_BYTES + C.NETCODE_MAC_BYTES
/-- a response is answered with a keep-alive (1 + ≤8 + 8 + 16) or a denial (1 + ≤8 + 16) -/
def RESPONSE_REPLY_MAX : Nat := 1 + 8 + 8 + C.NETCODE_MAC_BYTES

/-- the datagram is a connection request whose version, protocol id and expiry pass and whose private token
    opens under the server's connect key -/
def ValidRequest (a : AEAD) (s : NetcodeServer) (buf : Bytes) : Prop :=
  1 + Packet.REQUEST_BODY ≤ buf.length ∧ Packet.wireType buf = 0 ∧
  ∃ v pid e x data, Packet.read .connectionRequest (buf.drop 1) = .ok (.connectionRequest v pid e x data) ∧
    v = C.NETCODE_VERSION_INFO ∧ pid = s.protocolId ∧ ¬ asSecs s.currentTime ≥ e ∧
    ∃ tok, PrivateConnectToken.decode a data s.protocolId e x s.connectKey = .ok tok

/-- the datagram opens under the pending connection's key as a response whose challenge token opens under the
    challenge key and names the pending client -/
def ValidResponse (a : AEAD) (s : NetcodeServer) (addr : Addr) (buf : Bytes) : Prop :=
  (a.Laws → RESPONSE_MIN ≤ buf.length) ∧
  ∃ pending seq ts td ct, pendingFind s.pendingClients addr = some pending ∧
    (Packet.decode a buf s.protocolId (some pending.receiveKey) (some pending.replayProtection)).1
      = .ok (seq, .response ts td) ∧
    ChallengeToken.decode a td ts s.challengeKey = .ok ct ∧ ct.clientId = pending.clientId ∧
    ct.userData = pending.userData

theorem request_of_decode {a : AEAD} {buf : Bytes} {proto : Nat} {key : Option Bytes} {rp rp' : Option RP}
    {seq : Nat} {v : Bytes} {pid e : Nat} {x data : Bytes}
    (h : Packet.decode a buf proto key rp = (.ok (seq, .connectionRequest v pid e x data), rp')) :
    rp' = rp ∧ (1 + Packet.REQUEST_BODY ≤ buf.length ∧ Packet.wireType buf = 0) ∧
    Packet.read .connectionRequest (buf.drop 1) = .ok (.connectionRequest v pid e x data) ∧
    data.length = C.NETCODE_CONNECT_TOKEN_PRIVATE_BYTES := by
  rcases Packet.decode_ok h with ⟨h1, _, h3, h4, _, h6, h7⟩ | ⟨k, ty, plain, _, hso, _, _, hr, _⟩
  · exact ⟨h1, ⟨h4, h3⟩, h7, h6.2.2.2.2⟩
  · have := (Packet.read_ok hr).2.1
    exact absurd this.symm hso.not_request

local macro "ar" : tactic => `(tactic| first | (dsimp only; omega) | omega)

theorem unconnected_sat (a : AEAD) {n : Nat} {s : NetcodeServer} (hinv : SInv (n + 1) s)
    (addr : Addr) (buf : Bytes) (hfind : findClientByAddr s.clients addr = none) :
    (processPacketInternal a s addr buf).Sat (fun es => SInv n es.2)
      (fun rs => SInv n rs.2 ∧
        (Reply a.Laws (ValidRequest a s buf) addr REQUEST_REPLY_MAX rs.1 ∨
         Reply a.Laws (ValidResponse a s addr buf) addr RESPONSE_REPLY_MAX rs.1)) := by
  have hinv0 : SInv n s := hinv.mono (by omega)
  unfold processPacketInternal
  split
  · exact hinv0
  rw [hfind]
  dsimp only
  cases hpf : pendingFind s.pendingClients addr with
  | some pending =>
    dsimp only
    generalize hdec : Packet.decode a buf s.protocolId (some pending.receiveKey) (some pending.replayProtection) = dr
    obtain ⟨r, rp⟩ := dr
    dsimp only
    have hpmem := pendingFind_mem hpf
    have hseq : ∀ (c : Connection) (m : List (Addr × Connection)) (x : Addr × Connection),
        x ∈ pendingSet m addr c → c.sequence = pending.sequence → x ∈ m ∨ x.2.sequence + (n + 1) ≤ U64_MAX := by
      intro c m x hx hc
      rcases mem_pendingSet hx with h | h
      · exact Or.inl h
      · right; rw [h, hc]; exact hinv.2.2 _ hpmem
    cases r with
    | panic m =>
      have := Packet.decode_total a buf s.protocolId (some pending.receiveKey) (some pending.replayProtection) m
      rw [hdec] at this; exact absurd rfl this
    | err e =>
      refine ⟨hinv0.1, hinv0.2.1, fun x hx => ?_⟩
      rcases hseq _ _ x hx rfl with h | h
      · exact hinv0.2.2 x h
      · omega
    | ok sp =>
      obtain ⟨seq, packet⟩ := sp
      dsimp only
      have hsub : ∀ (c1 c2 : Connection) (x : Addr × Connection),
          x ∈ pendingSet (pendingSet s.pendingClients addr c1) addr c2 → c1.sequence = pending.sequence →
          c2.sequence = pending.sequence → x.2.sequence + (n + 1) ≤ U64_MAX := by
        intro c1 c2 x hx h1 h2
        rcases hseq _ _ x hx h2 with h | h
        · rcases hseq _ _ x h h1 with h | h
          · exact hinv.2.2 x h
          · exact h
        · exact h
      have hg := hinv.1
      have hcs := hinv.2.1
      cases packet with
      | connectionRequest v pid e x data =>
        dsimp only
        obtain ⟨_, hlen, hread, hdl⟩ := request_of_decode hdec
        refine Sat.mono (handleConnectionRequest_sat a (n := n) ?hi addr v pid e x data (by rw [hdl]; decide))
          (fun _ h => h) (fun rs h => ⟨h.1, Or.inl (h.2.mono ?_ (Nat.le_refl _))⟩)
        case hi => exact ⟨hg, hcs, fun x hx => hsub _ _ x hx rfl rfl⟩
        rintro ⟨h1, h2, h3, h4⟩
        exact ⟨hlen.1, hlen.2, v, pid, e, x, data, hread, h1, h2, h3, h4⟩
      | response ts td =>
        dsimp only
        have hmac : C.NETCODE_MAC_BYTES = 16 := rfl
        have hch : C.NETCODE_CHALLENGE_TOKEN_BYTES = 300 := rfl
        -- the datagram is at least 325 bytes long and the token data 300
        have hfacts : (a.Laws → RESPONSE_MIN ≤ buf.length) ∧ td.length = C.NETCODE_CHALLENGE_TOKEN_BYTES := by
          rcases Packet.decode_ok hdec with ⟨_, _, _, _, hpt, _, _⟩ | ⟨k, ty, plain, _, hso, _, _, hr, _⟩
          · cases hpt
          · obtain ⟨hmin, hpt, hwf, _⟩ := Packet.read_ok hr
            have hty : ty = .response := hpt.symm
            subst hty
            refine ⟨fun hl => ?_, hwf.2⟩
            have hol := hl.open_length _ _ _ _ _ hso.opened
            simp only [Packet.minBody, Packet.wireBody, List.length_drop] at hmin hol
            have := hso.len
            simp only [RESPONSE_MIN, hmac, hch] at *; omega
        obtain ⟨hlen, htd⟩ := hfacts
        refine sat_bind (Q := fun ct => ChallengeToken.decode a td ts s.challengeKey = .ok ct)
          (lift_sat ?_ ?_) ?_
        · exact sat_of_eq (ChallengeToken_decode_no_panic a (by rw [htd]; decide) _ _) (fun _ _ => trivial)
            (fun ct h => h)
        · intro _
          exact ⟨by ar, by ar, fun x hx => by have := hsub _ _ x hx rfl rfl; ar⟩
        intro ct hct
        split
        · exact ⟨⟨by ar, by ar, fun x hx => by have := hsub _ _ x hx rfl rfl; ar⟩, Or.inl (Or.inl rfl)⟩
        rename_i hmatch
        have hV : ValidResponse a s addr buf :=
          ⟨hlen, pending, seq, ts, td, ct, hpf, by rw [hdec], hct, by
            by_cases h : ct.clientId = pending.clientId
            · exact h
            · exact absurd (Or.inl h) hmatch, by
            by_cases h : ct.userData = pending.userData
            · exact h
            · exact absurd (Or.inr h) hmatch⟩
        have hrem : ∀ (c1 c2 : Connection) (x : Addr × Connection),
            x ∈ pendingRemove (pendingSet (pendingSet s.pendingClients addr c1) addr c2) addr →
            c1.sequence = pending.sequence → c2.sequence = pending.sequence → x.2.sequence + (n + 1) ≤ U64_MAX :=
          fun c1 c2 x hx h1 h2 => hsub c1 c2 x (mem_pendingRemove hx) h1 h2
        split
        · exact ⟨⟨by ar, by ar, fun x hx => by have := hrem _ _ x hx rfl rfl; ar⟩, Or.inl (Or.inl rfl)⟩
        split
        · -- no free slot: denied
          have henc := Packet.encode_sealed_sat a .connectionDenied C.NETCODE_MAX_PACKET_BYTES s.protocolId
            s.globalSequence pending.sendKey (by decide)
          refine sat_bind (Q := fun out => a.Laws → out.length ≤ RESPONSE_REPLY_MAX)
            (lift_sat (henc.mono (fun _ h => h) ?_) ?_) ?_
          · intro out h hl; have := h hl; rw [denied_body] at this
            simp only [RESPONSE_REPLY_MAX, hmac]; omega
          · intro _
            exact ⟨by ar, by ar, fun x hx => by have := hrem _ _ x hx rfl rfl; ar⟩
          intro out hout
          rw [incU64_ok (by omega)]
          exact ⟨⟨by ar, by ar, fun x hx => by have := hrem _ _ x hx rfl rfl; ar⟩,
            Or.inr (Or.inr ⟨hV, Or.inl ⟨out, rfl, hout⟩⟩)⟩
        · -- connected: keep-alive
          rename_i clientIndex _
          have henc := Packet.encode_sealed_sat a (.keepAlive (clientIndex % 2 ^ 32) (s.maxClients % 2 ^ 32))
            C.NETCODE_MAX_PACKET_BYTES s.protocolId pending.sequence pending.sendKey (by simp [Packet.packetType])
          refine sat_bind (Q := fun out => a.Laws → out.length ≤ RESPONSE_REPLY_MAX)
            (lift_sat (henc.mono (fun _ h => h) ?_) ?_) ?_
          · intro out h hl; have := h hl
            simp only [Packet.body, List.length_append, leBytes_length] at this
            simp only [RESPONSE_REPLY_MAX, hmac]; omega
          · intro _
            exact ⟨by ar, by ar, fun x hx => by have := hrem _ _ x hx rfl rfl; ar⟩
          intro out hout
          have hps := hinv.2.2 _ hpmem
          rw [incU64_ok (by dsimp only at hps ⊢; omega)]
          exact ⟨⟨by ar, by ar, fun x hx => by have := hrem _ _ x hx rfl rfl; ar⟩,
            Or.inr (Or.inr ⟨hV, Or.inr ⟨_, _, out, rfl, hout⟩⟩)⟩
      | _ => exact ⟨⟨by ar, by ar, fun x hx => by have := hsub _ _ x hx rfl rfl; ar⟩, Or.inl (Or.inl rfl)⟩
  | none =>
    dsimp only
    generalize hdec : Packet.decode a buf s.protocolId none none = dr
    obtain ⟨r, rp⟩ := dr
    dsimp only
    cases r with
    | panic m =>
      have := Packet.decode_total a buf s.protocolId none none m
      rw [hdec] at this; exact absurd rfl this
    | err e => exact hinv0
    | ok sp =>
      obtain ⟨seq, packet⟩ := sp
      dsimp only
      rcases Packet.decode_ok hdec with ⟨_, _, _, _, hpt, _, _⟩ | ⟨k, _, _, hk, _⟩
      · cases packet with
        | connectionRequest v pid e x data =>
          dsimp only
          obtain ⟨_, hlen, hread, hdl⟩ := request_of_decode hdec
          refine (handleConnectionRequest_sat a hinv addr v pid e x data (by rw [hdl]; decide)).mono
            (fun _ h => h) (fun rs h => ⟨h.1, Or.inl (h.2.mono ?_ (Nat.le_refl _))⟩)
          rintro ⟨h1, h2, h3, h4⟩
          exact ⟨hlen.1, hlen.2, v, pid, e, x, data, hread, h1, h2, h3, h4⟩
        | _ => cases hpt
      · cases hk


/-! ### connected address -/

theorem findClientByAddr_go_spec {l : List (Option Connection)} {addr : Addr} {i slot : Nat} {c : Connection}
    (h : findClientByAddr.go addr l i = some (slot, c)) :
    i ≤ slot ∧ l[slot - i]? = some (some c) ∧ c.addr = addr := by
  induction l generalizing i with
  | nil => cases h
  | cons x xs ih =>
    cases x with
    | none =>
      simp only [findClientByAddr.go] at h
      obtain ⟨h1, h2, h3⟩ := ih h
      refine ⟨by omega, ?_, h3⟩
      have : slot - i = (slot - (i + 1)) + 1 := by omega
      rw [this, List.getElem?_cons_succ]; exact h2
    | some c' =>
      simp only [findClientByAddr.go] at h
      split at h
      · rename_i heq
        cases h
        exact ⟨Nat.le_refl _, by simp, heq⟩
      · obtain ⟨h1, h2, h3⟩ := ih h
        refine ⟨by omega, ?_, h3⟩
        have : slot - i = (slot - (i + 1)) + 1 := by omega
        rw [this, List.getElem?_cons_succ]; exact h2

theorem findClientByAddr_spec {l : List (Option Connection)} {addr : Addr} {slot : Nat} {c : Connection}
    (h : findClientByAddr l addr = some (slot, c)) : l[slot]? = some (some c) ∧ c.addr = addr := by
  have := findClientByAddr_go_spec h
  exact ⟨this.2.1, this.2.2⟩

theorem set_self_of_getElem? {α} {l : List α} {i : Nat} {x : α} (h : l[i]? = some x) : l.set i x = l := by
  obtain ⟨hi, hx⟩ := List.getElem?_eq_some_iff.1 h
  rw [← hx]; exact List.set_getElem_self hi

theorem connection_eta (c : Connection) :
    (⟨c.confirmed, c.clientId, c.state, c.sendKey, c.receiveKey, c.userData, c.addr, c.lastPacketReceivedTime,
      c.lastPacketSendTime, c.timeoutSeconds, c.sequence, c.expireTimestamp, c.replayProtection⟩ : Connection) = c := rfl

/-- the session (receive key, window) `process_packet` uses for a source address -/
def sessionOf (s : NetcodeServer) (addr : Addr) : Option Connection :=
  match findClientByAddr s.clients addr with
  | some (_, c) => some c
  | none => pendingFind s.pendingClients addr

/-- store a new window for the session of `addr` -/
def withWindow (s : NetcodeServer) (addr : Addr) (w : RP) : NetcodeServer :=
  match findClientByAddr s.clients addr with
  | some (slot, c) => { s with clients := s.clients.set slot (some { c with replayProtection := w }) }
  | none =>
    match pendingFind s.pendingClients addr with
    | some c => { s with pendingClients := pendingSet s.pendingClients addr { c with replayProtection := w } }
    | none => s

theorem withWindow_self {s : NetcodeServer} {addr : Addr} {c : Connection} (h : sessionOf s addr = some c) :
    withWindow s addr c.replayProtection = s := by
  unfold withWindow
  unfold sessionOf at h
  cases hf : findClientByAddr s.clients addr with
  | some sc =>
    obtain ⟨slot, c'⟩ := sc
    rw [hf] at h; cases h
    dsimp only
    rw [connection_eta, set_self_of_getElem? (findClientByAddr_spec hf).1]
  | none =>
    rw [hf] at h
    dsimp only at h ⊢
    rw [h]
    dsimp only
    rw [connection_eta, pendingSet_self h]

/-- C07: a datagram whose `decode` (under the session of its source address) is an error yields `None`; the state
    is unchanged except that the window returned by `decode` is stored (`decode_err`: it differs from the old one
    only for an authentic keep-alive with a short body). -/
theorem processPacket_decode_err (a : AEAD) (s : NetcodeServer) (addr : Addr) (buf : Bytes) {c : Connection}
    (hs : sessionOf s addr = some c) {e : NetcodeError} {rp' : Option RP}
    (hdec : Packet.decode a buf s.protocolId (some c.receiveKey) (some c.replayProtection) = (.err e, rp')) :
    processPacket a s addr buf = .ok (.none, withWindow s addr (rp'.getD c.replayProtection)) := by
  unfold processPacket processPacketInternal
  by_cases h18 : buf.length < 2 + C.NETCODE_MAC_BYTES
  · -- then decode said PacketTooSmall with the window untouched
    rw [if_pos h18]
    unfold Packet.decode at hdec
    rw [if_pos h18] at hdec
    cases hdec
    dsimp only
    rw [Option.getD_some, withWindow_self hs]
  rw [if_neg h18]
  unfold sessionOf at hs
  unfold withWindow
  cases hf : findClientByAddr s.clients addr with
  | some sc =>
    obtain ⟨slot, c'⟩ := sc
    rw [hf] at hs; cases hs
    dsimp only
    rw [hdec]
  | none =>
    rw [hf] at hs
    dsimp only at hs ⊢
    rw [hs]
    dsimp only
    rw [hdec]

theorem processPacket_decode_err_unchanged (a : AEAD) (s : NetcodeServer) (addr : Addr) (buf : Bytes) {c : Connection}
    (hs : sessionOf s addr = some c) {e : NetcodeError}
    (hdec : Packet.decode a buf s.protocolId (some c.receiveKey) (some c.replayProtection) =
      (.err e, some c.replayProtection)) :
    processPacket a s addr buf = .ok (.none, s) := by
  rw [processPacket_decode_err a s addr buf hs hdec, Option.getD_some, withWindow_self hs]

/-- C07: unknown source address, `decode` (no key) fails: `None`, state unchanged -/
theorem processPacket_unknown_err (a : AEAD) (s : NetcodeServer) (addr : Addr) (buf : Bytes)
    (hs : sessionOf s addr = none) {e : NetcodeError}
    (hdec : (Packet.decode a buf s.protocolId none none).1 = .err e) :
    processPacket a s addr buf = .ok (.none, s) := by
  unfold processPacket processPacketInternal
  by_cases h18 : buf.length < 2 + C.NETCODE_MAC_BYTES
  · rw [if_pos h18]
  rw [if_neg h18]
  unfold sessionOf at hs
  cases hf : findClientByAddr s.clients addr with
  | some sc => rw [hf] at hs; cases hs
  | none =>
    rw [hf] at hs
    dsimp only at hs ⊢
    rw [hs]
    dsimp only
    generalize Packet.decode a buf s.protocolId none none = d at hdec
    obtain ⟨r, w⟩ := d
    dsimp only at hdec ⊢
    rw [hdec]

/-- C07 / repaired defect D12: a datagram of connection-request shape (type nibble 0 — never authenticated) from the
    address of a connected client changes nothing (in particular not `last_packet_received_time`) and yields `None` -/
theorem processPacket_request_from_connected (a : AEAD) (s : NetcodeServer) (addr : Addr) (buf : Bytes)
    {slot : Nat} {c : Connection} (hf : findClientByAddr s.clients addr = some (slot, c))
    (ht : Packet.wireType buf = 0) : processPacket a s addr buf = .ok (.none, s) := by
  unfold processPacket processPacketInternal
  by_cases h18 : buf.length < 2 + C.NETCODE_MAC_BYTES
  · rw [if_pos h18]
  rw [if_neg h18, hf]
  dsimp only
  have hset : ∀ w, w = some c.replayProtection →
      ({ s with clients := s.clients.set slot (some { c with replayProtection := w.getD c.replayProtection }) } :
        NetcodeServer) = s := by
    intro w hw
    rw [hw, Option.getD_some, connection_eta, set_self_of_getElem? (findClientByAddr_spec hf).1]
  rcases Packet.decode_cases a buf s.protocolId (some c.receiveKey) (some c.replayProtection) with
    ⟨e, h⟩ | ⟨_, _, h⟩ | ⟨k, ty, plain, _, hso, _, _⟩
  · rw [h]; dsimp only; rw [hset _ rfl]
  · rw [h]
    rcases Packet.read_eq .connectionRequest (buf.drop 1) with ⟨_, hr⟩ | ⟨_, p, hr, hpt, _⟩
    · rw [hr]; dsimp only [Res.bind_err]; rw [hset _ rfl]
    · rw [hr]
      simp only [Res.bind_ok, Res.pure_eq]
      rw [hset _ rfl]
      cases p with
      | connectionRequest v pid e x d => cases c.state <;> rfl
      | _ => cases hpt
  · have := hso.kind
    rw [ht] at this
    cases this
    exact absurd rfl hso.not_request


/-! ### connection-request-shaped datagrams whose token is not valid -/

/-- the request does not pass `handle_connection_request`'s checks -/
def InvalidRequest (a : AEAD) (s : NetcodeServer) (v : Bytes) (pid e : Nat) (x data : Bytes) : Prop :=
  v ≠ C.NETCODE_VERSION_INFO ∨ pid ≠ s.protocolId ∨ asSecs s.currentTime ≥ e ∨
  ∀ tok, PrivateConnectToken.decode a data s.protocolId e x s.connectKey ≠ .ok tok

theorem handleConnectionRequest_invalid (a : AEAD) (s : NetcodeServer) (addr : Addr) {v : Bytes} {pid e : Nat}
    {x data : Bytes} (hd : C.NETCODE_MAC_BYTES ≤ data.length) (h : InvalidRequest a s v pid e x data) :
    ∃ e', handleConnectionRequest a s addr v pid e x data = .err (e', s) := by
  generalize hD : handleConnectionRequest a s addr v pid e x data = D
  unfold handleConnectionRequest at hD
  split at hD
  · exact ⟨_, hD.symm⟩
  rename_i hv
  split at hD
  · exact ⟨_, hD.symm⟩
  rename_i hp
  split at hD
  · exact ⟨_, hD.symm⟩
  rename_i he
  split at hD
  · rename_i m hm; exact absurd hm (PrivateConnectToken_decode_no_panic a hd _ _ _ _ m)
  · exact ⟨_, hD.symm⟩
  · rename_i tok htok
    rcases h with h | h | h | h
    · exact absurd h hv
    · exact absurd h hp
    · exact absurd h he
    · exact absurd htok (h tok)

/-- refresh of the pending entry's `last_packet_received_time` (not observable: nothing reads it before the
    response path overwrites it) -/
def touchPending (s : NetcodeServer) (addr : Addr) (c : Connection) : NetcodeServer :=
  { s with pendingClients := pendingSet s.pendingClients addr { c with lastPacketReceivedTime := s.currentTime } }

/-- C07: a connection-request-shaped datagram with an invalid token from an unknown address: `None`, nothing changes;
    from an address with a pending handshake: `None`, only the pending entry's receive time moves -/
theorem processPacket_invalid_request (a : AEAD) (s : NetcodeServer) (addr : Addr) (buf : Bytes)
    (hf : findClientByAddr s.clients addr = none) {v : Bytes} {pid e : Nat} {x data : Bytes}
    (hread : Packet.read .connectionRequest (buf.drop 1) = .ok (.connectionRequest v pid e x data))
    (ht : Packet.wireType buf = 0) (h18 : 18 ≤ buf.length) (hinv : InvalidRequest a s v pid e x data) :
    processPacket a s addr buf =
      .ok (.none, match pendingFind s.pendingClients addr with
                  | some c => touchPending s addr c
                  | none => s) := by
  have hdl : data.length = C.NETCODE_CONNECT_TOKEN_PRIVATE_BYTES := (Packet.read_ok hread).2.2.1.2.2.2.2
  have hdec : ∀ key rp, Packet.decode a buf s.protocolId key rp = (.ok (0, .connectionRequest v pid e x data), rp) := by
    intro key rp
    rcases Packet.decode_cases a buf s.protocolId key rp with ⟨e', h⟩ | ⟨_, _, h⟩ | ⟨k, ty, plain, _, hso, _, _⟩
    · exfalso
      unfold Packet.decode at h
      rw [if_neg (by rw [Packet.mac_eq]; omega)] at h
      cases buf with
      | nil => simp at h18
      | cons pfx rest =>
        have h0 : PacketType.fromU8 (pfx.toNat % 16) = .ok .connectionRequest := by
          have : pfx.toNat % 16 = 0 := ht
          rw [this]; rfl
        simp only [Packet.decodePrefix, h0, if_true] at h
        simp only [List.drop_one, List.tail_cons] at hread
        rw [hread] at h
        cases h
    · rw [h, hread]; rfl
    · have := hso.kind; rw [ht] at this; cases this; exact absurd rfl hso.not_request
  unfold processPacket processPacketInternal
  rw [if_neg (by rw [Packet.mac_eq]; omega), hf]
  dsimp only
  cases hpf : pendingFind s.pendingClients addr with
  | none =>
    dsimp only
    rw [hdec]
    dsimp only
    obtain ⟨e', he'⟩ := handleConnectionRequest_invalid a s addr (by rw [hdl]; decide) hinv
    rw [he']
  | some c =>
    dsimp only
    rw [hdec]
    dsimp only
    rw [Option.getD_some, connection_eta, pendingSet_self hpf]
    have hinv' : InvalidRequest a (touchPending s addr c) v pid e x data := hinv
    obtain ⟨e', he'⟩ := handleConnectionRequest_invalid a (touchPending s addr c) addr (by rw [hdl]; decide) hinv'
    unfold touchPending at he'
    rw [he']
    rfl

/-- fields a datagram from a connected address never touches -/
def SameHandshake (s s' : NetcodeServer) : Prop :=
  s'.globalSequence = s.globalSequence ∧ s'.challengeSequence = s.challengeSequence ∧
  s'.pendingClients = s.pendingClients

/-- the connection after an accepted payload / keep-alive -/
def _root_.RenetVerif.Netcode.Connection.received (c : Connection) (w : RP) (now : Nat) : Connection :=
  { c with replayProtection := w, lastPacketReceivedTime := now, confirmed := true }

def setClient (s : NetcodeServer) (slot : Nat) (c : Option Connection) : NetcodeServer :=
  { s with clients := s.clients.set slot c }

/-- a datagram from a connected address: no panic, no datagram sent; the result is `None`, a payload attributed to
    that client, or that client's disconnection -/
theorem connected_sat (a : AEAD) (s : NetcodeServer) (addr : Addr) (buf : Bytes) {slot : Nat} {c : Connection}
    (hf : findClientByAddr s.clients addr = some (slot, c)) :
    (processPacketInternal a s addr buf).Sat (fun es => SameHandshake s es.2)
      (fun rs => SameHandshake s rs.2 ∧
        (rs.1 = .none ∨
         (∃ seq p rp', rs.1 = .payload c.clientId p ∧ c.state = .connected ∧
            Packet.decode a buf s.protocolId (some c.receiveKey) (some c.replayProtection) = (.ok (seq, .payload p), rp') ∧
            rs.2 = setClient s slot (some (c.received (rp'.getD c.replayProtection) s.currentTime))) ∨
         (∃ seq rp', rs.1 = .clientDisconnected c.clientId addr none ∧ c.state = .connected ∧
            Packet.decode a buf s.protocolId (some c.receiveKey) (some c.replayProtection) = (.ok (seq, .disconnect), rp')))) := by
  unfold processPacketInternal
  split
  · exact ⟨rfl, rfl, rfl⟩
  rw [hf]
  dsimp only
  generalize hdec : Packet.decode a buf s.protocolId (some c.receiveKey) (some c.replayProtection) = dr
  obtain ⟨r, rp⟩ := dr
  dsimp only
  cases r with
  | panic m =>
    have := Packet.decode_total a buf s.protocolId (some c.receiveKey) (some c.replayProtection) m
    rw [hdec] at this; exact absurd rfl this
  | err e => exact ⟨rfl, rfl, rfl⟩
  | ok sp =>
    obtain ⟨seq, packet⟩ := sp
    dsimp only
    cases hst : c.state with
    | connected =>
      dsimp only
      cases packet with
      | disconnect => exact ⟨⟨rfl, rfl, rfl⟩, Or.inr (Or.inr ⟨seq, rp, rfl, rfl, rfl⟩)⟩
      | payload p =>
        refine ⟨⟨rfl, rfl, rfl⟩, Or.inr (Or.inl ⟨seq, p, rp, rfl, rfl, rfl, ?_⟩)⟩
        simp only [setClient, Connection.received, List.set_set, hst]
      | _ => exact ⟨⟨rfl, rfl, rfl⟩, Or.inl rfl⟩
    | _ => exact ⟨⟨rfl, rfl, rfl⟩, Or.inl rfl⟩

/-- C07: `process_packet` returns normally for every source address and byte string; the counter budget drops by
    at most one -/
theorem processPacket_total (a : AEAD) {n : Nat} {s : NetcodeServer} (hinv : SInv (n + 1) s) (addr : Addr) (buf : Bytes) :
    ∃ r s', processPacket a s addr buf = .ok (r, s') ∧ SInv n s' := by
  have key : (processPacketInternal a s addr buf).Sat (fun es => SInv n es.2) (fun rs => SInv n rs.2) := by
    cases hf : findClientByAddr s.clients addr with
    | none => exact (unconnected_sat a hinv addr buf hf).mono (fun _ h => h) (fun _ h => h.1)
    | some sc =>
      obtain ⟨slot, c⟩ := sc
      have h0 := hinv.mono (Nat.le_succ n)
      refine (connected_sat a s addr buf hf).mono ?_ ?_
      · rintro ⟨e, s'⟩ ⟨h1, h2, h3⟩; exact ⟨by rw [h1]; exact h0.1, by rw [h2]; exact h0.2.1, by rw [h3]; exact h0.2.2⟩
      · rintro ⟨r, s'⟩ ⟨⟨h1, h2, h3⟩, _⟩; exact ⟨by rw [h1]; exact h0.1, by rw [h2]; exact h0.2.1, by rw [h3]; exact h0.2.2⟩
  unfold processPacket
  cases h : processPacketInternal a s addr buf with
  | ok rs => rw [h] at key; exact ⟨rs.1, rs.2, rfl, key⟩
  | err es => rw [h] at key; obtain ⟨e, s'⟩ := es; exact ⟨.none, s', rfl, key⟩
  | panic m => rw [h] at key; exact key.elim

theorem SInv_new {now maxClients proto : Nat} {addrs : List Addr} {secure : Bool} {pk ck : Bytes} {s : NetcodeServer}
    (h : NetcodeServer.new now maxClients proto addrs secure pk ck = .ok s) {n : Nat}
    (hn : C.NETCODE_GLOBAL_SEQUENCE_START + n ≤ U64_MAX) : SInv n s := by
  unfold NetcodeServer.new at h
  split at h
  · cases h
  · cases h
    have : n ≤ U64_MAX := by omega
    exact ⟨hn, by simpa using this, by simp⟩

/-- C19 at function level: an address that is not connected gets nothing, or one datagram to itself that answers a
    valid request (≤ 333 bytes against ≥ 1078 received) or a valid response (≤ 33 bytes against ≥ 325 received) -/
theorem processPacket_unconnected (a : AEAD) {n : Nat} {s : NetcodeServer} (hinv : SInv (n + 1) s) (addr : Addr)
    (buf : Bytes) (hf : findClientByAddr s.clients addr = none) :
    ∃ r s', processPacket a s addr buf = .ok (r, s') ∧ SInv n s' ∧
      (Reply a.Laws (ValidRequest a s buf) addr REQUEST_REPLY_MAX r ∨
       Reply a.Laws (ValidResponse a s addr buf) addr RESPONSE_REPLY_MAX r) := by
  have key := unconnected_sat a hinv addr buf hf
  unfold processPacket
  cases h : processPacketInternal a s addr buf with
  | ok rs => rw [h] at key; exact ⟨rs.1, rs.2, rfl, key.1, key.2⟩
  | err es => rw [h] at key; obtain ⟨e, s'⟩ := es; exact ⟨.none, s', rfl, key, Or.inl (Or.inl rfl)⟩
  | panic m => rw [h] at key; exact key.elim

/-- C04: what a surfaced payload implies -/
theorem processPacket_payload_inv (a : AEAD) {s s' : NetcodeServer} (hinv : SInv 1 s) {addr : Addr} {buf : Bytes}
    {cid : Nat} {p : Bytes} (h : processPacket a s addr buf = .ok (.payload cid p, s')) :
    ∃ slot c seq rp', findClientByAddr s.clients addr = some (slot, c) ∧ c.state = .connected ∧ cid = c.clientId ∧
      Packet.decode a buf s.protocolId (some c.receiveKey) (some c.replayProtection) = (.ok (seq, .payload p), rp') ∧
      s' = setClient s slot (some (c.received (rp'.getD c.replayProtection) s.currentTime)) := by
  unfold processPacket at h
  cases hf : findClientByAddr s.clients addr with
  | none =>
    have key := unconnected_sat a (n := 0) hinv addr buf hf
    cases hi : processPacketInternal a s addr buf with
    | ok rs =>
      rw [hi] at h key
      cases h
      rcases key.2 with hr | hr <;>
        rcases hr with hr | ⟨_, ⟨_, hr, _⟩ | ⟨_, _, _, hr, _⟩⟩ <;> cases hr
    | err es => rw [hi] at h; cases h
    | panic m => rw [hi] at h; cases h
  | some sc =>
    obtain ⟨slot, c⟩ := sc
    have key := connected_sat a s addr buf hf
    cases hi : processPacketInternal a s addr buf with
    | ok rs =>
      rw [hi] at h key
      cases h
      rcases key.2 with hr | ⟨seq, p', rp', hr, hst, hdec, hs'⟩ | ⟨_, _, hr, _⟩
      · cases hr
      · cases hr
        exact ⟨slot, c, seq, rp', rfl, hst, rfl, hdec, hs'⟩
      · cases hr
    | err es => rw [hi] at h; cases h
    | panic m => rw [hi] at h; cases h


/-- C04 converse on the server: a genuine payload packet (what the session peer's `encode` produces for sequence `seq`
    under the client's receive key) whose sequence the window does not reject is surfaced, attributed to the client -/
theorem processPacket_genuine_payload (a : AEAD) (hl : a.Laws) (s : NetcodeServer) (addr : Addr) {slot : Nat}
    {c : Connection} (hf : findClientByAddr s.clients addr = some (slot, c)) (hst : c.state = .connected)
    (p : Bytes) {seq : Nat} (hseq : seq < 2 ^ 64) (hfresh : c.replayProtection.alreadyReceived seq = false) :
    processPacket a s addr (Packet.sealedBytes a (.payload p) s.protocolId seq c.receiveKey) =
      .ok (.payload c.clientId p, setClient s slot (some (c.received (c.replayProtection.advance seq) s.currentTime))) := by
  have hdec := Packet.decode_sealedBytes a (.payload p) s.protocolId seq c.receiveKey hl hseq (by intro h; cases h) trivial
    (some c.replayProtection) (by rw [Packet.isDup_some, hfresh]; rfl)
  have hlen := Packet.sealed_length a (.payload p) s.protocolId seq c.receiveKey hl
  have h1 := Packet.sbr_pos seq
  unfold processPacket processPacketInternal
  rw [if_neg (by rw [hlen, Packet.mac_eq]; omega), hf]
  dsimp only
  rw [hdec]
  dsimp only
  rw [hst]
  dsimp only
  simp only [setClient, Connection.received, List.set_set, hst, Packet.stepWindow, Packet.packetType,
    PacketType.applyReplayProtection, Option.map_some, Option.getD_some, if_true]

end NetcodeServer

/-! ## client -/
namespace NetcodeClient

def withWindow (c : NetcodeClient) (w : RP) : NetcodeClient := { c with replayProtection := w }

theorem client_eta (c : NetcodeClient) : c.withWindow c.replayProtection = c := rfl

/-- C07: `NetcodeClient::process_packet` returns normally on every byte string in every state -/
theorem processPacket_total (a : AEAD) (c : NetcodeClient) (buf : Bytes) :
    ∃ r c', processPacket a c buf = .ok (r, c') := by
  unfold processPacket
  generalize hdec : Packet.decode a buf c.connectToken.protocolId (some c.connectToken.serverToClientKey)
    (some c.replayProtection) = dr
  obtain ⟨r, rp⟩ := dr
  dsimp only
  cases r with
  | panic m =>
    have := Packet.decode_total a buf c.connectToken.protocolId (some c.connectToken.serverToClientKey)
      (some c.replayProtection) m
    rw [hdec] at this; exact absurd rfl this
  | err e => exact ⟨_, _, rfl⟩
  | ok sp =>
    obtain ⟨seq, packet⟩ := sp
    dsimp only
    split <;> exact ⟨_, _, rfl⟩

/-- C07: a datagram whose `decode` fails surfaces nothing; the client is unchanged except that the window `decode`
    returned is stored -/
theorem processPacket_decode_err (a : AEAD) (c : NetcodeClient) (buf : Bytes) {e : NetcodeError} {rp' : Option RP}
    (hdec : Packet.decode a buf c.connectToken.protocolId (some c.connectToken.serverToClientKey)
      (some c.replayProtection) = (.err e, rp')) :
    processPacket a c buf = .ok (none, c.withWindow (rp'.getD c.replayProtection)) := by
  unfold processPacket
  rw [hdec]
  rfl

theorem processPacket_decode_err_unchanged (a : AEAD) (c : NetcodeClient) (buf : Bytes) {e : NetcodeError}
    (hdec : Packet.decode a buf c.connectToken.protocolId (some c.connectToken.serverToClientKey)
      (some c.replayProtection) = (.err e, some c.replayProtection)) :
    processPacket a c buf = .ok (none, c) := by
  rw [processPacket_decode_err a c buf hdec]; rfl

/-- C04 on the client: what a surfaced payload implies -/
theorem processPacket_payload_inv (a : AEAD) {c c' : NetcodeClient} {buf p : Bytes}
    (h : processPacket a c buf = .ok (some p, c')) :
    c.state = .connected ∧ ∃ seq rp',
      Packet.decode a buf c.connectToken.protocolId (some c.connectToken.serverToClientKey) (some c.replayProtection)
        = (.ok (seq, .payload p), rp') ∧
      c' = { c.withWindow (rp'.getD c.replayProtection) with lastPacketReceivedTime := c.currentTime } := by
  unfold processPacket at h
  generalize hdec : Packet.decode a buf c.connectToken.protocolId (some c.connectToken.serverToClientKey)
    (some c.replayProtection) = dr at h
  obtain ⟨r, rp⟩ := dr
  dsimp only at h
  cases r with
  | panic m => cases h
  | err e => cases h
  | ok sp =>
    obtain ⟨seq, packet⟩ := sp
    dsimp only at h
    split at h
    all_goals first
      | (cases h; done)
      | (cases h
         exact ⟨by assumption, seq, rp, rfl, rfl⟩)

/-- C04 converse on the client -/
theorem processPacket_genuine_payload (a : AEAD) (hl : a.Laws) (c : NetcodeClient) (hst : c.state = .connected)
    (p : Bytes) {seq : Nat} (hseq : seq < 2 ^ 64) (hfresh : c.replayProtection.alreadyReceived seq = false) :
    processPacket a c (Packet.sealedBytes a (.payload p) c.connectToken.protocolId seq c.connectToken.serverToClientKey) =
      .ok (some p, { c.withWindow (c.replayProtection.advance seq) with lastPacketReceivedTime := c.currentTime }) := by
  have hdec := Packet.decode_sealedBytes a (.payload p) c.connectToken.protocolId seq c.connectToken.serverToClientKey
    hl hseq (by intro h; cases h) trivial (some c.replayProtection) (by rw [Packet.isDup_some, hfresh]; rfl)
  unfold processPacket
  rw [hdec]
  dsimp only
  rw [hst]
  simp only [withWindow, hst, Packet.stepWindow, Packet.packetType, PacketType.applyReplayProtection,
    Option.map_some, Option.getD_some, if_true]


/-! ### `update` -/

theorem durAdd_ok {ε} {x y : Nat} (h : x + y ≤ DURATION_MAX) (site : String) : (durAdd x y site : Res ε Nat) = .ok (x + y) := by
  simp [durAdd, h]

theorem csub_ok {ε} {x y : Nat} (h : y ≤ x) (site : String) : (Res.csub x y site : Res ε Nat) = .ok (x - y) := by
  simp [Res.csub, h]

/-- what `update` needs of a client: time stamps not in the future, a full address array, an `i32` timeout -/
structure CInv (c : NetcodeClient) : Prop where
  start_le : c.connectStartTime ≤ c.currentTime
  send_le : ∀ t, c.lastPacketSendTime = some t → t ≤ c.currentTime
  recv_le : c.lastPacketReceivedTime ≤ c.currentTime
  addrs : C.NETCODE_TOKEN_MAX_ADDRESSES ≤ c.connectToken.serverAddresses.length
  timeout : c.connectToken.timeoutSeconds < 2 ^ 31

theorem cinv_new {src : Bytes} {t : ConnectToken} (h : ConnectToken.read src = .ok t) {now : Nat} {c : NetcodeClient}
    (hc : NetcodeClient.new now t = .ok c) : CInv c := by
  obtain ⟨_, hlen, hto⟩ := (ConnectToken.read_sat src).of_ok h
  unfold NetcodeClient.new at hc
  split at hc
  · cases hc
    exact ⟨Nat.le_refl _, fun t h => (by cases h), Nat.le_refl _, hlen, hto⟩
  · cases hc

/-- the largest `timeout_seconds` (an `i32`) as a duration -/
def TIMEOUT_MAX_NS : Nat := fromSecs (2 ^ 31)

theorem timeout_le {t : Int} (h : t < 2 ^ 31) : fromSecs t.toNat ≤ TIMEOUT_MAX_NS := by
  unfold fromSecs TIMEOUT_MAX_NS fromSecs
  apply Nat.mul_le_mul_right
  omega

theorem updateInternalState_sat (c : NetcodeClient) (d : Nat) (hinv : CInv c)
    (ht : c.currentTime + d + TIMEOUT_MAX_NS ≤ DURATION_MAX) :
    (updateInternalState c d).Sat (fun _ => True)
      (fun r => CInv r.2 ∧ r.2.sequence = c.sequence ∧ r.2.currentTime = c.currentTime + d) := by
  obtain ⟨h1, h2, h3, h4, h5⟩ := hinv
  unfold updateInternalState
  rw [durAdd_ok (by omega)]
  simp only [Res.bind_ok]
  have htl := timeout_le h5
  refine sat_bind (Q := fun _ => True) ?_ ?_
  · split
    · rw [durAdd_ok (by omega)]; trivial
    · trivial
  intro timedOut _
  have base : CInv { c with currentTime := c.currentTime + d } :=
    ⟨by dsimp only; omega, fun t h => by have := h2 t h; dsimp only; omega, by dsimp only; omega, h4, h5⟩
  split
  · -- sendingConnectionRequest
    rw [csub_ok (by omega)]
    simp only [Res.bind_ok]
    split
    · exact ⟨⟨base.1, base.2, base.3, h4, h5⟩, rfl, rfl⟩
    split
    · split
      · exact ⟨⟨base.1, base.2, base.3, h4, h5⟩, rfl, rfl⟩
      split
      · rename_i hidx hnone
        have hlt : c.serverAddrIndex + 1 < c.connectToken.serverAddresses.length := by
          have h32 : C.NETCODE_TOKEN_MAX_ADDRESSES = 32 := rfl
          omega
        rw [List.getElem?_eq_getElem hlt] at hnone; cases hnone
      · exact ⟨⟨base.1, base.2, base.3, h4, h5⟩, rfl, rfl⟩
      · exact ⟨⟨Nat.le_refl _, fun t h => (by cases h), Nat.le_refl _, h4, h5⟩, rfl, rfl⟩
    · exact ⟨base, rfl, rfl⟩
  · -- sendingConnectionResponse
    rw [csub_ok (by omega)]
    simp only [Res.bind_ok]
    split
    · exact ⟨⟨base.1, base.2, base.3, h4, h5⟩, rfl, rfl⟩
    split
    · split
      · exact ⟨⟨base.1, base.2, base.3, h4, h5⟩, rfl, rfl⟩
      split
      · rename_i hidx hnone
        have hlt : c.serverAddrIndex + 1 < c.connectToken.serverAddresses.length := by
          have h32 : C.NETCODE_TOKEN_MAX_ADDRESSES = 32 := rfl
          omega
        rw [List.getElem?_eq_getElem hlt] at hnone; cases hnone
      · exact ⟨⟨base.1, base.2, base.3, h4, h5⟩, rfl, rfl⟩
      · exact ⟨⟨Nat.le_refl _, fun t h => (by cases h), Nat.le_refl _, h4, h5⟩, rfl, rfl⟩
    · exact ⟨base, rfl, rfl⟩
  · split
    · exact ⟨⟨base.1, base.2, base.3, h4, h5⟩, rfl, rfl⟩
    · exact ⟨base, rfl, rfl⟩
  · exact ⟨base, rfl, rfl⟩


theorem _root_.RenetVerif.Netcode.Packet.encode_no_panic (a : AEAD) (p : Packet) (cap proto : Nat)
    (crypto : Option (Nat × Bytes)) (m : String) : Packet.encode a p cap proto crypto ≠ .panic m := by
  by_cases hp : p.packetType = .connectionRequest
  · cases p with
    | connectionRequest v pid e x d => rw [Packet.encode_request_eq]; split <;> simp
    | _ => cases hp
  · cases crypto with
    | none => cases p <;> first | (exact absurd rfl hp) | simp [Packet.encode]
    | some sk =>
      obtain ⟨seq, key⟩ := sk
      exact (Packet.encode_sealed_sat a p cap proto seq key hp).no_panic m

theorem generatePacket_sat (a : AEAD) (c : NetcodeClient) (hinv : CInv c) (hseq : c.sequence + 1 ≤ U64_MAX) :
    (generatePacket a c).Sat (fun _ => True) (fun r => CInv r.2) := by
  obtain ⟨h1, h2, h3, h4, h5⟩ := hinv
  unfold generatePacket
  refine sat_bind (Q := fun _ => True) ?_ ?_
  · split
    · rename_i t ht
      rw [csub_ok (h2 t ht)]; trivial
    · trivial
  intro tooSoon _
  split
  · exact ⟨h1, h2, h3, h4, h5⟩
  cases hst : c.state with
  | disconnected r =>
    simp only [Bool.false_eq_true, ↓reduceIte, hst]
    exact ⟨h1, h2, h3, h4, h5⟩
  | sendingConnectionRequest =>
    simp only [↓reduceIte]
    split
    · rename_i m hm; exact absurd hm (Packet.encode_no_panic a _ _ _ _ m)
    · exact ⟨h1, fun t h => (by cases h; exact Nat.le_refl _), h3, h4, h5⟩
    · rw [incU64_ok (by omega)]
      exact ⟨h1, fun t h => (by cases h; exact Nat.le_refl _), h3, h4, h5⟩
  | sendingConnectionResponse =>
    simp only [↓reduceIte]
    split
    · rename_i m hm; exact absurd hm (Packet.encode_no_panic a _ _ _ _ m)
    · exact ⟨h1, fun t h => (by cases h; exact Nat.le_refl _), h3, h4, h5⟩
    · rw [incU64_ok (by omega)]
      exact ⟨h1, fun t h => (by cases h; exact Nat.le_refl _), h3, h4, h5⟩
  | connected =>
    simp only [↓reduceIte]
    split
    · rename_i m hm; exact absurd hm (Packet.encode_no_panic a _ _ _ _ m)
    · exact ⟨h1, fun t h => (by cases h; exact Nat.le_refl _), h3, h4, h5⟩
    · rw [incU64_ok (by omega)]
      exact ⟨h1, fun t h => (by cases h; exact Nat.le_refl _), h3, h4, h5⟩

/-- C07: `NetcodeClient::update` returns normally and keeps the invariant, as long as the clock stays below
    `Duration::MAX` minus the largest timeout and the packet counter below `u64::MAX` -/
theorem update_total (a : AEAD) (c : NetcodeClient) (d : Nat) (hinv : CInv c)
    (ht : c.currentTime + d + TIMEOUT_MAX_NS ≤ DURATION_MAX) (hseq : c.sequence + 1 ≤ U64_MAX) :
    ∃ r c', update a c d = .ok (r, c') ∧ CInv c' := by
  have key : (update a c d).Sat (fun _ => True) (fun r => CInv r.2) := by
    unfold update
    refine sat_bind (updateInternalState_sat c d hinv ht) ?_
    rintro ⟨e, c1⟩ ⟨hi, hs, _⟩
    dsimp only at hi hs ⊢
    split
    · exact hi
    · exact generatePacket_sat a c1 hi (by rw [hs]; exact hseq)
  cases h : update a c d with
  | ok rc => rw [h] at key; exact ⟨rc.1, rc.2, rfl, key⟩
  | err e => exact e.elim
  | panic m => rw [h] at key; exact key.elim

/-- `process_packet` keeps the client invariant -/
theorem processPacket_cinv (a : AEAD) {c c' : NetcodeClient} {buf : Bytes} {r : Option Bytes} (hinv : CInv c)
    (h : processPacket a c buf = .ok (r, c')) : CInv c' ∧ c'.sequence = c.sequence ∧ c'.currentTime = c.currentTime := by
  obtain ⟨h1, h2, h3, h4, h5⟩ := hinv
  unfold processPacket at h
  generalize Packet.decode a buf c.connectToken.protocolId (some c.connectToken.serverToClientKey)
    (some c.replayProtection) = dr at h
  obtain ⟨r', rp⟩ := dr
  dsimp only at h
  cases r' with
  | panic m => cases h
  | err e => cases h; exact ⟨⟨h1, h2, h3, h4, h5⟩, rfl, rfl⟩
  | ok sp =>
    obtain ⟨seq, packet⟩ := sp
    dsimp only at h
    split at h
    all_goals first
      | (cases h; exact ⟨⟨h1, h2, Nat.le_refl _, h4, h5⟩, rfl, rfl⟩)
      | (cases h; exact ⟨⟨h1, fun t h => (by cases h), Nat.le_refl _, h4, h5⟩, rfl, rfl⟩)
      | (cases h; exact ⟨⟨h1, h2, h3, h4, h5⟩, rfl, rfl⟩)

end NetcodeClient

/-! ## sizes of everything the netcode layer emits (C13, netcode half) -/

namespace Packet

/-- whatever `encode` returns fits the buffer it was given -/
theorem encode_le_cap (a : AEAD) (hl : a.Laws) {p : Packet} {cap proto : Nat} {crypto : Option (Nat × Bytes)}
    {out : Bytes} (h : encode a p cap proto crypto = .ok out) : out.length ≤ cap := by
  by_cases hp : p.packetType = .connectionRequest
  · cases p with
    | connectionRequest v pid e x d =>
      rw [encode_request_eq] at h
      split at h
      · cases h; simp only [List.length_cons]; omega
      · cases h
    | _ => cases hp
  · cases crypto with
    | none => cases p <;> first | (exact absurd rfl hp) | (simp [encode] at h)
    | some sk =>
      obtain ⟨seq, key⟩ := sk
      rw [encode_sealed_eq a p cap proto seq key hp] at h
      split at h
      · cases h; rw [sealed_length a p proto seq key hl]; assumption
      · cases h

/-- `1 + 8 + NETCODE_MAX_PAYLOAD_BYTES + NETCODE_MAC_BYTES ≤ NETCODE_MAX_PACKET_BYTES` -/
theorem max_payload_fits : 1 + 8 + C.NETCODE_MAX_PAYLOAD_BYTES + C.NETCODE_MAC_BYTES ≤ C.NETCODE_MAX_PACKET_BYTES := by decide

/-- a payload of at most `NETCODE_MAX_PAYLOAD_BYTES` always encodes, into `1 + seqbytes + |p| + 16` bytes -/
theorem encode_payload_ok (a : AEAD) (hl : a.Laws) (p : Bytes) (hp : p.length ≤ C.NETCODE_MAX_PAYLOAD_BYTES)
    (proto seq : Nat) (key : Bytes) :
    encode a (.payload p) C.NETCODE_MAX_PACKET_BYTES proto (some (seq, key)) = .ok (sealedBytes a (.payload p) proto seq key) ∧
    (sealedBytes a (.payload p) proto seq key).length = 1 + sequenceBytesRequired seq + p.length + 16 ∧
    (sealedBytes a (.payload p) proto seq key).length ≤ C.NETCODE_MAX_PACKET_BYTES := by
  have hfit := max_payload_fits
  have hmac : C.NETCODE_MAC_BYTES = 16 := rfl
  have := encode_sealed_ok a hl (.payload p) C.NETCODE_MAX_PACKET_BYTES proto seq key (by intro h; cases h)
    (by simp only [body]; omega)
  simp only [body] at this
  exact ⟨this.1, this.2.1, by omega⟩

end Packet

/-- the datagram a server result carries -/
def ServerResult.datagram : ServerResult → Option Bytes
  | .packetToSend _ out => some out
  | .clientConnected _ _ _ out => some out
  | .clientDisconnected _ _ out => out
  | _ => Option.none

namespace NetcodeServer

theorem generatePayloadPacket_size (a : AEAD) (hl : a.Laws) {s s' : NetcodeServer} {cid : Nat} {payload out : Bytes}
    {addr : Addr} (h : generatePayloadPacket a s cid payload = .ok ((addr, out), s')) :
    out.length ≤ C.NETCODE_MAX_PACKET_BYTES := by
  unfold generatePayloadPacket at h
  split at h
  · cases h
  split at h
  · rename_i slot client _ _
    cases henc : Packet.encode a (Packet.payload payload) C.NETCODE_MAX_PACKET_BYTES s.protocolId
        (some (client.sequence, client.sendKey)) with
    | ok o =>
      rw [henc] at h
      simp only [Res.bind_ok] at h
      cases hinc : (incU64 client.sequence "server.rs generate_payload_packet: client.sequence += 1" : NRes Nat) with
      | ok sq =>
        rw [hinc] at h
        simp only [Res.bind_ok, Res.pure_eq] at h
        cases h
        exact Packet.encode_le_cap a hl henc
      | err e => rw [hinc] at h; cases h
      | panic m => rw [hinc] at h; cases h
    | err e => rw [henc] at h; cases h
    | panic m => rw [henc] at h; cases h
  · cases h

theorem updateClient_size (a : AEAD) (hl : a.Laws) (s : NetcodeServer) (cid : Nat) :
    (updateClient a s cid).Post (fun rs => ∀ out, rs.1.datagram = some out → out.length ≤ C.NETCODE_MAX_PACKET_BYTES) := by
  unfold updateClient
  split
  · exact post_ok (by intro out h; cases h)
  split
  · exact post_ok (by intro out h; cases h)
  refine post_bind fun timedOut _ => ?_
  cases timedOut
  · -- not timed out
    simp only [Bool.false_eq_true, ↓reduceIte]
    split
    · split
      · exact post_panic
      · exact post_pure (by intro out h; cases h)
      · rename_i out henc
        refine post_pure ?_
        intro o ho; cases ho
        exact Packet.encode_le_cap a hl henc
    · refine post_bind fun due _ => ?_
      split
      · split
        · exact post_panic
        · exact post_pure (by intro out h; cases h)
        · rename_i out henc
          refine post_bind fun sq _ => post_pure ?_
          intro o ho; cases ho
          exact Packet.encode_le_cap a hl henc
      · exact post_pure (by intro out h; cases h)
  · -- timed out
    simp only [↓reduceIte]
    split
    · exact post_panic
    · exact post_pure (by intro out h; cases h)
    · rename_i out henc
      refine post_pure ?_
      intro o ho; cases ho
      exact Packet.encode_le_cap a hl henc

theorem disconnect_size (a : AEAD) (hl : a.Laws) (s : NetcodeServer) (cid : Nat) :
    (disconnect a s cid).Post (fun rs => ∀ out, rs.1.datagram = some out → out.length ≤ C.NETCODE_MAX_PACKET_BYTES) := by
  unfold disconnect
  split
  · exact post_ok (by intro out h; cases h)
  split
  · exact post_panic
  dsimp only
  split
  · exact post_panic
  · exact post_ok (by intro out h; cases h)
  · rename_i out henc
    refine post_ok ?_
    intro o ho; cases ho
    exact Packet.encode_le_cap a hl henc

end NetcodeServer

namespace NetcodeClient

theorem generatePayloadPacket_size (a : AEAD) (hl : a.Laws) {c c' : NetcodeClient} {payload out : Bytes}
    {addr : Addr} (h : generatePayloadPacket a c payload = .ok ((addr, out), c')) :
    out.length ≤ C.NETCODE_MAX_PACKET_BYTES := by
  unfold generatePayloadPacket at h
  split at h
  · cases h
  split at h
  · cases h
  cases henc : Packet.encode a (Packet.payload payload) C.NETCODE_MAX_PACKET_BYTES c.connectToken.protocolId
      (some (c.sequence, c.connectToken.clientToServerKey)) with
  | ok o =>
    rw [henc] at h
    simp only [Res.bind_ok] at h
    cases hinc : (incU64 c.sequence "client.rs generate_payload_packet: sequence += 1" : NRes Nat) with
    | ok sq =>
      rw [hinc] at h
      simp only [Res.bind_ok, Res.pure_eq] at h
      cases h
      exact Packet.encode_le_cap a hl henc
    | err e => rw [hinc] at h; cases h
    | panic m => rw [hinc] at h; cases h
  | err e => rw [henc] at h; cases h
  | panic m => rw [henc] at h; cases h

/-- a connected client with room in its counter always gets its payload (≤ 1300 bytes) out -/
theorem generatePayloadPacket_ok (a : AEAD) (hl : a.Laws) (c : NetcodeClient) (hst : c.state = .connected)
    (payload : Bytes) (hp : payload.length ≤ C.NETCODE_MAX_PAYLOAD_BYTES) (hseq : c.sequence + 1 ≤ U64_MAX) :
    generatePayloadPacket a c payload =
      .ok ((c.serverAddr, Packet.sealedBytes a (.payload payload) c.connectToken.protocolId c.sequence
              c.connectToken.clientToServerKey),
           { c with sequence := c.sequence + 1, lastPacketSendTime := some c.currentTime }) := by
  unfold generatePayloadPacket
  rw [if_neg (by omega), if_neg (by rw [hst]; simp)]
  rw [(Packet.encode_payload_ok a hl payload hp _ _ _).1, incU64_ok hseq]
  rfl

theorem generatePacket_size (a : AEAD) (hl : a.Laws) (c : NetcodeClient) :
    (generatePacket a c).Post (fun r => ∀ out addr, r.1 = some (out, addr) → out.length ≤ C.NETCODE_MAX_PACKET_BYTES) := by
  unfold generatePacket
  refine post_bind fun tooSoon _ => ?_
  split
  · exact post_pure (by intro out addr h; cases h)
  dsimp only
  split
  · exact post_pure (by intro out addr h; cases h)
  · split
    · exact post_panic
    · exact post_pure (by intro out addr h; cases h)
    · rename_i out henc
      refine post_bind fun sq _ => post_pure ?_
      intro o ad ho; cases ho
      exact Packet.encode_le_cap a hl henc

theorem update_size (a : AEAD) (hl : a.Laws) (c : NetcodeClient) (d : Nat) :
    (update a c d).Post (fun r => ∀ out addr, r.1 = some (out, addr) → out.length ≤ C.NETCODE_MAX_PACKET_BYTES) := by
  unfold update
  refine post_bind fun ec _ => ?_
  obtain ⟨e, c1⟩ := ec
  dsimp only
  split
  · exact post_pure (by intro out addr h; cases h)
  · exact generatePacket_size a hl c1

theorem disconnect_size (a : AEAD) (hl : a.Laws) (c : NetcodeClient) {addr : Addr} {out : Bytes}
    (h : (disconnect a c).1 = .ok (addr, out)) : out.length ≤ C.NETCODE_MAX_PACKET_BYTES := by
  unfold disconnect at h
  dsimp only at h
  cases henc : Packet.encode a Packet.disconnect C.NETCODE_MAX_PACKET_BYTES c.connectToken.protocolId
      (some (c.sequence, c.connectToken.clientToServerKey)) with
  | ok o => rw [henc] at h; cases h; exact Packet.encode_le_cap a hl henc
  | err e => rw [henc] at h; cases h
  | panic m => rw [henc] at h; cases h

end NetcodeClient
end Netcode
end RenetVerif
