/-
  Group-independent helpers for `Props/SrcProps*.lean`: the property theorems (C01 … C20, proved over the hand-written
  model) transported to statements about the GENERATED functions (`RenetVerif/Generated/Src/*`, the Lean text the
  translator derives from the current Rust source).

  Only notions that do not depend on a particular group live here (so that a broken group breaks only its own
  corollaries): `NoPanic`, how `SameOutcome` / `mapRes` / `Res.forget` transport it, and small list facts.
  Group-specific helpers sit next to their headline statements in `Props/SrcProps<Area>.lean`.
-/
import RenetVerif.Lemmas.SrcEquiv.Prims
import RenetVerif.Lemmas.Acks
namespace RenetVerif.SrcCor
open RenetVerif RenetVerif.SrcEquiv

variable {ε ε' α β σ : Type}

/-- the modelled Rust call does not unwind: it returns normally (`ok`) or with `Err` (`err`) -/
def NoPanic (r : Res ε α) : Prop := ∀ site, r ≠ .panic site

instance (r : Res ε α) : Decidable (NoPanic r) :=
  match r with
  | .ok _ => isTrue (fun _ h => by cases h)
  | .err _ => isTrue (fun _ h => by cases h)
  | .panic s => isFalse (fun h => h s rfl)

theorem noPanic_ok (a : α) : NoPanic (.ok a : Res ε α) := fun _ h => by cases h
theorem noPanic_err (e : ε) : NoPanic (.err e : Res ε α) := fun _ h => by cases h
theorem noPanic_of_eq_ok {r : Res ε α} {a : α} (h : r = .ok a) : NoPanic r := h ▸ noPanic_ok a
theorem noPanic_iff_isPanic (r : Res ε α) : NoPanic r ↔ r.isPanic = false := by
  cases r with
  | ok a => exact ⟨fun _ => rfl, fun _ => noPanic_ok a⟩
  | err e => exact ⟨fun _ => rfl, fun _ => noPanic_err e⟩
  | panic s => exact ⟨fun h => absurd rfl (h s), fun h => by cases h⟩

theorem noPanic_cases {r : Res ε α} (h : NoPanic r) : (∃ a, r = .ok a) ∨ (∃ e, r = .err e) := by
  cases r with
  | ok a => exact .inl ⟨a, rfl⟩
  | err e => exact .inr ⟨e, rfl⟩
  | panic s => exact absurd rfl (h s)

/-- a function without `Err` results that does not panic returns a value -/
theorem noPanic_empty {r : Res Empty α} (h : NoPanic r) : ∃ a, r = .ok a := by
  rcases noPanic_cases h with h | ⟨e, _⟩
  · exact h
  · exact nomatch e

theorem noPanic_forget {r : Res (ε × σ) α} : NoPanic r.forget ↔ NoPanic r := by
  cases r with
  | ok a => exact ⟨fun _ => noPanic_ok a, fun _ => noPanic_ok a⟩
  | err e => exact ⟨fun _ => noPanic_err e, fun _ => noPanic_err e.1⟩
  | panic s => exact ⟨fun h => absurd rfl (h s), fun h => absurd rfl (h s)⟩

theorem forget_eq_ok {r : Res (ε × σ) α} {a : α} (h : r.forget = .ok a) : r = .ok a := by
  cases r with
  | ok b => exact congrArg _ (Res.ok.inj h)
  | err e => cases h
  | panic s => cases h

theorem noPanic_mapRes {f : α → β} {g : ε → ε'} {r : Res ε α} : NoPanic (mapRes f g r) ↔ NoPanic r := by
  cases r with
  | ok a => exact ⟨fun _ => noPanic_ok a, fun _ => noPanic_ok (f a)⟩
  | err e => exact ⟨fun _ => noPanic_err e, fun _ => noPanic_err (g e)⟩
  | panic s => exact ⟨fun h => absurd rfl (h s), fun h => absurd rfl (h s)⟩

/-- `SameOutcome` transports "does not panic" -/
theorem noPanic_of_sameOutcome {x y : Res ε α} (h : SameOutcome x y) (hy : NoPanic y) : NoPanic x := by
  cases x with
  | ok a => exact noPanic_ok a
  | err e => exact noPanic_err e
  | panic s =>
    cases y with
    | ok b => exact h.elim
    | err e => exact h.elim
    | panic t => exact absurd rfl (hy t)

theorem sameOutcome_ok {x : Res ε α} {b : α} (h : SameOutcome x (.ok b)) : x = .ok b := by
  cases x with
  | ok a => exact congrArg _ h
  | err e => exact h.elim
  | panic s => exact h.elim

theorem sameOutcome_err {x : Res ε α} {e : ε} (h : SameOutcome x (.err e)) : x = .err e := by
  cases x with
  | ok a => exact h.elim
  | err e' => exact congrArg _ h
  | panic s => exact h.elim

/-- observation for examples: the result component of a `(state, result)` outcome -/
def okSnd : Res ε (σ × α) → Option α
  | .ok a => some a.2
  | _ => none
/-- observation for examples: the state component of a `(state, result)` outcome -/
def okFst : Res ε (σ × α) → Option σ
  | .ok a => some a.1
  | _ => none

theorem toNats_injective : Function.Injective toNats := by
  intro a b h
  have := congrArg ofNats h
  rwa [ofNats_toNats, ofNats_toNats] at this

theorem toNats_append (a b : Bytes) : toNats (a ++ b) = toNats a ++ toNats b := by simp [toNats]

theorem bytesOk_append {a b : List Nat} : BytesOk (a ++ b) ↔ BytesOk a ∧ BytesOk b := by
  simp only [BytesOk, List.mem_append]
  exact ⟨fun h => ⟨fun x hx => h x (.inl hx), fun x hx => h x (.inr hx)⟩, fun h x hx => hx.elim (h.1 x) (h.2 x)⟩

/-! ### lists of generated `Range`s (`Vec<Range<u64>>`): denotation and well-formedness, intrinsically -/

/-- the set of sequence numbers a list of half-open ranges denotes -/
def RMem (x : Nat) : List RustSem.Range → Prop
  | [] => False
  | r :: l => (r.start ≤ x ∧ x < r.«end») ∨ RMem x l

/-- ascending, non-empty, non-adjacent ranges (`end_i < start_{i+1}`): the shape `add_pending_ack` maintains -/
def RangesWF : List RustSem.Range → Prop
  | [] => True
  | [r] => r.start < r.«end»
  | r :: r2 :: rest => r.start < r.«end» ∧ r.«end» < r2.start ∧ RangesWF (r2 :: rest)

instance : (l : List RustSem.Range) → Decidable (RangesWF l)
  | [] => isTrue trivial
  | [r] => inferInstanceAs (Decidable (r.start < r.«end»))
  | r :: r2 :: rest =>
    have := instDecidableRangesWF (r2 :: rest)
    inferInstanceAs (Decidable (r.start < r.«end» ∧ r.«end» < r2.start ∧ RangesWF (r2 :: rest)))

instance (x : Nat) : (l : List RustSem.Range) → Decidable (RMem x l)
  | [] => isFalse (fun h => h)
  | r :: l =>
    have := instDecidableRMem x l
    inferInstanceAs (Decidable ((r.start ≤ x ∧ x < r.«end») ∨ RMem x l))

/-- generated ranges ↦ the model's pairs -/
def pairs (l : List RustSem.Range) : List AckRange := l.map fun r => (r.start, r.«end»)

@[simp] theorem rmem_nil {x : Nat} : RMem x [] ↔ False := Iff.rfl
@[simp] theorem rmem_cons {x : Nat} {r : RustSem.Range} {l : List RustSem.Range} :
    RMem x (r :: l) ↔ (r.start ≤ x ∧ x < r.«end») ∨ RMem x l := Iff.rfl

theorem rmem_iff (x : Nat) : ∀ l : List RustSem.Range, RMem x l ↔ Acks.Mem x (pairs l)
  | [] => Iff.rfl
  | r :: l => by
    have ih := rmem_iff x l
    simp only [pairs, List.map_cons, rmem_cons, Acks.mem_cons] at ih ⊢
    rw [ih]

theorem rmem_iff_exists {x : Nat} : ∀ {l : List RustSem.Range}, RMem x l ↔ ∃ r ∈ l, r.start ≤ x ∧ x < r.«end»
  | [] => by simp
  | r :: l => by
    rw [rmem_cons, rmem_iff_exists (l := l)]
    simp

theorem rangesWF_iff : ∀ l : List RustSem.Range, RangesWF l ↔ Acks.WF (pairs l)
  | [] => Iff.rfl
  | [_] => Iff.rfl
  | r :: r2 :: rest => by
    have ih := rangesWF_iff (r2 :: rest)
    simp only [pairs, List.map_cons, RangesWF, Acks.WF] at ih ⊢
    rw [ih]

theorem rangesWF_tail {r : RustSem.Range} {l : List RustSem.Range} (h : RangesWF (r :: l)) : RangesWF l := by
  cases l with
  | nil => trivial
  | cons r2 rest => exact h.2.2

/-- in a well-formed list every later range lies strictly above the first one -/
theorem rangesWF_head_lt {r : RustSem.Range} : ∀ {l : List RustSem.Range}, RangesWF (r :: l) →
    ∀ r' ∈ l, r.«end» < r'.start
  | [], _, _, h => by cases h
  | r2 :: rest, hwf, r', hm => by
    rcases List.mem_cons.1 hm with rfl | hm
    · exact hwf.2.1
    · have := rangesWF_head_lt (r := r2) hwf.2.2 r' hm
      have h2 : r2.start < r2.«end» := by
        cases rest with
        | nil => exact hwf.2.2
        | cons _ _ => exact hwf.2.2.1
      have := hwf.2.1
      omega

/-- dropping the first (= oldest, smallest) range of a well-formed list removes exactly its members -/
theorem rmem_tail_iff {r : RustSem.Range} {l : List RustSem.Range} (h : RangesWF (r :: l)) (x : Nat) :
    RMem x l ↔ RMem x (r :: l) ∧ ¬ (r.start ≤ x ∧ x < r.«end») := by
  rw [rmem_cons]
  constructor
  · intro hx
    refine ⟨.inr hx, fun hr => ?_⟩
    obtain ⟨r', hm, h1, _⟩ := rmem_iff_exists.1 hx
    have := rangesWF_head_lt h r' hm
    omega
  · rintro ⟨hx | hx, hn⟩
    · exact absurd hx hn
    · exact hx

end RenetVerif.SrcCor
