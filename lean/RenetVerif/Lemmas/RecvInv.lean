/-
  Receive-side channel invariants (properties C06 / C09, receive side).

  * a small SMap library (sortedness, find?/insert/erase, sums over a map),
  * `SliceCtor.Inv` and the step lemma for `SliceCtor.processSlice`,
  * `RecvRel.InvP` / `RecvUnrel.InvP` (invariants parametrised by the per-constructor predicate) and
    their preservation by every receive-side operation, including the state carried by `.err`.
-/
import RenetVerif.Renet.Channels
namespace RenetVerif
open C

/-! ### SMap library -/
namespace SMap
variable {α : Type}

/-- sum of `f` over the values of a map -/
def sumBy (f : α → Nat) : SMap α → Nat
  | [] => 0
  | (_, v) :: r => f v + sumBy f r

/-- keys strictly ascending (hence unique) -/
def Sorted (m : SMap α) : Prop := (keys m).Pairwise (· < ·)

@[simp] theorem keys_nil : keys ([] : SMap α) = [] := rfl
@[simp] theorem keys_cons (k : Nat) (v : α) (r : SMap α) : keys ((k, v) :: r) = k :: keys r := rfl
@[simp] theorem sumBy_nil (f : α → Nat) : sumBy f ([] : SMap α) = 0 := rfl
@[simp] theorem sumBy_cons (f : α → Nat) (k : Nat) (v : α) (r : SMap α) :
    sumBy f ((k, v) :: r) = f v + sumBy f r := rfl
@[simp] theorem find?_nil (k : Nat) : find? ([] : SMap α) k = none := rfl
theorem find?_cons (k' : Nat) (v : α) (r : SMap α) (k : Nat) :
    find? ((k', v) :: r) k = if k' = k then some v else find? r k := rfl

theorem sorted_nil : Sorted ([] : SMap α) := List.Pairwise.nil

theorem sorted_cons {k : Nat} {v : α} {r : SMap α} :
    Sorted ((k, v) :: r) ↔ (∀ k' ∈ keys r, k < k') ∧ Sorted r := by
  simp [Sorted, List.pairwise_cons]

theorem find?_eq_none_iff {m : SMap α} {k : Nat} : find? m k = none ↔ k ∉ keys m := by
  induction m with
  | nil => simp
  | cons p r ih =>
    obtain ⟨k', v⟩ := p
    simp only [find?_cons, keys_cons, List.mem_cons]
    split <;> grind

theorem contains_iff {m : SMap α} {k : Nat} : contains m k = true ↔ k ∈ keys m := by
  have := find?_eq_none_iff (m := m) (k := k)
  unfold contains
  cases h : find? m k <;> simp_all

theorem contains_eq_false_iff {m : SMap α} {k : Nat} : contains m k = false ↔ find? m k = none := by
  unfold contains
  cases h : find? m k <;> simp

theorem contains_of_find? {m : SMap α} {k : Nat} {v : α} (h : find? m k = some v) : contains m k = true := by
  simp [contains, h]

theorem find?_of_contains {m : SMap α} {k : Nat} (h : contains m k = true) : ∃ v, find? m k = some v := by
  unfold contains at h
  cases h' : find? m k with
  | none => simp [h'] at h
  | some v => exact ⟨v, rfl⟩

theorem mem_of_find? {m : SMap α} {k : Nat} {v : α} (h : find? m k = some v) : (k, v) ∈ m := by
  induction m with
  | nil => simp at h
  | cons p r ih =>
    obtain ⟨k', v'⟩ := p
    simp only [find?_cons] at h
    split at h
    · cases h; subst_vars; simp
    · simp [ih h]

theorem find?_insert (m : SMap α) (k : Nat) (v : α) (k' : Nat) :
    find? (insert m k v) k' = if k = k' then some v else find? m k' := by
  induction m with
  | nil => simp [insert, find?_cons]
  | cons p r ih =>
    obtain ⟨k0, v0⟩ := p
    simp only [insert]
    split
    · simp [find?_cons]
    · split
      · subst_vars; simp only [find?_cons]; split <;> rfl
      · simp only [find?_cons, ih]; grind

theorem find?_erase_ne (m : SMap α) {k k' : Nat} (h : k ≠ k') : find? (erase m k) k' = find? m k' := by
  induction m with
  | nil => simp [erase]
  | cons p r ih =>
    obtain ⟨k0, v0⟩ := p
    simp only [erase]
    split
    · subst_vars; simp [find?_cons, h]
    · simp only [find?_cons, ih]

theorem find?_erase_none (m : SMap α) {k k' : Nat} (h : find? m k' = none) : find? (erase m k) k' = none := by
  induction m with
  | nil => simp [erase]
  | cons p r ih =>
    obtain ⟨k0, v0⟩ := p
    simp only [find?_cons] at h
    split at h
    · cases h
    · simp only [erase]
      split
      · exact h
      · simp only [find?_cons]; rw [if_neg (by assumption)]; exact ih h

theorem find?_erase_self {m : SMap α} (hs : Sorted m) (k : Nat) : find? (erase m k) k = none := by
  induction m with
  | nil => simp [erase]
  | cons p r ih =>
    obtain ⟨k0, v0⟩ := p
    rw [sorted_cons] at hs
    simp only [erase]
    split
    · subst_vars
      rw [find?_eq_none_iff]
      intro hm; have := hs.1 _ hm; omega
    · simp only [find?_cons]; rw [if_neg (by assumption)]; exact ih hs.2

theorem mem_keys_insert {m : SMap α} {k : Nat} {v : α} {k' : Nat} :
    k' ∈ keys (insert m k v) ↔ k' = k ∨ k' ∈ keys m := by
  have h1 := find?_eq_none_iff (m := insert m k v) (k := k')
  have h2 := find?_eq_none_iff (m := m) (k := k')
  rw [find?_insert] at h1
  by_cases hk : k = k'
  · simp [hk] at h1; simp [hk, h1]
  · simp only [hk, if_false] at h1
    grind

theorem mem_keys_erase {m : SMap α} {k k' : Nat} (h : k' ∈ keys (erase m k)) : k' ∈ keys m := by
  induction m with
  | nil => simp [erase] at h
  | cons p r ih =>
    obtain ⟨k0, v0⟩ := p
    simp only [erase] at h
    split at h
    · simp [h]
    · simp only [keys_cons, List.mem_cons] at h ⊢
      rcases h with h | h
      · exact Or.inl h
      · exact Or.inr (ih h)

theorem mem_insert {m : SMap α} {k : Nat} {v : α} {p : Nat × α} (h : p ∈ insert m k v) : p = (k, v) ∨ p ∈ m := by
  induction m with
  | nil => simp [insert] at h; exact Or.inl h
  | cons q r ih =>
    obtain ⟨k0, v0⟩ := q
    simp only [insert] at h
    split at h
    · simp only [List.mem_cons] at h ⊢; grind
    · split at h
      · simp only [List.mem_cons] at h ⊢; grind
      · simp only [List.mem_cons] at h ⊢
        rcases h with h | h
        · exact Or.inr (Or.inl h)
        · rcases ih h with h | h
          · exact Or.inl h
          · exact Or.inr (Or.inr h)

theorem mem_erase {m : SMap α} {k : Nat} {p : Nat × α} (h : p ∈ erase m k) : p ∈ m := by
  induction m with
  | nil => simp [erase] at h
  | cons q r ih =>
    obtain ⟨k0, v0⟩ := q
    simp only [erase] at h
    split at h
    · simp [h]
    · simp only [List.mem_cons] at h ⊢
      rcases h with h | h
      · exact Or.inl h
      · exact Or.inr (ih h)

theorem sorted_insert {m : SMap α} (hs : Sorted m) (k : Nat) (v : α) : Sorted (insert m k v) := by
  induction m with
  | nil => simp [insert, Sorted]
  | cons p r ih =>
    obtain ⟨k0, v0⟩ := p
    have hs' := sorted_cons.mp hs
    simp only [insert]
    split
    · rw [sorted_cons]
      refine ⟨?_, hs⟩
      intro k' hk'
      simp only [keys_cons, List.mem_cons] at hk'
      rcases hk' with rfl | hk'
      · assumption
      · have := hs'.1 _ hk'; omega
    · split
      · subst_vars; rw [sorted_cons]; exact hs'
      · rw [sorted_cons]
        refine ⟨?_, ih hs'.2⟩
        intro k' hk'
        rw [mem_keys_insert] at hk'
        rcases hk' with rfl | hk'
        · omega
        · exact hs'.1 _ hk'

theorem sorted_erase {m : SMap α} (hs : Sorted m) (k : Nat) : Sorted (erase m k) := by
  induction m with
  | nil => simp [erase, Sorted]
  | cons p r ih =>
    obtain ⟨k0, v0⟩ := p
    have hs' := sorted_cons.mp hs
    simp only [erase]
    split
    · exact hs'.2
    · rw [sorted_cons]
      exact ⟨fun k' hk' => hs'.1 _ (mem_keys_erase hk'), ih hs'.2⟩

theorem sorted_tail {p : Nat × α} {r : SMap α} (hs : Sorted (p :: r)) : Sorted r := by
  obtain ⟨k, v⟩ := p; exact (sorted_cons.mp hs).2

/-- in a sorted map nothing at or below the head key occurs in the tail -/
theorem find?_tail_none {k0 : Nat} {v0 : α} {r : SMap α} (hs : Sorted ((k0, v0) :: r)) {k : Nat} (hk : k ≤ k0) :
    find? r k = none := by
  rw [find?_eq_none_iff]
  intro hm; have := (sorted_cons.mp hs).1 _ hm; omega

theorem sumBy_insert_absent (f : α → Nat) {m : SMap α} {k : Nat} (v : α) (h : find? m k = none) :
    sumBy f (insert m k v) = sumBy f m + f v := by
  induction m with
  | nil => simp [insert]
  | cons p r ih =>
    obtain ⟨k0, v0⟩ := p
    simp only [find?_cons] at h
    split at h
    · cases h
    · simp only [insert]
      split
      · simp only [sumBy_cons]; omega
      · split
        · omega
        · simp only [sumBy_cons, ih h]; omega

theorem sumBy_insert_present (f : α → Nat) {m : SMap α} (hs : Sorted m) {k : Nat} {old : α} (v : α)
    (h : find? m k = some old) : sumBy f (insert m k v) + f old = sumBy f m + f v := by
  induction m with
  | nil => simp at h
  | cons p r ih =>
    obtain ⟨k0, v0⟩ := p
    simp only [insert]
    split
    · -- k < k0: impossible, k would have to occur in the tail
      have hn := find?_tail_none hs (k := k) (by omega)
      simp only [find?_cons] at h
      rw [if_neg (by omega), hn] at h; cases h
    · split
      · subst_vars
        simp only [find?_cons, if_true] at h
        cases h
        simp only [sumBy_cons]; omega
      · simp only [find?_cons] at h
        rw [if_neg (by omega)] at h
        have := ih (sorted_tail hs) h
        simp only [sumBy_cons]; omega

theorem sumBy_erase_present (f : α → Nat) {m : SMap α} {k : Nat} {old : α} (h : find? m k = some old) :
    sumBy f (erase m k) + f old = sumBy f m := by
  induction m with
  | nil => simp at h
  | cons p r ih =>
    obtain ⟨k0, v0⟩ := p
    simp only [find?_cons] at h
    simp only [erase]
    split
    · rw [if_pos (by assumption)] at h; cases h
      simp only [sumBy_cons]; omega
    · rw [if_neg (by assumption)] at h
      have := ih h
      simp only [sumBy_cons]; omega

theorem le_sumBy_of_find? (f : α → Nat) {m : SMap α} {k : Nat} {v : α} (h : find? m k = some v) :
    f v ≤ sumBy f m := by
  have := sumBy_erase_present f h; omega

theorem erase_of_find?_none {m : SMap α} {k : Nat} (h : find? m k = none) : erase m k = m := by
  induction m with
  | nil => rfl
  | cons p r ih =>
    obtain ⟨k0, v0⟩ := p
    simp only [find?_cons] at h
    split at h
    · cases h
    · simp only [erase]; rw [if_neg (by assumption), ih h]

theorem erase_insert {m : SMap α} (hs : Sorted m) (k : Nat) (v : α) : erase (insert m k v) k = erase m k := by
  induction m with
  | nil => simp [insert, erase]
  | cons p r ih =>
    obtain ⟨k0, v0⟩ := p
    simp only [insert]
    split
    · have hn := find?_tail_none hs (k := k) (by omega)
      simp only [erase, if_true]
      rw [if_neg (by omega), erase_of_find?_none hn]
    · split
      · subst_vars; simp [erase]
      · simp only [erase]
        rw [if_neg (by omega), if_neg (by omega), ih (sorted_tail hs)]

theorem contains_insert {m : SMap α} {k : Nat} {v : α} {k' : Nat} :
    contains (insert m k v) k' = true ↔ k' = k ∨ contains m k' = true := by
  rw [contains_iff, contains_iff, mem_keys_insert]

theorem contains_erase_of_ne {m : SMap α} {k k' : Nat} (hne : k ≠ k') :
    contains (erase m k) k' = contains m k' := by
  unfold contains; rw [find?_erase_ne m hne]

theorem ne_of_contains_erase {m : SMap α} (hs : Sorted m) {k k' : Nat} (h : contains (erase m k) k' = true) :
    k ≠ k' := by
  intro he; subst he
  have := find?_erase_self hs k
  simp [contains, this] at h

end SMap

/-! ### resize / setRange -/
theorem resize_length (l : Bytes) (len : Nat) : (resize l len).length = len := by
  simp [resize]; omega

theorem setRange_ok {ε} (l : Bytes) (start : Nat) (src : Bytes) (site : String)
    (h : start + src.length ≤ l.length) :
    ∃ d, (setRange l start src site : Res ε Bytes) = .ok d ∧ d.length = l.length := by
  refine ⟨l.take start ++ src ++ l.drop (start + src.length), by simp [setRange, h], ?_⟩
  simp; omega

theorem mul_succ_le {i n S : Nat} (h : i + 1 ≤ n) : i * S + S ≤ n * S := by
  have := Nat.mul_le_mul_right S h; rw [Nat.add_mul] at this; simpa using this

theorem pred_mul_add {n S : Nat} (h : 1 ≤ n) : n * S = (n - 1) * S + S := by
  have : n = (n - 1) + 1 := by omega
  rw [this, Nat.add_mul]; simp

/-! ### SliceCtor -/

/-- invariant of a slice constructor that is stored in a channel (hence incomplete) -/
def SliceCtor.Inv (c : SliceCtor) : Prop :=
  1 ≤ c.numSlices ∧ c.received.length = c.numSlices ∧ c.numReceived = c.received.count true ∧
  c.numReceived < c.numSlices ∧
  (if c.received[c.numSlices - 1]? = some true
   then (c.numSlices - 1) * SLICE_SIZE ≤ c.data.length ∧ c.data.length ≤ c.numSlices * SLICE_SIZE
   else c.data.length = c.numSlices * SLICE_SIZE)

theorem SliceCtor.new_inv (n : Nat) (h : 1 ≤ n) : (SliceCtor.new n).Inv := by
  refine ⟨h, by simp [SliceCtor.new], by simp [SliceCtor.new, List.count_replicate], by simp [SliceCtor.new]; omega, ?_⟩
  simp [SliceCtor.new, List.getElem?_replicate]

/-- the buffer is never shorter than all the non-final slices -/
theorem SliceCtor.Inv.data_lower {c : SliceCtor} (h : c.Inv) : (c.numSlices - 1) * SLICE_SIZE ≤ c.data.length := by
  obtain ⟨h1, _, _, _, h5⟩ := h
  have := pred_mul_add (S := SLICE_SIZE) h1
  split at h5 <;> omega

theorem SliceCtor.Inv.data_upper {c : SliceCtor} (h : c.Inv) : c.data.length ≤ c.numSlices * SLICE_SIZE := by
  obtain ⟨h1, _, _, _, h5⟩ := h
  split at h5 <;> omega

/-- outcome of the "store the slice" step (first arrival of slice `idx`) -/
theorem SliceCtor.store_ok (c : SliceCtor) (h : c.Inv) (idx : Nat) (bytes : Bytes) (hidx : idx < c.numSlices)
    (hlast : idx = c.numSlices - 1 → bytes.length ≤ SLICE_SIZE)
    (hmid : idx ≠ c.numSlices - 1 → bytes.length = SLICE_SIZE)
    (hnew : c.received[idx]? = some false) :
    ∃ d, (setRange (if (idx == c.numSlices - 1) = true then resize c.data ((c.numSlices - 1) * SLICE_SIZE + bytes.length) else c.data)
            (idx * SLICE_SIZE) bytes "slice_constructor.rs sliced_data[start..end].copy_from_slice" : Res ChanErr Bytes) = .ok d ∧
      d.length ≤ c.numSlices * SLICE_SIZE ∧
      (c.numReceived + 1 < c.numSlices →
        ({ c with received := c.received.set idx true, numReceived := c.numReceived + 1, data := d } : SliceCtor).Inv) := by
  have hlo := h.data_lower
  have hup := h.data_upper
  obtain ⟨h1, h2, h3, h4, h5⟩ := h
  have hnS := pred_mul_add (S := SLICE_SIZE) h1
  by_cases hl : idx = c.numSlices - 1
  · -- final slice: shrink the buffer to the exact message length first
    have hb := hlast hl
    have hbeq : (idx == c.numSlices - 1) = true := by simp [hl]
    rw [if_pos hbeq]
    obtain ⟨d, hd, hdl⟩ := setRange_ok (ε := ChanErr) (resize c.data ((c.numSlices - 1) * SLICE_SIZE + bytes.length))
      (idx * SLICE_SIZE) bytes "slice_constructor.rs sliced_data[start..end].copy_from_slice"
      (by rw [resize_length, hl]; omega)
    rw [resize_length] at hdl
    refine ⟨d, hd, by omega, ?_⟩
    intro hlt
    refine ⟨h1, by simp [h2], ?_, hlt, ?_⟩
    · show c.numReceived + 1 = (c.received.set idx true).count true
      rw [List.count_set (by omega)]
      have : c.received[idx]'(by omega) = false := by
        have := List.getElem?_eq_getElem (l := c.received) (i := idx) (by omega)
        rw [this] at hnew; exact Option.some.inj hnew
      simp [this]; omega
    · show (if (c.received.set idx true)[c.numSlices - 1]? = some true then _ else _)
      have : (c.received.set idx true)[c.numSlices - 1]? = some true := by
        rw [List.getElem?_set]; simp [hl]; omega
      rw [if_pos this]
      show (c.numSlices - 1) * SLICE_SIZE ≤ d.length ∧ d.length ≤ c.numSlices * SLICE_SIZE
      omega
  · -- any other slice: full size, written in place
    have hb := hmid hl
    have hbeq : ¬ (idx == c.numSlices - 1) = true := by simp [hl]
    rw [if_neg hbeq]
    have hin : idx * SLICE_SIZE + SLICE_SIZE ≤ (c.numSlices - 1) * SLICE_SIZE :=
      mul_succ_le (show idx + 1 ≤ c.numSlices - 1 by omega)
    obtain ⟨d, hd, hdl⟩ := setRange_ok (ε := ChanErr) c.data (idx * SLICE_SIZE) bytes
      "slice_constructor.rs sliced_data[start..end].copy_from_slice" (by omega)
    refine ⟨d, hd, by omega, ?_⟩
    intro hlt
    refine ⟨h1, by simp [h2], ?_, hlt, ?_⟩
    · show c.numReceived + 1 = (c.received.set idx true).count true
      rw [List.count_set (by omega)]
      have : c.received[idx]'(by omega) = false := by
        have := List.getElem?_eq_getElem (l := c.received) (i := idx) (by omega)
        rw [this] at hnew; exact Option.some.inj hnew
      simp [this]; omega
    · show (if (c.received.set idx true)[c.numSlices - 1]? = some true then _ else _)
      have : (c.received.set idx true)[c.numSlices - 1]? = c.received[c.numSlices - 1]? := by
        rw [List.getElem?_set]; simp [hl]
      rw [this, hdl]
      exact h5

/-- `processSlice` on a constructor satisfying the invariant: never a panic; an incomplete result
    satisfies the invariant again; a completed message fits the reservation. -/
theorem SliceCtor.processSlice_spec (c : SliceCtor) (h : c.Inv) (idx : Nat) (bytes : Bytes) :
    (∃ e, c.processSlice idx bytes = .err e) ∨
    (∃ c', c.processSlice idx bytes = .ok (c', none) ∧ c'.Inv ∧ c'.numSlices = c.numSlices) ∨
    (∃ c' m, c.processSlice idx bytes = .ok (c', some m) ∧ m.length ≤ c.numSlices * SLICE_SIZE ∧
      c'.numSlices = c.numSlices) := by
  unfold SliceCtor.processSlice
  by_cases hidx : idx ≥ c.numSlices
  · left; exact ⟨_, by rw [if_pos hidx]⟩
  rw [if_neg hidx]
  simp only []
  by_cases hA : (idx == c.numSlices - 1) = true ∧ bytes.length > SLICE_SIZE
  · left; exact ⟨_, by rw [if_pos hA]⟩
  rw [if_neg hA]
  by_cases hB : ¬ (idx == c.numSlices - 1) = true ∧ bytes.length ≠ SLICE_SIZE
  · left; exact ⟨_, by rw [if_pos hB]⟩
  rw [if_neg hB]
  have hlen := h.2.1
  have hget : c.received[idx]? = some (c.received[idx]'(by omega)) := List.getElem?_eq_getElem (by omega)
  generalize c.received[idx]'(by omega) = got at hget
  rw [hget]
  cases got with
  | true =>
    right; left
    refine ⟨c, ?_, h, rfl⟩
    have : ¬ c.numReceived = c.numSlices := by have := h.2.2.2.1; omega
    simp [this]
  | false =>
    have hlast : idx = c.numSlices - 1 → bytes.length ≤ SLICE_SIZE := by
      intro hl; have : (idx == c.numSlices - 1) = true := by simp [hl]
      simp only [this, true_and] at hA; omega
    have hmid : idx ≠ c.numSlices - 1 → bytes.length = SLICE_SIZE := by
      intro hl; have : ¬ (idx == c.numSlices - 1) = true := by simp [hl]
      by_cases hb : bytes.length = SLICE_SIZE
      · exact hb
      · exact absurd ⟨this, hb⟩ hB
    obtain ⟨d, hd, hdl, hinv⟩ := SliceCtor.store_ok c h idx bytes (by omega) hlast hmid hget
    simp only [Bool.false_eq_true, if_false, Res.pure_eq]
    rw [hd]
    simp only [Res.bind_ok]
    have hcnt : c.numReceived + 1 ≤ c.numSlices := by have := h.2.2.2.1; omega
    by_cases hfull : c.numReceived + 1 = c.numSlices
    · right; right
      exact ⟨{ numSlices := c.numSlices, numReceived := c.numReceived + 1, received := c.received.set idx true, data := [] },
        d, by rw [if_pos hfull], hdl, rfl⟩
    · right; left
      exact ⟨{ numSlices := c.numSlices, numReceived := c.numReceived + 1, received := c.received.set idx true, data := d },
        by rw [if_neg hfull], hinv (by omega), rfl⟩

/-- the requested "match" formulation -/
theorem SliceCtor.ctor_no_panic (c : SliceCtor) (h : c.Inv) (idx : Nat) (bytes : Bytes) :
    match c.processSlice idx bytes with
    | .panic _ => False
    | .err _ => True
    | .ok (c', none) => c'.Inv ∧ c'.numSlices = c.numSlices
    | .ok (c', some m) => m.length ≤ c.numSlices * SLICE_SIZE ∧ c'.numSlices = c.numSlices := by
  rcases SliceCtor.processSlice_spec c h idx bytes with ⟨e, he⟩ | ⟨c', he, h1, h2⟩ | ⟨c', m, he, h1, h2⟩
  · rw [he]; trivial
  · rw [he]; exact ⟨h1, h2⟩
  · rw [he]; exact ⟨h1, h2⟩

/-- a constructor announcing zero slices rejects every slice -/
theorem SliceCtor.processSlice_zero (c : SliceCtor) (h : c.numSlices = 0) (idx : Nat) (bytes : Bytes) :
    c.processSlice idx bytes = .err .invalidSlice := by
  unfold SliceCtor.processSlice
  rw [if_pos (by omega)]

/-- the all-inputs variant: either the strict invariant, or a dead constructor with zero slices
    (only reachable from a `Slice` value with `numSlices = 0`, which the packet decoder rejects) -/
def SliceCtor.WInv (c : SliceCtor) : Prop := c.numSlices = 0 ∨ c.Inv

theorem SliceCtor.new_winv (n : Nat) : (SliceCtor.new n).WInv := by
  by_cases h : n = 0
  · left; subst h; rfl
  · right; exact SliceCtor.new_inv n (by omega)

/-- bytes reserved in the channel's memory account for a constructor -/
def SliceCtor.reserved (c : SliceCtor) : Nat := c.numSlices * SLICE_SIZE

/-- what the channel proofs need from a per-constructor predicate -/
structure CtorPred (P : SliceCtor → Prop) : Prop where
  step : ∀ c, P c → ∀ (idx : Nat) (bytes : Bytes),
    (∃ e, c.processSlice idx bytes = .err e) ∨
    (∃ c', c.processSlice idx bytes = .ok (c', none) ∧ P c' ∧ c'.numSlices = c.numSlices) ∨
    (∃ c' m, c.processSlice idx bytes = .ok (c', some m) ∧ m.length ≤ c.numSlices * SLICE_SIZE ∧
      c'.numSlices = c.numSlices)

theorem ctorPred_inv : CtorPred SliceCtor.Inv := ⟨SliceCtor.processSlice_spec⟩

theorem ctorPred_winv : CtorPred SliceCtor.WInv := by
  constructor
  intro c hc idx bytes
  rcases hc with h0 | hc
  · left; exact ⟨_, SliceCtor.processSlice_zero c h0 idx bytes⟩
  · rcases SliceCtor.processSlice_spec c hc idx bytes with h | ⟨c', he, h1, h2⟩ | h
    · exact Or.inl h
    · exact Or.inr (Or.inl ⟨c', he, Or.inr h1, h2⟩)
    · exact Or.inr (Or.inr h)

/-- the constructor map of a channel: sorted keys, every constructor satisfies `P` -/
def SlicesOk (P : SliceCtor → Prop) (s : SMap SliceCtor) : Prop :=
  SMap.Sorted s ∧ ∀ k c, (k, c) ∈ s → P c

theorem SlicesOk.nil {P} : SlicesOk P [] := ⟨SMap.sorted_nil, by simp⟩

theorem SlicesOk.insert {P} {s : SMap SliceCtor} (h : SlicesOk P s) (k : Nat) {c : SliceCtor} (hc : P c) :
    SlicesOk P (SMap.insert s k c) := by
  refine ⟨SMap.sorted_insert h.1 k c, ?_⟩
  intro k' c' hm
  rcases SMap.mem_insert hm with h' | h'
  · cases h'; exact hc
  · exact h.2 _ _ h'

theorem SlicesOk.erase {P} {s : SMap SliceCtor} (h : SlicesOk P s) (k : Nat) : SlicesOk P (SMap.erase s k) :=
  ⟨SMap.sorted_erase h.1 k, fun _ _ hm => h.2 _ _ (SMap.mem_erase hm)⟩

theorem SlicesOk.of_find? {P} {s : SMap SliceCtor} (h : SlicesOk P s) {k : Nat} {c : SliceCtor}
    (hf : SMap.find? s k = some c) : P c := h.2 _ _ (SMap.mem_of_find? hf)

theorem SlicesOk.mono {P Q : SliceCtor → Prop} {s : SMap SliceCtor} (h : SlicesOk P s) (hpq : ∀ c, P c → Q c) :
    SlicesOk Q s := ⟨h.1, fun k c hm => hpq _ (h.2 k c hm)⟩

/-! ### RecvRel -/

structure RecvRel.InvP (P : SliceCtor → Prop) (r : RecvRel) : Prop where
  /-- exact memory accounting -/
  acct : r.mem = SMap.sumBy List.length r.messages + SMap.sumBy SliceCtor.reserved r.slices
  budget : r.mem ≤ r.maxMem
  slicesOk : SlicesOk P r.slices
  /-- unordered mode: every pending message id is remembered (or already below the cursor) -/
  pending : r.ordered = false → ∀ k, SMap.contains r.messages k = true → k < r.oldest ∨ k ∈ r.received

theorem RecvRel.new_invP {P} (maxMem : Nat) (ordered : Bool) : (RecvRel.new maxMem ordered).InvP P := by
  refine ⟨by simp [RecvRel.new], by simp [RecvRel.new], SlicesOk.nil, ?_⟩
  intro _ k hk; simp [RecvRel.new, SMap.contains] at hk

theorem RecvRel.InvP.addMessage {P} {r : RecvRel} (h : r.InvP P) (m : Bytes) (id : Nat) (rec : List Nat)
    (habs : SMap.find? r.messages id = none) (hb : r.mem + m.length ≤ r.maxMem)
    (hrec : r.ordered = false → ∀ k, (k = id ∨ k ∈ r.received) → k ∈ rec) :
    RecvRel.InvP P { r with mem := r.mem + m.length, received := rec, messages := SMap.insert r.messages id m } := by
  refine ⟨?_, hb, h.slicesOk, ?_⟩
  · show r.mem + m.length = SMap.sumBy List.length (SMap.insert r.messages id m) + SMap.sumBy SliceCtor.reserved r.slices
    rw [SMap.sumBy_insert_absent _ _ habs]; have := h.acct; omega
  · intro ho k hk
    show k < r.oldest ∨ k ∈ rec
    rw [SMap.contains_iff, SMap.mem_keys_insert] at hk
    rcases hk with hk | hk
    · exact Or.inr (hrec ho k (Or.inl hk))
    · rcases h.pending ho k (SMap.contains_iff.mpr hk) with h' | h'
      · exact Or.inl h'
      · exact Or.inr (hrec ho k (Or.inr h'))

theorem RecvRel.InvP.dropCtor {P} {r : RecvRel} (h : r.InvP P) {id : Nat} {c : SliceCtor}
    (hf : SMap.find? r.slices id = some c) :
    c.reserved ≤ r.mem ∧
    RecvRel.InvP P { r with mem := r.mem - c.reserved, slices := SMap.erase r.slices id } := by
  have h1 := SMap.sumBy_erase_present SliceCtor.reserved hf
  have h2 := h.acct
  refine ⟨by omega, ?_, ?_, h.slicesOk.erase id, h.pending⟩
  · show r.mem - c.reserved = SMap.sumBy List.length r.messages + SMap.sumBy SliceCtor.reserved (SMap.erase r.slices id)
    omega
  · show r.mem - c.reserved ≤ r.maxMem
    have := h.budget; omega

theorem RecvRel.InvP.reserve {P} {r : RecvRel} (h : r.InvP P) {id : Nat} {c : SliceCtor}
    (hf : SMap.find? r.slices id = none) (hc : P c) (hb : r.mem + c.reserved ≤ r.maxMem) :
    RecvRel.InvP P { r with mem := r.mem + c.reserved, slices := SMap.insert r.slices id c } := by
  refine ⟨?_, hb, h.slicesOk.insert id hc, h.pending⟩
  show r.mem + c.reserved = SMap.sumBy List.length r.messages + SMap.sumBy SliceCtor.reserved (SMap.insert r.slices id c)
  rw [SMap.sumBy_insert_absent _ _ hf]; have := h.acct; omega

theorem RecvRel.InvP.replaceCtor {P} {r : RecvRel} (h : r.InvP P) {id : Nat} {c c' : SliceCtor}
    (hf : SMap.find? r.slices id = some c) (hc : P c') (hn : c'.numSlices = c.numSlices) :
    RecvRel.InvP P { r with slices := SMap.insert r.slices id c' } := by
  refine ⟨?_, h.budget, h.slicesOk.insert id hc, h.pending⟩
  show r.mem = SMap.sumBy List.length r.messages + SMap.sumBy SliceCtor.reserved (SMap.insert r.slices id c')
  have h1 := SMap.sumBy_insert_present SliceCtor.reserved h.slicesOk.1 c' hf
  have h2 : c'.reserved = c.reserved := by simp [SliceCtor.reserved, hn]
  have := h.acct; omega

/-- the three possible outcomes of `processMessage` -/
theorem RecvRel.processMessage_cases (r : RecvRel) (m : Bytes) (id : Nat) :
    r.processMessage m id = .ok r ∨
    (r.mem + m.length > r.maxMem ∧ r.processMessage m id = .err (.maxMemory, r)) ∨
    (r.mem + m.length ≤ r.maxMem ∧ ¬ id < r.oldest ∧
      ∃ rec, r.processMessage m id =
          .ok { r with mem := r.mem + m.length, received := rec, messages := SMap.insert r.messages id m } ∧
        (r.ordered = true → SMap.contains r.messages id = false ∧ rec = r.received) ∧
        (r.ordered = false → id ∉ r.received ∧ rec = id :: r.received)) := by
  unfold RecvRel.processMessage
  by_cases h1 : id < r.oldest
  · left; rw [if_pos h1]
  rw [if_neg h1]
  cases ho : r.ordered with
  | true =>
    simp only [if_true]
    by_cases h2 : SMap.contains r.messages id = true
    · left; rw [if_pos h2]
    rw [if_neg h2]
    by_cases h3 : r.mem + m.length > r.maxMem
    · right; left; rw [if_pos h3]; exact ⟨h3, rfl⟩
    rw [if_neg h3]
    right; right
    refine ⟨by omega, h1, r.received, rfl, ?_, ?_⟩
    · intro _; exact ⟨by simpa using h2, rfl⟩
    · intro hc; cases hc
  | false =>
    simp only [Bool.false_eq_true, if_false]
    by_cases h2 : r.received.contains id = true
    · left; rw [if_pos h2]
    rw [if_neg h2]
    by_cases h3 : r.mem + m.length > r.maxMem
    · right; left; rw [if_pos h3]; exact ⟨h3, rfl⟩
    rw [if_neg h3]
    right; right
    refine ⟨by omega, h1, id :: r.received, rfl, ?_, ?_⟩
    · intro hc; cases hc
    · intro _; exact ⟨by simpa using h2, rfl⟩

theorem RecvRel.processMessage_safeP {P} (r : RecvRel) (h : r.InvP P) (m : Bytes) (id : Nat) :
    (∃ r', r.processMessage m id = .ok r' ∧ r'.InvP P) ∨
    (∃ e r', r.processMessage m id = .err (e, r') ∧ r'.InvP P) := by
  rcases RecvRel.processMessage_cases r m id with he | ⟨_, he⟩ | ⟨hb, hold, rec, he, h1, h2⟩
  · exact Or.inl ⟨r, he, h⟩
  · exact Or.inr ⟨_, r, he, h⟩
  · left
    refine ⟨_, he, h.addMessage m id rec ?_ hb ?_⟩
    · cases ho : r.ordered with
      | true => exact SMap.contains_eq_false_iff.mp (h1 ho).1
      | false =>
        have hp := h.pending ho id
        cases hf : SMap.find? r.messages id with
        | none => rfl
        | some v =>
          rcases hp (SMap.contains_of_find? hf) with h' | h'
          · exact absurd h' hold
          · exact absurd h' (h2 ho).1
    · intro ho k hk
      rw [(h2 ho).2]
      simp only [List.mem_cons]; exact hk

/-- second half of `RecvRel.processSlice`: feed the slice to the (now present) constructor -/
def RecvRel.sliceStep (r : RecvRel) (sl : Slice) : RecvRelRes :=
  match SMap.find? r.slices sl.messageId with
  | none => .panic "unreachable: constructor just inserted"
  | some c =>
    if c.numSlices ≠ sl.numSlices then .err (.invalidSlice, r) else
    match c.processSlice sl.sliceIndex sl.payload with
    | .panic s => .panic s
    | .err e => .err (e, r)
    | .ok (c', none) => pure { r with slices := SMap.insert r.slices sl.messageId c' }
    | .ok (c', some m) => do
      let mem ← Res.csub r.mem (c.numSlices * SLICE_SIZE) "reliable.rs memory_usage_bytes -= num_slices * SLICE_SIZE"
      let r := { r with mem := mem, slices := SMap.insert r.slices sl.messageId c' }
      let r ← r.processMessage m sl.messageId
      pure { r with slices := SMap.erase r.slices sl.messageId }

/-- first half: reserve memory and create the constructor when the message id is new -/
def RecvRel.reserveStep (r : RecvRel) (sl : Slice) : RecvRelRes :=
  if SMap.contains r.slices sl.messageId then (pure r : RecvRelRes) else
    let len := sl.numSlices * SLICE_SIZE
    if r.mem + len > r.maxMem then Res.err (ChanErr.maxMemory, r)
    else pure { r with mem := r.mem + len, slices := SMap.insert r.slices sl.messageId (SliceCtor.new sl.numSlices) }

theorem RecvRel.processSlice_eq (r : RecvRel) (sl : Slice) :
    r.processSlice sl =
      if SMap.contains r.messages sl.messageId ∨ sl.messageId < r.oldest then .ok r else
      if ¬ r.ordered ∧ r.received.contains sl.messageId then .ok r else
      r.reserveStep sl >>= fun r1 => r1.sliceStep sl := by
  unfold RecvRel.processSlice RecvRel.reserveStep RecvRel.sliceStep
  split
  · rfl
  split
  · rfl
  split
  · rfl
  simp only []
  split
  · rfl
  · rfl

theorem RecvRel.reserveStep_spec {P} (r : RecvRel) (h : r.InvP P) (sl : Slice)
    (hnew : P (SliceCtor.new sl.numSlices)) :
    r.reserveStep sl = .err (.maxMemory, r) ∨
    (∃ r1, r.reserveStep sl = .ok r1 ∧ r1.InvP P ∧ SMap.contains r1.slices sl.messageId = true ∧
      r1.messages = r.messages) := by
  unfold RecvRel.reserveStep
  by_cases h1 : SMap.contains r.slices sl.messageId = true
  · right; rw [if_pos h1]; exact ⟨r, rfl, h, h1, rfl⟩
  rw [if_neg h1]
  simp only []
  by_cases h2 : r.mem + sl.numSlices * SLICE_SIZE > r.maxMem
  · left; rw [if_pos h2]
  rw [if_neg h2]
  right
  have hf : SMap.find? r.slices sl.messageId = none := SMap.contains_eq_false_iff.mp (by simpa using h1)
  refine ⟨_, rfl, h.reserve (c := SliceCtor.new sl.numSlices) hf hnew (by simp only [SliceCtor.reserved, SliceCtor.new]; omega), ?_, rfl⟩
  apply SMap.contains_of_find? (v := SliceCtor.new sl.numSlices)
  show SMap.find? (SMap.insert r.slices sl.messageId (SliceCtor.new sl.numSlices)) sl.messageId = _
  rw [SMap.find?_insert]; simp

theorem RecvRel.sliceStep_spec {P} (hP : CtorPred P) (r : RecvRel) (h : r.InvP P) (sl : Slice)
    (hc : SMap.contains r.slices sl.messageId = true) (hm : SMap.find? r.messages sl.messageId = none) :
    (∃ r', r.sliceStep sl = .ok r' ∧ r'.InvP P) ∨
    (∃ e r', r.sliceStep sl = .err (e, r') ∧ r'.InvP P) := by
  obtain ⟨c, hf⟩ := SMap.find?_of_contains hc
  unfold RecvRel.sliceStep
  rw [hf]
  simp only []
  by_cases hn : c.numSlices ≠ sl.numSlices
  · right; rw [if_pos hn]; exact ⟨_, r, rfl, h⟩
  rw [if_neg hn]
  rcases hP.step c (h.slicesOk.of_find? hf) sl.sliceIndex sl.payload with
    ⟨e, he⟩ | ⟨c', he, hc', hn'⟩ | ⟨c', m, he, hml, hn'⟩
  · right; rw [he]; exact ⟨e, r, rfl, h⟩
  · left; rw [he]; exact ⟨_, rfl, h.replaceCtor hf hc' hn'⟩
  · left; rw [he]
    simp only []
    obtain ⟨hle, hdrop⟩ := h.dropCtor hf
    have hle' : c.numSlices * SLICE_SIZE ≤ r.mem := hle
    unfold Res.csub
    rw [if_pos hle']
    simp only [Res.bind_ok]
    have hbud := h.budget
    have hres : c.reserved = c.numSlices * SLICE_SIZE := rfl
    rcases RecvRel.processMessage_cases
        { r with mem := r.mem - c.numSlices * SLICE_SIZE, slices := SMap.insert r.slices sl.messageId c' }
        m sl.messageId with he2 | ⟨hgt, _⟩ | ⟨hb, _, rec, he2, h1, h2⟩
    · rw [he2]
      refine ⟨_, rfl, ?_⟩
      simp only [SMap.erase_insert h.slicesOk.1]
      exact hdrop
    · exfalso
      have : r.mem - c.numSlices * SLICE_SIZE + m.length > r.maxMem := hgt
      omega
    · rw [he2]
      refine ⟨_, rfl, ?_⟩
      simp only [SMap.erase_insert h.slicesOk.1]
      have hb' : r.mem - c.reserved + m.length ≤ r.maxMem := hb
      refine hdrop.addMessage m sl.messageId rec hm hb' ?_
      intro ho k hk
      have := (h2 ho).2
      rw [this]; simp only [List.mem_cons]; exact hk

theorem RecvRel.processSlice_safeP {P} (hP : CtorPred P) (r : RecvRel) (h : r.InvP P) (sl : Slice)
    (hnew : P (SliceCtor.new sl.numSlices)) :
    (∃ r', r.processSlice sl = .ok r' ∧ r'.InvP P) ∨
    (∃ e r', r.processSlice sl = .err (e, r') ∧ r'.InvP P) := by
  rw [RecvRel.processSlice_eq]
  by_cases h1 : SMap.contains r.messages sl.messageId = true ∨ sl.messageId < r.oldest
  · left; rw [if_pos h1]; exact ⟨r, rfl, h⟩
  rw [if_neg h1]
  by_cases h2 : ¬ r.ordered = true ∧ r.received.contains sl.messageId = true
  · left; rw [if_pos h2]; exact ⟨r, rfl, h⟩
  rw [if_neg h2]
  have hm : SMap.find? r.messages sl.messageId = none := by
    apply SMap.contains_eq_false_iff.mp
    cases hc : SMap.contains r.messages sl.messageId with
    | false => rfl
    | true => exact absurd (Or.inl hc) h1
  rcases RecvRel.reserveStep_spec r h sl hnew with he | ⟨r1, he, hr1, hc1, hm1⟩
  · right; rw [he]; exact ⟨_, r, rfl, h⟩
  · rw [he, Res.bind_ok]
    exact RecvRel.sliceStep_spec hP r1 hr1 sl hc1 (by rw [hm1]; exact hm)

/-! `advanceOldest` only moves the cursor forward and only forgets ids below the new cursor -/
theorem advanceOldest_spec (f o : Nat) (rec : List Nat) :
    o ≤ (advanceOldest f o rec).1 ∧
    ∀ k, k ∈ rec → k < (advanceOldest f o rec).1 ∨ k ∈ (advanceOldest f o rec).2 := by
  induction f generalizing o rec with
  | zero => exact ⟨Nat.le_refl _, fun k hk => Or.inr hk⟩
  | succ f ih =>
    simp only [advanceOldest]
    split
    · obtain ⟨h1, h2⟩ := ih (o + 1) (rec.erase o)
      refine ⟨by omega, ?_⟩
      intro k hk
      by_cases hko : k = o
      · left; omega
      · exact h2 k ((List.mem_erase_of_ne hko).mpr hk)
    · exact ⟨Nat.le_refl _, fun k hk => Or.inr hk⟩

theorem RecvRel.receive_safeP {P} (r : RecvRel) (h : r.InvP P) :
    ∃ r' m, r.receive = .ok (r', m) ∧ r'.InvP P := by
  unfold RecvRel.receive
  cases ho : r.ordered with
  | true =>
    simp only [if_true]
    cases hf : SMap.find? r.messages r.oldest with
    | none => exact ⟨r, none, rfl, h⟩
    | some m =>
      simp only []
      have h1 := SMap.sumBy_erase_present List.length hf
      have h2 := h.acct
      have hle : m.length ≤ r.mem := by omega
      unfold Res.csub
      rw [if_pos hle]
      refine ⟨_, some m, rfl, ?_, ?_, h.slicesOk, ?_⟩
      · show r.mem - m.length = SMap.sumBy List.length (SMap.erase r.messages r.oldest) + SMap.sumBy SliceCtor.reserved r.slices
        omega
      · show r.mem - m.length ≤ r.maxMem
        have := h.budget; omega
      · intro ho'; cases ho'
  | false =>
    simp only [Bool.false_eq_true, if_false]
    cases hmsg : r.messages with
    | nil => exact ⟨r, none, rfl, h⟩
    | cons p rest =>
      obtain ⟨id, m⟩ := p
      simp only []
      have h2 := h.acct
      rw [hmsg, SMap.sumBy_cons] at h2
      have hle : m.length ≤ r.mem := by omega
      unfold Res.csub
      rw [if_pos hle]
      refine ⟨_, some m, rfl, ?_, ?_, h.slicesOk, ?_⟩
      · show r.mem - m.length = SMap.sumBy List.length rest + SMap.sumBy SliceCtor.reserved r.slices
        omega
      · show r.mem - m.length ≤ r.maxMem
        have := h.budget; omega
      · intro _ k hk
        have hk' : SMap.contains r.messages k = true := by
          rw [hmsg]
          rw [SMap.contains_iff] at hk ⊢
          simp only [SMap.keys_cons, List.mem_cons]; exact Or.inr hk
        have hp := h.pending ho k hk'
        by_cases hid : r.oldest = id
        · simp only [hid, if_true]
          have ⟨a1, a2⟩ := advanceOldest_spec r.received.length id r.received
          rcases hp with hp | hp
          · left; show k < (advanceOldest r.received.length id r.received).1; omega
          · exact a2 k hp
        · simp only [hid, if_false]
          exact hp

/-! ### RecvUnrel -/

/-- total payload bytes of a message queue -/
def sumLen : List Bytes → Nat
  | [] => 0
  | m :: r => m.length + sumLen r

@[simp] theorem sumLen_nil : sumLen [] = 0 := rfl
@[simp] theorem sumLen_cons (m : Bytes) (r : List Bytes) : sumLen (m :: r) = m.length + sumLen r := rfl
theorem sumLen_append (a b : List Bytes) : sumLen (a ++ b) = sumLen a + sumLen b := by
  induction a with
  | nil => simp
  | cons m r ih => simp [ih]; omega

structure RecvUnrel.InvP (P : SliceCtor → Prop) (r : RecvUnrel) : Prop where
  /-- exact memory accounting -/
  acct : r.mem = sumLen r.messages + SMap.sumBy SliceCtor.reserved r.slices
  budget : r.mem ≤ r.maxMem
  slicesOk : SlicesOk P r.slices
  lastSorted : SMap.Sorted r.lastReceived
  /-- every time-stamped id has a constructor -/
  lastSub : ∀ k, SMap.contains r.lastReceived k = true → SMap.contains r.slices k = true

theorem RecvUnrel.new_invP {P} (ch maxMem : Nat) : (RecvUnrel.new ch maxMem).InvP P := by
  refine ⟨by simp [RecvUnrel.new], by simp [RecvUnrel.new], SlicesOk.nil, SMap.sorted_nil, ?_⟩
  intro k hk; simp [RecvUnrel.new, SMap.contains] at hk

theorem RecvUnrel.processMessage_safeP {P} (r : RecvUnrel) (h : r.InvP P) (m : Bytes) :
    (r.processMessage m).InvP P := by
  unfold RecvUnrel.processMessage
  by_cases h1 : r.mem + m.length > r.maxMem
  · rw [if_pos h1]; exact h
  rw [if_neg h1]
  refine ⟨?_, by show r.mem + m.length ≤ r.maxMem; omega, h.slicesOk, h.lastSorted, h.lastSub⟩
  show r.mem + m.length = sumLen (r.messages ++ [m]) + SMap.sumBy SliceCtor.reserved r.slices
  rw [sumLen_append]; have := h.acct; simp; omega

theorem RecvUnrel.receive_safeP {P} (r : RecvUnrel) (h : r.InvP P) :
    ∃ r' m, r.receive = .ok (r', m) ∧ r'.InvP P := by
  unfold RecvUnrel.receive
  cases hmsg : r.messages with
  | nil => exact ⟨r, none, rfl, h⟩
  | cons m rest =>
    simp only []
    have h2 := h.acct
    rw [hmsg, sumLen_cons] at h2
    have hle : m.length ≤ r.mem := by omega
    unfold Res.csub
    rw [if_pos hle]
    refine ⟨_, some m, rfl, ?_, ?_, h.slicesOk, h.lastSorted, h.lastSub⟩
    · show r.mem - m.length = sumLen rest + SMap.sumBy SliceCtor.reserved r.slices
      omega
    · show r.mem - m.length ≤ r.maxMem
      have := h.budget; omega

theorem RecvUnrel.InvP.reserve {P} {r : RecvUnrel} (h : r.InvP P) {id : Nat} {c : SliceCtor}
    (hf : SMap.find? r.slices id = none) (hc : P c) (hb : r.mem + c.reserved ≤ r.maxMem) :
    RecvUnrel.InvP P { r with mem := r.mem + c.reserved, slices := SMap.insert r.slices id c } := by
  refine ⟨?_, hb, h.slicesOk.insert id hc, h.lastSorted, ?_⟩
  · show r.mem + c.reserved = sumLen r.messages + SMap.sumBy SliceCtor.reserved (SMap.insert r.slices id c)
    rw [SMap.sumBy_insert_absent _ _ hf]; have := h.acct; omega
  · intro k hk
    show SMap.contains (SMap.insert r.slices id c) k = true
    rw [SMap.contains_insert]; exact Or.inr (h.lastSub k hk)

theorem RecvUnrel.InvP.replaceCtor {P} {r : RecvUnrel} (h : r.InvP P) {id : Nat} {c c' : SliceCtor} (now : Nat)
    (hf : SMap.find? r.slices id = some c) (hc : P c') (hn : c'.numSlices = c.numSlices) :
    RecvUnrel.InvP P { r with slices := SMap.insert r.slices id c',
                              lastReceived := SMap.insert r.lastReceived id now } := by
  refine ⟨?_, h.budget, h.slicesOk.insert id hc, SMap.sorted_insert h.lastSorted id now, ?_⟩
  · show r.mem = sumLen r.messages + SMap.sumBy SliceCtor.reserved (SMap.insert r.slices id c')
    have h1 := SMap.sumBy_insert_present SliceCtor.reserved h.slicesOk.1 c' hf
    have h2 : c'.reserved = c.reserved := by simp [SliceCtor.reserved, hn]
    have := h.acct; omega
  · intro k hk
    show SMap.contains (SMap.insert r.slices id c') k = true
    have hk' : SMap.contains (SMap.insert r.lastReceived id now) k = true := hk
    rw [SMap.contains_insert] at hk' ⊢
    rcases hk' with hk' | hk'
    · exact Or.inl hk'
    · exact Or.inr (h.lastSub k hk')

/-- remove a constructor together with its time stamp and release its reservation -/
theorem RecvUnrel.InvP.dropCtor {P} {r : RecvUnrel} (h : r.InvP P) {id : Nat} {c : SliceCtor}
    (hf : SMap.find? r.slices id = some c) :
    c.reserved ≤ r.mem ∧
    RecvUnrel.InvP P { r with lastReceived := SMap.erase r.lastReceived id, slices := SMap.erase r.slices id,
                              mem := r.mem - c.reserved } := by
  have h1 := SMap.sumBy_erase_present SliceCtor.reserved hf
  have h2 := h.acct
  refine ⟨by omega, ?_, ?_, h.slicesOk.erase id, SMap.sorted_erase h.lastSorted id, ?_⟩
  · show r.mem - c.reserved = sumLen r.messages + SMap.sumBy SliceCtor.reserved (SMap.erase r.slices id)
    omega
  · show r.mem - c.reserved ≤ r.maxMem
    have := h.budget; omega
  · intro k hk
    have hk' : SMap.contains (SMap.erase r.lastReceived id) k = true := hk
    show SMap.contains (SMap.erase r.slices id) k = true
    have hne := SMap.ne_of_contains_erase h.lastSorted hk'
    rw [SMap.contains_erase_of_ne hne] at hk' ⊢
    exact h.lastSub k hk'

theorem RecvUnrel.InvP.pushMessage {P} {r : RecvUnrel} (h : r.InvP P) (m : Bytes) (hb : r.mem + m.length ≤ r.maxMem) :
    RecvUnrel.InvP P { r with mem := r.mem + m.length, messages := r.messages ++ [m] } := by
  refine ⟨?_, hb, h.slicesOk, h.lastSorted, h.lastSub⟩
  show r.mem + m.length = sumLen (r.messages ++ [m]) + SMap.sumBy SliceCtor.reserved r.slices
  rw [sumLen_append]; have := h.acct; simp; omega

/-- second half of `RecvUnrel.processSlice` -/
def RecvUnrel.sliceStep (r : RecvUnrel) (sl : Slice) (now : Nat) : Res (ChanErr × RecvUnrel) RecvUnrel :=
  match SMap.find? r.slices sl.messageId with
  | none => .panic "unreachable: constructor just inserted"
  | some c =>
    if c.numSlices ≠ sl.numSlices then .err (.invalidSlice, r) else
    match c.processSlice sl.sliceIndex sl.payload with
    | .panic s => .panic s
    | .err e => .err (e, r)
    | .ok (_, some m) => do
      let mem ← Res.csub r.mem (c.numSlices * SLICE_SIZE) "unreliable.rs memory_usage_bytes -= num_slices * SLICE_SIZE"
      pure { r with slices := SMap.erase r.slices sl.messageId, lastReceived := SMap.erase r.lastReceived sl.messageId,
                    mem := mem + m.length, messages := r.messages ++ [m] }
    | .ok (c', none) =>
      pure { r with slices := SMap.insert r.slices sl.messageId c', lastReceived := SMap.insert r.lastReceived sl.messageId now }

theorem RecvUnrel.processSlice_eq (r : RecvUnrel) (sl : Slice) (now : Nat) :
    r.processSlice sl now =
      if SMap.contains r.slices sl.messageId then r.sliceStep sl now else
      if r.mem + sl.numSlices * SLICE_SIZE > r.maxMem then .ok r else
      RecvUnrel.sliceStep
        { r with mem := r.mem + sl.numSlices * SLICE_SIZE, slices := SMap.insert r.slices sl.messageId (SliceCtor.new sl.numSlices) }
        sl now := by
  unfold RecvUnrel.processSlice RecvUnrel.sliceStep
  by_cases h1 : SMap.contains r.slices sl.messageId = true
  · simp only [h1, if_true]; rfl
  · by_cases h2 : r.mem + sl.numSlices * SLICE_SIZE > r.maxMem
    · simp only [h1, h2, if_true, if_false, Bool.false_eq_true]
    · simp only [h1, h2, if_false, Bool.false_eq_true]; rfl

theorem RecvUnrel.sliceStep_spec {P} (hP : CtorPred P) (r : RecvUnrel) (h : r.InvP P) (sl : Slice) (now : Nat)
    (hc : SMap.contains r.slices sl.messageId = true) :
    (∃ r', r.sliceStep sl now = .ok r' ∧ r'.InvP P) ∨
    (∃ e r', r.sliceStep sl now = .err (e, r') ∧ r'.InvP P) := by
  obtain ⟨c, hf⟩ := SMap.find?_of_contains hc
  unfold RecvUnrel.sliceStep
  rw [hf]
  simp only []
  by_cases hn : c.numSlices ≠ sl.numSlices
  · right; rw [if_pos hn]; exact ⟨_, r, rfl, h⟩
  rw [if_neg hn]
  rcases hP.step c (h.slicesOk.of_find? hf) sl.sliceIndex sl.payload with
    ⟨e, he⟩ | ⟨c', he, hc', hn'⟩ | ⟨c', m, he, hml, hn'⟩
  · right; rw [he]; exact ⟨e, r, rfl, h⟩
  · left; rw [he]; exact ⟨_, rfl, h.replaceCtor now hf hc' hn'⟩
  · left; rw [he]
    simp only []
    obtain ⟨hle, hdrop⟩ := h.dropCtor hf
    have hle' : c.numSlices * SLICE_SIZE ≤ r.mem := hle
    unfold Res.csub
    rw [if_pos hle']
    refine ⟨_, rfl, ?_⟩
    have hbud := h.budget
    have hres : c.reserved = c.numSlices * SLICE_SIZE := rfl
    exact hdrop.pushMessage m (by show r.mem - c.reserved + m.length ≤ r.maxMem; omega)

theorem RecvUnrel.processSlice_safeP {P} (hP : CtorPred P) (r : RecvUnrel) (h : r.InvP P) (sl : Slice) (now : Nat)
    (hnew : P (SliceCtor.new sl.numSlices)) :
    (∃ r', r.processSlice sl now = .ok r' ∧ r'.InvP P) ∨
    (∃ e r', r.processSlice sl now = .err (e, r') ∧ r'.InvP P) := by
  rw [RecvUnrel.processSlice_eq]
  by_cases h1 : SMap.contains r.slices sl.messageId = true
  · rw [if_pos h1]; exact RecvUnrel.sliceStep_spec hP r h sl now h1
  rw [if_neg h1]
  by_cases h2 : r.mem + sl.numSlices * SLICE_SIZE > r.maxMem
  · left; rw [if_pos h2]; exact ⟨r, rfl, h⟩
  rw [if_neg h2]
  have hf : SMap.find? r.slices sl.messageId = none := SMap.contains_eq_false_iff.mp (by simpa using h1)
  apply RecvUnrel.sliceStep_spec hP _ _ sl now
  · show SMap.contains (SMap.insert r.slices sl.messageId (SliceCtor.new sl.numSlices)) sl.messageId = true
    rw [SMap.contains_insert]; exact Or.inl rfl
  · exact h.reserve (c := SliceCtor.new sl.numSlices) hf hnew (by simp only [SliceCtor.reserved, SliceCtor.new]; omega)

/-- the discard loop: safe when the ids are distinct and all time-stamped; it removes exactly those
    constructors (and never adds one) -/
theorem discardLoop_spec {P} : ∀ (ids : List Nat) (r : RecvUnrel), r.InvP P → ids.Nodup →
    (∀ id ∈ ids, SMap.contains r.lastReceived id = true) →
    ∃ r', discardLoop ids r = .ok r' ∧ r'.InvP P ∧
      (∀ k, SMap.find? r.slices k = none → SMap.find? r'.slices k = none) ∧
      (∀ id ∈ ids, SMap.find? r'.slices id = none)
  | [], r, h, _, _ => ⟨r, rfl, h, fun _ hk => hk, by simp⟩
  | id :: rest, r, h, hnd, hin => by
    obtain ⟨c, hf⟩ := SMap.find?_of_contains (h.lastSub id (hin id (by simp)))
    obtain ⟨hle, hdrop⟩ := h.dropCtor hf
    have hle' : c.numSlices * SLICE_SIZE ≤ r.mem := hle
    rw [List.nodup_cons] at hnd
    simp only [discardLoop, hf]
    unfold Res.csub
    rw [if_pos hle']
    simp only [Res.bind_ok]
    obtain ⟨r', he, hinv, hmono, hgone⟩ := discardLoop_spec (P := P) rest _ hdrop hnd.2 (by
      intro id' hid'
      have hne : id ≠ id' := by intro he; subst he; exact hnd.1 hid'
      show SMap.contains (SMap.erase r.lastReceived id) id' = true
      rw [SMap.contains_erase_of_ne hne]
      exact hin id' (by simp [hid']))
    refine ⟨r', he, hinv, ?_, ?_⟩
    · intro k hk
      exact hmono k (SMap.find?_erase_none _ hk)
    · intro id' hid'
      simp only [List.mem_cons] at hid'
      rcases hid' with rfl | hid'
      · exact hmono _ (SMap.find?_erase_self h.slicesOk.1 _)
      · exact hgone id' hid'

/-- ids selected by `discardOld` -/
def RecvUnrel.lost (r : RecvUnrel) (now : Nat) : List Nat :=
  (r.lastReceived.filter (fun (_, t) => now - t ≥ DISCARD_FRAGMENT_AFTER_NS)).map (·.1)

theorem RecvUnrel.discardOld_eq (r : RecvUnrel) (now : Nat) : r.discardOld now = discardLoop (r.lost now) r := rfl

theorem RecvUnrel.lost_nodup {P} (r : RecvUnrel) (h : r.InvP P) (now : Nat) : (r.lost now).Nodup := by
  have hs : (SMap.keys r.lastReceived).Pairwise (· < ·) := h.lastSorted
  have hsub : (r.lost now).Sublist (SMap.keys r.lastReceived) := (List.filter_sublist).map _
  exact (hs.sublist hsub).imp (fun hlt => Nat.ne_of_lt hlt)

theorem RecvUnrel.lost_subset (r : RecvUnrel) (now : Nat) (id : Nat) (hid : id ∈ r.lost now) :
    SMap.contains r.lastReceived id = true := by
  rw [SMap.contains_iff]
  unfold RecvUnrel.lost at hid
  rw [List.mem_map] at hid
  obtain ⟨p, hp, rfl⟩ := hid
  exact List.mem_map.mpr ⟨p, (List.mem_filter.mp hp).1, rfl⟩

theorem RecvUnrel.mem_lost (r : RecvUnrel) (now id t : Nat) (hf : SMap.find? r.lastReceived id = some t)
    (hold : now - t ≥ DISCARD_FRAGMENT_AFTER_NS) : id ∈ r.lost now := by
  unfold RecvUnrel.lost
  rw [List.mem_map]
  refine ⟨(id, t), List.mem_filter.mpr ⟨SMap.mem_of_find? hf, ?_⟩, rfl⟩
  simpa using hold

theorem RecvUnrel.discardOld_safeP {P} (r : RecvUnrel) (h : r.InvP P) (now : Nat) :
    ∃ r', r.discardOld now = .ok r' ∧ r'.InvP P := by
  rw [RecvUnrel.discardOld_eq]
  obtain ⟨r', he, hinv, _, _⟩ := discardLoop_spec (r.lost now) r h (r.lost_nodup h now) (r.lost_subset now)
  exact ⟨r', he, hinv⟩

theorem RecvUnrel.discardOld_removes_staleP {P} (r r' : RecvUnrel) (h : r.InvP P) (now id t : Nat)
    (hf : SMap.find? r.lastReceived id = some t) (hold : now - t ≥ DISCARD_FRAGMENT_AFTER_NS)
    (he : r.discardOld now = .ok r') : SMap.find? r'.slices id = none := by
  rw [RecvUnrel.discardOld_eq] at he
  obtain ⟨r'', he', _, _, hgone⟩ := discardLoop_spec (r.lost now) r h (r.lost_nodup h now) (r.lost_subset now)
  rw [he'] at he; cases he
  exact hgone id (r.mem_lost now id t hf hold)

/-! ### the two instances of the invariants

  `Inv`  : every stored constructor satisfies the strict `SliceCtor.Inv` (needs `1 ≤ numSlices`
           of every processed slice — guaranteed by the packet decoder),
  `WInv` : additionally tolerates dead zero-slice constructors; preserved for ALL inputs. -/

def RecvRel.Inv (r : RecvRel) : Prop := r.InvP SliceCtor.Inv
def RecvRel.WInv (r : RecvRel) : Prop := r.InvP SliceCtor.WInv
def RecvUnrel.Inv (r : RecvUnrel) : Prop := r.InvP SliceCtor.Inv
def RecvUnrel.WInv (r : RecvUnrel) : Prop := r.InvP SliceCtor.WInv

theorem RecvRel.Inv.weaken {r : RecvRel} (h : r.Inv) : r.WInv :=
  ⟨h.acct, h.budget, h.slicesOk.mono (fun _ hc => Or.inr hc), h.pending⟩
theorem RecvUnrel.Inv.weaken {r : RecvUnrel} (h : r.Inv) : r.WInv :=
  ⟨h.acct, h.budget, h.slicesOk.mono (fun _ hc => Or.inr hc), h.lastSorted, h.lastSub⟩

theorem RecvRel.Inv.ctor {r : RecvRel} (h : r.Inv) {id : Nat} {c : SliceCtor}
    (hf : SMap.find? r.slices id = some c) : c.Inv := h.slicesOk.of_find? hf
theorem RecvUnrel.Inv.ctor {r : RecvUnrel} (h : r.Inv) {id : Nat} {c : SliceCtor}
    (hf : SMap.find? r.slices id = some c) : c.Inv := h.slicesOk.of_find? hf

/-- a `Res` value is not a panic -/
def Res.NoPanic {ε α} (x : Res ε α) : Prop := ∀ s, x ≠ .panic s

theorem Res.noPanic_of_ok_or_err {ε α} {x : Res ε α} (h : (∃ a, x = .ok a) ∨ (∃ e, x = .err e)) : x.NoPanic := by
  intro s hs
  rcases h with ⟨a, ha⟩ | ⟨e, he⟩
  · rw [ha] at hs; cases hs
  · rw [he] at hs; cases hs

/-- COUNTER-EXAMPLE to "`RecvRel.Inv` is preserved for every `Slice` value": a slice announcing zero
    slices (never produced by the packet decoder) leaves a dead constructor behind.  No panic, exact
    accounting — but the stored constructor violates `1 ≤ numSlices`. -/
theorem RecvRel.zero_slices_counterexample :
    (RecvRel.new 100 true).processSlice ⟨0, 0, 0, []⟩ =
      .err (.invalidSlice, { RecvRel.new 100 true with slices := [(0, SliceCtor.new 0)] }) ∧
    ¬ RecvRel.Inv { RecvRel.new 100 true with slices := [(0, SliceCtor.new 0)] } := by
  refine ⟨by decide, ?_⟩
  intro h
  have := h.slicesOk.2 0 (SliceCtor.new 0) (by simp)
  exact absurd this.1 (by decide)

theorem RecvUnrel.zero_slices_counterexample :
    (RecvUnrel.new 0 100).processSlice ⟨0, 0, 0, []⟩ 0 =
      .err (.invalidSlice, { RecvUnrel.new 0 100 with slices := [(0, SliceCtor.new 0)] }) ∧
    ¬ RecvUnrel.Inv { RecvUnrel.new 0 100 with slices := [(0, SliceCtor.new 0)] } := by
  refine ⟨by decide, ?_⟩
  intro h
  have := h.slicesOk.2 0 (SliceCtor.new 0) (by simp)
  exact absurd this.1 (by decide)

/-! ### the decoder never yields a slice announcing zero slices -/
theorem Packet.decode_numSlices (b : Bytes) (p : Packet) (rest : Bytes) (h : Packet.decode b = .ok (p, rest)) :
    ∀ seq ch sl, (p = .reliableSlice seq ch sl ∨ p = .unreliableSlice seq ch sl) →
      1 ≤ sl.numSlices ∧ sl.numSlices ≤ C.MAX_NUM_SLICES := by
  intro seq ch sl hp
  simp only [Packet.decode, bind, Except.bind, pure, Except.pure] at h
  repeat' split at h
  all_goals (try cases h)
  all_goals (try (rcases hp with hp | hp <;> cases hp))
  all_goals (dsimp only; omega)

theorem Packet.fromBytes_numSlices (b : Bytes) (p : Packet) (h : Packet.fromBytes b = .ok p) :
    ∀ seq ch sl, (p = .reliableSlice seq ch sl ∨ p = .unreliableSlice seq ch sl) →
      1 ≤ sl.numSlices ∧ sl.numSlices ≤ C.MAX_NUM_SLICES := by
  unfold Packet.fromBytes at h
  split at h
  · cases h; rename_i rest hd; exact Packet.decode_numSlices b _ rest hd
  · cases h

/-! ### final theorems, strict invariant -/

theorem RecvRel.new_inv (maxMem : Nat) (ordered : Bool) : (RecvRel.new maxMem ordered).Inv :=
  RecvRel.new_invP maxMem ordered

theorem RecvRel.processMessage_safe (r : RecvRel) (h : r.Inv) (m : Bytes) (id : Nat) :
    (∃ r', r.processMessage m id = .ok r' ∧ r'.Inv) ∨
    (∃ e r', r.processMessage m id = .err (e, r') ∧ r'.Inv) := RecvRel.processMessage_safeP r h m id

/-- needs `1 ≤ sl.numSlices` (see `RecvRel.zero_slices_counterexample`; the decoder guarantees it) -/
theorem RecvRel.processSlice_safe_partial (r : RecvRel) (h : r.Inv) (sl : Slice) (hn : 1 ≤ sl.numSlices) :
    (∃ r', r.processSlice sl = .ok r' ∧ r'.Inv) ∨
    (∃ e r', r.processSlice sl = .err (e, r') ∧ r'.Inv) :=
  RecvRel.processSlice_safeP ctorPred_inv r h sl (SliceCtor.new_inv _ hn)

theorem RecvRel.receive_safe (r : RecvRel) (h : r.Inv) : ∃ r' m, r.receive = .ok (r', m) ∧ r'.Inv :=
  RecvRel.receive_safeP r h

theorem RecvUnrel.new_inv (ch maxMem : Nat) : (RecvUnrel.new ch maxMem).Inv := RecvUnrel.new_invP ch maxMem

theorem RecvUnrel.processMessage_safe (r : RecvUnrel) (h : r.Inv) (m : Bytes) : (r.processMessage m).Inv :=
  RecvUnrel.processMessage_safeP r h m

/-- needs `1 ≤ sl.numSlices` (see `RecvUnrel.zero_slices_counterexample`) -/
theorem RecvUnrel.processSlice_safe_partial (r : RecvUnrel) (h : r.Inv) (sl : Slice) (now : Nat)
    (hn : 1 ≤ sl.numSlices) :
    (∃ r', r.processSlice sl now = .ok r' ∧ r'.Inv) ∨
    (∃ e r', r.processSlice sl now = .err (e, r') ∧ r'.Inv) :=
  RecvUnrel.processSlice_safeP ctorPred_inv r h sl now (SliceCtor.new_inv _ hn)

theorem RecvUnrel.discardOld_safe (r : RecvUnrel) (h : r.Inv) (now : Nat) :
    ∃ r', r.discardOld now = .ok r' ∧ r'.Inv := RecvUnrel.discardOld_safeP r h now

theorem RecvUnrel.receive_safe (r : RecvUnrel) (h : r.Inv) : ∃ r' m, r.receive = .ok (r', m) ∧ r'.Inv :=
  RecvUnrel.receive_safeP r h

theorem RecvUnrel.discardOld_removes_stale (r r' : RecvUnrel) (h : r.Inv) (now id t : Nat)
    (hf : SMap.find? r.lastReceived id = some t) (hold : now - t ≥ DISCARD_FRAGMENT_AFTER_NS)
    (he : r.discardOld now = .ok r') : SMap.find? r'.slices id = none :=
  RecvUnrel.discardOld_removes_staleP r r' h now id t hf hold he

/-! ### final theorems, all-inputs invariant -/

theorem RecvRel.new_winv (maxMem : Nat) (ordered : Bool) : (RecvRel.new maxMem ordered).WInv :=
  RecvRel.new_invP maxMem ordered

theorem RecvRel.processMessage_safe_weak (r : RecvRel) (h : r.WInv) (m : Bytes) (id : Nat) :
    (∃ r', r.processMessage m id = .ok r' ∧ r'.WInv) ∨
    (∃ e r', r.processMessage m id = .err (e, r') ∧ r'.WInv) := RecvRel.processMessage_safeP r h m id

theorem RecvRel.processSlice_safe_weak (r : RecvRel) (h : r.WInv) (sl : Slice) :
    (∃ r', r.processSlice sl = .ok r' ∧ r'.WInv) ∨
    (∃ e r', r.processSlice sl = .err (e, r') ∧ r'.WInv) :=
  RecvRel.processSlice_safeP ctorPred_winv r h sl (SliceCtor.new_winv _)

theorem RecvRel.receive_safe_weak (r : RecvRel) (h : r.WInv) : ∃ r' m, r.receive = .ok (r', m) ∧ r'.WInv :=
  RecvRel.receive_safeP r h

theorem RecvUnrel.new_winv (ch maxMem : Nat) : (RecvUnrel.new ch maxMem).WInv := RecvUnrel.new_invP ch maxMem

theorem RecvUnrel.processMessage_safe_weak (r : RecvUnrel) (h : r.WInv) (m : Bytes) : (r.processMessage m).WInv :=
  RecvUnrel.processMessage_safeP r h m

theorem RecvUnrel.processSlice_safe_weak (r : RecvUnrel) (h : r.WInv) (sl : Slice) (now : Nat) :
    (∃ r', r.processSlice sl now = .ok r' ∧ r'.WInv) ∨
    (∃ e r', r.processSlice sl now = .err (e, r') ∧ r'.WInv) :=
  RecvUnrel.processSlice_safeP ctorPred_winv r h sl now (SliceCtor.new_winv _)

theorem RecvUnrel.discardOld_safe_weak (r : RecvUnrel) (h : r.WInv) (now : Nat) :
    ∃ r', r.discardOld now = .ok r' ∧ r'.WInv := RecvUnrel.discardOld_safeP r h now

theorem RecvUnrel.receive_safe_weak (r : RecvUnrel) (h : r.WInv) : ∃ r' m, r.receive = .ok (r', m) ∧ r'.WInv :=
  RecvUnrel.receive_safeP r h

/-- no receive-side operation panics, on any input, from any state satisfying the weak invariant -/
theorem RecvRel.never_panics (r : RecvRel) (h : r.WInv) :
    (∀ m id, (r.processMessage m id).NoPanic) ∧ (∀ sl, (r.processSlice sl).NoPanic) ∧ r.receive.NoPanic := by
  refine ⟨fun m id => ?_, fun sl => ?_, ?_⟩
  · apply Res.noPanic_of_ok_or_err
    rcases r.processMessage_safe_weak h m id with ⟨r', he, _⟩ | ⟨e, r', he, _⟩
    · exact Or.inl ⟨r', he⟩
    · exact Or.inr ⟨_, he⟩
  · apply Res.noPanic_of_ok_or_err
    rcases r.processSlice_safe_weak h sl with ⟨r', he, _⟩ | ⟨e, r', he, _⟩
    · exact Or.inl ⟨r', he⟩
    · exact Or.inr ⟨_, he⟩
  · obtain ⟨r', m, he, _⟩ := r.receive_safe_weak h
    exact Res.noPanic_of_ok_or_err (Or.inl ⟨_, he⟩)

theorem RecvUnrel.never_panics (r : RecvUnrel) (h : r.WInv) :
    (∀ sl now, (r.processSlice sl now).NoPanic) ∧ (∀ now, (r.discardOld now).NoPanic) ∧ r.receive.NoPanic := by
  refine ⟨fun sl now => ?_, fun now => ?_, ?_⟩
  · apply Res.noPanic_of_ok_or_err
    rcases r.processSlice_safe_weak h sl now with ⟨r', he, _⟩ | ⟨e, r', he, _⟩
    · exact Or.inl ⟨r', he⟩
    · exact Or.inr ⟨_, he⟩
  · obtain ⟨r', he, _⟩ := r.discardOld_safe_weak h now
    exact Res.noPanic_of_ok_or_err (Or.inl ⟨_, he⟩)
  · obtain ⟨r', m, he, _⟩ := r.receive_safe_weak h
    exact Res.noPanic_of_ok_or_err (Or.inl ⟨_, he⟩)

/-! ### C09: quiescence -/
theorem RecvRel.quiescent {P} (r : RecvRel) (h : r.InvP P) (hm : r.messages = []) (hs : r.slices = []) :
    r.mem = 0 := by
  have := h.acct; rw [hm, hs] at this; simpa using this

theorem RecvUnrel.quiescent {P} (r : RecvUnrel) (h : r.InvP P) (hm : r.messages = []) (hs : r.slices = []) :
    r.mem = 0 := by
  have := h.acct; rw [hm, hs] at this; simpa using this

end RenetVerif
