/-
  The token-entry table (`connect_token_entries`, renetcode/src/server.rs) over whole histories — lemmas for
  Props/C05H.lean.
  1. `find_or_add_connect_token_entry` exactly: `tableAdd`, the slot rule `SlotFor` / `FirstEmpty` / `OldestAt`.
  2. which calls touch the table: `hcr_tbl` (`handle_connection_request`), `ppi_tbl` / `processPacket_tbl`
     (`process_packet`), `step_tbl` (every `NS.Op`); `Registers`.
  3. traces (`Steps`): `entries_persist`.   4. histories (`NS.ReachH`): `reachH_origin`, `reachH_kept`.
  5. the boundary: `tableAdd_room`, `tableAdd_full`.
-/
import RenetVerif.Lemmas.NcHandshake
namespace RenetVerif.NcBinding
open RenetVerif RenetVerif.Netcode RenetVerif.Netcode.NS

/-! ## 1. `find_or_add_connect_token_entry`, exactly -/

/-- the initial scan state of `find_or_add_connect_token_entry` -/
abbrev scan0 : NetcodeServer.EntryScan := ⟨DURATION_MAX, 0, false, none⟩

/-- the table after `find_or_add_connect_token_entry` (it reads nothing but the table) -/
def tableAdd (es : Entries) (ne : ConnectTokenEntry) : Entries :=
  match (NetcodeServer.scanEntries ne.mac es 0 scan0).matchingEntry with
  | some _ => es
  | none => es.set (NetcodeServer.scanEntries ne.mac es 0 scan0).oldestEntry (some ne)

theorem findOrAdd_entries (s : NetcodeServer) (ne : ConnectTokenEntry) :
    (s.findOrAddConnectTokenEntry ne).1.connectTokenEntries = tableAdd s.connectTokenEntries ne := by
  unfold NetcodeServer.findOrAddConnectTokenEntry tableAdd
  simp only
  split <;> rename_i h <;> simp only [scan0, h]

/-- `i` is the first empty slot -/
def FirstEmpty (es : Entries) (i : Nat) : Prop := es[i]? = some none ∧ ∀ j, j < i → es[j]? ≠ some none

/-- `i` is the slot `find_or_add_connect_token_entry` overwrites in a table without empty slot: the entry of minimal
    `time`, and among several of minimal time **the one with the lowest index** (the Rust loop replaces its candidate
    only on `e.time < min`, strictly).  `min` starts at `Duration::MAX`, so if no entry is older than that the
    candidate stays at its initial value, index 0. -/
def OldestAt (es : Entries) (i : Nat) : Prop :=
  (∃ e, es[i]? = some (some e) ∧ e.time < DURATION_MAX ∧
      (∀ (j : Nat) (e' : ConnectTokenEntry), j < i → es[j]? = some (some e') → e.time < e'.time) ∧
      (∀ (j : Nat) (e' : ConnectTokenEntry), es[j]? = some (some e') → e.time ≤ e'.time)) ∨
  (i = 0 ∧ ∀ e, some e ∈ es → DURATION_MAX ≤ e.time)

/-- the slot a new entry is written to: the first empty one; only if there is none, the oldest -/
def SlotFor (es : Entries) (i : Nat) : Prop :=
  FirstEmpty es i ∨ ((∀ x ∈ es, x ≠ none) ∧ OldestAt es i)

theorem scan_emptyTrue (mac : Bytes) : ∀ (es : Entries) (k : Nat) (st : NetcodeServer.EntryScan),
    st.emptyEntry = true →
    (NetcodeServer.scanEntries mac es k st).oldestEntry = st.oldestEntry
  | [], _, _, _ => rfl
  | none :: rest, k, st, h => by
    simp only [NetcodeServer.scanEntries, h, Bool.not_true, Bool.false_eq_true, if_false]
    exact scan_emptyTrue mac rest (k + 1) st h
  | some e0 :: rest, k, st, h => by
    simp only [NetcodeServer.scanEntries]
    split <;> simp only [h, Bool.not_true, Bool.false_eq_true, false_and, if_false]
    · exact scan_emptyTrue mac rest (k + 1) _ rfl
    · exact scan_emptyTrue mac rest (k + 1) _ h

theorem scan_firstEmpty (mac : Bytes) : ∀ (es : Entries) (k : Nat) (st : NetcodeServer.EntryScan) (j : Nat),
    st.emptyEntry = false → FirstEmpty es j →
    (NetcodeServer.scanEntries mac es k st).oldestEntry = k + j
  | [], _, _, j, _, hf => by simp [FirstEmpty] at hf
  | none :: rest, k, st, j, h, hf => by
    have hj : j = 0 := by
      cases j with
      | zero => rfl
      | succ j => exact absurd (by simp) (hf.2 0 (Nat.succ_pos _))
    subst hj
    simp only [NetcodeServer.scanEntries, h, Bool.not_false, if_true]
    rw [scan_emptyTrue mac rest (k + 1) _ rfl]
    rfl
  | some e0 :: rest, k, st, j, h, hf => by
    cases j with
    | zero => simp [FirstEmpty] at hf
    | succ j =>
      have hf' : FirstEmpty rest j := by
        refine ⟨by simpa using hf.1, fun j' hj' => ?_⟩
        have := hf.2 (j' + 1) (by omega)
        simpa using this
      simp only [NetcodeServer.scanEntries]
      rw [scan_firstEmpty mac rest (k + 1) _ j ?_ hf']
      · omega
      · split <;> split <;> simp only [h]


/-- the scan over a table without empty slot (started with `emptyEntry = false`): either nothing is older than the
    initial `min` and the candidate is unchanged, or the candidate is the first entry of minimal time -/
theorem scan_full (mac : Bytes) : ∀ (es : Entries) (k : Nat) (st : NetcodeServer.EntryScan),
    st.emptyEntry = false → (∀ x ∈ es, x ≠ none) →
    ((NetcodeServer.scanEntries mac es k st).oldestEntry = st.oldestEntry ∧
      (NetcodeServer.scanEntries mac es k st).min = st.min ∧ ∀ e, some e ∈ es → st.min ≤ e.time) ∨
    (∃ j e, es[j]? = some (some e) ∧ (NetcodeServer.scanEntries mac es k st).oldestEntry = k + j ∧
      (NetcodeServer.scanEntries mac es k st).min = e.time ∧ e.time < st.min ∧
      (∀ (j' : Nat) (e' : ConnectTokenEntry), j' < j → es[j']? = some (some e') → e.time < e'.time) ∧
      (∀ (j' : Nat) (e' : ConnectTokenEntry), es[j']? = some (some e') → e.time ≤ e'.time))
  | [], _, _, _, _ => Or.inl ⟨rfl, rfl, fun e he => by cases he⟩
  | none :: rest, _, _, _, hfull => absurd rfl (hfull none (by simp))
  | some e0 :: rest, k, st, h, hfull => by
    have hfull' : ∀ x ∈ rest, x ≠ none := fun x hx => hfull x (List.mem_cons_of_mem _ hx)
    by_cases hlt : e0.time < st.min
    · -- the candidate becomes `k`
      have hscan : ∃ st' : NetcodeServer.EntryScan, NetcodeServer.scanEntries mac (some e0 :: rest) k st =
          NetcodeServer.scanEntries mac rest (k + 1) st' ∧ st'.emptyEntry = false ∧ st'.oldestEntry = k ∧
          st'.min = e0.time := by
        simp only [NetcodeServer.scanEntries]
        split <;> simp only [h, Bool.not_false, true_and, hlt, if_true] <;> exact ⟨_, rfl, rfl, rfl, rfl⟩
      obtain ⟨st', he, h1, h2, h3⟩ := hscan
      rw [he]
      right
      rcases scan_full mac rest (k + 1) st' h1 hfull' with ⟨a1, a2, a3⟩ | ⟨j, e, b1, b2, b3, b4, b5, b6⟩
      · refine ⟨0, e0, rfl, by rw [a1, h2]; rfl, by rw [a2, h3], hlt, fun j' e' hj' => by omega, fun j' e' hj' => ?_⟩
        cases j' with
        | zero => simp only [List.getElem?_cons_zero, Option.some.injEq] at hj'; subst hj'; exact Nat.le_refl _
        | succ j' =>
          rw [List.getElem?_cons_succ] at hj'
          have := a3 e' (List.mem_iff_getElem?.mpr ⟨j', hj'⟩)
          omega
      · rw [h3] at b4
        refine ⟨j + 1, e, by rw [List.getElem?_cons_succ]; exact b1, by rw [b2]; omega, b3, by omega,
          fun j' e' hj' hje => ?_, fun j' e' hje => ?_⟩
        · cases j' with
          | zero => simp only [List.getElem?_cons_zero, Option.some.injEq] at hje; subst hje; exact b4
          | succ j' => rw [List.getElem?_cons_succ] at hje; exact b5 j' e' (by omega) hje
        · cases j' with
          | zero => simp only [List.getElem?_cons_zero, Option.some.injEq] at hje; subst hje; omega
          | succ j' => rw [List.getElem?_cons_succ] at hje; exact b6 j' e' hje
    · -- the candidate stays
      have hscan : ∃ st' : NetcodeServer.EntryScan, NetcodeServer.scanEntries mac (some e0 :: rest) k st =
          NetcodeServer.scanEntries mac rest (k + 1) st' ∧ st'.emptyEntry = false ∧ st'.oldestEntry = st.oldestEntry ∧
          st'.min = st.min := by
        simp only [NetcodeServer.scanEntries]
        split <;> simp only [h, Bool.not_false, true_and, hlt, if_false] <;> first | exact ⟨_, rfl, rfl, rfl, rfl⟩ | exact ⟨_, rfl, h, rfl, rfl⟩
      obtain ⟨st', he, h1, h2, h3⟩ := hscan
      rw [he]
      rcases scan_full mac rest (k + 1) st' h1 hfull' with ⟨a1, a2, a3⟩ | ⟨j, e, b1, b2, b3, b4, b5, b6⟩
      · left
        refine ⟨by rw [a1, h2], by rw [a2, h3], fun e he' => ?_⟩
        simp only [List.mem_cons, Option.some.injEq] at he'
        rcases he' with rfl | he'
        · omega
        · have := a3 e he'; omega
      · right
        rw [h3] at b4
        refine ⟨j + 1, e, by rw [List.getElem?_cons_succ]; exact b1, by rw [b2]; omega, b3, b4,
          fun j' e' hj' hje => ?_, fun j' e' hje => ?_⟩
        · cases j' with
          | zero => simp only [List.getElem?_cons_zero, Option.some.injEq] at hje; subst hje; omega
          | succ j' => rw [List.getElem?_cons_succ] at hje; exact b5 j' e' (by omega) hje
        · cases j' with
          | zero => simp only [List.getElem?_cons_zero, Option.some.injEq] at hje; subst hje; omega
          | succ j' => rw [List.getElem?_cons_succ] at hje; exact b6 j' e' hje

/-- every table has an empty slot or none -/
theorem firstEmpty_or_full : ∀ (es : Entries), (∃ i, FirstEmpty es i) ∨ ∀ x ∈ es, x ≠ none
  | [] => Or.inr fun x hx => by cases hx
  | none :: rest => Or.inl ⟨0, rfl, fun j hj => by omega⟩
  | some e :: rest => by
    rcases firstEmpty_or_full rest with ⟨i, h1, h2⟩ | h
    · refine Or.inl ⟨i + 1, by simpa using h1, fun j hj => ?_⟩
      cases j with
      | zero => simp
      | succ j => simpa using h2 j (by omega)
    · refine Or.inr fun x hx => ?_
      simp only [List.mem_cons] at hx
      rcases hx with rfl | hx
      · simp
      · exact h x hx

/-- **the slot `find_or_add_connect_token_entry` writes to**: the first empty one; if there is none, the first entry of
    minimal time -/
theorem scan_slot (mac : Bytes) (es : Entries) : SlotFor es (NetcodeServer.scanEntries mac es 0 scan0).oldestEntry := by
  rcases firstEmpty_or_full es with ⟨i, hi⟩ | hfull
  · left
    rw [scan_firstEmpty mac es 0 scan0 i rfl hi, Nat.zero_add]
    exact hi
  · right
    refine ⟨hfull, ?_⟩
    rcases scan_full mac es 0 scan0 rfl hfull with ⟨a1, _, a3⟩ | ⟨j, e, b1, b2, _, b4, b5, b6⟩
    · right; exact ⟨a1, a3⟩
    · left
      rw [b2, Nat.zero_add]
      exact ⟨e, b1, b4, b5, b6⟩

theorem firstEmpty_unique {es : Entries} {i j : Nat} (hi : FirstEmpty es i) (hj : FirstEmpty es j) : i = j := by
  rcases Nat.lt_trichotomy i j with h | h | h
  · exact absurd hi.1 (hj.2 i h)
  · exact h
  · exact absurd hj.1 (hi.2 j h)

theorem oldestAt_unique {es : Entries} {i j : Nat} (hi : OldestAt es i) (hj : OldestAt es j) : i = j := by
  rcases hi with ⟨e, a1, a2, a3, a4⟩ | ⟨rfl, a⟩ <;> rcases hj with ⟨e', b1, b2, b3, b4⟩ | ⟨rfl, b⟩
  · rcases Nat.lt_trichotomy i j with h | h | h
    · have := b3 i e h a1; have := a4 j e' b1; omega
    · exact h
    · have := a3 j e' h b1; have := b4 i e a1; omega
  · have := b e (List.mem_iff_getElem?.mpr ⟨i, a1⟩); omega
  · have := a e' (List.mem_iff_getElem?.mpr ⟨j, b1⟩); omega
  · rfl

/-- the slot is determined by the table -/
theorem slotFor_unique {es : Entries} {i j : Nat} (hi : SlotFor es i) (hj : SlotFor es j) : i = j := by
  rcases hi with hi | ⟨f, hi⟩ <;> rcases hj with hj | ⟨g, hj⟩
  · exact firstEmpty_unique hi hj
  · exact absurd rfl (g none (List.mem_iff_getElem?.mpr ⟨i, hi.1⟩))
  · exact absurd rfl (f none (List.mem_iff_getElem?.mpr ⟨j, hj.1⟩))
  · exact oldestAt_unique hi hj

theorem slotFor_lt {es : Entries} {i : Nat} (h : SlotFor es i) (hpos : 0 < es.length) : i < es.length := by
  rcases h with h | ⟨_, ⟨e, h, _⟩ | ⟨rfl, _⟩⟩
  · exact (List.getElem?_eq_some_iff.mp h.1).1
  · exact (List.getElem?_eq_some_iff.mp h).1
  · exact hpos

/-- a MAC already in the table: the table is not touched -/
theorem tableAdd_match {es : Entries} {ne e : ConnectTokenEntry} (he : some e ∈ es) (hm : e.mac = ne.mac) :
    tableAdd es ne = es := by
  unfold tableAdd
  cases h : (NetcodeServer.scanEntries ne.mac es 0 scan0).matchingEntry with
  | some x => rfl
  | none => exact absurd hm ((scanEntries_spec ne.mac es 0 scan0).2 h |>.2 e he)

/-- a new MAC: the entry is written to the slot `SlotFor` describes -/
theorem tableAdd_new {es : Entries} {ne : ConnectTokenEntry} (hn : ∀ e, some e ∈ es → e.mac ≠ ne.mac) :
    ∃ i, SlotFor es i ∧ tableAdd es ne = es.set i (some ne) := by
  refine ⟨_, scan_slot ne.mac es, ?_⟩
  unfold tableAdd
  cases h : (NetcodeServer.scanEntries ne.mac es 0 scan0).matchingEntry with
  | none => rfl
  | some x =>
    rcases (scanEntries_spec ne.mac es 0 scan0).1 x h with h' | h'
    · cases h'
    · exact absurd h'.2 (hn x h'.1)

theorem tableAdd_length (es : Entries) (ne : ConnectTokenEntry) : (tableAdd es ne).length = es.length := by
  unfold tableAdd; split <;> simp


/-! ## 2. which calls touch the table -/

/-- a property of the server state a fallible call leaves behind (whether it returns `Ok` or `Err`) -/
def SPost (P : NetcodeServer → Prop) : NetcodeServer.SRes → Prop
  | .ok (_, s') => P s'
  | .err (_, s') => P s'
  | .panic _ => True

theorem SPost.mono {P Q : NetcodeServer → Prop} (h : ∀ s', P s' → Q s') : ∀ {R : NetcodeServer.SRes}, SPost P R → SPost Q R
  | .ok (_, _), hp => h _ hp
  | .err (_, _), hp => h _ hp
  | .panic _, _ => trivial

theorem spost_bind {α : Type} {P : NetcodeServer → Prop} {x : Res (NetcodeError × NetcodeServer) α}
    {f : α → NetcodeServer.SRes}
    (hx : ∀ e s', x = .err (e, s') → P s') (hf : ∀ v, x = .ok v → SPost P (f v)) : SPost P (x >>= f) := by
  cases x with
  | ok v => exact hf v rfl
  | err e => obtain ⟨e, s'⟩ := e; exact hx e s' rfl
  | panic m => trivial

theorem lift_err_state {α : Type} {s s' : NetcodeServer} {y : NRes α} {e : NetcodeError}
    (h : NetcodeServer.lift s y = .err (e, s')) : s' = s := by
  cases y <;> simp [NetcodeServer.lift] at h
  exact h.2.symm

theorem incU64_not_err {ε : Type} {x : Nat} {site : String} {e : ε} : (incU64 x site : Res ε Nat) ≠ .err e := by
  unfold incU64; split <;> simp

theorem tokenDecode_ok {a : AEAD} {s : NetcodeServer} {expire : Nat} {xnonce data : Bytes} {t : PrivateConnectToken}
    (h : PrivateConnectToken.decode a data s.protocolId expire xnonce s.connectKey = .ok t) :
    TokenOpens a s expire xnonce data t := by
  unfold PrivateConnectToken.decode at h
  split at h
  · cases h
  · split at h
    · cases h
    · rename_i plain hx
      split at h
      · cases h
      · rename_i t' hr
        cases h
        exact ⟨plain, hx, hr⟩

theorem tokenDecode_err {a : AEAD} {s : NetcodeServer} {expire : Nat} {xnonce data : Bytes} {e : TokenGenErr}
    (h : PrivateConnectToken.decode a data s.protocolId expire xnonce s.connectKey = .err e)
    (t : PrivateConnectToken) : ¬ TokenOpens a s expire xnonce data t := by
  rintro ⟨plain, h1, h2⟩
  unfold PrivateConnectToken.decode at h
  split at h
  · cases h
  · rw [h1] at h
    simp only [h2] at h
    cases h

/-- a failed token-to-address check leaves the table alone -/
theorem findOrAdd_false {s : NetcodeServer} {ne : ConnectTokenEntry} (h : (s.findOrAddConnectTokenEntry ne).2 = false) :
    (s.findOrAddConnectTokenEntry ne).1 = s := by
  unfold NetcodeServer.findOrAddConnectTokenEntry at h ⊢
  simp only at h ⊢
  split
  · rfl
  · rename_i hn; rw [hn] at h; cases h

/-- the table effect of `handle_connection_request`: none unless the request passes every check (`Accepted`); then the
    table is what `find_or_add_connect_token_entry` makes of it — **whether the request is then answered with a
    challenge, denied because the server is full, or fails while encoding the answer** -/
def HTbl (a : AEAD) (s : NetcodeServer) (addr : Addr) (v : Bytes) (pid expire : Nat) (xnonce data : Bytes)
    (s' : NetcodeServer) : Prop :=
  (s'.connectTokenEntries = s.connectTokenEntries ∧ ∀ t, ¬ Accepted a s addr v pid expire xnonce data t) ∨
  ((∃ t, Accepted a s addr v pid expire xnonce data t) ∧
    s'.connectTokenEntries = tableAdd s.connectTokenEntries ⟨s.currentTime, addr, tokenMac data⟩)

theorem hcr_tbl (a : AEAD) (s : NetcodeServer) (addr : Addr) (v : Bytes) (pid expire : Nat) (xnonce data : Bytes) :
    SPost (HTbl a s addr v pid expire xnonce data) (NetcodeServer.handleConnectionRequest a s addr v pid expire xnonce data) := by
  unfold NetcodeServer.handleConnectionRequest
  split
  · rename_i h; exact Or.inl ⟨rfl, fun t ha => h ha.version⟩
  rename_i hv
  split
  · rename_i h; exact Or.inl ⟨rfl, fun t ha => h ha.protocol⟩
  rename_i hp
  split
  · rename_i h; exact Or.inl ⟨rfl, fun t ha => by have := ha.unexpired; omega⟩
  rename_i hx
  split
  · trivial
  · rename_i e htok; exact Or.inl ⟨rfl, fun t ha => tokenDecode_err htok t ha.opens⟩
  rename_i tok htok
  have hopens := tokenDecode_ok htok
  extract_lets inHost ac ic mac
  split
  · rename_i h
    refine Or.inl ⟨rfl, fun t' ha => ?_⟩
    have := tokenOpens_unique hopens ha.opens; subst this
    obtain ⟨x, hx1, hx2⟩ := ha.host h.1
    have h2 := h.2
    simp only [inHost, Bool.not_eq_true', List.any_eq_false] at h2
    have := h2 (some x) hx1
    simp [hx2] at this
  rename_i hhost
  split
  · rename_i h
    refine Or.inl ⟨rfl, fun t' ha => ?_⟩
    have := tokenOpens_unique hopens ha.opens; subst this
    simp only [ic, ac, ha.idFree, ha.addrFree] at h
    simp at h
  rename_i hfree
  split
  · rename_i h
    refine Or.inl ⟨rfl, fun t' ha => ?_⟩
    rcases ha.room with h' | h'
    · have h1 := h.1
      cases hpf : pendingFind s.pendingClients addr with
      | none => rw [hpf] at h'; cases h'
      | some q => rw [hpf] at h1; cases h1
    · have := h.2; omega
  rename_i hroom
  have hacc : (s.findOrAddConnectTokenEntry ⟨s.currentTime, addr, tokenMac data⟩).2 = true →
      Accepted a s addr v pid expire xnonce data tok := by
    intro hb
    refine ⟨by simpa using hv, by simpa using hp, by omega, hopens, ?_, ?_, ?_, ?_, hb⟩
    · intro hs
      simp only [hs, true_and, Bool.not_eq_true', Bool.not_eq_false, inHost] at hhost
      rw [List.any_eq_true] at hhost
      obtain ⟨h, hh, hc⟩ := hhost
      cases h with
      | none => simp at hc
      | some x => exact ⟨x, hh, by simpa using hc⟩
    · cases h : findClientByAddr s.clients addr with
      | none => rfl
      | some p => simp [ac, ic, h] at hfree
    · cases h : findClientById s.clients tok.clientId with
      | none => rfl
      | some p => simp [ac, ic, h] at hfree
    · cases h : pendingFind s.pendingClients addr with
      | some p => left; rfl
      | none =>
        right
        simp only [h, Option.isNone_none, true_and] at hroom
        omega
  split
  rename_i s1 added hfa
  have hfa' : s.findOrAddConnectTokenEntry ⟨s.currentTime, addr, tokenMac data⟩ = (s1, added) := hfa
  have hs1 : s1 = (s.findOrAddConnectTokenEntry ⟨s.currentTime, addr, tokenMac data⟩).1 := by rw [hfa']
  have hadd : added = (s.findOrAddConnectTokenEntry ⟨s.currentTime, addr, tokenMac data⟩).2 := by rw [hfa']
  split
  · rename_i hna
    have hf : (s.findOrAddConnectTokenEntry ⟨s.currentTime, addr, tokenMac data⟩).2 = false := by
      rw [← hadd]; simpa using hna
    refine Or.inl ⟨?_, fun t ha => ?_⟩
    · show s1.connectTokenEntries = _
      rw [hs1, findOrAdd_false hf]
    · have := ha.binding; rw [hf] at this; cases this
  rename_i hadded
  have ht : (s.findOrAddConnectTokenEntry ⟨s.currentTime, addr, tokenMac data⟩).2 = true := by
    rw [← hadd]; simpa using hadded
  have hgood : ∀ s' : NetcodeServer, s'.connectTokenEntries = s1.connectTokenEntries →
      HTbl a s addr v pid expire xnonce data s' := by
    intro s' h
    exact Or.inr ⟨⟨tok, hacc ht⟩, by rw [h, hs1, findOrAdd_entries]⟩
  split
  · extract_lets s2
    refine spost_bind (fun e s' he => ?_) (fun out _ => ?_)
    · rw [lift_err_state he]; exact hgood _ rfl
    · refine spost_bind (fun e s' he => absurd he incU64_not_err) (fun g _ => ?_)
      exact hgood _ rfl
  · refine spost_bind (fun e s' he => absurd he incU64_not_err) (fun cs _ => ?_)
    extract_lets s2
    refine spost_bind (fun e s' he => ?_) (fun pk _ => ?_)
    · rw [lift_err_state he]; exact hgood _ rfl
    refine spost_bind (fun e s' he => ?_) (fun out _ => ?_)
    · rw [lift_err_state he]; exact hgood _ rfl
    refine spost_bind (fun e s' he => absurd he incU64_not_err) (fun g _ => ?_)
    exact hgood _ rfl



/-- **the datagram `buf` from `addr`, arriving in state `s`, registers the token MAC `mac`**: it is a connection request
    that passes every check of `Accepted` (so `find_or_add_connect_token_entry` is called for `(mac, addr)` and answers
    `true`), and `mac` is the MAC (last 16 bytes) of its private token. -/
def Registers (a : AEAD) (s : NetcodeServer) (addr : Addr) (buf : Bytes) (mac : Bytes) : Prop :=
  ∃ v pid expire xnonce data t,
    (Packet.decode a buf s.protocolId none none).1 = .ok (0, .connectionRequest v pid expire xnonce data) ∧
    Accepted a s addr v pid expire xnonce data t ∧ tokenMac data = mac

theorem registers_unique {a : AEAD} {s : NetcodeServer} {addr : Addr} {buf m1 m2 : Bytes}
    (h1 : Registers a s addr buf m1) (h2 : Registers a s addr buf m2) : m1 = m2 := by
  obtain ⟨v, pid, e, x, d, t, hd, _, rfl⟩ := h1
  obtain ⟨v', pid', e', x', d', t', hd', _, rfl⟩ := h2
  rw [hd] at hd'; cases hd'; rfl

/-- `Accepted` reads the pending map only through the room test -/
theorem accepted_of_fields {a : AEAD} {s s2 : NetcodeServer} {addr : Addr} {v : Bytes} {pid expire : Nat}
    {xnonce data : Bytes} {t : PrivateConnectToken}
    (h1 : s2.protocolId = s.protocolId) (h2 : s2.currentTime = s.currentTime) (h3 : s2.connectKey = s.connectKey)
    (h4 : s2.secure = s.secure) (h5 : s2.publicAddresses = s.publicAddresses) (h6 : s2.clients = s.clients)
    (h7 : s2.connectTokenEntries = s.connectTokenEntries)
    (hroom : (pendingFind s2.pendingClients addr).isSome ∨ s2.pendingClients.length < C.NETCODE_MAX_PENDING_CLIENTS)
    (h : Accepted a s addr v pid expire xnonce data t) : Accepted a s2 addr v pid expire xnonce data t := by
  obtain ⟨a1, a2, a3, a4, a5, a6, a7, _, a9⟩ := h
  refine ⟨a1, by rw [h1]; exact a2, by rw [h2]; exact a3, ?_, ?_, by rw [h6]; exact a6, by rw [h6]; exact a7, hroom, ?_⟩
  · obtain ⟨plain, b1, b2⟩ := a4
    exact ⟨plain, by rw [h3, h1]; exact b1, b2⟩
  · rw [h4, h5]; exact a5
  · rw [h2, findOrAdd_snd_congr h7]; exact a9

theorem decode_short {a : AEAD} {buf : Bytes} {pid : Nat} {key : Option Bytes} {rp : Option RP}
    (h : buf.length < 2 + C.NETCODE_MAC_BYTES) : (Packet.decode a buf pid key rp).1 = .err .packetTooSmall := by
  rw [decode_eq, if_pos h]

/-- the decoder (with whatever key) did not produce a connection request ⇒ the datagram registers nothing -/
theorem notReg_of_decode {a : AEAD} {s : NetcodeServer} {addr : Addr} {buf : Bytes} {key : Option Bytes}
    {rp rp' : Option RP} {r : NRes (Nat × Packet)}
    (hdec : Packet.decode a buf s.protocolId key rp = (r, rp'))
    (hr : ∀ v pid e x d, r ≠ .ok (0, .connectionRequest v pid e x d)) (mac : Bytes) : ¬ Registers a s addr buf mac := by
  rintro ⟨v, pid, e, x, d, t, hd, _, _⟩
  have := req_decode hd key rp
  rw [hdec] at this
  simp only [Prod.mk.injEq] at this
  exact hr v pid e x d this.1

/-- the table effect of `process_packet`: none unless the datagram `Registers` a MAC; then exactly what
    `find_or_add_connect_token_entry` does for `(mac, source address)` at the current time -/
def PTbl (a : AEAD) (s : NetcodeServer) (addr : Addr) (buf : Bytes) (s' : NetcodeServer) : Prop :=
  (s'.connectTokenEntries = s.connectTokenEntries ∧ ∀ mac, ¬ Registers a s addr buf mac) ∨
  (∃ mac, Registers a s addr buf mac ∧
    s'.connectTokenEntries = tableAdd s.connectTokenEntries ⟨s.currentTime, addr, mac⟩)

/-- from the table effect of `handle_connection_request` (run on a state `s2` that differs from `s` in the pending
    map only, where `addr` has room) to that of `process_packet` -/
theorem htbl_ptbl {a : AEAD} {s s2 : NetcodeServer} {addr : Addr} {buf : Bytes} {v : Bytes} {pid expire : Nat}
    {xnonce data : Bytes}
    (hd : (Packet.decode a buf s.protocolId none none).1 = .ok (0, .connectionRequest v pid expire xnonce data))
    (h1 : s2.protocolId = s.protocolId) (h2 : s2.currentTime = s.currentTime) (h3 : s2.connectKey = s.connectKey)
    (h4 : s2.secure = s.secure) (h5 : s2.publicAddresses = s.publicAddresses) (h6 : s2.clients = s.clients)
    (h7 : s2.connectTokenEntries = s.connectTokenEntries)
    (hroom2 : (∃ t, Accepted a s addr v pid expire xnonce data t) →
      (pendingFind s2.pendingClients addr).isSome ∨ s2.pendingClients.length < C.NETCODE_MAX_PENDING_CLIENTS)
    (hroom : (∃ t, Accepted a s2 addr v pid expire xnonce data t) →
      (pendingFind s.pendingClients addr).isSome ∨ s.pendingClients.length < C.NETCODE_MAX_PENDING_CLIENTS)
    (s' : NetcodeServer) (h : HTbl a s2 addr v pid expire xnonce data s') : PTbl a s addr buf s' := by
  rcases h with ⟨e, hno⟩ | ⟨⟨t, hacc⟩, e⟩
  · refine Or.inl ⟨by rw [e, h7], ?_⟩
    rintro mac ⟨v', pid', e', x', d', t, hd', hacc, _⟩
    rw [hd] at hd'; cases hd'
    exact hno t (accepted_of_fields h1 h2 h3 h4 h5 h6 h7 (hroom2 ⟨t, hacc⟩) hacc)
  · have hacc' := accepted_of_fields h1.symm h2.symm h3.symm h4.symm h5.symm h6.symm h7.symm (hroom ⟨t, hacc⟩) hacc
    exact Or.inr ⟨tokenMac data, ⟨v, pid, expire, xnonce, data, t, hd, hacc', rfl⟩, by rw [e, h7, h2]⟩

theorem ppi_tbl (a : AEAD) (s : NetcodeServer) (addr : Addr) (buf : Bytes) :
    SPost (PTbl a s addr buf) (NetcodeServer.processPacketInternal a s addr buf) := by
  unfold NetcodeServer.processPacketInternal
  split
  · rename_i hlen
    refine Or.inl ⟨rfl, ?_⟩
    rintro mac ⟨v, pid, e, x, d, t, hd, _, _⟩
    rw [decode_short hlen] at hd; cases hd
  split
  · -- datagram from the address of a connected client
    rename_i slot client hfa
    have hnr : ∀ mac, ¬ Registers a s addr buf mac := by
      rintro mac ⟨v, pid, e, x, d, t, _, hacc, _⟩
      have := hacc.addrFree; rw [hfa] at this; cases this
    split
    rename_i r rp hdec
    extract_lets client1 s1 client2
    split
    · trivial
    · exact Or.inl ⟨rfl, hnr⟩
    · split
      · split
        · exact Or.inl ⟨rfl, hnr⟩
        · exact Or.inl ⟨rfl, hnr⟩
        · exact Or.inl ⟨rfl, hnr⟩
        · exact Or.inl ⟨rfl, hnr⟩
      · exact Or.inl ⟨rfl, hnr⟩
  rename_i hfa
  split
  · -- datagram from the address of a pending client
    rename_i pending hpf
    split
    rename_i r rp hdec
    extract_lets pending1 s1 pending2 s2 s3
    split
    · trivial
    · exact Or.inl ⟨rfl, notReg_of_decode hdec (fun _ _ _ _ _ h => by cases h)⟩
    · rename_i sq packet
      split
      · -- a connection request
        rename_i vi pid ex xn d
        have hkl := (decode_request_indep hdec none none).1
        have hd : (Packet.decode a buf s.protocolId none none).1 = .ok (0, .connectionRequest vi pid ex xn d) := by
          rw [hkl]
        refine SPost.mono (htbl_ptbl (s := s) (s2 := s2) hd rfl rfl rfl rfl rfl rfl rfl (fun _ => Or.inl ?_)
          (fun _ => Or.inl (by rw [hpf]; rfl))) (hcr_tbl a s2 addr vi pid ex xn d)
        show (pendingFind (pendingSet (pendingSet s.pendingClients addr pending1) addr pending2) addr).isSome = true
        rw [pendingFind_set, if_pos rfl]; rfl
      · -- a response
        have hnr : ∀ mac, ¬ Registers a s addr buf mac :=
          notReg_of_decode hdec (fun _ _ _ _ _ h => by cases h)
        refine spost_bind (fun e s' he => ?_) (fun ct _ => ?_)
        · rw [lift_err_state he]; exact Or.inl ⟨rfl, hnr⟩
        split
        · exact Or.inl ⟨rfl, hnr⟩
        split
        · exact Or.inl ⟨rfl, hnr⟩
        split
        · refine spost_bind (fun e s' he => ?_) (fun out _ => ?_)
          · rw [lift_err_state he]; exact Or.inl ⟨rfl, hnr⟩
          refine spost_bind (fun e s' he => absurd he incU64_not_err) (fun g _ => ?_)
          exact Or.inl ⟨rfl, hnr⟩
        · extract_lets pending3 packet'
          refine spost_bind (fun e s' he => ?_) (fun out _ => ?_)
          · rw [lift_err_state he]; exact Or.inl ⟨rfl, hnr⟩
          refine spost_bind (fun e s' he => absurd he incU64_not_err) (fun sq' _ => ?_)
          exact Or.inl ⟨rfl, hnr⟩
      · rename_i hnreq _
        refine Or.inl ⟨rfl, notReg_of_decode hdec (fun v pid e x d h => ?_)⟩
        cases h
        exact hnreq v pid e x d rfl
  · -- datagram from an unknown address
    rename_i hpf
    split
    rename_i r rp hdec
    split
    · trivial
    · exact Or.inl ⟨rfl, notReg_of_decode hdec (fun _ _ _ _ _ h => by cases h)⟩
    · rename_i sq packet
      split
      · rename_i vi pid ex xn d
        have hkl := decode_request_indep hdec none none
        have hd : (Packet.decode a buf s.protocolId none none).1 = .ok (0, .connectionRequest vi pid ex xn d) := by
          rw [hkl.1]
        exact SPost.mono (htbl_ptbl (s := s) (s2 := s) hd rfl rfl rfl rfl rfl rfl rfl (fun ⟨t, h⟩ => h.room)
          (fun ⟨t, h⟩ => h.room)) (hcr_tbl a s addr vi pid ex xn d)
      · trivial



/-- **`process_packet` and the token table.** -/
theorem processPacket_tbl {a : AEAD} {s s' : NetcodeServer} {addr : Addr} {buf : Bytes} {r : ServerResult}
    (h : s.processPacket a addr buf = .ok (r, s')) : PTbl a s addr buf s' := by
  have hp := ppi_tbl a s addr buf
  unfold NetcodeServer.processPacket at h
  cases hx : NetcodeServer.processPacketInternal a s addr buf with
  | ok v =>
    rw [hx] at h hp
    simp only [Res.ok.injEq] at h
    subst h
    exact hp
  | err e =>
    obtain ⟨e, s1⟩ := e
    rw [hx] at h hp
    simp only [Res.ok.injEq, Prod.mk.injEq] at h
    obtain ⟨_, h2⟩ := h
    subst h2
    exact hp
  | panic m => rw [hx] at h; cases h

/-- a registering datagram: the table afterwards is `find_or_add_connect_token_entry`'s -/
theorem registers_table {a : AEAD} {s s' : NetcodeServer} {addr : Addr} {buf mac : Bytes} {r : ServerResult}
    (h : s.processPacket a addr buf = .ok (r, s')) (hreg : Registers a s addr buf mac) :
    s'.connectTokenEntries = tableAdd s.connectTokenEntries ⟨s.currentTime, addr, mac⟩ := by
  rcases processPacket_tbl h with ⟨_, hno⟩ | ⟨mac', hreg', e⟩
  · exact absurd hreg (hno mac)
  · rw [registers_unique hreg hreg']; exact e

/-- the table effect of one operation -/
def StepTbl (a : AEAD) (s : NetcodeServer) (op : Op) (s' : NetcodeServer) : Prop :=
  (s'.connectTokenEntries = s.connectTokenEntries ∧ ∀ addr buf mac, op = .packet addr buf → ¬ Registers a s addr buf mac) ∨
  (∃ addr buf mac, op = .packet addr buf ∧ Registers a s addr buf mac ∧
    s'.connectTokenEntries = tableAdd s.connectTokenEntries ⟨s.currentTime, addr, mac⟩)

/-- **Every operation and the token table**: `update` (clock, expiry of half-open sessions), `update_client`
    (time-outs, keep-alives), `disconnect`, `set_max_clients`, `generate_payload_packet` and every datagram that is not
    an `Accepted` connection request leave the table exactly as it is; an `Accepted` connection request makes it
    `tableAdd table (now, source address, token MAC)`. -/
theorem step_tbl {a : AEAD} {s s' : NetcodeServer} {op : Op} {r : ServerResult} (hi : ServerInv s)
    (h : step a s op = some (r, s')) : StepTbl a s op s' := by
  cases op with
  | packet addr buf =>
    simp only [step] at h
    cases hp : s.processPacket a addr buf with
    | ok x =>
      rw [hp] at h; cases h
      rcases processPacket_tbl hp with ⟨e, hno⟩ | ⟨mac, hreg, e⟩
      · refine Or.inl ⟨e, fun addr' buf' mac h => ?_⟩
        cases h; exact hno mac
      · exact Or.inr ⟨addr, buf, mac, rfl, hreg, e⟩
    | err e => exact e.elim
    | panic m => rw [hp] at h; cases h
  | update d =>
    simp only [step] at h
    cases hp : s.update d with
    | ok x => rw [hp] at h; cases h; rw [update_ok hp]; exact Or.inl ⟨rfl, fun _ _ _ h => by cases h⟩
    | err e => exact e.elim
    | panic m => rw [hp] at h; cases h
  | updateClient id =>
    simp only [step] at h
    cases hp : s.updateClient a id with
    | ok x =>
      rw [hp] at h; cases h
      refine Or.inl ⟨?_, fun _ _ _ h => by cases h⟩
      cases hf : findClientSlotById s.clients id with
      | none => rw [updateClient_absent a hf] at hp; cases hp; rfl
      | some i =>
        obtain ⟨c, hc, hid, _⟩ := findSlot_some hf
        rcases updateClient_spec a hi hf hc with ⟨_, o, e⟩ | ⟨_, e | ⟨out, _, _, e⟩⟩ | ⟨⟨m, e⟩, _⟩ <;>
          (rw [e] at hp; cases hp) <;> rfl
    | err e => exact e.elim
    | panic m => rw [hp] at h; cases h
  | disconnect id =>
    simp only [step] at h
    cases hp : s.disconnect a id with
    | ok x =>
      rw [hp] at h; cases h
      refine Or.inl ⟨?_, fun _ _ _ h => by cases h⟩
      rcases disconnect_spec a s id with ⟨_, e⟩ | ⟨i, c, o, _, _, _, e⟩ <;> (rw [e] at hp; cases hp) <;> rfl
    | err e => exact e.elim
    | panic m => rw [hp] at h; cases h
  | setMaxClients m =>
    simp only [step, Option.some.injEq, Prod.mk.injEq] at h
    refine Or.inl ⟨?_, fun _ _ _ h => by cases h⟩
    rw [← h.2, (setMaxClients_eq s m).2.2.2.1]
  | sendPayload id p =>
    simp only [step] at h
    refine Or.inl ⟨?_, fun _ _ _ h => by cases h⟩
    cases hp : s.generatePayloadPacket a id p with
    | ok x =>
      obtain ⟨⟨ad, out⟩, s''⟩ := x
      rw [hp] at h; cases h
      obtain ⟨i, c, _, _, _, _, _, rfl⟩ := generatePayload_ok hp
      rfl
    | err e => rw [hp] at h; cases h; rfl
    | panic m => rw [hp] at h; cases h

theorem step_tbl_length {a : AEAD} {s s' : NetcodeServer} {op : Op} {r : ServerResult} (hi : ServerInv s)
    (h : step a s op = some (r, s')) : s'.connectTokenEntries.length = s.connectTokenEntries.length := by
  rcases step_tbl hi h with ⟨e, _⟩ | ⟨_, _, _, _, _, e⟩ <;> rw [e]
  exact tableAdd_length _ _

/-- the address a registration passes the check with is the one recorded for that MAC (if it is recorded) -/
theorem registers_addr {a : AEAD} {s : NetcodeServer} {addr : Addr} {buf mac : Bytes} (hi : ServerInv s)
    (hreg : Registers a s addr buf mac) {e : ConnectTokenEntry} (he : some e ∈ s.connectTokenEntries)
    (hm : e.mac = mac) : e.address = addr := by
  obtain ⟨v, pid, ex, x, d, t, hd, hacc, rfl⟩ := hreg
  apply Classical.byContradiction
  intro hne
  exact not_accepted_bound hi he hm hne t hacc

/-- **what one operation does to slot `i` of the table**.  `Evicts`: the operation is an `Accepted` connection request
    with a MAC the table does not hold, **no slot is empty**, `i` is the oldest slot (`OldestAt`: minimal time, lowest
    index among equals), and the new entry replaces it. -/
def Evicts (a : AEAD) (s : NetcodeServer) (op : Op) (i : Nat) (s' : NetcodeServer) : Prop :=
  ∃ addr buf mac, op = .packet addr buf ∧ Registers a s addr buf mac ∧
    (∀ e, some e ∈ s.connectTokenEntries → e.mac ≠ mac) ∧ (∀ x ∈ s.connectTokenEntries, x ≠ none) ∧
    OldestAt s.connectTokenEntries i ∧
    s'.connectTokenEntries = s.connectTokenEntries.set i (some ⟨s.currentTime, addr, mac⟩)

/-- one operation: a recorded entry stays where it is, unchanged, unless the operation `Evicts` it -/
theorem step_entry_persists {a : AEAD} {s s' : NetcodeServer} {op : Op} {r : ServerResult} (hi : ServerInv s)
    (h : step a s op = some (r, s')) {i : Nat} {e : ConnectTokenEntry}
    (he : s.connectTokenEntries[i]? = some (some e)) :
    s'.connectTokenEntries[i]? = some (some e) ∨ Evicts a s op i s' := by
  rcases step_tbl hi h with ⟨eq, _⟩ | ⟨addr, buf, mac, rfl, hreg, eq⟩
  · left; rw [eq]; exact he
  · by_cases hm : ∃ e', some e' ∈ s.connectTokenEntries ∧ e'.mac = mac
    · obtain ⟨e', he', hm'⟩ := hm
      left
      rw [eq, tableAdd_match (ne := ⟨s.currentTime, addr, mac⟩) he' hm']; exact he
    · have hn : ∀ e', some e' ∈ s.connectTokenEntries → e'.mac ≠ mac := fun e' h1 h2 => hm ⟨e', h1, h2⟩
      obtain ⟨k, hk, ek⟩ := tableAdd_new (ne := ⟨s.currentTime, addr, mac⟩) hn
      rw [ek] at eq
      by_cases hki : k = i
      · subst hki
        rcases hk with hk | ⟨hfull, hold⟩
        · rw [hk.1] at he; cases he
        · exact Or.inr ⟨addr, buf, mac, rfl, hreg, hn, hfull, hold, eq⟩
      · left
        rw [eq, List.getElem?_set, if_neg hki]; exact he

/-- one operation: where a recorded entry comes from — it was there, or this very operation is an `Accepted`
    connection request from the entry's address carrying its MAC, at the entry's time -/
theorem step_entry_origin {a : AEAD} {s s' : NetcodeServer} {op : Op} {r : ServerResult} (hi : ServerInv s)
    (h : step a s op = some (r, s')) {e : ConnectTokenEntry} (he : some e ∈ s'.connectTokenEntries) :
    some e ∈ s.connectTokenEntries ∨
    ∃ buf, op = .packet e.address buf ∧ Registers a s e.address buf e.mac ∧ e.time = s.currentTime := by
  rcases step_tbl hi h with ⟨eq, _⟩ | ⟨addr, buf, mac, rfl, hreg, eq⟩
  · left; rw [← eq]; exact he
  · by_cases hm : ∃ e', some e' ∈ s.connectTokenEntries ∧ e'.mac = mac
    · obtain ⟨e', he', hm'⟩ := hm
      left
      rw [eq, tableAdd_match (ne := ⟨s.currentTime, addr, mac⟩) he' hm'] at he; exact he
    · have hn : ∀ e', some e' ∈ s.connectTokenEntries → e'.mac ≠ mac := fun e' h1 h2 => hm ⟨e', h1, h2⟩
      obtain ⟨k, hk, ek⟩ := tableAdd_new (ne := ⟨s.currentTime, addr, mac⟩) hn
      rw [eq, ek] at he
      obtain ⟨j, hj⟩ := List.mem_iff_getElem?.mp he
      rw [List.getElem?_set] at hj
      by_cases hkj : k = j
      · rw [if_pos hkj] at hj
        split at hj
        · simp only [Option.some.injEq] at hj
          subst hj
          exact Or.inr ⟨buf, rfl, hreg, rfl⟩
        · cases hj
      · rw [if_neg hkj] at hj
        exact Or.inl (List.mem_iff_getElem?.mpr ⟨j, hj⟩)

/-- a registration leaves `(mac, address)` in the table — also when the request is then denied because the server is
    full, or the answer cannot be encoded -/
theorem registers_binds {a : AEAD} {s s' : NetcodeServer} {addr : Addr} {buf mac : Bytes} {r : ServerResult}
    (hi : ServerInv s) (h : s.processPacket a addr buf = .ok (r, s')) (hreg : Registers a s addr buf mac) :
    ∃ e, some e ∈ s'.connectTokenEntries ∧ e.mac = mac ∧ e.address = addr := by
  have eq := registers_table h hreg
  by_cases hm : ∃ e', some e' ∈ s.connectTokenEntries ∧ e'.mac = mac
  · obtain ⟨e', he', hm'⟩ := hm
    rw [tableAdd_match (ne := ⟨s.currentTime, addr, mac⟩) he' hm'] at eq
    exact ⟨e', by rw [eq]; exact he', hm', registers_addr hi hreg he' hm'⟩
  · have hn : ∀ e', some e' ∈ s.connectTokenEntries → e'.mac ≠ mac := fun e' h1 h2 => hm ⟨e', h1, h2⟩
    obtain ⟨k, hk, ek⟩ := tableAdd_new (ne := ⟨s.currentTime, addr, mac⟩) hn
    refine ⟨⟨s.currentTime, addr, mac⟩, ?_, rfl, rfl⟩
    rw [eq, ek]
    exact List.mem_iff_getElem?.mpr ⟨k, by rw [List.getElem?_set, if_pos rfl, if_pos (slotFor_lt hk hi.entriesPos)]⟩



/-! ## 3. whole traces -/

/-- `Steps a s ops s'`: the operations `ops` (`NS.Op`, run by `NS.step`: any datagram from any address, `update`,
    `update_client`, `disconnect`, `set_max_clients`, `generate_payload_packet`), none of which unwinds, lead from
    `s` to `s'` -/
inductive Steps (a : AEAD) : NetcodeServer → List Op → NetcodeServer → Prop
  | nil (s : NetcodeServer) : Steps a s [] s
  | cons {s s1 s' : NetcodeServer} {op : Op} {ops : List Op} {r : ServerResult} :
      step a s op = some (r, s1) → Steps a s1 ops s' → Steps a s (op :: ops) s'

theorem Steps.inv {a : AEAD} {s s' : NetcodeServer} {ops : List Op} (h : Steps a s ops s') (hi : ServerInv s) :
    ServerInv s' := by
  induction h with
  | nil => exact hi
  | cons hs _ ih => exact ih (step_inv hi hs)

theorem Steps.tbl_length {a : AEAD} {s s' : NetcodeServer} {ops : List Op} (h : Steps a s ops s') (hi : ServerInv s) :
    s'.connectTokenEntries.length = s.connectTokenEntries.length := by
  induction h with
  | nil => rfl
  | cons hs _ ih => rw [ih (step_inv hi hs), step_tbl_length hi hs]

/-- **`entries_persist`** — over every trace of server operations a recorded entry `(time, address, mac)` stays in its
    slot, unchanged, unless at some point of the trace (state `s1`, where it still is in its slot) an `Accepted`
    connection request with a MAC not in the table arrives while **no slot is empty** and slot `i` is the oldest
    (`Evicts`). -/
theorem entries_persist {a : AEAD} {s s' : NetcodeServer} {ops : List Op} (h : Steps a s ops s') (hi : ServerInv s)
    {i : Nat} {e : ConnectTokenEntry} (he : s.connectTokenEntries[i]? = some (some e)) :
    s'.connectTokenEntries[i]? = some (some e) ∨
    ∃ ops1 op ops2 s1 s2 r, ops = ops1 ++ op :: ops2 ∧ Steps a s ops1 s1 ∧
      s1.connectTokenEntries[i]? = some (some e) ∧ step a s1 op = some (r, s2) ∧ Evicts a s1 op i s2 ∧
      Steps a s2 ops2 s' := by
  induction h with
  | nil => exact Or.inl he
  | @cons s s1 s' op ops r hs hrest ih =>
    rcases step_entry_persists hi hs he with h1 | h1
    · rcases ih (step_inv hi hs) h1 with h2 | ⟨ops1, op', ops2, t1, t2, r', e1, e2, e3, e4, e5, e6⟩
      · exact Or.inl h2
      · exact Or.inr ⟨op :: ops1, op', ops2, t1, t2, r', by rw [e1]; rfl, .cons hs e2, e3, e4, e5, e6⟩
    · exact Or.inr ⟨[], op, ops, s, s1, r, rfl, .nil s, he, hs, h1, hrest⟩

/-- as long as some slot is empty nothing is evicted -/
theorem not_evicts_of_empty {a : AEAD} {s s' : NetcodeServer} {op : Op} {i j : Nat}
    (hj : s.connectTokenEntries[j]? = some none) : ¬ Evicts a s op i s' := by
  rintro ⟨_, _, _, _, _, _, hfull, _⟩
  exact hfull none (List.mem_iff_getElem?.mpr ⟨j, hj⟩) rfl

/-! ## 4. the binding over whole histories -/

/-- every MAC registered in the history is in `L` (so at most `L.length` distinct MACs were registered) -/
def Covered (a : AEAD) (hist : List Arrival) (L : List Bytes) : Prop :=
  ∀ ar ∈ hist, ∀ mac, Registers a ar.s ar.addr ar.buf mac → mac ∈ L

theorem entriesOK_tail {x : Option ConnectTokenEntry} {es : Entries} (h : EntriesOK (x :: es)) : EntriesOK es :=
  fun i j ei ej hi hj hm => by
    have := h (i + 1) (j + 1) ei ej (by simpa using hi) (by simpa using hj) hm
    omega

/-- pigeonhole: a table without empty slot whose (pairwise distinct) MACs all lie in `L` has at most `L.length` slots -/
theorem full_le : ∀ (es : Entries), EntriesOK es → (∀ x ∈ es, x ≠ none) → ∀ L : List Bytes,
    (∀ e, some e ∈ es → e.mac ∈ L) → es.length ≤ L.length
  | [], _, _, _, _ => Nat.zero_le _
  | none :: rest, _, hfull, _, _ => absurd rfl (hfull none (by simp))
  | some e :: rest, hok, hfull, L, hL => by
    have hmem : e.mac ∈ L := hL e (by simp)
    have ih := full_le rest (entriesOK_tail hok) (fun x hx => hfull x (List.mem_cons_of_mem _ hx)) (L.erase e.mac) (by
      intro e' he'
      have hne : e'.mac ≠ e.mac := by
        intro hm
        obtain ⟨j, hj⟩ := List.mem_iff_getElem?.mp he'
        have := hok (j + 1) 0 e' e (by simpa using hj) rfl hm
        omega
      exact (List.mem_erase_of_ne hne).mpr (hL e' (List.mem_cons_of_mem _ he')))
    rw [List.length_erase_of_mem hmem] at ih
    have : 0 < L.length := List.length_pos_of_mem hmem
    simp only [List.length_cons]
    omega

/-- every entry of a reachable table stems from a registration: an `Accepted` connection request from the entry's
    address carrying its MAC -/
theorem reachH_origin {a : AEAD} {s : NetcodeServer} {hist : List Arrival} (hr : ReachH a s hist)
    {e : ConnectTokenEntry} (he : some e ∈ s.connectTokenEntries) :
    ∃ ar ∈ hist, ar.addr = e.address ∧ Registers a ar.s ar.addr ar.buf e.mac ∧ e.time = ar.s.currentTime := by
  induction hr with
  | init h =>
    obtain ⟨k, _, hk⟩ := h.entries
    rw [hk] at he
    simp at he
  | @step s s' hist op r hr hs ih =>
    rcases step_entry_origin hr.inv hs he with h1 | ⟨buf, rfl, hreg, ht⟩
    · obtain ⟨ar, har, h2⟩ := ih h1
      exact ⟨ar, List.mem_append_left _ har, h2⟩
    · exact ⟨⟨s, e.address, buf⟩, List.mem_append_right _ (by simp [arrivalOf]), rfl, hreg, ht⟩

theorem reachH_tbl_length {a : AEAD} {s : NetcodeServer} {hist : List Arrival} (hr : ReachH a s hist) :
    ∃ s0, EmptyServer s0 ∧ s.connectTokenEntries.length = s0.connectTokenEntries.length := by
  induction hr with
  | @init s h => exact ⟨s, h, rfl⟩
  | step hr hs ih =>
    obtain ⟨s0, h0, e⟩ := ih
    exact ⟨s0, h0, by rw [step_tbl_length hr.inv hs, e]⟩

/-- **the core of `token_binding_history`**: in a history in which at most as many distinct MACs were registered as the
    table has slots, every registration is still recorded, with the address it was made from -/
theorem reachH_kept {a : AEAD} {s : NetcodeServer} {hist : List Arrival} (hr : ReachH a s hist) :
    ∀ {L : List Bytes}, Covered a hist L → L.length ≤ s.connectTokenEntries.length →
    ∀ ar ∈ hist, ∀ mac, Registers a ar.s ar.addr ar.buf mac →
      ∃ e, some e ∈ s.connectTokenEntries ∧ e.mac = mac ∧ e.address = ar.addr := by
  induction hr with
  | init h => intro L _ _ ar har; cases har
  | @step s s' hist op r hr hs ih =>
    intro L hc hl ar har mac hreg
    have hi := hr.inv
    have hlen := step_tbl_length hi hs
    have hc0 : Covered a hist L := fun ar har => hc ar (List.mem_append_left _ har)
    have ih := ih hc0 (by rw [← hlen]; exact hl)
    rcases List.mem_append.mp har with har | har
    · -- an earlier registration: its entry is still there
      obtain ⟨e, he, hm, ha⟩ := ih ar har mac hreg
      refine ⟨e, ?_, hm, ha⟩
      rcases step_tbl hi hs with ⟨eq, _⟩ | ⟨addr, buf, mac0, rfl, hreg0, eq⟩
      · rw [eq]; exact he
      · by_cases hmt : ∃ e', some e' ∈ s.connectTokenEntries ∧ e'.mac = mac0
        · obtain ⟨e', he', hm'⟩ := hmt
          rw [eq, tableAdd_match (ne := ⟨s.currentTime, addr, mac0⟩) he' hm']; exact he
        · have hn : ∀ e', some e' ∈ s.connectTokenEntries → e'.mac ≠ mac0 := fun e' h1 h2 => hmt ⟨e', h1, h2⟩
          obtain ⟨k, hk, ek⟩ := tableAdd_new (ne := ⟨s.currentTime, addr, mac0⟩) hn
          rw [eq, ek]
          rcases hk with hk | ⟨hfull, _⟩
          · obtain ⟨j, hj⟩ := List.mem_iff_getElem?.mp he
            have hkj : k ≠ j := by
              intro h; subst h
              rw [hk.1] at hj; cases hj
            exact List.mem_iff_getElem?.mpr ⟨j, by rw [List.getElem?_set, if_neg hkj]; exact hj⟩
          · -- a full table and a new MAC: more distinct MACs than slots
            exfalso
            have hm0 : mac0 ∈ L := hc ⟨s, addr, buf⟩ (List.mem_append_right _ (by simp [arrivalOf])) mac0 hreg0
            have := full_le s.connectTokenEntries hi.entries hfull (L.erase mac0) (by
              intro e' he'
              obtain ⟨ar', har', _, hreg', _⟩ := reachH_origin hr he'
              exact (List.mem_erase_of_ne (hn e' he')).mpr (hc0 ar' har' _ hreg'))
            rw [List.length_erase_of_mem hm0] at this
            have : 0 < L.length := List.length_pos_of_mem hm0
            omega
    · -- the registration made by this very datagram
      cases op with
      | packet addr buf =>
        simp only [arrivalOf, List.mem_singleton] at har
        subst har
        simp only [step] at hs
        cases hp : s.processPacket a addr buf with
        | ok x => rw [hp] at hs; cases hs; exact registers_binds hi hp hreg
        | err e => exact e.elim
        | panic m => rw [hp] at hs; cases hs
      | _ => simp [arrivalOf] at har


/-! ## 5. the boundary: a table with room, a table without -/

/-- number of occupied slots -/
def occupied (es : Entries) : Nat := (es.filter Option.isSome).length

theorem occupied_le (es : Entries) : occupied es ≤ es.length := List.length_filter_le _ _

theorem occupied_full : ∀ {es : Entries}, (∀ x ∈ es, x ≠ none) → occupied es = es.length
  | [], _ => rfl
  | none :: _, h => absurd rfl (h none (by simp))
  | some e :: rest, h => by
    have := occupied_full (es := rest) fun x hx => h x (List.mem_cons_of_mem _ hx)
    simp only [occupied, List.filter_cons, Option.isSome_some, if_true, List.length_cons] at this ⊢
    omega

/-- fewer occupied slots than slots ⇒ there is a first empty slot -/
theorem firstEmpty_of_room {es : Entries} (h : occupied es < es.length) : ∃ i, FirstEmpty es i := by
  rcases firstEmpty_or_full es with h' | h'
  · exact h'
  · rw [occupied_full h'] at h; omega

theorem occupied_set : ∀ (es : Entries) (i : Nat) (x : Option ConnectTokenEntry) (ne : ConnectTokenEntry),
    es[i]? = some x → occupied (es.set i (some ne)) = occupied es + (if x.isSome then 0 else 1)
  | [], i, x, ne, h => by simp at h
  | y :: rest, 0, x, ne, h => by
    simp only [List.getElem?_cons_zero, Option.some.injEq] at h
    subst h
    cases y <;> simp [occupied]
  | y :: rest, i + 1, x, ne, h => by
    rw [List.getElem?_cons_succ] at h
    have := occupied_set rest i x ne h
    simp only [occupied, List.set_cons_succ, List.filter_cons] at this ⊢
    cases y <;> simp only [Option.isSome_none, Option.isSome_some, Bool.false_eq_true, if_false, if_true,
      List.length_cons] <;> omega

/-- **A new MAC and a table with an empty slot**: the entry goes to the first empty slot, every recorded entry stays
    in its slot, one more slot is occupied. -/
theorem tableAdd_room {es : Entries} {ne : ConnectTokenEntry} (hn : ∀ e, some e ∈ es → e.mac ≠ ne.mac)
    (hroom : occupied es < es.length) :
    ∃ i, FirstEmpty es i ∧ tableAdd es ne = es.set i (some ne) ∧
      (∀ (j : Nat) (e : ConnectTokenEntry), es[j]? = some (some e) → (tableAdd es ne)[j]? = some (some e)) ∧
      occupied (tableAdd es ne) = occupied es + 1 := by
  obtain ⟨i, hi⟩ := firstEmpty_of_room hroom
  obtain ⟨k, hk, ek⟩ := tableAdd_new hn
  have : k = i := slotFor_unique hk (Or.inl hi)
  subst this
  refine ⟨k, hi, ek, fun j e hj => ?_, ?_⟩
  · have hkj : k ≠ j := by
      intro h; subst h
      rw [hi.1] at hj; cases hj
    rw [ek, List.getElem?_set, if_neg hkj]; exact hj
  · rw [ek, occupied_set es k none ne hi.1]; rfl

/-- **A new MAC and a table without empty slot**: exactly one slot changes, the oldest one (`OldestAt`: minimal time,
    lowest index among equal times); its entry is gone, all others stay. -/
theorem tableAdd_full {es : Entries} {ne : ConnectTokenEntry} (hn : ∀ e, some e ∈ es → e.mac ≠ ne.mac)
    (hfull : ∀ x ∈ es, x ≠ none) :
    ∃ i, OldestAt es i ∧ tableAdd es ne = es.set i (some ne) ∧
      (∀ j : Nat, j ≠ i → (tableAdd es ne)[j]? = es[j]?) ∧
      (0 < es.length → (tableAdd es ne)[i]? = some (some ne)) := by
  obtain ⟨k, hk, ek⟩ := tableAdd_new hn
  have hold : OldestAt es k := by
    rcases hk with hk | ⟨_, hk⟩
    · exact absurd rfl (hfull none (List.mem_iff_getElem?.mpr ⟨k, hk.1⟩))
    · exact hk
  refine ⟨k, hold, ek, fun j hj => ?_, fun hpos => ?_⟩
  · rw [ek, List.getElem?_set, if_neg (Ne.symm hj)]
  · rw [ek, List.getElem?_set, if_pos rfl, if_pos (slotFor_lt hk hpos)]

end RenetVerif.NcBinding
