import RenetVerif.Lemmas.SendInvD
namespace RenetVerif
open C SMap

/-! ## Part 3 : RenetClient -/

def SentInfo.chan? : SentInfo → Option Nat
  | .relMsgs ch _ => some ch
  | .relSlice ch _ _ => some ch
  | _ => Option.none

/-- a recorded packet is consistent with the reliable send channels -/
def InfoOKC (sr : SMap SendRel) (info : SentInfo) : Prop :=
  ∀ ch, info.chan? = some ch → ∃ s, find? sr ch = some s ∧ s.InfoOK info

/-- every channel present before is present after and is a `Step` later; no channel appears -/
def SRStep (sr sr' : SMap SendRel) : Prop :=
  (∀ ch, (find? sr' ch).isSome = (find? sr ch).isSome) ∧
  ∀ ch s s', find? sr ch = some s → find? sr' ch = some s' → s.Step s'

theorem SRStep.refl (sr : SMap SendRel) : SRStep sr sr :=
  ⟨fun _ => rfl, fun _ s s' h h' => by rw [h] at h'; cases h'; exact SendRel.Step.refl _⟩

theorem SRStep.trans {a b c : SMap SendRel} (h1 : SRStep a b) (h2 : SRStep b c) : SRStep a c := by
  refine ⟨fun ch => (h2.1 ch).trans (h1.1 ch), ?_⟩
  intro ch s s'' hs hs''
  have := h1.1 ch
  rw [hs] at this
  cases hb : find? b ch with
  | none => rw [hb] at this; cases this
  | some s' => exact (h1.2 ch s s' hs hb).trans (h2.2 ch s' s'' hb hs'')

theorem SRStep.update {sr : SMap SendRel} {ch : Nat} {s s' : SendRel} (hf : find? sr ch = some s) (hst : s.Step s') :
    SRStep sr (SMap.insert sr ch s') := by
  refine ⟨?_, ?_⟩
  · intro ch'
    rw [find?_insert]
    by_cases c : ch = ch'
    · rw [if_pos c, ← c, hf]; rfl
    · rw [if_neg c]
  · intro ch' s0 s0' h0 h0'
    rw [find?_insert] at h0'
    by_cases c : ch = ch'
    · rw [if_pos c] at h0'; cases h0'; subst c; rw [hf] at h0; cases h0; exact hst
    · rw [if_neg c, h0] at h0'; cases h0'; exact SendRel.Step.refl _

theorem InfoOKC.step {sr sr' : SMap SendRel} (h : SRStep sr sr') {info : SentInfo} (hi : InfoOKC sr info) :
    InfoOKC sr' info := by
  intro ch hch
  obtain ⟨s, hf, hok⟩ := hi ch hch
  have := h.1 ch
  rw [hf] at this
  cases hb : find? sr' ch with
  | none => rw [hb] at this; cases this
  | some s' => exact ⟨s', rfl, hok.step (h.2 ch s s' hf hb)⟩

/-- all reliable send channels satisfy the channel invariant and know their own id -/
def ChansOK (sr : SMap SendRel) : Prop := ∀ ch s, find? sr ch = some s → s.Inv ∧ s.ch = ch

theorem ChansOK.update {sr : SMap SendRel} (h : ChansOK sr) {ch : Nat} {s' : SendRel} (hi : s'.Inv) (hc : s'.ch = ch) :
    ChansOK (SMap.insert sr ch s') := by
  intro ch' s0 h0
  rw [find?_insert] at h0
  by_cases c : ch = ch'
  · rw [if_pos c] at h0; cases h0; subst c; exact ⟨hi, hc⟩
  · rw [if_neg c] at h0; exact h ch' s0 h0

structure Conn.SendInv (c : Conn) : Prop where
  chans : ChansOK c.sendRel
  sentSorted : Sorted c.sent
  sentOK : ∀ x ∈ c.sent, x.1 < c.packetSeq ∧ InfoOKC c.sendRel x.2.2
  order : ∀ x ∈ c.order, if x.1 = true then (find? c.sendRel x.2).isSome = true else (find? c.sendUnrel x.2).isSome = true

/-- the send-side fields (everything `SendInv` talks about) are equal -/
def Conn.SendSame (c c' : Conn) : Prop :=
  c'.sendRel = c.sendRel ∧ c'.sendUnrel = c.sendUnrel ∧ c'.sent = c.sent ∧ c'.packetSeq = c.packetSeq ∧ c'.order = c.order

theorem Conn.SendSame.refl (c : Conn) : c.SendSame c := ⟨rfl, rfl, rfl, rfl, rfl⟩

theorem Conn.SendSame.trans {a b c : Conn} (h1 : a.SendSame b) (h2 : b.SendSame c) : a.SendSame c := by
  obtain ⟨a1, a2, a3, a4, a5⟩ := h1
  obtain ⟨b1, b2, b3, b4, b5⟩ := h2
  exact ⟨b1.trans a1, b2.trans a2, b3.trans a3, b4.trans a4, b5.trans a5⟩

theorem Conn.SendInv.same {c c' : Conn} (h : c.SendInv) (hs : c.SendSame c') : c'.SendInv := by
  obtain ⟨a1, a2, a3, a4, a5⟩ := hs
  obtain ⟨h1, h2, h3, h4⟩ := h
  exact ⟨a1 ▸ h1, a3 ▸ h2, by rw [a1, a3, a4]; exact h3, by rw [a1, a2, a5]; exact h4⟩

theorem Conn.disconnectWith_same (c : Conn) (r : Reason) :
    c.SendSame (c.disconnectWith r) ∧ (c.disconnectWith r).pendingAcks = c.pendingAcks ∧
    (c.disconnectWith r).recvRel = c.recvRel ∧ (c.disconnectWith r).recvUnrel = c.recvUnrel := by
  unfold Conn.disconnectWith
  split
  · exact ⟨Conn.SendSame.refl _, rfl, rfl, rfl⟩
  · exact ⟨⟨rfl, rfl, rfl, rfl, rfl⟩, rfl, rfl, rfl⟩

/-- replacing one reliable send channel by a later `Step` of itself -/
theorem Conn.SendInv.updateChan {c : Conn} (h : c.SendInv) {ch : Nat} {s s' : SendRel}
    (hf : find? c.sendRel ch = some s) (hi : s'.Inv) (hst : s.Step s') :
    ({ c with sendRel := SMap.insert c.sendRel ch s' } : Conn).SendInv := by
  have hsr := SRStep.update hf hst
  refine ⟨h.chans.update hi (hst.1.trans (h.chans ch s hf).2), h.sentSorted, ?_, ?_⟩
  · intro x hx
    obtain ⟨a, b⟩ := h.sentOK x hx
    exact ⟨a, b.step hsr⟩
  · intro x hx
    have := h.order x hx
    dsimp only
    split
    · rename_i hb; rw [if_pos hb] at this; rw [hsr.1]; exact this
    · rename_i hb; rw [if_neg hb] at this; exact this

/-! ### send_message / receive_message / update -/

theorem Conn.sendMessage_inv {c c' : Conn} {ch : Nat} {m : Bytes} (h : c.SendInv) (hr : c.sendMessage ch m = .ok c') :
    c'.SendInv := by
  unfold Conn.sendMessage at hr
  split at hr
  · cases hr; exact h
  · split at hr
    · rename_i s hf
      split at hr
      · rename_i s' hs
        cases hr
        obtain ⟨i1, i2, -⟩ := SendRel.sendMessage_spec (h.chans ch s hf).1 hs
        exact h.updateChan hf i1 i2
      · cases hr
        exact h.same (c.disconnectWith_same _).1
    · split at hr
      · rename_i su hfu
        cases hr
        obtain ⟨h1, h2, h3, h4⟩ := h
        refine ⟨h1, h2, h3, ?_⟩
        intro x hx
        have := h4 x hx
        dsimp only
        split
        · rename_i hb; rw [if_pos hb] at this; exact this
        · rename_i hb; rw [if_neg hb] at this
          rw [find?_insert]
          split
          · rfl
          · exact this
      · cases hr

/-- `send_message` never removes an unacknowledged message -/
theorem Conn.sendMessage_keeps {c c' : Conn} {ch0 : Nat} {m : Bytes} (h : c.SendInv) (hr : c.sendMessage ch0 m = .ok c')
    {ch : Nat} {s : SendRel} (hs : find? c.sendRel ch = some s) :
    ∃ s', find? c'.sendRel ch = some s' ∧ s.mem ≤ s'.mem ∧ s'.maxMem = s.maxMem ∧
      (∀ id u, find? s.unacked id = some u → find? s'.unacked id = some u) ∧
      (∀ id i, s.Pending id i → s'.Pending id i) := by
  have triv : ∃ s', find? c.sendRel ch = some s' ∧ s.mem ≤ s'.mem ∧ s'.maxMem = s.maxMem ∧
      (∀ id u, find? s.unacked id = some u → find? s'.unacked id = some u) ∧
      (∀ id i, s.Pending id i → s'.Pending id i) :=
    ⟨s, hs, Nat.le_refl _, rfl, fun _ _ h => h, fun _ _ h => h⟩
  unfold Conn.sendMessage at hr
  split at hr
  · cases hr; exact triv
  · split at hr
    · rename_i s0 hf
      split at hr
      · rename_i s0' hs0
        cases hr
        dsimp only
        rw [find?_insert]
        by_cases cc : ch0 = ch
        · subst cc
          rw [hs] at hf; cases hf
          rw [if_pos rfl]
          have hinv := (h.chans ch0 s hs).1
          obtain ⟨i1, i2, i3, i4, i5, i6⟩ := SendRel.sendMessage_spec hinv hs0
          refine ⟨s0', rfl, by omega, i2.2.1, ?_, fun id i hp => SendRel.sendMessage_pending hinv hs0 hp⟩
          intro id u hu
          have : id ≠ s.nextId := by have := hinv.find_lt hu; omega
          rw [i6 id this]; exact hu
        · rw [if_neg cc]; exact triv
      · cases hr
        rw [(c.disconnectWith_same _).1.1]; exact triv
    · split at hr
      · cases hr; exact triv
      · cases hr

theorem Conn.receiveMessage_same {c c' : Conn} {ch : Nat} {m : Option Bytes} (hr : c.receiveMessage ch = .ok (c', m)) :
    c.SendSame c' ∧ c'.pendingAcks = c.pendingAcks := by
  unfold Conn.receiveMessage at hr
  split at hr
  · cases hr; exact ⟨Conn.SendSame.refl _, rfl⟩
  · split at hr
    · rename_i r hf
      cases hrr : r.receive with
      | ok x => rw [hrr] at hr; simp only [Res.bind_ok, Res.pure_eq] at hr; cases hr; exact ⟨⟨rfl, rfl, rfl, rfl, rfl⟩, rfl⟩
      | err e => exact e.elim
      | panic s => rw [hrr] at hr; cases hr
    · split at hr
      · rename_i r hf
        cases hrr : r.receive with
        | ok x => rw [hrr] at hr; simp only [Res.bind_ok, Res.pure_eq] at hr; cases hr; exact ⟨⟨rfl, rfl, rfl, rfl, rfl⟩, rfl⟩
        | err e => exact e.elim
        | panic s => rw [hrr] at hr; cases hr
      · cases hr

theorem Conn.update_spec {c c' : Conn} {dt : Nat} (hr : c.update dt = .ok c') :
    c'.sendRel = c.sendRel ∧ c'.sendUnrel = c.sendUnrel ∧ c'.packetSeq = c.packetSeq ∧ c'.order = c.order ∧
    c'.pendingAcks = c.pendingAcks ∧
    c'.sent = c.sent.dropWhile (fun (_, (t, _)) => c.now + dt - t ≥ DISCARD_AFTER_NS) := by
  unfold Conn.update at hr
  dsimp only at hr
  cases hd : Conn.discardAll (c.now + dt) c.recvUnrel with
  | ok ru => rw [hd] at hr; simp only [Res.bind_ok, Res.pure_eq] at hr; cases hr; exact ⟨rfl, rfl, rfl, rfl, rfl, rfl⟩
  | err e => exact e.elim
  | panic s => rw [hd] at hr; cases hr

theorem Conn.update_inv {c c' : Conn} {dt : Nat} (h : c.SendInv) (hr : c.update dt = .ok c') : c'.SendInv := by
  obtain ⟨e1, e2, e3, e4, -, e6⟩ := Conn.update_spec hr
  obtain ⟨h1, h2, h3, h4⟩ := h
  have hsub := List.dropWhile_sublist (l := c.sent) (fun (_, (t, _)) => c.now + dt - t ≥ DISCARD_AFTER_NS)
  refine ⟨e1 ▸ h1, ?_, ?_, by rw [e1, e2, e4]; exact h4⟩
  · rw [e6]; exact List.Pairwise.sublist hsub h2
  · rw [e6, e1, e3]
    intro x hx
    exact h3 x (hsub.subset hx)

end RenetVerif
