/-
  Netcode time-outs (safety / single-step half of property C18): server-side session time-out and keep-alive,
  expiry of half-open sessions, which datagrams refresh a session's receive timer, client-side time-outs and failover.
-/
import RenetVerif.Lemmas.NcTableEvents
namespace RenetVerif.Netcode
namespace NS
open RenetVerif

/-! ## Part 9 : server side -/

/-- **A connected peer whose receive timer is older than the token's timeout is disconnected by the next
    `update_client`**: its slot is freed and `ClientDisconnected` reported (with a Disconnect packet when it encodes). -/
theorem server_timeout (a : AEAD) {s : NetcodeServer} {id i : Nat} {c : Connection} (hi : ServerInv s)
    (hc : At s.clients i c) (hid : c.clientId = id) (hclock : s.currentTime + fromSecs (2 ^ 31) ≤ DURATION_MAX)
    (hto : c.timeoutSeconds > 0 ∧ c.lastPacketReceivedTime + fromSecs c.timeoutSeconds.toNat < s.currentTime) :
    ∃ o, s.updateClient a id = .ok (.clientDisconnected id c.addr o, { s with clients := s.clients.set i none }) := by
  have hf : findClientSlotById s.clients id = some i := hi.slots.findSlot_iff.mpr ⟨c, hc, hid⟩
  have hok := hi.slotsOK i c hc
  have hns : fromSecs c.timeoutSeconds.toNat ≤ fromSecs (2 ^ 31) := by
    unfold fromSecs
    apply Nat.mul_le_mul_right
    have := hok.tmo
    omega
  have h1 := hok.recv
  rw [updateClient_eq a hf hc, if_pos hto.1, durAdd_ok _ (by omega)]
  simp only [bind_ok', pure_eq', decide_eq_true hto.2]
  exact ucTail_true a s id i c

/-- the packet that accompanies the time-out is the session's `Disconnect`, sealed with its send key and sequence -/
theorem server_timeout_packet (a : AEAD) {s s' : NetcodeServer} {id i : Nat} {c : Connection} {ad : Addr}
    {o : Option Bytes} (hi : ServerInv s) (hc : At s.clients i c) (hid : c.clientId = id)
    (h : s.updateClient a id = .ok (.clientDisconnected id ad o, s')) :
    ad = c.addr ∧ TimedOut c s.currentTime ∧ s' = { s with clients := s.clients.set i none } ∧
    (∀ out, Packet.disconnect.encode a C.NETCODE_MAX_PACKET_BYTES s.protocolId (some (c.sequence, c.sendKey)) = .ok out →
      o = some out) := by
  have hf : findClientSlotById s.clients id = some i := hi.slots.findSlot_iff.mpr ⟨c, hc, hid⟩
  rcases updateClient_spec a hi hf hc with ⟨hto, o', e⟩ | ⟨_, e | ⟨out, _, _, e⟩⟩ | ⟨⟨m, e⟩, _⟩
  · rw [e] at h
    simp only [Res.ok.injEq, Prod.mk.injEq, ServerResult.clientDisconnected.injEq] at h
    obtain ⟨⟨_, rfl, rfl⟩, rfl⟩ := h
    refine ⟨rfl, hto, rfl, ?_⟩
    intro out hen
    -- recompute the tail with the known encoding
    have hok := hi.slotsOK i c hc
    rw [updateClient_eq a hf hc] at e
    obtain ⟨ht1, ht2⟩ := hto
    rw [if_pos ht1] at e
    generalize hd : (durAdd c.lastPacketReceivedTime (fromSecs c.timeoutSeconds.toNat) _ : Res Empty Nat) = X at e
    rcases durAdd_out hd with rfl | ⟨rfl, _⟩
    · simp only [bind_ok', pure_eq', decide_eq_true ht2] at e
      unfold ucTail at e
      simp only [if_true, hen, pure_eq', Res.ok.injEq, Prod.mk.injEq, ServerResult.clientDisconnected.injEq] at e
      exact e.1.2.2.symm
    · cases e
  · rw [e] at h; cases h
  · rw [e] at h; cases h
  · rw [e] at h; cases h

/-- **A connected session that is not timed out is kept by `update_client`** (the sessions of the table are unchanged;
    the result is nothing or a keep-alive to that session's address). -/
theorem server_no_timeout (a : AEAD) {s s' : NetcodeServer} {id i : Nat} {c : Connection} {r : ServerResult}
    (hi : ServerInv s) (hc : At s.clients i c) (hid : c.clientId = id) (hnt : ¬ TimedOut c s.currentTime)
    (h : s.updateClient a id = .ok (r, s')) :
    sessions s'.clients = sessions s.clients ∧ (r = .none ∨ ∃ out, r = .packetToSend c.addr out) := by
  have hf : findClientSlotById s.clients id = some i := hi.slots.findSlot_iff.mpr ⟨c, hc, hid⟩
  rcases updateClient_spec a hi hf hc with ⟨hto, _⟩ | ⟨_, e | ⟨out, _, _, e⟩⟩ | ⟨⟨m, e⟩, _⟩
  · exact absurd hto hnt
  · rw [e] at h; cases h; exact ⟨rfl, Or.inl rfl⟩
  · rw [e] at h; cases h; exact ⟨sessions_set_same hc rfl, Or.inr ⟨out, rfl⟩⟩
  · rw [e] at h; cases h

/-- **No spurious time-out**: a session whose receive timer was refreshed at `t` is not timed out while
    `now ≤ t + timeout` (and never, when the token's timeout is not positive). -/
theorem no_spurious_timeout {c : Connection} {now : Nat}
    (h : c.timeoutSeconds ≤ 0 ∨ now ≤ c.lastPacketReceivedTime + fromSecs c.timeoutSeconds.toNat) :
    ¬ TimedOut c now := by
  rintro ⟨h1, h2⟩
  rcases h with h | h <;> omega

/-- **Half-open sessions vanish when their token expires**: `update` keeps exactly the half-open sessions with
    `now.secs ≤ expire_timestamp`, advances the clock, and touches nothing else. -/
theorem pending_expire {s s' : NetcodeServer} {d : Nat} (h : s.update d = .ok s') :
    s'.currentTime = s.currentTime + d ∧ s'.clients = s.clients ∧
    (∀ p, p ∈ s'.pendingClients ↔ p ∈ s.pendingClients ∧ asSecs (s.currentTime + d) ≤ p.2.expireTimestamp) ∧
    (∀ x p, pendingFind s.pendingClients x = some p → asSecs (s.currentTime + d) > p.expireTimestamp →
      (s.pendingClients.map (·.1)).Nodup → pendingFind s'.pendingClients x = none) := by
  rw [update_ok h]
  refine ⟨rfl, rfl, ?_, ?_⟩
  · intro p
    simp only [List.mem_filter, Bool.not_eq_true', decide_eq_false_iff_not, Nat.not_lt]
  · intro x p hp hexp hnd
    rw [pendingFind_none]
    intro q hq
    simp only [List.mem_filter, Bool.not_eq_true', decide_eq_false_iff_not, Nat.not_lt] at hq
    intro hx
    -- the only entry with key x is (x, p), and it is filtered out
    have hmem := pendingFind_mem hp
    have : q = (x, p) := by
      have key : ∀ (m : Pending), (m.map (·.1)).Nodup → ∀ q q' : Addr × Connection, q ∈ m → q' ∈ m → q.1 = q'.1 → q = q' := by
        intro m
        induction m with
        | nil => intro _ q q' h; cases h
        | cons a rest ih =>
          intro hnd q q' hq hq' he
          simp only [List.map_cons, List.nodup_cons, List.mem_map, not_exists, not_and] at hnd
          simp only [List.mem_cons] at hq hq'
          rcases hq with rfl | hq <;> rcases hq' with rfl | hq'
          · rfl
          · exact absurd he.symm (hnd.1 q' hq')
          · exact absurd he (hnd.1 q hq)
          · exact ih hnd.2 q q' hq hq' he
      exact key _ hnd q (x, p) hq.1 hmem hx
    subst this
    simp only at hq
    omega

/-! ### which datagrams refresh the receive timer -/

/-- the datagram decodes, under this session's receive key and replay window, to a KeepAlive or a Payload -/
def Authentic (a : AEAD) (s : NetcodeServer) (c : Connection) (buf : Bytes) : Prop :=
  ∃ sq pk w', Packet.decode a buf s.protocolId (some c.receiveKey) (some c.replayProtection) = (.ok (sq, pk), some w') ∧
    (pk.packetType = .keepAlive ∨ pk.packetType = .payload)

/-- an `Authentic` datagram is one whose body the AEAD opened under the session's key (nonce = its sequence number,
    AAD = version ‖ protocol id ‖ prefix byte) **and** whose sequence number the replay window had not seen -/
theorem authentic_opens {a : AEAD} {s : NetcodeServer} {c : Connection} {buf : Bytes} (h : Authentic a s c buf) :
    ∃ pfx rest sq body plain, buf = pfx :: rest ∧
      Packet.readSequence rest (pfx.toNat / 16) = some (sq, body) ∧
      a.open c.receiveKey (Packet.nonce sq) (Packet.additionalData pfx s.protocolId) body = some plain ∧
      c.replayProtection.alreadyReceived sq = false := by
  obtain ⟨sq, pk, w', hdec, hk⟩ := h
  obtain ⟨pfx, rest, hb, hdd | hdd⟩ := decode_ok hdec
  · obtain ⟨_, _, _, _, _, hpk, _⟩ := hdd
    subst hpk
    rcases hk with hk | hk <;> simp [Packet.packetType] at hk
  · obtain ⟨ty, k, body, plain, hty, _, hkey, _, hrs, hwin, hopen, _, _⟩ := hdd
    cases hkey
    refine ⟨pfx, rest, sq, body, plain, hb, hrs, hopen, hwin _ rfl ?_⟩
    rw [← hty]
    rcases hk with hk | hk <;> rw [hk] <;> rfl

/-- **`refresh_only_authentic`**: `process_packet` changes the receive timer of a connected slot only when the datagram
    came from that session's address and is `Authentic` for it (then the timer becomes the current time).  Forged
    datagrams (the AEAD does not open), replayed ones (the window has the sequence number), type-0 junk (a
    connection request decodes without any key), challenge / response / denied kinds never move it. -/
theorem refresh_only_authentic {a : AEAD} {s s' : NetcodeServer} {addr : Addr} {buf : Bytes} {r : ServerResult}
    (hi : ServerInv s) (h : s.processPacket a addr buf = .ok (r, s')) {i : Nat} {c c' : Connection}
    (hc : At s.clients i c) (hc' : At s'.clients i c') :
    c'.lastPacketReceivedTime = c.lastPacketReceivedTime ∨
    (c.addr = addr ∧ Authentic a s c buf ∧ c'.lastPacketReceivedTime = s.currentTime ∧ ident c' = ident c) := by
  have ho := pp_ok hi h
  -- an update of slot `j` with a connection of unchanged receive timer
  have same : ∀ {j : Nat} {cj : Connection} {x : Connection}, At s.clients j cj →
      x.lastPacketReceivedTime = cj.lastPacketReceivedTime → At (s.clients.set j (some x)) i c' →
      c'.lastPacketReceivedTime = c.lastPacketReceivedTime := by
    intro j cj x hj hx hset
    rcases at_set_some hset with ⟨e, rfl⟩ | ⟨_, h'⟩
    · subst e; rw [hx, at_inj hc hj]
    · rw [at_inj hc h']
  cases ho with
  | short _ => left; rw [at_inj hc hc']
  | connErr j cj e w' hfa hdec => exact Or.inl (same (x := { cj with replayProtection := w' }) (findAddr_some hfa).1 rfl hc')
  | connDisconnect j cj sq w' hfa hdec =>
    left; rw [at_inj hc (at_set_none hc').1]
  | connPayload j cj sq p w' hfa hdec =>
    rcases at_set_some hc' with ⟨e, rfl⟩ | ⟨_, h'⟩
    · subst e
      have := at_inj hc (findAddr_some hfa).1; subst this
      exact Or.inr ⟨(findAddr_some hfa).2, ⟨sq, _, w', hdec, Or.inr rfl⟩, rfl, rfl⟩
    · left; rw [at_inj hc h']
  | connKeepAlive j cj sq ci mc w' hfa hdec =>
    rcases at_set_some hc' with ⟨e, rfl⟩ | ⟨_, h'⟩
    · subst e
      have := at_inj hc (findAddr_some hfa).1; subst this
      exact Or.inr ⟨(findAddr_some hfa).2, ⟨sq, _, w', hdec, Or.inl rfl⟩, rfl, rfl⟩
    · left; rw [at_inj hc h']
  | connOther j cj sq pk w' hfa hdec _ _ _ => exact Or.inl (same (x := { cj with replayProtection := w' }) (findAddr_some hfa).1 rfl hc')
  | pendErr p e w' hfa hpf hdec => left; rw [at_inj hc hc']
  | pendRequest p sq v pid expire xnonce data w' R _ _ hfa hpf hdec hout hres =>
    left
    have h1 := (hcr_clients hout hres).1
    rw [h1] at hc'
    rw [at_inj hc hc']
  | pendOther p sq pk w' hfa hpf hdec _ _ => left; rw [at_inj hc hc']
  | respRejected p sq ts td w' hfa hpf hdec _ => left; rw [at_inj hc hc']
  | respDropped p sq ts td w' hfa hpf hdec _ => left; rw [at_inj hc hc']
  | respFull p sq ts td w' out hfa hpf hdec _ _ _ _ => left; rw [at_inj hc hc']
  | respConnected p sq ts td w' j out hfa hpf hdec hct hid hff hen =>
    left
    rcases at_set_some hc' with ⟨e, rfl⟩ | ⟨_, h'⟩
    · subst e
      have := firstFree_some hff
      unfold At at hc; rw [this] at hc; simp at hc
    · rw [at_inj hc h']
  | newErr e hfa hpf hdec => left; rw [at_inj hc hc']
  | newRequest sq v pid expire xnonce data R _ _ hfa hpf hdec hout hres =>
    left
    have h1 := (hcr_clients hout hres).1
    rw [h1] at hc'
    rw [at_inj hc hc']

/-- conversely an `Authentic` datagram from a connected address does refresh that session's timer (and nothing else
    of its identity) -/
theorem authentic_refreshes {a : AEAD} {s : NetcodeServer} {addr : Addr} {buf : Bytes} (hi : ServerInv s)
    (hg : s.globalSequence < U64_MAX) (hcs : s.challengeSequence < U64_MAX) {i : Nat} {c : Connection}
    (hc : At s.clients i c) (had : c.addr = addr) (hau : Authentic a s c buf) :
    ∃ r s' c', s.processPacket a addr buf = .ok (r, s') ∧ At s'.clients i c' ∧
      c'.lastPacketReceivedTime = s.currentTime ∧ ident c' = ident c ∧ sessions s'.clients = sessions s.clients := by
  obtain ⟨r, s', h, ho⟩ := pp_spec a hi hg hcs addr buf
  have hfa : findClientByAddr s.clients addr = some (i, c) := hi.slots.findAddr_iff.mpr ⟨had, hc⟩
  obtain ⟨sq, pk, w', hdec, hk⟩ := hau
  have hlt := at_lt hc
  cases ho with
  | short hs =>
    exfalso
    rw [decode_eq, if_pos hs] at hdec; cases hdec
  | connErr j cj e w'' hfa' hdec' => rw [hfa] at hfa'; cases hfa'; rw [hdec] at hdec'; cases hdec'
  | connDisconnect j cj sq' w'' hfa' hdec' =>
    rw [hfa] at hfa'; cases hfa'; rw [hdec] at hdec'; cases hdec'
    rcases hk with hk | hk <;> simp [Packet.packetType] at hk
  | connPayload j cj sq' p w'' hfa' hdec' =>
    rw [hfa] at hfa'; cases hfa'
    exact ⟨_, _, _, h, at_set_self hlt, rfl, rfl, sessions_set_same hc rfl⟩
  | connKeepAlive j cj sq' ci mc w'' hfa' hdec' =>
    rw [hfa] at hfa'; cases hfa'
    exact ⟨_, _, _, h, at_set_self hlt, rfl, rfl, sessions_set_same hc rfl⟩
  | connOther j cj sq' pk' w'' hfa' hdec' h1 h2 h3 =>
    rw [hfa] at hfa'; cases hfa'; rw [hdec] at hdec'; cases hdec'
    rcases hk with hk | hk
    · exact absurd hk h3
    · exact absurd hk h2
  | pendErr p e w'' hfa' => rw [hfa] at hfa'; cases hfa'
  | pendRequest p sq' v pid expire xnonce data w'' R _ _ hfa' => rw [hfa] at hfa'; cases hfa'
  | pendOther p sq' pk' w'' hfa' => rw [hfa] at hfa'; cases hfa'
  | respRejected p sq' ts td w'' hfa' => rw [hfa] at hfa'; cases hfa'
  | respDropped p sq' ts td w'' hfa' => rw [hfa] at hfa'; cases hfa'
  | respFull p sq' ts td w'' out hfa' => rw [hfa] at hfa'; cases hfa'
  | respConnected p sq' ts td w'' j out hfa' => rw [hfa] at hfa'; cases hfa'
  | newErr e hfa' => rw [hfa] at hfa'; cases hfa'
  | newRequest sq' v pid expire xnonce data R _ _ hfa' => rw [hfa] at hfa'; cases hfa'

/-! ## Part 10 : client side -/

/-- the client's time-out test at time `now` -/
def CTimedOut (c : NetcodeClient) (now : Nat) : Prop :=
  c.connectToken.timeoutSeconds > 0 ∧
    c.lastPacketReceivedTime + fromSecs c.connectToken.timeoutSeconds.toNat < now

instance (c : NetcodeClient) (now : Nat) : Decidable (CTimedOut c now) := by unfold CTimedOut; infer_instance

/-- no `Duration` arithmetic of `update(d)` overflows / underflows -/
structure ClockOK (c : NetcodeClient) (d : Nat) : Prop where
  clock : c.currentTime + d ≤ DURATION_MAX
  start : c.connectStartTime ≤ c.currentTime + d
  recv : c.lastPacketReceivedTime + fromSecs c.connectToken.timeoutSeconds.toNat ≤ DURATION_MAX

theorem csub_ok {ε} {x y : Nat} (site : String) (h : y ≤ x) : (Res.csub x y site : Res ε Nat) = .ok (x - y) := by
  unfold Res.csub; rw [if_pos h]

/-- the time-out flag computed by `update_internal_state` -/
theorem client_timedOut_eq (c : NetcodeClient) (now : Nat) (hr : c.lastPacketReceivedTime +
    fromSecs c.connectToken.timeoutSeconds.toNat ≤ DURATION_MAX) :
    (if c.connectToken.timeoutSeconds > 0 then do
        let deadline ← (durAdd c.lastPacketReceivedTime (fromSecs c.connectToken.timeoutSeconds.toNat)
                         "client.rs update_internal_state: last_packet_received_time + timeout" : Res Empty Nat)
        pure (decide (deadline < now))
      else pure false : Res Empty Bool) = .ok (decide (CTimedOut c now)) := by
  unfold CTimedOut
  by_cases h : c.connectToken.timeoutSeconds > 0
  · rw [if_pos h, durAdd_ok _ hr]
    simp only [bind_ok', pure_eq', h, true_and]
  · rw [if_neg h]
    simp only [pure_eq', h, false_and, decide_false]

/-- **Connected client, server silent for more than the timeout**: the next `update` disconnects with reason
    `ConnectionTimedOut` (and sends nothing). -/
theorem client_timeout (a : AEAD) {c : NetcodeClient} {d : Nat} (hst : c.state = .connected) (hok : ClockOK c d)
    (hto : CTimedOut c (c.currentTime + d)) :
    c.update a d = .ok (none, { c with currentTime := c.currentTime + d, state := .disconnected .connectionTimedOut }) := by
  unfold NetcodeClient.update NetcodeClient.updateInternalState
  rw [durAdd_ok _ hok.clock]
  simp only [bind_ok']
  rw [client_timedOut_eq c (c.currentTime + d) hok.recv]
  simp only [bind_ok', hst, decide_eq_true hto, if_true, pure_eq']

/-- **Connected client, not timed out**: `update_internal_state` keeps it connected (only the clock moves). -/
theorem client_no_timeout {c : NetcodeClient} {d : Nat} (hst : c.state = .connected) (hok : ClockOK c d)
    (hto : ¬ CTimedOut c (c.currentTime + d)) :
    c.updateInternalState d = .ok (none, { c with currentTime := c.currentTime + d }) := by
  unfold NetcodeClient.updateInternalState
  rw [durAdd_ok _ hok.clock]
  simp only [bind_ok']
  rw [client_timedOut_eq c (c.currentTime + d) hok.recv]
  simp only [bind_ok', hst, decide_eq_false hto, Bool.false_eq_true, if_false, pure_eq']

/-- the two connecting states -/
def Connecting (c : NetcodeClient) : Prop :=
  c.state = .sendingConnectionRequest ∨ c.state = .sendingConnectionResponse

/-- seconds the connect token allows for the handshake -/
def tokenWindow (c : NetcodeClient) : Nat := c.connectToken.expireTimestamp - c.connectToken.createTimestamp

/-- `update_internal_state` of a connecting client, in terms of its three tests -/
theorem client_connecting_eq {c : NetcodeClient} {d : Nat} (hst : Connecting c) (hok : ClockOK c d) :
    c.updateInternalState d =
      (let c1 : NetcodeClient := { c with currentTime := c.currentTime + d }
       if asSecs (c.currentTime + d - c.connectStartTime) ≥ tokenWindow c then
         .ok (some .expired, { c1 with state := .disconnected .connectTokenExpired })
       else if CTimedOut c (c.currentTime + d) then
         let reason := if c.state = .sendingConnectionResponse then DisconnectReason.connectionResponseTimedOut
                       else DisconnectReason.connectionRequestTimedOut
         let c2 : NetcodeClient := { c1 with state := .disconnected reason, serverAddrIndex := c.serverAddrIndex + 1 }
         if c.serverAddrIndex + 1 ≥ C.NETCODE_TOKEN_MAX_ADDRESSES then .ok (some .noMoreServers, c2) else
         match c.connectToken.serverAddresses[c.serverAddrIndex + 1]? with
         | none => .panic "client.rs update_internal_state: server_addresses[index]"
         | some none => .ok (some .noMoreServers, c2)
         | some (some serverAddress) =>
           .ok (none, { c2 with state := .sendingConnectionRequest, serverAddr := serverAddress
                                connectStartTime := c.currentTime + d, lastPacketSendTime := none
                                lastPacketReceivedTime := c.currentTime + d, challengeTokenSequence := 0 })
       else .ok (none, c1)) := by
  unfold NetcodeClient.updateInternalState
  rw [durAdd_ok _ hok.clock]
  simp only [bind_ok']
  rw [client_timedOut_eq c (c.currentTime + d) hok.recv]
  simp only [bind_ok']
  rcases hst with hst | hst
  · simp only [hst, csub_ok _ hok.start, bind_ok', tokenWindow, pure_eq', decide_eq_true_eq, reduceCtorEq, if_false]
    split
    · rfl
    · split
      · split
        · rfl
        · rfl
      · rfl
  · simp only [hst, csub_ok _ hok.start, bind_ok', tokenWindow, pure_eq', decide_eq_true_eq, if_true]
    split
    · rfl
    · split
      · split
        · rfl
        · rfl
      · rfl

/-- **Failover**: a connecting client whose current server stayed silent for the timeout moves to the next listed
    server address and starts over there (fresh timers, state `SendingConnectionRequest`). -/
theorem failover {c : NetcodeClient} {d : Nat} {next : Addr} (hst : Connecting c) (hok : ClockOK c d)
    (hwin : asSecs (c.currentTime + d - c.connectStartTime) < tokenWindow c)
    (hto : CTimedOut c (c.currentTime + d))
    (hnext : c.connectToken.serverAddresses[c.serverAddrIndex + 1]? = some (some next))
    (hidx : c.serverAddrIndex + 1 < C.NETCODE_TOKEN_MAX_ADDRESSES) :
    ∃ c', c.updateInternalState d = .ok (none, c') ∧ c'.state = .sendingConnectionRequest ∧ c'.serverAddr = next ∧
      c'.serverAddrIndex = c.serverAddrIndex + 1 ∧ c'.connectStartTime = c.currentTime + d ∧
      c'.lastPacketReceivedTime = c.currentTime + d ∧ c'.lastPacketSendTime = none ∧
      c'.currentTime = c.currentTime + d ∧ c'.connectToken = c.connectToken ∧ c'.sequence = c.sequence := by
  rw [client_connecting_eq hst hok]
  simp only [if_neg (Nat.not_le.mpr hwin), if_pos hto, if_neg (Nat.not_le.mpr hidx), hnext]
  exact ⟨_, rfl, rfl, rfl, rfl, rfl, rfl, rfl, rfl, rfl, rfl⟩

/-- **No server left**: the connecting client ends `Disconnected(ConnectionRequestTimedOut)` resp.
    `Disconnected(ConnectionResponseTimedOut)`. -/
theorem client_connect_timeout {c : NetcodeClient} {d : Nat} (hst : Connecting c) (hok : ClockOK c d)
    (hwin : asSecs (c.currentTime + d - c.connectStartTime) < tokenWindow c)
    (hto : CTimedOut c (c.currentTime + d))
    (hlast : C.NETCODE_TOKEN_MAX_ADDRESSES ≤ c.serverAddrIndex + 1 ∨
      c.connectToken.serverAddresses[c.serverAddrIndex + 1]? = some none) :
    ∃ c', c.updateInternalState d = .ok (some .noMoreServers, c') ∧
      c'.state = .disconnected (if c.state = .sendingConnectionResponse then .connectionResponseTimedOut
                                else .connectionRequestTimedOut) := by
  rw [client_connecting_eq hst hok]
  simp only [if_neg (Nat.not_le.mpr hwin), if_pos hto]
  rcases hlast with h | h
  · rw [if_pos h]; exact ⟨_, rfl, rfl⟩
  · split
    · exact ⟨_, rfl, rfl⟩
    · rw [h]; exact ⟨_, rfl, rfl⟩

/-- the connect token's lifetime is over: `Disconnected(ConnectTokenExpired)` -/
theorem client_token_expired {c : NetcodeClient} {d : Nat} (hst : Connecting c) (hok : ClockOK c d)
    (hwin : tokenWindow c ≤ asSecs (c.currentTime + d - c.connectStartTime)) :
    c.updateInternalState d =
      .ok (some .expired, { c with currentTime := c.currentTime + d, state := .disconnected .connectTokenExpired }) := by
  rw [client_connecting_eq hst hok]
  simp only [if_pos hwin]

/-- a connecting client that is neither expired nor timed out just keeps going -/
theorem client_connecting_continues {c : NetcodeClient} {d : Nat} (hst : Connecting c) (hok : ClockOK c d)
    (hwin : asSecs (c.currentTime + d - c.connectStartTime) < tokenWindow c)
    (hto : ¬ CTimedOut c (c.currentTime + d)) :
    c.updateInternalState d = .ok (none, { c with currentTime := c.currentTime + d }) := by
  rw [client_connecting_eq hst hok]
  simp only [if_neg (Nat.not_le.mpr hwin), if_neg hto]

/-- an error of `update_internal_state` ends `update` without a packet -/
theorem client_update_of_error (a : AEAD) {c c' : NetcodeClient} {d : Nat} {e : NetcodeError}
    (h : c.updateInternalState d = .ok (some e, c')) : c.update a d = .ok (none, c') := by
  unfold NetcodeClient.update; rw [h]; rfl

/-- the client's receive timer moves only on a packet that decoded under the server-to-client key and window -/
theorem client_refresh_only_decoded {a : AEAD} {c c' : NetcodeClient} {buf : Bytes} {r : Option Bytes}
    (h : c.processPacket a buf = .ok (r, c')) (hne : c'.lastPacketReceivedTime ≠ c.lastPacketReceivedTime) :
    ∃ sq pk w', Packet.decode a buf c.connectToken.protocolId (some c.connectToken.serverToClientKey)
        (some c.replayProtection) = (.ok (sq, pk), w') ∧ c'.lastPacketReceivedTime = c.currentTime := by
  unfold NetcodeClient.processPacket at h
  cases hdec : Packet.decode a buf c.connectToken.protocolId (some c.connectToken.serverToClientKey)
      (some c.replayProtection) with
  | mk res rp =>
    rw [hdec] at h
    simp only at h
    cases res with
    | panic m => cases h
    | err e => simp only [Res.ok.injEq, Prod.mk.injEq] at h; rw [← h.2] at hne; exact absurd rfl hne
    | ok sp =>
      obtain ⟨sq, pk⟩ := sp
      refine ⟨sq, pk, rp, rfl, ?_⟩
      simp only at h
      split at h <;> simp only [Res.ok.injEq, Prod.mk.injEq] at h <;> rw [← h.2] at hne ⊢ <;>
        first | rfl | exact absurd rfl hne

end NS
end RenetVerif.Netcode
