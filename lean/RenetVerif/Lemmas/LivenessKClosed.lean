/-
  CLOSING THE PER-ROUND SIDE CONDITIONS of the k-round liveness bound — helper lemmas for Props/C01KC.lean.

  Lemmas/LivenessK.lean iterates full lossless rounds under per-round side conditions `Rounds cfg ch Sched s rs`.
  Here the side conditions that are facts about the CODE's state (counter ranges, B's pending-ack list non-empty and
  below the cap) are derived from SCHEDULE facts (`RoundsSched`) and HEAD-ROOM on the initial state (`HeadRoom`).

  Parts:
    1  B's pending-ack list after the forward leg of a lossless round: contains every sequence number of A's flush
       (hence non-empty when the flush is), grew by at most one range per datagram (`round_pending`)
    2  `Conn.CountersOK` = `StaticOK` + `flushSeq ≤ 2^62`.  `StaticOK` (message-id counters, memory limits) is
       invariant under `process_packet` (`packet_frame`: ack loop included) and `get_packets_to_send`
       (`flush_static`: channel loop, reliable and unreliable); `flushSeq_le`: a flush that emits something has
       `flushSeq ≤ packetSeq + |flush| + 1` — no counter hypothesis needed (this breaks the circle "no serialisation
       failure needs the counters in range")
    3  frames of the system operations other than `sendA` (`step_frame`, `run_frame`), the counters across one full
       round (`round_headroom`)
    4  `TickSched`, `RoundSched`, `RoundsSched`, `kTotal`, `HeadRoom`; `rounds_of_sched`:
       `RoundsSched … → HeadRoom … → Rounds …` by induction over the rounds, the head-room re-established for the
       next state
    5  executable checkers (`roundsSchedb`, `headRoomb`) for concrete examples
-/
import RenetVerif.Lemmas.LivenessK
namespace RenetVerif.LiveKC
open RenetVerif C RenetVerif.System RenetVerif.DataPath RenetVerif.Live RenetVerif.LiveK

/-! ## Part 1 — what the delivery leg of a lossless round does to B's pending-ack list -/

theorem mem_ne_nil {x : Nat} : ∀ {l : List AckRange}, Acks.Mem x l → l ≠ []
  | [], h => by simp [Acks.Mem] at h
  | _ :: _, _ => by simp

/-- handing datagrams to a B that stays live adds at most one range per datagram -/
theorem deliver_len (cfg : Cfg) (lo : Nat) : ∀ (ks : List Nat) (t t' : Sys) (pk : List Packet), Inv1 cfg t pk →
    (∀ seq tt largest, SMap.find? t.b.sent seq = some (tt, SentInfo.ack largest) → largest < lo) →
    t.b.pendingAcks.length + ks.length < ACK_RANGE_CAP → t.run (ks.map SysOp.deliverToB) = some t' →
    t'.b.isDisconnected = false → t'.b.pendingAcks.length ≤ t.b.pendingAcks.length + ks.length
  | [], t, t', _, _, _, _, h, _ => by
    simp only [List.map_nil, Sys.run, Option.some.injEq] at h; subst h
    exact Nat.le_add_right _ _
  | k :: ks, t, t', pk, h1, hb, hcap, h, hl => by
    simp only [List.map_cons, Sys.run] at h
    cases hs : t.step (.deliverToB k) with
    | none => rw [hs] at h; cases h
    | some t1 =>
      rw [hs] at h
      have h11 : Inv1 cfg t1 pk := inv1_step h1 hs
      have hl1 := deliver_live_back cfg ks t1 t' _ h11 h hl
      simp only [List.length_cons] at hcap ⊢
      obtain ⟨a1, a2, -, -⟩ := deliver_step_pending h1 hb (by omega) hs hl1
      have := deliver_len cfg lo ks t1 t' pk h11 a2 (by omega) h hl
      omega

/-- **B's pending-ack list after the forward leg of a lossless round** (B live at the end): it contains the sequence
    number of every packet of A's flush, and it has grown by at most one range per datagram handed over. -/
theorem round_pending (cfg : Cfg) (ops : List SysOp) (s : Sys) (hr : (Sys.init cfg).run ops = some s)
    (hc : CountersOK cfg s) (hcA : s.a.CountersOK) (hda : s.a.isDisconnected = false)
    (ch : Nat) (sA : SendRel) (hfA : SMap.find? s.a.sendRel ch = some sA)
    (ks : List Nat) (hks1 : ∀ k ∈ newIdx s, k ∈ ks) (n : Nat) (u : Sys) (hu : s.run (roundOps ch ks n) = some u)
    (hdb : u.b.isDisconnected = false)
    (hcap : s.b.pendingAcks.length + ks.length < ACK_RANGE_CAP) :
    (∀ p ∈ flushPk s.a, Acks.Mem p.sequence u.b.pendingAcks) ∧
    u.b.pendingAcks.length ≤ s.b.pendingAcks.length + ks.length := by
  obtain ⟨pkA, hA⟩ := allInv_reach cfg ops s hr hc
  have h1 := hA.i1
  have hL := invL_reach cfg ops s hr
  obtain ⟨a1, bs, e, hd1, hseq1, -, -⟩ :=
    flush_covers (pre := []) (post := sA.unacked) (reach_conn hA.i1.reachA).1 hcA hda hfA (order_mem hA.i1.reachA hfA) rfl
      (fun _ h => by cases h) (Nat.zero_le _)
  have hs1 : s.step .flushA = some { s with a := a1, outA := s.outA ++ bs } := by simp only [Sys.step, e]
  generalize hs1d : ({ s with a := a1, outA := s.outA ++ bs } : Sys) = s1 at hs1
  have f7 : s1.b = s.b := by rw [← hs1d]
  have hu' := hu
  simp only [roundOps, Sys.run, hs1] at hu'
  rw [Sys.run_append] at hu'
  cases ht : s1.run (ks.map SysOp.deliverToB) with
  | none => rw [ht] at hu'; cases hu'
  | some t =>
    rw [ht] at hu'
    simp only [Option.bind_some] at hu'
    obtain ⟨r1, r2⟩ := recv_run_b ch n t u hu'
    have hlt : t.b.isDisconnected = false := by rw [← r2]; exact hdb
    have h11 : Inv1 cfg s1 (pkA ++ flushPk s.a) := inv1_step h1 hs1
    have hl1 : s1.b.isDisconnected = false := deliver_live_back cfg ks s1 t _ h11 ht hlt
    have hbound : ∀ seq tt largest, SMap.find? s1.b.sent seq = some (tt, SentInfo.ack largest) → largest < s.a.packetSeq := by
      rw [f7]
      exact hL (by rw [← f7]; exact hl1)
    obtain ⟨-, hnew⟩ := deliver_pending cfg s.a.packetSeq ks s1 t _ h11 hbound (by rw [f7]; exact hcap) ht hlt
    have hlen := deliver_len cfg s.a.packetSeq ks s1 t _ h11 hbound (by rw [f7]; exact hcap) ht hlt
    refine ⟨?_, by rw [r1, ← f7]; exact hlen⟩
    intro p hp
    obtain ⟨i, hi⟩ := List.mem_iff_getElem?.mp hp
    have hil : i < (flushPk s.a).length := (List.getElem?_eq_some_iff.mp hi).1
    have hk : pkA.length + i ∈ ks := by
      apply hks1
      unfold newIdx
      rw [List.mem_range'_1, pk_len h1]; omega
    have hpk : (pkA ++ flushPk s.a)[pkA.length + i]? = some p := by
      rw [List.getElem?_append_right (by omega)]
      have : pkA.length + i - pkA.length = i := by omega
      rw [this]; exact hi
    have hlo : s.a.packetSeq ≤ p.sequence := ((flush_facts h1.invA.1 e).2.2.1 p hp).1
    have := hnew _ hk p hpk hlo
    rw [← r1] at this
    exact this

/-- the flush of a lossless round whose index list is non-empty emitted a packet -/
theorem flushPk_ne_of_ks {s : Sys} {ks : List Nat} (hne : ks ≠ []) (hks2 : ∀ k ∈ ks, k ∈ newIdx s) :
    ∃ p, p ∈ flushPk s.a := by
  cases ks with
  | nil => exact absurd rfl hne
  | cons k r =>
    have := hks2 k (List.mem_cons_self ..)
    unfold newIdx at this
    rw [List.mem_range'_1] at this
    cases hf : flushPk s.a with
    | nil => rw [hf] at this; simp only [List.length_nil] at this; omega
    | cons p _ => exact ⟨p, List.mem_cons_self ..⟩

/-! ## Part 2 — the counters a flush needs, split into a STATIC part and the packet sequence

  `Conn.CountersOK` = `StaticOK` (message-id counters and memory limits of the send channels: nothing in a round
  raises them — only `send_message` does) + `flushSeq ≤ 2^62`. -/

/-- the part of `Conn.CountersOK` that does not mention the packet sequence -/
structure StaticOK (c : Conn) : Prop where
  rel : ∀ ch s, SMap.find? c.sendRel ch = some s → s.nextId ≤ Varint.MAX + 1 ∧ s.maxMem ≤ Varint.MAX
  unrel : ∀ ch s, SMap.find? c.sendUnrel ch = some s →
    s.slicedId + s.queue.length ≤ Varint.MAX + 1 ∧ s.maxMem ≤ Varint.MAX

theorem countersOK_of_static {c : Conn} (h : StaticOK c) (hs : c.flushSeq ≤ Varint.MAX + 1) : c.CountersOK :=
  ⟨h.rel, h.unrel, hs⟩

theorem static_of_countersOK {c : Conn} (h : c.CountersOK) : StaticOK c := ⟨h.rel, h.unrel⟩

theorem static_congr {c c' : Conn} (h1 : c'.sendRel = c.sendRel) (h2 : c'.sendUnrel = c.sendUnrel) (h : StaticOK c) :
    StaticOK c' := ⟨by rw [h1]; exact h.rel, by rw [h2]; exact h.unrel⟩

/-- every reliable send channel after is one before with the same id counter and memory limit -/
def RelSame (sr sr' : SMap SendRel) : Prop :=
  ∀ ch s', SMap.find? sr' ch = some s' → ∃ s, SMap.find? sr ch = some s ∧ s'.nextId = s.nextId ∧ s'.maxMem = s.maxMem

theorem RelSame.refl (sr : SMap SendRel) : RelSame sr sr := fun _ s h => ⟨s, h, rfl, rfl⟩

theorem RelSame.trans {a b c : SMap SendRel} (h1 : RelSame a b) (h2 : RelSame b c) : RelSame a c := by
  intro ch s' hs'
  obtain ⟨s1, f1, e1, e2⟩ := h2 ch s' hs'
  obtain ⟨s0, f0, d1, d2⟩ := h1 ch s1 f1
  exact ⟨s0, f0, e1.trans d1, e2.trans d2⟩

theorem RelSame.insert {sr : SMap SendRel} {ch : Nat} {s s' : SendRel} (hf : SMap.find? sr ch = some s)
    (h1 : s'.nextId = s.nextId) (h2 : s'.maxMem = s.maxMem) : RelSame sr (SMap.insert sr ch s') := by
  intro k x hx
  rw [SMap.find?_insert] at hx
  split at hx
  · next e => subst e; cases hx; exact ⟨s, hf, h1, h2⟩
  · exact ⟨x, hx, rfl, rfl⟩

/-- every unreliable send channel after is one before, with at most as large a `slicedId + |queue|` -/
def UnrelLe (su su' : SMap SendUnrel) : Prop :=
  ∀ ch s', SMap.find? su' ch = some s' → ∃ s, SMap.find? su ch = some s ∧
    s'.slicedId + s'.queue.length ≤ s.slicedId + s.queue.length ∧ s'.maxMem = s.maxMem

theorem UnrelLe.refl (su : SMap SendUnrel) : UnrelLe su su := fun _ s h => ⟨s, h, Nat.le_refl _, rfl⟩

theorem UnrelLe.trans {a b c : SMap SendUnrel} (h1 : UnrelLe a b) (h2 : UnrelLe b c) : UnrelLe a c := by
  intro ch s' hs'
  obtain ⟨s1, f1, e1, e2⟩ := h2 ch s' hs'
  obtain ⟨s0, f0, d1, d2⟩ := h1 ch s1 f1
  exact ⟨s0, f0, Nat.le_trans e1 d1, e2.trans d2⟩

theorem static_of_same {c c' : Conn} (h1 : RelSame c.sendRel c'.sendRel) (h2 : UnrelLe c.sendUnrel c'.sendUnrel)
    (h : StaticOK c) : StaticOK c' := by
  refine ⟨?_, ?_⟩
  · intro ch s' hs'
    obtain ⟨s, f, e1, e2⟩ := h1 ch s' hs'
    have := h.rel ch s f
    rw [e1, e2]; exact this
  · intro ch s' hs'
    obtain ⟨s, f, e1, e2⟩ := h2 ch s' hs'
    have := h.unrel ch s f
    rw [e2]; exact ⟨by omega, this.2⟩

/-! ### ack processing -/

theorem processMessageAck_same {s s' : SendRel} {id : Nat} (h : s.processMessageAck id = .ok s') :
    s'.nextId = s.nextId ∧ s'.maxMem = s.maxMem := by
  unfold SendRel.processMessageAck at h
  split at h
  · cases h; exact ⟨rfl, rfl⟩
  · unfold Res.csub at h
    split at h
    · simp only [Res.bind_ok, Res.pure_eq, Res.ok.injEq] at h; subst h; exact ⟨rfl, rfl⟩
    · cases h
  · cases h

theorem processSliceAck_same {s s' : SendRel} {id idx : Nat} (h : s.processSliceAck id idx = .ok s') :
    s'.nextId = s.nextId ∧ s'.maxMem = s.maxMem := by
  unfold SendRel.processSliceAck at h
  split at h
  · cases h; exact ⟨rfl, rfl⟩
  · cases h
  · split at h
    · cases h
    · cases h; exact ⟨rfl, rfl⟩
    · dsimp only at h
      split at h
      · unfold Res.csub at h
        split at h
        · simp only [Res.bind_ok, Res.pure_eq, Res.ok.injEq] at h; subst h; exact ⟨rfl, rfl⟩
        · cases h
      · simp only [Res.pure_eq, Res.ok.injEq] at h; subst h; exact ⟨rfl, rfl⟩

theorem ackMsgLoop_same : ∀ (ids : List Nat) (s s' : SendRel), Conn.ackMsgLoop s ids = .ok s' →
    s'.nextId = s.nextId ∧ s'.maxMem = s.maxMem
  | [], s, s', h => by simp only [Conn.ackMsgLoop, Res.ok.injEq] at h; subst h; exact ⟨rfl, rfl⟩
  | id :: rest, s, s', h => by
    simp only [Conn.ackMsgLoop] at h
    cases h1 : s.processMessageAck id with
    | ok s1 =>
      rw [h1] at h
      simp only [Res.bind_ok] at h
      obtain ⟨a1, a2⟩ := processMessageAck_same h1
      obtain ⟨b1, b2⟩ := ackMsgLoop_same rest s1 s' h
      exact ⟨b1.trans a1, b2.trans a2⟩
    | err e => exact e.elim
    | panic m => rw [h1] at h; cases h

theorem ackOne_same {c c' : Conn} {seq : Nat} (h : Conn.ackOne c seq = .ok c') :
    RelSame c.sendRel c'.sendRel ∧ c'.sendUnrel = c.sendUnrel ∧ c'.packetSeq = c.packetSeq := by
  unfold Conn.ackOne at h
  split at h
  · cases h
  · next t info hf =>
    dsimp only at h
    split at h
    · next ch ids =>
      split at h
      · cases h
      · next s hs =>
        cases h1 : Conn.ackMsgLoop s ids with
        | ok s1 =>
          rw [h1] at h
          simp only [Res.bind_ok, Res.pure_eq, Res.ok.injEq] at h
          subst h
          obtain ⟨a1, a2⟩ := ackMsgLoop_same ids s s1 h1
          exact ⟨RelSame.insert hs a1 a2, rfl, rfl⟩
        | err e => exact e.elim
        | panic m => rw [h1] at h; cases h
    · next ch id idx =>
      split at h
      · cases h
      · next s hs =>
        cases h1 : s.processSliceAck id idx with
        | ok s1 =>
          rw [h1] at h
          simp only [Res.bind_ok, Res.pure_eq, Res.ok.injEq] at h
          subst h
          obtain ⟨a1, a2⟩ := processSliceAck_same h1
          exact ⟨RelSame.insert hs a1 a2, rfl, rfl⟩
        | err e => exact e.elim
        | panic m => rw [h1] at h; cases h
    · simp only [Res.ok.injEq] at h; subst h; exact ⟨RelSame.refl _, rfl, rfl⟩
    · simp only [Res.ok.injEq] at h; subst h; exact ⟨RelSame.refl _, rfl, rfl⟩

theorem ackLoop_same : ∀ (L : List Nat) (c c' : Conn), Conn.ackLoop c L = .ok c' →
    RelSame c.sendRel c'.sendRel ∧ c'.sendUnrel = c.sendUnrel ∧ c'.packetSeq = c.packetSeq
  | [], c, c', h => by simp only [Conn.ackLoop, Res.ok.injEq] at h; subst h; exact ⟨RelSame.refl _, rfl, rfl⟩
  | seq :: rest, c, c', h => by
    simp only [Conn.ackLoop] at h
    cases h1 : Conn.ackOne c seq with
    | ok c1 =>
      rw [h1] at h
      simp only [Res.bind_ok] at h
      obtain ⟨a1, a2, a3⟩ := ackOne_same h1
      obtain ⟨b1, b2, b3⟩ := ackLoop_same rest c1 c' h
      exact ⟨a1.trans b1, b2.trans a2, b3.trans a3⟩
    | err e => exact e.elim
    | panic m => rw [h1] at h; cases h

/-- `process_packet` raises no counter of the send side -/
theorem packet_frame {c c' : Conn} {bytes : Bytes} (h : c.processPacket bytes = .ok c') :
    (StaticOK c → StaticOK c') ∧ c'.packetSeq = c.packetSeq := by
  rcases SI.Conn.processPacket_cases h with ⟨hs1, -, -⟩ | ⟨p, -, -, hs1, -⟩ | ⟨aseq, ranges, L, -, -, -, hloop⟩
  · exact ⟨static_congr hs1.1 hs1.2.1, hs1.2.2.2.1⟩
  · exact ⟨static_congr hs1.1 hs1.2.1, hs1.2.2.2.1⟩
  · obtain ⟨a1, a2, a3⟩ := ackLoop_same L _ c' hloop
    exact ⟨static_of_same a1 (by rw [a2]; exact UnrelLe.refl _), a3⟩

/-! ### the flush -/

theorem UnrelLe.insert {su : SMap SendUnrel} {ch : Nat} {s s' : SendUnrel} (hf : SMap.find? su ch = some s)
    (h1 : s'.slicedId + s'.queue.length ≤ s.slicedId + s.queue.length) (h2 : s'.maxMem = s.maxMem) :
    UnrelLe su (SMap.insert su ch s') := by
  intro k x hx
  rw [SMap.find?_insert] at hx
  split at hx
  · next e => subst e; cases hx; exact ⟨s, hf, h1, h2⟩
  · exact ⟨x, hx, Nat.le_refl _, rfl⟩

theorem getPackets_rel_same (s : SendRel) (seq avail now : Nat) :
    (s.getPackets seq avail now).1.nextId = s.nextId ∧ (s.getPackets seq avail now).1.maxMem = s.maxMem := by
  unfold SendRel.getPackets
  split
  · exact ⟨rfl, rfl⟩
  · exact ⟨rfl, rfl⟩

theorem unrelLoop_slicedId (ch : Nat) : ∀ (q : List Bytes) (g : GPU), (unrelLoop ch q g).slicedId ≤ g.slicedId + q.length
  | [], g => by simp only [unrelLoop, List.length_nil]; omega
  | m :: rest, g => by
    simp only [unrelLoop, List.length_cons]
    split
    · have := unrelLoop_slicedId ch rest { g with mem := g.mem - m.length }
      dsimp only at this; omega
    · split
      · have := unrelLoop_slicedId ch rest
          { g with mem := g.mem - m.length, avail := g.avail - m.length,
                   packets := g.packets ++ unrelSlices ch g.slicedId m (divCeil m.length SLICE_SIZE) (List.range (divCeil m.length SLICE_SIZE)) g.seq,
                   seq := g.seq + divCeil m.length SLICE_SIZE, slicedId := g.slicedId + 1 }
        dsimp only at this ⊢; omega
      · split
        · refine Nat.le_trans (unrelLoop_slicedId ch rest _) ?_
          dsimp only; omega
        · refine Nat.le_trans (unrelLoop_slicedId ch rest _) ?_
          dsimp only; omega

theorem getPackets_unrel_le (s : SendUnrel) (seq avail : Nat) :
    (s.getPackets seq avail).1.slicedId + (s.getPackets seq avail).1.queue.length ≤ s.slicedId + s.queue.length ∧
    (s.getPackets seq avail).1.maxMem = s.maxMem := by
  rw [SendUnrel.getPackets_eq]
  dsimp only
  refine ⟨?_, rfl⟩
  have h1 := unrelLoop_slicedId s.ch s.queue ⟨[], [], 0, seq, avail, s.slicedId, s.mem⟩
  have h2 : ∀ g : GPU, (finishUnrel s.ch g).slicedId = g.slicedId := by
    intro g; unfold finishUnrel; split <;> rfl
  rw [h2]
  simp only [List.length_nil]
  dsimp only at h1
  omega

theorem chanLoop_static (now : Nat) : ∀ (ord : List (Bool × Nat)) (sr : SMap SendRel) (su : SMap SendUnrel)
    (pk : List Packet) (seq avail : Nat) (sr' : SMap SendRel) (su' : SMap SendUnrel) (pk' : List Packet)
    (seq' avail' : Nat),
    Conn.chanLoop now ord (sr, su, pk, seq, avail) = .ok (sr', su', pk', seq', avail') →
    RelSame sr sr' ∧ UnrelLe su su'
  | [], sr, su, pk, seq, avail, sr', su', pk', seq', avail', h => by
    simp only [Conn.chanLoop, Res.ok.injEq, Prod.mk.injEq] at h
    obtain ⟨rfl, rfl, -, -, -⟩ := h
    exact ⟨RelSame.refl _, UnrelLe.refl _⟩
  | (true, ch0) :: rest, sr, su, pk, seq, avail, sr', su', pk', seq', avail', h => by
    rw [chanLoop_rel_step] at h
    split at h
    · cases h
    · rename_i s hs
      obtain ⟨i1, i2⟩ := chanLoop_static now rest _ _ _ _ _ _ _ _ _ _ h
      obtain ⟨g1, g2⟩ := getPackets_rel_same s seq avail now
      exact ⟨(RelSame.insert hs g1 g2).trans i1, i2⟩
  | (false, ch0) :: rest, sr, su, pk, seq, avail, sr', su', pk', seq', avail', h => by
    rw [chanLoop_unrel_step] at h
    split at h
    · cases h
    · rename_i s hs
      obtain ⟨i1, i2⟩ := chanLoop_static now rest _ _ _ _ _ _ _ _ _ _ h
      obtain ⟨g1, g2⟩ := getPackets_unrel_le s seq avail
      exact ⟨i1, (UnrelLe.insert hs g1 g2).trans i2⟩

/-- `get_packets_to_send` raises no static counter of the send side -/
theorem flush_static {c c' : Conn} {out : List Bytes} (h : c.getPacketsToSend = .ok (c', out)) (hs : StaticOK c) :
    StaticOK c' := by
  cases hd : c.isDisconnected with
  | true =>
    unfold Conn.getPacketsToSend at h
    rw [hd] at h
    simp only [if_true, Res.ok.injEq, Prod.mk.injEq] at h
    obtain ⟨rfl, -⟩ := h
    exact hs
  | false =>
    obtain ⟨sr, su, pk, seq, avail, hl, e1, -, -, -, -, e2, -⟩ := CI.getPacketsToSend_shape hd h
    obtain ⟨a1, a2⟩ := chanLoop_static _ _ _ _ _ _ _ _ _ _ _ _ hl
    exact static_of_same (by rw [e2]; exact a1) (by rw [e1]; exact a2) hs

/-- the sequence number after a flush that emitted something, without any counter hypothesis:
    `flushSeq ≤ packetSeq + (number of packets of the flush) + 1` -/
theorem flushSeq_le {c : Conn} (hinv : c.SendInv) (hne : flushPk c ≠ []) :
    c.flushSeq ≤ c.packetSeq + (flushPk c).length + 1 := by
  unfold flushPk at hne ⊢
  unfold Conn.flushSeq
  split at hne
  · exact absurd rfl hne
  · rename_i hd
    rw [if_neg hd]
    cases hl : Conn.chanLoop c.now c.order (c.sendRel, c.sendUnrel, [], c.packetSeq, c.budget) with
    | ok r =>
      obtain ⟨sr, su, pk0, seq0, avail⟩ := r
      rw [hl] at hne
      dsimp only at hne ⊢
      obtain ⟨ps, hps, -, hseq, -, -⟩ := chanLoop_budget _ _ _ _ _ _ _ _ _ _ _ _ (relMapFit_of_inv hinv) hl
      simp only [List.nil_append] at hps
      subst hps
      split at hne
      · split <;> (try simp only [List.length_append, List.length_cons, List.length_nil]) <;> omega
      · exact absurd rfl hne
    | err e => exact e.elim
    | panic m => rw [hl] at hne; exact absurd rfl hne

/-! ## Part 3 — frames of the operations of a round, at system level -/

/-- what one operation other than `sendA` leaves alone -/
theorem step_frame {cfg : Cfg} {s s' : Sys} {pk : List Packet} {op : SysOp} (h1 : Inv1 cfg s pk)
    (hs : s.step op = some s') (hop : ∀ ch m, op ≠ .sendA ch m) :
    (StaticOK s.a → StaticOK s'.a) ∧ (StaticOK s.b → StaticOK s'.b) ∧
    s'.submitted = s.submitted ∧ s'.submittedU = s.submittedU ∧
    (op ≠ .flushA → s'.a.packetSeq = s.a.packetSeq) ∧ (op ≠ .flushB → s'.b.packetSeq = s.b.packetSeq) ∧
    ((∀ k, op ≠ .deliverToB k) → s'.b.pendingAcks = s.b.pendingAcks) := by
  cases op with
  | sendA ch m => exact absurd rfl (hop ch m)
  | recvB ch =>
    simp only [Sys.step] at hs
    split at hs
    · next b' m hm =>
      cases hs
      obtain ⟨hsame, hp⟩ := SI.Conn.receiveMessage_same hm
      exact ⟨id, static_congr hsame.1 hsame.2.1, rfl, rfl, fun _ => rfl, fun _ => hsame.2.2.2.1, fun _ => hp⟩
    · next b' hm =>
      cases hs
      obtain ⟨hsame, hp⟩ := SI.Conn.receiveMessage_same hm
      exact ⟨id, static_congr hsame.1 hsame.2.1, rfl, rfl, fun _ => rfl, fun _ => hsame.2.2.2.1, fun _ => hp⟩
    · cases hs
  | updA dt =>
    simp only [Sys.step] at hs
    split at hs
    · next a' hm =>
      cases hs
      obtain ⟨e1, e2, e3, -⟩ := SI.Conn.update_spec hm
      exact ⟨static_congr e1 e2, id, rfl, rfl, fun _ => e3, fun _ => rfl, fun _ => rfl⟩
    · cases hs
  | updB dt =>
    simp only [Sys.step] at hs
    split at hs
    · next b' hm =>
      cases hs
      obtain ⟨e1, e2, e3, -, e5, -⟩ := SI.Conn.update_spec hm
      exact ⟨id, static_congr e1 e2, rfl, rfl, fun _ => rfl, fun _ => e3, fun _ => e5⟩
    · cases hs
  | flushA =>
    simp only [Sys.step] at hs
    split at hs
    · next a' bs hm =>
      cases hs
      exact ⟨flush_static hm, id, rfl, rfl, fun h => absurd rfl h, fun _ => rfl, fun _ => rfl⟩
    · cases hs
  | flushB =>
    simp only [Sys.step] at hs
    split at hs
    · next b' bs hm =>
      cases hs
      exact ⟨id, flush_static hm, rfl, rfl, fun _ => rfl, fun h => absurd rfl h,
        fun _ => (flush_facts h1.invB.1 hm).2.2.2.2.2.1⟩
    · cases hs
  | deliverToB k =>
    simp only [Sys.step] at hs
    split at hs
    · cases hs
    · split at hs
      · next b' hm =>
        cases hs
        obtain ⟨f1, f2⟩ := packet_frame hm
        exact ⟨id, f1, rfl, rfl, fun _ => rfl, fun _ => f2, fun h => absurd rfl (h k)⟩
      · cases hs
  | deliverToA k =>
    simp only [Sys.step] at hs
    split at hs
    · cases hs
    · split at hs
      · next a' hm =>
        cases hs
        obtain ⟨f1, f2⟩ := packet_frame hm
        exact ⟨f1, id, rfl, rfl, fun _ => f2, fun _ => rfl, fun _ => rfl⟩
      · cases hs

/-- the same along a run without `sendA` -/
theorem run_frame (cfg : Cfg) : ∀ (ops : List SysOp) (s s' : Sys) (pk : List Packet), Inv1 cfg s pk →
    s.run ops = some s' → (∀ op ∈ ops, ∀ ch m, op ≠ .sendA ch m) →
    (StaticOK s.a → StaticOK s'.a) ∧ (StaticOK s.b → StaticOK s'.b) ∧
    s'.submitted = s.submitted ∧ s'.submittedU = s.submittedU ∧
    ((∀ op ∈ ops, op ≠ .flushA) → s'.a.packetSeq = s.a.packetSeq) ∧
    ((∀ op ∈ ops, op ≠ .flushB) → s'.b.packetSeq = s.b.packetSeq) ∧
    ((∀ op ∈ ops, ∀ k, op ≠ .deliverToB k) → s'.b.pendingAcks = s.b.pendingAcks)
  | [], s, s', _, _, h, _ => by
    simp only [Sys.run, Option.some.injEq] at h; subst h
    exact ⟨id, id, rfl, rfl, fun _ => rfl, fun _ => rfl, fun _ => rfl⟩
  | op :: ops, s, s', pk, h1, h, hno => by
    simp only [Sys.run] at h
    cases hs : s.step op with
    | none => rw [hs] at h; cases h
    | some s1 =>
      rw [hs] at h
      obtain ⟨a1, a2, a3, a4, a5, a6, a7⟩ := step_frame h1 hs (hno op (List.mem_cons_self ..))
      obtain ⟨b1, b2, b3, b4, b5, b6, b7⟩ := run_frame cfg ops s1 s' _ (inv1_step h1 hs) h
        (fun o ho => hno o (List.mem_cons_of_mem _ ho))
      refine ⟨fun x => b1 (a1 x), fun x => b2 (a2 x), b3.trans a3, b4.trans a4, ?_, ?_, ?_⟩
      · intro hn
        exact (b5 (fun o ho => hn o (List.mem_cons_of_mem _ ho))).trans (a5 (hn op (List.mem_cons_self ..)))
      · intro hn
        exact (b6 (fun o ho => hn o (List.mem_cons_of_mem _ ho))).trans (a6 (hn op (List.mem_cons_self ..)))
      · intro hn
        exact (b7 (fun o ho => hn o (List.mem_cons_of_mem _ ho))).trans (a7 (hn op (List.mem_cons_self ..)))

theorem flushA_seq {cfg : Cfg} {s s1 : Sys} {pk : List Packet} (h1 : Inv1 cfg s pk) (hcA : s.a.CountersOK)
    (hs : s.step .flushA = some s1) : s1.a.packetSeq ≤ s.a.flushSeq := by
  obtain ⟨c', bs, e, -, -, hle⟩ := Conn.getPacketsToSend_fits s.a (CI.flushInv_of (reach_conn h1.reachA).1 hcA) hcA.seq
  simp only [Sys.step, e] at hs
  cases hs
  exact hle

theorem flushB_seq {cfg : Cfg} {s s1 : Sys} {pk : List Packet} (h1 : Inv1 cfg s pk) (hcB : s.b.CountersOK)
    (hs : s.step .flushB = some s1) : s1.b.packetSeq ≤ s.b.flushSeq := by
  obtain ⟨c', bs, e, -, -, hle⟩ := Conn.getPacketsToSend_fits s.b (CI.flushInv_of (reach_conn h1.reachB).1 hcB) hcB.seq
  simp only [Sys.step, e] at hs
  cases hs
  exact hle

theorem roundOps_nosend (ch : Nat) (ks : List Nat) (n : Nat) :
    (∀ op ∈ roundOps ch ks n, ∀ c m, op ≠ .sendA c m) ∧ (∀ op ∈ roundOps ch ks n, op ≠ .flushB) ∧
    ∀ op ∈ (ks.map SysOp.deliverToB ++ List.replicate n (SysOp.recvB ch)), op ≠ .flushA := by
  refine ⟨?_, ?_, ?_⟩
  · intro op hop c m e
    subst e
    simp [roundOps] at hop
  · intro op hop e
    subst e
    simp [roundOps] at hop
  · intro op hop e
    subst e
    simp at hop

/-- **the counters across one full round** `s —updA→ su —roundOps→ u —flushB ; deliverToA→ v` -/
theorem round_headroom (cfg : Cfg) (ops : List SysOp) (s : Sys) (hr : (Sys.init cfg).run ops = some s)
    (dt : Nat) (su : Sys) (hsu : s.step (.updA dt) = some su) (ch : Nat) (ks : List Nat) (n : Nat) (u : Sys)
    (hu : su.run (roundOps ch ks n) = some u) :
    u.b.packetSeq = s.b.packetSeq ∧ (StaticOK s.a → StaticOK su.a) ∧ (StaticOK s.b → StaticOK u.b) ∧
    ∀ (ai : Nat) (v : Sys), u.run [.flushB, .deliverToA ai] = some v → su.a.CountersOK → u.b.CountersOK →
      v.a.packetSeq ≤ su.a.flushSeq ∧ v.b.packetSeq ≤ u.b.flushSeq ∧ v.b.pendingAcks = u.b.pendingAcks ∧
      (StaticOK s.a → StaticOK v.a) ∧ (StaticOK s.b → StaticOK v.b) ∧
      v.submitted = s.submitted ∧ v.submittedU = s.submittedU := by
  obtain ⟨pk, h1, -⟩ := system_inv cfg ops s hr
  have hrsu := run_snoc hr hsu
  obtain ⟨pku, h1u, -⟩ := system_inv cfg _ su hrsu
  have hru : (Sys.init cfg).run ((ops ++ [SysOp.updA dt]) ++ roundOps ch ks n) = some u := by
    rw [Sys.run_append, hrsu]; exact hu
  obtain ⟨pkU, h1U, -⟩ := system_inv cfg _ u hru
  obtain ⟨a1, a2, a3, a4, a5, a6, a7⟩ := step_frame h1 hsu (by intro c m e; cases e)
  obtain ⟨n1, n2, n3⟩ := roundOps_nosend ch ks n
  obtain ⟨b1, b2, b3, b4, -, b6, -⟩ := run_frame cfg _ su u _ h1u hu n1
  have hbseq : u.b.packetSeq = s.b.packetSeq := (b6 n2).trans (a6 (by intro e; cases e))
  refine ⟨hbseq, a1, fun x => b2 (a2 x), ?_⟩
  intro ai v hv hcA hcB
  -- A's sequence number: raised by the flush only
  have hu' := hu
  simp only [roundOps, Sys.run] at hu'
  cases hs1 : su.step .flushA with
  | none => rw [hs1] at hu'; cases hu'
  | some s1 =>
    rw [hs1] at hu'
    dsimp only at hu'
    have hle1 := flushA_seq h1u hcA hs1
    obtain ⟨-, -, -, -, c5, -, -⟩ := run_frame cfg _ s1 u _ (inv1_step h1u hs1) hu' (by
      intro op hop c m e
      subst e
      simp at hop)
    have hua : u.a.packetSeq = s1.a.packetSeq := c5 n3
    -- the way back
    simp only [Sys.run] at hv
    cases hs2 : u.step .flushB with
    | none => rw [hs2] at hv; cases hv
    | some w =>
      rw [hs2] at hv
      dsimp only at hv
      have hle2 := flushB_seq h1U hcB hs2
      obtain ⟨d1, d2, d3, d4, d5, -, d7⟩ := step_frame h1U hs2 (by intro c m e; cases e)
      cases hs3 : w.step (.deliverToA ai) with
      | none => rw [hs3] at hv; cases hv
      | some v' =>
        rw [hs3] at hv
        dsimp only at hv
        cases hv
        obtain ⟨e1, e2, e3, e4, e5, e6, e7⟩ := step_frame (inv1_step h1U hs2) hs3 (by intro c m e; cases e)
        have x5 := e5 (by intro e; cases e)
        have y5 := d5 (by intro e; cases e)
        have x6 := e6 (by intro e; cases e)
        have x7 := e7 (by intro k e; cases e)
        have y7 := d7 (by intro k e; cases e)
        refine ⟨by omega, by omega, x7.trans y7, fun x => e1 (d1 (b1 (a1 x))), fun x => e2 (d2 (b2 (a2 x))),
          ?_, ?_⟩
        · rw [e3, d3, b3, a3]
        · rw [e4, d4, b4, a4]

/-! ## Part 4 — schedule facts + head-room on the initial state ⟹ `Rounds` -/

/-- what the environment does in one round, seen from the state `su` A's flush starts from: SCHEDULE FACTS only -/
structure TickSched (ch : Nat) (Sched : Sys → Prop) (su : Sys) (r : RoundP) : Prop where
  /-- the scheduling hypothesis of the theorem at hand (H2 / H4) -/
  sched : Sched su
  /-- lossless: every datagram of this flush is handed to B … -/
  all : ∀ k ∈ newIdx su, k ∈ r.ks
  /-- … and nothing else -/
  exact : ∀ k ∈ r.ks, k ∈ newIdx su
  /-- the round hands B at least one datagram (with `exact`: A's flush emitted something) -/
  nonempty : r.ks ≠ []
  /-- the way back: B's flush is ONE datagram (B's application has no traffic of its own — the mirror image of H4;
      the system model has no `sendB`), and it is the one handed to A -/
  back : ∀ u, su.run (roundOps ch r.ks r.n) = some u → r.ai = ackIdx u ∧ (flushPk u.b).length = 1

structure RoundSched (ch : Nat) (Sched : Sys → Prop) (s : Sys) (r : RoundP) : Prop where
  /-- the clock advances by at least the resend time of the channel -/
  timer : ∀ sA, SMap.find? s.a.sendRel ch = some sA → sA.resend ≤ r.dt
  /-- B's application asks often enough -/
  drain : (s.submitted ch).length ≤ (s.obtained ch).length + r.n
  tick : ∀ su, s.step (.updA r.dt) = some su → TickSched ch Sched su r

/-- the schedule facts hold for every round of `rs`, each in the state the previous rounds lead to -/
def RoundsSched (ch : Nat) (Sched : Sys → Prop) : Sys → List RoundP → Prop
  | _, [] => True
  | s, r :: rs => RoundSched ch Sched s r ∧ ∀ v, s.run (r.ops ch) = some v → RoundsSched ch Sched v rs

/-- number of datagrams the schedule hands to B over the rounds `rs` (repetitions counted) -/
def kTotal : List RoundP → Nat
  | [] => 0
  | r :: rs => r.ks.length + kTotal rs

/-- **HEAD-ROOM on the state the first round starts from** (with the schedule's datagram count `kTotal rs`):
    the system counters are in range, the static counters of both endpoints are in range, A's packet sequence can
    grow by one per datagram handed over plus one per round, B's by two per round, and B's pending-ack list has room
    for one more range per datagram handed over. -/
structure HeadRoom (cfg : Cfg) (s : Sys) (rs : List RoundP) : Prop where
  sys : CountersOK cfg s
  staticA : StaticOK s.a
  staticB : StaticOK s.b
  seqA : s.a.packetSeq + kTotal rs + rs.length ≤ Varint.MAX + 1
  seqB : s.b.packetSeq + 2 * rs.length ≤ Varint.MAX + 1
  acks : s.b.pendingAcks.length + kTotal rs < ACK_RANGE_CAP

theorem newIdx_length_le {su : Sys} {ks : List Nat} (hall : ∀ k ∈ newIdx su, k ∈ ks) :
    (flushPk su.a).length ≤ ks.length := by
  have := nodup_subset_length ks (newIdx su) (by unfold newIdx; exact List.nodup_range') hall
  unfold newIdx at this
  rw [List.length_range'] at this
  exact this

/-- **Closing the side conditions**: the schedule facts and the head-room on the initial state give the per-round
    side conditions `Rounds` of Props/C01K.lean.  `hS`: the scheduling hypothesis yields H4. -/
theorem rounds_of_sched (cfg : Cfg) (ch : Nat) (ord : Bool) (ho : KindOf cfg ch ord) (Sched : Sys → Prop)
    (hS : ∀ ops' su, (Sys.init cfg).run ops' = some su → Sched su → ∀ p ∈ flushPk su.a, OnlyCh ch p) :
    ∀ (rs : List RoundP) (ops : List SysOp) (s : Sys) (sA : SendRel) (rB : RecvRel),
      (Sys.init cfg).run ops = some s → s.a.isDisconnected = false → s.b.isDisconnected = false →
      SMap.find? s.a.sendRel ch = some sA → SMap.find? s.b.recvRel ch = some rB → Room (s.submitted ch) rB →
      RoundsSched ch Sched s rs → HeadRoom cfg s rs → Rounds cfg ch Sched s rs
  | [], _, _, _, _, _, _, _, _, _, _, _, _ => trivial
  | r :: rs, ops, s, sA, rB, hr, hda, hdb, hfA, hfB, H3, hRS, hH => by
    obtain ⟨hsch, hnext⟩ := hRS
    obtain ⟨pk, h1, -⟩ := system_inv cfg ops s hr
    obtain ⟨su, hsu⟩ := updA_step h1 r.dt
    have tk := hsch.tick su hsu
    obtain ⟨-, e2, e3, e4, e5, e6, e7, -, -⟩ := updA_frame hsu
    have hrsu := run_snoc hr hsu
    obtain ⟨pku, h1u, -⟩ := system_inv cfg _ su hrsu
    have hkT : kTotal (r :: rs) = r.ks.length + kTotal rs := rfl
    have hseqA := hH.seqA
    have hseqB := hH.seqB
    have hacks := hH.acks
    rw [hkT] at hseqA hacks
    simp only [List.length_cons] at hseqA hseqB
    -- A's flush
    obtain ⟨p0, hp0⟩ := flushPk_ne_of_ks tk.nonempty tk.exact
    have hlen := newIdx_length_le tk.all
    have hfs := flushSeq_le h1u.invA.1 (List.ne_nil_of_mem hp0)
    have hcA : su.a.CountersOK :=
      countersOK_of_static ((step_frame h1 hsu (by intro c m e; cases e)).1 hH.staticA) (by omega)
    have hc : CountersOK cfg su := countersOK_congr e4 e6 e7 hH.sys
    have hcap : su.b.pendingAcks.length + r.ks.length < ACK_RANGE_CAP := by rw [e5]; omega
    have H4 := hS _ su hrsu tk.sched
    have hdau : su.a.isDisconnected = false := by rw [e3]; exact hda
    have hfu : SMap.find? su.a.sendRel ch = some sA := by rw [e2]; exact hfA
    -- the way back
    have hback : ∀ u, su.run (roundOps ch r.ks r.n) = some u →
        u.b.CountersOK ∧ u.b.pendingAcks ≠ [] ∧ r.ai = ackIdx u ∧ u.b.flushSeq ≤ s.b.packetSeq + 2 ∧
        u.b.pendingAcks.length ≤ s.b.pendingAcks.length + r.ks.length := by
      intro u hu
      obtain ⟨hlu, -, -, -⟩ := round_facts cfg _ su hrsu hc hcA hdau (by rw [e5]; exact hdb) ch sA hfu rB
        (by rw [e5]; exact hfB) (by rw [e6]; exact H3) H4 r.ks tk.exact r.n u hu
      obtain ⟨hmem, hlenu⟩ := round_pending cfg _ su hrsu hc hcA hdau ch sA hfu r.ks tk.all r.n u hu hlu hcap
      obtain ⟨hbs, -, hstB, -⟩ := round_headroom cfg ops s hr r.dt su hsu ch r.ks r.n u hu
      obtain ⟨hai, hone⟩ := tk.back u hu
      have hru : (Sys.init cfg).run ((ops ++ [SysOp.updA r.dt]) ++ roundOps ch r.ks r.n) = some u := by
        rw [Sys.run_append, hrsu]; exact hu
      obtain ⟨pkU, h1U, -⟩ := system_inv cfg _ u hru
      have hfsB := flushSeq_le h1U.invB.1 (by intro e; rw [e] at hone; cases hone)
      rw [e5] at hlenu
      exact ⟨countersOK_of_static (hstB hH.staticB) (by omega), mem_ne_nil (hmem p0 hp0), hai, by omega, hlenu⟩
    have hok : RoundOK cfg ch Sched s r := by
      refine ⟨hsch.timer, hsch.drain, ?_⟩
      intro su' hsu'
      have e := Option.some.inj (hsu'.symm.trans hsu)
      subst e
      exact ⟨hc, hcA, tk.sched, tk.all, tk.exact, hcap, fun u hu => ⟨(hback u hu).1, (hback u hu).2.1, (hback u hu).2.2.1⟩⟩
    refine ⟨hok, ?_⟩
    intro v hv
    -- the state after the round
    obtain ⟨v', hv', hlva, hlvb, hsub, -, -, ⟨rB', hfB', H3'⟩, ⟨sA', hfA', -⟩, -⟩ :=
      full_round cfg ops s hr hda hdb ch ord ho sA hfA rB hfB H3 r.dt (hsch.timer sA hfA) su hsu hc hcA 0
        (by simp only [List.take_zero, backlog_nil]; exact Nat.zero_le _) H4 r.ks tk.all tk.exact r.n hsch.drain hcap r.ai
        (fun u hu => ⟨(hback u hu).1, (hback u hu).2.1, (hback u hu).2.2.1⟩)
    have e := Option.some.inj (hv'.symm.trans hv)
    subst e
    have hrv : (Sys.init cfg).run (ops ++ r.ops ch) = some v' := by rw [Sys.run_append, hr]; exact hv
    refine rounds_of_sched cfg ch ord ho Sched hS rs _ v' sA' rB' hrv hlva hlvb hfA' hfB' (by rw [hsub]; exact H3')
      (hnext v' hv) ?_
    -- head-room for the next round
    have hv2 := hv
    simp only [RoundP.ops, fullRoundOps, Sys.run, hsu] at hv2
    rw [Sys.run_append] at hv2
    cases hu : su.run (roundOps ch r.ks r.n) with
    | none => rw [hu] at hv2; cases hv2
    | some u =>
      rw [hu] at hv2
      simp only [Option.bind_some] at hv2
      obtain ⟨hcB, -, -, hfB2, hlenu⟩ := hback u hu
      obtain ⟨-, -, -, hrest⟩ := round_headroom cfg ops s hr r.dt su hsu ch r.ks r.n u hu
      obtain ⟨x1, x2, x3, x4, x5, x6, x7⟩ := hrest r.ai v' hv2 hcA hcB
      have hva : v'.a.packetSeq ≤ Varint.MAX + 1 := by omega
      exact ⟨⟨hH.sys.chan, hva, by rw [x6]; exact hH.sys.ids, by rw [x6]; exact hH.sys.lens,
          by rw [x7]; exact hH.sys.lensU⟩, x4 hH.staticA, x5 hH.staticB, by omega, by omega, by rw [x3]; omega⟩

/-! ## Part 5 — executable checkers (used for the concrete example) -/

def staticb (c : Conn) : Bool :=
  c.sendRel.all (fun x => decide (x.2.nextId ≤ Varint.MAX + 1) && decide (x.2.maxMem ≤ Varint.MAX)) &&
  c.sendUnrel.all (fun x => decide (x.2.slicedId + x.2.queue.length ≤ Varint.MAX + 1) &&
    decide (x.2.maxMem ≤ Varint.MAX))

theorem static_of_b {c : Conn} (h : staticb c = true) : StaticOK c := by
  simp only [staticb, Bool.and_eq_true, List.all_eq_true, decide_eq_true_eq] at h
  obtain ⟨h1, h2⟩ := h
  exact ⟨fun ch s hf => h1 _ (SMap.mem_of_find? hf), fun ch s hf => h2 _ (SMap.mem_of_find? hf)⟩

def headRoomb (cfg : Cfg) (s : Sys) (rs : List RoundP) : Bool :=
  countersSysb cfg s && staticb s.a && staticb s.b &&
  decide (s.a.packetSeq + kTotal rs + rs.length ≤ Varint.MAX + 1) &&
  decide (s.b.packetSeq + 2 * rs.length ≤ Varint.MAX + 1) &&
  decide (s.b.pendingAcks.length + kTotal rs < ACK_RANGE_CAP)

theorem headRoom_of_b {cfg : Cfg} {s : Sys} {rs : List RoundP} (h : headRoomb cfg s rs = true) : HeadRoom cfg s rs := by
  simp only [headRoomb, Bool.and_eq_true, decide_eq_true_eq] at h
  obtain ⟨⟨⟨⟨⟨h1, h2⟩, h3⟩, h4⟩, h5⟩, h6⟩ := h
  exact ⟨countersSys_of_b h1, static_of_b h2, static_of_b h3, h4, h5, h6⟩

def tickSchedb (ch : Nat) (schedb : Sys → Bool) (su : Sys) (r : RoundP) : Bool :=
  schedb su && decide (∀ k ∈ newIdx su, k ∈ r.ks) && decide (∀ k ∈ r.ks, k ∈ newIdx su) && !r.ks.isEmpty &&
  (match su.run (roundOps ch r.ks r.n) with
   | some u => decide (r.ai = ackIdx u) && decide ((flushPk u.b).length = 1)
   | none => true)

def roundSchedb (ch : Nat) (schedb : Sys → Bool) (s : Sys) (r : RoundP) : Bool :=
  (match SMap.find? s.a.sendRel ch with
   | some sA => decide (sA.resend ≤ r.dt)
   | none => true) &&
  decide ((s.submitted ch).length ≤ (s.obtained ch).length + r.n) &&
  (match s.step (.updA r.dt) with
   | some su => tickSchedb ch schedb su r
   | none => true)

def roundsSchedb (ch : Nat) (schedb : Sys → Bool) : Sys → List RoundP → Bool
  | _, [] => true
  | s, r :: rs => roundSchedb ch schedb s r &&
    (match s.run (r.ops ch) with
     | some v => roundsSchedb ch schedb v rs
     | none => true)

theorem tickSched_of_b {ch : Nat} {Sched : Sys → Prop} {schedb : Sys → Bool}
    (hS : ∀ su, schedb su = true → Sched su) {su : Sys} {r : RoundP} (h : tickSchedb ch schedb su r = true) :
    TickSched ch Sched su r := by
  simp only [tickSchedb, Bool.and_eq_true, decide_eq_true_eq, Bool.not_eq_true', List.isEmpty_eq_false_iff] at h
  obtain ⟨⟨⟨⟨h1, h2⟩, h3⟩, h4⟩, h5⟩ := h
  refine ⟨hS su h1, h2, h3, h4, ?_⟩
  intro u hu
  rw [hu] at h5
  simpa using h5

theorem roundSched_of_b {ch : Nat} {Sched : Sys → Prop} {schedb : Sys → Bool}
    (hS : ∀ su, schedb su = true → Sched su) {s : Sys} {r : RoundP} (h : roundSchedb ch schedb s r = true) :
    RoundSched ch Sched s r := by
  simp only [roundSchedb, Bool.and_eq_true, decide_eq_true_eq] at h
  obtain ⟨⟨h1, h2⟩, h3⟩ := h
  refine ⟨?_, h2, ?_⟩
  · intro sA hf
    rw [hf] at h1
    simpa using h1
  · intro su hsu
    rw [hsu] at h3
    exact tickSched_of_b hS h3

/-- soundness of the checker: `roundsSchedb … = true` (by `decide +kernel` on a concrete state) gives `RoundsSched` -/
theorem roundsSched_of_b {ch : Nat} {Sched : Sys → Prop} {schedb : Sys → Bool}
    (hS : ∀ su, schedb su = true → Sched su) : ∀ (rs : List RoundP) (s : Sys), roundsSchedb ch schedb s rs = true →
    RoundsSched ch Sched s rs
  | [], _, _ => trivial
  | r :: rs, s, h => by
    simp only [roundsSchedb, Bool.and_eq_true] at h
    refine ⟨roundSched_of_b hS h.1, ?_⟩
    intro v hv
    have h2 := h.2
    rw [hv] at h2
    exact roundsSched_of_b hS rs v h2

end RenetVerif.LiveKC
