import RenetVerif.Renet.Acks
import RenetVerif.Lemmas.PacketRT
namespace RenetVerif
namespace Acks

abbrev R := AckRange

/-- denotation: the set of sequence numbers covered by a range list -/
def Mem (x : Nat) : List R → Prop
  | [] => False
  | r :: l => (r.1 ≤ x ∧ x < r.2) ∨ Mem x l

/-- sorted ascending, non-empty ranges, non-adjacent: e_i < s_{i+1} -/
def WF : List R → Prop
  | [] => True
  | [r] => r.1 < r.2
  | r :: r2 :: rest => r.1 < r.2 ∧ r.2 < r2.1 ∧ WF (r2 :: rest)

@[simp] theorem mem_nil {x : Nat} : Mem x [] ↔ False := Iff.rfl
@[simp] theorem mem_cons {x : Nat} {r : R} {l : List R} : Mem x (r :: l) ↔ (r.1 ≤ x ∧ x < r.2) ∨ Mem x l := Iff.rfl

theorem mem_append {x : Nat} {a b : List R} : Mem x (a ++ b) ↔ Mem x a ∨ Mem x b := by
  induction a with
  | nil => simp
  | cons r a ih => simp only [List.cons_append, mem_cons, ih]; grind

theorem wf_cons_iff {r : R} {l : List R} : WF (r :: l) ↔ r.1 < r.2 ∧ WF l ∧ (∀ r2, l.head? = some r2 → r.2 < r2.1) := by
  cases l with
  | nil => simp [WF]
  | cons r2 rest =>
    show r.1 < r.2 ∧ r.2 < r2.1 ∧ WF (r2 :: rest) ↔ _
    constructor
    · intro h
      refine ⟨h.1, h.2.2, ?_⟩
      intro r' hr
      simp only [List.head?_cons, Option.some.injEq] at hr
      subst hr; exact h.2.1
    · intro h; exact ⟨h.1, h.2.2 r2 rfl, h.2.1⟩

theorem wf_tail {r : R} {l : List R} (h : WF (r :: l)) : WF l := (wf_cons_iff.mp h).2.1

theorem addAux_spec (seq : Nat) : ∀ (l : List R) (l' : List R), WF l → addAux seq l = some l' →
    WF l' ∧ (∀ x, Mem x l' ↔ (Mem x l ∨ x = seq)) ∧
    (∀ r, l.head? = some r → ∃ r', l'.head? = some r' ∧ (r'.1 = r.1 ∨ r'.1 = seq) ∧ (r'.1 ≤ r.1)) ∧
    l'.length ≤ l.length + 1
  | [], l', _, h => by simp [addAux] at h
  | (s, e) :: rest, l', hwf, h => by
    have ih := addAux_spec seq rest
    simp only [addAux] at h
    split at h
    · cases h
      refine ⟨hwf, ?_, ?_, ?_⟩
      · intro x; simp only [mem_cons]; grind
      · grind
      · simp
    · split at h
      · cases h
        rw [wf_cons_iff] at hwf ⊢
        refine ⟨?_, ?_, ?_, ?_⟩
        · grind
        · intro x; simp only [mem_cons]; grind
        · grind
        · simp
      · split at h
        · split at h
          · split at h
            · cases h
              rename_i s2 e2 rest2 _ _
              simp only [wf_cons_iff] at hwf ⊢
              refine ⟨?_, ?_, ?_, ?_⟩
              · grind
              · intro x; simp only [mem_cons]; grind
              · grind
              · simp
            · cases h
              simp only [wf_cons_iff] at hwf ⊢
              refine ⟨?_, ?_, ?_, ?_⟩
              · grind
              · intro x; simp only [mem_cons]; grind
              · grind
              · simp
          · cases h
            simp only [wf_cons_iff] at hwf ⊢
            refine ⟨?_, ?_, ?_, ?_⟩
            · grind
            · intro x; simp only [mem_cons, mem_nil]; grind
            · grind
            · simp
        · split at h
          · cases h
            simp only [wf_cons_iff] at hwf ⊢
            refine ⟨?_, ?_, ?_, ?_⟩
            · grind
            · intro x; simp only [mem_cons]; grind
            · grind
            · simp
          · cases hr : addAux seq rest with
            | none => simp [hr] at h
            | some l'' =>
              simp [hr] at h; cases h
              simp only [wf_cons_iff] at hwf
              obtain ⟨h1, h2, h3, h4⟩ := ih l'' hwf.2.1 hr
              simp only [wf_cons_iff]
              refine ⟨?_, ?_, ?_, ?_⟩
              · refine ⟨hwf.1, h1, ?_⟩
                intro r2 hr2
                cases rest with
                | nil => simp [addAux] at hr
                | cons r0 rest0 =>
                  obtain ⟨r', hr', hh, _⟩ := h3 r0 rfl
                  have := hwf.2.2 r0 rfl
                  grind
              · intro x; simp only [mem_cons]; grind
              · grind
              · simp; omega

/-- when the loop falls through, every range lies strictly (and non-adjacently) below `seq` -/
theorem addAux_none (seq : Nat) : ∀ (l : List R), WF l → addAux seq l = none → ∀ r ∈ l, r.2 < seq
  | [], _, _ => by simp
  | (s, e) :: rest, hwf, h => by
    simp only [addAux] at h
    by_cases c1 : s ≤ seq ∧ seq < e
    · rw [if_pos c1] at h; cases h
    · rw [if_neg c1] at h
      by_cases c2 : s = seq + 1
      · rw [if_pos c2] at h; cases h
      · rw [if_neg c2] at h
        by_cases c3 : e = seq
        · rw [if_pos c3] at h
          cases rest with
          | nil => cases h
          | cons r2 rest2 =>
            obtain ⟨s2, e2⟩ := r2
            simp only at h
            by_cases c5 : seq + 1 = s2
            · rw [if_pos c5] at h; cases h
            · rw [if_neg c5] at h; cases h
        · rw [if_neg c3] at h
          by_cases c4 : s > seq + 1
          · rw [if_pos c4] at h; cases h
          · rw [if_neg c4] at h
            have hr : addAux seq rest = none := by
              cases hh : addAux seq rest with
              | none => rfl
              | some _ => simp [hh] at h
            have ih := addAux_none seq rest (wf_tail hwf) hr
            intro r hr'
            simp only [List.mem_cons] at hr'
            rcases hr' with rfl | hr'
            · have := (wf_cons_iff.mp hwf).1
              simp only at *
              omega
            · exact ih r hr'

theorem capFront_id (cap : Nat) (l : List R) (h : l.length ≤ cap) : capFront cap l = l := by
  unfold capFront
  have : ¬ l.length > cap := by omega
  simp only [this, if_false]

theorem capFront_length (cap : Nat) (l : List R) (h : l.length ≤ cap + 1) : (capFront cap l).length ≤ cap := by
  unfold capFront
  by_cases c : l.length > cap
  · simp only [c, if_true, List.length_tail]; omega
  · simp only [c, if_false]; omega

theorem wf_append_singleton : ∀ (l : List R) (seq : Nat), WF l → (∀ r ∈ l, r.2 < seq) → WF (l ++ [(seq, seq + 1)])
  | [], seq, _, _ => by simp [WF]
  | [r], seq, h, hb => by
    have := hb r (by simp)
    simp only [List.cons_append, List.nil_append, WF] at h ⊢
    exact ⟨h, this, by omega⟩
  | r :: r2 :: rest, seq, h, hb => by
    simp only [List.cons_append, WF] at h ⊢
    refine ⟨h.1, h.2.1, ?_⟩
    have := wf_append_singleton (r2 :: rest) seq h.2.2 (fun x hx => hb x (by simp [hx]))
    simpa using this

theorem wf_capFront (cap : Nat) (l : List R) (h : WF l) : WF (capFront cap l) := by
  unfold capFront; split
  · cases l with
    | nil => simpa
    | cons r l => exact wf_tail h
  · exact h

/-- **pending acks stay well-formed** -/
theorem add_wf (cap seq : Nat) (l : List R) (h : WF l) : WF (add cap seq l) := by
  unfold add
  cases l with
  | nil => simp [WF]
  | cons r l =>
    simp only
    cases ha : addAux seq (r :: l) with
    | some l' => exact wf_capFront _ _ (addAux_spec seq _ _ h ha).1
    | none => exact wf_capFront _ _ (wf_append_singleton _ _ h (addAux_none seq _ h ha))

/-- **the cap is an invariant on every path** (this is the statement that was false before the
    `fix:` commit for the insert path) -/
theorem add_length (cap seq : Nat) (l : List R) (hc : 1 ≤ cap) (h : WF l) (hl : l.length ≤ cap) :
    (add cap seq l).length ≤ cap := by
  unfold add
  cases l with
  | nil => simpa using hc
  | cons r l =>
    simp only
    cases ha : addAux seq (r :: l) with
    | some l' =>
      have := (addAux_spec seq _ _ h ha).2.2.2
      exact capFront_length _ _ (by omega)
    | none =>
      exact capFront_length _ _ (by simp only [List.length_append, List.length_cons, List.length_nil] at *; omega)

/-- **nothing is acknowledged that was not received**: every member of the new list is a member of
    the old list or the sequence number just received -/
theorem add_mem_sub (cap seq : Nat) (l : List R) (h : WF l) (x : Nat) (hx : Mem x (add cap seq l)) :
    Mem x l ∨ x = seq := by
  have hcap : ∀ l' : List R, Mem x (capFront cap l') → Mem x l' := by
    intro l' hm
    unfold capFront at hm; split at hm
    · cases l' with
      | nil => simp at hm
      | cons r l' => exact Or.inr hm
    · exact hm
  unfold add at hx
  cases l with
  | nil => simp only [mem_cons, mem_nil, or_false] at hx; right; omega
  | cons r l =>
    simp only at hx
    cases ha : addAux seq (r :: l) with
    | some l' =>
      rw [ha] at hx
      exact ((addAux_spec seq _ _ h ha).2.1 x).mp (hcap _ hx)
    | none =>
      rw [ha] at hx
      have := hcap _ hx
      rw [mem_append] at this
      rcases this with h1 | h1
      · exact Or.inl h1
      · simp only [mem_cons, mem_nil, or_false] at h1; right; omega

/-- below the cap nothing is forgotten either: the denoted set grows by exactly `{seq}` -/
theorem add_mem_iff (cap seq : Nat) (l : List R) (h : WF l) (hl : l.length < cap) (x : Nat) :
    Mem x (add cap seq l) ↔ (Mem x l ∨ x = seq) := by
  unfold add
  cases l with
  | nil => simp only [mem_cons, mem_nil, or_false, false_or]; omega
  | cons r l =>
    simp only
    cases ha : addAux seq (r :: l) with
    | some l' =>
      have sp := addAux_spec seq _ _ h ha
      simp only []
      rw [capFront_id _ _ (by omega)]; exact sp.2.1 x
    | none =>
      simp only []
      rw [capFront_id _ _ (by simp only [List.length_append, List.length_cons, List.length_nil] at *; omega)]
      simp only [mem_append, mem_cons, mem_nil, or_false]
      constructor
      · rintro (h1 | h1)
        · exact Or.inl h1
        · right; omega
      · rintro (h1 | h1)
        · exact Or.inl h1
        · right; omega

theorem ackedLargest_wf (largest : Nat) : ∀ (l : List R), WF l → WF (ackedLargest largest l)
  | [], _ => by simp [ackedLargest, WF]
  | (s, e) :: rest, h => by
    simp only [ackedLargest]
    split
    · exact h
    · split
      · exact ackedLargest_wf largest rest (wf_tail h)
      · split
        · exact wf_tail h
        · rw [wf_cons_iff] at h ⊢
          refine ⟨by simp only; omega, h.2.1, h.2.2⟩

theorem ackedLargest_mem_sub (largest : Nat) : ∀ (l : List R) (x : Nat), Mem x (ackedLargest largest l) → Mem x l
  | [], x, h => by simpa [ackedLargest] using h
  | (s, e) :: rest, x, h => by
    simp only [ackedLargest] at h
    split at h
    · exact h
    · split at h
      · exact Or.inr (ackedLargest_mem_sub largest rest x h)
      · split at h
        · exact Or.inr h
        · simp only [mem_cons] at h ⊢
          rcases h with h | h
          · left; omega
          · exact Or.inr h

theorem ackedLargest_length (largest : Nat) : ∀ (l : List R), (ackedLargest largest l).length ≤ l.length
  | [] => by simp [ackedLargest]
  | (s, e) :: rest => by
    simp only [ackedLargest]
    split
    · exact Nat.le_refl _
    · split
      · have := ackedLargest_length largest rest; simp only [List.length_cons]; omega
      · split <;> simp

/-! ### from the ascending invariant to what the encoder needs -/

theorem descWF_of_wf : ∀ (l : List R) (prev : Nat), WF l → (∀ r ∈ l, r.2 < prev) → DescWF prev l.reverse
  | [], _, _, _ => by simp [DescWF]
  | (s, e) :: rest, prev, h, hb => by
    -- reverse (x :: rest) = reverse rest ++ [x]; prove via a generalised statement on appended lists
    have key : ∀ (a : List R) (p : Nat) (s e : Nat), DescWF p a → (∀ r ∈ a, e < r.1) → s < e →
        (a = [] → e < p) → DescWF p (a ++ [(s, e)]) := by
      intro a
      induction a with
      | nil => intro p s e _ _ hse hp; simp only [List.nil_append, DescWF]; exact ⟨hse, hp rfl, trivial⟩
      | cons y a ih =>
        intro p s e hd hb hse _
        obtain ⟨ys, ye⟩ := y
        simp only [List.cons_append, DescWF] at hd ⊢
        refine ⟨hd.1, hd.2.1, ih ys s e hd.2.2 (fun r hr => hb r (by simp [hr])) hse (fun ha => ?_)⟩
        have := hb (ys, ye) (by simp)
        simpa using this
    rw [wf_cons_iff] at h
    simp only [List.reverse_cons]
    have ih := descWF_of_wf rest prev h.2.1 (fun r hr => hb r (by simp [hr]))
    refine key rest.reverse prev s e ih ?_ h.1 ?_
    · -- every later range starts above e (sortedness)
      intro r hr
      have hr : r ∈ rest := by simpa using hr
      -- by induction along the sorted list
      have : ∀ (l : List R) (e : Nat), WF l → (∀ r2, l.head? = some r2 → e < r2.1) → ∀ r ∈ l, e < r.1 := by
        intro l
        induction l with
        | nil => intro _ _ _ r hr; cases hr
        | cons y l ih2 =>
          intro e hw hh r hr
          rw [wf_cons_iff] at hw
          simp only [List.mem_cons] at hr
          rcases hr with rfl | hr
          · exact hh _ rfl
          · have h0 := hh y rfl
            refine ih2 e hw.2.1 (fun r2 hr2 => ?_) r hr
            have := hw.2.2 r2 hr2
            omega
      exact this rest e h.2.1 h.2.2 r hr
    · intro hnil
      have : rest = [] := by simpa using hnil
      subst this
      have := hb (s, e) (by simp)
      simpa using this

/-- a well-formed, non-empty, bounded pending-ack list is encodable -/
theorem ackWF_of_wf (l : List R) (hne : l ≠ []) (h : WF l) (hb : ∀ r ∈ l, r.2 ≤ Varint.MAX + 1) : AckWF l := by
  -- split off the last element
  obtain ⟨a, x, rfl⟩ : ∃ a x, l = a ++ [x] := by
    refine ⟨l.dropLast, l.getLast hne, ?_⟩
    exact (List.dropLast_concat_getLast hne).symm
  obtain ⟨ls, le⟩ := x
  refine ⟨ls, le, a.reverse, by simp, ?_, ?_, ?_⟩
  · -- ls < le
    have : ∀ (a : List R), WF (a ++ [(ls, le)]) → ls < le := by
      intro a
      induction a with
      | nil => intro h; simp [WF] at h; exact h
      | cons y a ih => intro h; exact ih (by simpa using wf_tail h)
    exact this a h
  · exact hb (ls, le) (by simp)
  · have hwa : ∀ (a : List R), WF (a ++ [(ls, le)]) → WF a ∧ ∀ r ∈ a, r.2 < ls := by
      intro a
      induction a with
      | nil => intro _; exact ⟨trivial, fun _ hr => by cases hr⟩
      | cons y a ih =>
        intro h
        have h' := h
        simp only [List.cons_append] at h'
        rw [wf_cons_iff] at h'
        obtain ⟨w1, w2⟩ := ih h'.2.1
        refine ⟨?_, ?_⟩
        · rw [wf_cons_iff]
          refine ⟨h'.1, w1, ?_⟩
          intro r2 hr2
          apply h'.2.2
          cases a with
          | nil => simp at hr2
          | cons z a => simpa using hr2
        · intro r hr
          simp only [List.mem_cons] at hr
          rcases hr with rfl | hr
          · cases a with
            | nil =>
              have := h'.2.2 (ls, le) (by simp)
              simpa using this
            | cons z a =>
              have h1 := h'.2.2 z (by simp)
              have h2 := w2 z (by simp)
              have h3 : z.1 < z.2 := by
                have := w1; rw [wf_cons_iff] at this; exact this.1
              omega
          · exact w2 r hr
    obtain ⟨w1, w2⟩ := hwa a h
    exact descWF_of_wf a ls w1 w2

end Acks
end RenetVerif
