/-
  LIVENESS in the multi-client system `MSys` (Lemmas/MultiSystem.lean): one lossless round for ONE client delivers
  everything that was addressed to it, from ANY reachable state and whatever happens to the other clients.

  Part A — `GoodL`: the system invariants the liveness proofs of Lemmas/Liveness.lean need (`AllInv` = Inv1, Inv2, InvR,
           InvD; plus InvF for ReliableUnordered channels), as a predicate on states of the two-endpoint system, and its
           preservation by every step `VStep` of a bidirectional link (`goodL_vstep`) — the analogue of
           `MultiSystem.good_vstep`, with the two liveness invariants added.
  Part B — the round theorems of Lemmas/Liveness.lean (`round_progress`, `round_live`, `round_delivers`,
           `round_delivers_unordered(_live)`, `due_after_update`) re-proved from the INVARIANTS instead of from
           reachability in `System.Sys` (the proofs there use reachability only through `allInv_reach` /
           `invF_reach` / `system_inv`).
  Part C — `reachL`: both projections of every untainted link of every reachable `MSys` state satisfy `GoodL`.
  Part D — lifting: a run of `System.Sys` operations `flushA / deliverToB / recvB` on the projection `down` of client
           `i` IS a run of `srvFlush i / deliverToCli i / cliRecv i` in `MSys` (`lift_run`), and any interleaving with
           operations that are `skip` for `i` ends in the same view of `i` (`MultiSystem.run_agree`).
-/
import RenetVerif.Lemmas.MultiSystem
import RenetVerif.Lemmas.Liveness
namespace RenetVerif.MultiLive
open RenetVerif C RenetVerif.System RenetVerif.MultiSystem RenetVerif.Live

/-! ## Part A: the liveness invariants along `VStep` -/

/-- the invariants of `System.system_inv` that liveness uses, plus `InvD` (what was handed to a live B has arrived)
    and `InvF` (unordered channels: obtained = arrived and no longer queued); the layer-2 ones under `CountersOK` -/
def GoodL (cfg : Cfg) (s : Sys) : Prop :=
  ∃ pkA, Inv1 cfg s pkA ∧ InvR cfg s pkA ∧
    (CountersOK cfg s → Inv2 cfg s pkA ∧ InvD s pkA ∧ InvF s)

theorem goodL_init (cfg : Cfg) : GoodL cfg (Sys.init cfg) :=
  ⟨[], inv1_init cfg, invR_init cfg, fun _ => ⟨inv2_init cfg, invD_init cfg, invF_init cfg⟩⟩

theorem goodL_step {cfg : Cfg} {s s' : Sys} {op : SysOp} (h : GoodL cfg s) (hs : s.step op = some s') : GoodL cfg s' := by
  obtain ⟨pkA, h1, h3, h2⟩ := h
  refine ⟨nextPk s op pkA, inv1_step h1 hs, invR_step h1 h3 hs, fun hc => ?_⟩
  obtain ⟨i2, iD, iF⟩ := h2 (counters_step h1 hs hc)
  exact ⟨inv2_step h1 i2 hs hc, invD_step h1 i2 iD hs, invF_step h1 i2 iF hs⟩

/-- `AllInv` (and `InvF`) read off `GoodL` -/
theorem allInv_of_goodL {cfg : Cfg} {s : Sys} (h : GoodL cfg s) (hc : CountersOK cfg s) :
    ∃ pkA, AllInv cfg s pkA ∧ InvF s := by
  obtain ⟨pkA, h1, h3, h2⟩ := h
  obtain ⟨i2, iD, iF⟩ := h2 hc
  exact ⟨pkA, ⟨h1, i2, h3, iD⟩, iF⟩

/-- endpoint A changes in a way that leaves its sending side alone -/
theorem goodL_frameA {cfg : Cfg} {s : Sys} {a' : Conn} (hg : GoodL cfg s)
    (hr : C08.Reach cfg.budget cfg.send cfg.recv a')
    (e1 : a'.sendRel = s.a.sendRel) (e3 : a'.sent = s.a.sent)
    (e4 : a'.packetSeq = s.a.packetSeq) (e5 : a'.isDisconnected = false → s.a.isDisconnected = false) :
    GoodL cfg { s with a := a' } := by
  obtain ⟨pkA, h1, h3, h2⟩ := hg
  have hc : CountersOK cfg { s with a := a' } → CountersOK cfg s := fun hc =>
    ⟨hc.chan, by have := hc.seq; dsimp only at this; rw [e4] at this; exact this, hc.ids, hc.lens, hc.lensU⟩
  refine ⟨pkA, ⟨hr, h1.reachB, ?_, h1.encA, ⟨h1.seqA.1, ?_⟩, h1.genA, h1.delivB⟩, ⟨?_, h3.ackB, h3.ackOutB, ?_⟩,
    fun c => ⟨⟨(h2 (hc c)).1.wfA, (h2 (hc c)).1.recvB, (h2 (hc c)).1.concl⟩,
      ⟨(h2 (hc c)).2.1.lens, (h2 (hc c)).2.1.arr⟩, (h2 (hc c)).2.2⟩⟩
  · intro ch sA hf
    dsimp only at hf; rw [e1] at hf
    exact h1.chanA ch sA hf
  · intro p hp
    dsimp only; rw [e4]; exact h1.seqA.2 p hp
  · intro hd seq t info hf
    dsimp only at hd hf; rw [e3] at hf
    exact h3.sentA (e5 hd) seq t info hf
  · intro ch sA hf
    dsimp only at hf; rw [e1] at hf
    exact h3.relA ch sA hf

/-- endpoint B changes in a way that leaves its receiving side alone -/
theorem goodL_frameB {cfg : Cfg} {s : Sys} {b' : Conn} (hg : GoodL cfg s)
    (hr : C08.Reach cfg.budget cfg.recv cfg.send b')
    (e1 : b'.recvRel = s.b.recvRel) (e3 : b'.pendingAcks = s.b.pendingAcks)
    (e5 : b'.isDisconnected = false → s.b.isDisconnected = false) :
    GoodL cfg { s with b := b' } := by
  obtain ⟨pkA, h1, h3, h2⟩ := hg
  have hc : CountersOK cfg { s with b := b' } → CountersOK cfg s := fun hc => ⟨hc.chan, hc.seq, hc.ids, hc.lens, hc.lensU⟩
  refine ⟨pkA, ⟨h1.reachA, hr, h1.chanA, h1.encA, h1.seqA, h1.genA, h1.delivB⟩, ⟨h3.sentA, ?_, h3.ackOutB, h3.relA⟩,
    fun c => ⟨⟨(h2 (hc c)).1.wfA, ?_, (h2 (hc c)).1.concl⟩, ⟨(h2 (hc c)).2.1.lens, ?_⟩, ?_⟩⟩
  · intro x hx
    dsimp only at hx ⊢; rw [e3] at hx
    exact h3.ackB x hx
  · intro hd
    dsimp only at hd ⊢
    rw [e1]
    exact (h2 (hc c)).1.recvB (e5 hd)
  · intro hd k hk p hp
    dsimp only at hd hk ⊢
    rw [e1]
    exact (h2 (hc c)).2.1.arr (e5 hd) k hk p hp
  · intro hd ch r hf ho
    dsimp only at hd hf ⊢
    rw [e1] at hf
    exact (h2 (hc c)).2.2 (e5 hd) ch r hf ho

theorem goodL_fresh (cfg : Cfg) : GoodL cfg (Sys.fresh cfg) := by
  have h0 := goodL_init cfg
  have ha := setConnected_fields (Sys.init cfg).a
  have h1 : GoodL cfg { Sys.init cfg with a := (Sys.init cfg).a.setConnected } :=
    goodL_frameA h0 (.connected .init) ha.1 ha.2.2.1 ha.2.2.2.1 (setConnected_keeps' _)
  have hb := setConnected_fields (Sys.init cfg).b
  exact goodL_frameB (s := { Sys.init cfg with a := (Sys.init cfg).a.setConnected }) h1 (.connected .init)
    hb.2.2.2.2.1 hb.2.2.2.2.2.2 (setConnected_keeps' _)

/-- every step of a bidirectional link preserves the liveness invariants -/
theorem goodL_vstep {cfg : Cfg} {s s' : Sys} (hg : GoodL cfg s) (hs : VStep cfg s s') : GoodL cfg s' := by
  cases hs with
  | stutter => exact hg
  | op o h => exact goodL_step hg h
  | recvA h =>
    obtain ⟨-, ⟨f1, -, f3, f4⟩, -, f6, -⟩ := SL.Conn.receiveMessage_frame h
    obtain ⟨pkA, h1, -⟩ := id hg
    exact goodL_frameA hg (.receiveMessage h1.reachA h) f1 f3 f4
      (not_disc_of_keeps (SL.Conn.Keeps.of_status_eq f6))
  | sendB h =>
    obtain ⟨-, f1, -, -, f4, -, -⟩ := SL.Conn.sendMessage_frame h
    obtain ⟨pkA, h1, -⟩ := id hg
    exact goodL_frameB hg (.sendMessage h1.reachB h) f1 f4 (not_disc_of_keeps (SL.Conn.sendMessage_keeps h))
  | discA r =>
    obtain ⟨pkA, h1, -⟩ := id hg
    exact goodL_frameA hg (.disconnect h1.reachA) (by simp) (by simp) (by simp)
      (not_disc_of_keeps (SL.Conn.disconnectWith_keeps _ r))
  | discB r =>
    obtain ⟨pkA, h1, -⟩ := id hg
    exact goodL_frameB hg (.disconnect h1.reachB) (by simp) (by simp)
      (not_disc_of_keeps (SL.Conn.disconnectWith_keeps _ r))
  | fresh => exact goodL_fresh cfg

/-! ## Part B: the round theorems of Lemmas/Liveness.lean, from the invariants

  Same statements and proofs as `Live.round_progress` … `Live.round_delivers_unordered_live`, with the hypothesis
  "`s` is reachable in `System.Sys`" replaced by the invariants `AllInv cfg s pkA` (and `InvF s`). -/

theorem round_progress_inv {cfg : Cfg} {s : Sys} {pkA : List Packet} (hA : AllInv cfg s pkA)
    (hc : CountersOK cfg s) (hcA : s.a.CountersOK) (hda : s.a.isDisconnected = false)
    (ch : Nat) (ho : cfg.Ordered ch) (sA : SendRel) (hfA : SMap.find? s.a.sendRel ch = some sA)
    (pre post : SMap Unacked) (hun : sA.unacked = pre ++ post) (j : Nat) (hj : ∀ x ∈ post, j ≤ x.1)
    (hjL : j ≤ (s.submitted ch).length)
    (H1 : AllDue s.a.now sA.resend pre) (H2 : backlog pre ≤ availAtTurn s.a ch)
    (ks : List Nat) (hks1 : ∀ k ∈ newIdx s, k ∈ ks) (hks2 : ∀ k ∈ ks, k < s.outA.length + (flushPk s.a).length)
    (n : Nat) (hn : j ≤ (s.obtained ch).length + n) :
    ∃ t u, s.run (SysOp.flushA :: ks.map SysOp.deliverToB) = some t ∧ t.run (List.replicate n (SysOp.recvB ch)) = some u ∧
      s.run (roundOps ch ks n) = some u ∧
      u.submitted = s.submitted ∧ u.a.isDisconnected = false ∧ u.b.isDisconnected = t.b.isDisconnected ∧
      (u.b.isDisconnected = false → (s.submitted ch).take j <+: u.obtained ch ∧ u.obtained ch <+: s.submitted ch) := by
  obtain ⟨a1, bs, e, hd1, hseq1, hsm, hsl⟩ :=
    flush_covers (reach_conn hA.i1.reachA).1 hcA hda hfA (order_mem hA.i1.reachA hfA) hun H1 H2
  have hs1 : s.step .flushA = some { s with a := a1, outA := s.outA ++ bs } := by simp only [Sys.step, e]
  generalize hs1d : ({ s with a := a1, outA := s.outA ++ bs } : Sys) = s1 at hs1
  have f1 : s1.a = a1 := by rw [← hs1d]
  have f2 : s1.outA = s.outA ++ bs := by rw [← hs1d]
  have f3 : s1.submitted = s.submitted := by rw [← hs1d]
  have f4 : s1.submittedU = s.submittedU := by rw [← hs1d]
  have f5 : s1.obtained = s.obtained := by rw [← hs1d]
  have f6 : s1.deliveredToB = s.deliveredToB := by rw [← hs1d]
  have hc1 : CountersOK cfg s1 :=
    ⟨hc.chan, by rw [f1]; exact hseq1, by rw [f3]; exact hc.ids, by rw [f3]; exact hc.lens, by rw [f4]; exact hc.lensU⟩
  have hA1 : AllInv cfg s1 (pkA ++ flushPk s.a) := allInv_step hA hs1 hc1
  have hbl := flush_len hA.i1 e
  obtain ⟨t, ht⟩ := deliver_total cfg ks s1 _ hA1.i1 (by
    intro k hk; rw [f2, List.length_append, hbl]; exact hks2 k hk)
  obtain ⟨g1, g2, g3, g4, g5, g6, g7⟩ := deliver_frame ks s1 t ht
  have hct : CountersOK cfg t := countersOK_congr (by rw [g1]) g4 g5 hc1
  have hAt : AllInv cfg t (pkA ++ flushPk s.a) := by
    have := allInv_run cfg _ s1 t _ hA1 ht hct
    rwa [runPk_noflush _ _ _ (by intro op hop; obtain ⟨k, -, rfl⟩ := List.mem_map.mp hop; exact fun h => by cases h)] at this
  have hrk := relKind_ordered ho
  obtain ⟨u, hu, u1, u2, u3, u4, u5⟩ := drain_total cfg ch n t _ hAt.i1 (hasRecv_of_relKind hAt.i1 hrk)
  have hrun : s.run (roundOps ch ks n) = some u := by
    simp only [roundOps, Sys.run, hs1]
    rw [Sys.run_append, ht]; exact hu
  have hrunt : s.run (SysOp.flushA :: ks.map SysOp.deliverToB) = some t := by
    simp only [Sys.run, hs1]; exact ht
  refine ⟨t, u, hrunt, hu, hrun, by rw [u2, g4, f3], by rw [u1, g1, f1]; exact hd1, u5, ?_⟩
  intro hliveu
  have hlivet : t.b.isDisconnected = false := by rw [← u5]; exact hliveu
  obtain ⟨hkind, hchan⟩ := hAt.i2.recvB hlivet
  have hk1 := hkind ch
  rw [hrk] at hk1
  cases hrt : SMap.find? t.b.recvRel ch with
  | none => rw [hrt] at hk1; cases hk1
  | some rt =>
    rw [hrt] at hk1
    have hord : rt.ordered = true := by simpa using hk1
    have hsubt : t.submitted ch = s.submitted ch := by rw [g4, f3]
    have hv := all_have hA hfA hun hj hsm hsl hAt hsubt
      (by intro k hk; rw [g7, f6]; exact List.mem_append_left _ hk)
      (by
        intro i hi
        rw [g7]
        apply List.mem_append_right
        apply hks1
        unfold newIdx
        rw [List.mem_range'_1, pk_len hA.i1]; omega)
      hlivet hrt
    obtain ⟨ru, hru, hmin, hAu⟩ := drain_progress cfg ch j n t u _ rt hAt hct hlivet hrt hord
      (fun id hid => hv id hid (by omega)) hu
    have hbt := hchan ch rt hrt
    obtain ⟨hot, hle⟩ := hbt.1 hord
    have hold : rt.oldest = (s.obtained ch).length := by
      have := hot.obt
      have hle' : rt.oldest ≤ (t.submitted ch).length := hle
      dsimp only at this
      rw [g6, f5] at this
      rw [this, List.length_take]; omega
    obtain ⟨hkindu, hchanu⟩ := hAu.i2.recvB hliveu
    have hbu := hchanu ch ru hru
    have hordu : ru.ordered = true := by
      have := hkindu ch
      rw [hrk, hru] at this
      simpa using this
    have hou := (hbu.1 hordu).1.obt
    dsimp only at hou
    have hsubu : u.submitted ch = s.submitted ch := by rw [u2, g4, f3]
    rw [hsubu] at hou
    rw [hou]
    exact ⟨List.take_prefix_take_left (by omega), List.take_prefix _ _⟩

theorem round_live_inv {cfg : Cfg} {s : Sys} {pkA : List Packet} (hA : AllInv cfg s pkA)
    (hc : CountersOK cfg s) (hcA : s.a.CountersOK) (hda : s.a.isDisconnected = false) (hdb : s.b.isDisconnected = false)
    (ch : Nat) (sA : SendRel) (hfA : SMap.find? s.a.sendRel ch = some sA)
    (rB : RecvRel) (hfB : SMap.find? s.b.recvRel ch = some rB)
    (H3 : Room (s.submitted ch) rB) (H4 : ∀ p ∈ flushPk s.a, OnlyCh ch p)
    (ks : List Nat) (hks : ∀ k ∈ ks, k ∈ newIdx s) (t : Sys)
    (hrun : s.run (SysOp.flushA :: ks.map SysOp.deliverToB) = some t) : t.b.isDisconnected = false := by
  obtain ⟨a1, bs, e, hd1, hseq1, -, -⟩ :=
    flush_covers (pre := []) (post := sA.unacked) (reach_conn hA.i1.reachA).1 hcA hda hfA (order_mem hA.i1.reachA hfA) rfl
      (fun _ h => by cases h) (Nat.zero_le _)
  have hs1 : s.step .flushA = some { s with a := a1, outA := s.outA ++ bs } := by simp only [Sys.step, e]
  generalize hs1d : ({ s with a := a1, outA := s.outA ++ bs } : Sys) = s1 at hs1
  have f1 : s1.a = a1 := by rw [← hs1d]
  have f3 : s1.submitted = s.submitted := by rw [← hs1d]
  have f4 : s1.submittedU = s.submittedU := by rw [← hs1d]
  have f7 : s1.b = s.b := by rw [← hs1d]
  have hc1 : CountersOK cfg s1 :=
    ⟨hc.chan, by rw [f1]; exact hseq1, by rw [f3]; exact hc.ids, by rw [f3]; exact hc.lens, by rw [f4]; exact hc.lensU⟩
  have hA1 : AllInv cfg s1 (pkA ++ flushPk s.a) := allInv_step hA hs1 hc1
  simp only [Sys.run, hs1] at hrun
  have hFack : ∀ sq l, Packet.ack sq l ∈ flushPk s.a → Acks.WF l := by
    intro sq l hm
    obtain ⟨sq', e'⟩ := flush_acks e _ hm rfl
    cases e'
    exact hA.i1.invA.2
  have := deliver_live cfg ch (flushPk s.a) H4 hFack ks s1 t _ rB hA1 hc1
    (by
      intro k hk
      have := hks k hk
      unfold newIdx at this
      rw [List.mem_range'_1, ← pk_len hA.i1] at this
      have hlt : k - pkA.length < (flushPk s.a).length := by omega
      refine ⟨(flushPk s.a)[k - pkA.length], List.getElem_mem _, ?_⟩
      rw [List.getElem?_append_right (by omega)]
      exact List.getElem?_eq_getElem hlt)
    (by rw [f7]; exact hdb) (by rw [f7]; exact hfB) (by rw [f3]; exact H3) hrun
  exact this.1

/-- `Live.round_delivers` from the invariants -/
theorem round_delivers_inv {cfg : Cfg} {s : Sys} {pkA : List Packet} (hA : AllInv cfg s pkA)
    (hc : CountersOK cfg s) (hcA : s.a.CountersOK) (hda : s.a.isDisconnected = false) (hdb : s.b.isDisconnected = false)
    (ch : Nat) (ho : cfg.Ordered ch) (sA : SendRel) (hfA : SMap.find? s.a.sendRel ch = some sA)
    (rB : RecvRel) (hfB : SMap.find? s.b.recvRel ch = some rB)
    (H1 : AllDue s.a.now sA.resend sA.unacked) (H2 : backlog sA.unacked ≤ availAtTurn s.a ch)
    (H3 : Room (s.submitted ch) rB) (H4 : ∀ p ∈ flushPk s.a, OnlyCh ch p)
    (ks : List Nat) (hks1 : ∀ k ∈ newIdx s, k ∈ ks) (hks2 : ∀ k ∈ ks, k ∈ newIdx s)
    (n : Nat) (hn : (s.submitted ch).length ≤ (s.obtained ch).length + n) :
    ∃ u, s.run (roundOps ch ks n) = some u ∧ u.a.isDisconnected = false ∧ u.b.isDisconnected = false ∧
      u.submitted = s.submitted ∧ u.obtained ch = s.submitted ch := by
  obtain ⟨t, u, ht, -, hu, e1, e2, e3, hcon⟩ := round_progress_inv hA hc hcA hda ch ho sA hfA sA.unacked []
    (by simp) (s.submitted ch).length (fun _ h => by cases h) (Nat.le_refl _) H1 H2 ks hks1
    (by
      intro k hk
      have := hks2 k hk
      unfold newIdx at this
      rw [List.mem_range'_1] at this; exact this.2)
    n hn
  have hlt := round_live_inv hA hc hcA hda hdb ch sA hfA rB hfB H3 H4 ks hks2 t ht
  have hlu : u.b.isDisconnected = false := by rw [e3]; exact hlt
  obtain ⟨p1, p2⟩ := hcon hlu
  rw [List.take_length] at p1
  refine ⟨u, hu, e2, hlu, e1, ?_⟩
  exact (p2.eq_of_length (Nat.le_antisymm p2.length_le p1.length_le))

theorem round_delivers_unordered_inv {cfg : Cfg} {s : Sys} {pkA : List Packet} (hA : AllInv cfg s pkA) (hFs : InvF s)
    (hc : CountersOK cfg s) (hcA : s.a.CountersOK) (hda : s.a.isDisconnected = false)
    (ch : Nat) (ho : cfg.Unordered ch) (sA : SendRel) (hfA : SMap.find? s.a.sendRel ch = some sA)
    (H1 : AllDue s.a.now sA.resend sA.unacked) (H2 : backlog sA.unacked ≤ availAtTurn s.a ch)
    (ks : List Nat) (hks1 : ∀ k ∈ newIdx s, k ∈ ks) (hks2 : ∀ k ∈ ks, k < s.outA.length + (flushPk s.a).length)
    (n : Nat) (hn : (s.submitted ch).length ≤ (s.obtained ch).length + n) :
    ∃ t u, s.run (SysOp.flushA :: ks.map SysOp.deliverToB) = some t ∧ t.run (List.replicate n (SysOp.recvB ch)) = some u ∧
      s.run (roundOps ch ks n) = some u ∧
      u.submitted = s.submitted ∧ u.a.isDisconnected = false ∧ u.b.isDisconnected = t.b.isDisconnected ∧
      (u.b.isDisconnected = false → (u.obtained ch).Perm (s.submitted ch)) := by
  obtain ⟨a1, bs, e, hd1, hseq1, hsm, hsl⟩ :=
    flush_covers (pre := sA.unacked) (post := []) (reach_conn hA.i1.reachA).1 hcA hda hfA (order_mem hA.i1.reachA hfA)
      (by simp) H1 H2
  have hs1 : s.step .flushA = some { s with a := a1, outA := s.outA ++ bs } := by simp only [Sys.step, e]
  generalize hs1d : ({ s with a := a1, outA := s.outA ++ bs } : Sys) = s1 at hs1
  have f1 : s1.a = a1 := by rw [← hs1d]
  have f2 : s1.outA = s.outA ++ bs := by rw [← hs1d]
  have f3 : s1.submitted = s.submitted := by rw [← hs1d]
  have f4 : s1.submittedU = s.submittedU := by rw [← hs1d]
  have f5 : s1.obtained = s.obtained := by rw [← hs1d]
  have f6 : s1.deliveredToB = s.deliveredToB := by rw [← hs1d]
  have hc1 : CountersOK cfg s1 :=
    ⟨hc.chan, by rw [f1]; exact hseq1, by rw [f3]; exact hc.ids, by rw [f3]; exact hc.lens, by rw [f4]; exact hc.lensU⟩
  have hA1 : AllInv cfg s1 (pkA ++ flushPk s.a) := allInv_step hA hs1 hc1
  have hF1 : InvF s1 := invF_step hA.i1 hA.i2 hFs hs1
  have hbl := flush_len hA.i1 e
  obtain ⟨t, ht⟩ := deliver_total cfg ks s1 _ hA1.i1 (by
    intro k hk; rw [f2, List.length_append, hbl]; exact hks2 k hk)
  obtain ⟨g1, g2, g3, g4, g5, g6, g7⟩ := deliver_frame ks s1 t ht
  have hct : CountersOK cfg t := countersOK_congr (by rw [g1]) g4 g5 hc1
  have hAt : AllInv cfg t (pkA ++ flushPk s.a) := by
    have := allInv_run cfg _ s1 t _ hA1 ht hct
    rwa [runPk_noflush _ _ _ (by intro op hop; obtain ⟨k, -, rfl⟩ := List.mem_map.mp hop; exact fun h => by cases h)] at this
  have hFt : InvF t := invF_run cfg _ s1 t _ hA1 hF1 ht hct
  have hrk := relKind_unordered ho
  obtain ⟨u, hu, u1, u2, u3, u4, u5⟩ := drain_total cfg ch n t _ hAt.i1 (hasRecv_of_relKind hAt.i1 hrk)
  have hrun : s.run (roundOps ch ks n) = some u := by
    simp only [roundOps, Sys.run, hs1]
    rw [Sys.run_append, ht]; exact hu
  have hrunt : s.run (SysOp.flushA :: ks.map SysOp.deliverToB) = some t := by
    simp only [Sys.run, hs1]; exact ht
  refine ⟨t, u, hrunt, hu, hrun, by rw [u2, g4, f3], by rw [u1, g1, f1]; exact hd1, u5, ?_⟩
  intro hliveu
  have hlivet : t.b.isDisconnected = false := by rw [← u5]; exact hliveu
  obtain ⟨hkind, hchan⟩ := hAt.i2.recvB hlivet
  have hk1 := hkind ch
  rw [hrk] at hk1
  cases hrt : SMap.find? t.b.recvRel ch with
  | none => rw [hrt] at hk1; cases hk1
  | some rt =>
    rw [hrt] at hk1
    have hord : rt.ordered = false := by simpa using hk1
    have hsubt : t.submitted ch = s.submitted ch := by rw [g4, f3]
    have hv := all_have (j := (s.submitted ch).length) hA hfA (pre := sA.unacked) (post := []) (by simp)
      (fun _ h => by cases h) hsm hsl hAt hsubt
      (by intro k hk; rw [g7, f6]; exact List.mem_append_left _ hk)
      (by
        intro i hi
        rw [g7]
        apply List.mem_append_right
        apply hks1
        unfold newIdx
        rw [List.mem_range'_1, pk_len hA.i1]; omega)
      hlivet hrt
    obtain ⟨ru, hru, horu, hmsg, hvu, hAu, hFu⟩ := drain_progress_u cfg ch (s.submitted ch).length n t u _ rt hAt hFt hct
      hlivet hrt hord (fun id hid => hv id hid hid) hu
    have hbt := hchan ch rt hrt
    have hqb := queue_bound (hbt.2 hord) (hFt hlivet ch rt hrt hord)
    rw [hsubt, g6, f5] at hqb
    have hempty : ru.messages = [] := by
      rw [hmsg]; exact List.drop_eq_nil_of_le (by omega)
    have hsubu : u.submitted ch = s.submitted ch := by rw [u2, g4, f3]
    have hfu := hFu hliveu ch ru hru horu
    rw [hsubu] at hfu
    exact perm_of_ufull hfu hempty hvu

/-- `Live.round_delivers_unordered_live` from the invariants -/
theorem round_delivers_unordered_live_inv {cfg : Cfg} {s : Sys} {pkA : List Packet} (hA : AllInv cfg s pkA) (hFs : InvF s)
    (hc : CountersOK cfg s) (hcA : s.a.CountersOK) (hda : s.a.isDisconnected = false) (hdb : s.b.isDisconnected = false)
    (ch : Nat) (ho : cfg.Unordered ch) (sA : SendRel) (hfA : SMap.find? s.a.sendRel ch = some sA)
    (rB : RecvRel) (hfB : SMap.find? s.b.recvRel ch = some rB)
    (H1 : AllDue s.a.now sA.resend sA.unacked) (H2 : backlog sA.unacked ≤ availAtTurn s.a ch)
    (H3 : Room (s.submitted ch) rB) (H4 : ∀ p ∈ flushPk s.a, OnlyCh ch p)
    (ks : List Nat) (hks1 : ∀ k ∈ newIdx s, k ∈ ks) (hks2 : ∀ k ∈ ks, k ∈ newIdx s)
    (n : Nat) (hn : (s.submitted ch).length ≤ (s.obtained ch).length + n) :
    ∃ u, s.run (roundOps ch ks n) = some u ∧ u.a.isDisconnected = false ∧ u.b.isDisconnected = false ∧
      u.submitted = s.submitted ∧ (u.obtained ch).Perm (s.submitted ch) := by
  obtain ⟨t, u, ht, -, hu, e1, e2, e3, hcon⟩ := round_delivers_unordered_inv hA hFs hc hcA hda ch ho sA hfA H1 H2 ks hks1
    (by
      intro k hk
      have := hks2 k hk
      unfold newIdx at this
      rw [List.mem_range'_1] at this; exact this.2)
    n hn
  have hlt := round_live_inv hA hc hcA hda hdb ch sA hfA rB hfB H3 H4 ks hks2 t ht
  have hlu : u.b.isDisconnected = false := by rw [e3]; exact hlt
  exact ⟨u, hu, e2, hlu, e1, hcon hlu⟩

/-- `Live.due_after_update` from `Inv1` -/
theorem due_after_update_inv {cfg : Cfg} {s : Sys} {pkA : List Packet} (h1 : Inv1 cfg s pkA)
    (ch : Nat) (sA : SendRel) (hfA : SMap.find? s.a.sendRel ch = some sA) (dt : Nat) (hdt : sA.resend ≤ dt)
    (su : Sys) (hsu : s.step (.updA dt) = some su) :
    SMap.find? su.a.sendRel ch = some sA ∧ AllDue su.a.now sA.resend sA.unacked := by
  obtain ⟨e1, e2, -⟩ := updA_frame hsu
  rw [e1, e2]
  exact ⟨hfA, allDue_of_stamped ((reach_stamped h1.reachA).2 ch sA hfA) hdt⟩

/-! ## Part C: every reachable untainted link satisfies the liveness invariants, in both directions -/

structure LinkOKL (P : Params) (lv : LV) (l : Link) : Prop where
  goodD : GoodL P.down (down lv l)
  goodU : GoodL P.up (up lv l)

def VInvL (P : Params) (lv : LV) : Prop :=
  ∀ l, lv.link = some l → l.tainted = false → LinkOKL P lv l

theorem vinvL_step {P : Params} {lv lv' : LV} {act : LAct} (hv : VInvL P lv)
    (h : lv.apply P act = some lv') : VInvL P lv' := by
  intro l' hl' ht
  rcases sim h hl' ht with ⟨rfl, rfl⟩ | ⟨l, hl, htl, hd, hu, -⟩
  · exact ⟨goodL_fresh _, goodL_fresh _⟩
  · obtain ⟨g1, g2⟩ := hv l hl htl
    exact ⟨goodL_vstep g1 hd, goodL_vstep g2 hu⟩

theorem run_invL (P : Params) (i : Nat) : ∀ (ops : List MOp) (m m' : MSys), m.WF P → VInvL P (m.view i) →
    m.run ops = some m' → m'.WF P ∧ VInvL P (m'.view i)
  | [], m, m', hw, hv, hr => by
    simp only [MSys.run, Option.some.injEq] at hr; subst hr
    exact ⟨hw, hv⟩
  | op :: ops, m, m', hw, hv, hr => by
    simp only [MSys.run] at hr
    cases hs : m.step op with
    | none => rw [hs] at hr; cases hr
    | some m1 =>
      rw [hs] at hr
      exact run_invL P i ops m1 m' (step_wf hw hs) (vinvL_step hv (step_view hw hs i)) hr

/-- **Every reachable link satisfies the liveness invariants.**  After ANY finite run from the empty server, for every
    client `i` whose link is untainted, both projections of the link satisfy `GoodL`. -/
theorem reachL (P : Params) (ops : List MOp) (m : MSys) (hr : (MSys.init P).run ops = some m) (i : Nat) (l : Link)
    (hl : m.links i = some l) (ht : l.tainted = false) : LinkOKL P (m.view i) l :=
  (run_invL P i ops (MSys.init P) m (wf_init P) (fun l hl => by cases hl) hr).2 l hl ht

/-! ## Part D: a `System.Sys` round on the projection of client `i` is a round of client `i` in `MSys` -/

/-- the operations of a lossless round of the direction server → client -/
def IsRoundOp : SysOp → Prop
  | .flushA | .deliverToB _ | .recvB _ => True
  | _ => False

/-- the local action of client `i` that corresponds to an operation of its server → client projection -/
def lact : SysOp → LAct
  | .sendA ch m => .sSend ch m
  | .recvB ch => .cRecv ch
  | .updA dt => .sUpd dt
  | .updB dt => .cUpd dt
  | .flushA => .sFlush
  | .flushB => .cFlush
  | .deliverToB k => .toCli k
  | .deliverToA k => .toSrv k

/-- … and the `MSys` operation -/
def mop (i : Nat) : SysOp → MOp
  | .sendA ch m => .srvSend i ch m
  | .recvB ch => .cliRecv i ch
  | .updA dt => .srvUpdate dt
  | .updB dt => .cliUpdate i dt
  | .flushA => .srvFlush i
  | .flushB => .cliFlush i
  | .deliverToB k => .deliverToCli i k
  | .deliverToA k => .deliverToSrv i k

theorem act_mop (i : Nat) (o : SysOp) : (mop i o).act i = lact o := by
  cases o <;> simp [mop, lact, MOp.act]

/-- the link of client `i` after a round that took its server → client projection to `u` -/
def liftLink (l : Link) (u : Sys) : Link :=
  { l with cl := u.b, outS := u.outA, obtC := u.obtained, delivC := u.deliveredToB }

theorem lift_step (P : Params) (c : Conn) (l : Link) (o : SysOp) (ho : IsRoundOp o) (u : Sys)
    (h : (down ⟨some c, some l⟩ l).step o = some u) :
    LV.apply P ⟨some c, some l⟩ (lact o) = some ⟨some u.a, some (liftLink l u)⟩ ∧
      down ⟨some u.a, some (liftLink l u)⟩ (liftLink l u) = u := by
  cases o with
  | flushA =>
    simp only [Sys.step, down, LV.srv, Option.getD_some] at h
    split at h
    · rename_i c' ps hc
      cases h
      simp only [LV.apply, lact, hc]
      exact ⟨rfl, rfl⟩
    · cases h
  | deliverToB k =>
    simp only [Sys.step, down] at h
    split at h
    · cases h
    · rename_i bytes hb
      split at h
      · rename_i b' hc
        cases h
        simp only [LV.apply, lact, hb, hc]
        exact ⟨rfl, rfl⟩
      · cases h
  | recvB ch =>
    simp only [Sys.step, down] at h
    split at h
    · rename_i b' x hc
      cases h
      simp only [LV.apply, lact, hc]
      exact ⟨rfl, rfl⟩
    · rename_i b' hc
      cases h
      simp only [LV.apply, lact, hc]
      exact ⟨rfl, rfl⟩
    · cases h
  | sendA _ _ => exact ho.elim
  | updA _ => exact ho.elim
  | updB _ => exact ho.elim
  | flushB => exact ho.elim
  | deliverToA _ => exact ho.elim

theorem lift_run (P : Params) : ∀ (sops : List SysOp) (c : Conn) (l : Link) (u : Sys), (∀ o ∈ sops, IsRoundOp o) →
    (down ⟨some c, some l⟩ l).run sops = some u →
    LV.run P ⟨some c, some l⟩ (sops.map lact) = some ⟨some u.a, some (liftLink l u)⟩ ∧
      down ⟨some u.a, some (liftLink l u)⟩ (liftLink l u) = u
  | [], c, l, u, _, h => by
    simp only [Sys.run, Option.some.injEq] at h
    subst h
    exact ⟨rfl, rfl⟩
  | o :: sops, c, l, u, ho, h => by
    simp only [Sys.run] at h
    cases hs : (down ⟨some c, some l⟩ l).step o with
    | none => rw [hs] at h; cases h
    | some u1 =>
      rw [hs] at h
      obtain ⟨a1, a2⟩ := lift_step P c l o (ho o (List.mem_cons_self ..)) u1 hs
      rw [← a2] at h
      obtain ⟨b1, b2⟩ := lift_run P sops u1.a (liftLink l u1) u (fun o' ho' => ho o' (List.mem_cons_of_mem _ ho')) h
      simp only [List.map_cons, LV.run, a1]
      exact ⟨b1, b2⟩

/-- an operation of client `i`'s round whose local action is defined on the view of `i` does not panic in `MSys` -/
theorem step_total {P : Params} {m : MSys} {i : Nat} {o : SysOp} (ho : IsRoundOp o) {lv' : LV}
    (h : (m.view i).apply P (lact o) = some lv') : ∃ m', m.step (mop i o) = some m' := by
  cases o with
  | flushA =>
    simp only [lact, LV.apply, MSys.view, conn?] at h
    simp only [mop, MSys.step, Server.getPacketsToSend]
    cases hf : SMap.find? m.server.conns i with
    | none => exact ⟨_, rfl⟩
    | some c =>
      rw [hf] at h
      dsimp only at h ⊢
      cases hc : c.getPacketsToSend with
      | ok x =>
        obtain ⟨c', ps⟩ := x
        simp only [Res.bind_ok, Res.pure_eq]
        exact ⟨_, rfl⟩
      | err e => exact e.elim
      | panic p => rw [hc] at h; cases h
  | deliverToB k =>
    simp only [lact, LV.apply, MSys.view] at h
    simp only [mop, MSys.step]
    cases hl : m.links i with
    | none => exact ⟨_, rfl⟩
    | some l =>
      rw [hl] at h
      dsimp only at h ⊢
      cases hb : l.outS[k]? with
      | none => rw [hb] at h; cases h
      | some bytes =>
        rw [hb] at h
        dsimp only at h ⊢
        cases hc : l.cl.processPacket bytes with
        | ok cl' => exact ⟨_, rfl⟩
        | err e => exact e.elim
        | panic p => rw [hc] at h; cases h
  | recvB ch =>
    simp only [lact, LV.apply, MSys.view] at h
    simp only [mop, MSys.step]
    cases hl : m.links i with
    | none => exact ⟨_, rfl⟩
    | some l =>
      rw [hl] at h
      dsimp only at h ⊢
      cases hc : l.cl.receiveMessage ch with
      | ok x => obtain ⟨cl', mo⟩ := x; exact ⟨_, rfl⟩
      | err e => exact e.elim
      | panic p => rw [hc] at h; cases h
  | sendA _ _ => exact ho.elim
  | updA _ => exact ho.elim
  | updB _ => exact ho.elim
  | flushB => exact ho.elim
  | deliverToA _ => exact ho.elim

theorem lift_mrun (P : Params) (i : Nat) : ∀ (sops : List SysOp) (m : MSys) (lv' : LV), m.WF P → (∀ o ∈ sops, IsRoundOp o) →
    LV.run P (m.view i) (sops.map lact) = some lv' → ∃ m', m.run (sops.map (mop i)) = some m' ∧ m'.view i = lv'
  | [], m, lv', _, _, h => by
    simp only [List.map_nil, LV.run, Option.some.injEq] at h
    exact ⟨m, rfl, h⟩
  | o :: sops, m, lv', hw, ho, h => by
    simp only [List.map_cons, LV.run] at h
    cases ha : (m.view i).apply P (lact o) with
    | none => rw [ha] at h; cases h
    | some lv1 =>
      rw [ha] at h
      obtain ⟨m1, hs⟩ := step_total (ho o (List.mem_cons_self ..)) ha
      have hv := step_view hw hs i
      rw [act_mop, ha] at hv
      have e : lv1 = m1.view i := Option.some.inj hv
      rw [e] at h
      obtain ⟨m', hr, hv'⟩ := lift_mrun P i sops m1 lv' (step_wf hw hs) (fun o' ho' => ho o' (List.mem_cons_of_mem _ ho')) h
      exact ⟨m', by simp only [List.map_cons, MSys.run, hs]; exact hr, hv'⟩

/-- **Lifting a round.**  If the server → client projection of client `i` (in the table, with a link) runs the round
    operations `sops` to `u`, then `MSys` runs the corresponding operations of client `i` without panic, ends with the
    server-side connection `u.a` and the link `liftLink l u` (whose projection is `u`), and ANY other operation list
    with the same local trace for `i` — the same operations interleaved with arbitrary operations that concern other
    clients only — ends in the same view of `i`. -/
theorem round_lift {P : Params} {m : MSys} {i : Nat} {c : Conn} {l : Link} (hw : m.WF P)
    (hc : conn? m.server i = some c) (hl : m.links i = some l) (sops : List SysOp) (ho : ∀ o ∈ sops, IsRoundOp o)
    (u : Sys) (hrun : (down (m.view i) l).run sops = some u) :
    ∃ m', m.run (sops.map (mop i)) = some m' ∧ conn? m'.server i = some u.a ∧ m'.links i = some (liftLink l u) ∧
      down (m'.view i) (liftLink l u) = u ∧
      ∀ ops' m'', trace i ops' = trace i (sops.map (mop i)) → m.run ops' = some m'' → m''.view i = m'.view i := by
  have hv : m.view i = ⟨some c, some l⟩ := by unfold MSys.view; rw [hc, hl]
  rw [hv] at hrun
  obtain ⟨a1, a2⟩ := lift_run P sops c l u ho hrun
  rw [← hv] at a1
  obtain ⟨m', hr, hv'⟩ := lift_mrun P i sops m _ hw ho a1
  refine ⟨m', hr, congrArg LV.conn hv', congrArg LV.link hv', by rw [hv']; exact a2, ?_⟩
  intro ops' m'' ht hr''
  exact run_agree i hw hw rfl hr'' hr ht

/-- the lossless round for client `i` on channel `ch`: the server flushes for `i`, the network of `i` hands the
    datagrams `ks` (indices into the server → `i` emission history) to client `i`, client `i`'s application asks `n`
    times for a message of channel `ch` -/
def roundFor (i ch : Nat) (ks : List Nat) (n : Nat) : List MOp :=
  .srvFlush i :: (ks.map (MOp.deliverToCli i) ++ List.replicate n (.cliRecv i ch))

theorem roundOps_map (i ch : Nat) (ks : List Nat) (n : Nat) : (roundOps ch ks n).map (mop i) = roundFor i ch ks n := by
  simp [roundOps, roundFor, mop, List.map_replicate, Function.comp_def]

theorem roundOps_isRound (ch : Nat) (ks : List Nat) (n : Nat) : ∀ o ∈ roundOps ch ks n, IsRoundOp o := by
  intro o ho
  simp only [roundOps, List.mem_cons, List.mem_append, List.mem_map, List.mem_replicate] at ho
  rcases ho with rfl | ⟨k, -, rfl⟩ | ⟨-, rfl⟩ <;> trivial

/-- the server's `update(dt)` seen from client `i` (in the table): the `updA dt` step of its projection -/
theorem srvUpdate_down {P : Params} {m mu : MSys} {i : Nat} {c : Conn} {l : Link} {dt : Nat} (hw : m.WF P)
    (hs : m.step (.srvUpdate dt) = some mu) (hc : conn? m.server i = some c) (hl : m.links i = some l) :
    ∃ cu, c.update dt = .ok cu ∧ conn? mu.server i = some cu ∧ mu.links i = some l ∧
      (down (m.view i) l).step (.updA dt) = some (down (mu.view i) l) := by
  have hv := step_view hw hs i
  have hv0 : m.view i = ⟨some c, some l⟩ := by unfold MSys.view; rw [hc, hl]
  rw [hv0] at hv ⊢
  simp only [MOp.act, LV.apply] at hv
  split at hv
  · rename_i cu hcu
    have e := (Option.some.inj hv).symm
    refine ⟨cu, hcu, congrArg LV.conn e, congrArg LV.link e, ?_⟩
    rw [e]
    simp only [Sys.step, down, LV.srv, Option.getD_some, hcu]
  · cases hv

/-- what a `send_message` / broadcast that includes client `i` (in the table, with a link) does to `i`: the table entry
    runs `send_message`, the link logs the message (in `subS` iff the reliable channel accepted it) -/
theorem sSend_logged {P : Params} {m m' : MSys} {op : MOp} {i ch : Nat} {x : Bytes} {c : Conn} {l : Link} (hw : m.WF P)
    (hs : m.step op = some m') (ha : op.act i = .sSend ch x) (hc : conn? m.server i = some c)
    (hl : m.links i = some l) :
    ∃ c', c.sendMessage ch x = .ok c' ∧ conn? m'.server i = some c' ∧ m'.links i = some (l.logS c c' ch x) := by
  have hv := step_view hw hs i
  have hv0 : m.view i = ⟨some c, some l⟩ := by unfold MSys.view; rw [hc, hl]
  rw [hv0, ha] at hv
  simp only [LV.apply] at hv
  split at hv
  · rename_i c' hc'
    have e := (Option.some.inj hv).symm
    exact ⟨c', hc', congrArg LV.conn e, congrArg LV.link e⟩
  · cases hv

theorem logS_subS (l : Link) (c c' : Conn) (ch : Nat) (x : Bytes) :
    (l.logS c c' ch x).subS ch = if accepted c c' ch then l.subS ch ++ [x] else l.subS ch := by
  unfold Link.logS
  dsimp only
  split
  · exact push_same _ _ _
  · rfl

/-! ### local traces of a round -/

theorem lact_ne_skip (o : SysOp) : (lact o != LAct.skip) = true := by
  cases o <;> rfl

theorem trace_map_mop (i : Nat) (sops : List SysOp) : trace i (sops.map (mop i)) = sops.map lact := by
  unfold trace
  rw [List.map_map]
  have : (MOp.act i ∘ mop i) = lact := funext (act_mop i)
  rw [this, List.filter_eq_self]
  intro a ha
  obtain ⟨o, -, rfl⟩ := List.mem_map.mp ha
  exact lact_ne_skip o

theorem trace_round (i ch : Nat) (ks : List Nat) (n : Nat) :
    trace i (roundFor i ch ks n) = (roundOps ch ks n).map lact := by
  rw [← roundOps_map, trace_map_mop]

theorem trace_tick_round (i ch dt : Nat) (ks : List Nat) (n : Nat) :
    trace i (.srvUpdate dt :: roundFor i ch ks n) = .sUpd dt :: (roundOps ch ks n).map lact := by
  have : MOp.srvUpdate dt :: roundFor i ch ks n = (SysOp.updA dt :: roundOps ch ks n).map (mop i) := by
    rw [List.map_cons, roundOps_map]; rfl
  rw [this, trace_map_mop]; rfl

/-- **The tick and the round of client `i`, interleaved with anything.**  Let client `i` be in the table (`c`) with
    link `l`; let `cu` be its table entry after `update(dt)` and `u` the state its server → client projection reaches
    by the round.  Then EVERY `MSys` run from `m` whose local trace for `i` is "server update, flush for `i`, the
    deliveries `ks` to `i`, `n` × `receive_message`" — whatever else it contains for other clients — ends with the
    table entry `u.a` and the link `liftLink l u` for client `i`. -/
theorem tick_round_view {P : Params} {m m'' : MSys} {i : Nat} {c cu : Conn} {l : Link} {dt ch : Nat} {ks : List Nat}
    {n : Nat} (hw : m.WF P) (hc : conn? m.server i = some c) (hl : m.links i = some l) (hcu : c.update dt = .ok cu)
    (u : Sys) (hu : (down ⟨some cu, some l⟩ l).run (roundOps ch ks n) = some u) (ops' : List MOp)
    (ht : trace i ops' = trace i (.srvUpdate dt :: roundFor i ch ks n)) (hr : m.run ops' = some m'') :
    m''.view i = ⟨some u.a, some (liftLink l u)⟩ := by
  have h1 := run_view i ops' m m'' hw hr
  rw [← lvrun_filter] at h1
  have ht' : (ops'.map (MOp.act i)).filter (· != .skip) = .sUpd dt :: (roundOps ch ks n).map lact := by
    rw [← trace_tick_round]; exact ht
  rw [ht'] at h1
  have hv : m.view i = ⟨some c, some l⟩ := by unfold MSys.view; rw [hc, hl]
  rw [hv] at h1
  simp only [LV.run, LV.apply, hcu] at h1
  obtain ⟨a1, -⟩ := lift_run P _ cu l u (roundOps_isRound ch ks n) hu
  rw [a1] at h1
  exact (Option.some.inj h1).symm

/-- the same without the tick -/
theorem round_view {P : Params} {m m'' : MSys} {i : Nat} {c : Conn} {l : Link} {ch : Nat} {ks : List Nat}
    {n : Nat} (hw : m.WF P) (hc : conn? m.server i = some c) (hl : m.links i = some l)
    (u : Sys) (hu : (down ⟨some c, some l⟩ l).run (roundOps ch ks n) = some u) (ops' : List MOp)
    (ht : trace i ops' = trace i (roundFor i ch ks n)) (hr : m.run ops' = some m'') :
    m''.view i = ⟨some u.a, some (liftLink l u)⟩ := by
  have h1 := run_view i ops' m m'' hw hr
  rw [← lvrun_filter] at h1
  have ht' : (ops'.map (MOp.act i)).filter (· != .skip) = (roundOps ch ks n).map lact := by
    rw [← trace_round]; exact ht
  rw [ht'] at h1
  have hv : m.view i = ⟨some c, some l⟩ := by unfold MSys.view; rw [hc, hl]
  rw [hv] at h1
  obtain ⟨a1, -⟩ := lift_run P _ c l u (roundOps_isRound ch ks n) hu
  rw [a1] at h1
  exact (Option.some.inj h1).symm

/-- the liveness invariants of the server → client projection survive the server's `update` -/
theorem goodL_tick {P : Params} {c cu : Conn} {l : Link} {dt : Nat} (hg : GoodL P.down (down ⟨some c, some l⟩ l))
    (hcu : c.update dt = .ok cu) :
    (down ⟨some c, some l⟩ l).step (.updA dt) = some (down ⟨some cu, some l⟩ l) ∧
      GoodL P.down (down ⟨some cu, some l⟩ l) := by
  have hs : (down ⟨some c, some l⟩ l).step (.updA dt) = some (down ⟨some cu, some l⟩ l) := by
    simp only [Sys.step, down, LV.srv, Option.getD_some, hcu]
  exact ⟨hs, goodL_step hg hs⟩

/-- operations that concern other clients only address nothing to `i` -/
theorem addressed_nil_of_skip {op : MOp} {i : Nat} (h : op.act i = .skip) (ch : Nat) : op.addressed i ch = [] := by
  cases op <;> simp only [MOp.act] at h <;> (try split at h) <;> (try cases h) <;> simp_all [MOp.addressed]

theorem addressedTo_nil_of_skip {ops : List MOp} {i : Nat} (h : ∀ op ∈ ops, op.act i = .skip) (ch : Nat) :
    addressedTo i ch ops = [] := by
  unfold addressedTo
  rw [List.flatMap_eq_nil_iff]
  exact fun op hop => addressed_nil_of_skip (h op hop) ch

end RenetVerif.MultiLive
