/-
  A concrete world for the `example`s of Props/C05, C10, C18: toy AEAD, one server (2 slots), a client with a token
  sealed under the server's key, the four handshake datagrams.  All values are written out (compactly); that they are
  what the model computes is checked fact by fact (`decide +kernel`, one model step each).
-/
import RenetVerif.Lemmas.NcTimeout
import RenetVerif.Lemmas.NcHandshake
namespace RenetVerif.Netcode
namespace NS.Ex
open RenetVerif

/-! Equality tests the kernel can run quickly: the derived `DecidableEq RP` goes through `Vector`/`Array` equality
    (6 s per comparison in the kernel); comparing the underlying lists takes 0.4 s. -/

theorem rp_eq_iff (x y : RP) : x = y ↔ x.mostRecent = y.mostRecent ∧ x.received.toList = y.received.toList := by
  constructor
  · rintro rfl; exact ⟨rfl, rfl⟩
  · rintro ⟨h1, h2⟩
    cases x; cases y
    simp only at h1 h2
    subst h1
    congr
    exact Vector.toList_inj.mp h2

instance (priority := high) fastRPEq : DecidableEq RP := fun x y => decidable_of_iff _ (rp_eq_iff x y).symm

theorem conn_eq_iff (x y : Connection) : x = y ↔
    x.confirmed = y.confirmed ∧ x.clientId = y.clientId ∧ x.state = y.state ∧ x.sendKey = y.sendKey ∧
    x.receiveKey = y.receiveKey ∧ x.userData = y.userData ∧ x.addr = y.addr ∧
    x.lastPacketReceivedTime = y.lastPacketReceivedTime ∧ x.lastPacketSendTime = y.lastPacketSendTime ∧
    x.timeoutSeconds = y.timeoutSeconds ∧ x.sequence = y.sequence ∧ x.expireTimestamp = y.expireTimestamp ∧
    x.replayProtection = y.replayProtection := by
  constructor
  · rintro rfl; simp
  · intro h
    cases x; cases y
    simp only at h
    obtain ⟨rfl, rfl, rfl, rfl, rfl, rfl, rfl, rfl, rfl, rfl, rfl, rfl, rfl⟩ := h
    rfl

instance (priority := high) fastConnEq : DecidableEq Connection :=
  fun x y => decidable_of_iff _ (conn_eq_iff x y).symm

theorem server_eq_iff (x y : NetcodeServer) : x = y ↔
    x.clients = y.clients ∧ x.pendingClients = y.pendingClients ∧ x.connectTokenEntries = y.connectTokenEntries ∧
    x.protocolId = y.protocolId ∧ x.connectKey = y.connectKey ∧ x.maxClients = y.maxClients ∧
    x.challengeSequence = y.challengeSequence ∧ x.challengeKey = y.challengeKey ∧
    x.publicAddresses = y.publicAddresses ∧ x.currentTime = y.currentTime ∧ x.globalSequence = y.globalSequence ∧
    x.secure = y.secure := by
  constructor
  · rintro rfl; simp
  · intro h
    cases x; cases y
    simp only at h
    obtain ⟨rfl, rfl, rfl, rfl, rfl, rfl, rfl, rfl, rfl, rfl, rfl, rfl⟩ := h
    rfl

/-- (named, in this namespace: a `deriving instance` here could clash with one in another file) -/
instance serverEq : DecidableEq NetcodeServer := fun x y => decidable_of_iff _ (server_eq_iff x y).symm

theorem client_eq_iff (x y : NetcodeClient) : x = y ↔
    x.state = y.state ∧ x.clientId = y.clientId ∧ x.connectStartTime = y.connectStartTime ∧
    x.lastPacketSendTime = y.lastPacketSendTime ∧ x.lastPacketReceivedTime = y.lastPacketReceivedTime ∧
    x.currentTime = y.currentTime ∧ x.sequence = y.sequence ∧ x.serverAddr = y.serverAddr ∧
    x.serverAddrIndex = y.serverAddrIndex ∧ x.connectToken = y.connectToken ∧
    x.challengeTokenSequence = y.challengeTokenSequence ∧ x.challengeTokenData = y.challengeTokenData ∧
    x.maxClients = y.maxClients ∧ x.clientIndex = y.clientIndex ∧ x.sendRate = y.sendRate ∧
    x.replayProtection = y.replayProtection := by
  constructor
  · rintro rfl; simp
  · intro h
    cases x; cases y
    simp only at h
    obtain ⟨rfl, rfl, rfl, rfl, rfl, rfl, rfl, rfl, rfl, rfl, rfl, rfl, rfl, rfl, rfl, rfl⟩ := h
    rfl

instance clientEq : DecidableEq NetcodeClient := fun x y => decidable_of_iff _ (client_eq_iff x y).symm


/-- The toy AEAD of the model (identity cipher) with one change: the last tag byte of the 24-byte-nonce variant is
    the first nonce byte, so that two connect tokens (different xnonces) have different MACs.  (With a constant tag
    every token would look like "the same token" to the token-to-address table.) -/
def a : AEAD where
  «seal» _ _ _ p := p ++ List.replicate 16 0
  «open» _ _ _ c :=
    if c.length < 16 then none
    else if c.drop (c.length - 16) = List.replicate 16 0 then some (c.take (c.length - 16)) else none
  xseal _ n _ p := p ++ (List.replicate 15 0 ++ [n.headD 0])
  xopen _ n _ c :=
    if c.length < 16 then none
    else if c.drop (c.length - 16) = List.replicate 15 0 ++ [n.headD 0] then some (c.take (c.length - 16)) else none
def srvAddr : Addr := .v4 [127, 0, 0, 1] 5000
def addrA : Addr := .v4 [10, 0, 0, 2] 4000
def addrB : Addr := .v4 [10, 0, 0, 3] 4001
def key : Bytes := List.replicate 32 7
def ckey : Bytes := List.replicate 32 9
def udA : Bytes := List.replicate 256 1
def kc2s : Bytes := List.replicate 32 3
def ks2c : Bytes := List.replicate 32 4
def xnA : Bytes := List.replicate 24 5
def macA : Bytes := List.replicate 15 0 ++ [5]
def macB : Bytes := List.replicate 15 0 ++ [15]

/-- what `NetcodeServer::new(now = 0, max_clients = 2, protocol 42, [srvAddr], Secure{key})` returns, except that the
    token-entry table has 3 entries instead of 2048 (kernel evaluation of a scan over 2048 lazily updated records
    overflows the kernel's stack; no theorem used in the examples reads the table's length) -/
def s0 : NetcodeServer :=
  { clients := [none, none], pendingClients := [], connectTokenEntries := [none, none, none], protocolId := 42
    connectKey := key, maxClients := 2, challengeSequence := 0, challengeKey := ckey, publicAddresses := [srvAddr]
    currentTime := 0, globalSequence := 2 ^ 63, secure := true }

theorem s0_empty : EmptyServer s0 := ⟨rfl, by decide, rfl, 3, by decide, rfl⟩

/-- the private token of client A (id 11, timeout 5 s) -/
def privA : PrivateConnectToken := ⟨11, 5, some srvAddr :: List.replicate 31 none, kc2s, ks2c, udA⟩
/-- its serialisation, zero-padded to 1008 bytes, and the toy tag (15 zeros, first xnonce byte) -/
def privDataA : Bytes :=
  leBytes 11 8 ++ [5, 0, 0, 0] ++ [1, 0, 0, 0] ++ [1, 127, 0, 0, 1, 136, 19] ++ kc2s ++ ks2c ++ udA ++ List.replicate 680 0 ++ [5]

def tokenA : ConnectToken :=
  { clientId := 11, versionInfo := C.NETCODE_VERSION_INFO, protocolId := 42, createTimestamp := 0, expireTimestamp := 30
    xnonce := xnA, serverAddresses := some srvAddr :: List.replicate 31 none, clientToServerKey := kc2s
    serverToClientKey := ks2c, privateData := privDataA, timeoutSeconds := 5 }

/-- `tokenA` is what `ConnectToken::generate` makes for (now 0, protocol 42, 30 s, id 11, timeout 5, [srvAddr]) under
    the server's key -/
theorem tokenA_generated :
    ConnectToken.generate a 0 42 30 11 5 [srvAddr] udA kc2s ks2c xnA key = .ok tokenA := by decide +kernel

def cA0 : NetcodeClient :=
  { sequence := 0, clientId := 11, serverAddr := srvAddr, serverAddrIndex := 0, challengeTokenSequence := 0
    state := .sendingConnectionRequest, connectStartTime := 0, lastPacketSendTime := none, lastPacketReceivedTime := 0
    currentTime := 0, maxClients := 0, clientIndex := 0, sendRate := C.NETCODE_SEND_RATE_NS
    challengeTokenData := List.replicate 300 0, connectToken := tokenA, replayProtection := RP.new }

theorem cA0_new : NetcodeClient.new 0 tokenA = .ok cA0 := by decide +kernel

/-- the four handshake datagrams -/
def reqA : Bytes := 0 :: (C.NETCODE_VERSION_INFO ++ leBytes 42 8 ++ leBytes 30 8 ++ xnA ++ privDataA)
def chalTokA : Bytes := leBytes 11 8 ++ udA ++ List.replicate 36 0
def chalA : Bytes := 130 :: (leBytes (2 ^ 63) 8 ++ leBytes 1 8 ++ chalTokA ++ List.replicate 16 0)
def respA : Bytes := 19 :: 1 :: (leBytes 1 8 ++ chalTokA ++ List.replicate 16 0)
def kaA : Bytes := 20 :: 0 :: (leBytes 0 4 ++ leBytes 2 4 ++ List.replicate 16 0)

/-- client A after sending the request / receiving the challenge / sending the response / receiving the keep-alive -/
def cA1 : NetcodeClient := { cA0 with sequence := 1, lastPacketSendTime := some 0 }
def cA2 : NetcodeClient :=
  { cA1 with challengeTokenSequence := 1, lastPacketSendTime := none, challengeTokenData := chalTokA
             state := .sendingConnectionResponse }
def cA3 : NetcodeClient := { cA2 with currentTime := 250000000, sequence := 2, lastPacketSendTime := some 250000000 }
def cA4 : NetcodeClient :=
  { cA3 with lastPacketReceivedTime := 250000000, maxClients := 2, clientIndex := 0, state := .connected
             replayProtection := RP.new.advance 0 }

/-- the half-open, then connected session of A on the server -/
def pendA : Connection := mkPending 0 addrA 30 privA
def connA : Connection := promoted pendA RP.new 0

/-- server after A's request, after A's response -/
def s1 : NetcodeServer :=
  { s0 with challengeSequence := 1, globalSequence := 2 ^ 63 + 1
            connectTokenEntries := [some ⟨0, addrA, macA⟩, none, none]
            pendingClients := [(addrA, pendA)] }
def s2 : NetcodeServer := { s1 with pendingClients := [], clients := [some connA, none] }

theorem cA_request : cA0.update a 0 = .ok (some (reqA, srvAddr), cA1) := by decide +kernel
theorem s_request : step a s0 (.packet addrA reqA) = some (.packetToSend addrA chalA, s1) := by decide +kernel
theorem cA_challenge : cA1.processPacket a chalA = .ok (none, cA2) := by decide +kernel
theorem cA_response : cA2.update a 250000000 = .ok (some (respA, srvAddr), cA3) := by decide +kernel
theorem s_response : step a s1 (.packet addrA respA) = some (.clientConnected 11 addrA udA kaA, s2) := by decide +kernel
theorem cA_keepalive : cA3.processPacket a kaA = .ok (none, cA4) := by decide +kernel

/-! ### more of the world: a second client, a one-slot server, later states -/

def udB : Bytes := List.replicate 256 2
def kBc2s : Bytes := List.replicate 32 13
def kBs2c : Bytes := List.replicate 32 14
def xnB : Bytes := List.replicate 24 15
def privB : PrivateConnectToken := ⟨12, 5, some srvAddr :: List.replicate 31 none, kBc2s, kBs2c, udB⟩
def privDataB : Bytes :=
  leBytes 12 8 ++ [5, 0, 0, 0] ++ [1, 0, 0, 0] ++ [1, 127, 0, 0, 1, 136, 19] ++ kBc2s ++ kBs2c ++ udB ++ List.replicate 680 0 ++ [15]
def reqB : Bytes := 0 :: (C.NETCODE_VERSION_INFO ++ leBytes 42 8 ++ leBytes 30 8 ++ xnB ++ privDataB)
def chalTokB : Bytes := leBytes 12 8 ++ udB ++ List.replicate 36 0
def respB : Bytes := 19 :: 1 :: (leBytes 2 8 ++ chalTokB ++ List.replicate 16 0)
def pendB : Connection := mkPending 0 addrB 30 privB
def connB : Connection := promoted pendB RP.new 0

/-- run a list of operations; `none` = one of them unwound -/
def run (s : NetcodeServer) : List Op → Option NetcodeServer
  | [] => some s
  | op :: rest => match step a s op with
    | some (_, s') => run s' rest
    | none => none

/-- the results of a run -/
def results (s : NetcodeServer) : List Op → List ServerResult
  | [] => []
  | op :: rest => match step a s op with
    | some (r, s') => r :: results s' rest
    | none => []

/-- a one-slot server -/
def f0 : NetcodeServer := { s0 with clients := [none], maxClients := 1 }
theorem f0_empty : EmptyServer f0 := ⟨rfl, by decide, rfl, 3, by decide, rfl⟩

/-- both requests arrive while the slot is free, then both responses: A gets the slot, B is denied -/
def raceOps : List Op := [.packet addrA reqA, .packet addrB reqB, .packet addrA respA, .packet addrB respB]

def kaA1 : Bytes := 20 :: 0 :: (leBytes 0 4 ++ leBytes 1 4 ++ List.replicate 16 0)
def chalB : Bytes := 130 :: (leBytes (2 ^ 63 + 1) 8 ++ leBytes 2 8 ++ chalTokB ++ List.replicate 16 0)
def deniedB : Bytes := 129 :: (leBytes (2 ^ 63 + 2) 8 ++ List.replicate 16 0)

/-- the one-slot server with A's, then both handshakes half-open, then with A connected -/
def f1 : NetcodeServer :=
  { f0 with challengeSequence := 1, globalSequence := 2 ^ 63 + 1
            connectTokenEntries := [some ⟨0, addrA, macA⟩, none, none], pendingClients := [(addrA, pendA)] }
def f2 : NetcodeServer :=
  { f0 with challengeSequence := 2, globalSequence := 2 ^ 63 + 2
            connectTokenEntries := [some ⟨0, addrA, macA⟩, some ⟨0, addrB, macB⟩, none]
            pendingClients := [(addrA, pendA), (addrB, pendB)] }
def f3 : NetcodeServer := { f2 with pendingClients := [(addrB, pendB)], clients := [some connA] }
def f4 : NetcodeServer := { f3 with pendingClients := [], globalSequence := 2 ^ 63 + 3 }

theorem f_reqA : step a f0 (.packet addrA reqA) = some (.packetToSend addrA chalA, f1) := by decide +kernel
theorem f_reqB : step a f1 (.packet addrB reqB) = some (.packetToSend addrB chalB, f2) := by decide +kernel
theorem f_respA : step a f2 (.packet addrA respA) = some (.clientConnected 11 addrA udA kaA1, f3) := by decide +kernel
theorem f_respB : step a f3 (.packet addrB respB) = some (.packetToSend addrB deniedB, f4) := by decide +kernel

/-- server `s2` (A connected) later: a keep-alive of A arrives, time passes -/
def kaFromA : Bytes := 20 :: 2 :: (leBytes 0 4 ++ leBytes 0 4 ++ List.replicate 16 0)
def s2k : NetcodeServer := { s2 with clients := [some (refreshed connA (RP.new.advance 2) 0), none] }
theorem s_keepalive : step a s2 (.packet addrA kaFromA) = some (.none, s2k) := by decide +kernel

def discA : Bytes := 22 :: 1 :: List.replicate 16 0
def s3 : NetcodeServer := { s2 with clients := [none, none] }
theorem s_disconnect : step a s2 (.disconnect 11) = some (.clientDisconnected 11 addrA (some discA), s3) := by
  decide +kernel

/-! ### material for the C05 examples -/

theorem pp_of_step {s : NetcodeServer} {addr : Addr} {buf : Bytes} {x : ServerResult × NetcodeServer}
    (h : step a s (.packet addr buf) = some x) : s.processPacket a addr buf = .ok x := by
  simp only [step] at h
  cases hp : s.processPacket a addr buf with
  | ok y => rw [hp] at h; simp only [Option.some.injEq] at h; rw [h]
  | err e => exact e.elim
  | panic m => rw [hp] at h; cases h

/-- A's request, as the decoder sees it (for any protocol id: requests are not sealed at packet level) -/
theorem reqA_decodes (pid : Nat) : (Packet.decode a reqA pid none none).1 =
    .ok (0, .connectionRequest C.NETCODE_VERSION_INFO 42 30 xnA privDataA) := by
  have h : ∀ pid, Packet.decode a reqA pid none none = Packet.decode a reqA 0 none none := by
    intro pid; rw [decode_eq, decode_eq]
  rw [h]; decide +kernel

/-- the same request with the last tag byte of the private token changed -/
def privDataT : Bytes := privDataA.dropLast ++ [6]
def reqT : Bytes := 0 :: (C.NETCODE_VERSION_INFO ++ leBytes 42 8 ++ leBytes 30 8 ++ xnA ++ privDataT)
theorem reqT_decodes : (Packet.decode a reqT 42 none none).1 =
    .ok (0, .connectionRequest C.NETCODE_VERSION_INFO 42 30 xnA privDataT) := by decide +kernel

/-- servers differing from `s0` in one parameter -/
def sLate : NetcodeServer := { s0 with currentTime := 30000000000 }
def sPid : NetcodeServer := { s0 with protocolId := 43 }
def sHost : NetcodeServer := { s0 with publicAddresses := [addrB] }
theorem sLate_empty : EmptyServer sLate := ⟨rfl, by decide, rfl, 3, by decide, rfl⟩
theorem sPid_empty : EmptyServer sPid := ⟨rfl, by decide, rfl, 3, by decide, rfl⟩
theorem sHost_empty : EmptyServer sHost := ⟨rfl, by decide, rfl, 3, by decide, rfl⟩

theorem privA_opens (s : NetcodeServer) (hp : s.protocolId = 42) : TokenOpens a s 30 xnA privDataA privA := by
  refine ⟨privDataA.take 1008, ?_, ?_⟩
  · rw [hp]
    exact (by decide +kernel :
      a.xopen [] xnA (PrivateConnectToken.additionalData 42 30) privDataA = some (privDataA.take 1008))
  · decide +kernel

/-- a response from A's address echoing a challenge token for another id / user data -/
def respBad : Bytes := 19 :: 1 :: (leBytes 1 8 ++ chalTokB ++ List.replicate 16 0)
theorem respBad_decodes : Packet.decode a respBad 42 (some kc2s) (some RP.new) =
    (.ok (1, .response 1 chalTokB), some RP.new) := by decide +kernel
theorem chalTokB_opens : ChallengeToken.decode a chalTokB 1 ckey = .ok ⟨12, udB⟩ := by decide +kernel
theorem respA_decodes : Packet.decode a respA 42 (some kc2s) (some RP.new) =
    (.ok (1, .response 1 chalTokA), some RP.new) := by decide +kernel
theorem chalTokA_opens : ChallengeToken.decode a chalTokA 1 ckey = .ok ⟨11, udA⟩ := by decide +kernel

/-! ### material for the C18 examples -/

/-- `s2` (A connected, receive timer 0, timeout 5 s) after 5 s, and one nanosecond later -/
def s2at5 : NetcodeServer := { s2 with currentTime := 5000000000 }
def s2late : NetcodeServer := { s2 with currentTime := 5000000001 }
theorem s_wait5 : step a s2 (.update 5000000000) = some (.none, s2at5) := by decide +kernel
theorem s_wait5' : step a s2 (.update 5000000001) = some (.none, s2late) := by decide +kernel
theorem inv_s2 : ServerInv s2 := step_inv (step_inv s0_empty.inv s_request) s_response

/-- a keep-alive shaped datagram from A's address whose tag is wrong -/
def forgedKa : Bytes := 20 :: 3 :: (leBytes 0 4 ++ leBytes 0 4 ++ List.replicate 15 0 ++ [1])

/-- a client holding a token with two server addresses -/
def srv2 : Addr := .v4 [127, 0, 0, 2] 5001
def cF : NetcodeClient :=
  { cA0 with connectToken := { tokenA with serverAddresses := some srvAddr :: some srv2 :: List.replicate 30 none } }

/-! ### runs with their event logs; a second session of A; payloads; a full token-entry table -/

/-- run a list of operations, collecting the events -/
def runLog (s : NetcodeServer) : List Op → Option (NetcodeServer × List Event)
  | [] => some (s, [])
  | op :: rest => match step a s op with
    | some (r, s') => (runLog s' rest).map fun x => (x.1, eventOf r ++ x.2)
    | none => none

theorem reach_runLog : ∀ (ops : List Op) {s s' : NetcodeServer} {log evs : List Event}, Reach a s log →
    runLog s ops = some (s', evs) → Reach a s' (log ++ evs)
  | [], s, s', log, evs, hr, h => by
    simp only [runLog, Option.some.injEq, Prod.mk.injEq] at h
    obtain ⟨rfl, rfl⟩ := h
    simpa using hr
  | op :: rest, s, s', log, evs, hr, h => by
    simp only [runLog] at h
    cases hs : step a s op with
    | none => rw [hs] at h; cases h
    | some x =>
      obtain ⟨r, s1⟩ := x
      rw [hs] at h
      simp only [Option.map_eq_some_iff, Prod.mk.injEq] at h
      obtain ⟨⟨s2, evs2⟩, h2, rfl, rfl⟩ := h
      have := reach_runLog rest (.step hr hs) h2
      simpa [List.append_assoc] using this

/-- A disconnects (server side), connects again with the same token from the same address, and is disconnected again;
    the second response echoes challenge sequence 2 -/
def respA2 : Bytes := 19 :: 1 :: (leBytes 2 8 ++ chalTokA ++ List.replicate 16 0)
def againOps : List Op := [.disconnect 11, .packet addrA reqA, .packet addrA respA2, .disconnect 11]
theorem again_events : (runLog s2 againOps).map (·.2) =
    some [.disconnected 11 addrA, .connected 11 addrA udA, .disconnected 11 addrA] := by decide +kernel

/-- a payload datagram from A (sequence 2), and the server's view of it -/
def payFromA : Bytes := 21 :: 2 :: ([1, 2, 3] ++ List.replicate 16 0)
theorem s_payload : s2.processPacket a addrA payFromA = .ok (.payload 11 [1, 2, 3], s2k) := by decide +kernel
/-- a payload for A -/
def payToA : Bytes := 21 :: 1 :: ([9, 9] ++ List.replicate 16 0)
theorem s_sendPayload : s2.generatePayloadPacket a 11 [9, 9] =
    .ok ((addrA, payToA), { s2 with clients := [some (sentKeepAlive connA 0), none] }) := by decide +kernel

/-- a server without sessions whose (3-entry) token table is full -/
def e1 : ConnectTokenEntry := ⟨1, addrA, macA⟩
def e2 : ConnectTokenEntry := ⟨2, addrB, macB⟩
def e3 : ConnectTokenEntry := ⟨3, addrB, List.replicate 15 0 ++ [25]⟩
def sFull : NetcodeServer := { s0 with connectTokenEntries := [some e1, some e2, some e3], currentTime := 4 }

theorem sFull_inv : ServerInv sFull := by
  have h0 := s0_empty.inv
  obtain ⟨h1, h2, h3, h4, h5, _, _, h8, h9⟩ := h0
  refine ⟨h1, ?_, ?_, h4, h5, by decide, ?_, h8, h9⟩
  · intro i c hc; exact (h2 i c hc).mono (by decide)
  · intro p hp; cases hp
  · intro i j ei ej hi hj he
    have hi' : i < 3 := (List.getElem?_eq_some_iff.mp hi).1
    have hj' : j < 3 := (List.getElem?_eq_some_iff.mp hj).1
    match i, j, hi', hj' with
    | 0, 0, _, _ => rfl
    | 1, 1, _, _ => rfl
    | 2, 2, _, _ => rfl
    | 0, 1, _, _ => simp [sFull] at hi hj; subst hi hj; exact absurd he (by decide)
    | 0, 2, _, _ => simp [sFull] at hi hj; subst hi hj; exact absurd he (by decide)
    | 1, 0, _, _ => simp [sFull] at hi hj; subst hi hj; exact absurd he (by decide)
    | 1, 2, _, _ => simp [sFull] at hi hj; subst hi hj; exact absurd he (by decide)
    | 2, 0, _, _ => simp [sFull] at hi hj; subst hi hj; exact absurd he (by decide)
    | 2, 1, _, _ => simp [sFull] at hi hj; subst hi hj; exact absurd he (by decide)

end NS.Ex
end RenetVerif.Netcode
