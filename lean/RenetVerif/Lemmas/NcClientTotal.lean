/-
  Whole-trace TOTALITY of the model `NetcodeClient` (`Netcode/Client.lean`).

    * `CTInv`: the trace invariant — `NetcodeClient.CInv` (time stamps not in the future, the full 32-entry address array of a
      token read by `ConnectToken::read`, an `i32` timeout) plus "the packet counter is a `u64`";
    * per-call laws under `CTInv`: `update_ct` (clock law `current_time' = current_time + d`, counter law
      `sequence ≤ sequence' ≤ sequence + 1`), `pp_ct` (ARBITRARY bytes: nothing but window / state / receive time moves),
      `send_eq` / `send_panics_iff` (the EXACT result of `generate_payload_packet`, and exactly when it unwinds),
      `disconnect_eq` (the exact result of `disconnect`: always `Ok`);
    * `tstep` / `trun`: one API call / a run of `Cl.COp` calls with the log (state before the call, call, result);
      `Documented`: the documented outcomes of a call;
    * `HeadRoom c ops`: `current_time + Σ d + tmo c ≤ Duration::MAX` (`tmo c`: the token's OWN timeout as a duration) and
      `sequence + #(update | send calls) ≤ u64::MAX`;
    * `trun_total`: along ANY trace inside the head room `HeadRoom` no call unwinds, the invariant is kept, the clock is
      `current_time + Σ d`, the counter moved by at most the number of sending calls, the token is the same, and every logged
      result is `Documented`;  `prun_total`: the same for the runner `NcClientTrace.prun`.
  Used by `Props/C07C.lean` and `Props/SrcPropsNcClientTotal.lean`.
-/
import RenetVerif.Lemmas.NcClientTrace
set_option linter.unusedSimpArgs false
set_option linter.unusedVariables false
namespace RenetVerif.NcClientTotal
open RenetVerif RenetVerif.Netcode RenetVerif.Netcode.Packet RenetVerif.Netcode.NetcodeClient RenetVerif.NcAead
open RenetVerif.NcClientTrace

/-! ## the trace invariant -/

/-- the trace invariant of a `NetcodeClient` -/
structure CTInv (c : NetcodeClient) : Prop where
  /-- what `update` needs (`C07.client_update_total`) -/
  cinv : CInv c
  /-- `sequence` is a `u64` -/
  seq_u64 : c.sequence ≤ U64_MAX

theorem ctinv_new {src : Bytes} {t : ConnectToken} (h : ConnectToken.read src = .ok t) {now : Nat} {c : NetcodeClient}
    (hc : NetcodeClient.new now t = .ok c) : CTInv c ∧ c.currentTime = now ∧ c.sequence = 0 ∧ c.connectToken = t := by
  refine ⟨⟨cinv_new h hc, ?_⟩, ?_⟩
  all_goals
    unfold NetcodeClient.new at hc
    split at hc
    · cases hc
      first | exact Nat.zero_le _ | exact ⟨rfl, rfl, rfl⟩
    · cases hc

/-- `new` on a token with a first address, 32 address slots and an `i32` timeout (what `ConnectToken::read` guarantees) -/
theorem ctinv_new_of {t : ConnectToken} (hlen : C.NETCODE_TOKEN_MAX_ADDRESSES ≤ t.serverAddresses.length)
    (hto : t.timeoutSeconds < 2 ^ 31) {now : Nat} {c : NetcodeClient}
    (hc : NetcodeClient.new now t = .ok c) : CTInv c ∧ c.currentTime = now ∧ c.sequence = 0 ∧ c.connectToken = t := by
  unfold NetcodeClient.new at hc
  split at hc
  · cases hc
    exact ⟨⟨⟨Nat.le_refl _, fun t h => (by cases h), Nat.le_refl _, hlen, hto⟩, Nat.zero_le _⟩, rfl, rfl, rfl⟩
  · cases hc

/-! ## `update` -/

/-- `generate_packet` never touches the clock -/
theorem gen_time {a : AEAD} {c c' : NetcodeClient} {o : Option (Bytes × Addr)}
    (h : generatePacket a c = .ok (o, c')) : c'.currentTime = c.currentTime := by
  unfold generatePacket at h
  rw [Res.bind_eq_ok] at h
  obtain ⟨tooSoon, _, h⟩ := h
  split at h
  · cases h; rfl
  · simp only at h
    cases hst : c.state with
    | disconnected r =>
      simp only [hst, Bool.false_eq_true, ↓reduceIte] at h
      cases h; rfl
    | connected =>
      simp only [hst, Bool.false_eq_true, ↓reduceIte] at h
      split at h
      · cases h
      · cases h; rfl
      · rw [Res.bind_eq_ok] at h
        obtain ⟨sq, hsq, h⟩ := h
        cases h; rfl
    | sendingConnectionRequest =>
      simp only [hst, Bool.false_eq_true, ↓reduceIte] at h
      split at h
      · cases h
      · cases h; rfl
      · rw [Res.bind_eq_ok] at h
        obtain ⟨sq, hsq, h⟩ := h
        cases h; rfl
    | sendingConnectionResponse =>
      simp only [hst, Bool.false_eq_true, ↓reduceIte] at h
      split at h
      · cases h
      · cases h; rfl
      · rw [Res.bind_eq_ok] at h
        obtain ⟨sq, hsq, h⟩ := h
        cases h; rfl

/-- the client's own time-out as a duration (`Duration::from_secs(connect_token.timeout_seconds as u64)`; 0 when not positive) -/
def tmo (c : NetcodeClient) : Nat := fromSecs c.connectToken.timeoutSeconds.toNat

theorem tmo_le_max {c : NetcodeClient} (h : CInv c) : tmo c ≤ TIMEOUT_MAX_NS := timeout_le h.timeout

/-- `updateInternalState_sat` (`Lemmas/NcWire.lean`) with the room of the token's OWN timeout instead of the largest one -/
theorem uis_sat_sharp (c : NetcodeClient) (d : Nat) (hinv : CInv c) (ht : c.currentTime + d + tmo c ≤ DURATION_MAX) :
    (updateInternalState c d).Sat (fun _ => True)
      (fun r => CInv r.2 ∧ r.2.sequence = c.sequence ∧ r.2.currentTime = c.currentTime + d) := by
  obtain ⟨h1, h2, h3, h4, h5⟩ := hinv
  unfold tmo at ht
  unfold updateInternalState
  rw [durAdd_ok (by omega)]
  simp only [Res.bind_ok]
  refine Res.sat_bind (Q := fun _ => True) ?_ ?_
  · split
    · rw [durAdd_ok (by omega)]; trivial
    · trivial
  intro timedOut _
  have base : CInv { c with currentTime := c.currentTime + d } :=
    ⟨by dsimp only; omega, fun t h => by have := h2 t h; dsimp only; omega, by dsimp only; omega, h4, h5⟩
  split
  · -- sendingConnectionRequest
    rw [csub_ok (by omega)]
    simp only [Res.bind_ok]
    split
    · exact ⟨⟨base.1, base.2, base.3, h4, h5⟩, rfl, rfl⟩
    split
    · split
      · exact ⟨⟨base.1, base.2, base.3, h4, h5⟩, rfl, rfl⟩
      split
      · rename_i hidx hnone
        have hlt : c.serverAddrIndex + 1 < c.connectToken.serverAddresses.length := by
          have h32 : C.NETCODE_TOKEN_MAX_ADDRESSES = 32 := rfl
          omega
        rw [List.getElem?_eq_getElem hlt] at hnone; cases hnone
      · exact ⟨⟨base.1, base.2, base.3, h4, h5⟩, rfl, rfl⟩
      · exact ⟨⟨Nat.le_refl _, fun t h => (by cases h), Nat.le_refl _, h4, h5⟩, rfl, rfl⟩
    · exact ⟨base, rfl, rfl⟩
  · -- sendingConnectionResponse
    rw [csub_ok (by omega)]
    simp only [Res.bind_ok]
    split
    · exact ⟨⟨base.1, base.2, base.3, h4, h5⟩, rfl, rfl⟩
    split
    · split
      · exact ⟨⟨base.1, base.2, base.3, h4, h5⟩, rfl, rfl⟩
      split
      · rename_i hidx hnone
        have hlt : c.serverAddrIndex + 1 < c.connectToken.serverAddresses.length := by
          have h32 : C.NETCODE_TOKEN_MAX_ADDRESSES = 32 := rfl
          omega
        rw [List.getElem?_eq_getElem hlt] at hnone; cases hnone
      · exact ⟨⟨base.1, base.2, base.3, h4, h5⟩, rfl, rfl⟩
      · exact ⟨⟨Nat.le_refl _, fun t h => (by cases h), Nat.le_refl _, h4, h5⟩, rfl, rfl⟩
    · exact ⟨base, rfl, rfl⟩
  · split
    · exact ⟨⟨base.1, base.2, base.3, h4, h5⟩, rfl, rfl⟩
    · exact ⟨base, rfl, rfl⟩
  · exact ⟨base, rfl, rfl⟩

/-- `C07.client_update_total` with the room of the token's own timeout -/
theorem update_total_sharp (a : AEAD) (c : NetcodeClient) (d : Nat) (hinv : CInv c)
    (ht : c.currentTime + d + tmo c ≤ DURATION_MAX) (hseq : c.sequence + 1 ≤ U64_MAX) :
    ∃ r c', NetcodeClient.update a c d = .ok (r, c') ∧ CInv c' := by
  have key : (NetcodeClient.update a c d).Sat (fun _ => True) (fun r => CInv r.2) := by
    unfold NetcodeClient.update
    refine Res.sat_bind (uis_sat_sharp c d hinv ht) ?_
    rintro ⟨e, c1⟩ ⟨hi, hs, _⟩
    dsimp only at hi hs ⊢
    split
    · exact hi
    · exact generatePacket_sat a c1 hi (by rw [hs]; exact hseq)
  cases h : NetcodeClient.update a c d with
  | ok rc => rw [h] at key; exact ⟨rc.1, rc.2, rfl, key⟩
  | err e => exact e.elim
  | panic m => rw [h] at key; exact key.elim

/-- **`update` under the invariant**: with clock and counter head room the call returns normally, keeps the invariant and the
    token, advances the clock by exactly `d` and the counter by at most one; a disconnected client sends nothing. -/
theorem update_ct (a : AEAD) {c : NetcodeClient} (d : Nat) (hinv : CTInv c)
    (ht : c.currentTime + d + tmo c ≤ DURATION_MAX) (hseq : c.sequence + 1 ≤ U64_MAX) :
    ∃ o c', NetcodeClient.update a c d = .ok (o, c') ∧ CTInv c' ∧ c'.currentTime = c.currentTime + d ∧
      c.sequence ≤ c'.sequence ∧ c'.sequence ≤ c.sequence + 1 ∧ c'.connectToken = c.connectToken ∧
      (Cl.isDisc c → o = none) := by
  obtain ⟨o, c', hu, hci⟩ := update_total_sharp a c d hinv.cinv ht hseq
  obtain ⟨e, c1, hu1, hh⟩ := Cl.update_eq hu
  obtain ⟨-, hs1, ht1⟩ := (uis_sat_sharp c d hinv.cinv ht).of_ok hu1
  dsimp only at hs1 ht1
  obtain ⟨hk1, -, -, hd1⟩ := Cl.uis_spec hu1
  rcases hh with ⟨he, rfl, rfl⟩ | ⟨rfl, hg⟩
  · exact ⟨none, c', hu, ⟨hci, by omega⟩, ht1, by omega, by omega, hk1, fun _ => rfl⟩
  · obtain ⟨hk2, -, -, hn, hsome⟩ := Cl.gen_spec hg
    have htime := gen_time hg
    have hsq : c1.sequence ≤ c'.sequence ∧ c'.sequence ≤ c1.sequence + 1 := by
      cases o with
      | none => have := hn rfl; omega
      | some x => obtain ⟨out, addr⟩ := x; have := (hsome out addr rfl).1; omega
    refine ⟨o, c', hu, ⟨hci, by omega⟩, by omega, by omega, by omega, by rw [hk2, hk1], fun hd => ?_⟩
    exact absurd rfl (hd1 hd).1

/-- necessity of the clock head room: past `Duration::MAX` the call unwinds (`current_time += duration`) -/
theorem update_panics_of_clock (a : AEAD) (c : NetcodeClient) (d : Nat) (h : DURATION_MAX < c.currentTime + d) :
    (NetcodeClient.update a c d).isPanic = true := by
  unfold NetcodeClient.update updateInternalState durAdd
  rw [if_neg (by omega)]
  rfl

/-! ## `process_packet` -/

/-- **`process_packet` under the invariant**: ANY byte string, no head room needed; clock, counter and token do not move; a payload
    surfaces only in `Connected` -/
theorem pp_ct (a : AEAD) {c : NetcodeClient} (buf : Bytes) (hinv : CTInv c) :
    ∃ r c', processPacket a c buf = .ok (r, c') ∧ CTInv c' ∧ c'.currentTime = c.currentTime ∧ c'.sequence = c.sequence ∧
      c'.connectToken = c.connectToken ∧ (r ≠ none → c.state = .connected) := by
  obtain ⟨r, c', hp⟩ := processPacket_total a c buf
  obtain ⟨hci, hs, ht⟩ := processPacket_cinv a hinv.cinv hp
  refine ⟨r, c', hp, ⟨hci, by rw [hs]; exact hinv.seq_u64⟩, ht, hs, (Cl.recv_spec hp).1, fun hr => ?_⟩
  cases r with
  | none => exact absurd rfl hr
  | some p => exact (processPacket_payload_inv a hp).1

/-! ## `generate_payload_packet` and `disconnect`: the exact results -/

theorem max_payload_eq : C.NETCODE_MAX_PAYLOAD_BYTES = 1300 := rfl
theorem max_packet_eq : C.NETCODE_MAX_PACKET_BYTES = 1400 := rfl

/-- sealing a payload of at most `NETCODE_MAX_PAYLOAD_BYTES` bytes into the `NETCODE_MAX_PACKET_BYTES` buffer always succeeds -/
theorem encode_payload_ok (a : AEAD) (pl : Bytes) (proto seq : Nat) (key : Bytes) (h : pl.length ≤ C.NETCODE_MAX_PAYLOAD_BYTES) :
    Packet.encode a (.payload pl) C.NETCODE_MAX_PACKET_BYTES proto (some (seq, key)) =
      .ok (sealedBytes a (.payload pl) proto seq key) := by
  rw [encode_sealed_eq a _ _ _ _ _ (by intro hh; cases hh), if_pos]
  have h8 := sbr_le seq
  rw [max_payload_eq] at h
  rw [max_packet_eq]
  show 1 + sequenceBytesRequired seq + pl.length + 16 ≤ 1400
  omega

/-- sealing the `Disconnect` packet always succeeds -/
theorem encode_disconnect_ok (a : AEAD) (proto seq : Nat) (key : Bytes) :
    Packet.encode a .disconnect C.NETCODE_MAX_PACKET_BYTES proto (some (seq, key)) =
      .ok (sealedBytes a .disconnect proto seq key) := by
  rw [encode_sealed_eq a _ _ _ _ _ (by intro hh; cases hh), if_pos]
  have h8 := sbr_le seq
  rw [max_packet_eq]
  show 1 + sequenceBytesRequired seq + 0 + 16 ≤ 1400
  omega

/-- the client after a successful `generate_payload_packet` -/
def afterSend (c : NetcodeClient) : NetcodeClient :=
  { c with sequence := c.sequence + 1, lastPacketSendTime := some c.currentTime }

/-- the datagram `generate_payload_packet(pl)` emits in state `c` -/
def payloadDatagram (a : AEAD) (c : NetcodeClient) (pl : Bytes) : Bytes :=
  sealedBytes a (.payload pl) c.connectToken.protocolId c.sequence c.connectToken.clientToServerKey

/-- the datagram `disconnect()` emits in state `c` -/
def disconnectDatagram (a : AEAD) (c : NetcodeClient) : Bytes :=
  sealedBytes a .disconnect c.connectToken.protocolId c.sequence c.connectToken.clientToServerKey

/-- **the exact result of `generate_payload_packet`** (every state, every payload, no invariant needed) -/
theorem send_eq (a : AEAD) (c : NetcodeClient) (pl : Bytes) :
    generatePayloadPacket a c pl =
      if pl.length > C.NETCODE_MAX_PAYLOAD_BYTES then .err .payloadAboveLimit
      else if c.state ≠ .connected then .err .clientNotConnected
      else if c.sequence + 1 ≤ U64_MAX then .ok ((c.serverAddr, payloadDatagram a c pl), afterSend c)
      else .panic "client.rs generate_payload_packet: sequence += 1" := by
  unfold generatePayloadPacket
  split
  · rfl
  · split
    · rfl
    · rw [encode_payload_ok a pl _ _ _ (by omega)]
      simp only [Res.bind_ok, incU64]
      split <;> rfl

/-- **exactly when `generate_payload_packet` unwinds**: a sendable payload, a connected client, the counter at `u64::MAX` -/
theorem send_panics_iff (a : AEAD) (c : NetcodeClient) (pl : Bytes) :
    (generatePayloadPacket a c pl).isPanic = true ↔
      pl.length ≤ C.NETCODE_MAX_PAYLOAD_BYTES ∧ c.state = .connected ∧ U64_MAX < c.sequence + 1 := by
  rw [send_eq]
  split
  · simp only [Res.isPanic]; constructor
    · intro h; cases h
    · intro h; omega
  · split
    · rename_i hst
      simp only [Res.isPanic]; constructor
      · intro h; cases h
      · intro h; exact absurd h.2.1 hst
    · rename_i hst
      split
      · simp only [Res.isPanic]; constructor
        · intro h; cases h
        · intro h; omega
      · simp only [Res.isPanic]; constructor
        · intro _; exact ⟨by omega, by simpa using hst, by omega⟩
        · intro _; trivial

theorem ctinv_afterSend {c : NetcodeClient} (hinv : CTInv c) (hseq : c.sequence + 1 ≤ U64_MAX) : CTInv (afterSend c) :=
  ⟨⟨hinv.cinv.start_le, fun t h => (by cases h; exact Nat.le_refl _), hinv.cinv.recv_le, hinv.cinv.addrs, hinv.cinv.timeout⟩,
    hseq⟩

/-- **the exact result of `disconnect`**: always `Ok`, in every state (no invariant, no head room) -/
theorem disconnect_eq (a : AEAD) (c : NetcodeClient) :
    NetcodeClient.disconnect a c =
      (.ok (c.serverAddr, disconnectDatagram a c), { c with state := .disconnected .disconnectedByClient }) := by
  unfold NetcodeClient.disconnect
  dsimp only
  rw [encode_disconnect_ok]
  rfl

theorem ctinv_disconnect (a : AEAD) {c : NetcodeClient} (hinv : CTInv c) : CTInv (NetcodeClient.disconnect a c).2 :=
  ⟨⟨hinv.cinv.start_le, hinv.cinv.send_le, hinv.cinv.recv_le, hinv.cinv.addrs, hinv.cinv.timeout⟩, hinv.seq_u64⟩

/-! ## traces -/

/-- what a call returned -/
inductive Out where
  | sent (o : Option (Bytes × Addr))
  | received (p : Option Bytes)
  | payload (r : Addr × Bytes)
  | payloadErr (e : NetcodeError)
  | disconnected (r : Addr × Bytes)
  | disconnectErr (e : NetcodeError)

/-- one API call: the result and the new client; `none` = the call unwound -/
def tstep (a : AEAD) (c : NetcodeClient) : Cl.COp → Option (Out × NetcodeClient)
  | .update d =>
    match c.update a d with
    | .ok (o, c') => some (.sent o, c')
    | _ => none
  | .recv buf =>
    match c.processPacket a buf with
    | .ok (p, c') => some (.received p, c')
    | _ => none
  | .send p =>
    match c.generatePayloadPacket a p with
    | .ok (r, c') => some (.payload r, c')
    | .err e => some (.payloadErr e, c)
    | .panic _ => none
  | .disconnect =>
    match (c.disconnect a).1 with
    | .ok r => some (.disconnected r, (c.disconnect a).2)
    | .err e => some (.disconnectErr e, (c.disconnect a).2)
    | .panic _ => none

/-- a run: the final client and the log (client before the call, call, result), oldest first; `none` = some call unwound -/
def trun (a : AEAD) : NetcodeClient → List Cl.COp → Option (NetcodeClient × List (NetcodeClient × Cl.COp × Out))
  | c, [] => some (c, [])
  | c, op :: ops =>
    match tstep a c op with
    | none => none
    | some (o, c') =>
      match trun a c' ops with
      | none => none
      | some (c'', log) => some (c'', (c, op, o) :: log)

/-- **the documented outcomes** of a call `op` made in state `c`:
    `update` → `Ok(Option<(datagram, addr)>)`, nothing when disconnected;
    `process_packet` → `Option<payload>`, `Some` only when connected;
    `generate_payload_packet` → `Ok((server_addr, the sealed Payload datagram))` iff connected and `len ≤ NETCODE_MAX_PAYLOAD_BYTES` (1300), else
       `Err(PayloadAboveLimit)` (`len > 1300`) or `Err(ClientNotConnected)`;
    `disconnect` → `Ok((server_addr, the sealed Disconnect datagram))`, never `Err`. -/
def Documented (a : AEAD) (c : NetcodeClient) : Cl.COp → Out → Prop
  | .update _, .sent o => Cl.isDisc c → o = none
  | .recv _, .received p => p ≠ none → c.state = .connected
  | .send pl, .payload r =>
    pl.length ≤ C.NETCODE_MAX_PAYLOAD_BYTES ∧ c.state = .connected ∧ r = (c.serverAddr, payloadDatagram a c pl)
  | .send pl, .payloadErr e =>
    (pl.length > C.NETCODE_MAX_PAYLOAD_BYTES ∧ e = .payloadAboveLimit) ∨
    (pl.length ≤ C.NETCODE_MAX_PAYLOAD_BYTES ∧ c.state ≠ .connected ∧ e = .clientNotConnected)
  | .disconnect, .disconnected r => r = (c.serverAddr, disconnectDatagram a c)
  | _, _ => False

/-- the clock step of a call -/
def dur : Cl.COp → Nat
  | .update d => d
  | _ => 0

/-- the calls that may use a sequence number and advance the counter: `update` (at most one packet) and `generate_payload_packet`
    (`disconnect` seals with the current number without advancing it) -/
def sends : Cl.COp → Nat
  | .update _ => 1
  | .send _ => 1
  | _ => 0

def totalDur (ops : List Cl.COp) : Nat := (ops.map dur).sum
def totalSends (ops : List Cl.COp) : Nat := (ops.map sends).sum

/-- **the head room of a trace** (decidable): the accumulated clock stays the token's own timeout `tmo c` (nothing when it is not
    positive) below `Duration::MAX`, and the number of sending calls stays below `2^64 - sequence` -/
def HeadRoom (c : NetcodeClient) (ops : List Cl.COp) : Prop :=
  c.currentTime + totalDur ops + tmo c ≤ DURATION_MAX ∧ c.sequence + totalSends ops ≤ U64_MAX

/-- a token-independent sufficient condition: the room of the largest `i32` timeout, `TIMEOUT_MAX_NS` = 2^31 s -/
theorem headRoom_of_max {c : NetcodeClient} {ops : List Cl.COp} (hinv : CTInv c)
    (ht : c.currentTime + totalDur ops + TIMEOUT_MAX_NS ≤ DURATION_MAX) (hs : c.sequence + totalSends ops ≤ U64_MAX) :
    HeadRoom c ops :=
  ⟨by have := tmo_le_max hinv.cinv; omega, hs⟩

instance (c : NetcodeClient) (ops : List Cl.COp) : Decidable (HeadRoom c ops) := by unfold HeadRoom; infer_instance

@[simp] theorem totalDur_cons (op : Cl.COp) (ops : List Cl.COp) : totalDur (op :: ops) = dur op + totalDur ops := by
  simp [totalDur]
@[simp] theorem totalSends_cons (op : Cl.COp) (ops : List Cl.COp) : totalSends (op :: ops) = sends op + totalSends ops := by
  simp [totalSends]

/-- **one call inside the head room**: it does not unwind, the result is documented, the invariant is kept, clock and counter laws -/
theorem tstep_total (a : AEAD) {c : NetcodeClient} (op : Cl.COp) (hinv : CTInv c)
    (ht : c.currentTime + dur op + tmo c ≤ DURATION_MAX) (hseq : c.sequence + sends op ≤ U64_MAX) :
    ∃ o c', tstep a c op = some (o, c') ∧ Documented a c op o ∧ CTInv c' ∧ c'.currentTime = c.currentTime + dur op ∧
      c.sequence ≤ c'.sequence ∧ c'.sequence ≤ c.sequence + sends op ∧ c'.connectToken = c.connectToken := by
  cases op with
  | update d =>
    obtain ⟨o, c', hu, hi, h1, h2, h3, h4, h5⟩ := update_ct a d hinv ht hseq
    exact ⟨.sent o, c', by simp only [tstep, hu], h5, hi, h1, h2, h3, h4⟩
  | recv buf =>
    obtain ⟨r, c', hp, hi, h1, h2, h3, h4⟩ := pp_ct a buf hinv
    exact ⟨.received r, c', by simp only [tstep, hp], h4, hi, h1, by omega, by omega, h3⟩
  | send pl =>
    have he := send_eq a c pl
    by_cases hlen : pl.length > C.NETCODE_MAX_PAYLOAD_BYTES
    · rw [if_pos hlen] at he
      exact ⟨.payloadErr .payloadAboveLimit, c, by simp only [tstep, he], Or.inl ⟨hlen, rfl⟩, hinv, rfl, Nat.le_refl _,
        Nat.le_add_right _ _, rfl⟩
    · rw [if_neg hlen] at he
      by_cases hst : c.state ≠ .connected
      · rw [if_pos hst] at he
        exact ⟨.payloadErr .clientNotConnected, c, by simp only [tstep, he], Or.inr ⟨by omega, hst, rfl⟩, hinv, rfl,
          Nat.le_refl _, Nat.le_add_right _ _, rfl⟩
      · have hseq' : c.sequence + 1 ≤ U64_MAX := hseq
        rw [if_neg hst, if_pos hseq'] at he
        exact ⟨.payload (c.serverAddr, payloadDatagram a c pl), afterSend c, by simp only [tstep, he],
          ⟨by omega, by simpa using hst, rfl⟩, ctinv_afterSend hinv hseq, rfl, Nat.le_succ _, Nat.le_refl _, rfl⟩
  | disconnect =>
    have he := disconnect_eq a c
    refine ⟨.disconnected (c.serverAddr, disconnectDatagram a c), (NetcodeClient.disconnect a c).2, ?_, rfl,
      ctinv_disconnect a hinv, rfl, Nat.le_refl _, Nat.le_refl _, rfl⟩
    simp only [tstep, he]

/-- **whole-trace totality** of the model client: from a client satisfying `CTInv`, along ANY trace of `update` (any duration),
    `process_packet` (ARBITRARY bytes), `generate_payload_packet` (any payload) and `disconnect` calls inside the head room, no
    call unwinds; the final client satisfies `CTInv`, holds the same token, its clock is `current_time + Σ d`, its counter moved
    by at most the number of sending calls, and every logged result is a documented outcome. -/
theorem trun_total (a : AEAD) : ∀ (ops : List Cl.COp) {c : NetcodeClient}, CTInv c → HeadRoom c ops →
    ∃ c' log, trun a c ops = some (c', log) ∧ CTInv c' ∧ c'.currentTime = c.currentTime + totalDur ops ∧
      c.sequence ≤ c'.sequence ∧ c'.sequence ≤ c.sequence + totalSends ops ∧ c'.connectToken = c.connectToken ∧
      log.map (·.2.1) = ops ∧ ∀ x ∈ log, CTInv x.1 ∧ Documented a x.1 x.2.1 x.2.2 := by
  intro ops
  induction ops with
  | nil =>
    intro c hinv _
    exact ⟨c, [], rfl, hinv, rfl, Nat.le_refl _, Nat.le_refl _, rfl, rfl, fun x hx => nomatch hx⟩
  | cons op ops ih =>
    intro c hinv hr
    obtain ⟨hr1, hr2⟩ := hr
    rw [totalDur_cons] at hr1
    rw [totalSends_cons] at hr2
    obtain ⟨o, c1, hs, hdoc, hi1, t1, s1, s2, k1⟩ := tstep_total a op hinv (by omega) (by omega)
    have hk : tmo c1 = tmo c := by unfold tmo; rw [k1]
    obtain ⟨c', log, hrun, hi', t', s1', s2', k', hl, hdocs⟩ := ih hi1 ⟨by omega, by omega⟩
    refine ⟨c', (c, op, o) :: log, by simp only [trun, hs, hrun], hi', by rw [totalDur_cons]; omega, by omega,
      by rw [totalSends_cons]; omega, by rw [k', k1], by simp only [List.map_cons, hl], ?_⟩
    intro x hx
    rcases List.mem_cons.mp hx with rfl | hx
    · exact ⟨hinv, hdoc⟩
    · exact hdocs x hx

/-! ## the runner `NcClientTrace.prun` -/

theorem pstep_of_tstep {a : AEAD} {c c' : NetcodeClient} {op : Cl.COp} {o : Out} (h : tstep a c op = some (o, c')) :
    ∃ g, pstep a c op = some (c', g) := by
  cases op with
  | update d =>
    simp only [tstep] at h
    simp only [pstep]
    cases hu : c.update a d with
    | ok x => obtain ⟨o', c1⟩ := x; rw [hu] at h; cases h; exact ⟨_, rfl⟩
    | err e => exact nomatch e
    | panic m => rw [hu] at h; cases h
  | recv buf =>
    simp only [tstep] at h
    simp only [pstep]
    cases hu : c.processPacket a buf with
    | ok x =>
      obtain ⟨o', c1⟩ := x; rw [hu] at h; cases h
      cases o' <;> exact ⟨_, rfl⟩
    | err e => exact nomatch e
    | panic m => rw [hu] at h; cases h
  | send pl =>
    simp only [tstep] at h
    simp only [pstep]
    cases hu : c.generatePayloadPacket a pl with
    | ok x => obtain ⟨o', c1⟩ := x; rw [hu] at h; cases h; exact ⟨_, rfl⟩
    | err e => rw [hu] at h; cases h; exact ⟨_, rfl⟩
    | panic m => rw [hu] at h; cases h
  | disconnect =>
    simp only [tstep] at h
    simp only [pstep]
    cases hu : (NetcodeClient.disconnect a c).1 with
    | ok x => rw [hu] at h; cases h; exact ⟨_, rfl⟩
    | err e => rw [hu] at h; cases h; exact ⟨_, rfl⟩
    | panic m => rw [hu] at h; cases h

theorem prun_of_trun {a : AEAD} : ∀ (ops : List Cl.COp) {c c' : NetcodeClient} {log : List (NetcodeClient × Cl.COp × Out)},
    trun a c ops = some (c', log) → ∃ ps, prun a c ops = some (c', ps) := by
  intro ops
  induction ops with
  | nil => intro c c' log h; simp only [trun, Option.some.injEq, Prod.mk.injEq] at h; exact ⟨[], by rw [← h.1]; rfl⟩
  | cons op ops ih =>
    intro c c' log h
    simp only [trun] at h
    cases hs : tstep a c op with
    | none => rw [hs] at h; cases h
    | some y =>
      obtain ⟨o, c1⟩ := y
      rw [hs] at h
      dsimp only at h
      cases hr : trun a c1 ops with
      | none => rw [hr] at h; cases h
      | some z =>
        obtain ⟨c2, log'⟩ := z
        rw [hr] at h
        simp only [Option.some.injEq, Prod.mk.injEq] at h
        obtain ⟨rfl, -⟩ := h
        obtain ⟨g, hp⟩ := pstep_of_tstep hs
        obtain ⟨ps, hpr⟩ := ih hr
        exact ⟨g.toList ++ ps, by simp only [prun, hp, hpr]⟩

/-- `trun_total` for the runner of `Lemmas/NcClientTrace.lean` (so that `C04C.payloads_at_most_once_from_new` etc. apply to
    every trace inside the head room without a "the run succeeds" hypothesis) -/
theorem prun_total (a : AEAD) (ops : List Cl.COp) {c : NetcodeClient} (hinv : CTInv c) (hr : HeadRoom c ops) :
    ∃ c' ps, prun a c ops = some (c', ps) ∧ CTInv c' ∧ c'.currentTime = c.currentTime + totalDur ops ∧
      c.sequence ≤ c'.sequence ∧ c'.sequence ≤ c.sequence + totalSends ops ∧ c'.connectToken = c.connectToken := by
  obtain ⟨c', log, hrun, h1, h2, h3, h4, h5, -, -⟩ := trun_total a ops hinv hr
  obtain ⟨ps, hp⟩ := prun_of_trun ops hrun
  exact ⟨c', ps, hp, h1, h2, h3, h4, h5⟩

end RenetVerif.NcClientTotal
