import RenetVerif.Lemmas.SendInvF
namespace RenetVerif
open C SMap

/-! ### what the decoder guarantees about an ack packet -/

theorem decAckRest_wf : ∀ (n prev : Nat) (b : Bytes) (acc ranges : List AckRange) (rest : Bytes),
    decAckRest n prev b acc = .ok (ranges, rest) → Acks.WF acc → (∃ r t, acc = r :: t ∧ r.1 = prev) → Acks.WF ranges
  | 0, _, _, _, _, _, h, hw, _ => by
    simp only [decAckRest, Except.ok.injEq, Prod.mk.injEq] at h
    rw [← h.1]; exact hw
  | n + 1, prev, b, acc, ranges, rest, h, hw, hh => by
    simp only [decAckRest, bind, Except.bind] at h
    split at h
    · cases h
    · rename_i x hx
      obtain ⟨gap, b1⟩ := x
      simp only at h
      split at h
      · cases h
      · rename_i hgap
        split at h
        · cases h
        · rename_i y hy
          obtain ⟨size, b2⟩ := y
          simp only at h
          split at h
          · cases h
          · rename_i hsize
            refine decAckRest_wf n _ b2 _ ranges rest h ?_ ⟨_, _, rfl, rfl⟩
            obtain ⟨r, t, rfl, hr⟩ := hh
            rw [Acks.wf_cons_iff]
            refine ⟨by dsimp only; omega, hw, ?_⟩
            intro r2 hr2
            simp only [List.head?_cons, Option.some.injEq] at hr2
            subst hr2
            dsimp only; omega

theorem decode_ack_wf {b : Bytes} {seq : Nat} {ranges : List AckRange} {rest : Bytes}
    (h : Packet.decode b = .ok (.ack seq ranges, rest)) : Acks.WF ranges := by
  unfold Packet.decode at h
  simp only [bind, Except.bind] at h
  split at h
  · cases h
  · rename_i x hx
    obtain ⟨ty, b0⟩ := x
    simp only at h
    split at h
    iterate 4
      · repeat' (first | (cases h; done) | split at h)
        all_goals (simp only [pure, Except.pure, Except.ok.injEq, Prod.mk.injEq] at h; exact absurd h.1 (by simp))
    · repeat' (first | (cases h; done) | split at h)
      rename_i hlt _ v hdec
      simp only [pure, Except.pure, Except.ok.injEq, Prod.mk.injEq, Packet.ack.injEq] at h
      obtain ⟨⟨-, rfl⟩, -⟩ := h
      exact decAckRest_wf _ _ _ _ v.1 v.2 hdec (by simp only [Acks.WF]; omega) ⟨_, _, rfl, rfl⟩
    · cases h

theorem fromBytes_ack_wf {b : Bytes} {seq : Nat} {ranges : List AckRange}
    (h : Packet.fromBytes b = .ok (.ack seq ranges)) : Acks.WF ranges := by
  unfold Packet.fromBytes at h
  split at h
  · rename_i p rest hd
    simp only [Except.ok.injEq] at h
    subst h
    exact decode_ack_wf hd
  · cases h

/-! ### which sequence numbers an ack packet acknowledges -/

theorem Acks.wf_pos : ∀ {l : List AckRange}, Acks.WF l → ∀ r ∈ l, r.1 < r.2
  | [], _, _, hr => by cases hr
  | a :: t, hw, r, hr => by
    rw [Acks.wf_cons_iff] at hw
    simp only [List.mem_cons] at hr
    rcases hr with rfl | hr
    · exact hw.1
    · exact Acks.wf_pos hw.2.1 r hr

theorem Acks.wf_above : ∀ {l : List AckRange} {r : AckRange}, Acks.WF (r :: l) → ∀ x, Acks.Mem x l → r.2 < x
  | [], _, _, _, hx => by cases hx
  | r2 :: t, r, hw, x, hx => by
    rw [Acks.wf_cons_iff] at hw
    have h1 := hw.2.2 r2 rfl
    simp only [Acks.mem_cons] at hx
    rcases hx with hx | hx
    · omega
    · have := Acks.wf_above hw.2.1 x hx
      have h3 := Acks.wf_pos hw.2.1 r2 (by simp)
      omega

theorem Acks.mem_iff_exists {x : Nat} : ∀ {l : List AckRange}, Acks.Mem x l ↔ ∃ r ∈ l, r.1 ≤ x ∧ x < r.2
  | [] => by simp
  | a :: t => by
    simp only [Acks.mem_cons, List.mem_cons, Acks.mem_iff_exists (l := t)]
    constructor
    · rintro (h | ⟨r, hr, h⟩)
      · exact ⟨a, Or.inl rfl, h⟩
      · exact ⟨r, Or.inr hr, h⟩
    · rintro ⟨r, rfl | hr, h⟩
      · exact Or.inl h
      · exact Or.inr ⟨r, hr, h⟩

theorem keys_filter_spec {α : Type} (p : Nat × α → Bool) {m : SMap α} (hs : Sorted m) :
    ((m.filter p).map (·.1)).Nodup ∧ ∀ x ∈ (m.filter p).map (·.1), ∃ v, find? m x = some v ∧ p (x, v) = true := by
  refine ⟨?_, ?_⟩
  · unfold List.Nodup
    rw [List.pairwise_map]
    exact (List.Pairwise.filter p hs).imp (fun h => Nat.ne_of_lt h)
  · intro x hx
    simp only [List.mem_map, List.mem_filter] at hx
    obtain ⟨⟨k, v⟩, ⟨hm, hp⟩, rfl⟩ := hx
    exact ⟨v, mem_find?_of_sorted hs hm, hp⟩

theorem Conn.newAcks_spec {sent : SMap (Nat × SentInfo)} (hs : Sorted sent) : ∀ (ranges : List AckRange), Acks.WF ranges →
    ∃ L, Conn.newAcks sent ranges = .ok L ∧ L.Nodup ∧ ∀ x ∈ L, (∃ v, find? sent x = some v) ∧ Acks.Mem x ranges
  | [], _ => ⟨[], rfl, List.nodup_nil, fun _ hx => by cases hx⟩
  | (s, e) :: rest, hw => by
    have hpos := Acks.wf_pos hw (s, e) (by simp)
    simp only at hpos
    obtain ⟨L, hL, hnd, hmem⟩ := Conn.newAcks_spec hs rest (Acks.wf_tail hw)
    obtain ⟨k1, k2⟩ := keys_filter_spec (fun (x : Nat × Nat × SentInfo) => decide (s ≤ x.1 ∧ x.1 < e)) hs
    refine ⟨(sent.filter (fun (x : Nat × Nat × SentInfo) => decide (s ≤ x.1 ∧ x.1 < e))).map (·.1) ++ L, ?_, ?_, ?_⟩
    · simp only [Conn.newAcks]
      rw [if_neg (by omega), hL]
      rfl
    · rw [List.nodup_append]
      refine ⟨k1, hnd, ?_⟩
      intro a ha b hb hab
      subst hab
      obtain ⟨v, -, hp⟩ := k2 a ha
      simp only [decide_eq_true_eq] at hp
      have := Acks.wf_above hw a (hmem a hb).2
      simp only at this
      omega
    · intro x hx
      simp only [List.mem_append] at hx
      rcases hx with hx | hx
      · obtain ⟨v, hv, hp⟩ := k2 x hx
        simp only [decide_eq_true_eq] at hp
        exact ⟨⟨v, hv⟩, Or.inl hp⟩
      · exact ⟨(hmem x hx).1, Or.inr (hmem x hx).2⟩

/-! ### processing acknowledgements -/

/-- accumulated effect of acknowledging the messages `ids` on one channel -/
structure SendRel.AckSteps (s s' : SendRel) (ids : List Nat) : Prop where
  others : ∀ id', id' ∉ ids → find? s'.unacked id' = find? s.unacked id'
  memLe : s'.mem ≤ s.mem
  memLt : s'.mem < s.mem → ∃ id, find? s.unacked id ≠ none ∧ find? s'.unacked id = none
  gone : ∀ id', find? s.unacked id' = none → find? s'.unacked id' = none
  pend : ∀ id i, s.Pending id i → s'.Pending id i

theorem Conn.ackMsgLoop_spec {ch : Nat} : ∀ (ids : List Nat) {s : SendRel}, s.Inv → s.InfoOK (.relMsgs ch ids) →
    ∃ s', Conn.ackMsgLoop s ids = .ok s' ∧ s'.Inv ∧ s.Step s' ∧ s.AckSteps s' ids
  | [], s, hi, _ =>
    ⟨s, rfl, hi, SendRel.Step.refl _, ⟨fun _ _ => rfl, Nat.le_refl _, fun h => absurd h (Nat.lt_irrefl _), fun _ h => h,
      fun _ _ h => h⟩⟩
  | id :: rest, s, hi, hok => by
    have hk : ∀ u, find? s.unacked id = some u → u.IsSmall := (hok id (by simp)).2
    obtain ⟨s1, e1, i1, st1, -⟩ := SendRel.processMessageAck_spec hi id hk
    obtain ⟨a1, p1⟩ := SendRel.processMessageAck_step hi hk e1
    have hok1 : s1.InfoOK (.relMsgs ch rest) :=
      SendRel.InfoOK.step st1 (i := .relMsgs ch rest) (fun id' h' => hok id' (List.mem_cons_of_mem _ h'))
    obtain ⟨s', e2, i2, st2, a2⟩ := Conn.ackMsgLoop_spec rest i1 hok1
    refine ⟨s', ?_, i2, st1.trans st2, ⟨?_, Nat.le_trans a2.memLe a1.memLe, ?_, fun id' h => a2.gone id' (a1.gone id' h),
      fun id' i h => a2.pend id' i (p1 id' i h)⟩⟩
    · simp only [Conn.ackMsgLoop, e1, Res.bind_ok]; exact e2
    · intro id' hn
      simp only [List.mem_cons, not_or] at hn
      rw [a2.others id' hn.2, a1.others id' hn.1]
    · intro hlt
      by_cases c : s1.mem < s.mem
      · obtain ⟨⟨u, hu⟩, hn⟩ := a1.memLt c
        exact ⟨id, by rw [hu]; simp, a2.gone id hn⟩
      · obtain ⟨id2, h1, h2⟩ := a2.memLt (by omega)
        refine ⟨id2, ?_, h2⟩
        intro hnone
        exact h1 (a1.gone id2 hnone)

/-- the recorded packet `info` carried message `id` of channel `ch` (whole, or one of its slices) -/
def SentInfo.Names (info : SentInfo) (ch id : Nat) : Prop :=
  (∃ ids, info = .relMsgs ch ids ∧ id ∈ ids) ∨ ∃ idx, info = .relSlice ch id idx

/-- effect on channel `ch` of acknowledging the packets `L`, all recorded in `S` -/
structure ChanEff (S : SMap (Nat × SentInfo)) (L : List Nat) (ch : Nat) (s s' : SendRel) : Prop where
  gone : ∀ id, find? s.unacked id = none → find? s'.unacked id = none
  just : ∀ id, find? s.unacked id ≠ none → find? s'.unacked id = none →
    ∃ seq ∈ L, ∃ t info, find? S seq = some (t, info) ∧ info.Names ch id
  memLe : s'.mem ≤ s.mem
  maxMem : s'.maxMem = s.maxMem
  memLt : s'.mem < s.mem → ∃ id, find? s.unacked id ≠ none ∧ find? s'.unacked id = none
  pend : ∀ id i, s.Pending id i → s'.Pending id i ∨ ∃ seq ∈ L, ∃ t, find? S seq = some (t, .relSlice ch id i)

theorem ChanEff.refl (S : SMap (Nat × SentInfo)) (L : List Nat) (ch : Nat) (s : SendRel) : ChanEff S L ch s s :=
  ⟨fun _ h => h, fun _ h1 h2 => absurd h2 h1, Nat.le_refl _, rfl, fun h => absurd h (Nat.lt_irrefl _), fun _ _ h => Or.inl h⟩

theorem ChanEff.trans {S S' : SMap (Nat × SentInfo)} {L1 L2 : List Nat} {ch : Nat} {a b c : SendRel}
    (hS : ∀ k v, find? S' k = some v → find? S k = some v)
    (h1 : ChanEff S L1 ch a b) (h2 : ChanEff S' L2 ch b c) : ChanEff S (L1 ++ L2) ch a c := by
  refine ⟨fun id h => h2.gone id (h1.gone id h), ?_, Nat.le_trans h2.memLe h1.memLe, h2.maxMem.trans h1.maxMem, ?_, ?_⟩
  · intro id hin hout
    by_cases c1 : find? b.unacked id = none
    · obtain ⟨seq, hs, t, info, hf, hn⟩ := h1.just id hin c1
      exact ⟨seq, List.mem_append_left _ hs, t, info, hf, hn⟩
    · obtain ⟨seq, hs, t, info, hf, hn⟩ := h2.just id c1 hout
      exact ⟨seq, List.mem_append_right _ hs, t, info, hS _ _ hf, hn⟩
  · intro hlt
    by_cases c1 : b.mem < a.mem
    · obtain ⟨id, i1, i2⟩ := h1.memLt c1
      exact ⟨id, i1, h2.gone id i2⟩
    · obtain ⟨id, i1, i2⟩ := h2.memLt (by omega)
      exact ⟨id, fun hn => i1 (h1.gone id hn), i2⟩
  · intro id i hp
    rcases h1.pend id i hp with hp1 | ⟨seq, hs, t, hf⟩
    · rcases h2.pend id i hp1 with hp2 | ⟨seq, hs, t, hf⟩
      · exact Or.inl hp2
      · exact Or.inr ⟨seq, List.mem_append_right _ hs, t, hS _ _ hf⟩
    · exact Or.inr ⟨seq, List.mem_append_left _ hs, t, hf⟩

/-- effect of the ack branch on the whole connection -/
structure ConnEff (S : SMap (Nat × SentInfo)) (L : List Nat) (c c' : Conn) : Prop where
  chan : ∀ ch s, find? c.sendRel ch = some s → ∃ s', find? c'.sendRel ch = some s' ∧ ChanEff S L ch s s'
  nochan : ∀ ch, find? c.sendRel ch = none → find? c'.sendRel ch = none
  acksWF : Acks.WF c.pendingAcks → Acks.WF c'.pendingAcks
  acksSub : ∀ x, Acks.Mem x c'.pendingAcks → Acks.Mem x c.pendingAcks
  frame : c'.recvRel = c.recvRel ∧ c'.recvUnrel = c.recvUnrel ∧ c'.status = c.status ∧ c'.now = c.now ∧
    c'.budget = c.budget ∧ c'.packetSeq = c.packetSeq ∧ c'.order = c.order ∧ c'.sendUnrel = c.sendUnrel

theorem ConnEff.refl (S : SMap (Nat × SentInfo)) (L : List Nat) (c : Conn) : ConnEff S L c c :=
  ⟨fun ch s h => ⟨s, h, ChanEff.refl _ _ _ _⟩, fun _ h => h, fun h => h, fun _ h => h, rfl, rfl, rfl, rfl, rfl, rfl, rfl, rfl⟩

theorem ConnEff.trans {S S' : SMap (Nat × SentInfo)} {L1 L2 : List Nat} {a b c : Conn}
    (hS : ∀ k v, find? S' k = some v → find? S k = some v)
    (h1 : ConnEff S L1 a b) (h2 : ConnEff S' L2 b c) : ConnEff S (L1 ++ L2) a c := by
  refine ⟨?_, fun ch h => h2.nochan ch (h1.nochan ch h), fun h => h2.acksWF (h1.acksWF h),
    fun x h => h1.acksSub x (h2.acksSub x h), ?_⟩
  · intro ch s hs
    obtain ⟨s1, hs1, e1⟩ := h1.chan ch s hs
    obtain ⟨s2, hs2, e2⟩ := h2.chan ch s1 hs1
    exact ⟨s2, hs2, e1.trans hS e2⟩
  · obtain ⟨a1, a2, a3, a4, a5, a6, a7, a8⟩ := h1.frame
    obtain ⟨b1, b2, b3, b4, b5, b6, b7, b8⟩ := h2.frame
    exact ⟨b1.trans a1, b2.trans a2, b3.trans a3, b4.trans a4, b5.trans a5, b6.trans a6, b7.trans a7, b8.trans a8⟩

/-- updating one channel: effect on the connection from the effect on that channel -/
theorem ConnEff.ofChan {S : SMap (Nat × SentInfo)} {L : List Nat} {c : Conn} {sent' : SMap (Nat × SentInfo)} {ch : Nat}
    {s s' : SendRel} (hf : find? c.sendRel ch = some s) (he : ChanEff S L ch s s') :
    ConnEff S L c { c with sent := sent', sendRel := SMap.insert c.sendRel ch s' } := by
  refine ⟨?_, ?_, fun h => h, fun _ h => h, rfl, rfl, rfl, rfl, rfl, rfl, rfl, rfl⟩
  · intro ch' s0 h0
    dsimp only
    rw [find?_insert]
    by_cases cc : ch = ch'
    · subst cc; rw [hf] at h0; cases h0; rw [if_pos rfl]; exact ⟨s', rfl, he⟩
    · rw [if_neg cc]; exact ⟨s0, h0, ChanEff.refl _ _ _ _⟩
  · intro ch' h0
    dsimp only
    rw [find?_insert]
    by_cases cc : ch = ch'
    · subst cc; rw [hf] at h0; cases h0
    · rw [if_neg cc]; exact h0

theorem Conn.SendInv.eraseSent {c : Conn} (h : c.SendInv) (seq : Nat) : ({ c with sent := erase c.sent seq } : Conn).SendInv :=
  ⟨h.chans, sorted_erase _ h.sentSorted, fun x hx => h.sentOK x (mem_erase hx), h.order⟩

/-- **one acknowledged packet**: under the invariant `ackOne` never panics on a recorded sequence number -/
theorem Conn.ackOne_spec {c : Conn} (h : c.SendInv) {seq : Nat} (hin : ∃ v, find? c.sent seq = some v) :
    ∃ c', Conn.ackOne c seq = .ok c' ∧ c'.SendInv ∧ c'.sent = erase c.sent seq ∧ ConnEff c.sent [seq] c c' := by
  obtain ⟨⟨t, info⟩, hv⟩ := hin
  have hinfo := (h.sentOK _ (find?_some_mem hv)).2
  simp only at hinfo
  have h1 := h.eraseSent seq
  unfold Conn.ackOne
  rw [hv]
  simp only
  cases info with
  | none =>
    exact ⟨_, rfl, h1, rfl, ⟨fun ch s hs => ⟨s, hs, ChanEff.refl _ _ _ _⟩, fun _ h => h, fun h => h, fun _ h => h,
      rfl, rfl, rfl, rfl, rfl, rfl, rfl, rfl⟩⟩
  | ack largest =>
    exact ⟨_, rfl, h1.same ⟨rfl, rfl, rfl, rfl, rfl⟩, rfl, ⟨fun ch s hs => ⟨s, hs, ChanEff.refl _ _ _ _⟩, fun _ h => h,
      fun hw => Acks.ackedLargest_wf _ _ hw, fun x hx => Acks.ackedLargest_mem_sub _ _ x hx,
      rfl, rfl, rfl, rfl, rfl, rfl, rfl, rfl⟩⟩
  | relMsgs ch ids =>
    obtain ⟨s, hf, hok⟩ := hinfo ch rfl
    simp only [hf]
    obtain ⟨hinv, hch⟩ := h.chans ch s hf
    obtain ⟨s', e, i1, st, as⟩ := Conn.ackMsgLoop_spec ids hinv hok
    rw [e]
    refine ⟨_, rfl, h1.updateChan hf i1 st, rfl, ConnEff.ofChan hf ⟨as.gone, ?_, as.memLe, st.2.1, as.memLt, fun id i hp => Or.inl (as.pend id i hp)⟩⟩
    intro id hin hout
    refine ⟨seq, by simp, t, _, hv, Or.inl ⟨ids, rfl, ?_⟩⟩
    apply Classical.byContradiction
    intro hni
    rw [as.others id hni] at hout
    exact hin hout
  | relSlice ch id idx =>
    obtain ⟨s, hf, hok⟩ := hinfo ch rfl
    simp only [hf]
    obtain ⟨hinv, hch⟩ := h.chans ch s hf
    obtain ⟨s', e, i1, st, -⟩ := SendRel.processSliceAck_spec hinv id idx hok.2
    obtain ⟨as, pe⟩ := SendRel.processSliceAck_step hinv hok.2 e
    rw [e]
    refine ⟨_, rfl, h1.updateChan hf i1 st, rfl, ConnEff.ofChan hf ⟨as.gone, ?_, as.memLe, st.2.1, ?_, ?_⟩⟩
    · intro id' hin hout
      refine ⟨seq, by simp, t, _, hv, Or.inr ⟨idx, ?_⟩⟩
      by_cases cc : id' = id
      · rw [cc]
      · rw [as.others id' cc] at hout; exact absurd hout hin
    · intro hlt
      obtain ⟨⟨u, hu⟩, hn⟩ := as.memLt hlt
      exact ⟨id, by rw [hu]; simp, hn⟩
    · intro id' i hp
      rcases pe id' i hp with ⟨rfl, rfl⟩ | hp'
      · exact Or.inr ⟨seq, by simp, t, hv⟩
      · exact Or.inl hp'

/-- **the whole ack loop** never panics when the list has no duplicates and names recorded packets -/
theorem Conn.ackLoop_spec : ∀ (L : List Nat) {c : Conn}, c.SendInv → L.Nodup → (∀ x ∈ L, ∃ v, find? c.sent x = some v) →
    ∃ c', Conn.ackLoop c L = .ok c' ∧ c'.SendInv ∧ ConnEff c.sent L c c' ∧
      (∀ k v, find? c'.sent k = some v → find? c.sent k = some v)
  | [], c, h, _, _ => ⟨c, rfl, h, ConnEff.refl _ _ _, fun _ _ h => h⟩
  | seq :: rest, c, h, hnd, hin => by
    obtain ⟨c1, e1, i1, hs1, eff1⟩ := Conn.ackOne_spec h (hin seq (by simp))
    rw [List.nodup_cons] at hnd
    have hmono : ∀ k v, find? c1.sent k = some v → find? c.sent k = some v := by
      intro k v hk
      rw [hs1] at hk
      exact (find?_erase_some h.sentSorted hk).2
    have hin1 : ∀ x ∈ rest, ∃ v, find? c1.sent x = some v := by
      intro x hx
      obtain ⟨v, hv⟩ := hin x (List.mem_cons_of_mem _ hx)
      refine ⟨v, ?_⟩
      rw [hs1, find?_erase_ne _ (by intro e; subst e; exact hnd.1 hx)]
      exact hv
    obtain ⟨c', e2, i2, eff2, m2⟩ := Conn.ackLoop_spec rest i1 hnd.2 hin1
    refine ⟨c', ?_, i2, eff1.trans hmono eff2, fun k v hk => hmono k v (m2 k v hk)⟩
    simp only [Conn.ackLoop, e1, Res.bind_ok]; exact e2

end RenetVerif
