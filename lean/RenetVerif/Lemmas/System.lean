/-
  A two-endpoint SYSTEM built from the validated model functions, and the invariants that compose the
  per-function results (sender side: Lemmas/Flush, Lemmas/SendInv; wire: Lemmas/PacketRT, Lemmas/DecodeWF;
  receiver side: Lemmas/DataPath) into end-to-end statements (Props/C01S.lean).

  The system is a proof-side wrapper, not part of the validated model: endpoint `a` and endpoint `b` are
  two `Conn`s; every operation calls exactly one model function; the "network" is the pair of emission
  histories `outA`/`outB`, from which ANY already-emitted datagram may be handed to the peer at any time
  (loss = never handed over, duplication = handed over twice, delay/reordering = any order).
  Ghost fields record what the sending application submitted and what the receiving application obtained.
-/
import RenetVerif.Lemmas.DataPath
import RenetVerif.Lemmas.Flush
import RenetVerif.Lemmas.SendInv
import RenetVerif.Lemmas.PacketRT
import RenetVerif.Lemmas.DecodeWF
import RenetVerif.Props.C08
namespace RenetVerif.System
open RenetVerif C

/-! ## the system -/

/-- `send`: channels A → B (A's send configuration = B's receive configuration); `recv`: channels B → A -/
structure Cfg where
  budget : Nat
  send : List ChanCfg
  recv : List ChanCfg

structure Sys where
  a : Conn
  b : Conn
  /-- every datagram ever emitted by A resp. B, in emission order -/
  outA : List Bytes
  outB : List Bytes
  /-- ghost: per channel id, the messages A's application submitted that the reliable channel accepted -/
  submitted : Nat → List Bytes
  /-- ghost: per channel id, the messages A's application passed to `send_message` on the UNRELIABLE channel of that id
      (whether the queue kept them or dropped them for lack of memory) -/
  submittedU : Nat → List Bytes
  /-- ghost: per channel id, the messages B's application obtained -/
  obtained : Nat → List Bytes
  /-- ghost: indices into `outA` of the datagrams handed to B so far -/
  deliveredToB : List Nat

inductive SysOp where
  | sendA (ch : Nat) (m : Bytes)
  | recvB (ch : Nat)
  | updA (dt : Nat)
  | updB (dt : Nat)
  | flushA
  | flushB
  | deliverToB (k : Nat)
  | deliverToA (k : Nat)
  deriving Repr, DecidableEq

def push (f : Nat → List Bytes) (ch : Nat) (m : Bytes) : Nat → List Bytes :=
  fun c => if c = ch then f c ++ [m] else f c

def Sys.init (cfg : Cfg) : Sys :=
  { a := Conn.fromChannels cfg.budget cfg.send cfg.recv
    b := Conn.fromChannels cfg.budget cfg.recv cfg.send
    outA := [], outB := [], submitted := fun _ => [], submittedU := fun _ => [], obtained := fun _ => [], deliveredToB := [] }

/-- the message was accepted into `unacked` of reliable channel `ch`: the connection was live, `ch` is a reliable
    send channel, and `send_message` did not disconnect -/
def accepted (a a' : Conn) (ch : Nat) : Bool :=
  !a.isDisconnected && (SMap.find? a.sendRel ch).isSome && !a'.isDisconnected

/-- the message is passed to the unreliable send channel `ch` of a live connection -/
def offeredU (a : Conn) (ch : Nat) : Bool :=
  !a.isDisconnected && (SMap.find? a.sendRel ch).isNone && (SMap.find? a.sendUnrel ch).isSome

/-- one operation; `none` = the model function panicked or the index is out of range -/
def Sys.step (s : Sys) : SysOp → Option Sys
  | .sendA ch m =>
    match s.a.sendMessage ch m with
    | .ok a' => some { s with a := a', submitted := if accepted s.a a' ch then push s.submitted ch m else s.submitted,
                              submittedU := if offeredU s.a ch then push s.submittedU ch m else s.submittedU }
    | _ => none
  | .recvB ch =>
    match s.b.receiveMessage ch with
    | .ok (b', some m) => some { s with b := b', obtained := push s.obtained ch m }
    | .ok (b', none) => some { s with b := b' }
    | _ => none
  | .updA dt =>
    match s.a.update dt with
    | .ok a' => some { s with a := a' }
    | _ => none
  | .updB dt =>
    match s.b.update dt with
    | .ok b' => some { s with b := b' }
    | _ => none
  | .flushA =>
    match s.a.getPacketsToSend with
    | .ok (a', bs) => some { s with a := a', outA := s.outA ++ bs }
    | _ => none
  | .flushB =>
    match s.b.getPacketsToSend with
    | .ok (b', bs) => some { s with b := b', outB := s.outB ++ bs }
    | _ => none
  | .deliverToB k =>
    match s.outA[k]? with
    | none => none
    | some bytes =>
      match s.b.processPacket bytes with
      | .ok b' => some { s with b := b', deliveredToB := s.deliveredToB ++ [k] }
      | _ => none
  | .deliverToA k =>
    match s.outB[k]? with
    | none => none
    | some bytes =>
      match s.a.processPacket bytes with
      | .ok a' => some { s with a := a' }
      | _ => none

def Sys.run (s : Sys) : List SysOp → Option Sys
  | [] => some s
  | op :: ops =>
    match s.step op with
    | some s' => s'.run ops
    | none => none

/-! ## small helpers -/

theorem push_same (f : Nat → List Bytes) (ch : Nat) (m : Bytes) : push f ch m ch = f ch ++ [m] := by
  simp [push]

theorem push_other (f : Nat → List Bytes) {ch ch' : Nat} (m : Bytes) (h : ch' ≠ ch) : push f ch m ch' = f ch' := by
  simp [push, h]

theorem getElem?_append_singleton_some {α : Type} {L : List α} {i : Nat} {x : α} (m : α) (h : L[i]? = some x) :
    (L ++ [m])[i]? = some x := by
  obtain ⟨hi, _⟩ := List.getElem?_eq_some_iff.mp h
  rw [List.getElem?_append_left hi]; exact h

theorem getElem?_append_singleton_self {α : Type} (L : List α) (m : α) : (L ++ [m])[L.length]? = some m := by
  simp

theorem disconnectWith_isDisconnected (c : Conn) (r : Reason) : (c.disconnectWith r).isDisconnected = true := by
  unfold Conn.disconnectWith
  split
  · assumption
  · rfl

theorem disconnectWith_of_disconnected {c : Conn} (r : Reason) (h : c.isDisconnected = true) : c.disconnectWith r = c := by
  unfold Conn.disconnectWith; rw [if_pos h]

/-! ## what each model call does to the fields the system invariants talk about -/

/-- `send_message`, as seen by the ghost log -/
theorem sendMessage_cases {c c' : Conn} {ch : Nat} {m : Bytes} (h : c.sendMessage ch m = .ok c') :
    (accepted c c' ch = true ∧ ∃ s s', SMap.find? c.sendRel ch = some s ∧ s.sendMessage m = .ok s' ∧
        c' = { c with sendRel := SMap.insert c.sendRel ch s' }) ∨
    (accepted c c' ch = false ∧ c'.sendRel = c.sendRel) := by
  unfold Conn.sendMessage at h
  split at h
  · rename_i hd
    cases h
    exact Or.inr ⟨by simp [accepted, hd], rfl⟩
  · rename_i hd
    split at h
    · rename_i s hf
      split at h
      · rename_i s' hs
        cases h
        refine Or.inl ⟨?_, s, s', hf, hs, rfl⟩
        have : ({ c with sendRel := SMap.insert c.sendRel ch s' } : Conn).isDisconnected = c.isDisconnected := rfl
        simp [accepted, this, hd, hf]
      · cases h
        exact Or.inr ⟨by simp [accepted, disconnectWith_isDisconnected], (c.disconnectWith_same _).1.1⟩
    · rename_i hf
      split at h
      · cases h
        exact Or.inr ⟨by simp [accepted, hf], rfl⟩
      · cases h

/-- `receive_message`, as seen by the reliable receive channels -/
theorem receiveMessage_cases {c c' : Conn} {ch : Nat} {m : Option Bytes} (h : c.receiveMessage ch = .ok (c', m)) :
    (c.isDisconnected = true ∧ c' = c ∧ m = none) ∨
    (c.isDisconnected = false ∧ ∃ r r', SMap.find? c.recvRel ch = some r ∧ r.receive = .ok (r', m) ∧
        c' = { c with recvRel := SMap.insert c.recvRel ch r' }) ∨
    (c.isDisconnected = false ∧ SMap.find? c.recvRel ch = none ∧ c'.recvRel = c.recvRel ∧ c'.status = c.status) := by
  unfold Conn.receiveMessage at h
  split at h
  · rename_i hd
    cases h
    exact Or.inl ⟨hd, rfl, rfl⟩
  · rename_i hd
    have hd' : c.isDisconnected = false := by simpa using hd
    split at h
    · rename_i r hf
      cases hr : r.receive with
      | ok x =>
        obtain ⟨r', m'⟩ := x
        rw [hr] at h
        simp only [Res.bind_ok, Res.pure_eq, Res.ok.injEq, Prod.mk.injEq] at h
        obtain ⟨rfl, rfl⟩ := h
        exact Or.inr (Or.inl ⟨hd', r, r', hf, hr, rfl⟩)
      | err e => exact e.elim
      | panic s => rw [hr] at h; cases h
    · rename_i hf
      split at h
      · rename_i r hfu
        cases hr : r.receive with
        | ok x =>
          obtain ⟨r', m'⟩ := x
          rw [hr] at h
          simp only [Res.bind_ok, Res.pure_eq, Res.ok.injEq, Prod.mk.injEq] at h
          obtain ⟨rfl, rfl⟩ := h
          exact Or.inr (Or.inr ⟨hd', hf, rfl, rfl⟩)
        | err e => exact e.elim
        | panic s => rw [hr] at h; cases h
      · cases h

/-- `process_packet`, as seen by the reliable receive channels: the connection ends up disconnected, or the
    datagram decoded to `p` and exactly the receive channel named by a reliable packet was advanced -/
theorem processPacket_recv {c c' : Conn} {bytes : Bytes} (hinv : c.SendInv) (h : c.processPacket bytes = .ok c') :
    c'.isDisconnected = true ∨
    (c.isDisconnected = false ∧ ∃ p, Packet.fromBytes bytes = .ok p ∧
      match p with
      | .smallReliable _ ch msgs => ∃ r r', SMap.find? c.recvRel ch = some r ∧ Conn.relMsgLoop r msgs = .ok r' ∧
          c'.recvRel = SMap.insert c.recvRel ch r'
      | .reliableSlice _ ch sl => ∃ r r', SMap.find? c.recvRel ch = some r ∧ r.processSlice sl = .ok r' ∧
          c'.recvRel = SMap.insert c.recvRel ch r'
      | _ => c'.recvRel = c.recvRel) := by
  cases hd : c.isDisconnected with
  | true =>
    left
    unfold Conn.processPacket at h
    rw [if_pos hd] at h; cases h; exact hd
  | false =>
    cases hp : Packet.fromBytes bytes with
    | error e =>
      left
      unfold Conn.processPacket at h
      rw [hd, hp] at h
      simp only [Bool.false_eq_true, ↓reduceIte] at h
      cases h
      exact disconnectWith_isDisconnected _ _
    | ok p =>
      cases p with
      | ack aseq ranges =>
        obtain ⟨L, c2, -, e, -, eff, -, -⟩ := SI.Conn.processPacket_ack_spec hinv hd hp
        rw [e] at h; cases h
        exact Or.inr ⟨rfl, _, rfl, eff.frame.1⟩
      | smallReliable sq ch msgs =>
        unfold Conn.processPacket at h
        rw [hd, hp] at h
        simp only [Bool.false_eq_true, ↓reduceIte] at h
        split at h
        · cases h; exact Or.inl (disconnectWith_isDisconnected _ _)
        · rename_i r hf
          split at h
          · rename_i r' hl
            cases h
            exact Or.inr ⟨rfl, _, rfl, r, r', hf, hl, rfl⟩
          · cases h; exact Or.inl (disconnectWith_isDisconnected _ _)
          · cases h
      | reliableSlice sq ch sl =>
        unfold Conn.processPacket at h
        rw [hd, hp] at h
        simp only [Bool.false_eq_true, ↓reduceIte] at h
        split at h
        · cases h; exact Or.inl (disconnectWith_isDisconnected _ _)
        · rename_i r hf
          split at h
          · rename_i r' hl
            cases h
            exact Or.inr ⟨rfl, _, rfl, r, r', hf, hl, rfl⟩
          · cases h; exact Or.inl (disconnectWith_isDisconnected _ _)
          · cases h
      | smallUnreliable sq ch msgs =>
        unfold Conn.processPacket at h
        rw [hd, hp] at h
        simp only [Bool.false_eq_true, ↓reduceIte] at h
        split at h
        · cases h; exact Or.inl (disconnectWith_isDisconnected _ _)
        · cases h
          exact Or.inr ⟨rfl, _, rfl, rfl⟩
      | unreliableSlice sq ch sl =>
        unfold Conn.processPacket at h
        rw [hd, hp] at h
        simp only [Bool.false_eq_true, ↓reduceIte] at h
        split at h
        · cases h; exact Or.inl (disconnectWith_isDisconnected _ _)
        · split at h
          · cases h; exact Or.inr ⟨rfl, _, rfl, rfl⟩
          · cases h; exact Or.inl (disconnectWith_isDisconnected _ _)
          · cases h

/-- `get_packets_to_send`, unfolded: the channel loop, the optional ack packet, the sent-table update and the
    serialisation, with the resulting connection spelled out -/
theorem getPacketsToSend_unfold {c c' : Conn} {bs : List Bytes} (h : c.getPacketsToSend = .ok (c', bs)) :
    (c.isDisconnected = true ∧ c' = c ∧ bs = []) ∨
    (c.isDisconnected = false ∧ ∃ sr su pk0 seq0 avail sent,
      Conn.chanLoop c.now c.order (c.sendRel, c.sendUnrel, [], c.packetSeq, c.budget) = .ok (sr, su, pk0, seq0, avail) ∧
      Conn.recordSent c.now (if c.pendingAcks.isEmpty then pk0 else pk0 ++ [Packet.ack seq0 c.pendingAcks]) c.sent = .ok sent ∧
      ((Conn.serialiseAll (if c.pendingAcks.isEmpty then pk0 else pk0 ++ [Packet.ack seq0 c.pendingAcks]) = .ok bs ∧
          c' = { c with sendRel := sr, sendUnrel := su, packetSeq := (if c.pendingAcks.isEmpty then seq0 else seq0 + 1), sent := sent }) ∨
       (∃ e, Conn.serialiseAll (if c.pendingAcks.isEmpty then pk0 else pk0 ++ [Packet.ack seq0 c.pendingAcks]) = .err e ∧ bs = [] ∧
          c' = ({ c with sendRel := sr, sendUnrel := su, packetSeq := (if c.pendingAcks.isEmpty then seq0 else seq0 + 1),
                         sent := sent } : Conn).disconnectWith (.packetSer e)))) := by
  unfold Conn.getPacketsToSend at h
  split at h
  · rename_i hd
    cases h; exact Or.inl ⟨hd, rfl, rfl⟩
  · rename_i hd
    have hd' : c.isDisconnected = false := by simpa using hd
    right
    refine ⟨hd', ?_⟩
    cases hr : Conn.chanLoop c.now c.order (c.sendRel, c.sendUnrel, [], c.packetSeq, c.budget) with
    | panic s => rw [hr] at h; cases h
    | err e => exact e.elim
    | ok r =>
      obtain ⟨sr, su, pk0, seq0, avail⟩ := r
      rw [hr] at h
      simp only [Res.bind_ok] at h
      refine ⟨sr, su, pk0, seq0, avail, ?_⟩
      by_cases hempty : c.pendingAcks.isEmpty = true
      · simp only [hempty, ↓reduceIte] at h ⊢
        cases hs : Conn.recordSent c.now pk0 c.sent with
        | panic s => rw [hs] at h; cases h
        | err e => exact e.elim
        | ok sent =>
          rw [hs] at h
          simp only [Res.bind_ok] at h
          refine ⟨sent, trivial, rfl, ?_⟩
          cases hser : Conn.serialiseAll pk0 with
          | ok bs' =>
            rw [hser] at h
            simp only [Res.pure_eq, Res.ok.injEq, Prod.mk.injEq] at h
            exact Or.inl ⟨by rw [h.2], h.1.symm⟩
          | err e =>
            rw [hser] at h
            simp only [Res.pure_eq, Res.ok.injEq, Prod.mk.injEq] at h
            exact Or.inr ⟨e, rfl, h.2.symm, h.1.symm⟩
          | panic s => rw [hser] at h; cases h
      · simp only [hempty, Bool.false_eq_true, ↓reduceIte] at h ⊢
        cases hs : Conn.recordSent c.now (pk0 ++ [Packet.ack seq0 c.pendingAcks]) c.sent with
        | panic s => rw [hs] at h; cases h
        | err e => exact e.elim
        | ok sent =>
          rw [hs] at h
          simp only [Res.bind_ok] at h
          refine ⟨sent, trivial, rfl, ?_⟩
          cases hser : Conn.serialiseAll (pk0 ++ [Packet.ack seq0 c.pendingAcks]) with
          | ok bs' =>
            rw [hser] at h
            simp only [Res.pure_eq, Res.ok.injEq, Prod.mk.injEq] at h
            exact Or.inl ⟨by rw [h.2], h.1.symm⟩
          | err e =>
            rw [hser] at h
            simp only [Res.pure_eq, Res.ok.injEq, Prod.mk.injEq] at h
            exact Or.inr ⟨e, rfl, h.2.symm, h.1.symm⟩
          | panic s => rw [hser] at h; cases h

/-! ## generic preservation lemmas for the three loops that touch the reliable send channels -/

theorem ackMsgLoop_pres (P : SendRel → Prop) (hP : ∀ s id s', P s → s.processMessageAck id = .ok s' → P s') :
    ∀ (ids : List Nat) (s s' : SendRel), P s → Conn.ackMsgLoop s ids = .ok s' → P s'
  | [], s, s', hp, h => by
    simp only [Conn.ackMsgLoop, Res.ok.injEq] at h; subst h; exact hp
  | id :: rest, s, s', hp, h => by
    simp only [Conn.ackMsgLoop] at h
    cases h1 : s.processMessageAck id with
    | ok s1 =>
      rw [h1] at h; simp only [Res.bind_ok] at h
      exact ackMsgLoop_pres P hP rest s1 s' (hP s id s1 hp h1) h
    | err e => exact e.elim
    | panic m => rw [h1] at h; cases h

theorem find_insert_pres {α : Type} {P : Nat → α → Prop} {m : SMap α} {ch : Nat} {v : α}
    (hm : ∀ k x, SMap.find? m k = some x → P k x) (hv : P ch v) :
    ∀ k x, SMap.find? (SMap.insert m ch v) k = some x → P k x := by
  intro k x hx
  rw [SMap.find?_insert] at hx
  split at hx
  · rename_i e; cases hx; subst e; exact hv
  · exact hm k x hx

theorem ackOne_pres (P : Nat → SendRel → Prop)
    (hm : ∀ ch s id s', P ch s → s.processMessageAck id = .ok s' → P ch s')
    (hs : ∀ ch s id idx s', P ch s → s.processSliceAck id idx = .ok s' → P ch s')
    {c c' : Conn} {seq : Nat} (h : Conn.ackOne c seq = .ok c')
    (hc : ∀ ch s, SMap.find? c.sendRel ch = some s → P ch s) :
    ∀ ch s, SMap.find? c'.sendRel ch = some s → P ch s := by
  unfold Conn.ackOne at h
  split at h
  · cases h
  · rename_i t info hf
    dsimp only at h
    split at h
    · rename_i ch ids
      split at h
      · cases h
      · rename_i s0 hs0
        cases h1 : Conn.ackMsgLoop s0 ids with
        | ok s1 =>
          rw [h1] at h; simp only [Res.bind_ok, Res.pure_eq, Res.ok.injEq] at h
          subst h
          exact find_insert_pres hc (ackMsgLoop_pres (P ch) (hm ch) ids s0 s1 (hc ch s0 hs0) h1)
        | err e => exact e.elim
        | panic m => rw [h1] at h; cases h
    · rename_i ch id idx
      split at h
      · cases h
      · rename_i s0 hs0
        cases h1 : s0.processSliceAck id idx with
        | ok s1 =>
          rw [h1] at h; simp only [Res.bind_ok, Res.pure_eq, Res.ok.injEq] at h
          subst h
          exact find_insert_pres hc (hs ch s0 id idx s1 (hc ch s0 hs0) h1)
        | err e => exact e.elim
        | panic m => rw [h1] at h; cases h
    · cases h; exact hc
    · cases h; exact hc

theorem ackLoop_pres (P : Nat → SendRel → Prop)
    (hm : ∀ ch s id s', P ch s → s.processMessageAck id = .ok s' → P ch s')
    (hs : ∀ ch s id idx s', P ch s → s.processSliceAck id idx = .ok s' → P ch s') :
    ∀ (L : List Nat) (c c' : Conn), Conn.ackLoop c L = .ok c' →
      (∀ ch s, SMap.find? c.sendRel ch = some s → P ch s) → ∀ ch s, SMap.find? c'.sendRel ch = some s → P ch s
  | [], c, c', h, hc => by
    simp only [Conn.ackLoop, Res.ok.injEq] at h; subst h; exact hc
  | seq :: rest, c, c', h, hc => by
    simp only [Conn.ackLoop] at h
    cases h1 : Conn.ackOne c seq with
    | ok c1 =>
      rw [h1] at h; simp only [Res.bind_ok] at h
      exact ackLoop_pres P hm hs rest c1 c' h (ackOne_pres P hm hs h1 hc)
    | err e => exact e.elim
    | panic m => rw [h1] at h; cases h

/-- any per-channel property preserved by the two ack operations is preserved by `process_packet` -/
theorem processPacket_pres (P : Nat → SendRel → Prop)
    (hm : ∀ ch s id s', P ch s → s.processMessageAck id = .ok s' → P ch s')
    (hs : ∀ ch s id idx s', P ch s → s.processSliceAck id idx = .ok s' → P ch s')
    {c c' : Conn} {bytes : Bytes} (h : c.processPacket bytes = .ok c')
    (hc : ∀ ch s, SMap.find? c.sendRel ch = some s → P ch s) :
    ∀ ch s, SMap.find? c'.sendRel ch = some s → P ch s := by
  rcases SI.Conn.processPacket_cases h with ⟨hs1, -, -⟩ | ⟨p, -, -, hs1, -⟩ | ⟨aseq, ranges, L, -, -, -, hl⟩
  · rw [hs1.1]; exact hc
  · rw [hs1.1]; exact hc
  · exact ackLoop_pres P hm hs L _ c' hl hc

/-- any per-channel property preserved by the reliable flush is preserved by the channel loop, and every packet the
    loop appends satisfies `Q` when the packets of each reliable / unreliable flush do.  `B` bounds the final
    sequence counter (hence every intermediate one). -/
theorem chanLoop_pres (P : Nat → SendRel → Prop) (Q : Packet → Prop) (B now : Nat)
    (hrel : ∀ ch s seq avail, P ch s → (s.getPackets seq avail now).2.2.1 ≤ B →
      P ch (s.getPackets seq avail now).1 ∧ ∀ p ∈ (s.getPackets seq avail now).2.1, Q p)
    (hunrel : ∀ (s : SendUnrel) seq avail, ∀ p ∈ (s.getPackets seq avail).2.1, Q p) :
    ∀ (ord : List (Bool × Nat)) (sr : SMap SendRel) (su : SMap SendUnrel) (pk : List Packet) (seq avail : Nat)
      (sr' : SMap SendRel) (su' : SMap SendUnrel) (pk' : List Packet) (seq' avail' : Nat),
      Conn.chanLoop now ord (sr, su, pk, seq, avail) = .ok (sr', su', pk', seq', avail') → seq' ≤ B →
      (∀ ch s, SMap.find? sr ch = some s → P ch s) → (∀ p ∈ pk, Q p) →
      (∀ ch s, SMap.find? sr' ch = some s → P ch s) ∧ (∀ p ∈ pk', Q p)
  | [], sr, su, pk, seq, avail, sr', su', pk', seq', avail', h, _, hc, hq => by
    simp only [Conn.chanLoop, Res.ok.injEq, Prod.mk.injEq] at h
    obtain ⟨rfl, rfl, rfl, rfl, rfl⟩ := h
    exact ⟨hc, hq⟩
  | (true, ch) :: rest, sr, su, pk, seq, avail, sr', su', pk', seq', avail', h, hb, hc, hq => by
    rw [chanLoop_rel_step] at h
    split at h
    · cases h
    · rename_i s hf
      have hmono := chanLoop_seq_mono now rest _ _ _ _ _ _ _ _ _ _ h
      obtain ⟨hp1, hq1⟩ := hrel ch s seq avail (hc ch s hf) (by omega)
      refine chanLoop_pres P Q B now hrel hunrel rest _ _ _ _ _ _ _ _ _ _ h hb (find_insert_pres hc hp1) ?_
      intro p hp
      rw [List.mem_append] at hp
      rcases hp with hp | hp
      · exact hq p hp
      · exact hq1 p hp
  | (false, ch) :: rest, sr, su, pk, seq, avail, sr', su', pk', seq', avail', h, hb, hc, hq => by
    rw [chanLoop_unrel_step] at h
    split at h
    · cases h
    · rename_i s hf
      refine chanLoop_pres P Q B now hrel hunrel rest _ _ _ _ _ _ _ _ _ _ h hb hc ?_
      intro p hp
      rw [List.mem_append] at hp
      rcases hp with hp | hp
      · exact hq p hp
      · exact hunrel s seq avail p hp

/-- datagrams are the encodings of the packets, one for one -/
def encO (p : Packet) : Option Bytes :=
  match p.enc with
  | .ok b => some b
  | _ => none

theorem serialiseAll_enc : ∀ (pk : List Packet) (bs : List Bytes), Conn.serialiseAll pk = .ok bs →
    pk.map encO = bs.map some
  | [], bs, h => by
    simp only [Conn.serialiseAll, Res.ok.injEq] at h; subst h; rfl
  | p :: rest, bs, h => by
    simp only [Conn.serialiseAll] at h
    cases h1 : p.toBytes SER_BUFFER with
    | ok b =>
      rw [h1] at h; simp only [Res.bind_ok] at h
      cases h2 : Conn.serialiseAll rest with
      | ok bs' =>
        rw [h2] at h; simp only [Res.bind_ok, Res.pure_eq, Res.ok.injEq] at h
        subst h
        have he : encO p = some b := by
          unfold Packet.toBytes at h1
          cases h3 : p.enc with
          | ok b' =>
            rw [h3] at h1; simp only [Res.bind_ok] at h1
            split at h1
            · simp only [Res.pure_eq, Res.ok.injEq] at h1; subst h1; simp [encO, h3]
            · cases h1
          | err e => rw [h3] at h1; cases h1
          | panic m => rw [h3] at h1; cases h1
        simp only [List.map_cons, he, serialiseAll_enc rest bs' h2]
      | err e => rw [h2] at h; cases h
      | panic m => rw [h2] at h; cases h
    | err e => rw [h1] at h; cases h
    | panic m => rw [h1] at h; cases h

theorem encO_some {p : Packet} {b : Bytes} (h : encO p = some b) : p.enc = .ok b := by
  unfold encO at h
  split at h
  · cases h; assumption
  · cases h

/-- looking up a datagram finds the packet it encodes -/
theorem enc_lookup {pk : List Packet} {bs : List Bytes} (h : pk.map encO = bs.map some) {k : Nat} {b : Bytes}
    (hb : bs[k]? = some b) : ∃ p, pk[k]? = some p ∧ p.enc = .ok b := by
  have h1 : (bs.map some)[k]? = some (some b) := by rw [List.getElem?_map, hb]; rfl
  rw [← h, List.getElem?_map] at h1
  cases hp : pk[k]? with
  | none => rw [hp] at h1; cases h1
  | some p =>
    rw [hp] at h1
    simp only [Option.map_some, Option.some.injEq] at h1
    exact ⟨p, rfl, encO_some h1⟩

/-! ## wire: what the bytes of an encoded packet decode to -/

def tagByte : Packet → UInt8
  | .smallReliable .. => 0
  | .smallUnreliable .. => 1
  | .reliableSlice .. => 2
  | .unreliableSlice .. => 3
  | .ack .. => 4

theorem res_bind_ok {ε α β : Type} {x : Res ε α} {f : α → Res ε β} {y : β} (h : (x >>= f) = .ok y) :
    ∃ a, x = .ok a ∧ f a = .ok y := by
  cases x with
  | ok a => exact ⟨a, rfl, h⟩
  | err e => cases h
  | panic s => cases h

/-- the first bytes of every encoding: the type tag and the (in-range) sequence number -/
theorem enc_shape {p : Packet} {b : Bytes} (h : p.enc = .ok b) :
    p.sequence ≤ Varint.MAX ∧ ∃ rest, b = tagByte p :: (Varint.enc p.sequence ++ rest) := by
  cases p with
  | smallReliable seq ch msgs =>
    simp only [Packet.enc] at h
    obtain ⟨s, h1, h⟩ := res_bind_ok h
    obtain ⟨body, h2, h⟩ := res_bind_ok h
    obtain ⟨hs, rfl⟩ := putVarint_eq_ok h1
    simp only [Res.pure_eq, Res.ok.injEq] at h
    subst h
    exact ⟨hs, _, by simp [tagByte, Packet.sequence]; rfl⟩
  | smallUnreliable seq ch msgs =>
    simp only [Packet.enc] at h
    obtain ⟨s, h1, h⟩ := res_bind_ok h
    obtain ⟨body, h2, h⟩ := res_bind_ok h
    obtain ⟨hs, rfl⟩ := putVarint_eq_ok h1
    simp only [Res.pure_eq, Res.ok.injEq] at h
    subst h
    exact ⟨hs, _, by simp [tagByte, Packet.sequence]; rfl⟩
  | reliableSlice seq ch sl =>
    simp only [Packet.enc] at h
    obtain ⟨s, h1, h⟩ := res_bind_ok h
    obtain ⟨body, h2, h⟩ := res_bind_ok h
    obtain ⟨hs, rfl⟩ := putVarint_eq_ok h1
    simp only [Res.pure_eq, Res.ok.injEq] at h
    subst h
    exact ⟨hs, _, by simp [tagByte, Packet.sequence]; rfl⟩
  | unreliableSlice seq ch sl =>
    simp only [Packet.enc] at h
    obtain ⟨s, h1, h⟩ := res_bind_ok h
    obtain ⟨body, h2, h⟩ := res_bind_ok h
    obtain ⟨hs, rfl⟩ := putVarint_eq_ok h1
    simp only [Res.pure_eq, Res.ok.injEq] at h
    subst h
    exact ⟨hs, _, by simp [tagByte, Packet.sequence]; rfl⟩
  | ack seq ranges =>
    simp only [Packet.enc] at h
    obtain ⟨s, h1, h⟩ := res_bind_ok h
    obtain ⟨hs, rfl⟩ := putVarint_eq_ok h1
    split at h
    · cases h
    · obtain ⟨le1, h2, h⟩ := res_bind_ok h
      obtain ⟨size, h3, h⟩ := res_bind_ok h
      obtain ⟨a, h4, h⟩ := res_bind_ok h
      obtain ⟨b', h5, h⟩ := res_bind_ok h
      obtain ⟨c, h6, h⟩ := res_bind_ok h
      obtain ⟨r, h7, h⟩ := res_bind_ok h
      simp only [Res.pure_eq, Res.ok.injEq] at h
      subst h
      exact ⟨hs, _, by simp [tagByte, Packet.sequence]; rfl⟩

/-- whatever a datagram that starts with tag `t` and the varint of `sq` decodes to carries that tag and `sq` -/
theorem decode_head {t : UInt8} {sq : Nat} {rest : Bytes} {p : Packet} {r : Bytes} (hs : sq ≤ Varint.MAX)
    (h : Packet.decode (t :: (Varint.enc sq ++ rest)) = .ok (p, r)) : p.sequence = sq ∧ (tagByte p).toNat = t.toNat := by
  simp only [Packet.decode, Except.bind_eq_ok'] at h
  obtain ⟨⟨ty, b0⟩, h0, h⟩ := h
  simp only [getU8_cons, Except.ok.injEq, Prod.mk.injEq] at h0
  obtain ⟨rfl, rfl⟩ := h0
  simp only [] at h
  split at h
  · rename_i ht
    simp only [Except.bind_eq_ok'] at h
    obtain ⟨⟨seq, b1⟩, h1, h⟩ := h
    rw [getVarint_enc _ hs] at h1
    simp only [Except.ok.injEq, Prod.mk.injEq] at h1
    obtain ⟨rfl, rfl⟩ := h1
    obtain ⟨⟨ch, b2⟩, h2, h⟩ := h
    obtain ⟨⟨n, b3⟩, h3, h⟩ := h
    obtain ⟨⟨msgs, b4⟩, h4, h⟩ := h
    cases h
    exact ⟨rfl, by rw [ht]; rfl⟩
  · rename_i ht
    simp only [Except.bind_eq_ok'] at h
    obtain ⟨⟨seq, b1⟩, h1, h⟩ := h
    rw [getVarint_enc _ hs] at h1
    simp only [Except.ok.injEq, Prod.mk.injEq] at h1
    obtain ⟨rfl, rfl⟩ := h1
    obtain ⟨⟨ch, b2⟩, h2, h⟩ := h
    obtain ⟨⟨n, b3⟩, h3, h⟩ := h
    obtain ⟨⟨msgs, b4⟩, h4, h⟩ := h
    cases h
    exact ⟨rfl, by rw [ht]; rfl⟩
  · rename_i ht
    simp only [Except.bind_eq_ok'] at h
    obtain ⟨⟨seq, b1⟩, h1, h⟩ := h
    rw [getVarint_enc _ hs] at h1
    simp only [Except.ok.injEq, Prod.mk.injEq] at h1
    obtain ⟨rfl, rfl⟩ := h1
    obtain ⟨⟨ch, b2⟩, h2, h⟩ := h
    obtain ⟨⟨id, b3⟩, h3, h⟩ := h
    obtain ⟨⟨idx, b4⟩, h4, h⟩ := h
    obtain ⟨⟨n, b5⟩, h5, h⟩ := h
    simp only [] at h
    split at h
    · cases h
    · simp only [Except.bind_eq_ok'] at h
      obtain ⟨⟨payload, b6⟩, h6, h⟩ := h
      simp only [] at h
      split at h
      · cases h
      · split at h
        · cases h
        · cases h
          exact ⟨rfl, by rw [ht]; rfl⟩
  · rename_i ht
    simp only [Except.bind_eq_ok'] at h
    obtain ⟨⟨seq, b1⟩, h1, h⟩ := h
    rw [getVarint_enc _ hs] at h1
    simp only [Except.ok.injEq, Prod.mk.injEq] at h1
    obtain ⟨rfl, rfl⟩ := h1
    obtain ⟨⟨ch, b2⟩, h2, h⟩ := h
    obtain ⟨⟨id, b3⟩, h3, h⟩ := h
    obtain ⟨⟨idx, b4⟩, h4, h⟩ := h
    obtain ⟨⟨n, b5⟩, h5, h⟩ := h
    simp only [] at h
    split at h
    · cases h
    · simp only [Except.bind_eq_ok'] at h
      obtain ⟨⟨payload, b6⟩, h6, h⟩ := h
      cases h
      exact ⟨rfl, by rw [ht]; rfl⟩
  · rename_i ht
    simp only [Except.bind_eq_ok'] at h
    obtain ⟨⟨seq, b1⟩, h1, h⟩ := h
    rw [getVarint_enc _ hs] at h1
    simp only [Except.ok.injEq, Prod.mk.injEq] at h1
    obtain ⟨rfl, rfl⟩ := h1
    obtain ⟨⟨firstEnd, b2⟩, h2, h⟩ := h
    obtain ⟨⟨firstSize, b3⟩, h3, h⟩ := h
    obtain ⟨⟨nRest, b4⟩, h4, h⟩ := h
    simp only [] at h
    split at h
    · cases h
    · simp only [Except.bind_eq_ok'] at h
      obtain ⟨⟨ranges, b5⟩, h5, h⟩ := h
      cases h
      exact ⟨rfl, by rw [ht]; rfl⟩
  · cases h

/-- reliable data packets (the ones the C01–C03 data path is about) -/
def isRel : Packet → Bool
  | .smallReliable .. => true
  | .reliableSlice .. => true
  | _ => false

/-- decoding the encoding of `p` yields a packet of the same type with the same sequence number -/
theorem fromBytes_of_enc {p p' : Packet} {b : Bytes} (he : p.enc = .ok b) (hd : Packet.fromBytes b = .ok p') :
    p'.sequence = p.sequence ∧ (tagByte p').toNat = (tagByte p).toNat := by
  obtain ⟨hs, rest, rfl⟩ := enc_shape he
  unfold Packet.fromBytes at hd
  split at hd
  · rename_i q r hq
    cases hd
    exact decode_head hs hq
  · cases hd

/-- … and exactly `p` when `p` is well-formed (round trip, C16) -/
theorem fromBytes_of_enc_wf {p p' : Packet} {b : Bytes} (hw : p.WF) (he : p.enc = .ok b)
    (hd : Packet.fromBytes b = .ok p') : p' = p := by
  obtain ⟨b', h1, h2⟩ := Packet.fromBytes_enc p hw
  rw [he] at h1; cases h1
  rw [hd] at h2; cases h2; rfl

theorem isRel_of_tag {p p' : Packet} (h : (tagByte p').toNat = (tagByte p).toNat) : isRel p' = isRel p := by
  cases p <;> cases p' <;> first | rfl | (simp only [tagByte] at h; exact absurd h (by decide))

theorem isAck_of_tag {p p' : Packet} (h : (tagByte p').toNat = (tagByte p).toNat) : SI.isAckPkt p' = SI.isAckPkt p := by
  cases p <;> cases p' <;> first | rfl | (simp only [tagByte] at h; exact absurd h (by decide))

/-! ## sender side: the channel agrees with the ghost submission log -/

/-- (S1) reliable send channel `s` against the log `L` of accepted submissions: the next message id is the
    length of the log, and every message still awaiting acknowledgement is the logged one -/
structure ChanG (L : List Bytes) (s : SendRel) : Prop where
  nid : s.nextId = L.length
  gen : ∀ x ∈ s.unacked, L[x.1]? = some x.2.msg

theorem chanG_new (ch resend maxMem : Nat) : ChanG [] (SendRel.new ch resend maxMem) :=
  ⟨rfl, fun _ h => by cases h⟩

theorem newSliced_msg (m : Bytes) : (Unacked.newSliced m).msg = m := rfl

theorem chanG_send {L : List Bytes} {s s' : SendRel} {m : Bytes} (h : ChanG L s) (hs : s.sendMessage m = .ok s') :
    ChanG (L ++ [m]) s' := by
  unfold SendRel.sendMessage at hs
  split at hs
  · cases hs
  · simp only [Except.ok.injEq] at hs
    subst hs
    refine ⟨by simp [h.nid], ?_⟩
    intro x hx
    dsimp only at hx
    rcases SI.mem_insert hx with rfl | hx
    · dsimp only
      rw [h.nid, getElem?_append_singleton_self]
      split <;> rfl
    · exact getElem?_append_singleton_some m (h.gen x hx)

theorem chanG_msgAck {L : List Bytes} {s s' : SendRel} {id : Nat} (h : ChanG L s) (hs : s.processMessageAck id = .ok s') :
    ChanG L s' := by
  unfold SendRel.processMessageAck at hs
  split at hs
  · cases hs; exact h
  · rename_i m ls hf
    cases hc : (Res.csub s.mem m.length "reliable.rs memory_usage_bytes -= payload.len() (message ack)" : Res Empty Nat) with
    | ok v =>
      rw [hc] at hs
      simp only [Res.bind_ok, Res.pure_eq, Res.ok.injEq] at hs
      subst hs
      exact ⟨h.nid, fun x hx => h.gen x (SI.mem_erase hx)⟩
    | err e => exact e.elim
    | panic p => rw [hc] at hs; cases hs
  · cases hs

theorem chanG_sliceAck {L : List Bytes} {s s' : SendRel} {id idx : Nat} (h : ChanG L s)
    (hs : s.processSliceAck id idx = .ok s') : ChanG L s' := by
  unfold SendRel.processSliceAck at hs
  split at hs
  · cases hs; exact h
  · cases hs
  · rename_i m n numAcked next acked lastSent hf
    split at hs
    · cases hs
    · cases hs; exact h
    · dsimp only at hs
      split at hs
      · cases hc : (Res.csub s.mem m.length "reliable.rs memory_usage_bytes -= message.len() (slice ack)" : Res Empty Nat) with
        | ok v =>
          rw [hc] at hs
          simp only [Res.bind_ok, Res.pure_eq, Res.ok.injEq] at hs
          subst hs
          exact ⟨h.nid, fun x hx => h.gen x (SI.mem_erase hx)⟩
        | err e => exact e.elim
        | panic p => rw [hc] at hs; cases hs
      · simp only [Res.pure_eq, Res.ok.injEq] at hs
        subst hs
        refine ⟨h.nid, ?_⟩
        intro x hx
        rcases SI.mem_insert hx with rfl | hx
        · exact h.gen (id, Unacked.sliced m n numAcked next acked lastSent) (SI.find?_some_mem hf)
        · exact h.gen x hx

theorem chanG_getPackets {L : List Bytes} {s : SendRel} (h : ChanG L s) (hi : s.Inv) (seq avail now : Nat) :
    ChanG L (s.getPackets seq avail now).1 := by
  obtain ⟨-, -, -, hn, hsim, -, -⟩ := SI.SendRel.getPackets_spec hi seq avail now _ _ _ _ rfl
  refine ⟨hn.trans h.nid, ?_⟩
  intro x' hx'
  obtain ⟨x, hx, h1, h2⟩ := SI.MapSim.mem hsim x' hx'
  rw [← h1, ← h2.kin.msg]
  exact h.gen x hx

/-- what a packet may carry on the reliable channels, relative to the submission logs -/
def PktGen (sub : Nat → List Bytes) : Packet → Prop
  | .smallReliable _ ch msgs => ∀ x ∈ msgs, DataPath.GenuineMsg (sub ch) x.1 x.2
  | .reliableSlice _ ch sl => DataPath.GenuineSlice (sub ch) sl
  | _ => True

theorem prefix_getElem? {α : Type} {L L' : List α} (h : L <+: L') {i : Nat} {x : α} (hx : L[i]? = some x) :
    L'[i]? = some x := by
  obtain ⟨t, rfl⟩ := h
  obtain ⟨hi, _⟩ := List.getElem?_eq_some_iff.mp hx
  rw [List.getElem?_append_left hi]; exact hx

theorem PktGen.mono {sub sub' : Nat → List Bytes} (h : ∀ ch, sub ch <+: sub' ch) : ∀ {p : Packet}, PktGen sub p → PktGen sub' p
  | .smallReliable _ ch msgs, hp => fun x hx => prefix_getElem? (h ch) (hp x hx)
  | .reliableSlice _ ch sl, hp => by
    obtain ⟨m, h1, h2⟩ := hp
    exact ⟨m, prefix_getElem? (h ch) h1, h2⟩
  | .smallUnreliable .., _ => trivial
  | .unreliableSlice .., _ => trivial
  | .ack .., _ => trivial

theorem push_prefix (f : Nat → List Bytes) (ch : Nat) (m : Bytes) : ∀ c, f c <+: push f ch m c := by
  intro c
  unfold push
  split
  · exact List.prefix_append _ _
  · exact List.prefix_refl _

/-- every packet of a reliable flush is genuine with respect to the log the channel agrees with -/
theorem getPackets_pktGen {sub : Nat → List Bytes} {ch : Nat} {s : SendRel} (h : ChanG (sub ch) s) (hi : s.Inv)
    (hc : s.ch = ch) (seq avail now : Nat) : ∀ p ∈ (s.getPackets seq avail now).2.1, PktGen sub p := by
  intro p hp
  have hg := SendRel.getPackets_genuine (s := s) (seq := seq) (avail := avail) (now := now) rfl p hp
  cases p with
  | smallReliable sq c msgs =>
    obtain ⟨rfl, hm⟩ := hg
    intro x hx
    obtain ⟨ls, hmem⟩ := hm x hx
    rw [hc]
    exact h.gen _ hmem
  | reliableSlice sq c sl =>
    obtain ⟨rfl, m, na, nx, ak, ls, hmem, hidx, hpay⟩ := hg
    have hok := hi.entries _ hmem
    obtain ⟨o1, o2, -⟩ := hok
    rw [hc]
    exact ⟨m, h.gen _ hmem, o1, o2, hidx, hpay⟩
  | smallUnreliable _ _ _ => trivial
  | unreliableSlice _ _ _ => trivial
  | ack _ _ => trivial

/-- the `Flush` well-formedness of a channel from the `SendInv` invariant plus representable message lengths -/
theorem wf_of_inv {s : SendRel} (hi : s.Inv) (hl : ∀ x ∈ s.unacked, x.2.msg.length ≤ Varint.MAX) : s.WF := by
  refine ⟨?_, fun id u hm => hi.keys _ hm, ?_⟩
  · have : s.unacked.Pairwise (fun a b => a.1 ≠ b.1) := hi.sorted.imp (fun h => Nat.ne_of_lt h)
    simpa [SMap.keys, List.Nodup, List.pairwise_map] using this
  · intro id u hm
    have hok := hi.entries _ hm
    cases u with
    | small m ls => exact hok
    | sliced m n k nx ak ls =>
      obtain ⟨o1, o2, o3, o4, -, -⟩ := hok
      exact ⟨o2, by omega, hl _ hm, o3, o4⟩

theorem slices_le_of_len {m : Bytes} (h : m.length ≤ MAX_NUM_SLICES * SLICE_SIZE) : divCeil m.length SLICE_SIZE ≤ MAX_NUM_SLICES := by
  unfold divCeil SLICE_SIZE MAX_NUM_SLICES at *
  omega

/-- static facts about channel `ch` and its log under which the reliable packets of a flush are well formed -/
structure Stat (L : List Bytes) (ch : Nat) : Prop where
  chan : ch < 256
  ids : L.length ≤ Varint.MAX + 1
  lens : ∀ m ∈ L, m.length ≤ MAX_NUM_SLICES * SLICE_SIZE

theorem getPackets_pktWF {L : List Bytes} {ch : Nat} {s : SendRel} (h : ChanG L s) (hi : s.Inv) (hc : s.ch = ch)
    (hst : Stat L ch) (seq avail now : Nat) (hseq : (s.getPackets seq avail now).2.2.1 ≤ Varint.MAX + 1) :
    ∀ p ∈ (s.getPackets seq avail now).2.1, p.WF := by
  have hlen : ∀ x ∈ s.unacked, x.2.msg.length ≤ MAX_NUM_SLICES * SLICE_SIZE := by
    intro x hx
    exact hst.lens _ (List.mem_of_getElem? (h.gen x hx))
  refine SendRel.getPackets_wf (s := s) (seq := seq) (avail := avail) (now := now) rfl
    (wf_of_inv hi (fun x hx => by have := hlen x hx; unfold MAX_NUM_SLICES SLICE_SIZE at this; unfold Varint.MAX; omega))
    (by rw [hc]; exact hst.chan) (by rw [h.nid]; exact hst.ids) hseq ?_
  intro id m n na nx ak ls hm
  obtain ⟨-, o2, -⟩ := hi.entries _ hm
  rw [o2]
  exact slices_le_of_len (hlen _ hm)

/-! ## receiver side: the per-channel invariants of Lemmas/DataPath, made monotone in the log -/

open DataPath in
/-- the ordered-channel invariant together with "nothing beyond the log has been consumed" (needed for the log to
    be allowed to grow), resp. the unordered-channel invariant -/
def ChanBS (L : List Bytes) (st : RunSt) : Prop :=
  (st.r.ordered = true → OrdInv L st ∧ st.r.oldest ≤ L.length) ∧
  (st.r.ordered = false → UnordInv L st)

open DataPath in
theorem slicesOK_mono {L : List Bytes} {r : RecvRel} (m : Bytes) (h : SlicesOK L r) : SlicesOK (L ++ [m]) r := by
  refine ⟨h.1, ?_⟩
  intro id c hc
  obtain ⟨m', h1, h2⟩ := h.2 id c hc
  exact ⟨m', getElem?_append_singleton_some m h1, h2⟩

open DataPath in
theorem ordInv_mono {L : List Bytes} {st : RunSt} (m : Bytes) (h : OrdInv L st) (hb : st.r.oldest ≤ L.length) :
    OrdInv (L ++ [m]) st := by
  refine ⟨h.ord, h.wfM, ?_, slicesOK_mono m h.slices, ?_⟩
  · intro id x hx
    obtain ⟨a, b⟩ := h.msgs id x hx
    exact ⟨getElem?_append_singleton_some m a, b⟩
  · rw [h.obt, List.take_append_of_le_length hb]

open DataPath in
theorem unordInv_mono {L : List Bytes} {st : RunSt} (m : Bytes) (h : UnordInv L st) : UnordInv (L ++ [m]) st := by
  refine ⟨h.ord, h.wfM, ?_, slicesOK_mono m h.slices, ?_⟩
  · intro id x hx
    obtain ⟨a, b⟩ := h.msgs id x hx
    exact ⟨getElem?_append_singleton_some m a, b⟩
  · obtain ⟨ids, h1, h2, h3⟩ := h.obt
    refine ⟨ids, h1, ?_, h3⟩
    rw [h2]
    apply List.map_congr_left
    intro id hid
    have : L[id]? ∈ st.obtained.map some := by rw [h2]; exact List.mem_map.mpr ⟨id, hid, rfl⟩
    obtain ⟨x, -, hx⟩ := List.mem_map.mp this
    rw [← hx]; exact (getElem?_append_singleton_some m hx.symm).symm

theorem chanBS_mono {L : List Bytes} {st : DataPath.RunSt} (m : Bytes) (h : ChanBS L st) : ChanBS (L ++ [m]) st :=
  ⟨fun ho => ⟨ordInv_mono m (h.1 ho).1 (h.1 ho).2, by have := (h.1 ho).2; simp; omega⟩,
   fun ho => unordInv_mono m (h.2 ho)⟩

open DataPath in
/-- the ordered cursor never runs past the log -/
theorem oldest_step {L : List Bytes} {st : RunSt} {op : RecvOp} (h : OrdInv L st) (hb : st.r.oldest ≤ L.length)
    (g : Genuine L op) : (step st op).r.oldest ≤ L.length := by
  unfold step
  split
  · exact hb
  · cases op with
    | msg id m =>
      dsimp only
      split
      · rename_i r' hp
        dsimp only
        rw [(processMessage_ok hp).1.1]; exact hb
      · exact hb
      · exact hb
    | slice sl =>
      dsimp only
      split
      · rename_i r' hp
        obtain ⟨-, m, -, hacc⟩ := processSlice_ok h.slices g hp
        dsimp only
        rw [hacc.1]; exact hb
      · exact hb
      · exact hb
    | recv =>
      dsimp only
      split
      · rename_i r' m hp
        dsimp only
        unfold RecvRel.receive at hp
        rw [if_pos h.ord] at hp
        split at hp
        · cases hp
        · rename_i x hf
          have hlt : st.r.oldest < L.length := by
            obtain ⟨hi, _⟩ := List.getElem?_eq_some_iff.mp (h.msgs _ _ hf).1
            exact hi
          cases hc : (Res.csub st.r.mem x.length "reliable.rs memory_usage_bytes -= message.len() (receive ordered)" : Res Empty Nat) with
          | ok v =>
            rw [hc] at hp
            simp only [Res.bind_ok, Res.pure_eq, Res.ok.injEq, Prod.mk.injEq] at hp
            obtain ⟨rfl, -⟩ := hp
            exact hlt
          | err e => exact e.elim
          | panic p => rw [hc] at hp; cases hp
      · rename_i r' hp
        dsimp only
        unfold RecvRel.receive at hp
        rw [if_pos h.ord] at hp
        split at hp
        · cases hp; exact hb
        · rename_i x hf
          cases hc : (Res.csub st.r.mem x.length "reliable.rs memory_usage_bytes -= message.len() (receive ordered)" : Res Empty Nat) with
          | ok v =>
            rw [hc] at hp
            simp only [Res.bind_ok, Res.pure_eq, Res.ok.injEq, Prod.mk.injEq] at hp
            exact absurd hp.2 (by simp)
          | err e => exact e.elim
          | panic p => rw [hc] at hp; cases hp
      · exact hb
      · exact hb

open DataPath in
theorem chanBS_step (L : List Bytes) (st : RunSt) (op : RecvOp) (h : ChanBS L st) (g : Genuine L op) :
    ChanBS L (step st op) := by
  cases ho : st.r.ordered with
  | true =>
    obtain ⟨h1, h2⟩ := h.1 ho
    have h3 := ord_step L st op h1 g
    exact ⟨fun _ => ⟨h3, oldest_step h1 h2 g⟩, fun hf => (by rw [h3.ord] at hf; cases hf)⟩
  | false =>
    have h3 := unord_step L st op (h.2 ho) g
    exact ⟨fun hf => (by rw [h3.ord] at hf; cases hf), fun _ => h3⟩

open DataPath in
theorem chanBS_foldl (L : List Bytes) (ops : List RecvOp) (st : RunSt) (h : ChanBS L st) (g : ∀ op ∈ ops, Genuine L op) :
    ChanBS L (ops.foldl step st) :=
  foldl_inv step (ChanBS L) (Genuine L) (chanBS_step L) ops st h g

open DataPath in
/-- the `ordered` flag is part of both invariants, so an invariant-preserving transition cannot flip it:
    stated for the three transitions the system performs -/
theorem step_ordered (L : List Bytes) (st : RunSt) (op : RecvOp) (h : ChanBS L st) (g : Genuine L op) :
    (step st op).r.ordered = st.r.ordered := by
  cases ho : st.r.ordered with
  | true => exact (ord_step L st op (h.1 ho).1 g).ord
  | false => exact (unord_step L st op (h.2 ho) g).ord

open DataPath in
theorem foldl_ordered (L : List Bytes) : ∀ (ops : List RecvOp) (st : RunSt), ChanBS L st → (∀ op ∈ ops, Genuine L op) →
    (ops.foldl step st).r.ordered = st.r.ordered
  | [], _, _, _ => rfl
  | op :: ops, st, h, g => by
    rw [List.foldl_cons, foldl_ordered L ops (step st op) (chanBS_step L st op h (g op (by simp)))
      (fun o ho => g o (List.mem_cons_of_mem _ ho))]
    exact step_ordered L st op h (g op (by simp))

/-! ## one flush, at connection level -/

/-- the packets whose encodings the next `get_packets_to_send` hands to the transport (none when the connection is
    disconnected or serialisation fails) -/
def flushPk (c : Conn) : List Packet :=
  if c.isDisconnected then [] else
  match Conn.chanLoop c.now c.order (c.sendRel, c.sendUnrel, [], c.packetSeq, c.budget) with
  | .ok (_, _, pk0, seq0, _) =>
    match Conn.serialiseAll (if c.pendingAcks.isEmpty then pk0 else pk0 ++ [Packet.ack seq0 c.pendingAcks]) with
    | .ok _ => if c.pendingAcks.isEmpty then pk0 else pk0 ++ [Packet.ack seq0 c.pendingAcks]
    | _ => []
  | _ => []

theorem relMapFit_of_inv {c : Conn} (h : c.SendInv) : RelMapFit c.sendRel := by
  intro ch s hs id m n na nx ak ls hm
  obtain ⟨-, o2, -⟩ := (h.chans ch s hs).1.entries _ hm
  rw [o2]; exact divCeil_mul_ge _

theorem mem_flushPk_cases {pk0 : List Packet} {l : List AckRange} {seq0 : Nat} {p : Packet}
    (hp : p ∈ (if l.isEmpty then pk0 else pk0 ++ [Packet.ack seq0 l])) : p ∈ pk0 ∨ p = Packet.ack seq0 l := by
  split at hp
  · exact Or.inl hp
  · rw [List.mem_append, List.mem_singleton] at hp; exact hp

/-- bytes, numbering and frame of one flush -/
theorem flush_facts {c c' : Conn} {bs : List Bytes} (hinv : c.SendInv) (h : c.getPacketsToSend = .ok (c', bs)) :
    (flushPk c).map encO = bs.map some ∧
    ((flushPk c).map Packet.sequence).Pairwise (· < ·) ∧
    (∀ p ∈ flushPk c, c.packetSeq ≤ p.sequence ∧ p.sequence < c'.packetSeq) ∧
    c.packetSeq ≤ c'.packetSeq ∧ c'.recvRel = c.recvRel ∧ c'.pendingAcks = c.pendingAcks ∧
    (c'.isDisconnected = false → c.isDisconnected = false) := by
  rcases getPacketsToSend_unfold h with ⟨hd, hc', hbs⟩ | ⟨hd, sr, su, pk0, seq0, avail, sent, hl, hrec, hser⟩
  · have : flushPk c = [] := by unfold flushPk; rw [if_pos hd]
    rw [this, hc', hbs]
    exact ⟨rfl, List.Pairwise.nil, fun _ hp => (by cases hp), Nat.le_refl _, rfl, rfl, fun h => h⟩
  · obtain ⟨ps, hps, -, hseq, hrange, -⟩ := chanLoop_budget _ _ _ _ _ _ _ _ _ _ _ _ (relMapFit_of_inv hinv) hl
    simp only [List.nil_append] at hps
    subst hps
    have hseqs : ∀ p ∈ pk0, c.packetSeq ≤ p.sequence ∧ p.sequence < seq0 := by
      intro p hp
      have : p.sequence ∈ pk0.map Packet.sequence := List.mem_map.mpr ⟨p, hp, rfl⟩
      rw [hrange, List.mem_range'_1] at this
      omega
    have hall : ∀ p ∈ (if c.pendingAcks.isEmpty then pk0 else pk0 ++ [Packet.ack seq0 c.pendingAcks]),
        c.packetSeq ≤ p.sequence ∧ p.sequence < (if c.pendingAcks.isEmpty then seq0 else seq0 + 1) := by
      intro p hp
      split at hp
      · rename_i he; rw [if_pos he]; exact hseqs p hp
      · rename_i he
        rw [if_neg he]
        rw [List.mem_append, List.mem_singleton] at hp
        rcases hp with hp | rfl
        · have := hseqs p hp; omega
        · simp only [Packet.sequence]; omega
    have hpw : ((if c.pendingAcks.isEmpty then pk0 else pk0 ++ [Packet.ack seq0 c.pendingAcks]).map Packet.sequence).Pairwise (· < ·) := by
      split
      · rw [hrange]; exact List.pairwise_lt_range' _
      · rw [List.map_append, List.pairwise_append]
        refine ⟨by rw [hrange]; exact List.pairwise_lt_range' _, by simp, ?_⟩
        intro a ha b hb
        rw [hrange, List.mem_range'_1] at ha
        simp only [List.map_cons, List.map_nil, List.mem_singleton] at hb
        rw [hb]
        show a < seq0
        omega
    have hmono : c.packetSeq ≤ (if c.pendingAcks.isEmpty then seq0 else seq0 + 1) := by split <;> omega
    rcases hser with ⟨hok, rfl⟩ | ⟨e, herr, rfl, rfl⟩
    · have hf : flushPk c = (if c.pendingAcks.isEmpty then pk0 else pk0 ++ [Packet.ack seq0 c.pendingAcks]) := by
        unfold flushPk; rw [hd]; simp only [Bool.false_eq_true, ↓reduceIte, hl, hok]
      rw [hf]
      exact ⟨serialiseAll_enc _ _ hok, hpw, hall, hmono, rfl, rfl, fun _ => hd⟩
    · have hf : flushPk c = [] := by
        unfold flushPk; rw [hd]; simp only [Bool.false_eq_true, ↓reduceIte, hl, herr]
      rw [hf]
      obtain ⟨hs, hp, hr, -⟩ := Conn.disconnectWith_same
        ({ c with sendRel := sr, sendUnrel := su, packetSeq := (if c.pendingAcks.isEmpty then seq0 else seq0 + 1), sent := sent } : Conn)
        (.packetSer e)
      refine ⟨rfl, List.Pairwise.nil, fun _ hp => (by cases hp), ?_, hr, hp, ?_⟩
      · rw [hs.2.2.2.1]; exact hmono
      · intro hcon
        rw [disconnectWith_isDisconnected] at hcon; cases hcon

/-- per-channel properties and per-packet properties through one flush -/
theorem flush_pres (P : Nat → SendRel → Prop) (Q : Packet → Prop) (B : Nat) {c c' : Conn} {bs : List Bytes}
    (hrel : ∀ ch s seq avail, P ch s → (s.getPackets seq avail c.now).2.2.1 ≤ B →
      P ch (s.getPackets seq avail c.now).1 ∧ ∀ p ∈ (s.getPackets seq avail c.now).2.1, Q p)
    (hunrel : ∀ (s : SendUnrel) seq avail, ∀ p ∈ (s.getPackets seq avail).2.1, Q p)
    (hack : ∀ seq, Q (Packet.ack seq c.pendingAcks))
    (h : c.getPacketsToSend = .ok (c', bs)) (hb : c'.packetSeq ≤ B)
    (hc : ∀ ch s, SMap.find? c.sendRel ch = some s → P ch s) :
    (∀ ch s, SMap.find? c'.sendRel ch = some s → P ch s) ∧ ∀ p ∈ flushPk c, Q p := by
  rcases getPacketsToSend_unfold h with ⟨hd, hc', hbs⟩ | ⟨hd, sr, su, pk0, seq0, avail, sent, hl, hrec, hser⟩
  · have : flushPk c = [] := by unfold flushPk; rw [if_pos hd]
    rw [this, hc']
    exact ⟨hc, fun _ hp => (by cases hp)⟩
  · have hseq0 : seq0 ≤ B := by
      rcases hser with ⟨-, rfl⟩ | ⟨e, -, -, rfl⟩
      · dsimp only at hb; split at hb <;> omega
      · rw [(Conn.disconnectWith_same _ _).1.2.2.2.1] at hb
        dsimp only at hb; split at hb <;> omega
    obtain ⟨h1, h2⟩ := chanLoop_pres P Q B c.now hrel hunrel _ _ _ _ _ _ _ _ _ _ _ hl hseq0 hc (fun _ hp => by cases hp)
    have hq : ∀ p ∈ (if c.pendingAcks.isEmpty then pk0 else pk0 ++ [Packet.ack seq0 c.pendingAcks]), Q p := by
      intro p hp
      rcases mem_flushPk_cases hp with hp | rfl
      · exact h2 p hp
      · exact hack _
    rcases hser with ⟨hok, rfl⟩ | ⟨e, herr, rfl, rfl⟩
    · have hf : flushPk c = (if c.pendingAcks.isEmpty then pk0 else pk0 ++ [Packet.ack seq0 c.pendingAcks]) := by
        unfold flushPk; rw [hd]; simp only [Bool.false_eq_true, ↓reduceIte, hl, hok]
      rw [hf]
      exact ⟨h1, hq⟩
    · have hf : flushPk c = [] := by
        unfold flushPk; rw [hd]; simp only [Bool.false_eq_true, ↓reduceIte, hl, herr]
      rw [hf, (Conn.disconnectWith_same _ _).1.1]
      exact ⟨h1, fun _ hp => by cases hp⟩

/-! ## system invariants, layer 1 (unconditional): sender bookkeeping and the packets on the wire -/

theorem unrel_not_rel (s : SendUnrel) (seq avail : Nat) : ∀ p ∈ (s.getPackets seq avail).2.1, isRel p = false := by
  intro p hp
  have := (SendUnrel.getPackets_emitted (s := s) (seq := seq) (avail := avail) rfl).2 p hp
  cases p with
  | smallReliable _ _ _ => exact this.elim
  | reliableSlice _ _ _ => exact this.elim
  | smallUnreliable _ _ _ => rfl
  | unreliableSlice _ _ _ => rfl
  | ack _ _ => rfl

theorem pktGen_of_not_rel {sub : Nat → List Bytes} {p : Packet} (h : isRel p = false) : PktGen sub p := by
  cases p with
  | smallReliable _ _ _ => cases h
  | reliableSlice _ _ _ => cases h
  | smallUnreliable _ _ _ => trivial
  | unreliableSlice _ _ _ => trivial
  | ack _ _ => trivial

theorem sendMessage_packetSeq {c c' : Conn} {ch : Nat} {m : Bytes} (h : c.sendMessage ch m = .ok c') :
    c'.packetSeq = c.packetSeq := by
  unfold Conn.sendMessage at h
  split at h
  · cases h; rfl
  · split at h
    · split at h
      · cases h; rfl
      · cases h; exact (c.disconnectWith_same _).1.2.2.2.1
    · split at h
      · cases h; rfl
      · cases h

theorem processPacket_packetSeq {c c' : Conn} {bytes : Bytes} (hinv : c.SendInv) (h : c.processPacket bytes = .ok c') :
    c'.packetSeq = c.packetSeq := by
  rcases SI.Conn.processPacket_cases h with ⟨hs1, -, -⟩ | ⟨p, -, -, hs1, -⟩ | ⟨aseq, ranges, L, hd, hp, -, -⟩
  · exact hs1.2.2.2.1
  · exact hs1.2.2.2.1
  · obtain ⟨L', c2, -, e, -, eff, -, -⟩ := SI.Conn.processPacket_ack_spec hinv hd hp
    rw [e] at h; cases h
    exact eff.frame.2.2.2.2.2.1

/-- the packet list that mirrors `outA` after one more operation -/
def nextPk (s : Sys) (op : SysOp) (pkA : List Packet) : List Packet :=
  match op with
  | .flushA => pkA ++ flushPk s.a
  | _ => pkA

structure Inv1 (cfg : Cfg) (s : Sys) (pkA : List Packet) : Prop where
  reachA : C08.Reach cfg.budget cfg.send cfg.recv s.a
  reachB : C08.Reach cfg.budget cfg.recv cfg.send s.b
  /-- (S1) -/
  chanA : ∀ ch sA, SMap.find? s.a.sendRel ch = some sA → ChanG (s.submitted ch) sA ∧ ∃ c ∈ cfg.send, c.id = ch
  /-- `outA` is, datagram for datagram, the encoding of the ghost packet list `pkA` -/
  encA : pkA.map encO = s.outA.map some
  /-- A's packets carry strictly increasing sequence numbers below `packet_sequence` -/
  seqA : (pkA.map Packet.sequence).Pairwise (· < ·) ∧ ∀ p ∈ pkA, p.sequence < s.a.packetSeq
  /-- (S2, packet level) every reliable entry of every emitted packet is genuine -/
  genA : ∀ p ∈ pkA, PktGen s.submitted p
  delivB : ∀ k ∈ s.deliveredToB, k < s.outA.length

theorem Inv1.invA {cfg : Cfg} {s : Sys} {pkA : List Packet} (h : Inv1 cfg s pkA) : s.a.SendInv ∧ Acks.WF s.a.pendingAcks :=
  C08.reach_inv h.reachA

theorem Inv1.invB {cfg : Cfg} {s : Sys} {pkA : List Packet} (h : Inv1 cfg s pkA) : s.b.SendInv ∧ Acks.WF s.b.pendingAcks :=
  C08.reach_inv h.reachB

theorem inv1_init (cfg : Cfg) : Inv1 cfg (Sys.init cfg) [] := by
  refine ⟨.init, .init, ?_, rfl, ⟨List.Pairwise.nil, fun _ h => (by cases h)⟩, fun _ h => (by cases h), fun _ h => (by cases h)⟩
  intro ch sA hf
  simp only [Sys.init, Conn.fromChannels] at hf
  rcases SI.foldl_insert_find (fun c : ChanCfg => c.id) (fun c => SendRel.new c.id c.resend c.maxMem) _ _ ch sA hf with h | ⟨c, hc, h1, h2⟩
  · cases h
  · subst h2
    exact ⟨chanG_new _ _ _, c, (List.mem_filter.mp hc).1, h1⟩

/-- the per-channel property layer 1 threads through the flush -/
def P1 (cfg : Cfg) (sub : Nat → List Bytes) (ch : Nat) (s : SendRel) : Prop :=
  (ChanG (sub ch) s ∧ ∃ c ∈ cfg.send, c.id = ch) ∧ s.Inv ∧ s.ch = ch

theorem p1_getPackets (cfg : Cfg) (sub : Nat → List Bytes) (now : Nat) (ch : Nat) (s : SendRel) (seq avail : Nat)
    (h : P1 cfg sub ch s) :
    P1 cfg sub ch (s.getPackets seq avail now).1 ∧ ∀ p ∈ (s.getPackets seq avail now).2.1, PktGen sub p := by
  obtain ⟨⟨hg, hcfg⟩, hi, hc⟩ := h
  obtain ⟨i', st, -⟩ := SI.SendRel.getPackets_spec hi seq avail now _ _ _ _ rfl
  exact ⟨⟨⟨chanG_getPackets hg hi seq avail now, hcfg⟩, i', st.1.trans hc⟩, getPackets_pktGen hg hi hc seq avail now⟩

theorem inv1_step {cfg : Cfg} {s s' : Sys} {pkA : List Packet} {op : SysOp} (h : Inv1 cfg s pkA)
    (hs : s.step op = some s') : Inv1 cfg s' (nextPk s op pkA) := by
  cases op with
  | sendA ch m =>
    simp only [Sys.step] at hs
    split at hs
    · rename_i a' hm
      simp only [Option.some.injEq] at hs
      subst hs
      have hseq := sendMessage_packetSeq hm
      rcases sendMessage_cases hm with ⟨hacc, s0, s1, hf, hsend, rfl⟩ | ⟨hacc, hsr⟩
      · refine ⟨.sendMessage h.reachA hm, h.reachB, ?_, h.encA, h.seqA, ?_, h.delivB⟩
        · intro ch2 sA hf2
          dsimp only at hf2 ⊢
          rw [hacc]
          simp only [↓reduceIte]
          rw [SMap.find?_insert] at hf2
          split at hf2
          · rename_i e
            subst e
            cases hf2
            rw [push_same]
            exact ⟨chanG_send (h.chanA ch s0 hf).1 hsend, (h.chanA ch s0 hf).2⟩
          · rename_i e
            rw [push_other _ _ (fun e' => e e'.symm)]
            exact h.chanA ch2 sA hf2
        · intro p hp
          dsimp only
          rw [hacc]
          simp only [↓reduceIte]
          exact (h.genA p hp).mono (push_prefix _ _ _)
      · refine ⟨.sendMessage h.reachA hm, h.reachB, ?_, h.encA, ⟨h.seqA.1, by dsimp only; rw [hseq]; exact h.seqA.2⟩, ?_, h.delivB⟩
        · dsimp only
          rw [hacc, hsr]
          exact h.chanA
        · dsimp only
          rw [hacc]
          exact h.genA
    · cases hs
  | recvB ch =>
    simp only [Sys.step] at hs
    split at hs
    · rename_i b' m hm
      cases hs
      exact ⟨h.reachA, .receiveMessage h.reachB hm, h.chanA, h.encA, h.seqA, h.genA, h.delivB⟩
    · rename_i b' hm
      cases hs
      exact ⟨h.reachA, .receiveMessage h.reachB hm, h.chanA, h.encA, h.seqA, h.genA, h.delivB⟩
    · cases hs
  | updA dt =>
    simp only [Sys.step] at hs
    split at hs
    · rename_i a' hm
      cases hs
      obtain ⟨e1, -, e3, -⟩ := SI.Conn.update_spec hm
      refine ⟨.update h.reachA hm, h.reachB, by dsimp only; rw [e1]; exact h.chanA, h.encA,
        ⟨h.seqA.1, by dsimp only; rw [e3]; exact h.seqA.2⟩, h.genA, h.delivB⟩
    · cases hs
  | updB dt =>
    simp only [Sys.step] at hs
    split at hs
    · rename_i b' hm
      cases hs
      exact ⟨h.reachA, .update h.reachB hm, h.chanA, h.encA, h.seqA, h.genA, h.delivB⟩
    · cases hs
  | flushA =>
    simp only [Sys.step] at hs
    split at hs
    · rename_i a' bs hm
      cases hs
      obtain ⟨f1, f2, f3, f4, -⟩ := flush_facts h.invA.1 hm
      obtain ⟨g1, g2⟩ := flush_pres (P1 cfg s.submitted) (PktGen s.submitted) a'.packetSeq
        (fun ch sA seq avail hp _ => p1_getPackets cfg s.submitted s.a.now ch sA seq avail hp)
        (fun sU seq avail p hp => pktGen_of_not_rel (unrel_not_rel sU seq avail p hp))
        (fun _ => trivial) hm (Nat.le_refl _)
        (fun ch sA hf => ⟨h.chanA ch sA hf, h.invA.1.chans ch sA hf⟩)
      refine ⟨.flush h.reachA hm, h.reachB, fun ch sA hf => (g1 ch sA hf).1, ?_, ⟨?_, ?_⟩, ?_, ?_⟩
      · simp only [nextPk, List.map_append, h.encA, f1]
      · simp only [nextPk, List.map_append, List.pairwise_append]
        refine ⟨h.seqA.1, f2, ?_⟩
        intro x hx y hy
        obtain ⟨p, hp, rfl⟩ := List.mem_map.mp hx
        obtain ⟨q, hq, rfl⟩ := List.mem_map.mp hy
        have := h.seqA.2 p hp
        have := (f3 q hq).1
        omega
      · intro p hp
        simp only [nextPk, List.mem_append] at hp
        rcases hp with hp | hp
        · have := h.seqA.2 p hp
          dsimp only; omega
        · exact (f3 p hp).2
      · intro p hp
        simp only [nextPk, List.mem_append] at hp
        rcases hp with hp | hp
        · exact h.genA p hp
        · exact g2 p hp
      · intro k hk
        have := h.delivB k hk
        simp only [List.length_append]; omega
    · cases hs
  | flushB =>
    simp only [Sys.step] at hs
    split at hs
    · rename_i b' bs hm
      cases hs
      exact ⟨h.reachA, .flush h.reachB hm, h.chanA, h.encA, h.seqA, h.genA, h.delivB⟩
    · cases hs
  | deliverToB k =>
    simp only [Sys.step] at hs
    split at hs
    · cases hs
    · rename_i bytes hb
      split at hs
      · rename_i b' hm
        cases hs
        refine ⟨h.reachA, .packet h.reachB hm, h.chanA, h.encA, h.seqA, h.genA, ?_⟩
        intro k' hk'
        simp only [List.mem_append, List.mem_singleton] at hk'
        rcases hk' with hk' | rfl
        · exact h.delivB k' hk'
        · exact (List.getElem?_eq_some_iff.mp hb).1
      · cases hs
  | deliverToA k =>
    simp only [Sys.step] at hs
    split at hs
    · cases hs
    · rename_i bytes hb
      split at hs
      · rename_i a' hm
        cases hs
        have hps := processPacket_packetSeq h.invA.1 hm
        refine ⟨.packet h.reachA hm, h.reachB, ?_, h.encA, ⟨h.seqA.1, by dsimp only; rw [hps]; exact h.seqA.2⟩, h.genA, h.delivB⟩
        exact processPacket_pres (fun ch sA => ChanG (s.submitted ch) sA ∧ ∃ c ∈ cfg.send, c.id = ch)
          (fun ch sA id sA' hp hh => ⟨chanG_msgAck hp.1 hh, hp.2⟩)
          (fun ch sA id idx sA' hp hh => ⟨chanG_sliceAck hp.1 hh, hp.2⟩) hm h.chanA
      · cases hs

/-! ## the counter-range hypothesis, and its monotonicity along a run -/

/-- Everything the wire format has to carry is in range: channel ids are bytes (they are `u8` in the Rust code),
    A's packet sequence counter and message-id counters have not passed 2^62 (the varint limit, where the Rust
    encoder hits `unreachable!`), and no message submitted on a reliable (`lens`) or unreliable (`lensU`) channel
    needs more than `MAX_NUM_SLICES` slices (1.2 GB; the receiver rejects larger slice counts).  All of them only
    ever get harder to satisfy as a run proceeds, so they are stated for the state at hand and hold for every
    earlier state of the run (`counters_step`). -/
structure CountersOK (cfg : Cfg) (s : Sys) : Prop where
  chan : ∀ c ∈ cfg.send, c.id < 256
  seq : s.a.packetSeq ≤ Varint.MAX + 1
  ids : ∀ c ∈ cfg.send, (s.submitted c.id).length ≤ Varint.MAX + 1
  lens : ∀ c ∈ cfg.send, ∀ m ∈ s.submitted c.id, m.length ≤ MAX_NUM_SLICES * SLICE_SIZE
  lensU : ∀ c ∈ cfg.send, ∀ m ∈ s.submittedU c.id, m.length ≤ MAX_NUM_SLICES * SLICE_SIZE

theorem step_mono {cfg : Cfg} {s s' : Sys} {pkA : List Packet} {op : SysOp} (h : Inv1 cfg s pkA)
    (hs : s.step op = some s') :
    s.a.packetSeq ≤ s'.a.packetSeq ∧ (∀ ch, s.submitted ch <+: s'.submitted ch) ∧ s.outA <+: s'.outA ∧
    (∀ ch, s.submittedU ch <+: s'.submittedU ch) := by
  cases op with
  | sendA ch m =>
    simp only [Sys.step] at hs
    split at hs
    · rename_i a' hm
      cases hs
      refine ⟨by rw [sendMessage_packetSeq hm]; exact Nat.le_refl _, ?_, List.prefix_refl _, ?_⟩
      · intro c
        dsimp only
        split
        · exact push_prefix _ _ _ c
        · exact List.prefix_refl _
      · intro c
        dsimp only
        split
        · exact push_prefix _ _ _ c
        · exact List.prefix_refl _
    · cases hs
  | recvB ch =>
    simp only [Sys.step] at hs
    split at hs
    · cases hs; exact ⟨Nat.le_refl _, fun _ => List.prefix_refl _, List.prefix_refl _, fun _ => List.prefix_refl _⟩
    · cases hs; exact ⟨Nat.le_refl _, fun _ => List.prefix_refl _, List.prefix_refl _, fun _ => List.prefix_refl _⟩
    · cases hs
  | updA dt =>
    simp only [Sys.step] at hs
    split at hs
    · rename_i a' hm
      cases hs
      exact ⟨by rw [(SI.Conn.update_spec hm).2.2.1]; exact Nat.le_refl _, fun _ => List.prefix_refl _, List.prefix_refl _, fun _ => List.prefix_refl _⟩
    · cases hs
  | updB dt =>
    simp only [Sys.step] at hs
    split at hs
    · cases hs; exact ⟨Nat.le_refl _, fun _ => List.prefix_refl _, List.prefix_refl _, fun _ => List.prefix_refl _⟩
    · cases hs
  | flushA =>
    simp only [Sys.step] at hs
    split at hs
    · rename_i a' bs hm
      cases hs
      exact ⟨(flush_facts h.invA.1 hm).2.2.2.1, fun _ => List.prefix_refl _, List.prefix_append _ _, fun _ => List.prefix_refl _⟩
    · cases hs
  | flushB =>
    simp only [Sys.step] at hs
    split at hs
    · cases hs; exact ⟨Nat.le_refl _, fun _ => List.prefix_refl _, List.prefix_refl _, fun _ => List.prefix_refl _⟩
    · cases hs
  | deliverToB k =>
    simp only [Sys.step] at hs
    split at hs
    · cases hs
    · split at hs
      · cases hs; exact ⟨Nat.le_refl _, fun _ => List.prefix_refl _, List.prefix_refl _, fun _ => List.prefix_refl _⟩
      · cases hs
  | deliverToA k =>
    simp only [Sys.step] at hs
    split at hs
    · cases hs
    · split at hs
      · rename_i a' hm
        cases hs
        exact ⟨by rw [processPacket_packetSeq h.invA.1 hm]; exact Nat.le_refl _, fun _ => List.prefix_refl _, List.prefix_refl _, fun _ => List.prefix_refl _⟩
      · cases hs

theorem counters_step {cfg : Cfg} {s s' : Sys} {pkA : List Packet} {op : SysOp} (h : Inv1 cfg s pkA)
    (hs : s.step op = some s') (hc : CountersOK cfg s') : CountersOK cfg s := by
  obtain ⟨m1, m2, -, m4⟩ := step_mono h hs
  refine ⟨hc.chan, Nat.le_trans m1 hc.seq, fun c hcm => Nat.le_trans (m2 c.id).length_le (hc.ids c hcm), ?_, ?_⟩
  · intro c hcm m hm
    exact hc.lens c hcm m ((m2 c.id).subset hm)
  · intro c hcm m hm
    exact hc.lensU c hcm m ((m4 c.id).subset hm)

/-! ## system invariants, layer 2 (under `CountersOK`): the wire round trip and the receiver -/

/-- reliability kind of B's receive channel `ch`, read off the initial state: `some true` = ordered,
    `some false` = unordered, `none` = not a reliable channel -/
def RelKind (cfg : Cfg) (ch : Nat) : Option Bool := (SMap.find? (Sys.init cfg).b.recvRel ch).map (·.ordered)

/-- the end-to-end statement about one channel: what B's application obtained, against what A's submitted -/
def Concl : Option Bool → List Bytes → List Bytes → Prop
  | some true, L, o => o <+: L
  | some false, L, o => ∃ ids : List Nat, ids.Nodup ∧ o.map some = ids.map (fun id => L[id]?)
  | none, _, _ => True

theorem concl_mono {k : Option Bool} {L o : List Bytes} (m : Bytes) (h : Concl k L o) : Concl k (L ++ [m]) o := by
  cases k with
  | none => trivial
  | some b =>
    cases b with
    | true => exact List.IsPrefix.trans h (List.prefix_append _ _)
    | false =>
      obtain ⟨ids, h1, h2⟩ := h
      refine ⟨ids, h1, ?_⟩
      rw [h2]
      apply List.map_congr_left
      intro id hid
      have : L[id]? ∈ o.map some := by rw [h2]; exact List.mem_map.mpr ⟨id, hid, rfl⟩
      obtain ⟨x, -, hx⟩ := List.mem_map.mp this
      rw [← hx]; exact (getElem?_append_singleton_some m hx.symm).symm

theorem concl_of_chanBS {L o : List Bytes} {r : RecvRel} (h : ChanBS L ⟨r, o, false⟩) : Concl (some r.ordered) L o := by
  cases ho : r.ordered with
  | true =>
    have := (h.1 ho).1.obt
    dsimp only at this
    show o <+: L
    rw [this]; exact List.take_prefix _ _
  | false =>
    obtain ⟨ids, h1, h2, -⟩ := (h.2 ho).obt
    exact ⟨ids, h1, h2⟩

structure Inv2 (cfg : Cfg) (s : Sys) (pkA : List Packet) : Prop where
  /-- the reliable packets A emitted are well formed, so B decodes exactly them -/
  wfA : ∀ p ∈ pkA, isRel p = true → p.WF
  /-- (S3) while B is live, each of its reliable receive channels satisfies the DataPath invariant for the
      log of the same channel id, with `obtained` as the ghost output -/
  recvB : s.b.isDisconnected = false →
    (∀ ch, (SMap.find? s.b.recvRel ch).map (·.ordered) = RelKind cfg ch) ∧
    ∀ ch r, SMap.find? s.b.recvRel ch = some r → ChanBS (s.submitted ch) ⟨r, s.obtained ch, false⟩
  concl : ∀ ch, Concl (RelKind cfg ch) (s.submitted ch) (s.obtained ch)

theorem inv2_init (cfg : Cfg) : Inv2 cfg (Sys.init cfg) [] := by
  have hch : ∀ ch r, SMap.find? (Sys.init cfg).b.recvRel ch = some r → ChanBS [] ⟨r, [], false⟩ := by
    intro ch r hf
    simp only [Sys.init, Conn.fromChannels] at hf
    rcases SI.foldl_insert_find (fun c : ChanCfg => c.id) (fun c => RecvRel.new c.maxMem (c.kind == .ordered)) _ _ ch r hf with h | ⟨c, -, -, h2⟩
    · cases h
    · subst h2
      cases hk : (c.kind == Kind.ordered) with
      | true => exact ⟨fun _ => ⟨DataPath.ord_init [] c.maxMem, Nat.le_refl _⟩, fun hf => (by cases hf)⟩
      | false => exact ⟨fun hf => (by cases hf), fun _ => DataPath.unord_init [] c.maxMem⟩
  refine ⟨fun _ h => (by cases h), fun _ => ⟨fun _ => rfl, hch⟩, ?_⟩
  intro ch
  unfold RelKind
  cases hf : SMap.find? (Sys.init cfg).b.recvRel ch with
  | none => trivial
  | some r => exact concl_of_chanBS (hch ch r hf)

theorem update_recv {c c' : Conn} {dt : Nat} (h : c.update dt = .ok c') : c'.recvRel = c.recvRel ∧ c'.status = c.status := by
  unfold Conn.update at h
  dsimp only at h
  cases hd : Conn.discardAll (c.now + dt) c.recvUnrel with
  | ok ru => rw [hd] at h; simp only [Res.bind_ok, Res.pure_eq] at h; cases h; exact ⟨rfl, rfl⟩
  | err e => exact e.elim
  | panic s => rw [hd] at h; cases h

theorem isDisconnected_congr {c c' : Conn} (h : c'.status = c.status) : c'.isDisconnected = c.isDisconnected := by
  unfold Conn.isDisconnected; rw [h]

theorem step_recv_eq {r r' : RecvRel} {o : List Bytes} {m : Option Bytes} (h : r.receive = .ok (r', m)) :
    DataPath.step ⟨r, o, false⟩ .recv = ⟨r', o ++ m.toList, false⟩ := by
  unfold DataPath.step
  rw [if_neg (by simp)]
  dsimp only
  rw [h]
  cases m <;> simp

theorem step_slice_eq {r r' : RecvRel} {o : List Bytes} {sl : Slice} (h : r.processSlice sl = .ok r') :
    DataPath.step ⟨r, o, false⟩ (.slice sl) = ⟨r', o, false⟩ := by
  unfold DataPath.step
  rw [if_neg (by simp)]
  dsimp only
  rw [h]

/-- replacing one receive channel by its image under an invariant-preserving transition -/
theorem recv_update {K : Nat → Option Bool} {sub obt obt' : Nat → List Bytes} {R : SMap RecvRel} {ch0 : Nat}
    {r0 r1 : RecvRel}
    (hold : (∀ ch, (SMap.find? R ch).map (·.ordered) = K ch) ∧
      ∀ ch r, SMap.find? R ch = some r → ChanBS (sub ch) ⟨r, obt ch, false⟩)
    (hf : SMap.find? R ch0 = some r0) (hnew : ChanBS (sub ch0) ⟨r1, obt' ch0, false⟩) (hord : r1.ordered = r0.ordered)
    (hoth : ∀ ch, ch ≠ ch0 → obt' ch = obt ch) :
    (∀ ch, (SMap.find? (SMap.insert R ch0 r1) ch).map (·.ordered) = K ch) ∧
      ∀ ch r, SMap.find? (SMap.insert R ch0 r1) ch = some r → ChanBS (sub ch) ⟨r, obt' ch, false⟩ := by
  constructor
  · intro ch
    rw [SMap.find?_insert]
    split
    · rename_i e; subst e
      rw [← hold.1 ch0, hf]; simp [hord]
    · exact hold.1 ch
  · intro ch r hr
    rw [SMap.find?_insert] at hr
    split at hr
    · rename_i e; subst e; cases hr; exact hnew
    · rename_i e
      rw [hoth ch (fun e' => e e'.symm)]
      exact hold.2 ch r hr

/-- the per-channel property layer 2 threads through the flush -/
def P2 (sub : Nat → List Bytes) (ch : Nat) (s : SendRel) : Prop :=
  (ChanG (sub ch) s ∧ s.Inv ∧ s.ch = ch) ∧ Stat (sub ch) ch

theorem p2_getPackets (sub : Nat → List Bytes) (now : Nat) (ch : Nat) (s : SendRel) (seq avail : Nat)
    (h : P2 sub ch s) (hseq : (s.getPackets seq avail now).2.2.1 ≤ Varint.MAX + 1) :
    P2 sub ch (s.getPackets seq avail now).1 ∧ ∀ p ∈ (s.getPackets seq avail now).2.1, isRel p = true → p.WF := by
  obtain ⟨⟨hg, hi, hc⟩, hst⟩ := h
  obtain ⟨i', st, -⟩ := SI.SendRel.getPackets_spec hi seq avail now _ _ _ _ rfl
  exact ⟨⟨⟨chanG_getPackets hg hi seq avail now, i', st.1.trans hc⟩, hst⟩,
    fun p hp _ => getPackets_pktWF hg hi hc hst seq avail now hseq p hp⟩

/-- what B decodes from a datagram of `outA` is genuine -/
theorem decoded_genuine {cfg : Cfg} {s : Sys} {pkA : List Packet} (h1 : Inv1 cfg s pkA) (h2 : Inv2 cfg s pkA)
    {k : Nat} {bytes : Bytes} (hb : s.outA[k]? = some bytes) {p' : Packet} (hd : Packet.fromBytes bytes = .ok p') :
    PktGen s.submitted p' ∧ ∃ p, pkA[k]? = some p ∧ p.enc = .ok bytes ∧ p'.sequence = p.sequence ∧ (isRel p = true → p' = p) := by
  obtain ⟨p, hp, he⟩ := enc_lookup h1.encA hb
  have hmem : p ∈ pkA := List.mem_of_getElem? hp
  obtain ⟨hsq, htag⟩ := fromBytes_of_enc he hd
  have hrel := isRel_of_tag htag
  cases hr : isRel p with
  | true =>
    have : p' = p := fromBytes_of_enc_wf (h2.wfA p hmem hr) he hd
    subst this
    exact ⟨h1.genA _ hmem, _, hp, he, rfl, fun _ => rfl⟩
  | false =>
    rw [hr] at hrel
    exact ⟨pktGen_of_not_rel hrel, p, hp, he, hsq, fun h => (by rw [hr] at h; cases h)⟩

theorem inv2_step {cfg : Cfg} {s s' : Sys} {pkA : List Packet} {op : SysOp} (h1 : Inv1 cfg s pkA) (h2 : Inv2 cfg s pkA)
    (hs : s.step op = some s') (hc : CountersOK cfg s') : Inv2 cfg s' (nextPk s op pkA) := by
  cases op with
  | sendA ch m =>
    simp only [Sys.step] at hs
    split at hs
    · rename_i a' hm
      cases hs
      cases hacc : accepted s.a a' ch with
      | false =>
        simp only [Bool.false_eq_true, ↓reduceIte]
        exact ⟨h2.wfA, h2.recvB, h2.concl⟩
      | true =>
        simp only [↓reduceIte]
        refine ⟨h2.wfA, ?_, ?_⟩
        · intro hd
          obtain ⟨f1, f2⟩ := h2.recvB hd
          refine ⟨f1, ?_⟩
          intro c r hr
          dsimp only
          unfold push
          split
          · rename_i e; subst e; exact chanBS_mono m (f2 c r hr)
          · exact f2 c r hr
        · intro c
          dsimp only
          unfold push
          split
          · rename_i e; subst e; exact concl_mono m (h2.concl c)
          · exact h2.concl c
    · cases hs
  | recvB ch =>
    simp only [Sys.step] at hs
    have key : ∀ (b' : Conn) (mo : Option Bytes), s.b.receiveMessage ch = .ok (b', mo) →
        ∀ obt' : Nat → List Bytes, obt' ch = s.obtained ch ++ mo.toList → (∀ c, c ≠ ch → obt' c = s.obtained c) →
        Inv2 cfg { s with b := b', obtained := obt' } pkA := by
      intro b' mo hm obt' ho1 ho2
      rcases receiveMessage_cases hm with ⟨hd, rfl, rfl⟩ | ⟨hd, r, r', hf, hrecv, rfl⟩ | ⟨hd, hf, hrr, hst⟩
      · have hobt : obt' = s.obtained := by
          funext c
          by_cases e : c = ch
          · subst e; rw [ho1]; simp
          · exact ho2 c e
        rw [hobt]
        exact ⟨h2.wfA, h2.recvB, h2.concl⟩
      · obtain ⟨f1, f2⟩ := h2.recvB hd
        have hstep := step_recv_eq (o := s.obtained ch) hrecv
        have hnew : ChanBS (s.submitted ch) ⟨r', obt' ch, false⟩ := by
          rw [ho1, ← hstep]
          exact chanBS_step _ _ _ (f2 ch r hf) trivial
        have hord : r'.ordered = r.ordered := by
          have := step_ordered (s.submitted ch) ⟨r, s.obtained ch, false⟩ .recv (f2 ch r hf) trivial
          rw [hstep] at this; exact this
        have hupd := recv_update (K := RelKind cfg) (obt' := obt') ⟨f1, f2⟩ hf hnew hord ho2
        refine ⟨h2.wfA, fun _ => hupd, ?_⟩
        intro c
        dsimp only
        by_cases e : c = ch
        · subst e
          have := concl_of_chanBS hnew
          rw [hord, ← (show (SMap.find? s.b.recvRel c).map (·.ordered) = some r.ordered by rw [hf]; rfl), f1 c] at this
          exact this
        · rw [ho2 c e]; exact h2.concl c
      · have hdd : b'.isDisconnected = s.b.isDisconnected := isDisconnected_congr hst
        obtain ⟨f1, f2⟩ := h2.recvB hd
        have hk : RelKind cfg ch = none := by rw [← f1 ch, hf]; rfl
        refine ⟨h2.wfA, ?_, ?_⟩
        · intro _
          dsimp only
          rw [hrr]
          refine ⟨f1, ?_⟩
          intro c r hr
          have e : c ≠ ch := by intro e; subst e; rw [hf] at hr; cases hr
          rw [ho2 c e]; exact f2 c r hr
        · intro c
          dsimp only
          by_cases e : c = ch
          · subst e; rw [hk]; trivial
          · rw [ho2 c e]; exact h2.concl c
    split at hs
    · rename_i b' m hm
      cases hs
      exact key b' (some m) hm _ (push_same _ _ _) (fun c e => push_other _ _ e)
    · rename_i b' hm
      cases hs
      exact key b' none hm _ (by simp) (fun _ _ => rfl)
    · cases hs
  | updA dt =>
    simp only [Sys.step] at hs
    split at hs
    · cases hs; exact ⟨h2.wfA, h2.recvB, h2.concl⟩
    · cases hs
  | updB dt =>
    simp only [Sys.step] at hs
    split at hs
    · rename_i b' hm
      cases hs
      obtain ⟨e1, e2⟩ := update_recv hm
      refine ⟨h2.wfA, ?_, h2.concl⟩
      intro hd
      dsimp only at hd ⊢
      rw [isDisconnected_congr e2] at hd
      rw [e1]; exact h2.recvB hd
    · cases hs
  | flushA =>
    simp only [Sys.step] at hs
    split at hs
    · rename_i a' bs hm
      cases hs
      refine ⟨?_, h2.recvB, h2.concl⟩
      obtain ⟨-, g2⟩ := flush_pres (P2 s.submitted) (fun p => isRel p = true → p.WF) (Varint.MAX + 1)
        (fun ch sA seq avail hp hseq => p2_getPackets s.submitted s.a.now ch sA seq avail hp hseq)
        (fun sU seq avail p hp hr => by rw [unrel_not_rel sU seq avail p hp] at hr; cases hr)
        (fun _ hr => by cases hr) hm hc.seq
        (fun ch sA hf => by
          obtain ⟨hg, c, hcm, hce⟩ := h1.chanA ch sA hf
          obtain ⟨hi, hch⟩ := h1.invA.1.chans ch sA hf
          subst hce
          exact ⟨⟨hg, hi, hch⟩, ⟨hc.chan c hcm, hc.ids c hcm, hc.lens c hcm⟩⟩)
      intro p hp
      simp only [nextPk, List.mem_append] at hp
      rcases hp with hp | hp
      · exact h2.wfA p hp
      · exact g2 p hp
    · cases hs
  | flushB =>
    simp only [Sys.step] at hs
    split at hs
    · rename_i b' bs hm
      cases hs
      obtain ⟨-, -, -, -, f5, -, f7⟩ := flush_facts h1.invB.1 hm
      refine ⟨h2.wfA, ?_, h2.concl⟩
      intro hd
      dsimp only at hd ⊢
      rw [f5]; exact h2.recvB (f7 hd)
    · cases hs
  | deliverToB k =>
    simp only [Sys.step] at hs
    split at hs
    · cases hs
    · rename_i bytes hb
      split at hs
      · rename_i b' hm
        cases hs
        refine ⟨h2.wfA, ?_, h2.concl⟩
        intro hd'
        dsimp only at hd' ⊢
        rcases processPacket_recv h1.invB.1 hm with hdis | ⟨hd, p', hdec, hmatch⟩
        · rw [hdis] at hd'; cases hd'
        · obtain ⟨f1, f2⟩ := h2.recvB hd
          obtain ⟨hgen, -⟩ := decoded_genuine h1 h2 hb hdec
          cases p' with
          | smallReliable sq ch msgs =>
            obtain ⟨r, r', hf, hloop, hrr⟩ := hmatch
            rw [hrr]
            have hops := (DataPath.relMsgLoop_as_ops msgs r (s.obtained ch)).1 r' hloop
            have hg : ∀ op ∈ msgs.map (fun p => DataPath.RecvOp.msg p.1 p.2), DataPath.Genuine (s.submitted ch) op := by
              intro op hop
              obtain ⟨x, hx, rfl⟩ := List.mem_map.mp hop
              exact hgen x hx
            have hnew : ChanBS (s.submitted ch) ⟨r', s.obtained ch, false⟩ := by
              rw [← hops]; exact chanBS_foldl _ _ _ (f2 ch r hf) hg
            have hord : r'.ordered = r.ordered := by
              have := foldl_ordered (s.submitted ch) _ _ (f2 ch r hf) hg
              rw [hops] at this; exact this
            exact recv_update (K := RelKind cfg) (obt' := s.obtained) ⟨f1, f2⟩ hf hnew hord (fun _ _ => rfl)
          | reliableSlice sq ch sl =>
            obtain ⟨r, r', hf, hps, hrr⟩ := hmatch
            rw [hrr]
            have hstep := step_slice_eq (o := s.obtained ch) hps
            have hnew : ChanBS (s.submitted ch) ⟨r', s.obtained ch, false⟩ := by
              rw [← hstep]; exact chanBS_step _ _ _ (f2 ch r hf) hgen
            have hord : r'.ordered = r.ordered := by
              have := step_ordered (s.submitted ch) ⟨r, s.obtained ch, false⟩ (.slice sl) (f2 ch r hf) hgen
              rw [hstep] at this; exact this
            exact recv_update (K := RelKind cfg) (obt' := s.obtained) ⟨f1, f2⟩ hf hnew hord (fun _ _ => rfl)
          | smallUnreliable sq ch msgs => dsimp only at hmatch; rw [hmatch]; exact ⟨f1, f2⟩
          | unreliableSlice sq ch sl => dsimp only at hmatch; rw [hmatch]; exact ⟨f1, f2⟩
          | ack sq ranges => dsimp only at hmatch; rw [hmatch]; exact ⟨f1, f2⟩
      · cases hs
  | deliverToA k =>
    simp only [Sys.step] at hs
    split at hs
    · cases hs
    · split at hs
      · cases hs; exact ⟨h2.wfA, h2.recvB, h2.concl⟩
      · cases hs

/-! ## reading the channel kind off the configuration -/

/-- channel id `ch` is configured (A → B) as ReliableOrdered: some entry says so, and no entry with that id says
    ReliableUnordered (with unique ids, as the Rust constructor asserts, the second part is vacuous) -/
def Cfg.Ordered (cfg : Cfg) (ch : Nat) : Prop :=
  (∃ c ∈ cfg.send, c.id = ch ∧ c.kind = .ordered) ∧ ∀ c ∈ cfg.send, c.id = ch → c.kind ≠ .unordered

def Cfg.Unordered (cfg : Cfg) (ch : Nat) : Prop :=
  (∃ c ∈ cfg.send, c.id = ch ∧ c.kind = .unordered) ∧ ∀ c ∈ cfg.send, c.id = ch → c.kind ≠ .ordered

theorem relKind_of_cfg (cfg : Cfg) (ch : Nat) (b : Bool)
    (hex : ∃ c ∈ cfg.send, c.id = ch ∧ c.kind ≠ .unreliable)
    (hall : ∀ c ∈ cfg.send, c.id = ch → c.kind ≠ .unreliable → (c.kind == .ordered) = b) : RelKind cfg ch = some b := by
  unfold RelKind
  simp only [Sys.init, Conn.fromChannels]
  obtain ⟨c0, hc0, hid0, hk0⟩ := hex
  have hsome := SI.foldl_insert_isSome (fun c : ChanCfg => c.id) (fun c => RecvRel.new c.maxMem (c.kind == .ordered))
    (cfg.send.filter (·.kind != .unreliable)) [] ch
    (Or.inr ⟨c0, List.mem_filter.mpr ⟨hc0, by simpa using hk0⟩, hid0⟩)
  cases hf : SMap.find? ((cfg.send.filter (·.kind != .unreliable)).foldl
      (fun m c => SMap.insert m c.id (RecvRel.new c.maxMem (c.kind == .ordered))) []) ch with
  | none => rw [hf] at hsome; cases hsome
  | some r =>
    rcases SI.foldl_insert_find (fun c : ChanCfg => c.id) (fun c => RecvRel.new c.maxMem (c.kind == .ordered)) _ _ ch r hf with h | ⟨c, hc, h1, h2⟩
    · cases h
    · obtain ⟨hcm, hck⟩ := List.mem_filter.mp hc
      subst h2
      simp only [Option.map_some, RecvRel.new, Option.some.injEq]
      exact hall c hcm h1 (by simpa using hck)

theorem relKind_ordered {cfg : Cfg} {ch : Nat} (h : cfg.Ordered ch) : RelKind cfg ch = some true := by
  obtain ⟨⟨c, hc, hid, hk⟩, hall⟩ := h
  refine relKind_of_cfg cfg ch true ⟨c, hc, hid, by rw [hk]; decide⟩ ?_
  intro c' hc' hid' hk'
  have := hall c' hc' hid'
  cases hkk : c'.kind with
  | ordered => rfl
  | unordered => exact absurd hkk this
  | unreliable => exact absurd hkk hk'

theorem relKind_unordered {cfg : Cfg} {ch : Nat} (h : cfg.Unordered ch) : RelKind cfg ch = some false := by
  obtain ⟨⟨c, hc, hid, hk⟩, hall⟩ := h
  refine relKind_of_cfg cfg ch false ⟨c, hc, hid, by rw [hk]; decide⟩ ?_
  intro c' hc' hid' hk'
  have := hall c' hc' hid'
  cases hkk : c'.kind with
  | ordered => exact absurd hkk this
  | unordered => rfl
  | unreliable => exact absurd hkk hk'

/-! ## layer 3 (C08): a message leaves `unacked` only after its packets were handed to the peer -/

theorem sentInfo_relMsgs {p : Packet} {ch : Nat} {ids : List Nat} (h : Conn.sentInfoOf p = .ok (.relMsgs ch ids)) :
    ∃ sq msgs, p = .smallReliable sq ch msgs ∧ ids = msgs.map (·.1) := by
  cases p with
  | smallReliable sq c msgs => simp only [Conn.sentInfoOf, Res.ok.injEq, SentInfo.relMsgs.injEq] at h; exact ⟨sq, msgs, by rw [h.1], h.2.symm⟩
  | reliableSlice sq c sl => simp [Conn.sentInfoOf] at h
  | smallUnreliable sq c msgs => simp [Conn.sentInfoOf] at h
  | unreliableSlice sq c sl => simp [Conn.sentInfoOf] at h
  | ack sq ranges =>
    simp only [Conn.sentInfoOf] at h
    split at h
    · cases h
    · rename_i a e _
      cases hc : (Res.csub e 1 "remote_connection.rs last_range.end - 1" : Res Empty Nat) with
      | ok v => rw [hc] at h; simp at h
      | err x => exact x.elim
      | panic m => rw [hc] at h; cases h

theorem sentInfo_relSlice {p : Packet} {ch id idx : Nat} (h : Conn.sentInfoOf p = .ok (.relSlice ch id idx)) :
    ∃ sq sl, p = .reliableSlice sq ch sl ∧ sl.messageId = id ∧ sl.sliceIndex = idx := by
  cases p with
  | smallReliable sq c msgs => simp [Conn.sentInfoOf] at h
  | reliableSlice sq c sl =>
    simp only [Conn.sentInfoOf, Res.ok.injEq, SentInfo.relSlice.injEq] at h
    exact ⟨sq, sl, by rw [h.1], h.2.1, h.2.2⟩
  | smallUnreliable sq c msgs => simp [Conn.sentInfoOf] at h
  | unreliableSlice sq c sl => simp [Conn.sentInfoOf] at h
  | ack sq ranges =>
    simp only [Conn.sentInfoOf] at h
    split at h
    · cases h
    · rename_i a e _
      cases hc : (Res.csub e 1 "remote_connection.rs last_range.end - 1" : Res Empty Nat) with
      | ok v => rw [hc] at h; simp at h
      | err x => exact x.elim
      | panic m => rw [hc] at h; cases h

/-- sequence numbers identify A's packets -/
theorem seq_inj : ∀ {pk : List Packet}, (pk.map Packet.sequence).Pairwise (· < ·) → ∀ {p q : Packet}, p ∈ pk → q ∈ pk →
    p.sequence = q.sequence → p = q
  | [], _, _, _, hp, _, _ => by cases hp
  | x :: rest, hpw, p, q, hp, hq, he => by
    simp only [List.map_cons, List.pairwise_cons] at hpw
    simp only [List.mem_cons] at hp hq
    rcases hp with rfl | hp <;> rcases hq with rfl | hq
    · rfl
    · have := hpw.1 _ (List.mem_map.mpr ⟨q, hq, rfl⟩); omega
    · have := hpw.1 _ (List.mem_map.mpr ⟨p, hp, rfl⟩); omega
    · exact seq_inj hpw.2 hp hq he

/-- `process_packet` on the send side: nothing changed, or a live connection processed an ack packet -/
theorem processPacket_eff' {c c' : Conn} {bytes : Bytes} (h : c.SendInv) (hr : c.processPacket bytes = .ok c') :
    (c'.sendRel = c.sendRel) ∨
    ∃ aseq ranges L, c.isDisconnected = false ∧ Packet.fromBytes bytes = .ok (.ack aseq ranges) ∧
      (∀ x ∈ L, Acks.Mem x ranges) ∧
      (∀ ch s, SMap.find? c.sendRel ch = some s → ∃ s', SMap.find? c'.sendRel ch = some s' ∧ SI.ChanEff c.sent L ch s s') ∧
      (∀ ch, SMap.find? c.sendRel ch = none → SMap.find? c'.sendRel ch = none) := by
  rcases SI.Conn.processPacket_cases hr with ⟨hs, -, -⟩ | ⟨p, -, -, hs, -⟩ | ⟨aseq, ranges, L, hd, hp, -, -⟩
  · exact Or.inl hs.1
  · exact Or.inl hs.1
  · obtain ⟨L', c2, -, e, -, eff, hmem, -⟩ := SI.Conn.processPacket_ack_spec h hd hp
    rw [e] at hr; cases hr
    exact Or.inr ⟨aseq, ranges, L', hd, hp, fun x hx => (hmem x hx).2, fun ch s hs => eff.chan ch s hs, fun ch hn => eff.nochan ch hn⟩

theorem processPacket_sent {c c' : Conn} {bytes : Bytes} (h : c.SendInv) (hr : c.processPacket bytes = .ok c') :
    (∀ k v, SMap.find? c'.sent k = some v → SMap.find? c.sent k = some v) ∧
    (c'.isDisconnected = false → c.isDisconnected = false) := by
  refine ⟨C08.sent_table_only_shrinks_on_process c c' bytes h hr, ?_⟩
  intro hd'
  cases hd : c.isDisconnected with
  | false => rfl
  | true =>
    unfold Conn.processPacket at hr
    rw [if_pos hd] at hr; cases hr
    rw [hd] at hd'; cases hd'

/-- an ack packet that encodes decodes to itself -/
theorem ack_enc_decodes {seq : Nat} {l : List AckRange} {b : Bytes} (hw : Acks.WF l)
    (he : (Packet.ack seq l).enc = .ok b) : Packet.fromBytes b = .ok (.ack seq l) := by
  obtain ⟨hs, x, hx, hx2⟩ := SI.enc_ack_bounds he
  have hne : l ≠ [] := by intro e; rw [e] at hx; cases hx
  have hb : ∀ r ∈ l, r.2 ≤ Varint.MAX + 1 := by
    intro r hr
    have := SI.Acks.wf_le_last hw x hx r hr
    omega
  obtain ⟨b', hb', hd⟩ := Packet.fromBytes_enc (.ack seq l) ⟨hs, Acks.ackWF_of_wf l hne hw hb⟩
  rw [he] at hb'; cases hb'
  exact hd

theorem enc_mem {pk : List Packet} {bs : List Bytes} (h : pk.map encO = bs.map some) {b : Bytes} (hb : b ∈ bs) :
    ∃ p ∈ pk, p.enc = .ok b := by
  obtain ⟨k, hk, rfl⟩ := List.mem_iff_getElem.mp hb
  obtain ⟨p, hp, he⟩ := enc_lookup h (List.getElem?_eq_getElem hk)
  exact ⟨p, List.mem_of_getElem? hp, he⟩

theorem sendMessage_sent {c c' : Conn} {ch : Nat} {m : Bytes} (h : c.sendMessage ch m = .ok c') :
    c'.sent = c.sent ∧ (c'.isDisconnected = false → c.isDisconnected = false) := by
  unfold Conn.sendMessage at h
  split at h
  · cases h; exact ⟨rfl, fun h => h⟩
  · rename_i hd
    have hd' : c.isDisconnected = false := by simpa using hd
    split at h
    · split at h
      · cases h; exact ⟨rfl, fun _ => hd'⟩
      · cases h; exact ⟨(c.disconnectWith_same _).1.2.2.1, fun _ => hd'⟩
    · split at h
      · cases h; exact ⟨rfl, fun _ => hd'⟩
      · cases h

/-- the sent-table entries of a live connection after a flush: old ones, or records of this flush's packets -/
theorem flush_sent {c c' : Conn} {bs : List Bytes} (hinv : c.SendInv) (h : c.getPacketsToSend = .ok (c', bs))
    (hd' : c'.isDisconnected = false) :
    ∀ seq t info, SMap.find? c'.sent seq = some (t, info) →
      SMap.find? c.sent seq = some (t, info) ∨ ∃ p ∈ flushPk c, p.sequence = seq ∧ Conn.sentInfoOf p = .ok info := by
  intro seq t info hf
  rcases getPacketsToSend_unfold h with ⟨hd, hc', hbs⟩ | ⟨hd, sr, su, pk0, seq0, avail, sent, hl, hrec, hser⟩
  · rw [hc'] at hf; exact Or.inl hf
  · rcases hser with ⟨hok, rfl⟩ | ⟨e, herr, rfl, rfl⟩
    · have hfp : flushPk c = (if c.pendingAcks.isEmpty then pk0 else pk0 ++ [Packet.ack seq0 c.pendingAcks]) := by
        unfold flushPk; rw [hd]; simp only [Bool.false_eq_true, ↓reduceIte, hl, hok]
      obtain ⟨-, r2⟩ := SI.Conn.recordSent_spec _ _ _ _ hrec hinv.sentSorted
      dsimp only at hf
      rcases r2 _ (SI.find?_some_mem hf) with hold | ⟨p, hp, hp1, hp2⟩
      · exact Or.inl (SI.mem_find?_of_sorted hinv.sentSorted hold)
      · exact Or.inr ⟨p, by rw [hfp]; exact hp, hp1.symm, hp2⟩
    · rw [disconnectWith_isDisconnected] at hd'; cases hd'

/-- a packet with sequence number `x` was handed to B -/
def DelivSeq (D : List Nat) (pkA : List Packet) (x : Nat) : Prop :=
  ∃ k ∈ D, ∃ p, pkA[k]? = some p ∧ p.sequence = x

/-- a small-message packet of channel `ch` carrying message `id` was handed to B -/
def SmallDeliv (D : List Nat) (pkA : List Packet) (ch id : Nat) : Prop :=
  ∃ k ∈ D, ∃ sq msgs, pkA[k]? = some (.smallReliable sq ch msgs) ∧ id ∈ msgs.map (·.1)

/-- the packet carrying slice `i` of message `id` of channel `ch` was handed to B -/
def SliceDeliv (D : List Nat) (pkA : List Packet) (ch id i : Nat) : Prop :=
  ∃ k ∈ D, ∃ sq sl, pkA[k]? = some (.reliableSlice sq ch sl) ∧ sl.messageId = id ∧ sl.sliceIndex = i

/-- every packet needed to rebuild message `m` (id `id` of channel `ch`) was handed to B -/
def Released (D : List Nat) (pkA : List Packet) (ch id : Nat) (m : Bytes) : Prop :=
  (m.length ≤ SLICE_SIZE → SmallDeliv D pkA ch id) ∧
  (SLICE_SIZE < m.length → ∀ i, i < divCeil m.length SLICE_SIZE → SliceDeliv D pkA ch id i)

theorem getElem?_prefix {α : Type} {l l' : List α} (h : l <+: l') {k : Nat} {x : α} (hx : l[k]? = some x) : l'[k]? = some x :=
  prefix_getElem? h hx

theorem DelivSeq.mono {D D' : List Nat} {pk pk' : List Packet} (hD : ∀ k ∈ D, k ∈ D') (hp : pk <+: pk') {x : Nat}
    (h : DelivSeq D pk x) : DelivSeq D' pk' x := by
  obtain ⟨k, hk, p, h1, h2⟩ := h
  exact ⟨k, hD k hk, p, getElem?_prefix hp h1, h2⟩

theorem SmallDeliv.mono {D D' : List Nat} {pk pk' : List Packet} (hD : ∀ k ∈ D, k ∈ D') (hp : pk <+: pk') {ch id : Nat}
    (h : SmallDeliv D pk ch id) : SmallDeliv D' pk' ch id := by
  obtain ⟨k, hk, sq, msgs, h1, h2⟩ := h
  exact ⟨k, hD k hk, sq, msgs, getElem?_prefix hp h1, h2⟩

theorem SliceDeliv.mono {D D' : List Nat} {pk pk' : List Packet} (hD : ∀ k ∈ D, k ∈ D') (hp : pk <+: pk') {ch id i : Nat}
    (h : SliceDeliv D pk ch id i) : SliceDeliv D' pk' ch id i := by
  obtain ⟨k, hk, sq, sl, h1, h2⟩ := h
  exact ⟨k, hD k hk, sq, sl, getElem?_prefix hp h1, h2⟩

theorem Released.mono {D D' : List Nat} {pk pk' : List Packet} (hD : ∀ k ∈ D, k ∈ D') (hp : pk <+: pk') {ch id : Nat}
    {m : Bytes} (h : Released D pk ch id m) : Released D' pk' ch id m :=
  ⟨fun hl => (h.1 hl).mono hD hp, fun hl i hi => (h.2 hl i hi).mono hD hp⟩

/-- release evidence for one reliable send channel: every logged message that is no longer stored was released with
    cause; every slice of a stored sliced message is still pending or its packet was handed to B -/
structure RelEv (D : List Nat) (pkA : List Packet) (L : List Bytes) (ch : Nat) (sA : SendRel) : Prop where
  gone : ∀ id m, L[id]? = some m → SMap.find? sA.unacked id = none → Released D pkA ch id m
  marked : ∀ id m n k nx a ls, SMap.find? sA.unacked id = some (.sliced m n k nx a ls) → ∀ i, i < n →
    sA.Pending id i ∨ SliceDeliv D pkA ch id i

theorem RelEv.mono {D D' : List Nat} {pk pk' : List Packet} (hD : ∀ k ∈ D, k ∈ D') (hp : pk <+: pk') {L : List Bytes}
    {ch : Nat} {sA : SendRel} (h : RelEv D pk L ch sA) : RelEv D' pk' L ch sA :=
  ⟨fun id m h1 h2 => (h.gone id m h1 h2).mono hD hp,
   fun id m n k nx a ls hf i hi => (h.marked id m n k nx a ls hf i hi).imp (fun x => x) (fun x => x.mono hD hp)⟩

theorem relEv_new (D : List Nat) (pk : List Packet) (ch c resend maxMem : Nat) : RelEv D pk [] ch (SendRel.new c resend maxMem) :=
  ⟨fun id m h _ => by simp at h, fun id m n k nx a ls hf => by simp [SendRel.new] at hf⟩

theorem relEv_send {D : List Nat} {pk : List Packet} {L : List Bytes} {ch : Nat} {s s' : SendRel} {m : Bytes}
    (h : RelEv D pk L ch s) (hg : ChanG L s) (hi : s.Inv) (hs : s.sendMessage m = .ok s') : RelEv D pk (L ++ [m]) ch s' := by
  have hnone := hi.find_nextId
  unfold SendRel.sendMessage at hs
  split at hs
  · cases hs
  · simp only [Except.ok.injEq] at hs
    subst hs
    constructor
    · intro id m' hL hf
      dsimp only at hf
      rw [SMap.find?_insert] at hf
      split at hf
      · cases hf
      · rename_i hne
        have hlt : id < (L ++ [m]).length := (List.getElem?_eq_some_iff.mp hL).1
        have hlt' : id < L.length := by
          simp only [List.length_append, List.length_cons, List.length_nil] at hlt
          have := hg.nid; omega
        rw [List.getElem?_append_left hlt'] at hL
        exact h.gone id m' hL hf
    · intro id m' n k nx a ls hf i hi'
      dsimp only at hf
      rw [SMap.find?_insert] at hf
      split at hf
      · rename_i he
        left
        split at hf
        · simp only [Unacked.newSliced, Option.some.injEq, Unacked.sliced.injEq] at hf
          obtain ⟨rfl, rfl, rfl, rfl, rfl, rfl⟩ := hf
          refine ⟨m, divCeil m.length SLICE_SIZE, 0, 0, List.replicate (divCeil m.length SLICE_SIZE) false,
            List.replicate (divCeil m.length SLICE_SIZE) none, ?_, ?_⟩
          · dsimp only; rw [SMap.find?_insert, if_pos he]; simp [Unacked.newSliced, *]
          · simp [hi']
        · cases hf
      · rename_i hne
        rcases h.marked id m' n k nx a ls hf i hi' with ⟨m2, n2, k2, nx2, a2, ls2, hf2, ha2⟩ | hd
        · left
          exact ⟨m2, n2, k2, nx2, a2, ls2, by dsimp only; rw [SMap.find?_insert, if_neg hne]; exact hf2, ha2⟩
        · exact Or.inr hd

theorem relEv_getPackets {D : List Nat} {pk : List Packet} {L : List Bytes} {ch : Nat} {s : SendRel}
    (h : RelEv D pk L ch s) (hi : s.Inv) (seq avail now : Nat) : RelEv D pk L ch (s.getPackets seq avail now).1 := by
  have hsim : SI.MapSim s.unacked (s.getPackets seq avail now).1.unacked :=
    (SI.SendRel.getPackets_spec hi seq avail now _ _ _ _ rfl).2.2.2.2.1
  constructor
  · intro id m hL hf
    rcases hsim.find id with ⟨h1, -⟩ | ⟨u, u', -, h2, -⟩
    · exact h.gone id m hL h1
    · rw [hf] at h2; cases h2
  · intro id m n k nx a ls hf i hi'
    rcases hsim.find id with ⟨-, h2⟩ | ⟨u, u', h1, h2, h3⟩
    · rw [hf] at h2; cases h2
    · rw [hf] at h2; cases h2
      cases u with
      | small => exact h3.elim
      | sliced m0 n0 k0 nx0 a0 ls0 =>
        obtain ⟨rfl, rfl, rfl, rfl, -⟩ := h3
        exact (h.marked id _ _ _ _ _ _ h1 i hi').imp (fun hp => SI.MapSim.pending hsim hp) (fun x => x)

structure InvR (cfg : Cfg) (s : Sys) (pkA : List Packet) : Prop where
  /-- every entry of A's sent table (while A is live) records a packet A really emitted, under its number -/
  sentA : s.a.isDisconnected = false → ∀ seq t info, SMap.find? s.a.sent seq = some (t, info) →
    ∃ p ∈ pkA, p.sequence = seq ∧ Conn.sentInfoOf p = .ok info
  /-- B's pending acks name only packets that were handed to B -/
  ackB : ∀ x, Acks.Mem x s.b.pendingAcks → DelivSeq s.deliveredToB pkA x
  /-- every ack packet B ever emitted acknowledges only packets that were handed to B -/
  ackOutB : ∀ b ∈ s.outB, ∀ aseq ranges, Packet.fromBytes b = .ok (.ack aseq ranges) →
    ∀ x, Acks.Mem x ranges → DelivSeq s.deliveredToB pkA x
  relA : ∀ ch sA, SMap.find? s.a.sendRel ch = some sA → RelEv s.deliveredToB pkA (s.submitted ch) ch sA

theorem invR_init (cfg : Cfg) : InvR cfg (Sys.init cfg) [] := by
  refine ⟨?_, ?_, fun _ h => (by cases h), ?_⟩
  · intro _ seq t info hf
    simp [Sys.init, Conn.fromChannels] at hf
  · intro x hx
    simp [Sys.init, Conn.fromChannels] at hx
  · intro ch sA hf
    simp only [Sys.init, Conn.fromChannels] at hf
    rcases SI.foldl_insert_find (fun c : ChanCfg => c.id) (fun c => SendRel.new c.id c.resend c.maxMem) _ _ ch sA hf with h | ⟨c, -, -, h2⟩
    · cases h
    · subst h2; exact relEv_new _ _ _ _ _ _

/-- the ack chain: a sequence number covered by an ack packet B emitted, and recorded in A's sent table, is the
    number of a packet of A that was handed to B — and the table entry describes that very packet -/
theorem ack_chain {cfg : Cfg} {s : Sys} {pkA : List Packet} (h1 : Inv1 cfg s pkA) (hR : InvR cfg s pkA)
    {bytes : Bytes} (hb : bytes ∈ s.outB) {aseq : Nat} {ranges : List AckRange}
    (hp : Packet.fromBytes bytes = .ok (.ack aseq ranges)) (hd : s.a.isDisconnected = false)
    {seq t : Nat} {info : SentInfo} (hm : Acks.Mem seq ranges) (hf : SMap.find? s.a.sent seq = some (t, info)) :
    ∃ k ∈ s.deliveredToB, ∃ p, pkA[k]? = some p ∧ p.sequence = seq ∧ Conn.sentInfoOf p = .ok info := by
  obtain ⟨k, hk, p1, hp1, hs1⟩ := hR.ackOutB bytes hb aseq ranges hp seq hm
  obtain ⟨p2, hp2, hs2, hi2⟩ := hR.sentA hd seq t info hf
  have : p1 = p2 := seq_inj h1.seqA.1 (List.mem_of_getElem? hp1) hp2 (hs1.trans hs2.symm)
  subst this
  exact ⟨k, hk, p1, hp1, hs1, hi2⟩

theorem relEv_ack {cfg : Cfg} {s : Sys} {pkA : List Packet} (h1 : Inv1 cfg s pkA) (hR : InvR cfg s pkA)
    {bytes : Bytes} (hb : bytes ∈ s.outB) {a' : Conn} (hm : s.a.processPacket bytes = .ok a')
    (hG' : ∀ ch sA, SMap.find? a'.sendRel ch = some sA → ChanG (s.submitted ch) sA) (hI' : a'.SendInv) :
    ∀ ch sA', SMap.find? a'.sendRel ch = some sA' → RelEv s.deliveredToB pkA (s.submitted ch) ch sA' := by
  intro ch sA' hf'
  have hI := h1.invA.1
  rcases processPacket_eff' hI hm with hsame | ⟨aseq, ranges, L, hd, hp, hL, hch, hno⟩
  · rw [hsame] at hf'; exact hR.relA ch sA' hf'
  · have chain : ∀ seq ∈ L, ∀ t info, SMap.find? s.a.sent seq = some (t, info) →
        ∃ k ∈ s.deliveredToB, ∃ p, pkA[k]? = some p ∧ p.sequence = seq ∧ Conn.sentInfoOf p = .ok info :=
      fun seq hs t info hf => ack_chain h1 hR hb hp hd (hL seq hs) hf
    have chainSlice : ∀ seq ∈ L, ∀ t id i, SMap.find? s.a.sent seq = some (t, .relSlice ch id i) →
        SliceDeliv s.deliveredToB pkA ch id i := by
      intro seq hs t id i hf
      obtain ⟨k, hk, p, hpk, -, hinfo⟩ := chain seq hs t _ hf
      obtain ⟨sq, sl, rfl, e1, e2⟩ := sentInfo_relSlice hinfo
      exact ⟨k, hk, sq, sl, hpk, e1, e2⟩
    cases hpre : SMap.find? s.a.sendRel ch with
    | none => rw [hno ch hpre] at hf'; cases hf'
    | some sA =>
      obtain ⟨s2, hs2, eff⟩ := hch ch sA hpre
      rw [hf'] at hs2; cases hs2
      have hold := hR.relA ch sA hpre
      have hG := (h1.chanA ch sA hpre).1
      have hiA := (hI.chans ch sA hpre).1
      have hiA' := (hI'.chans ch sA' hf').1
      have hGA' := hG' ch sA' hf'
      constructor
      · intro id m hLm hnone
        cases hfu : SMap.find? sA.unacked id with
        | none => exact hold.gone id m hLm hfu
        | some u =>
          have hum : u.msg = m := by
            have := hG.gen _ (SI.find?_some_mem hfu)
            rw [hLm] at this; exact (Option.some.inj this).symm
          have hok := hiA.find_ok hfu
          obtain ⟨seq, hs, t, info, hfs, hn⟩ := eff.just id (by rw [hfu]; simp) hnone
          cases u with
          | small m0 ls =>
            simp only [Unacked.msg] at hum; subst hum
            have hlen : m0.length ≤ SLICE_SIZE := hok
            refine ⟨fun _ => ?_, fun hl => by omega⟩
            rcases hn with ⟨ids, rfl, hid⟩ | ⟨idx, rfl⟩
            · obtain ⟨k, hk, p, hpk, -, hinfo⟩ := chain seq hs t _ hfs
              obtain ⟨sq, msgs, rfl, rfl⟩ := sentInfo_relMsgs hinfo
              exact ⟨k, hk, sq, msgs, hpk, hid⟩
            · obtain ⟨s0, hs0, hi0⟩ := (hI.sentOK _ (SI.find?_some_mem hfs)).2 ch rfl
              rw [hpre] at hs0; cases hs0
              exact (hi0.2 _ hfu).elim
          | sliced m0 n k nx a ls =>
            simp only [Unacked.msg] at hum; subst hum
            obtain ⟨o1, o2, -⟩ := hok
            refine ⟨fun hl => by omega, fun _ i hi' => ?_⟩
            rw [← o2] at hi'
            rcases hold.marked id _ _ _ _ _ _ hfu i hi' with hpend | hdel
            · rcases eff.pend id i hpend with ⟨m2, n2, k2, nx2, a2, ls2, hf2, -⟩ | ⟨seq2, hs2, t2, hf2⟩
              · rw [hnone] at hf2; cases hf2
              · exact chainSlice seq2 hs2 t2 id i hf2
            · exact hdel
      · intro id m n k nx a ls hfs' i hi'
        cases hfu : SMap.find? sA.unacked id with
        | none => rw [eff.gone id hfu] at hfs'; cases hfs'
        | some u =>
          have hLm := hGA'.gen _ (SI.find?_some_mem hfs')
          have hum := hG.gen _ (SI.find?_some_mem hfu)
          simp only [Unacked.msg] at hLm
          rw [hLm] at hum
          have hum' : u.msg = m := (Option.some.inj hum).symm
          obtain ⟨p1, p2, -⟩ := hiA'.find_ok hfs'
          have hok := hiA.find_ok hfu
          cases u with
          | small m0 ls0 =>
            simp only [Unacked.msg] at hum'; subst hum'
            have : m0.length ≤ SLICE_SIZE := hok
            omega
          | sliced m0 n0 k0 nx0 a0 ls0 =>
            simp only [Unacked.msg] at hum'; subst hum'
            obtain ⟨-, o2, -⟩ := hok
            have hn : n0 = n := o2.trans p2.symm
            subst hn
            rcases hold.marked id _ _ _ _ _ _ hfu i hi' with hpend | hdel
            · rcases eff.pend id i hpend with hp' | ⟨seq2, hs2, t2, hf2⟩
              · exact Or.inl hp'
              · exact Or.inr (chainSlice seq2 hs2 t2 id i hf2)
            · exact Or.inr hdel

theorem rel_not_ack (s : SendRel) (seq avail now : Nat) : ∀ p ∈ (s.getPackets seq avail now).2.1, SI.isAckPkt p = false := by
  intro p hp
  have := SendRel.getPackets_genuine (s := s) (seq := seq) (avail := avail) (now := now) rfl p hp
  cases p with
  | ack _ _ => exact this.elim
  | smallReliable _ _ _ => rfl
  | reliableSlice _ _ _ => rfl
  | smallUnreliable _ _ _ => rfl
  | unreliableSlice _ _ _ => rfl

theorem unrel_not_ack (s : SendUnrel) (seq avail : Nat) : ∀ p ∈ (s.getPackets seq avail).2.1, SI.isAckPkt p = false := by
  intro p hp
  have := (SendUnrel.getPackets_emitted (s := s) (seq := seq) (avail := avail) rfl).2 p hp
  cases p with
  | ack _ _ => exact this.elim
  | smallReliable _ _ _ => rfl
  | reliableSlice _ _ _ => rfl
  | smallUnreliable _ _ _ => rfl
  | unreliableSlice _ _ _ => rfl

/-- the only ack packet of a flush carries exactly the pending list -/
theorem flush_acks {c c' : Conn} {bs : List Bytes} (h : c.getPacketsToSend = .ok (c', bs)) :
    ∀ p ∈ flushPk c, SI.isAckPkt p = true → ∃ sq, p = Packet.ack sq c.pendingAcks :=
  (flush_pres (fun _ _ => True) (fun p => SI.isAckPkt p = true → ∃ sq, p = Packet.ack sq c.pendingAcks) c'.packetSeq
    (fun _ sA seq avail _ _ => ⟨trivial, fun p hp ha => by rw [rel_not_ack sA seq avail c.now p hp] at ha; cases ha⟩)
    (fun sU seq avail p hp ha => by rw [unrel_not_ack sU seq avail p hp] at ha; cases ha)
    (fun sq _ => ⟨sq, rfl⟩) h (Nat.le_refl _) (fun _ _ _ => trivial)).2

theorem find?_of_sublist {α : Type} {m m' : SMap α} (hs : SI.Sorted m) (hsub : m'.Sublist m) {k : Nat} {v : α}
    (h : SMap.find? m' k = some v) : SMap.find? m k = some v :=
  SI.mem_find?_of_sorted hs (hsub.subset (SI.find?_some_mem h))

theorem invR_step {cfg : Cfg} {s s' : Sys} {pkA : List Packet} {op : SysOp} (h1 : Inv1 cfg s pkA) (hR : InvR cfg s pkA)
    (hs : s.step op = some s') : InvR cfg s' (nextPk s op pkA) := by
  have h1' := inv1_step h1 hs
  cases op with
  | sendA ch m =>
    simp only [Sys.step] at hs
    split at hs
    · rename_i a' hm
      cases hs
      obtain ⟨e1, e2⟩ := sendMessage_sent hm
      refine ⟨fun hd => by dsimp only at hd ⊢; rw [e1]; exact hR.sentA (e2 hd), hR.ackB, hR.ackOutB, ?_⟩
      rcases sendMessage_cases hm with ⟨hacc, s0, s1, hf, hsend, rfl⟩ | ⟨hacc, hsr⟩
      · intro ch2 sA hf2
        dsimp only at hf2 ⊢
        rw [hacc]
        simp only [↓reduceIte]
        rw [SMap.find?_insert] at hf2
        split at hf2
        · rename_i e
          subst e
          cases hf2
          rw [push_same]
          exact relEv_send (hR.relA ch s0 hf) (h1.chanA ch s0 hf).1 (h1.invA.1.chans ch s0 hf).1 hsend
        · rename_i e
          rw [push_other _ _ (fun e' => e e'.symm)]
          exact hR.relA ch2 sA hf2
      · dsimp only
        rw [hacc, hsr]
        exact hR.relA
    · cases hs
  | recvB ch =>
    simp only [Sys.step] at hs
    split at hs
    · rename_i b' m hm
      cases hs
      exact ⟨hR.sentA, by dsimp only; rw [(SI.Conn.receiveMessage_same hm).2]; exact hR.ackB, hR.ackOutB, hR.relA⟩
    · rename_i b' hm
      cases hs
      exact ⟨hR.sentA, by dsimp only; rw [(SI.Conn.receiveMessage_same hm).2]; exact hR.ackB, hR.ackOutB, hR.relA⟩
    · cases hs
  | updA dt =>
    simp only [Sys.step] at hs
    split at hs
    · rename_i a' hm
      cases hs
      obtain ⟨e1, -, -, -, -, e6⟩ := SI.Conn.update_spec hm
      obtain ⟨-, e7⟩ := update_recv hm
      refine ⟨?_, hR.ackB, hR.ackOutB, by dsimp only; rw [e1]; exact hR.relA⟩
      intro hd seq t info hf
      dsimp only at hd hf
      rw [isDisconnected_congr e7] at hd
      rw [e6] at hf
      exact hR.sentA hd seq t info (find?_of_sublist h1.invA.1.sentSorted (List.dropWhile_sublist _) hf)
    · cases hs
  | updB dt =>
    simp only [Sys.step] at hs
    split at hs
    · rename_i b' hm
      cases hs
      exact ⟨hR.sentA, by dsimp only; rw [(SI.Conn.update_spec hm).2.2.2.2.1]; exact hR.ackB, hR.ackOutB, hR.relA⟩
    · cases hs
  | flushA =>
    simp only [Sys.step] at hs
    split at hs
    · rename_i a' bs hm
      cases hs
      have hpre : pkA <+: pkA ++ flushPk s.a := List.prefix_append _ _
      have hD : ∀ k ∈ s.deliveredToB, k ∈ s.deliveredToB := fun _ h => h
      refine ⟨?_, fun x hx => (hR.ackB x hx).mono hD hpre,
        fun b hb aseq ranges hp x hx => (hR.ackOutB b hb aseq ranges hp x hx).mono hD hpre, ?_⟩
      · intro hd seq t info hf
        dsimp only at hd hf
        simp only [nextPk]
        rcases flush_sent h1.invA.1 hm hd seq t info hf with hold | ⟨p, hp, hp1, hp2⟩
        · obtain ⟨p, hp, hp1, hp2⟩ := hR.sentA ((flush_facts h1.invA.1 hm).2.2.2.2.2.2 hd) seq t info hold
          exact ⟨p, List.mem_append_left _ hp, hp1, hp2⟩
        · exact ⟨p, List.mem_append_right _ hp, hp1, hp2⟩
      · obtain ⟨g1, -⟩ := flush_pres
          (fun ch sA => RelEv s.deliveredToB pkA (s.submitted ch) ch sA ∧ sA.Inv) (fun _ => True) a'.packetSeq
          (fun ch sA seq avail hp _ => ⟨⟨relEv_getPackets hp.1 hp.2 seq avail s.a.now,
              (SI.SendRel.getPackets_spec hp.2 seq avail s.a.now _ _ _ _ rfl).1⟩, fun _ _ => trivial⟩)
          (fun _ _ _ _ _ => trivial) (fun _ => trivial) hm (Nat.le_refl _)
          (fun ch sA hf => ⟨hR.relA ch sA hf, (h1.invA.1.chans ch sA hf).1⟩)
        intro ch sA hf
        exact (g1 ch sA hf).1.mono hD hpre
    · cases hs
  | flushB =>
    simp only [Sys.step] at hs
    split at hs
    · rename_i b' bs hm
      cases hs
      obtain ⟨f1, -, -, -, -, f6, -⟩ := flush_facts h1.invB.1 hm
      refine ⟨hR.sentA, by dsimp only; rw [f6]; exact hR.ackB, ?_, hR.relA⟩
      intro b hb aseq ranges hp x hx
      dsimp only at hb ⊢
      rw [List.mem_append] at hb
      rcases hb with hb | hb
      · exact hR.ackOutB b hb aseq ranges hp x hx
      · obtain ⟨p, hpm, he⟩ := enc_mem f1 hb
        obtain ⟨-, htag⟩ := fromBytes_of_enc he hp
        have hack : SI.isAckPkt p = true := by
          have := isAck_of_tag htag
          simpa [SI.isAckPkt] using this.symm
        obtain ⟨sq, rfl⟩ := flush_acks hm p hpm hack
        have := ack_enc_decodes h1.invB.2 he
        rw [hp] at this
        simp only [Except.ok.injEq, Packet.ack.injEq] at this
        rw [this.2] at hx
        exact hR.ackB x hx
    · cases hs
  | deliverToB k =>
    simp only [Sys.step] at hs
    split at hs
    · cases hs
    · rename_i bytes hb
      split at hs
      · rename_i b' hm
        cases hs
        have hD : ∀ j ∈ s.deliveredToB, j ∈ s.deliveredToB ++ [k] := fun j hj => List.mem_append_left _ hj
        have hpre : pkA <+: pkA := List.prefix_refl _
        refine ⟨hR.sentA, ?_, fun b hb aseq ranges hp x hx => (hR.ackOutB b hb aseq ranges hp x hx).mono hD hpre,
          fun ch sA hf => (hR.relA ch sA hf).mono hD hpre⟩
        intro x hx
        dsimp only at hx ⊢
        rcases (C08.pending_acks_only_received s.b b' bytes h1.invB.1 h1.invB.2 hm).2 x hx with hold | ⟨p', hdec, rfl⟩
        · exact (hR.ackB x hold).mono hD hpre
        · obtain ⟨p, hp, he⟩ := enc_lookup h1.encA hb
          exact ⟨k, by simp, p, hp, (fromBytes_of_enc he hdec).1.symm⟩
      · cases hs
  | deliverToA k =>
    simp only [Sys.step] at hs
    split at hs
    · cases hs
    · rename_i bytes hb
      split at hs
      · rename_i a' hm
        cases hs
        obtain ⟨e1, e2⟩ := processPacket_sent h1.invA.1 hm
        refine ⟨fun hd seq t info hf => hR.sentA (e2 hd) seq t info (e1 _ _ hf), hR.ackB, hR.ackOutB, ?_⟩
        exact relEv_ack h1 hR (List.mem_of_getElem? hb) hm (fun ch sA hf => (h1'.chanA ch sA hf).1) h1'.invA.1
      · cases hs

/-- looking up a packet finds the datagram that encodes it -/
theorem enc_lookup' {pk : List Packet} {bs : List Bytes} (h : pk.map encO = bs.map some) {k : Nat} {p : Packet}
    (hp : pk[k]? = some p) : ∃ b, bs[k]? = some b ∧ p.enc = .ok b := by
  have h1 : (pk.map encO)[k]? = some (encO p) := by rw [List.getElem?_map, hp]; rfl
  rw [h, List.getElem?_map] at h1
  cases hb : bs[k]? with
  | none => rw [hb] at h1; cases h1
  | some b =>
    rw [hb] at h1
    simp only [Option.map_some, Option.some.injEq] at h1
    exact ⟨b, rfl, encO_some h1.symm⟩

/-- a well-formed reliable packet of the ghost list is what its datagram in `outA` decodes to -/
theorem decode_lookup {cfg : Cfg} {s : Sys} {pkA : List Packet} (h1 : Inv1 cfg s pkA) (h2 : Inv2 cfg s pkA)
    {k : Nat} {p : Packet} (hp : pkA[k]? = some p) (hr : isRel p = true) :
    ∃ bytes, s.outA[k]? = some bytes ∧ Packet.fromBytes bytes = .ok p := by
  obtain ⟨b, hb, he⟩ := enc_lookup' h1.encA hp
  obtain ⟨b', h3, h4⟩ := Packet.fromBytes_enc p (h2.wfA p (List.mem_of_getElem? hp) hr)
  rw [he] at h3; cases h3
  exact ⟨b, hb, h4⟩

theorem Sys.run_append (s : Sys) : ∀ (a b : List SysOp), s.run (a ++ b) = (s.run a).bind (fun s' => s'.run b) := by
  intro a
  induction a generalizing s with
  | nil => intro b; rfl
  | cons op ops ih =>
    intro b
    simp only [List.cons_append, Sys.run]
    cases s.step op with
    | none => rfl
    | some s1 => exact ih s1 b

theorem some_getD {α : Type} {o : Option α} (h : o.isSome = true) (d : α) : o = some (o.getD d) := by
  cases o with
  | none => cases h
  | some x => rfl


/-! ## unreliable channels: one flush assigns each sliced-message id to exactly one message -/

/-- what a packet of one unreliable flush carries: `q` = the queue, `sid0` = the slice-id counter before the flush,
    `T` = the messages that were given the ids `sid0, sid0+1, …` during the flush -/
def UPk (ch : Nat) (q : List Bytes) (sid0 : Nat) (T : List Bytes) : Packet → Prop
  | .smallUnreliable _ c msgs => c = ch ∧ ∀ m ∈ msgs, m ∈ q
  | .unreliableSlice _ c sl => c = ch ∧ sid0 ≤ sl.messageId ∧ ∃ m, T[sl.messageId - sid0]? = some m ∧
      sl.numSlices = divCeil m.length SLICE_SIZE ∧ sl.sliceIndex < sl.numSlices ∧
      sl.payload = sliceBytes m sl.numSlices sl.sliceIndex
  | _ => False

theorem UPk.mono {ch : Nat} {q : List Bytes} {sid0 : Nat} {T T' : List Bytes} (h : T <+: T') :
    ∀ {p : Packet}, UPk ch q sid0 T p → UPk ch q sid0 T' p
  | .smallUnreliable .., hp => hp
  | .unreliableSlice _ _ sl, hp => by
    obtain ⟨h1, h2, m, h3, h4⟩ := hp
    exact ⟨h1, h2, m, prefix_getElem? h h3, h4⟩
  | .smallReliable .., hp => hp.elim
  | .reliableSlice .., hp => hp.elim
  | .ack .., hp => hp.elim

structure UG (ch : Nat) (q : List Bytes) (sid0 : Nat) (T : List Bytes) (g : GPU) : Prop where
  sid : g.slicedId = sid0 + T.length
  big : ∀ m ∈ T, m ∈ q ∧ SLICE_SIZE < m.length
  small : ∀ m ∈ g.small, m ∈ q
  pk : ∀ p ∈ g.packets, UPk ch q sid0 T p

theorem unrelLoop_log (ch : Nat) (q : List Bytes) (sid0 : Nat) : ∀ (q' : List Bytes) (g : GPU) (T : List Bytes),
    (∀ m ∈ q', m ∈ q) → UG ch q sid0 T g → ∃ T', T <+: T' ∧ UG ch q sid0 T' (unrelLoop ch q' g)
  | [], g, T, _, h => ⟨T, List.prefix_refl _, h⟩
  | m :: rest, g, T, hq, h => by
    have hm : m ∈ q := hq m (by simp)
    have hrest : ∀ x ∈ rest, x ∈ q := fun x hx => hq x (List.mem_cons_of_mem _ hx)
    rw [unrelLoop_cons]
    split
    · exact unrelLoop_log ch q sid0 rest _ T hrest ⟨h.sid, h.big, h.small, h.pk⟩
    · split
      · rename_i hbig
        have hg : UG ch q sid0 (T ++ [m]) (unrelSliced ch m g) := by
          refine ⟨by simp [unrelSliced, h.sid]; omega, ?_, h.small, ?_⟩
          · intro x hx
            rw [List.mem_append, List.mem_singleton] at hx
            rcases hx with hx | rfl
            · exact h.big x hx
            · exact ⟨hm, hbig⟩
          · intro p hp
            simp only [unrelSliced, List.mem_append] at hp
            rcases hp with hp | hp
            · exact (h.pk p hp).mono (List.prefix_append _ _)
            · obtain ⟨i, hi, sq, rfl⟩ := mem_unrelSlices hp
              refine ⟨rfl, by dsimp only; rw [h.sid]; omega, m, ?_, rfl, by simpa using hi, rfl⟩
              dsimp only
              rw [h.sid, Nat.add_sub_cancel_left]
              simp
        obtain ⟨T', hT, hg'⟩ := unrelLoop_log ch q sid0 rest _ _ hrest hg
        exact ⟨T', List.IsPrefix.trans (List.prefix_append _ _) hT, hg'⟩
      · have hg : UG ch q sid0 T (unrelSmall ch m g) := by
          unfold unrelSmall
          split
          · refine ⟨h.sid, h.big, ?_, ?_⟩
            · intro x hx
              simp only [pushUnrel, flushUnrel, List.nil_append, List.mem_singleton] at hx
              subst hx; exact hm
            · intro p hp
              simp only [pushUnrel, flushUnrel, chargeU, List.mem_append, List.mem_singleton] at hp
              rcases hp with hp | rfl
              · exact h.pk p hp
              · exact ⟨rfl, h.small⟩
          · refine ⟨h.sid, h.big, ?_, h.pk⟩
            intro x hx
            simp only [pushUnrel, chargeU, List.mem_append, List.mem_singleton] at hx
            rcases hx with hx | rfl
            · exact h.small x hx
            · exact hm
        exact unrelLoop_log ch q sid0 rest _ T hrest hg

/-- one unreliable flush: the slice-id counter advances by the number of sliced messages `T`, all taken from the
    queue, and every packet carries queued small messages resp. a slice of the message its id was assigned to -/
theorem unrel_getPackets_log (s : SendUnrel) (seq avail : Nat) :
    ∃ T, (s.getPackets seq avail).1.slicedId = s.slicedId + T.length ∧ (∀ m ∈ T, m ∈ s.queue ∧ SLICE_SIZE < m.length) ∧
      ∀ p ∈ (s.getPackets seq avail).2.1, UPk s.ch s.queue s.slicedId T p := by
  obtain ⟨T, -, hg⟩ := unrelLoop_log s.ch s.queue s.slicedId s.queue ⟨[], [], 0, seq, avail, s.slicedId, s.mem⟩ []
    (fun _ h => h) ⟨by simp, fun _ h => (by cases h), fun _ h => (by cases h), fun _ h => (by cases h)⟩
  rw [SendUnrel.getPackets_eq]
  dsimp only
  generalize unrelLoop s.ch s.queue ⟨[], [], 0, seq, avail, s.slicedId, s.mem⟩ = g at hg
  refine ⟨T, ?_, hg.big, ?_⟩
  · unfold finishUnrel; split <;> exact hg.sid
  · intro p hp
    unfold finishUnrel at hp
    split at hp
    · exact hg.pk p hp
    · simp only [List.mem_append, List.mem_singleton] at hp
      rcases hp with hp | rfl
      · exact hg.pk p hp
      · exact ⟨rfl, hg.small⟩

/-! ### wire: unreliable packets that encode are well formed -/

theorem encSmallUnrel_bounds : ∀ (msgs : List Bytes) (b : Bytes), encSmallUnrel msgs = .ok b → SmallUnrelWF msgs
  | [], _, _ => fun _ h => by cases h
  | m :: rest, b, h => by
    simp only [encSmallUnrel] at h
    obtain ⟨a, h1, h⟩ := res_bind_ok h
    obtain ⟨r, h2, h⟩ := res_bind_ok h
    intro x hx
    simp only [List.mem_cons] at hx
    rcases hx with rfl | hx
    · exact (putVarint_eq_ok h1).1
    · exact encSmallUnrel_bounds rest r h2 x hx

/-- an unreliable small-message packet that encodes, on a byte-sized channel id and with a 16-bit message count, is
    well formed (so the peer decodes exactly it) -/
theorem enc_smallUnrel_wf {seq ch : Nat} {msgs : List Bytes} {b : Bytes}
    (he : (Packet.smallUnreliable seq ch msgs).enc = .ok b) (hch : ch < 256) (hl : msgs.length < 65536) :
    (Packet.smallUnreliable seq ch msgs).WF := by
  simp only [Packet.enc] at he
  obtain ⟨s, h1, he⟩ := res_bind_ok he
  obtain ⟨body, h2, he⟩ := res_bind_ok he
  exact ⟨(putVarint_eq_ok h1).1, hch, hl, encSmallUnrel_bounds msgs body h2⟩

theorem enc_unrelSlice_wf {seq ch : Nat} {sl : Slice} {b : Bytes}
    (he : (Packet.unreliableSlice seq ch sl).enc = .ok b) (hch : ch < 256) (hn1 : 1 ≤ sl.numSlices)
    (hn2 : sl.numSlices ≤ MAX_NUM_SLICES) : (Packet.unreliableSlice seq ch sl).WF := by
  simp only [Packet.enc] at he
  obtain ⟨s, h1, he⟩ := res_bind_ok he
  obtain ⟨body, h2, he⟩ := res_bind_ok he
  simp only [encSlice] at h2
  obtain ⟨a, g1, h2⟩ := res_bind_ok h2
  obtain ⟨b', g2, h2⟩ := res_bind_ok h2
  obtain ⟨c, g3, h2⟩ := res_bind_ok h2
  obtain ⟨d, g4, h2⟩ := res_bind_ok h2
  exact ⟨(putVarint_eq_ok h1).1, hch, (putVarint_eq_ok g1).1, (putVarint_eq_ok g2).1, hn1, hn2, (putVarint_eq_ok g4).1⟩

/-! ## unreliable channels, sender side -/

/-- what a packet may carry on the unreliable channels: `SU ch` = every message offered to unreliable channel `ch`,
    `Lg ch` = the messages that were assigned the sliced-message ids 0, 1, 2, … of that channel (a fresh id per
    sliced message, so all slices carrying one id belong to one message); `K` = valid channel ids -/
def UGen (K : Nat → Prop) (SU Lg : Nat → List Bytes) : Packet → Prop
  | .smallUnreliable _ ch msgs => K ch ∧ msgs.length < 65536 ∧ ∀ m ∈ msgs, m ∈ SU ch
  | .unreliableSlice _ ch sl => K ch ∧ ∃ m, (Lg ch)[sl.messageId]? = some m ∧ m ∈ SU ch ∧ m.length > SLICE_SIZE ∧
      sl.numSlices = divCeil m.length SLICE_SIZE ∧ sl.sliceIndex < sl.numSlices ∧
      sl.payload = sliceBytes m sl.numSlices sl.sliceIndex
  | _ => True

theorem UGen.mono {K : Nat → Prop} {SU SU' Lg Lg' : Nat → List Bytes} (hS : ∀ ch, SU ch <+: SU' ch)
    (hL : ∀ ch, Lg ch <+: Lg' ch) : ∀ {p : Packet}, UGen K SU Lg p → UGen K SU' Lg' p
  | .smallUnreliable _ ch msgs, hp => ⟨hp.1, hp.2.1, fun m hm => (hS ch).subset (hp.2.2 m hm)⟩
  | .unreliableSlice _ ch sl, hp => by
    obtain ⟨hk, m, h1, h2, h3⟩ := hp
    exact ⟨hk, m, prefix_getElem? (hL ch) h1, (hS ch).subset h2, h3⟩
  | .smallReliable .., _ => trivial
  | .reliableSlice .., _ => trivial
  | .ack .., _ => trivial

/-- unreliable send channel `sU` (registered under id `ch`) against the logs -/
structure ChanU (K : Nat → Prop) (SU Lg : List Bytes) (ch : Nat) (sU : SendUnrel) : Prop where
  key : K ch
  chid : sU.ch = ch
  sid : sU.slicedId = Lg.length
  queue : ∀ m ∈ sU.queue, m ∈ SU
  log : ∀ m ∈ Lg, m ∈ SU ∧ SLICE_SIZE < m.length

theorem chanU_send {K : Nat → Prop} {SU Lg : List Bytes} {ch : Nat} {sU : SendUnrel} (h : ChanU K SU Lg ch sU) (m : Bytes) :
    ChanU K (SU ++ [m]) Lg ch (sU.sendMessage m) := by
  have hsub : ∀ x, x ∈ SU → x ∈ SU ++ [m] := fun x hx => List.mem_append_left _ hx
  unfold SendUnrel.sendMessage
  split
  · exact ⟨h.key, h.chid, h.sid, fun x hx => hsub x (h.queue x hx), fun x hx => ⟨hsub x (h.log x hx).1, (h.log x hx).2⟩⟩
  · refine ⟨h.key, h.chid, h.sid, ?_, fun x hx => ⟨hsub x (h.log x hx).1, (h.log x hx).2⟩⟩
    intro x hx
    dsimp only at hx
    rw [List.mem_append, List.mem_singleton] at hx
    rcases hx with hx | rfl
    · exact hsub x (h.queue x hx)
    · simp

theorem chanU_mono {K : Nat → Prop} {SU Lg : List Bytes} {ch : Nat} {sU : SendUnrel} (h : ChanU K SU Lg ch sU) (m : Bytes) :
    ChanU K (SU ++ [m]) Lg ch sU :=
  ⟨h.key, h.chid, h.sid, fun x hx => List.mem_append_left _ (h.queue x hx),
   fun x hx => ⟨List.mem_append_left _ (h.log x hx).1, (h.log x hx).2⟩⟩

/-- one unreliable flush against the logs: the slice-id log grows by the sliced messages `T` of this flush -/
theorem chanU_getPackets {K : Nat → Prop} (SU Lg : Nat → List Bytes) {ch : Nat} {sU : SendUnrel}
    (h : ChanU K (SU ch) (Lg ch) ch sU) (seq avail : Nat) :
    ∃ T, ChanU K (SU ch) (Lg ch ++ T) ch (sU.getPackets seq avail).1 ∧
      ∀ Lg' : Nat → List Bytes, Lg' ch = Lg ch ++ T → ∀ p ∈ (sU.getPackets seq avail).2.1, UGen K SU Lg' p := by
  obtain ⟨T, h1, h2, h3⟩ := unrel_getPackets_log sU seq avail
  refine ⟨T, ⟨h.key, ?_, ?_, ?_, ?_⟩, ?_⟩
  · rw [SendUnrel.getPackets_eq]; exact h.chid
  · rw [h1, h.sid]; simp
  · rw [SendUnrel.getPackets_eq]; intro m hm; cases hm
  · intro m hm
    rw [List.mem_append] at hm
    rcases hm with hm | hm
    · exact h.log m hm
    · exact ⟨h.queue m (h2 m hm).1, (h2 m hm).2⟩
  · intro Lg' hL p hp
    have hu := h3 p hp
    have hok := (SendUnrel.getPackets_emitted (s := sU) (seq := seq) (avail := avail) rfl).2 p hp
    cases p with
    | smallUnreliable sq c msgs =>
      obtain ⟨rfl, hm⟩ := hu
      obtain ⟨-, hsum, -⟩ := hok
      have := unrelSerSum_ge msgs
      refine ⟨by rw [h.chid]; exact h.key, by unfold SLICE_SIZE at hsum; omega, ?_⟩
      intro m hmm
      rw [h.chid]; exact h.queue m (hm m hmm)
    | unreliableSlice sq c sl =>
      obtain ⟨rfl, hge, m, hT, hn, hi, hpay⟩ := hu
      have hmT : m ∈ T := List.mem_of_getElem? hT
      refine ⟨by rw [h.chid]; exact h.key, m, ?_, by rw [h.chid]; exact h.queue m (h2 m hmT).1, (h2 m hmT).2, hn, hi, hpay⟩
      rw [h.chid, hL, List.getElem?_append_right (by rw [← h.sid]; exact hge), ← h.sid]
      exact hT
    | smallReliable _ _ _ => exact hu.elim
    | reliableSlice _ _ _ => exact hu.elim
    | ack _ _ => exact hu.elim

theorem rel_only_rel (s : SendRel) (seq avail now : Nat) : ∀ p ∈ (s.getPackets seq avail now).2.1, isRel p = true := by
  intro p hp
  have := SendRel.getPackets_genuine (s := s) (seq := seq) (avail := avail) (now := now) rfl p hp
  cases p with
  | ack _ _ => exact this.elim
  | smallReliable _ _ _ => rfl
  | reliableSlice _ _ _ => rfl
  | smallUnreliable _ _ _ => exact this.elim
  | unreliableSlice _ _ _ => exact this.elim

theorem uGen_of_rel {K : Nat → Prop} {SU Lg : Nat → List Bytes} {p : Packet} (h : isRel p = true) : UGen K SU Lg p := by
  cases p with
  | smallReliable _ _ _ => trivial
  | reliableSlice _ _ _ => trivial
  | ack _ _ => trivial
  | smallUnreliable _ _ _ => cases h
  | unreliableSlice _ _ _ => cases h

/-- the channel loop against the logs -/
theorem chanLoop_U (K : Nat → Prop) (SU : Nat → List Bytes) (now : Nat) :
    ∀ (ord : List (Bool × Nat)) (sr : SMap SendRel) (su : SMap SendUnrel) (pk : List Packet) (seq avail : Nat)
      (sr' : SMap SendRel) (su' : SMap SendUnrel) (pk' : List Packet) (seq' avail' : Nat) (Lg : Nat → List Bytes),
      Conn.chanLoop now ord (sr, su, pk, seq, avail) = .ok (sr', su', pk', seq', avail') →
      (∀ ch sU, SMap.find? su ch = some sU → ChanU K (SU ch) (Lg ch) ch sU) → (∀ p ∈ pk, UGen K SU Lg p) →
      ∃ Lg' : Nat → List Bytes, (∀ ch, Lg ch <+: Lg' ch) ∧
        (∀ ch sU, SMap.find? su' ch = some sU → ChanU K (SU ch) (Lg' ch) ch sU) ∧ ∀ p ∈ pk', UGen K SU Lg' p
  | [], sr, su, pk, seq, avail, sr', su', pk', seq', avail', Lg, h, hc, hq => by
    simp only [Conn.chanLoop, Res.ok.injEq, Prod.mk.injEq] at h
    obtain ⟨rfl, rfl, rfl, rfl, rfl⟩ := h
    exact ⟨Lg, fun _ => List.prefix_refl _, hc, hq⟩
  | (true, ch) :: rest, sr, su, pk, seq, avail, sr', su', pk', seq', avail', Lg, h, hc, hq => by
    rw [chanLoop_rel_step] at h
    split at h
    · cases h
    · rename_i s hf
      refine chanLoop_U K SU now rest _ _ _ _ _ _ _ _ _ _ Lg h hc ?_
      intro p hp
      rw [List.mem_append] at hp
      rcases hp with hp | hp
      · exact hq p hp
      · exact uGen_of_rel (rel_only_rel s seq avail now p hp)
  | (false, ch) :: rest, sr, su, pk, seq, avail, sr', su', pk', seq', avail', Lg, h, hc, hq => by
    rw [chanLoop_unrel_step] at h
    split at h
    · cases h
    · rename_i s hf
      obtain ⟨T, hT1, hT2⟩ := chanU_getPackets SU Lg (hc ch s hf) seq avail
      have hext : ∀ c, Lg c <+: (fun c => if c = ch then Lg ch ++ T else Lg c) c := by
        intro c
        dsimp only
        split
        · rename_i e; subst e; exact List.prefix_append _ _
        · exact List.prefix_refl _
      have hc1 : ∀ c sU, SMap.find? (SMap.insert su ch (s.getPackets seq avail).1) c = some sU →
          ChanU K (SU c) ((fun c => if c = ch then Lg ch ++ T else Lg c) c) c sU := by
        intro c sU hsU
        rw [SMap.find?_insert] at hsU
        split at hsU
        · rename_i e; subst e; cases hsU
          simp only [↓reduceIte]; exact hT1
        · rename_i e
          have : ¬ c = ch := fun e' => e e'.symm
          simp only [this, ↓reduceIte]
          exact hc c sU hsU
      have hq1 : ∀ p ∈ pk ++ (s.getPackets seq avail).2.1, UGen K SU (fun c => if c = ch then Lg ch ++ T else Lg c) p := by
        intro p hp
        rw [List.mem_append] at hp
        rcases hp with hp | hp
        · exact (hq p hp).mono (fun _ => List.prefix_refl _) hext
        · exact hT2 _ (by simp) p hp
      obtain ⟨Lg', e1, e2, e3⟩ := chanLoop_U K SU now rest _ _ _ _ _ _ _ _ _ _
        (fun c => if c = ch then Lg ch ++ T else Lg c) h hc1 hq1
      exact ⟨Lg', fun c => List.IsPrefix.trans (hext c) (e1 c), e2, e3⟩

/-- one connection-level flush against the logs -/
theorem flush_U (K : Nat → Prop) (SU Lg : Nat → List Bytes) {c c' : Conn} {bs : List Bytes}
    (h : c.getPacketsToSend = .ok (c', bs))
    (hc : ∀ ch sU, SMap.find? c.sendUnrel ch = some sU → ChanU K (SU ch) (Lg ch) ch sU) :
    ∃ Lg' : Nat → List Bytes, (∀ ch, Lg ch <+: Lg' ch) ∧
      (∀ ch sU, SMap.find? c'.sendUnrel ch = some sU → ChanU K (SU ch) (Lg' ch) ch sU) ∧ ∀ p ∈ flushPk c, UGen K SU Lg' p := by
  rcases getPacketsToSend_unfold h with ⟨hd, hc', hbs⟩ | ⟨hd, sr, su, pk0, seq0, avail, sent, hl, hrec, hser⟩
  · have : flushPk c = [] := by unfold flushPk; rw [if_pos hd]
    rw [this, hc']
    exact ⟨Lg, fun _ => List.prefix_refl _, hc, fun _ hp => (by cases hp)⟩
  · obtain ⟨Lg', e1, e2, e3⟩ := chanLoop_U K SU c.now _ _ _ _ _ _ _ _ _ _ _ Lg hl hc (fun _ hp => by cases hp)
    have hq : ∀ p ∈ (if c.pendingAcks.isEmpty then pk0 else pk0 ++ [Packet.ack seq0 c.pendingAcks]), UGen K SU Lg' p := by
      intro p hp
      rcases mem_flushPk_cases hp with hp | rfl
      · exact e3 p hp
      · trivial
    rcases hser with ⟨hok, rfl⟩ | ⟨e, herr, rfl, rfl⟩
    · have hf : flushPk c = (if c.pendingAcks.isEmpty then pk0 else pk0 ++ [Packet.ack seq0 c.pendingAcks]) := by
        unfold flushPk; rw [hd]; simp only [Bool.false_eq_true, ↓reduceIte, hl, hok]
      rw [hf]
      exact ⟨Lg', e1, e2, hq⟩
    · have hf : flushPk c = [] := by
        unfold flushPk; rw [hd]; simp only [Bool.false_eq_true, ↓reduceIte, hl, herr]
      rw [hf, (Conn.disconnectWith_same _ _).1.2.1]
      exact ⟨Lg', e1, e2, fun _ hp => (by cases hp)⟩

/-- `send_message`, as seen by the unreliable send channels -/
theorem sendMessage_casesU {c c' : Conn} {ch : Nat} {m : Bytes} (h : c.sendMessage ch m = .ok c') :
    (offeredU c ch = true ∧ ∃ sU, SMap.find? c.sendUnrel ch = some sU ∧
        c'.sendUnrel = SMap.insert c.sendUnrel ch (sU.sendMessage m)) ∨
    (offeredU c ch = false ∧ c'.sendUnrel = c.sendUnrel) := by
  unfold Conn.sendMessage at h
  split at h
  · rename_i hd
    cases h
    exact Or.inr ⟨by simp [offeredU, hd], rfl⟩
  · rename_i hd
    split at h
    · rename_i s hf
      have hoff : offeredU c ch = false := by simp [offeredU, hf]
      split at h
      · cases h; exact Or.inr ⟨hoff, rfl⟩
      · cases h; exact Or.inr ⟨hoff, (c.disconnectWith_same _).1.2.1⟩
    · rename_i hf
      split at h
      · rename_i sU hfu
        cases h
        exact Or.inl ⟨by simp [offeredU, hd, hf, hfu], sU, hfu, rfl⟩
      · cases h

/-! ## unreliable channels, receiver side -/

/-- `process_packet`, as seen by the unreliable receive channels -/
theorem processPacket_recvU {c c' : Conn} {bytes : Bytes} (hinv : c.SendInv) (h : c.processPacket bytes = .ok c') :
    c'.isDisconnected = true ∨
    (c.isDisconnected = false ∧ ∃ p, Packet.fromBytes bytes = .ok p ∧
      match p with
      | .smallUnreliable _ ch msgs => ∃ r, SMap.find? c.recvUnrel ch = some r ∧
          c'.recvUnrel = SMap.insert c.recvUnrel ch (msgs.foldl RecvUnrel.processMessage r)
      | .unreliableSlice _ ch sl => ∃ r r', SMap.find? c.recvUnrel ch = some r ∧ r.processSlice sl c.now = .ok r' ∧
          c'.recvUnrel = SMap.insert c.recvUnrel ch r'
      | _ => c'.recvUnrel = c.recvUnrel) := by
  cases hd : c.isDisconnected with
  | true =>
    left
    unfold Conn.processPacket at h
    rw [if_pos hd] at h; cases h; exact hd
  | false =>
    cases hp : Packet.fromBytes bytes with
    | error e =>
      left
      unfold Conn.processPacket at h
      rw [hd, hp] at h
      simp only [Bool.false_eq_true, ↓reduceIte] at h
      cases h
      exact disconnectWith_isDisconnected _ _
    | ok p =>
      cases p with
      | ack aseq ranges =>
        obtain ⟨L, c2, -, e, -, eff, -, -⟩ := SI.Conn.processPacket_ack_spec hinv hd hp
        rw [e] at h; cases h
        exact Or.inr ⟨rfl, _, rfl, eff.frame.2.1⟩
      | smallReliable sq ch msgs =>
        unfold Conn.processPacket at h
        rw [hd, hp] at h
        simp only [Bool.false_eq_true, ↓reduceIte] at h
        split at h
        · cases h; exact Or.inl (disconnectWith_isDisconnected _ _)
        · split at h
          · cases h; exact Or.inr ⟨rfl, _, rfl, rfl⟩
          · cases h; exact Or.inl (disconnectWith_isDisconnected _ _)
          · cases h
      | reliableSlice sq ch sl =>
        unfold Conn.processPacket at h
        rw [hd, hp] at h
        simp only [Bool.false_eq_true, ↓reduceIte] at h
        split at h
        · cases h; exact Or.inl (disconnectWith_isDisconnected _ _)
        · split at h
          · cases h; exact Or.inr ⟨rfl, _, rfl, rfl⟩
          · cases h; exact Or.inl (disconnectWith_isDisconnected _ _)
          · cases h
      | smallUnreliable sq ch msgs =>
        unfold Conn.processPacket at h
        rw [hd, hp] at h
        simp only [Bool.false_eq_true, ↓reduceIte] at h
        split at h
        · cases h; exact Or.inl (disconnectWith_isDisconnected _ _)
        · rename_i r hf
          cases h
          exact Or.inr ⟨rfl, _, rfl, r, hf, rfl⟩
      | unreliableSlice sq ch sl =>
        unfold Conn.processPacket at h
        rw [hd, hp] at h
        simp only [Bool.false_eq_true, ↓reduceIte] at h
        split at h
        · cases h; exact Or.inl (disconnectWith_isDisconnected _ _)
        · rename_i r hf
          split at h
          · rename_i r' hps
            cases h; exact Or.inr ⟨rfl, _, rfl, r, r', hf, hps, rfl⟩
          · cases h; exact Or.inl (disconnectWith_isDisconnected _ _)
          · cases h

/-- `receive_message` served by an unreliable channel -/
theorem receiveMessage_casesU {c c' : Conn} {ch : Nat} {m : Option Bytes} (h : c.receiveMessage ch = .ok (c', m))
    (hd : c.isDisconnected = false) (hf : SMap.find? c.recvRel ch = none) :
    ∃ r r', SMap.find? c.recvUnrel ch = some r ∧ r.receive = .ok (r', m) ∧
      c'.recvUnrel = SMap.insert c.recvUnrel ch r' ∧ c'.status = c.status := by
  unfold Conn.receiveMessage at h
  rw [hd, hf] at h
  simp only [Bool.false_eq_true, ↓reduceIte] at h
  split at h
  · rename_i r hfu
    cases hr : r.receive with
    | ok x =>
      obtain ⟨r', m'⟩ := x
      rw [hr] at h
      simp only [Res.bind_ok, Res.pure_eq, Res.ok.injEq, Prod.mk.injEq] at h
      obtain ⟨rfl, rfl⟩ := h
      exact ⟨r, r', hfu, hr, rfl, rfl⟩
    | err e => exact e.elim
    | panic s => rw [hr] at h; cases h
  · cases h

theorem discardAll_find (now : Nat) : ∀ (m m' : SMap RecvUnrel), Conn.discardAll now m = .ok m' →
    ∀ ch r', SMap.find? m' ch = some r' → ∃ r, SMap.find? m ch = some r ∧ r.discardOld now = .ok r'
  | [], m', h, ch, r', hf => by
    simp only [Conn.discardAll, Res.ok.injEq] at h; subst h
    simp [SMap.find?] at hf
  | (k, r) :: rest, m', h, ch, r', hf => by
    simp only [Conn.discardAll] at h
    cases h1 : r.discardOld now with
    | ok r1 =>
      rw [h1] at h; simp only [Res.bind_ok] at h
      cases h2 : Conn.discardAll now rest with
      | ok rest' =>
        rw [h2] at h; simp only [Res.bind_ok, Res.pure_eq, Res.ok.injEq] at h
        subst h
        simp only [SMap.find?] at hf ⊢
        split at hf
        · rename_i e
          cases hf
          rw [if_pos e]; exact ⟨r, rfl, h1⟩
        · rename_i e
          rw [if_neg e]
          exact discardAll_find now rest rest' h2 ch r' hf
      | err e => exact e.elim
      | panic s => rw [h2] at h; cases h
    | err e => exact e.elim
    | panic s => rw [h1] at h; cases h

theorem update_recvU {c c' : Conn} {dt : Nat} (h : c.update dt = .ok c') :
    Conn.discardAll (c.now + dt) c.recvUnrel = .ok c'.recvUnrel := by
  unfold Conn.update at h
  dsimp only at h
  cases hd : Conn.discardAll (c.now + dt) c.recvUnrel with
  | ok ru => rw [hd] at h; simp only [Res.bind_ok, Res.pure_eq] at h; cases h; rfl
  | err e => exact e.elim
  | panic s => rw [hd] at h; cases h

open DataPath in
/-- the DataPath invariant of one unreliable receive channel, with `obtained` as ghost output and some ghost record
    `seen` of the slices handed over so far -/
def ChanBU (S Lg : List Bytes) (r : RecvUnrel) (o : List Bytes) : Prop :=
  ∃ seen, UInv S (fun id => Lg[id]?) ⟨r, o, seen, false⟩

open DataPath in
theorem uInv_mono {S S' Lg Lg' : List Bytes} {st : URunSt} (hS : S <+: S') (hL : Lg <+: Lg')
    (h : UInv S (fun id => Lg[id]?) st) : UInv S' (fun id => Lg'[id]?) st := by
  refine ⟨fun x hx => hS.subset (h.msgs x hx), h.wfS, ?_, h.marks, fun x hx => hS.subset (h.obt x hx)⟩
  intro id c hc
  obtain ⟨m, h1, h2, h3⟩ := h.slices id c hc
  exact ⟨m, prefix_getElem? hL h1, hS.subset h2, h3⟩

theorem chanBU_mono {S S' Lg Lg' : List Bytes} {r : RecvUnrel} {o : List Bytes} (hS : S <+: S') (hL : Lg <+: Lg')
    (h : ChanBU S Lg r o) : ChanBU S' Lg' r o := by
  obtain ⟨seen, hs⟩ := h
  exact ⟨seen, uInv_mono hS hL hs⟩

open DataPath in
theorem chanBU_new (S Lg : List Bytes) (ch maxMem : Nat) : ChanBU S Lg (RecvUnrel.new ch maxMem) [] :=
  ⟨[], uinv_init S _ ch maxMem⟩

open DataPath in
theorem chanBU_msgs {S Lg : List Bytes} {r : RecvUnrel} {o : List Bytes} (h : ChanBU S Lg r o) (msgs : List Bytes)
    (hg : ∀ m ∈ msgs, m ∈ S) : ChanBU S Lg (msgs.foldl RecvUnrel.processMessage r) o := by
  obtain ⟨seen, hs⟩ := h
  refine ⟨seen, ?_⟩
  rw [← foldl_ustep_msgs msgs r o seen]
  refine foldl_inv ustep (UInv S _) (GenuineU S _) (ustep_inv S _) _ _ hs ?_
  intro op hop
  obtain ⟨m, hm, rfl⟩ := List.mem_map.mp hop
  exact hg m hm

open DataPath in
theorem chanBU_slice {S Lg : List Bytes} {r r' : RecvUnrel} {o : List Bytes} (h : ChanBU S Lg r o) {sl : Slice} {now : Nat}
    (hg : GenuineU S (fun id => Lg[id]?) (.slice sl now)) (hp : r.processSlice sl now = .ok r') : ChanBU S Lg r' o := by
  obtain ⟨seen, hs⟩ := h
  have := ustep_inv S _ _ (.slice sl now) hs hg
  unfold ustep at this
  rw [if_neg (by simp)] at this
  dsimp only at this
  rw [hp] at this
  exact ⟨_, this⟩

open DataPath in
theorem chanBU_discard {S Lg : List Bytes} {r r' : RecvUnrel} {o : List Bytes} (h : ChanBU S Lg r o) {now : Nat}
    (hp : r.discardOld now = .ok r') : ChanBU S Lg r' o := by
  obtain ⟨seen, hs⟩ := h
  have := ustep_inv S _ _ (.discard now) hs trivial
  unfold ustep at this
  rw [if_neg (by simp)] at this
  dsimp only at this
  rw [hp] at this
  exact ⟨_, this⟩

open DataPath in
theorem chanBU_recv {S Lg : List Bytes} {r r' : RecvUnrel} {o : List Bytes} {m : Option Bytes} (h : ChanBU S Lg r o)
    (hp : r.receive = .ok (r', m)) : ChanBU S Lg r' (o ++ m.toList) := by
  obtain ⟨seen, hs⟩ := h
  have := ustep_inv S _ _ .recv hs trivial
  unfold ustep at this
  rw [if_neg (by simp)] at this
  dsimp only at this
  rw [hp] at this
  cases m with
  | none => exact ⟨_, by simpa using this⟩
  | some x => exact ⟨_, by simpa using this⟩

open DataPath in
theorem chanBU_obt {S Lg : List Bytes} {r : RecvUnrel} {o : List Bytes} (h : ChanBU S Lg r o) : ∀ x ∈ o, x ∈ S := by
  obtain ⟨seen, hs⟩ := h
  exact hs.obt

/-! ## system invariants, layer U: the unreliable channels end to end -/

def KCfg (cfg : Cfg) (ch : Nat) : Prop := ∃ c ∈ cfg.send, c.id = ch

/-- sender part (unconditional), relative to the ghost slice-id logs `Lg` -/
structure InvUA (cfg : Cfg) (s : Sys) (pkA : List Packet) (Lg : Nat → List Bytes) : Prop where
  chanU : ∀ ch sU, SMap.find? s.a.sendUnrel ch = some sU → ChanU (KCfg cfg) (s.submittedU ch) (Lg ch) ch sU
  genU : ∀ p ∈ pkA, UGen (KCfg cfg) s.submittedU Lg p

/-- receiver part (under `CountersOK`): while B is live every unreliable receive channel that `receive_message`
    actually serves (no reliable channel of the same id) satisfies the DataPath invariant; and the end-to-end
    conclusion -/
structure InvUB (cfg : Cfg) (s : Sys) (Lg : Nat → List Bytes) : Prop where
  recvBU : s.b.isDisconnected = false → ∀ ch r, SMap.find? s.b.recvUnrel ch = some r → RelKind cfg ch = none →
    ChanBU (s.submittedU ch) (Lg ch) r (s.obtained ch)
  conclU : ∀ ch, RelKind cfg ch = none → ∀ x ∈ s.obtained ch, x ∈ s.submittedU ch

theorem invUA_init (cfg : Cfg) : InvUA cfg (Sys.init cfg) [] (fun _ => []) := by
  refine ⟨?_, fun _ h => (by cases h)⟩
  intro ch sU hf
  simp only [Sys.init, Conn.fromChannels] at hf
  rcases SI.foldl_insert_find (fun c : ChanCfg => c.id) (fun c => SendUnrel.new c.id c.maxMem) _ _ ch sU hf with h | ⟨c, hc, h1, h2⟩
  · cases h
  · subst h2
    exact ⟨⟨c, (List.mem_filter.mp hc).1, h1⟩, h1, rfl, fun _ h => (by cases h), fun _ h => (by cases h)⟩

theorem invUB_init (cfg : Cfg) : InvUB cfg (Sys.init cfg) (fun _ => []) := by
  refine ⟨?_, fun _ _ _ h => (by cases h)⟩
  intro _ ch r hf _
  simp only [Sys.init, Conn.fromChannels] at hf
  rcases SI.foldl_insert_find (fun c : ChanCfg => c.id) (fun c => RecvUnrel.new c.id c.maxMem) _ _ ch r hf with h | ⟨c, -, -, h2⟩
  · cases h
  · subst h2; exact chanBU_new _ _ _ _

theorem processPacket_sendUnrel {c c' : Conn} {bytes : Bytes} (hinv : c.SendInv) (h : c.processPacket bytes = .ok c') :
    c'.sendUnrel = c.sendUnrel := by
  rcases SI.Conn.processPacket_cases h with ⟨hs1, -, -⟩ | ⟨p, -, -, hs1, -⟩ | ⟨aseq, ranges, L, hd, hp, -, -⟩
  · exact hs1.2.1
  · exact hs1.2.1
  · obtain ⟨L', c2, -, e, -, eff, -, -⟩ := SI.Conn.processPacket_ack_spec hinv hd hp
    rw [e] at h; cases h
    exact eff.frame.2.2.2.2.2.2.2

theorem invUA_step {cfg : Cfg} {s s' : Sys} {pkA : List Packet} {op : SysOp} {Lg : Nat → List Bytes}
    (h1 : Inv1 cfg s pkA) (hU : InvUA cfg s pkA Lg) (hs : s.step op = some s') :
    ∃ Lg' : Nat → List Bytes, (∀ ch, Lg ch <+: Lg' ch) ∧ InvUA cfg s' (nextPk s op pkA) Lg' := by
  have hrefl : ∀ ch, Lg ch <+: Lg ch := fun _ => List.prefix_refl _
  cases op with
  | sendA ch m =>
    simp only [Sys.step] at hs
    split at hs
    · rename_i a' hm
      cases hs
      refine ⟨Lg, hrefl, ?_⟩
      rcases sendMessage_casesU hm with ⟨hoff, sU, hf, hsu⟩ | ⟨hoff, hsu⟩
      · constructor
        · intro ch2 sU2 hf2
          dsimp only at hf2 ⊢
          rw [hoff]
          simp only [↓reduceIte]
          rw [hsu, SMap.find?_insert] at hf2
          split at hf2
          · rename_i e
            subst e
            cases hf2
            rw [push_same]
            exact chanU_send (hU.chanU ch sU hf) m
          · rename_i e
            rw [push_other _ _ (fun e' => e e'.symm)]
            exact hU.chanU ch2 sU2 hf2
        · intro p hp
          dsimp only
          rw [hoff]
          simp only [↓reduceIte]
          exact (hU.genU p hp).mono (push_prefix _ _ _) hrefl
      · constructor
        · dsimp only
          rw [hoff, hsu]
          exact hU.chanU
        · dsimp only
          rw [hoff]
          exact hU.genU
    · cases hs
  | recvB ch =>
    simp only [Sys.step] at hs
    split at hs
    · cases hs; exact ⟨Lg, hrefl, hU.chanU, hU.genU⟩
    · cases hs; exact ⟨Lg, hrefl, hU.chanU, hU.genU⟩
    · cases hs
  | updA dt =>
    simp only [Sys.step] at hs
    split at hs
    · rename_i a' hm
      cases hs
      exact ⟨Lg, hrefl, by dsimp only; rw [(SI.Conn.update_spec hm).2.1]; exact hU.chanU, hU.genU⟩
    · cases hs
  | updB dt =>
    simp only [Sys.step] at hs
    split at hs
    · cases hs; exact ⟨Lg, hrefl, hU.chanU, hU.genU⟩
    · cases hs
  | flushA =>
    simp only [Sys.step] at hs
    split at hs
    · rename_i a' bs hm
      cases hs
      obtain ⟨Lg', e1, e2, e3⟩ := flush_U (KCfg cfg) s.submittedU Lg hm hU.chanU
      refine ⟨Lg', e1, e2, ?_⟩
      intro p hp
      simp only [nextPk, List.mem_append] at hp
      rcases hp with hp | hp
      · exact (hU.genU p hp).mono (fun _ => List.prefix_refl _) e1
      · exact e3 p hp
    · cases hs
  | flushB =>
    simp only [Sys.step] at hs
    split at hs
    · cases hs; exact ⟨Lg, hrefl, hU.chanU, hU.genU⟩
    · cases hs
  | deliverToB k =>
    simp only [Sys.step] at hs
    split at hs
    · cases hs
    · split at hs
      · cases hs; exact ⟨Lg, hrefl, hU.chanU, hU.genU⟩
      · cases hs
  | deliverToA k =>
    simp only [Sys.step] at hs
    split at hs
    · cases hs
    · split at hs
      · rename_i a' hm
        cases hs
        exact ⟨Lg, hrefl, by dsimp only; rw [processPacket_sendUnrel h1.invA.1 hm]; exact hU.chanU, hU.genU⟩
      · cases hs

/-- what B decodes from a datagram of `outA` is genuine on the unreliable channels too -/
theorem decoded_genuineU {cfg : Cfg} {s : Sys} {pkA : List Packet} {Lg : Nat → List Bytes} (h1 : Inv1 cfg s pkA)
    (hU : InvUA cfg s pkA Lg) (hc : CountersOK cfg s) {k : Nat} {bytes : Bytes} (hb : s.outA[k]? = some bytes)
    {p' : Packet} (hd : Packet.fromBytes bytes = .ok p') : UGen (KCfg cfg) s.submittedU Lg p' := by
  obtain ⟨p, hp, he⟩ := enc_lookup h1.encA hb
  have hmem : p ∈ pkA := List.mem_of_getElem? hp
  obtain ⟨-, htag⟩ := fromBytes_of_enc he hd
  have hg := hU.genU p hmem
  cases p' with
  | smallReliable _ _ _ => trivial
  | reliableSlice _ _ _ => trivial
  | ack _ _ => trivial
  | smallUnreliable sq' ch' msgs' =>
    cases p with
    | smallUnreliable sq ch msgs =>
      obtain ⟨⟨c, hcm, rfl⟩, hl, -⟩ := hg
      have hw := enc_smallUnrel_wf he (hc.chan c hcm) hl
      have := fromBytes_of_enc_wf hw he hd
      rw [this]; exact hU.genU _ hmem
    | smallReliable _ _ _ => simp only [tagByte] at htag; exact absurd htag (by decide)
    | reliableSlice _ _ _ => simp only [tagByte] at htag; exact absurd htag (by decide)
    | unreliableSlice _ _ _ => simp only [tagByte] at htag; exact absurd htag (by decide)
    | ack _ _ => simp only [tagByte] at htag; exact absurd htag (by decide)
  | unreliableSlice sq' ch' sl' =>
    cases p with
    | unreliableSlice sq ch sl =>
      obtain ⟨⟨c, hcm, rfl⟩, m, -, hmS, hbig, hn, -, -⟩ := hg
      have hlen := hc.lensU c hcm m hmS
      have hw := enc_unrelSlice_wf he (hc.chan c hcm) (by rw [hn]; exact divCeil_pos _ (by omega))
        (by rw [hn]; exact slices_le_of_len hlen)
      have := fromBytes_of_enc_wf hw he hd
      rw [this]; exact hU.genU _ hmem
    | smallReliable _ _ _ => simp only [tagByte] at htag; exact absurd htag (by decide)
    | reliableSlice _ _ _ => simp only [tagByte] at htag; exact absurd htag (by decide)
    | smallUnreliable _ _ _ => simp only [tagByte] at htag; exact absurd htag (by decide)
    | ack _ _ => simp only [tagByte] at htag; exact absurd htag (by decide)

theorem flush_recvU {c c' : Conn} {bs : List Bytes} (h : c.getPacketsToSend = .ok (c', bs)) : c'.recvUnrel = c.recvUnrel := by
  rcases getPacketsToSend_unfold h with ⟨-, hc', -⟩ | ⟨-, sr, su, pk0, seq0, avail, sent, -, -, hser⟩
  · rw [hc']
  · rcases hser with ⟨-, rfl⟩ | ⟨e, -, -, rfl⟩
    · rfl
    · exact (Conn.disconnectWith_same _ _).2.2.2

theorem invUB_mono {cfg : Cfg} {s : Sys} {Lg Lg' : Nat → List Bytes} (hL : ∀ ch, Lg ch <+: Lg' ch) (h : InvUB cfg s Lg) :
    InvUB cfg s Lg' :=
  ⟨fun hd ch r hf hk => chanBU_mono (List.prefix_refl _) (hL ch) (h.recvBU hd ch r hf hk), h.conclU⟩

theorem invUB_step {cfg : Cfg} {s s' : Sys} {pkA : List Packet} {op : SysOp} {Lg : Nat → List Bytes}
    (h1 : Inv1 cfg s pkA) (h2 : Inv2 cfg s pkA) (hUA : InvUA cfg s pkA Lg) (hUB : InvUB cfg s Lg)
    (hs : s.step op = some s') (hc : CountersOK cfg s) : InvUB cfg s' Lg := by
  cases op with
  | sendA ch m =>
    simp only [Sys.step] at hs
    split at hs
    · rename_i a' hm
      cases hs
      have hpre : ∀ c, s.submittedU c <+: (if offeredU s.a ch then push s.submittedU ch m else s.submittedU) c := by
        intro c
        split
        · exact push_prefix _ _ _ c
        · exact List.prefix_refl _
      exact ⟨fun hd c r hf hk => chanBU_mono (hpre c) (List.prefix_refl _) (hUB.recvBU hd c r hf hk),
        fun c hk x hx => (hpre c).subset (hUB.conclU c hk x hx)⟩
    · cases hs
  | recvB ch =>
    simp only [Sys.step] at hs
    have key : ∀ (b' : Conn) (mo : Option Bytes), s.b.receiveMessage ch = .ok (b', mo) →
        ∀ obt' : Nat → List Bytes, obt' ch = s.obtained ch ++ mo.toList → (∀ c, c ≠ ch → obt' c = s.obtained c) →
        InvUB cfg { s with b := b', obtained := obt' } Lg := by
      intro b' mo hm obt' ho1 ho2
      rcases receiveMessage_cases hm with ⟨hd, rfl, rfl⟩ | ⟨hd, r, r', hf, hrecv, rfl⟩ | ⟨hd, hf, hrr, hst⟩
      · have hobt : obt' = s.obtained := by
          funext c
          by_cases e : c = ch
          · subst e; rw [ho1]; simp
          · exact ho2 c e
        rw [hobt]
        exact ⟨hUB.recvBU, hUB.conclU⟩
      · have hk : RelKind cfg ch ≠ none := by
          rw [← (h2.recvB hd).1 ch, hf]; simp
        refine ⟨?_, ?_⟩
        · intro hd' c rU hfu hkc
          have e : c ≠ ch := fun e => hk (e ▸ hkc)
          dsimp only at hfu ⊢
          rw [ho2 c e]
          exact hUB.recvBU hd c rU hfu hkc
        · intro c hkc
          have e : c ≠ ch := fun e => hk (e ▸ hkc)
          dsimp only
          rw [ho2 c e]
          exact hUB.conclU c hkc
      · obtain ⟨rU, rU', hfu, hrecv, hru, -⟩ := receiveMessage_casesU hm hd hf
        have hdd : b'.isDisconnected = s.b.isDisconnected := isDisconnected_congr hst
        have hk : RelKind cfg ch = none := by rw [← (h2.recvB hd).1 ch, hf]; rfl
        have hnew : ChanBU (s.submittedU ch) (Lg ch) rU' (obt' ch) := by
          rw [ho1]; exact chanBU_recv (hUB.recvBU hd ch rU hfu hk) hrecv
        refine ⟨?_, ?_⟩
        · intro _ c r hfr hkc
          dsimp only at hfr ⊢
          rw [hru, SMap.find?_insert] at hfr
          split at hfr
          · rename_i e; subst e; cases hfr; exact hnew
          · rename_i e
            rw [ho2 c (fun e' => e e'.symm)]
            exact hUB.recvBU hd c r hfr hkc
        · intro c hkc
          dsimp only
          by_cases e : c = ch
          · subst e; exact chanBU_obt hnew
          · rw [ho2 c e]; exact hUB.conclU c hkc
    split at hs
    · rename_i b' m hm
      cases hs
      exact key b' (some m) hm _ (push_same _ _ _) (fun c e => push_other _ _ e)
    · rename_i b' hm
      cases hs
      exact key b' none hm _ (by simp) (fun _ _ => rfl)
    · cases hs
  | updA dt =>
    simp only [Sys.step] at hs
    split at hs
    · cases hs; exact ⟨hUB.recvBU, hUB.conclU⟩
    · cases hs
  | updB dt =>
    simp only [Sys.step] at hs
    split at hs
    · rename_i b' hm
      cases hs
      obtain ⟨-, e2⟩ := update_recv hm
      refine ⟨?_, hUB.conclU⟩
      intro hd c r' hf hk
      dsimp only at hd hf ⊢
      rw [isDisconnected_congr e2] at hd
      obtain ⟨r, hfr, hdis⟩ := discardAll_find _ _ _ (update_recvU hm) c r' hf
      exact chanBU_discard (hUB.recvBU hd c r hfr hk) hdis
    · cases hs
  | flushA =>
    simp only [Sys.step] at hs
    split at hs
    · cases hs; exact ⟨hUB.recvBU, hUB.conclU⟩
    · cases hs
  | flushB =>
    simp only [Sys.step] at hs
    split at hs
    · rename_i b' bs hm
      cases hs
      obtain ⟨-, -, -, -, -, -, f7⟩ := flush_facts h1.invB.1 hm
      refine ⟨?_, hUB.conclU⟩
      intro hd
      dsimp only at hd ⊢
      rw [flush_recvU hm]; exact hUB.recvBU (f7 hd)
    · cases hs
  | deliverToB k =>
    simp only [Sys.step] at hs
    split at hs
    · cases hs
    · rename_i bytes hb
      split at hs
      · rename_i b' hm
        cases hs
        refine ⟨?_, hUB.conclU⟩
        intro hd'
        dsimp only at hd' ⊢
        rcases processPacket_recvU h1.invB.1 hm with hdis | ⟨hd, p', hdec, hmatch⟩
        · rw [hdis] at hd'; cases hd'
        · have hgen := decoded_genuineU h1 hUA hc hb hdec
          have hold := hUB.recvBU hd
          cases p' with
          | smallUnreliable sq ch msgs =>
            obtain ⟨r, hf, hrr⟩ := hmatch
            rw [hrr]
            intro c r2 hf2 hkc
            rw [SMap.find?_insert] at hf2
            split at hf2
            · rename_i e; subst e; cases hf2
              exact chanBU_msgs (hold ch r hf hkc) msgs hgen.2.2
            · exact hold c r2 hf2 hkc
          | unreliableSlice sq ch sl =>
            obtain ⟨r, r', hf, hps, hrr⟩ := hmatch
            rw [hrr]
            intro c r2 hf2 hkc
            rw [SMap.find?_insert] at hf2
            split at hf2
            · rename_i e; subst e; cases hf2
              exact chanBU_slice (hold ch r hf hkc) hgen.2 hps
            · exact hold c r2 hf2 hkc
          | smallReliable sq ch msgs => dsimp only at hmatch; rw [hmatch]; exact hold
          | reliableSlice sq ch sl => dsimp only at hmatch; rw [hmatch]; exact hold
          | ack sq ranges => dsimp only at hmatch; rw [hmatch]; exact hold
      · cases hs
  | deliverToA k =>
    simp only [Sys.step] at hs
    split at hs
    · cases hs
    · split at hs
      · cases hs; exact ⟨hUB.recvBU, hUB.conclU⟩
      · cases hs

/-- layer U as one statement about the state: some assignment of sliced-message ids to messages makes both parts hold -/
def InvU (cfg : Cfg) (s : Sys) (pkA : List Packet) : Prop :=
  ∃ Lg : Nat → List Bytes, InvUA cfg s pkA Lg ∧ (CountersOK cfg s → InvUB cfg s Lg)

theorem invU_init (cfg : Cfg) : InvU cfg (Sys.init cfg) [] := ⟨_, invUA_init cfg, fun _ => invUB_init cfg⟩

theorem invU_step {cfg : Cfg} {s s' : Sys} {pkA : List Packet} {op : SysOp} (h1 : Inv1 cfg s pkA)
    (h2 : CountersOK cfg s → Inv2 cfg s pkA) (hU : InvU cfg s pkA) (hs : s.step op = some s') :
    InvU cfg s' (nextPk s op pkA) := by
  obtain ⟨Lg, hA, hB⟩ := hU
  obtain ⟨Lg', hL, hA'⟩ := invUA_step h1 hA hs
  refine ⟨Lg', hA', ?_⟩
  intro hc'
  have hc := counters_step h1 hs hc'
  exact invUB_mono hL (invUB_step h1 (h2 hc) hA (hB hc) hs hc)

/-! ## the invariants hold along every run -/

/-- the ghost packet list after a run (mirrors `Sys.run`) -/
def runPk (s : Sys) : List SysOp → List Packet → List Packet
  | [], pk => pk
  | op :: ops, pk =>
    match s.step op with
    | some s' => runPk s' ops (nextPk s op pk)
    | none => pk

theorem inv_run (cfg : Cfg) : ∀ (ops : List SysOp) (s s' : Sys) (pkA : List Packet),
    Inv1 cfg s pkA → (CountersOK cfg s → Inv2 cfg s pkA) → InvR cfg s pkA → InvU cfg s pkA → s.run ops = some s' →
    Inv1 cfg s' (runPk s ops pkA) ∧ (CountersOK cfg s' → Inv2 cfg s' (runPk s ops pkA)) ∧ InvR cfg s' (runPk s ops pkA) ∧
      InvU cfg s' (runPk s ops pkA)
  | [], s, s', pkA, h1, h2, h3, h4, hr => by
    simp only [Sys.run, Option.some.injEq] at hr; subst hr; exact ⟨h1, h2, h3, h4⟩
  | op :: ops, s, s', pkA, h1, h2, h3, h4, hr => by
    simp only [Sys.run] at hr
    cases hs : s.step op with
    | none => rw [hs] at hr; cases hr
    | some s1 =>
      rw [hs] at hr
      simp only [runPk, hs]
      exact inv_run cfg ops s1 s' _ (inv1_step h1 hs)
        (fun hc => inv2_step h1 (h2 (counters_step h1 hs hc)) hs hc) (invR_step h1 h3 hs) (invU_step h1 h2 h4 hs) hr

/-- every state reachable from the initial one satisfies layer 1, and layer 2 when its counters are in range -/
theorem system_inv (cfg : Cfg) (ops : List SysOp) (s : Sys) (hr : (Sys.init cfg).run ops = some s) :
    ∃ pkA, Inv1 cfg s pkA ∧ (CountersOK cfg s → Inv2 cfg s pkA) ∧ InvR cfg s pkA ∧ InvU cfg s pkA :=
  ⟨_, inv_run cfg ops _ s [] (inv1_init cfg) (fun _ => inv2_init cfg) (invR_init cfg) (invU_init cfg) hr⟩


theorem counters_run_from (cfg : Cfg) : ∀ (ops : List SysOp) (s s' : Sys) (pkA : List Packet),
    Inv1 cfg s pkA → s.run ops = some s' → CountersOK cfg s' → CountersOK cfg s
  | [], s, s', _, _, hr, hc => by
    simp only [Sys.run, Option.some.injEq] at hr; subst hr; exact hc
  | op :: ops, s, s', pkA, h1, hr, hc => by
    simp only [Sys.run] at hr
    cases hs : s.step op with
    | none => rw [hs] at hr; cases hr
    | some s1 =>
      rw [hs] at hr
      exact counters_step h1 hs (counters_run_from cfg ops s1 s' _ (inv1_step h1 hs) hr hc)

/-- the counters hypothesis propagates backwards along a run -/
theorem counters_run (cfg : Cfg) (ops1 ops2 : List SysOp) (s1 s : Sys) (hr1 : (Sys.init cfg).run ops1 = some s1)
    (hr2 : s1.run ops2 = some s) (hc : CountersOK cfg s) : CountersOK cfg s1 := by
  obtain ⟨pkA, h1, -⟩ := system_inv cfg ops1 s1 hr1
  exact counters_run_from cfg ops2 s1 s pkA h1 hr2 hc



/-- channel id `ch` is configured (A → B) as Unreliable only -/
def Cfg.Unreliable (cfg : Cfg) (ch : Nat) : Prop := ∀ c ∈ cfg.send, c.id = ch → c.kind = .unreliable

theorem relKind_unreliable {cfg : Cfg} {ch : Nat} (h : cfg.Unreliable ch) : RelKind cfg ch = none := by
  unfold RelKind
  simp only [Sys.init, Conn.fromChannels]
  cases hf : SMap.find? ((cfg.send.filter (·.kind != .unreliable)).foldl
      (fun m c => SMap.insert m c.id (RecvRel.new c.maxMem (c.kind == .ordered))) []) ch with
  | none => rfl
  | some r =>
    rcases SI.foldl_insert_find (fun c : ChanCfg => c.id) (fun c => RecvRel.new c.maxMem (c.kind == .ordered)) _ _ ch r hf with h0 | ⟨c, hc, h1, -⟩
    · cases h0
    · obtain ⟨hcm, hck⟩ := List.mem_filter.mp hc
      rw [h c hcm h1] at hck
      exact absurd hck (by decide)

end RenetVerif.System
