/-
  A two-endpoint SYSTEM built from the validated model functions, and the invariants that compose the
  per-function results (sender side: Lemmas/Flush, Lemmas/SendInv; wire: Lemmas/PacketRT, Lemmas/DecodeWF;
  receiver side: Lemmas/DataPath) into end-to-end statements (Props/C01S.lean).

  The system is a proof-side wrapper, not part of the validated model: endpoint `a` and endpoint `b` are
  two `Conn`s; every operation calls exactly one model function; the "network" is the pair of emission
  histories `outA`/`outB`, from which ANY already-emitted datagram may be handed to the peer at any time
  (loss = never handed over, duplication = handed over twice, delay/reordering = any order).
  Ghost fields record what the sending application submitted and what the receiving application obtained.
-/
import RenetVerif.Lemmas.DataPath
import RenetVerif.Lemmas.Flush
import RenetVerif.Lemmas.SendInv
import RenetVerif.Lemmas.PacketRT
import RenetVerif.Lemmas.DecodeWF
import RenetVerif.Props.C08
namespace RenetVerif.System
open RenetVerif C

/-! ## the system -/

/-- `send`: channels A → B (A's send configuration = B's receive configuration); `recv`: channels B → A -/
structure Cfg where
  budget : Nat
  send : List ChanCfg
  recv : List ChanCfg

structure Sys where
  a : Conn
  b : Conn
  /-- every datagram ever emitted by A resp. B, in emission order -/
  outA : List Bytes
  outB : List Bytes
  /-- ghost: per channel id, the messages A's application submitted that the reliable channel accepted -/
  submitted : Nat → List Bytes
  /-- ghost: per channel id, the messages B's application obtained -/
  obtained : Nat → List Bytes
  /-- ghost: indices into `outA` of the datagrams handed to B so far -/
  deliveredToB : List Nat

inductive SysOp where
  | sendA (ch : Nat) (m : Bytes)
  | recvB (ch : Nat)
  | updA (dt : Nat)
  | updB (dt : Nat)
  | flushA
  | flushB
  | deliverToB (k : Nat)
  | deliverToA (k : Nat)
  deriving Repr, DecidableEq

def push (f : Nat → List Bytes) (ch : Nat) (m : Bytes) : Nat → List Bytes :=
  fun c => if c = ch then f c ++ [m] else f c

def Sys.init (cfg : Cfg) : Sys :=
  { a := Conn.fromChannels cfg.budget cfg.send cfg.recv
    b := Conn.fromChannels cfg.budget cfg.recv cfg.send
    outA := [], outB := [], submitted := fun _ => [], obtained := fun _ => [], deliveredToB := [] }

/-- the message was accepted into `unacked` of reliable channel `ch`: the connection was live, `ch` is a reliable
    send channel, and `send_message` did not disconnect -/
def accepted (a a' : Conn) (ch : Nat) : Bool :=
  !a.isDisconnected && (SMap.find? a.sendRel ch).isSome && !a'.isDisconnected

/-- one operation; `none` = the model function panicked or the index is out of range -/
def Sys.step (s : Sys) : SysOp → Option Sys
  | .sendA ch m =>
    match s.a.sendMessage ch m with
    | .ok a' => some { s with a := a', submitted := if accepted s.a a' ch then push s.submitted ch m else s.submitted }
    | _ => none
  | .recvB ch =>
    match s.b.receiveMessage ch with
    | .ok (b', some m) => some { s with b := b', obtained := push s.obtained ch m }
    | .ok (b', none) => some { s with b := b' }
    | _ => none
  | .updA dt =>
    match s.a.update dt with
    | .ok a' => some { s with a := a' }
    | _ => none
  | .updB dt =>
    match s.b.update dt with
    | .ok b' => some { s with b := b' }
    | _ => none
  | .flushA =>
    match s.a.getPacketsToSend with
    | .ok (a', bs) => some { s with a := a', outA := s.outA ++ bs }
    | _ => none
  | .flushB =>
    match s.b.getPacketsToSend with
    | .ok (b', bs) => some { s with b := b', outB := s.outB ++ bs }
    | _ => none
  | .deliverToB k =>
    match s.outA[k]? with
    | none => none
    | some bytes =>
      match s.b.processPacket bytes with
      | .ok b' => some { s with b := b', deliveredToB := s.deliveredToB ++ [k] }
      | _ => none
  | .deliverToA k =>
    match s.outB[k]? with
    | none => none
    | some bytes =>
      match s.a.processPacket bytes with
      | .ok a' => some { s with a := a' }
      | _ => none

def Sys.run (s : Sys) : List SysOp → Option Sys
  | [] => some s
  | op :: ops =>
    match s.step op with
    | some s' => s'.run ops
    | none => none

/-! ## small helpers -/

theorem push_same (f : Nat → List Bytes) (ch : Nat) (m : Bytes) : push f ch m ch = f ch ++ [m] := by
  simp [push]

theorem push_other (f : Nat → List Bytes) {ch ch' : Nat} (m : Bytes) (h : ch' ≠ ch) : push f ch m ch' = f ch' := by
  simp [push, h]

theorem getElem?_append_singleton_some {α : Type} {L : List α} {i : Nat} {x : α} (m : α) (h : L[i]? = some x) :
    (L ++ [m])[i]? = some x := by
  obtain ⟨hi, _⟩ := List.getElem?_eq_some_iff.mp h
  rw [List.getElem?_append_left hi]; exact h

theorem getElem?_append_singleton_self {α : Type} (L : List α) (m : α) : (L ++ [m])[L.length]? = some m := by
  simp

theorem disconnectWith_isDisconnected (c : Conn) (r : Reason) : (c.disconnectWith r).isDisconnected = true := by
  unfold Conn.disconnectWith
  split
  · assumption
  · rfl

theorem disconnectWith_of_disconnected {c : Conn} (r : Reason) (h : c.isDisconnected = true) : c.disconnectWith r = c := by
  unfold Conn.disconnectWith; rw [if_pos h]

/-! ## what each model call does to the fields the system invariants talk about -/

/-- `send_message`, as seen by the ghost log -/
theorem sendMessage_cases {c c' : Conn} {ch : Nat} {m : Bytes} (h : c.sendMessage ch m = .ok c') :
    (accepted c c' ch = true ∧ ∃ s s', SMap.find? c.sendRel ch = some s ∧ s.sendMessage m = .ok s' ∧
        c' = { c with sendRel := SMap.insert c.sendRel ch s' }) ∨
    (accepted c c' ch = false ∧ c'.sendRel = c.sendRel) := by
  unfold Conn.sendMessage at h
  split at h
  · rename_i hd
    cases h
    exact Or.inr ⟨by simp [accepted, hd], rfl⟩
  · rename_i hd
    split at h
    · rename_i s hf
      split at h
      · rename_i s' hs
        cases h
        refine Or.inl ⟨?_, s, s', hf, hs, rfl⟩
        have : ({ c with sendRel := SMap.insert c.sendRel ch s' } : Conn).isDisconnected = c.isDisconnected := rfl
        simp [accepted, this, hd, hf]
      · cases h
        exact Or.inr ⟨by simp [accepted, disconnectWith_isDisconnected], (c.disconnectWith_same _).1.1⟩
    · rename_i hf
      split at h
      · cases h
        exact Or.inr ⟨by simp [accepted, hf], rfl⟩
      · cases h

/-- `receive_message`, as seen by the reliable receive channels -/
theorem receiveMessage_cases {c c' : Conn} {ch : Nat} {m : Option Bytes} (h : c.receiveMessage ch = .ok (c', m)) :
    (c.isDisconnected = true ∧ c' = c ∧ m = none) ∨
    (c.isDisconnected = false ∧ ∃ r r', SMap.find? c.recvRel ch = some r ∧ r.receive = .ok (r', m) ∧
        c' = { c with recvRel := SMap.insert c.recvRel ch r' }) ∨
    (c.isDisconnected = false ∧ SMap.find? c.recvRel ch = none ∧ c'.recvRel = c.recvRel ∧ c'.status = c.status) := by
  unfold Conn.receiveMessage at h
  split at h
  · rename_i hd
    cases h
    exact Or.inl ⟨hd, rfl, rfl⟩
  · rename_i hd
    have hd' : c.isDisconnected = false := by simpa using hd
    split at h
    · rename_i r hf
      cases hr : r.receive with
      | ok x =>
        obtain ⟨r', m'⟩ := x
        rw [hr] at h
        simp only [Res.bind_ok, Res.pure_eq, Res.ok.injEq, Prod.mk.injEq] at h
        obtain ⟨rfl, rfl⟩ := h
        exact Or.inr (Or.inl ⟨hd', r, r', hf, hr, rfl⟩)
      | err e => exact e.elim
      | panic s => rw [hr] at h; cases h
    · rename_i hf
      split at h
      · rename_i r hfu
        cases hr : r.receive with
        | ok x =>
          obtain ⟨r', m'⟩ := x
          rw [hr] at h
          simp only [Res.bind_ok, Res.pure_eq, Res.ok.injEq, Prod.mk.injEq] at h
          obtain ⟨rfl, rfl⟩ := h
          exact Or.inr (Or.inr ⟨hd', hf, rfl, rfl⟩)
        | err e => exact e.elim
        | panic s => rw [hr] at h; cases h
      · cases h

/-- `process_packet`, as seen by the reliable receive channels: the connection ends up disconnected, or the
    datagram decoded to `p` and exactly the receive channel named by a reliable packet was advanced -/
theorem processPacket_recv {c c' : Conn} {bytes : Bytes} (hinv : c.SendInv) (h : c.processPacket bytes = .ok c') :
    c'.isDisconnected = true ∨
    (c.isDisconnected = false ∧ ∃ p, Packet.fromBytes bytes = .ok p ∧
      match p with
      | .smallReliable _ ch msgs => ∃ r r', SMap.find? c.recvRel ch = some r ∧ Conn.relMsgLoop r msgs = .ok r' ∧
          c'.recvRel = SMap.insert c.recvRel ch r'
      | .reliableSlice _ ch sl => ∃ r r', SMap.find? c.recvRel ch = some r ∧ r.processSlice sl = .ok r' ∧
          c'.recvRel = SMap.insert c.recvRel ch r'
      | _ => c'.recvRel = c.recvRel) := by
  cases hd : c.isDisconnected with
  | true =>
    left
    unfold Conn.processPacket at h
    rw [if_pos hd] at h; cases h; exact hd
  | false =>
    cases hp : Packet.fromBytes bytes with
    | error e =>
      left
      unfold Conn.processPacket at h
      rw [hd, hp] at h
      simp only [Bool.false_eq_true, ↓reduceIte] at h
      cases h
      exact disconnectWith_isDisconnected _ _
    | ok p =>
      cases p with
      | ack aseq ranges =>
        obtain ⟨L, c2, -, e, -, eff, -, -⟩ := SI.Conn.processPacket_ack_spec hinv hd hp
        rw [e] at h; cases h
        exact Or.inr ⟨rfl, _, rfl, eff.frame.1⟩
      | smallReliable sq ch msgs =>
        unfold Conn.processPacket at h
        rw [hd, hp] at h
        simp only [Bool.false_eq_true, ↓reduceIte] at h
        split at h
        · cases h; exact Or.inl (disconnectWith_isDisconnected _ _)
        · rename_i r hf
          split at h
          · rename_i r' hl
            cases h
            exact Or.inr ⟨rfl, _, rfl, r, r', hf, hl, rfl⟩
          · cases h; exact Or.inl (disconnectWith_isDisconnected _ _)
          · cases h
      | reliableSlice sq ch sl =>
        unfold Conn.processPacket at h
        rw [hd, hp] at h
        simp only [Bool.false_eq_true, ↓reduceIte] at h
        split at h
        · cases h; exact Or.inl (disconnectWith_isDisconnected _ _)
        · rename_i r hf
          split at h
          · rename_i r' hl
            cases h
            exact Or.inr ⟨rfl, _, rfl, r, r', hf, hl, rfl⟩
          · cases h; exact Or.inl (disconnectWith_isDisconnected _ _)
          · cases h
      | smallUnreliable sq ch msgs =>
        unfold Conn.processPacket at h
        rw [hd, hp] at h
        simp only [Bool.false_eq_true, ↓reduceIte] at h
        split at h
        · cases h; exact Or.inl (disconnectWith_isDisconnected _ _)
        · cases h
          exact Or.inr ⟨rfl, _, rfl, rfl⟩
      | unreliableSlice sq ch sl =>
        unfold Conn.processPacket at h
        rw [hd, hp] at h
        simp only [Bool.false_eq_true, ↓reduceIte] at h
        split at h
        · cases h; exact Or.inl (disconnectWith_isDisconnected _ _)
        · split at h
          · cases h; exact Or.inr ⟨rfl, _, rfl, rfl⟩
          · cases h; exact Or.inl (disconnectWith_isDisconnected _ _)
          · cases h

/-- `get_packets_to_send`, unfolded: the channel loop, the optional ack packet, the sent-table update and the
    serialisation, with the resulting connection spelled out -/
theorem getPacketsToSend_unfold {c c' : Conn} {bs : List Bytes} (h : c.getPacketsToSend = .ok (c', bs)) :
    (c.isDisconnected = true ∧ c' = c ∧ bs = []) ∨
    (c.isDisconnected = false ∧ ∃ sr su pk0 seq0 avail sent,
      Conn.chanLoop c.now c.order (c.sendRel, c.sendUnrel, [], c.packetSeq, c.budget) = .ok (sr, su, pk0, seq0, avail) ∧
      Conn.recordSent c.now (if c.pendingAcks.isEmpty then pk0 else pk0 ++ [Packet.ack seq0 c.pendingAcks]) c.sent = .ok sent ∧
      ((Conn.serialiseAll (if c.pendingAcks.isEmpty then pk0 else pk0 ++ [Packet.ack seq0 c.pendingAcks]) = .ok bs ∧
          c' = { c with sendRel := sr, sendUnrel := su, packetSeq := (if c.pendingAcks.isEmpty then seq0 else seq0 + 1), sent := sent }) ∨
       (∃ e, Conn.serialiseAll (if c.pendingAcks.isEmpty then pk0 else pk0 ++ [Packet.ack seq0 c.pendingAcks]) = .err e ∧ bs = [] ∧
          c' = ({ c with sendRel := sr, sendUnrel := su, packetSeq := (if c.pendingAcks.isEmpty then seq0 else seq0 + 1),
                         sent := sent } : Conn).disconnectWith (.packetSer e)))) := by
  unfold Conn.getPacketsToSend at h
  split at h
  · rename_i hd
    cases h; exact Or.inl ⟨hd, rfl, rfl⟩
  · rename_i hd
    have hd' : c.isDisconnected = false := by simpa using hd
    right
    refine ⟨hd', ?_⟩
    cases hr : Conn.chanLoop c.now c.order (c.sendRel, c.sendUnrel, [], c.packetSeq, c.budget) with
    | panic s => rw [hr] at h; cases h
    | err e => exact e.elim
    | ok r =>
      obtain ⟨sr, su, pk0, seq0, avail⟩ := r
      rw [hr] at h
      simp only [Res.bind_ok] at h
      refine ⟨sr, su, pk0, seq0, avail, ?_⟩
      by_cases hempty : c.pendingAcks.isEmpty = true
      · simp only [hempty, ↓reduceIte] at h ⊢
        cases hs : Conn.recordSent c.now pk0 c.sent with
        | panic s => rw [hs] at h; cases h
        | err e => exact e.elim
        | ok sent =>
          rw [hs] at h
          simp only [Res.bind_ok] at h
          refine ⟨sent, trivial, rfl, ?_⟩
          cases hser : Conn.serialiseAll pk0 with
          | ok bs' =>
            rw [hser] at h
            simp only [Res.pure_eq, Res.ok.injEq, Prod.mk.injEq] at h
            exact Or.inl ⟨by rw [h.2], h.1.symm⟩
          | err e =>
            rw [hser] at h
            simp only [Res.pure_eq, Res.ok.injEq, Prod.mk.injEq] at h
            exact Or.inr ⟨e, rfl, h.2.symm, h.1.symm⟩
          | panic s => rw [hser] at h; cases h
      · simp only [hempty, Bool.false_eq_true, ↓reduceIte] at h ⊢
        cases hs : Conn.recordSent c.now (pk0 ++ [Packet.ack seq0 c.pendingAcks]) c.sent with
        | panic s => rw [hs] at h; cases h
        | err e => exact e.elim
        | ok sent =>
          rw [hs] at h
          simp only [Res.bind_ok] at h
          refine ⟨sent, trivial, rfl, ?_⟩
          cases hser : Conn.serialiseAll (pk0 ++ [Packet.ack seq0 c.pendingAcks]) with
          | ok bs' =>
            rw [hser] at h
            simp only [Res.pure_eq, Res.ok.injEq, Prod.mk.injEq] at h
            exact Or.inl ⟨by rw [h.2], h.1.symm⟩
          | err e =>
            rw [hser] at h
            simp only [Res.pure_eq, Res.ok.injEq, Prod.mk.injEq] at h
            exact Or.inr ⟨e, rfl, h.2.symm, h.1.symm⟩
          | panic s => rw [hser] at h; cases h

/-! ## generic preservation lemmas for the three loops that touch the reliable send channels -/

theorem ackMsgLoop_pres (P : SendRel → Prop) (hP : ∀ s id s', P s → s.processMessageAck id = .ok s' → P s') :
    ∀ (ids : List Nat) (s s' : SendRel), P s → Conn.ackMsgLoop s ids = .ok s' → P s'
  | [], s, s', hp, h => by
    simp only [Conn.ackMsgLoop, Res.ok.injEq] at h; subst h; exact hp
  | id :: rest, s, s', hp, h => by
    simp only [Conn.ackMsgLoop] at h
    cases h1 : s.processMessageAck id with
    | ok s1 =>
      rw [h1] at h; simp only [Res.bind_ok] at h
      exact ackMsgLoop_pres P hP rest s1 s' (hP s id s1 hp h1) h
    | err e => exact e.elim
    | panic m => rw [h1] at h; cases h

theorem find_insert_pres {α : Type} {P : Nat → α → Prop} {m : SMap α} {ch : Nat} {v : α}
    (hm : ∀ k x, SMap.find? m k = some x → P k x) (hv : P ch v) :
    ∀ k x, SMap.find? (SMap.insert m ch v) k = some x → P k x := by
  intro k x hx
  rw [SMap.find?_insert] at hx
  split at hx
  · rename_i e; cases hx; subst e; exact hv
  · exact hm k x hx

theorem ackOne_pres (P : Nat → SendRel → Prop)
    (hm : ∀ ch s id s', P ch s → s.processMessageAck id = .ok s' → P ch s')
    (hs : ∀ ch s id idx s', P ch s → s.processSliceAck id idx = .ok s' → P ch s')
    {c c' : Conn} {seq : Nat} (h : Conn.ackOne c seq = .ok c')
    (hc : ∀ ch s, SMap.find? c.sendRel ch = some s → P ch s) :
    ∀ ch s, SMap.find? c'.sendRel ch = some s → P ch s := by
  unfold Conn.ackOne at h
  split at h
  · cases h
  · rename_i t info hf
    dsimp only at h
    split at h
    · rename_i ch ids
      split at h
      · cases h
      · rename_i s0 hs0
        cases h1 : Conn.ackMsgLoop s0 ids with
        | ok s1 =>
          rw [h1] at h; simp only [Res.bind_ok, Res.pure_eq, Res.ok.injEq] at h
          subst h
          exact find_insert_pres hc (ackMsgLoop_pres (P ch) (hm ch) ids s0 s1 (hc ch s0 hs0) h1)
        | err e => exact e.elim
        | panic m => rw [h1] at h; cases h
    · rename_i ch id idx
      split at h
      · cases h
      · rename_i s0 hs0
        cases h1 : s0.processSliceAck id idx with
        | ok s1 =>
          rw [h1] at h; simp only [Res.bind_ok, Res.pure_eq, Res.ok.injEq] at h
          subst h
          exact find_insert_pres hc (hs ch s0 id idx s1 (hc ch s0 hs0) h1)
        | err e => exact e.elim
        | panic m => rw [h1] at h; cases h
    · cases h; exact hc
    · cases h; exact hc

theorem ackLoop_pres (P : Nat → SendRel → Prop)
    (hm : ∀ ch s id s', P ch s → s.processMessageAck id = .ok s' → P ch s')
    (hs : ∀ ch s id idx s', P ch s → s.processSliceAck id idx = .ok s' → P ch s') :
    ∀ (L : List Nat) (c c' : Conn), Conn.ackLoop c L = .ok c' →
      (∀ ch s, SMap.find? c.sendRel ch = some s → P ch s) → ∀ ch s, SMap.find? c'.sendRel ch = some s → P ch s
  | [], c, c', h, hc => by
    simp only [Conn.ackLoop, Res.ok.injEq] at h; subst h; exact hc
  | seq :: rest, c, c', h, hc => by
    simp only [Conn.ackLoop] at h
    cases h1 : Conn.ackOne c seq with
    | ok c1 =>
      rw [h1] at h; simp only [Res.bind_ok] at h
      exact ackLoop_pres P hm hs rest c1 c' h (ackOne_pres P hm hs h1 hc)
    | err e => exact e.elim
    | panic m => rw [h1] at h; cases h

/-- any per-channel property preserved by the two ack operations is preserved by `process_packet` -/
theorem processPacket_pres (P : Nat → SendRel → Prop)
    (hm : ∀ ch s id s', P ch s → s.processMessageAck id = .ok s' → P ch s')
    (hs : ∀ ch s id idx s', P ch s → s.processSliceAck id idx = .ok s' → P ch s')
    {c c' : Conn} {bytes : Bytes} (h : c.processPacket bytes = .ok c')
    (hc : ∀ ch s, SMap.find? c.sendRel ch = some s → P ch s) :
    ∀ ch s, SMap.find? c'.sendRel ch = some s → P ch s := by
  rcases SI.Conn.processPacket_cases h with ⟨hs1, -, -⟩ | ⟨p, -, -, hs1, -⟩ | ⟨aseq, ranges, L, -, -, -, hl⟩
  · rw [hs1.1]; exact hc
  · rw [hs1.1]; exact hc
  · exact ackLoop_pres P hm hs L _ c' hl hc

/-- any per-channel property preserved by the reliable flush is preserved by the channel loop, and every packet the
    loop appends satisfies `Q` when the packets of each reliable / unreliable flush do.  `B` bounds the final
    sequence counter (hence every intermediate one). -/
theorem chanLoop_pres (P : Nat → SendRel → Prop) (Q : Packet → Prop) (B now : Nat)
    (hrel : ∀ ch s seq avail, P ch s → (s.getPackets seq avail now).2.2.1 ≤ B →
      P ch (s.getPackets seq avail now).1 ∧ ∀ p ∈ (s.getPackets seq avail now).2.1, Q p)
    (hunrel : ∀ (s : SendUnrel) seq avail, ∀ p ∈ (s.getPackets seq avail).2.1, Q p) :
    ∀ (ord : List (Bool × Nat)) (sr : SMap SendRel) (su : SMap SendUnrel) (pk : List Packet) (seq avail : Nat)
      (sr' : SMap SendRel) (su' : SMap SendUnrel) (pk' : List Packet) (seq' avail' : Nat),
      Conn.chanLoop now ord (sr, su, pk, seq, avail) = .ok (sr', su', pk', seq', avail') → seq' ≤ B →
      (∀ ch s, SMap.find? sr ch = some s → P ch s) → (∀ p ∈ pk, Q p) →
      (∀ ch s, SMap.find? sr' ch = some s → P ch s) ∧ (∀ p ∈ pk', Q p)
  | [], sr, su, pk, seq, avail, sr', su', pk', seq', avail', h, _, hc, hq => by
    simp only [Conn.chanLoop, Res.ok.injEq, Prod.mk.injEq] at h
    obtain ⟨rfl, rfl, rfl, rfl, rfl⟩ := h
    exact ⟨hc, hq⟩
  | (true, ch) :: rest, sr, su, pk, seq, avail, sr', su', pk', seq', avail', h, hb, hc, hq => by
    rw [chanLoop_rel_step] at h
    split at h
    · cases h
    · rename_i s hf
      have hmono := chanLoop_seq_mono now rest _ _ _ _ _ _ _ _ _ _ h
      obtain ⟨hp1, hq1⟩ := hrel ch s seq avail (hc ch s hf) (by omega)
      refine chanLoop_pres P Q B now hrel hunrel rest _ _ _ _ _ _ _ _ _ _ h hb (find_insert_pres hc hp1) ?_
      intro p hp
      rw [List.mem_append] at hp
      rcases hp with hp | hp
      · exact hq p hp
      · exact hq1 p hp
  | (false, ch) :: rest, sr, su, pk, seq, avail, sr', su', pk', seq', avail', h, hb, hc, hq => by
    rw [chanLoop_unrel_step] at h
    split at h
    · cases h
    · rename_i s hf
      refine chanLoop_pres P Q B now hrel hunrel rest _ _ _ _ _ _ _ _ _ _ h hb hc ?_
      intro p hp
      rw [List.mem_append] at hp
      rcases hp with hp | hp
      · exact hq p hp
      · exact hunrel s seq avail p hp

/-- datagrams are the encodings of the packets, one for one -/
def encO (p : Packet) : Option Bytes :=
  match p.enc with
  | .ok b => some b
  | _ => none

theorem serialiseAll_enc : ∀ (pk : List Packet) (bs : List Bytes), Conn.serialiseAll pk = .ok bs →
    pk.map encO = bs.map some
  | [], bs, h => by
    simp only [Conn.serialiseAll, Res.ok.injEq] at h; subst h; rfl
  | p :: rest, bs, h => by
    simp only [Conn.serialiseAll] at h
    cases h1 : p.toBytes SER_BUFFER with
    | ok b =>
      rw [h1] at h; simp only [Res.bind_ok] at h
      cases h2 : Conn.serialiseAll rest with
      | ok bs' =>
        rw [h2] at h; simp only [Res.bind_ok, Res.pure_eq, Res.ok.injEq] at h
        subst h
        have he : encO p = some b := by
          unfold Packet.toBytes at h1
          cases h3 : p.enc with
          | ok b' =>
            rw [h3] at h1; simp only [Res.bind_ok] at h1
            split at h1
            · simp only [Res.pure_eq, Res.ok.injEq] at h1; subst h1; simp [encO, h3]
            · cases h1
          | err e => rw [h3] at h1; cases h1
          | panic m => rw [h3] at h1; cases h1
        simp only [List.map_cons, he, serialiseAll_enc rest bs' h2]
      | err e => rw [h2] at h; cases h
      | panic m => rw [h2] at h; cases h
    | err e => rw [h1] at h; cases h
    | panic m => rw [h1] at h; cases h

theorem encO_some {p : Packet} {b : Bytes} (h : encO p = some b) : p.enc = .ok b := by
  unfold encO at h
  split at h
  · cases h; assumption
  · cases h

/-- looking up a datagram finds the packet it encodes -/
theorem enc_lookup {pk : List Packet} {bs : List Bytes} (h : pk.map encO = bs.map some) {k : Nat} {b : Bytes}
    (hb : bs[k]? = some b) : ∃ p, pk[k]? = some p ∧ p.enc = .ok b := by
  have h1 : (bs.map some)[k]? = some (some b) := by rw [List.getElem?_map, hb]; rfl
  rw [← h, List.getElem?_map] at h1
  cases hp : pk[k]? with
  | none => rw [hp] at h1; cases h1
  | some p =>
    rw [hp] at h1
    simp only [Option.map_some, Option.some.injEq] at h1
    exact ⟨p, rfl, encO_some h1⟩

/-! ## wire: what the bytes of an encoded packet decode to -/

def tagByte : Packet → UInt8
  | .smallReliable .. => 0
  | .smallUnreliable .. => 1
  | .reliableSlice .. => 2
  | .unreliableSlice .. => 3
  | .ack .. => 4

theorem res_bind_ok {ε α β : Type} {x : Res ε α} {f : α → Res ε β} {y : β} (h : (x >>= f) = .ok y) :
    ∃ a, x = .ok a ∧ f a = .ok y := by
  cases x with
  | ok a => exact ⟨a, rfl, h⟩
  | err e => cases h
  | panic s => cases h

/-- the first bytes of every encoding: the type tag and the (in-range) sequence number -/
theorem enc_shape {p : Packet} {b : Bytes} (h : p.enc = .ok b) :
    p.sequence ≤ Varint.MAX ∧ ∃ rest, b = tagByte p :: (Varint.enc p.sequence ++ rest) := by
  cases p with
  | smallReliable seq ch msgs =>
    simp only [Packet.enc] at h
    obtain ⟨s, h1, h⟩ := res_bind_ok h
    obtain ⟨body, h2, h⟩ := res_bind_ok h
    obtain ⟨hs, rfl⟩ := putVarint_eq_ok h1
    simp only [Res.pure_eq, Res.ok.injEq] at h
    subst h
    exact ⟨hs, _, by simp [tagByte, Packet.sequence]; rfl⟩
  | smallUnreliable seq ch msgs =>
    simp only [Packet.enc] at h
    obtain ⟨s, h1, h⟩ := res_bind_ok h
    obtain ⟨body, h2, h⟩ := res_bind_ok h
    obtain ⟨hs, rfl⟩ := putVarint_eq_ok h1
    simp only [Res.pure_eq, Res.ok.injEq] at h
    subst h
    exact ⟨hs, _, by simp [tagByte, Packet.sequence]; rfl⟩
  | reliableSlice seq ch sl =>
    simp only [Packet.enc] at h
    obtain ⟨s, h1, h⟩ := res_bind_ok h
    obtain ⟨body, h2, h⟩ := res_bind_ok h
    obtain ⟨hs, rfl⟩ := putVarint_eq_ok h1
    simp only [Res.pure_eq, Res.ok.injEq] at h
    subst h
    exact ⟨hs, _, by simp [tagByte, Packet.sequence]; rfl⟩
  | unreliableSlice seq ch sl =>
    simp only [Packet.enc] at h
    obtain ⟨s, h1, h⟩ := res_bind_ok h
    obtain ⟨body, h2, h⟩ := res_bind_ok h
    obtain ⟨hs, rfl⟩ := putVarint_eq_ok h1
    simp only [Res.pure_eq, Res.ok.injEq] at h
    subst h
    exact ⟨hs, _, by simp [tagByte, Packet.sequence]; rfl⟩
  | ack seq ranges =>
    simp only [Packet.enc] at h
    obtain ⟨s, h1, h⟩ := res_bind_ok h
    obtain ⟨hs, rfl⟩ := putVarint_eq_ok h1
    split at h
    · cases h
    · obtain ⟨le1, h2, h⟩ := res_bind_ok h
      obtain ⟨size, h3, h⟩ := res_bind_ok h
      obtain ⟨a, h4, h⟩ := res_bind_ok h
      obtain ⟨b', h5, h⟩ := res_bind_ok h
      obtain ⟨c, h6, h⟩ := res_bind_ok h
      obtain ⟨r, h7, h⟩ := res_bind_ok h
      simp only [Res.pure_eq, Res.ok.injEq] at h
      subst h
      exact ⟨hs, _, by simp [tagByte, Packet.sequence]; rfl⟩

/-- whatever a datagram that starts with tag `t` and the varint of `sq` decodes to carries that tag and `sq` -/
theorem decode_head {t : UInt8} {sq : Nat} {rest : Bytes} {p : Packet} {r : Bytes} (hs : sq ≤ Varint.MAX)
    (h : Packet.decode (t :: (Varint.enc sq ++ rest)) = .ok (p, r)) : p.sequence = sq ∧ (tagByte p).toNat = t.toNat := by
  simp only [Packet.decode, Except.bind_eq_ok'] at h
  obtain ⟨⟨ty, b0⟩, h0, h⟩ := h
  simp only [getU8_cons, Except.ok.injEq, Prod.mk.injEq] at h0
  obtain ⟨rfl, rfl⟩ := h0
  simp only [] at h
  split at h
  · rename_i ht
    simp only [Except.bind_eq_ok'] at h
    obtain ⟨⟨seq, b1⟩, h1, h⟩ := h
    rw [getVarint_enc _ hs] at h1
    simp only [Except.ok.injEq, Prod.mk.injEq] at h1
    obtain ⟨rfl, rfl⟩ := h1
    obtain ⟨⟨ch, b2⟩, h2, h⟩ := h
    obtain ⟨⟨n, b3⟩, h3, h⟩ := h
    obtain ⟨⟨msgs, b4⟩, h4, h⟩ := h
    cases h
    exact ⟨rfl, by rw [ht]; rfl⟩
  · rename_i ht
    simp only [Except.bind_eq_ok'] at h
    obtain ⟨⟨seq, b1⟩, h1, h⟩ := h
    rw [getVarint_enc _ hs] at h1
    simp only [Except.ok.injEq, Prod.mk.injEq] at h1
    obtain ⟨rfl, rfl⟩ := h1
    obtain ⟨⟨ch, b2⟩, h2, h⟩ := h
    obtain ⟨⟨n, b3⟩, h3, h⟩ := h
    obtain ⟨⟨msgs, b4⟩, h4, h⟩ := h
    cases h
    exact ⟨rfl, by rw [ht]; rfl⟩
  · rename_i ht
    simp only [Except.bind_eq_ok'] at h
    obtain ⟨⟨seq, b1⟩, h1, h⟩ := h
    rw [getVarint_enc _ hs] at h1
    simp only [Except.ok.injEq, Prod.mk.injEq] at h1
    obtain ⟨rfl, rfl⟩ := h1
    obtain ⟨⟨ch, b2⟩, h2, h⟩ := h
    obtain ⟨⟨id, b3⟩, h3, h⟩ := h
    obtain ⟨⟨idx, b4⟩, h4, h⟩ := h
    obtain ⟨⟨n, b5⟩, h5, h⟩ := h
    simp only [] at h
    split at h
    · cases h
    · simp only [Except.bind_eq_ok'] at h
      obtain ⟨⟨payload, b6⟩, h6, h⟩ := h
      simp only [] at h
      split at h
      · cases h
      · split at h
        · cases h
        · cases h
          exact ⟨rfl, by rw [ht]; rfl⟩
  · rename_i ht
    simp only [Except.bind_eq_ok'] at h
    obtain ⟨⟨seq, b1⟩, h1, h⟩ := h
    rw [getVarint_enc _ hs] at h1
    simp only [Except.ok.injEq, Prod.mk.injEq] at h1
    obtain ⟨rfl, rfl⟩ := h1
    obtain ⟨⟨ch, b2⟩, h2, h⟩ := h
    obtain ⟨⟨id, b3⟩, h3, h⟩ := h
    obtain ⟨⟨idx, b4⟩, h4, h⟩ := h
    obtain ⟨⟨n, b5⟩, h5, h⟩ := h
    simp only [] at h
    split at h
    · cases h
    · simp only [Except.bind_eq_ok'] at h
      obtain ⟨⟨payload, b6⟩, h6, h⟩ := h
      cases h
      exact ⟨rfl, by rw [ht]; rfl⟩
  · rename_i ht
    simp only [Except.bind_eq_ok'] at h
    obtain ⟨⟨seq, b1⟩, h1, h⟩ := h
    rw [getVarint_enc _ hs] at h1
    simp only [Except.ok.injEq, Prod.mk.injEq] at h1
    obtain ⟨rfl, rfl⟩ := h1
    obtain ⟨⟨firstEnd, b2⟩, h2, h⟩ := h
    obtain ⟨⟨firstSize, b3⟩, h3, h⟩ := h
    obtain ⟨⟨nRest, b4⟩, h4, h⟩ := h
    simp only [] at h
    split at h
    · cases h
    · simp only [Except.bind_eq_ok'] at h
      obtain ⟨⟨ranges, b5⟩, h5, h⟩ := h
      cases h
      exact ⟨rfl, by rw [ht]; rfl⟩
  · cases h

/-- reliable data packets (the ones the C01–C03 data path is about) -/
def isRel : Packet → Bool
  | .smallReliable .. => true
  | .reliableSlice .. => true
  | _ => false

/-- decoding the encoding of `p` yields a packet of the same type with the same sequence number -/
theorem fromBytes_of_enc {p p' : Packet} {b : Bytes} (he : p.enc = .ok b) (hd : Packet.fromBytes b = .ok p') :
    p'.sequence = p.sequence ∧ (tagByte p').toNat = (tagByte p).toNat := by
  obtain ⟨hs, rest, rfl⟩ := enc_shape he
  unfold Packet.fromBytes at hd
  split at hd
  · rename_i q r hq
    cases hd
    exact decode_head hs hq
  · cases hd

/-- … and exactly `p` when `p` is well-formed (round trip, C16) -/
theorem fromBytes_of_enc_wf {p p' : Packet} {b : Bytes} (hw : p.WF) (he : p.enc = .ok b)
    (hd : Packet.fromBytes b = .ok p') : p' = p := by
  obtain ⟨b', h1, h2⟩ := Packet.fromBytes_enc p hw
  rw [he] at h1; cases h1
  rw [hd] at h2; cases h2; rfl

theorem isRel_of_tag {p p' : Packet} (h : (tagByte p').toNat = (tagByte p).toNat) : isRel p' = isRel p := by
  cases p <;> cases p' <;> first | rfl | (simp only [tagByte] at h; exact absurd h (by decide))

theorem isAck_of_tag {p p' : Packet} (h : (tagByte p').toNat = (tagByte p).toNat) : SI.isAckPkt p' = SI.isAckPkt p := by
  cases p <;> cases p' <;> first | rfl | (simp only [tagByte] at h; exact absurd h (by decide))

end RenetVerif.System
