/-
  Server-address list of the connect tokens: generated `write_server_addresses` / `read_server_addresses` of
  `renetcode/src/token.rs` agree with `Netcode.writeServerAddresses` / `Netcode.readServerAddresses` of
  `Netcode/Token.lean` over the cursor models (error state forgotten, see `IoCursor.lean`).
  Headline statements in `Props/SrcTieNcAddr.lean`.
-/
import RenetVerif.Generated.Src.NcAddr
import RenetVerif.Lemmas.SrcEquiv.NcSerialize
import RenetVerif.Lemmas.SrcEquiv.IoCursor
import RenetVerif.Lemmas.SrcEquiv.AddrRepr
set_option linter.unusedSimpArgs false
namespace RenetVerif.SrcEquiv
open RenetVerif RenetVerif.RustSem

section NcAddr
open Netcode
open Src.renetcode.token

/-! ### write -/

/-- wire bytes of one address -/
def addrBytes : Addr → Bytes
  | .v4 ip port => Netcode.leBytes C.NETCODE_ADDRESS_IPV4 1 ++ ip ++ Netcode.leBytes port 2
  | .v6 ip port => Netcode.leBytes C.NETCODE_ADDRESS_IPV6 1 ++ ip ++ Netcode.leBytes port 2

/-- wire bytes of the address list: the number of `Some` entries, then these entries in order -/
def addrsBytes (addrs : AddrArray) : Bytes :=
  Netcode.leBytes (addrs.filterMap fun x => x).length 4 ++ ((addrs.filterMap fun x => x).map addrBytes).flatten

theorem writeAll_le {w w' : Wr} {b : Bytes} (h : w.writeAll b = some w') : w'.out.length ≤ w'.cap := by
  unfold Wr.writeAll at h
  split at h
  · injection h with h; subst h; simp only [List.length_append]; omega
  · cases h

theorem go_eq (hosts : List Addr) (w : Wr) (hw : w.out.length ≤ w.cap) :
    writeServerAddresses.go w hosts = w.writeAll (hosts.map addrBytes).flatten := by
  induction hosts generalizing w with
  | nil => simp [writeServerAddresses.go, writeAll_nil w hw]
  | cons h r ih =>
    have hrest : ∀ (w1 : Wr) (p : Bytes), w1.out.length ≤ w1.cap →
        (w1.writeAll p).bind (fun w2 => writeServerAddresses.go w2 r) = w1.writeAll (p ++ (r.map addrBytes).flatten) :=
      fun w1 p _ => writeAll_bind w1 p _ _ (fun w2 h2 => ih w2 h2)
    cases h with
    | v4 ip port =>
      have e : writeServerAddresses.go w (Addr.v4 ip port :: r) =
          (w.writeAll (Netcode.leBytes C.NETCODE_ADDRESS_IPV4 1)).bind (fun w1 => (w1.writeAll ip).bind
            (fun w2 => (w2.writeAll (Netcode.leBytes port 2)).bind (fun w3 => writeServerAddresses.go w3 r))) := by
        simp only [writeServerAddresses.go, Addr.port]; rfl
      rw [e, writeAll_bind w _ _ _ (fun w1 _ => writeAll_bind w1 ip _ _ (fun w2 h2 => hrest w2 _ h2))]
      simp [addrBytes, List.append_assoc]
    | v6 ip port =>
      have e : writeServerAddresses.go w (Addr.v6 ip port :: r) =
          (w.writeAll (Netcode.leBytes C.NETCODE_ADDRESS_IPV6 1)).bind (fun w1 => (w1.writeAll ip).bind
            (fun w2 => (w2.writeAll (Netcode.leBytes port 2)).bind (fun w3 => writeServerAddresses.go w3 r))) := by
        simp only [writeServerAddresses.go, Addr.port]; rfl
      rw [e, writeAll_bind w _ _ _ (fun w1 _ => writeAll_bind w1 ip _ _ (fun w2 h2 => hrest w2 _ h2))]
      simp [addrBytes, List.append_assoc]

/-- the model writer writes `addrsBytes` -/
theorem writeServerAddresses_eq (w : Wr) (addrs : AddrArray) :
    writeServerAddresses w addrs = w.writeAll (addrsBytes addrs) := by
  have e : writeServerAddresses w addrs =
      (w.writeAll (Netcode.leBytes (addrs.filterMap fun x => x).length 4)).bind
        (fun w1 => writeServerAddresses.go w1 (addrs.filterMap fun x => x)) := by
    simp only [writeServerAddresses]; rfl
  rw [e, writeAll_bind w _ _ _ (fun w1 h1 => go_eq _ w1 h1)]
  rfl

theorem filterMap_reprAddrs (addrs : AddrArray) :
    List.filterMap (fun x => x) (reprAddrs addrs) = (addrs.filterMap fun x => x).map reprAddr := by
  induction addrs with
  | nil => rfl
  | cons a r ih =>
    cases a with
    | none => simpa [reprAddrs] using ih
    | some x =>
      simp only [reprAddrs, List.map_cons, Option.map_some] at ih ⊢
      simp only [List.filterMap_cons, List.map_cons, ih]

theorem forEach_map {α γ τ ε ρ : Type} (g : α → γ) (l : List α) (init : τ) (body : γ → τ → Exec ε ρ τ) :
    RustSem.forEach (l.map g) init body = RustSem.forEach l init (fun x st => body (g x) st) := by
  induction l generalizing init with
  | nil => rfl
  | cons x r ih =>
    simp only [List.map_cons, RustSem.forEach]
    congr 1
    funext st
    exact ih st

theorem Exec.bind_val_id' {ε ρ α : Type} (x : Exec ε ρ α) : (x.bind fun a => Exec.val a) = x := by cases x <;> rfl

theorem flatten_singletons {α γ : Type} (f : α → γ) (l : List α) :
    (List.map ((fun i => [i]) ∘ f) l).flatten = List.map f l := by
  induction l with
  | nil => rfl
  | cons x r ih => simp [ih]

theorem filter_isSome_length {α : Type} (l : List (Option α)) :
    (List.filter (fun a => Option.isSome a) l).length = (l.filterMap fun x => x).length := by
  induction l with
  | nil => rfl
  | cons a r ih => cases a <;> simp [ih]

theorem to_le_bytes_u8 (b : UInt8) : RustSem.to_le_bytes 8 b.toNat = [b.toNat] := by
  have : b.toNat < 256 := b.toNat_lt
  simp [RustSem.to_le_bytes, RustSem.leBytes, Nat.mod_eq_of_lt this]

theorem leBytes_toNats (k x : Nat) : RustSem.leBytes x k = toNats (Netcode.leBytes x k) := by
  induction k generalizing x with
  | zero => rfl
  | succ k ih =>
    simp only [RustSem.leBytes, Netcode.leBytes, toNats, List.map_cons] at ih ⊢
    rw [ih]; simp [UInt8.toNat_ofNat']

/-- `write_server_addresses` (error state forgotten) writes `addrsBytes` -/
theorem write_server_addresses_forget (c : WriteCursor) (hc : CInv c) (addrs : AddrArray) (hlen : addrs.length < 2 ^ 32) :
    (write_server_addresses c (reprAddrs addrs)).forget = wres c (toNats (addrsBytes addrs)) := by
  have hcnt : (addrs.filterMap fun x => x).length < 2 ^ 32 := by
    have := List.length_filterMap_le (fun x => x) addrs; omega
  have hc2 : RustSem.len (List.filter (fun a => a.isSome) (reprAddrs addrs)) = (addrs.filterMap fun x => x).length := by
    rw [RustSem.len, filter_isSome_length, filterMap_reprAddrs, List.length_map]
  unfold write_server_addresses
  simp only [Exec.bind_eq, Exec.pure_eq, hc2, cast_of_lt hcnt]
  rw [Exec.forget_run]
  simp only [Exec.forget_bind, Exec.forget_val, forEach_forget]
  rw [WC_start hc (fun c' => ((Exec.callFrom _ (WriteCursor.write_all c' _)).forget).bind _)]
  simp only [step_write_all, filterMap_reprAddrs, forEach_map]
  rw [forEach_chainC _ (fun h => toNats (addrBytes h))]
  · rw [WC_finish]
    congr 1
    simp [addrsBytes, RustSem.to_le_bytes, leBytes_toNats, toNats, Function.comp_def]
  · intro h _ c' hc'
    cases h with
    | v4 ip port =>
      have hin : ∀ x ∈ toNats ip, ∀ c'', CInv c'' →
          ((Exec.callFrom (fun err => Res.ok (err.fst, err.snd)) (WriteCursor.write_all c'' (RustSem.to_le_bytes 8 x))
              : Exec (IoError × WriteCursor) (WriteCursor × Unit) (WriteCursor × Unit)).forget.bind fun a => Exec.val a.fst)
            = WC c'' [x] := by
        intro x hx c'' hc''
        obtain ⟨b, _, rfl⟩ := List.mem_map.mp hx
        rw [WC_start hc'' (fun c => ((Exec.callFrom _ (WriteCursor.write_all c _)).forget).bind _)]
        simp only [step_write_all, to_le_bytes_u8, List.nil_append]
        exact Exec.bind_val_id' _
      simp only [reprAddr, SocketAddr.ip_octets, SocketAddr.port, Exec.forget_bind, forEach_forget, Exec.forget_val]
      rw [WC_start hc' (fun c => ((Exec.callFrom _ (WriteCursor.write_all c _)).forget).bind _)]
      simp only [step_write_all, Exec.bind_assoc']
      rw [forEach_chainC _ (fun i => [i]) _ hin]
      simp only [step_write_all]
      rw [Exec.bind_val_id']
      congr 1
      simp [addrBytes, RustSem.to_le_bytes, leBytes_toNats, toNats, List.append_assoc, flatten_singletons]
      rfl
    | v6 ip port =>
      have hin : ∀ x ∈ toNats ip, ∀ c'', CInv c'' →
          ((Exec.callFrom (fun err => Res.ok (err.fst, err.snd)) (WriteCursor.write_all c'' (RustSem.to_le_bytes 8 x))
              : Exec (IoError × WriteCursor) (WriteCursor × Unit) (WriteCursor × Unit)).forget.bind fun a => Exec.val a.fst)
            = WC c'' [x] := by
        intro x hx c'' hc''
        obtain ⟨b, _, rfl⟩ := List.mem_map.mp hx
        rw [WC_start hc'' (fun c => ((Exec.callFrom _ (WriteCursor.write_all c _)).forget).bind _)]
        simp only [step_write_all, to_le_bytes_u8, List.nil_append]
        exact Exec.bind_val_id' _
      simp only [reprAddr, SocketAddr.ip_octets, SocketAddr.port, Exec.forget_bind, forEach_forget, Exec.forget_val]
      rw [WC_start hc' (fun c => ((Exec.callFrom _ (WriteCursor.write_all c _)).forget).bind _)]
      simp only [step_write_all, Exec.bind_assoc']
      rw [forEach_chainC _ (fun i => [i]) _ hin]
      simp only [step_write_all]
      rw [Exec.bind_val_id']
      congr 1
      simp [addrBytes, RustSem.to_le_bytes, leBytes_toNats, toNats, List.append_assoc, flatten_singletons]
      rfl

/-! ### read -/

/-- one round of `readAddrLoop` -/
def readAddr1 (src : Bytes) : Option (Addr × Bytes) :=
  match readU8 src with
  | none => none
  | some (ty, r) =>
    if ty = C.NETCODE_ADDRESS_IPV4 then
      match readN 4 r with
      | none => none
      | some (ip, r) =>
        match readU16 r with
        | none => none
        | some (port, r) => some (.v4 ip port, r)
    else if ty = C.NETCODE_ADDRESS_IPV6 then
      match readN 16 r with
      | none => none
      | some (ip, r) =>
        match readU16 r with
        | none => none
        | some (port, r) => some (.v6 ip port, r)
    else none

theorem readAddrLoop_succ (n : Nat) (src : Bytes) :
    readAddrLoop (n + 1) src =
      match readAddr1 src with
      | none => none
      | some (a, r) =>
        match readAddrLoop n r with
        | none => none
        | some (l, r2) => some (some a :: l, r2) := by
  rw [readAddrLoop]
  unfold readAddr1
  cases h1 : readU8 src with
  | none => rfl
  | some x =>
    obtain ⟨ty, r⟩ := x
    simp only [bind, Option.bind_some]
    by_cases h4 : ty = C.NETCODE_ADDRESS_IPV4
    · simp only [h4, if_true]
      cases h2 : readN 4 r with
      | none => rfl
      | some y =>
        obtain ⟨ip, r1⟩ := y
        simp only [Option.bind_some]
        cases h3 : readU16 r1 with
        | none => rfl
        | some z =>
          obtain ⟨port, r2⟩ := z
          simp only [Option.bind_some]
          cases readAddrLoop n r2 with
          | none => rfl
          | some w => obtain ⟨l, r3⟩ := w; rfl
    · simp only [h4, if_false]
      by_cases h6 : ty = C.NETCODE_ADDRESS_IPV6
      · simp only [h6, if_true]
        cases h2 : readN 16 r with
        | none => rfl
        | some y =>
          obtain ⟨ip, r1⟩ := y
          simp only [Option.bind_some]
          cases h3 : readU16 r1 with
          | none => rfl
          | some z =>
            obtain ⟨port, r2⟩ := z
            simp only [Option.bind_some]
            cases readAddrLoop n r2 with
            | none => rfl
            | some w => obtain ⟨l, r3⟩ := w; rfl
      · simp only [h6, if_false]
        split <;> rfl

theorem readAddrLoop_length : ∀ (k : Nat) (src : Bytes) (l : List (Option Addr)) (r : Bytes),
    readAddrLoop k src = some (l, r) → l.length = k := by
  intro k
  induction k with
  | zero => intro src l r h; simp [readAddrLoop] at h; rw [h.1]; rfl
  | succ k ih =>
    intro src l r h
    rw [readAddrLoop_succ] at h
    cases h1 : readAddr1 src with
    | none => rw [h1] at h; cases h
    | some x =>
      obtain ⟨a, r1⟩ := x
      rw [h1] at h; simp only at h
      cases h2 : readAddrLoop k r1 with
      | none => rw [h2] at h; cases h
      | some y =>
        obtain ⟨l2, r2⟩ := y
        rw [h2] at h; simp only at h
        injection h with h; injection h with e _; subst e
        simp [ih r1 l2 r2 h2]

theorem readAddr1_suffix {src r : Bytes} {a : Addr} (h : readAddr1 src = some (a, r)) : r <:+ src := by
  unfold readAddr1 at h
  cases h1 : readU8 src with
  | none => rw [h1] at h; cases h
  | some x =>
    obtain ⟨ty, r0⟩ := x
    rw [h1] at h
    have hs0 : r0 <:+ src := by
      unfold readU8 readU at h1
      cases hn : readN 1 src with
      | none => rw [hn] at h1; cases h1
      | some y => obtain ⟨b, r'⟩ := y; rw [hn] at h1; injection h1 with h1; injection h1 with _ e; subst e; exact readN_suffix hn
    have hU16 : ∀ {r1 r2 : Bytes} {p : Nat}, readU16 r1 = some (p, r2) → r2 <:+ r1 := by
      intro r1 r2 p hp
      unfold readU16 readU at hp
      cases hn : readN 2 r1 with
      | none => rw [hn] at hp; cases hp
      | some y => obtain ⟨b, r'⟩ := y; rw [hn] at hp; injection hp with hp; injection hp with _ e; subst e; exact readN_suffix hn
    simp only at h
    split at h
    · cases h2 : readN 4 r0 with
      | none => rw [h2] at h; cases h
      | some y =>
        obtain ⟨ip, r1⟩ := y
        rw [h2] at h; simp only at h
        cases h3 : readU16 r1 with
        | none => rw [h3] at h; cases h
        | some z =>
          obtain ⟨port, r2⟩ := z
          rw [h3] at h; simp only at h
          injection h with h; injection h with _ e; subst e
          exact ((hU16 h3).trans (readN_suffix h2)).trans hs0
    · split at h
      · cases h2 : readN 16 r0 with
        | none => rw [h2] at h; cases h
        | some y =>
          obtain ⟨ip, r1⟩ := y
          rw [h2] at h; simp only at h
          cases h3 : readU16 r1 with
          | none => rw [h3] at h; cases h
          | some z =>
            obtain ⟨port, r2⟩ := z
            rw [h3] at h; simp only at h
            injection h with h; injection h with _ e; subst e
            exact ((hU16 h3).trans (readN_suffix h2)).trans hs0
      · cases h

theorem readAddrLoop_suffix : ∀ (k : Nat) (src : Bytes) (l : List (Option Addr)) (r : Bytes),
    readAddrLoop k src = some (l, r) → r <:+ src := by
  intro k
  induction k with
  | zero => intro src l r h; simp [readAddrLoop] at h; rw [h.2]; exact List.suffix_refl _
  | succ k ih =>
    intro src l r h
    rw [readAddrLoop_succ] at h
    cases h1 : readAddr1 src with
    | none => rw [h1] at h; cases h
    | some x =>
      obtain ⟨a, r1⟩ := x
      rw [h1] at h; simp only at h
      cases h2 : readAddrLoop k r1 with
      | none => rw [h2] at h; cases h
      | some y =>
        obtain ⟨l2, r2⟩ := y
        rw [h2] at h; simp only at h
        injection h with h; injection h with _ e; subst e
        exact (ih r1 l2 r2 h2).trans (readAddr1_suffix h1)

theorem readServerAddresses_suffix {src r : Bytes} {arr : AddrArray} (h : readServerAddresses src = some (arr, r)) :
    r <:+ src := by
  unfold readServerAddresses at h
  cases h1 : readU32 src with
  | none => rw [h1] at h; cases h
  | some x =>
    obtain ⟨num, r1⟩ := x
    rw [h1] at h
    simp only [bind, Option.bind_some] at h
    cases h2 : readAddrLoop (min num C.NETCODE_TOKEN_MAX_ADDRESSES) r1 with
    | none => rw [h2] at h; cases h
    | some y =>
      obtain ⟨l, r2⟩ := y
      rw [h2] at h
      simp only [Option.bind_some] at h
      split at h
      · injection h with h; injection h with _ e; subst e
        exact (readAddrLoop_suffix _ _ _ _ h2).trans (readU_suffix_buf h1 (List.suffix_refl _))
      · cases h

/-- tuple `(server_addresses, src)` of the generated loop after `done` has been read -/
def addrSt (buf : Bytes) (done : List (Option Addr)) (i : Nat) (rest : Bytes) : List (Option SocketAddr) × ReadCursor :=
  (reprAddrs done ++ List.replicate (32 - i) none, rcur buf rest)

theorem addr_loop {ρ : Type} (buf : Bytes)
    (body : Nat → List (Option SocketAddr) × ReadCursor → Exec IoError ρ (List (Option SocketAddr) × ReadCursor))
    (hb : ∀ (i : Nat) (done : List (Option Addr)) (rest : Bytes), done.length = i → i < 32 → rest <:+ buf →
      body i (addrSt buf done i rest) =
        match readAddr1 rest with
        | some (a, r) => .val (addrSt buf (done ++ [some a]) (i + 1) r)
        | none => .err .opaque) :
    ∀ (k i : Nat) (done : List (Option Addr)) (rest : Bytes), done.length = i → i + k ≤ 32 → rest <:+ buf →
      RustSem.forRange.loop body k i (addrSt buf done i rest) =
        match readAddrLoop k rest with
        | some (l, r) => .val (addrSt buf (done ++ l) (i + k) r)
        | none => .err .opaque := by
  intro k
  induction k with
  | zero => intro i done rest _ _ _; simp [RustSem.forRange.loop, readAddrLoop]
  | succ k ih =>
    intro i done rest hd hk hs
    rw [RustSem.forRange.loop, hb i done rest hd (by omega) hs, readAddrLoop_succ]
    cases h1 : readAddr1 rest with
    | none => rfl
    | some x =>
      obtain ⟨a, r⟩ := x
      have hs1 : r <:+ buf := (readAddr1_suffix h1).trans hs
      simp only [Exec.bind_val']
      rw [ih (i + 1) (done ++ [some a]) r (by simp [hd]) (by omega) hs1]
      cases readAddrLoop k r with
      | none => rfl
      | some y =>
        obtain ⟨l, r2⟩ := y
        have e : i + 1 + k = i + (k + 1) := by omega
        simp only [List.append_assoc, List.singleton_append, e]

theorem set_addrs {ε ρ : Type} (done : List (Option Addr)) (i : Nat) (hd : done.length = i) (hi : i < 32)
    (x : SocketAddr) (site : String) :
    (RustSem.set (reprAddrs done ++ List.replicate (32 - i) none) i (some x) site
        : Exec ε ρ (List (Option SocketAddr))) =
      .val (reprAddrs done ++ some x :: List.replicate (32 - (i + 1)) none) := by
  have hl : (reprAddrs done).length = i := by simp [reprAddrs, hd]
  rw [set_val (by simp only [List.length_append, List.length_replicate, hl]; omega)]
  congr 1
  have e : 32 - i = (32 - (i + 1)) + 1 := by omega
  rw [e, List.replicate_succ, ← hl, List.set_append_right _ _ (Nat.le_refl _)]
  simp

theorem leVal_lt_pow (b : Bytes) : leVal b < 256 ^ b.length := by
  induction b with
  | nil => simp [leVal]
  | cons x r ih =>
    have hx : x.toNat < 256 := x.toNat_lt
    simp only [leVal, List.length_cons, Nat.pow_succ]
    omega

/-- `read_server_addresses` (error state forgotten) -/
theorem read_server_addresses_forget {rest buf : Bytes} (h : rest <:+ buf) :
    (read_server_addresses (rcur buf rest)).forget = rdF buf reprAddrs (readServerAddresses rest) := by
  unfold read_server_addresses readServerAddresses
  simp only [Exec.bind_eq, Exec.pure_eq]
  rw [Exec.forget_run]
  simp only [Exec.forget_bind, Exec.forget_val, forRange_forget, Exec.forget_ite, Exec.forget_err, forget_index]
  rw [step_reader id (readU32 rest) _ (by rw [(read_uN_eq h).2.1, rdRes_forget]) (fun x => x) _ (fun e => ⟨e.2, rfl⟩)]
  cases h1 : readU32 rest with
  | none => rfl
  | some x =>
    obtain ⟨num, r1⟩ := x
    have hs1 : r1 <:+ buf := by
      unfold readU32 readU at h1
      cases hn : readN 4 rest with
      | none => rw [hn] at h1; cases h1
      | some y =>
        obtain ⟨b, r'⟩ := y; rw [hn] at h1; injection h1 with h1; injection h1 with _ e; subst e
        exact (readN_suffix hn).trans h
    have hnum : num < 2 ^ 64 := by
      unfold readU32 readU at h1
      cases hn : readN 4 rest with
      | none => rw [hn] at h1; cases h1
      | some y =>
        obtain ⟨b, r'⟩ := y; rw [hn] at h1; injection h1 with h1; injection h1 with e _; subst e
        have hb4 : b.length = 4 := by
          unfold readN at hn; split at hn
          · cases hn
          · injection hn with hn; injection hn with e _; subst e; simp only [List.length_take]; omega
        have := leVal_lt_pow b; rw [hb4] at this; omega
    have h0 : ((RustSem.repeat_ (none : Option SocketAddr) 32, rcur buf r1) : List (Option SocketAddr) × ReadCursor)
        = addrSt buf [] 0 r1 := rfl
    simp only [rdBind, id, RustSem.forRange, Nat.sub_zero, len_repeat, cast_of_lt hnum, h0]
    rw [addr_loop buf _ ?hb (Nat.min num 32) 0 [] r1 rfl (by rw [Nat.zero_add]; exact Nat.min_le_right num 32) hs1]
    case hb =>
      intro i done rs hd hi hs
      simp only [addrSt]
      rw [step_reader id (readU8 rs) _ (by rw [(read_uN_eq hs).2.2.2, rdRes_forget]) (fun x => x) _ (fun e => ⟨e.2, rfl⟩)]
      unfold readAddr1
      cases h8 : readU8 rs with
      | none => rfl
      | some x =>
        obtain ⟨ty, r2⟩ := x
        have hs2 : r2 <:+ buf := readU_suffix_buf h8 hs
        simp only [rdBind, id, show Src.renetcode.NETCODE_ADDRESS_IPV4 = C.NETCODE_ADDRESS_IPV4 from rfl,
          show Src.renetcode.NETCODE_ADDRESS_IPV6 = C.NETCODE_ADDRESS_IPV6 from rfl,
          show Src.renetcode.NETCODE_ADDRESS_NONE = C.NETCODE_ADDRESS_NONE from rfl, len_repeat]
        by_cases h4 : ty = C.NETCODE_ADDRESS_IPV4
        · simp only [h4, decide_true, if_true]
          rw [step_reader toNats (readN 4 r2) _ (read_exact_forget hs2 4) (fun x => x) _ (fun e => ⟨e.2, rfl⟩)]
          cases h2 : readN 4 r2 with
          | none => rfl
          | some y =>
            obtain ⟨ip, r3⟩ := y
            have hs3 : r3 <:+ buf := readN_suffix' h2 hs2
            simp only [rdBind]
            rw [step_reader id (readU16 r3) _ (by rw [(read_uN_eq hs3).2.2.1, rdRes_forget]) (fun x => x) _ (fun e => ⟨e.2, rfl⟩)]
            cases h3 : readU16 r3 with
            | none => rfl
            | some z =>
              obtain ⟨port, r4⟩ := z
              simp only [rdBind, id, set_addrs done i hd hi, Exec.forget_val, Exec.bind_val', SocketAddr.new]
              simp [reprAddrs, reprAddr]
        · simp only [h4, decide_false, Bool.false_eq_true, if_false]
          by_cases h6 : ty = C.NETCODE_ADDRESS_IPV6
          · simp only [h6, decide_true, if_true]
            rw [step_reader toNats (readN 16 r2) _ (read_exact_forget hs2 16) (fun x => x) _ (fun e => ⟨e.2, rfl⟩)]
            cases h2 : readN 16 r2 with
            | none => rfl
            | some y =>
              obtain ⟨ip, r3⟩ := y
              have hs3 : r3 <:+ buf := readN_suffix' h2 hs2
              simp only [rdBind]
              rw [step_reader id (readU16 r3) _ (by rw [(read_uN_eq hs3).2.2.1, rdRes_forget]) (fun x => x) _ (fun e => ⟨e.2, rfl⟩)]
              cases h3 : readU16 r3 with
              | none => rfl
              | some z =>
                obtain ⟨port, r4⟩ := z
                simp only [rdBind, id, set_addrs done i hd hi, Exec.forget_val, Exec.bind_val', SocketAddr.new]
                simp [reprAddrs, reprAddr]
          · simp only [h6, decide_false, Bool.false_eq_true, if_false]
            split <;> rfl
    have hk32 : Nat.min num 32 ≤ 32 := Nat.min_le_right num 32
    simp only [show C.NETCODE_TOKEN_MAX_ADDRESSES = 32 from rfl, bind, Option.bind_some, List.nil_append, Nat.zero_add,
      show min num 32 = Nat.min num 32 from rfl]
    generalize Nat.min num 32 = k at hk32
    cases k with
    | zero =>
      simp [readAddrLoop, addrSt, reprAddrs, Exec.bind_val', index_val, RustSem.index, Exec.bind_err', Exec.run_err, rdF]
    | succ k =>
      rw [readAddrLoop_succ]
      cases ha : readAddr1 r1 with
      | none => rfl
      | some x =>
        obtain ⟨a, r2⟩ := x
        simp only
        cases hl : readAddrLoop k r2 with
        | none => rfl
        | some y =>
          obtain ⟨l, r3⟩ := y
          have hlen := readAddrLoop_length k r2 l r3 hl
          simp [addrSt, reprAddrs, Exec.bind_val', RustSem.index, Exec.run_val, rdF, hlen]

end NcAddr
end RenetVerif.SrcEquiv
