/-
  G2. `renetcode/src/packet.rs` `ChallengeToken::{new, read, write}` over the cursor models agree with the reader /
  writer steps the model uses in `Netcode.ChallengeToken.{generate, decode}` (`Wr.writeAll (leBytes id 8)`,
  `Wr.writeAll user_data`; `readU64`, `readN NETCODE_USER_DATA_BYTES`).
  Headline statements in `Props/SrcTieNcToken.lean`.
-/
import RenetVerif.Generated.Src.NcToken
import RenetVerif.Lemmas.SrcEquiv.NcSerialize
namespace RenetVerif.SrcEquiv
open RenetVerif RenetVerif.RustSem

section NcToken
open Netcode
open Src.renetcode.packet

abbrev SChallengeToken := Src.renetcode.packet.ChallengeToken
def reprCT (t : Netcode.ChallengeToken) : SChallengeToken := ⟨t.clientId, toNats t.userData⟩

/-- the model's challenge-token reader (as inlined in `Netcode.ChallengeToken.decode`) -/
def readCT (src : Bytes) : Option (Netcode.ChallengeToken × Bytes) :=
  match readU64 src with
  | none => none
  | some (cid, r) =>
    match readN C.NETCODE_USER_DATA_BYTES r with
    | none => none
    | some (ud, r2) => some (⟨cid, ud⟩, r2)

/-- the model's challenge-token writer (as inlined in `Netcode.ChallengeToken.generate`) -/
def writeCT (t : Netcode.ChallengeToken) (w : Wr) : Option Wr :=
  match w.writeAll (leBytes t.clientId 8) with
  | none => none
  | some w1 => w1.writeAll t.userData

theorem readU_suffix {n v : Nat} {rest r : Bytes} (h : readU n rest = some (v, r)) : r <:+ rest := by
  unfold readU at h
  cases hn : readN n rest with
  | none => rw [hn] at h; cases h
  | some x =>
    obtain ⟨b, r1⟩ := x
    rw [hn] at h
    injection h with h; injection h with _ h2; subst h2
    exact readN_suffix hn

theorem challenge_read_eq {rest buf : Bytes} (h : rest <:+ buf) :
    ChallengeToken.read (rcur buf rest) = rdRes buf reprCT (readCT rest) := by
  unfold ChallengeToken.read readCT
  simp only [(read_uN_eq h).1, Exec.bind_eq, Exec.pure_eq]
  cases h1 : readU64 rest with
  | none => rfl
  | some x =>
    obtain ⟨cid, r1⟩ := x
    have hs1 : r1 <:+ buf := (readU_suffix h1).trans h
    simp only [rdRes, Exec.callFrom_ok, Exec.bind_val', id, read_bytes_eq hs1,
      show Src.renetcode.NETCODE_USER_DATA_BYTES = C.NETCODE_USER_DATA_BYTES from rfl]
    cases h2 : readN C.NETCODE_USER_DATA_BYTES r1 with
    | none => rfl
    | some y => obtain ⟨ud, r2⟩ := y; rfl

theorem challenge_write_eq {w : Wr} {tail : List Nat} (h : WrOk w tail) (t : Netcode.ChallengeToken) :
    ChallengeToken.write (reprCT t) (wcur w tail) =
      match w.writeAll (leBytes t.clientId 8) with
      | none => .err (.opaque, wfull w tail (leBytes t.clientId 8))
      | some w1 =>
        match w1.writeAll t.userData with
        | none => .err (.opaque, wfull w1 (tail.drop 8) t.userData)
        | some w' => .ok (wcur w' (tail.drop (8 + t.userData.length)), ()) := by
  unfold ChallengeToken.write
  simp only [reprCT, to_le_bytes64, Exec.bind_eq, Exec.pure_eq, (wcur_write_all h _).1]
  cases h1 : w.writeAll (leBytes t.clientId 8) with
  | none => rfl
  | some w1 =>
    have hok1 := (wcur_write_all h (leBytes t.clientId 8)).2 w1 h1
    rw [leBytes_length] at hok1
    simp only [Exec.callFrom_ok, Exec.bind_val', leBytes_length, (wcur_write_all hok1 _).1]
    cases h2 : w1.writeAll t.userData with
    | none => rfl
    | some w2 =>
      simp only [Exec.callFrom_ok, Exec.bind_val', Exec.run_val, List.drop_drop]

theorem challenge_write_ok {w : Wr} {tail : List Nat} (h : WrOk w tail) (t : Netcode.ChallengeToken) :
    (∃ e, ChallengeToken.write (reprCT t) (wcur w tail) = .err e) ↔ writeCT t w = none := by
  rw [challenge_write_eq h t]
  unfold writeCT
  cases w.writeAll (leBytes t.clientId 8) with
  | none => simp
  | some w1 =>
    simp only
    cases w1.writeAll t.userData <;> simp

theorem challenge_new_eq {ε : Type} (cid : Nat) (ud : Bytes) :
    (ChallengeToken.new cid (toNats ud) : Res ε SChallengeToken) = .ok (reprCT ⟨cid, ud⟩) := rfl
end NcToken
end RenetVerif.SrcEquiv
