/-
  Step lemmas for the RustSem primitives.
  (split of the source-tie helper lemmas so that an edit of one Rust function only breaks the properties that
  depend on that function; headline statements in `Props/SrcTiePrims.lean`)
-/
import RenetVerif.Base.RustSem
import RenetVerif.Netcode.Replay
import RenetVerif.Netcode.Wire
import RenetVerif.Renet.Channels
import RenetVerif.Renet.Packet
namespace RenetVerif.SrcEquiv
open RenetVerif RenetVerif.RustSem

/-! ## step lemmas for the primitives -/
section prims
variable {ε ρ α β σ : Type}
theorem add_val {w a b : Nat} {s : String} (h : a + b < 2 ^ w) : (RustSem.add w a b s : Exec ε ρ Nat) = .val (a + b) := by
  simp [RustSem.add, h]
theorem add_panic {w a b : Nat} {s : String} (h : ¬ a + b < 2 ^ w) : (RustSem.add w a b s : Exec ε ρ Nat) = .panic s := by
  simp [RustSem.add, h]
theorem sub_val {w a b : Nat} {s : String} (h : b ≤ a) : (RustSem.sub w a b s : Exec ε ρ Nat) = .val (a - b) := by
  simp [RustSem.sub, h]
theorem sub_panic {w a b : Nat} {s : String} (h : ¬ b ≤ a) : (RustSem.sub w a b s : Exec ε ρ Nat) = .panic s := by
  simp [RustSem.sub, h]
theorem mul_val {w a b : Nat} {s : String} (h : a * b < 2 ^ w) : (RustSem.mul w a b s : Exec ε ρ Nat) = .val (a * b) := by
  simp [RustSem.mul, h]
theorem mul_panic {w a b : Nat} {s : String} (h : ¬ a * b < 2 ^ w) : (RustSem.mul w a b s : Exec ε ρ Nat) = .panic s := by
  simp [RustSem.mul, h]
theorem rem_val {w a b : Nat} {s : String} (h : b ≠ 0) : (RustSem.rem w a b s : Exec ε ρ Nat) = .val (a % b) := by
  simp [RustSem.rem, h]
theorem shr_val {w a n : Nat} {s : String} (h : n < w) : (RustSem.shr w a n s : Exec ε ρ Nat) = .val (a >>> n) := by
  simp [RustSem.shr, h]
theorem shl_val {w a n : Nat} {s : String} (h : n < w) : (RustSem.shl w a n s : Exec ε ρ Nat) = .val ((a <<< n) % 2 ^ w) := by
  simp [RustSem.shl, h]
theorem index_val {l : List α} {i : Nat} {x : α} {s : String} (h : l[i]? = some x) :
    (RustSem.index l i s : Exec ε ρ α) = .val x := by
  simp [RustSem.index, h]
theorem index_panic {l : List α} {i : Nat} {s : String} (h : l[i]? = none) :
    (RustSem.index l i s : Exec ε ρ α) = .panic s := by
  simp [RustSem.index, h]
theorem set_val {l : List α} {i : Nat} {x : α} {s : String} (h : i < l.length) :
    (RustSem.set l i x s : Exec ε ρ (List α)) = .val (l.set i x) := by
  simp [RustSem.set, h]
theorem cast_of_lt {w x : Nat} (h : x < 2 ^ w) : RustSem.cast w x = x := Nat.mod_eq_of_lt h

theorem Exec.bind_val' (a : α) (f : α → Exec ε ρ β) : (Exec.val a).bind f = f a := rfl
/-- skip a statement that is known to evaluate to `a` (stated for the whole statement, so that `rw` can pick it
    without spelling out its text) -/
theorem Exec.bind_skip (x : Exec ε ρ α) (f : α → Exec ε ρ β) (a : α) (h : x = .val a) : x.bind f = f a := by
  rw [h]; rfl
theorem Exec.bind_ret' (r : ρ) (f : α → Exec ε ρ β) : (Exec.ret r : Exec ε ρ α).bind f = .ret r := rfl
theorem Exec.bind_err' (e : ε) (f : α → Exec ε ρ β) : (Exec.err e : Exec ε ρ α).bind f = .err e := rfl
theorem Exec.bind_panic' (s : String) (f : α → Exec ε ρ β) : (Exec.panic s : Exec ε ρ α).bind f = .panic s := rfl
theorem Exec.bind_assoc' {γ : Type} (x : Exec ε ρ α) (f : α → Exec ε ρ β) (g : β → Exec ε ρ γ) :
    (x.bind f).bind g = x.bind (fun a => (f a).bind g) := by cases x <;> rfl
theorem Exec.callFrom_ok {ε' : Type} (k : ε' → Res ε ε) (a : α) : (Exec.callFrom k (.ok a) : Exec ε ρ α) = .val a := rfl
theorem Exec.callFrom_panic {ε' : Type} (k : ε' → Res ε ε) (s : String) :
    (Exec.callFrom k (.panic s : Res ε' α) : Exec ε ρ α) = .panic s := rfl
theorem Exec.callFrom_err {ε' : Type} (k : ε' → Res ε ε) (e : ε') (e' : ε) (h : k e = .ok e') :
    (Exec.callFrom k (.err e : Res ε' α) : Exec ε ρ α) = .err e' := by
  simp [Exec.callFrom, h]
/-! ### forgetting the state carried by errors
  A `Result` fn with `&mut` state has outcome type `Res (E × State) (State × T)`.  Where the model does not track the
  state after an error (cursors), the equivalence is stated for the outcome with the error state forgotten. -/
section forget
variable {σ : Type}
def _root_.RenetVerif.Res.forget : Res (ε × σ) α → Res ε α
  | .ok a => .ok a
  | .err e => .err e.1
  | .panic s => .panic s
def _root_.RenetVerif.RustSem.Exec.forget : Exec (ε × σ) ρ α → Exec ε ρ α
  | .val a => .val a
  | .ret r => .ret r
  | .err e => .err e.1
  | .panic s => .panic s
theorem Exec.forget_val (a : α) : (Exec.val a : Exec (ε × σ) ρ α).forget = .val a := rfl
theorem Exec.forget_ret (r : ρ) : (Exec.ret r : Exec (ε × σ) ρ α).forget = .ret r := rfl
theorem Exec.forget_err (e : ε × σ) : (Exec.err e : Exec (ε × σ) ρ α).forget = .err e.1 := rfl
theorem Exec.forget_panic (s : String) : (Exec.panic s : Exec (ε × σ) ρ α).forget = .panic s := rfl
theorem Exec.forget_run (x : Exec (ε × σ) ρ ρ) : x.run.forget = x.forget.run := by cases x <;> rfl
theorem Exec.forget_bind (x : Exec (ε × σ) ρ α) (f : α → Exec (ε × σ) ρ β) :
    (x.bind f).forget = x.forget.bind (fun a => (f a).forget) := by cases x <;> rfl
theorem Exec.forget_ite (c : Prop) [Decidable c] (a b : Exec (ε × σ) ρ α) :
    (if c then a else b).forget = if c then a.forget else b.forget := by split <;> rfl
theorem forEach_forget {τ γ : Type} (l : List γ) (init : τ) (body : γ → τ → Exec (ε × σ) ρ τ) :
    (RustSem.forEach l init body).forget = RustSem.forEach l init (fun x st => (body x st).forget) := by
  induction l generalizing init with
  | nil => rfl
  | cons x r ih =>
    rw [RustSem.forEach, Exec.forget_bind, RustSem.forEach]
    congr 1
    funext st
    exact ih st
theorem forRange_loop_forget {τ : Type} (body : Nat → τ → Exec (ε × σ) ρ τ) (n i : Nat) (st : τ) :
    (RustSem.forRange.loop body n i st).forget = RustSem.forRange.loop (fun j s => (body j s).forget) n i st := by
  induction n generalizing i st with
  | zero => rfl
  | succ n ih =>
    rw [RustSem.forRange.loop, Exec.forget_bind, RustSem.forRange.loop]
    congr 1
    funext s
    exact ih (i + 1) s
theorem forRange_forget {τ : Type} (lo hi : Nat) (init : τ) (body : Nat → τ → Exec (ε × σ) ρ τ) :
    (RustSem.forRange lo hi init body).forget = RustSem.forRange lo hi init (fun j s => (body j s).forget) :=
  forRange_loop_forget body _ _ _
/-- `callee(..)?` whose error conversion `conv` always succeeds (`From` impls do), callee without error state -/
theorem callFrom_forget {ε' : Type} (conv : ε' → ε) (k : ε' → Res (ε × σ) (ε × σ)) (k0 : ε' → Res ε ε) (st : ε' → σ)
    (hk : ∀ e, k e = .ok (conv e, st e)) (hk0 : ∀ e, k0 e = .ok (conv e)) (r : Res ε' α) :
    (Exec.callFrom k r : Exec (ε × σ) ρ α).forget = Exec.callFrom k0 r := by
  cases r with
  | ok a => rfl
  | err e => simp [Exec.callFrom, hk, hk0, Exec.forget]
  | panic s => rfl
theorem forget_add (w a b : Nat) (s : String) : (RustSem.add w a b s : Exec (ε × σ) ρ Nat).forget = RustSem.add w a b s := by
  unfold RustSem.add; split <;> rfl
theorem forget_sub (w a b : Nat) (s : String) : (RustSem.sub w a b s : Exec (ε × σ) ρ Nat).forget = RustSem.sub w a b s := by
  unfold RustSem.sub; split <;> rfl
theorem forget_mul (w a b : Nat) (s : String) : (RustSem.mul w a b s : Exec (ε × σ) ρ Nat).forget = RustSem.mul w a b s := by
  unfold RustSem.mul; split <;> rfl
theorem forget_unwrap (o : Option α) (s : String) : (RustSem.unwrap o s : Exec (ε × σ) ρ α).forget = RustSem.unwrap o s := by
  cases o <;> rfl
theorem forget_index (l : List α) (i : Nat) (s : String) : (RustSem.index l i s : Exec (ε × σ) ρ α).forget = RustSem.index l i s := by
  unfold RustSem.index; split <;> rfl
end forget

/-- a `Result` call inspected by the caller (`Exec.attempt`), known up to the state its `Err` carries -/
theorem attempt_forget_ok {ε ρ ε' σ α : Type} (r : Res (ε' × σ) (σ × α)) (s : σ) (a : α) (h : r.forget = .ok (s, a)) :
    (Exec.attempt r : Exec ε ρ _) = .val (s, .ok a) := by
  cases r with
  | ok v => cases v; simp only [Res.forget] at h; cases h; rfl
  | err e => simp [Res.forget] at h
  | panic m => simp [Res.forget] at h

theorem attempt_forget_err {ε ρ ε' σ α : Type} (r : Res (ε' × σ) (σ × α)) (e : ε') (h : r.forget = .err e) :
    ∃ s, (Exec.attempt r : Exec ε ρ _) = .val (s, .error e) := by
  cases r with
  | ok v => simp [Res.forget] at h
  | err e' => obtain ⟨e1, s⟩ := e'; simp only [Res.forget] at h; cases h; exact ⟨s, rfl⟩
  | panic m => simp [Res.forget] at h

theorem Exec.ite_bind (c : Prop) [Decidable c] (a b : Exec ε ρ α) (f : α → Exec ε ρ β) :
    (if c then a else b).bind f = if c then a.bind f else b.bind f := by split <;> rfl
theorem Exec.ite_run (c : Prop) [Decidable c] (a b : Exec ε ρ ρ) :
    (if c then a else b).run = if c then a.run else b.run := by split <;> rfl

theorem forRange_succ {lo hi : Nat} (h : lo < hi) (init : σ) (body : Nat → σ → Exec ε ρ σ) :
    RustSem.forRange lo hi init body = (body lo init).bind (fun st => RustSem.forRange (lo + 1) hi st body) := by
  unfold RustSem.forRange
  have : hi - lo = (hi - (lo + 1)) + 1 := by omega
  rw [this, RustSem.forRange.loop]
theorem forRange_done {lo hi : Nat} (h : hi ≤ lo) (init : σ) (body : Nat → σ → Exec ε ρ σ) :
    RustSem.forRange lo hi init body = .val init := by
  unfold RustSem.forRange
  have : hi - lo = 0 := by omega
  rw [this, RustSem.forRange.loop]

/-- map the outcome of a generated function to the model's types (panic sites are kept) -/
def mapRes {ε ε' α β : Type} (f : α → β) (g : ε → ε') : Res ε α → Res ε' β
  | .ok a => .ok (f a)
  | .err e => .err (g e)
  | .panic s => .panic s

/-- same outcome: equal `ok` values, equal `err` values, panic iff panic (the site text is not compared:
    the model and the generated code name their panic sites differently) -/
def SameOutcome {ε α : Type} : Res ε α → Res ε α → Prop
  | .ok a, .ok b => a = b
  | .err a, .err b => a = b
  | .panic _, .panic _ => True
  | _, _ => False
end prims

/-! ## byte lists: model `Bytes` (List UInt8) ↔ generated `List Nat` -/
section bytes
def toNats (b : Bytes) : List Nat := b.map UInt8.toNat
theorem toNats_replicate (n : Nat) : toNats (List.replicate n 0) = List.replicate n 0 := by
  simp [toNats]
theorem toNats_length (b : Bytes) : (toNats b).length = b.length := by simp [toNats]

/-- bytes of the generated code are `Nat`s: well-formed when `< 256` -/
def BytesOk (l : List Nat) : Prop := ∀ b ∈ l, b < 256
instance (l : List Nat) : Decidable (BytesOk l) := by unfold BytesOk; infer_instance
def ofNats (l : List Nat) : Bytes := l.map UInt8.ofNat

theorem toNats_ofNats {l : List Nat} (h : BytesOk l) : toNats (ofNats l) = l := by
  induction l with
  | nil => rfl
  | cons b r ih =>
    have hb : b < 256 := h b (by simp)
    have hr : BytesOk r := fun x hx => h x (by simp [hx])
    simp only [toNats, ofNats, List.map_cons, List.map_map] at ih ⊢
    rw [ih hr]
    simp [UInt8.toNat_ofNat', Nat.mod_eq_of_lt hb]
theorem bytesOk_toNats (b : Bytes) : BytesOk (toNats b) := by
  intro x hx
  simp only [toNats, List.mem_map] at hx
  obtain ⟨y, _, rfl⟩ := hx
  exact y.toNat_lt
theorem ofNats_toNats (b : Bytes) : ofNats (toNats b) = b := by
  induction b with
  | nil => rfl
  | cons x r ih =>
    simp only [ofNats, toNats, List.map_cons, List.map_map] at ih ⊢
    rw [ih]; simp


end bytes

end RenetVerif.SrcEquiv
