/-
  Step lemmas for the RustSem primitives.
  (split of the source-tie helper lemmas so that an edit of one Rust function only breaks the properties that
  depend on that function; headline statements in `Props/SrcTiePrims.lean`)
-/
import RenetVerif.Base.RustSem
import RenetVerif.Netcode.Replay
import RenetVerif.Netcode.Wire
import RenetVerif.Renet.Channels
import RenetVerif.Renet.Packet
namespace RenetVerif.SrcEquiv
open RenetVerif RenetVerif.RustSem

/-! ## step lemmas for the primitives -/
section prims
variable {ε ρ α β σ : Type}
theorem add_val {w a b : Nat} {s : String} (h : a + b < 2 ^ w) : (RustSem.add w a b s : Exec ε ρ Nat) = .val (a + b) := by
  simp [RustSem.add, h]
theorem add_panic {w a b : Nat} {s : String} (h : ¬ a + b < 2 ^ w) : (RustSem.add w a b s : Exec ε ρ Nat) = .panic s := by
  simp [RustSem.add, h]
theorem sub_val {w a b : Nat} {s : String} (h : b ≤ a) : (RustSem.sub w a b s : Exec ε ρ Nat) = .val (a - b) := by
  simp [RustSem.sub, h]
theorem sub_panic {w a b : Nat} {s : String} (h : ¬ b ≤ a) : (RustSem.sub w a b s : Exec ε ρ Nat) = .panic s := by
  simp [RustSem.sub, h]
theorem mul_val {w a b : Nat} {s : String} (h : a * b < 2 ^ w) : (RustSem.mul w a b s : Exec ε ρ Nat) = .val (a * b) := by
  simp [RustSem.mul, h]
theorem mul_panic {w a b : Nat} {s : String} (h : ¬ a * b < 2 ^ w) : (RustSem.mul w a b s : Exec ε ρ Nat) = .panic s := by
  simp [RustSem.mul, h]
theorem rem_val {w a b : Nat} {s : String} (h : b ≠ 0) : (RustSem.rem w a b s : Exec ε ρ Nat) = .val (a % b) := by
  simp [RustSem.rem, h]
theorem shr_val {w a n : Nat} {s : String} (h : n < w) : (RustSem.shr w a n s : Exec ε ρ Nat) = .val (a >>> n) := by
  simp [RustSem.shr, h]
theorem shl_val {w a n : Nat} {s : String} (h : n < w) : (RustSem.shl w a n s : Exec ε ρ Nat) = .val ((a <<< n) % 2 ^ w) := by
  simp [RustSem.shl, h]
theorem index_val {l : List α} {i : Nat} {x : α} {s : String} (h : l[i]? = some x) :
    (RustSem.index l i s : Exec ε ρ α) = .val x := by
  simp [RustSem.index, h]
theorem index_panic {l : List α} {i : Nat} {s : String} (h : l[i]? = none) :
    (RustSem.index l i s : Exec ε ρ α) = .panic s := by
  simp [RustSem.index, h]
theorem set_val {l : List α} {i : Nat} {x : α} {s : String} (h : i < l.length) :
    (RustSem.set l i x s : Exec ε ρ (List α)) = .val (l.set i x) := by
  simp [RustSem.set, h]
theorem cast_of_lt {w x : Nat} (h : x < 2 ^ w) : RustSem.cast w x = x := Nat.mod_eq_of_lt h

theorem Exec.bind_val' (a : α) (f : α → Exec ε ρ β) : (Exec.val a).bind f = f a := rfl
theorem Exec.bind_ret' (r : ρ) (f : α → Exec ε ρ β) : (Exec.ret r : Exec ε ρ α).bind f = .ret r := rfl
theorem Exec.bind_err' (e : ε) (f : α → Exec ε ρ β) : (Exec.err e : Exec ε ρ α).bind f = .err e := rfl
theorem Exec.bind_panic' (s : String) (f : α → Exec ε ρ β) : (Exec.panic s : Exec ε ρ α).bind f = .panic s := rfl
theorem Exec.bind_assoc' {γ : Type} (x : Exec ε ρ α) (f : α → Exec ε ρ β) (g : β → Exec ε ρ γ) :
    (x.bind f).bind g = x.bind (fun a => (f a).bind g) := by cases x <;> rfl
theorem Exec.ite_bind (c : Prop) [Decidable c] (a b : Exec ε ρ α) (f : α → Exec ε ρ β) :
    (if c then a else b).bind f = if c then a.bind f else b.bind f := by split <;> rfl
theorem Exec.ite_run (c : Prop) [Decidable c] (a b : Exec ε ρ ρ) :
    (if c then a else b).run = if c then a.run else b.run := by split <;> rfl

theorem forRange_succ {lo hi : Nat} (h : lo < hi) (init : σ) (body : Nat → σ → Exec ε ρ σ) :
    RustSem.forRange lo hi init body = (body lo init).bind (fun st => RustSem.forRange (lo + 1) hi st body) := by
  unfold RustSem.forRange
  have : hi - lo = (hi - (lo + 1)) + 1 := by omega
  rw [this, RustSem.forRange.loop]
theorem forRange_done {lo hi : Nat} (h : hi ≤ lo) (init : σ) (body : Nat → σ → Exec ε ρ σ) :
    RustSem.forRange lo hi init body = .val init := by
  unfold RustSem.forRange
  have : hi - lo = 0 := by omega
  rw [this, RustSem.forRange.loop]

/-- map the outcome of a generated function to the model's types (panic sites are kept) -/
def mapRes {ε ε' α β : Type} (f : α → β) (g : ε → ε') : Res ε α → Res ε' β
  | .ok a => .ok (f a)
  | .err e => .err (g e)
  | .panic s => .panic s

/-- same outcome: equal `ok` values, equal `err` values, panic iff panic (the site text is not compared:
    the model and the generated code name their panic sites differently) -/
def SameOutcome {ε α : Type} : Res ε α → Res ε α → Prop
  | .ok a, .ok b => a = b
  | .err a, .err b => a = b
  | .panic _, .panic _ => True
  | _, _ => False
end prims

/-! ## byte lists: model `Bytes` (List UInt8) ↔ generated `List Nat` -/
section bytes
def toNats (b : Bytes) : List Nat := b.map UInt8.toNat
theorem toNats_replicate (n : Nat) : toNats (List.replicate n 0) = List.replicate n 0 := by
  simp [toNats]
theorem toNats_length (b : Bytes) : (toNats b).length = b.length := by simp [toNats]

/-- bytes of the generated code are `Nat`s: well-formed when `< 256` -/
def BytesOk (l : List Nat) : Prop := ∀ b ∈ l, b < 256
instance (l : List Nat) : Decidable (BytesOk l) := by unfold BytesOk; infer_instance
def ofNats (l : List Nat) : Bytes := l.map UInt8.ofNat

theorem toNats_ofNats {l : List Nat} (h : BytesOk l) : toNats (ofNats l) = l := by
  induction l with
  | nil => rfl
  | cons b r ih =>
    have hb : b < 256 := h b (by simp)
    have hr : BytesOk r := fun x hx => h x (by simp [hx])
    simp only [toNats, ofNats, List.map_cons, List.map_map] at ih ⊢
    rw [ih hr]
    simp [UInt8.toNat_ofNat', Nat.mod_eq_of_lt hb]
theorem bytesOk_toNats (b : Bytes) : BytesOk (toNats b) := by
  intro x hx
  simp only [toNats, List.mem_map] at hx
  obtain ⟨y, _, rfl⟩ := hx
  exact y.toNat_lt
theorem ofNats_toNats (b : Bytes) : ofNats (toNats b) = b := by
  induction b with
  | nil => rfl
  | cons x r ih =>
    simp only [ofNats, toNats, List.map_cons, List.map_map] at ih ⊢
    rw [ih]; simp


end bytes

end RenetVerif.SrcEquiv
