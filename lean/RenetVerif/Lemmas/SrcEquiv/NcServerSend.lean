/-
  `renetcode/src/server.rs` (group NcServerSend): `find_client_mut_by_id`, `NetcodeServer::{generate_payload_packet,
  update_client, disconnect}` against `Netcode/Server.lean`.  Headline statements in `Props/SrcTieNcServerSend.lean`.
-/
import RenetVerif.Generated.Src.NcServerSend
import RenetVerif.Lemmas.SrcEquiv.NcServer
import RenetVerif.Lemmas.SrcEquiv.NcCodec
set_option linter.unusedSimpArgs false
set_option linter.unusedVariables false
namespace RenetVerif.SrcEquiv
open RenetVerif RenetVerif.RustSem RenetVerif.Netcode

section NcServerSend
open Src.renetcode.server

abbrev SServerResult := Src.renetcode.server.ServerResult

def reprNSR : Netcode.ServerResult → SServerResult
  | .none => .None
  | .packetToSend addr p => .PacketToSend (reprAddr addr) (toNats p)
  | .payload id p => .Payload id (toNats p)
  | .clientConnected id addr ud p => .ClientConnected id (reprAddr addr) (toNats ud) (toNats p)
  | .clientDisconnected id addr p => .ClientDisconnected id (reprAddr addr) (p.map toNats)

/-! ### the finder `find_client_mut_by_id` and the two lookups of the model -/

theorem find_some_idx_go (id : Nat) : ∀ (clients : List (Option Netcode.Connection)) (i : Nat),
    RustSem.find_some_idx.go (fun c : SConnection => decide (c.client_id = id)) i (clients.map (Option.map reprNConn))
      = findClientSlotById.go id clients i := by
  intro clients
  induction clients with
  | nil => intro i; rfl
  | cons c rest ih =>
    intro i
    cases c with
    | none => simp only [List.map_cons, Option.map_none, RustSem.find_some_idx.go, findClientSlotById.go]; exact ih (i + 1)
    | some c =>
      simp only [List.map_cons, Option.map_some, RustSem.find_some_idx.go, findClientSlotById.go]
      by_cases h : c.clientId = id
      · simp [h, reprNConn]
      · simp only [reprNConn, h, decide_false, if_false, Bool.false_eq_true]; exact ih (i + 1)

/-- the `&mut Connection` the Rust finder returns is the slot `findClientSlotById` -/
theorem find_client_mut_by_id_eq {ε : Type} (clients : List (Option Netcode.Connection)) (id : Nat) :
    (find_client_mut_by_id (clients.map (Option.map reprNConn)) id : Res ε _) = .ok (findClientSlotById clients id) := by
  unfold find_client_mut_by_id findClientSlotById RustSem.find_some_idx
  simp only [Exec.pure_eq, Exec.run_val, find_some_idx_go]

theorem find_slot_go_some (id : Nat) : ∀ (clients : List (Option Netcode.Connection)) (k i : Nat),
    findClientSlotById.go id clients k = some i →
      ∃ c, k ≤ i ∧ clients[i - k]? = some (some c) ∧ findClientById clients id = some c := by
  intro clients
  induction clients with
  | nil => intro k i h; simp [findClientSlotById.go] at h
  | cons c rest ih =>
    intro k i h
    cases c with
    | none =>
      simp only [findClientSlotById.go] at h
      obtain ⟨c, hk, hi, hf⟩ := ih (k + 1) i h
      refine ⟨c, by omega, ?_, by simpa [findClientById] using hf⟩
      have : i - k = (i - (k + 1)) + 1 := by omega
      rw [this, List.getElem?_cons_succ]; exact hi
    | some c0 =>
      simp only [findClientSlotById.go] at h
      by_cases hc : c0.clientId = id
      · simp only [hc, if_true, Option.some.injEq] at h
        subst h
        exact ⟨c0, Nat.le_refl _, by simp, by simp [findClientById, hc]⟩
      · simp only [hc, if_false] at h
        obtain ⟨c, hk, hi, hf⟩ := ih (k + 1) i h
        refine ⟨c, by omega, ?_, by simpa [findClientById, hc] using hf⟩
        have : i - k = (i - (k + 1)) + 1 := by omega
        rw [this, List.getElem?_cons_succ]; exact hi

theorem find_slot_go_none (id : Nat) : ∀ (clients : List (Option Netcode.Connection)) (k : Nat),
    findClientSlotById.go id clients k = none → findClientById clients id = none := by
  intro clients
  induction clients with
  | nil => intro k _; rfl
  | cons c rest ih =>
    intro k h
    cases c with
    | none => simp only [findClientSlotById.go] at h; simpa [findClientById] using ih (k + 1) h
    | some c0 =>
      simp only [findClientSlotById.go] at h
      by_cases hc : c0.clientId = id
      · simp [hc] at h
      · simp only [hc, if_false] at h; simpa [findClientById, hc] using ih (k + 1) h

theorem find_slot_some {clients : List (Option Netcode.Connection)} {id i : Nat} (h : findClientSlotById clients id = some i) :
    ∃ c, clients[i]? = some (some c) ∧ findClientById clients id = some c := by
  obtain ⟨c, _, hi, hf⟩ := find_slot_go_some id clients 0 i h
  exact ⟨c, by simpa using hi, hf⟩
theorem find_slot_none {clients : List (Option Netcode.Connection)} {id : Nat} (h : findClientSlotById clients id = none) :
    findClientById clients id = none := find_slot_go_none id clients 0 h

/-! ### slots of the generated server -/

theorem idx_clients {ε ρ : Type} {clients : List (Option Netcode.Connection)} {i : Nat} {oc : Option Netcode.Connection}
    (h : clients[i]? = some oc) (site : String) :
    (RustSem.index (clients.map (Option.map reprNConn)) i site : Exec ε ρ _) = .val (oc.map reprNConn) := by
  apply index_val; simp [h]

theorem set_clients {ε ρ : Type} {clients : List (Option Netcode.Connection)} {i : Nat} (hi : i < clients.length)
    (v : Option SConnection) (v' : Option Netcode.Connection) (hv : v = v'.map reprNConn) (site : String) :
    (RustSem.set (clients.map (Option.map reprNConn)) i v site : Exec ε ρ _)
      = .val ((clients.set i v').map (Option.map reprNConn)) := by
  rw [set_val (by simpa using hi), hv, List.map_set]

theorem lt_of_getElem? {α : Type} {l : List α} {i : Nat} {x : α} (h : l[i]? = some x) : i < l.length := by
  have := List.getElem?_eq_some_iff.mp h; exact this.1

theorem slice_of_take {ε ρ : Type} (buf' : List Nat) (bytes : Bytes) (h : buf'.take bytes.length = toNats bytes) (site : String) :
    (RustSem.slice buf' 0 bytes.length site : Exec ε ρ _) = .val (toNats bytes) := by
  have hl : bytes.length ≤ buf'.length := by
    have := congrArg List.length h
    simp only [List.length_take, toNats_length] at this; omega
  unfold RustSem.slice
  rw [if_pos ⟨Nat.zero_le _, hl⟩, h]; rfl

/-- `Packet::encode` into the server's scratch buffer -/
theorem enc_out (a : AEAD) (hl : a.Laws) (p : Netcode.Packet) (out : List Nat) (hout : out.length = C.NETCODE_MAX_PACKET_BYTES)
    (pid sq : Nat) (key : Bytes) :
    EncOut C.NETCODE_MAX_PACKET_BYTES (Netcode.Packet.encode a p C.NETCODE_MAX_PACKET_BYTES pid (some (sq, key)))
      (@Src.renetcode.packet.Packet.encode (aeadOf a) (reprNP p) out pid (some (sq, toNats key))) := by
  have h := packet_encode_eq a hl p out (by rw [hout]; decide) pid (some (sq, key))
  rw [hout] at h
  exact h

/-! ### `generate_payload_packet` -/

/-- outcomes of the sending functions that return `Result<_, NetcodeError>`: the scratch buffer `out` is some buffer of the
    same length afterwards (the model does not keep it) -/
def GenOut (s : Netcode.NetcodeServer) (m : NRes ((Addr × Bytes) × Netcode.NetcodeServer))
    (g : Res (SNErr × SNetcodeServer) (SNetcodeServer × (RustSem.SocketAddr × List Nat))) : Prop :=
  match m with
  | .ok ((addr, bytes), s') =>
      ∃ out', out'.length = C.NETCODE_MAX_PACKET_BYTES ∧ g = .ok (reprNS out' s', (reprAddr addr, toNats bytes))
  | .err e => ∃ out', out'.length = C.NETCODE_MAX_PACKET_BYTES ∧ g = .err (reprNErr e, reprNS out' s)
  | .panic _ => ∃ msg, g = .panic msg

theorem ns_generate_payload_packet_eq (a : AEAD) (hl : a.Laws) (out : List Nat) (hout : out.length = C.NETCODE_MAX_PACKET_BYTES)
    (s : Netcode.NetcodeServer) (id : Nat) (payload : Bytes) :
    GenOut s (s.generatePayloadPacket a id payload)
      (@NetcodeServer.generate_payload_packet (aeadOf a) (reprNS out s) id (toNats payload)) := by
  unfold NetcodeServer.generate_payload_packet Netcode.NetcodeServer.generatePayloadPacket
  have hc : ∀ o, (reprNS o s).clients = s.clients.map (Option.map reprNConn) := fun _ => rfl
  have hlen : RustSem.len (toNats payload) = payload.length := by simp [RustSem.len, toNats_length]
  have hK : Src.renetcode.NETCODE_MAX_PAYLOAD_BYTES = C.NETCODE_MAX_PAYLOAD_BYTES := rfl
  simp only [hlen, hK, Exec.bind_eq, Exec.pure_eq]
  by_cases hp : payload.length > C.NETCODE_MAX_PAYLOAD_BYTES
  · simp only [hp, decide_true, if_true, Exec.bind_err', Exec.run_err, GenOut, reprNErr]; exact ⟨out, hout, rfl⟩
  simp only [hp, decide_false, if_false, Bool.false_eq_true, Exec.bind_val', hc, find_client_mut_by_id_eq, Exec.call_ok]
  cases hf : findClientSlotById s.clients id with
  | none =>
    rw [find_slot_none hf]
    simp only [Exec.bind_val', Exec.run_err, GenOut, reprNErr]; exact ⟨out, hout, rfl⟩
  | some i =>
    obtain ⟨c, hi, hfc⟩ := find_slot_some hf
    have hilt := lt_of_getElem? hi
    rw [hfc]
    simp only [idx_clients hi, Exec.bind_val', Option.map_some, RustSem.unwrap]
    have henc := enc_out a hl (.payload payload) out hout s.protocolId c.sequence c.sendKey
    have hgo : (reprNS out s).out = out := rfl
    have hpid : (reprNS out s).protocol_id = s.protocolId := rfl
    have hsq : (reprNConn c).sequence = c.sequence := rfl
    have hsk : (reprNConn c).send_key = toNats c.sendKey := rfl
    simp only [hgo, hpid, hsq, hsk]
    simp only [reprNP] at henc
    cases hm : Netcode.Packet.encode a (.payload payload) C.NETCODE_MAX_PACKET_BYTES s.protocolId (some (c.sequence, c.sendKey)) with
    | panic m =>
      rw [hm] at henc; obtain ⟨msg, hg⟩ := henc
      rw [hg]
      simp only [Exec.callFrom_panic, Exec.bind_panic', Exec.run_panic, GenOut, Bind.bind, Res.bind]; exact ⟨_, rfl⟩
    | err e =>
      rw [hm] at henc; obtain ⟨st, hg, hst⟩ := henc
      rw [hg]
      simp only [Exec.callFrom, Res.bind, Exec.bind, Exec.run, GenOut, Bind.bind]
      exact ⟨st, hst, rfl⟩
    | ok bytes =>
      rw [hm] at henc; obtain ⟨buf', hg, htake, hblen⟩ := henc
      rw [hg]
      have hupd : ∀ o, ({ reprNS out s with out := o } : SNetcodeServer) = reprNS o s := fun _ => rfl
      simp only [Exec.callFrom_ok, Exec.bind_val', hupd, hc, idx_clients hi, Option.map_some, RustSem.unwrap, hsq]
      simp only [Bind.bind, Res.bind, incU64]
      by_cases hov : c.sequence + 1 ≤ U64_MAX
      · have hov' : c.sequence + 1 < 2 ^ 64 := by simp only [U64_MAX] at hov; omega
        rw [add_val hov']
        simp only [if_pos hov, Exec.bind_val']
        have hct : ∀ o, (reprNS o s).current_time = s.currentTime := fun _ => rfl
        have hpid' : ∀ o, (reprNS o s).protocol_id = s.protocolId := fun _ => rfl
        simp only [hct, hpid']
        let c1 : Netcode.Connection := { c with sequence := c.sequence + 1 }
        let c2 : Netcode.Connection := { c with sequence := c.sequence + 1, lastPacketSendTime := s.currentTime }
        rw [Exec.bind_skip (RustSem.set _ _ _ _) _ ((s.clients.set i (some c1)).map (Option.map reprNConn)) ?h1]
        case h1 => exact set_clients hilt _ (some c1) rfl _
        have hi2 : (s.clients.set i (some c1))[i]? = some (some c1) := by simp [hilt]
        simp only [idx_clients hi2, Exec.bind_val', Option.map_some]
        rw [Exec.bind_skip (RustSem.set _ _ _ _) _ (((s.clients.set i (some c1)).set i (some c2)).map (Option.map reprNConn)) ?h2]
        case h2 => exact set_clients (by simpa using hilt) _ (some c2) rfl _
        have hi3 : ((s.clients.set i (some c1)).set i (some c2))[i]? = some (some c2) := by simp [hilt]
        simp only [idx_clients hi3, Exec.bind_val', Option.map_some, slice_of_take buf' bytes htake,
          Exec.bind_ret', Exec.run_ret, GenOut, pure]
        refine ⟨buf', hblen, ?_⟩
        simp only [List.set_set]
        rfl
      · have hov' : ¬ c.sequence + 1 < 2 ^ 64 := by simp only [U64_MAX] at hov; omega
        rw [add_panic hov']
        simp only [if_neg hov, Exec.bind_panic', Exec.run_panic, GenOut]; exact ⟨_, rfl⟩

/-! ### `disconnect` / `update_client` -/

/-- outcomes of `update_client` / `disconnect` (no `Err`): the server with SOME scratch buffer of the same length and the
    `ServerResult` (whose borrowed payload `&self.out[..len]` is the encoded packet, by value) -/
def NsOut {ε : Type} (m : Res Empty (Netcode.ServerResult × Netcode.NetcodeServer)) (g : Res ε (SNetcodeServer × SServerResult)) : Prop :=
  match m with
  | .ok (r, s') => ∃ out', out'.length = C.NETCODE_MAX_PACKET_BYTES ∧ g = .ok (reprNS out' s', reprNSR r)
  | .err e => nomatch e
  | .panic _ => ∃ msg, g = .panic msg

theorem getD_of {α : Type} {l : List (Option α)} {i : Nat} {oc : Option α} (h : l[i]? = some oc) : l.getD i none = oc := by
  simp [List.getD, h]

theorem set_self {α : Type} : ∀ {l : List α} {i : Nat} {x : α}, l[i]? = some x → l.set i x = l := by
  intro l
  induction l with
  | nil => intro i x h; rfl
  | cons y r ih =>
    intro i x h
    cases i with
    | zero => simp at h; simp [h]
    | succ j => simp at h; simp [ih h]

theorem reprCS_disc (x : Netcode.ConnectionState) : (reprCS x = .Disconnected) = (x = .disconnected) := by
  cases x <;> simp [reprCS]

theorem ns_disconnect_eq {ε : Type} (a : AEAD) (hl : a.Laws) (out : List Nat) (hout : out.length = C.NETCODE_MAX_PACKET_BYTES)
    (s : Netcode.NetcodeServer) (id : Nat) :
    NsOut (s.disconnect a id) (@Src.renetcode.server.NetcodeServer.disconnect (aeadOf a) ε (reprNS out s) id) := by
  unfold Src.renetcode.server.NetcodeServer.disconnect Netcode.NetcodeServer.disconnect
  have hc : ∀ o, (reprNS o s).clients = s.clients.map (Option.map reprNConn) := fun _ => rfl
  simp only [hc, find_client_slot_by_id_eq, Exec.call_ok, Exec.bind_eq, Exec.pure_eq, Exec.bind_val']
  cases hf : findClientSlotById s.clients id with
  | none => simp only [Exec.bind_val', Exec.run_val, NsOut, reprNSR]; exact ⟨out, hout, rfl⟩
  | some i =>
    obtain ⟨c, hi, _⟩ := find_slot_some hf
    have hilt := lt_of_getElem? hi
    simp only []
    rw [getD_of hi]
    simp only []
    simp only [idx_clients hi, Exec.bind_val', Option.map_some]
    rw [Exec.bind_skip (RustSem.set _ _ _ _) _ ((s.clients.set i none).map (Option.map reprNConn)) ?h1]
    case h1 => exact set_clients hilt _ none rfl _
    have henc := enc_out a hl .disconnect out hout s.protocolId c.sequence c.sendKey
    simp only [reprNP] at henc
    have hgo : (reprNS out s).out = out := rfl
    have hpid : (reprNS out s).protocol_id = s.protocolId := rfl
    have hsq : (reprNConn c).sequence = c.sequence := rfl
    have hsk : (reprNConn c).send_key = toNats c.sendKey := rfl
    have haddr : (reprNConn c).addr = reprAddr c.addr := rfl
    simp only [RustSem.unwrap, Exec.bind_val', hgo, hpid, hsq, hsk, haddr]
    cases hm : Netcode.Packet.encode a .disconnect C.NETCODE_MAX_PACKET_BYTES s.protocolId (some (c.sequence, c.sendKey)) with
    | panic m =>
      rw [hm] at henc; obtain ⟨msg, hg⟩ := henc
      rw [hg]
      simp only [Exec.attempt, Exec.bind_panic', Exec.run_panic, NsOut]; exact ⟨_, rfl⟩
    | err e =>
      rw [hm] at henc; obtain ⟨st, hg, hst⟩ := henc
      rw [hg]
      simp only [Exec.attempt, Exec.bind_val', Exec.bind_ret', Exec.run_ret, NsOut]
      exact ⟨st, hst, rfl⟩
    | ok bytes =>
      rw [hm] at henc; obtain ⟨buf', hg, htake, hblen⟩ := henc
      rw [hg]
      simp only [Exec.attempt, Exec.bind_val', slice_of_take buf' bytes htake, Exec.bind_ret', Exec.run_ret, NsOut]
      exact ⟨buf', hblen, rfl⟩

theorem attempt_ok' {ε ρ ε' σ α : Type} (st : σ) (x : α) :
    (Exec.attempt (.ok (st, x) : Res (ε' × σ) (σ × α)) : Exec ε ρ _) = .val (st, .ok x) := rfl
theorem attempt_err' {ε ρ ε' σ α : Type} (e : ε') (st : σ) :
    (Exec.attempt (.err (e, st) : Res (ε' × σ) (σ × α)) : Exec ε ρ _) = .val (st, .error e) := rfl
theorem attempt_panic' {ε ρ ε' σ α : Type} (m : String) :
    (Exec.attempt (.panic m : Res (ε' × σ) (σ × α)) : Exec ε ρ _) = .panic m := rfl

theorem cast_i32_pos {x : Int} (h0 : 0 < x) (h1 : x < 2 ^ 31) : RustSem.cast_i32 64 x = x.toNat := by
  unfold RustSem.cast_i32
  rw [Int.emod_eq_of_lt (by omega) (by omega)]

set_option maxRecDepth 10000 in
/-- `update_client`.  Hypothesis: the `timeout_seconds: i32` of the connected clients are below `2^31` (the model keeps an
    unbounded `Int`). -/
theorem ns_update_client_eq {ε : Type} (a : AEAD) (hl : a.Laws) (out : List Nat) (hout : out.length = C.NETCODE_MAX_PACKET_BYTES)
    (s : Netcode.NetcodeServer) (hto : ∀ c, some c ∈ s.clients → c.timeoutSeconds < 2 ^ 31) (id : Nat) :
    NsOut (s.updateClient a id) (@Src.renetcode.server.NetcodeServer.update_client (aeadOf a) ε (reprNS out s) id) := by
  unfold Src.renetcode.server.NetcodeServer.update_client Netcode.NetcodeServer.updateClient
  -- the big literals are abstracted first (the kernel must not meet `x + 250000000` / `x * 1000000000` in a defeq check)
  have hrate : Src.renetcode.NETCODE_SEND_RATE = C.NETCODE_SEND_RATE_NS := rfl
  have hfs : RustSem.Duration.from_secs = fromSecs := by
    funext n; unfold RustSem.Duration.from_secs fromSecs NS_PER_SEC; rfl
  rw [hrate, hfs]
  generalize C.NETCODE_SEND_RATE_NS = rate
  generalize fromSecs = fs
  have hc : ∀ o (s0 : Netcode.NetcodeServer), (reprNS o s0).clients = s0.clients.map (Option.map reprNConn) := fun _ _ => rfl
  simp only [hc, find_client_slot_by_id_eq, Exec.call_ok, Exec.bind_eq, Exec.pure_eq, Exec.bind_val']
  cases hf : findClientSlotById s.clients id with
  | none => simp only [Exec.bind_ret', Exec.run_ret, NsOut, reprNSR]; exact ⟨out, hout, rfl⟩
  | some i =>
    obtain ⟨c, hi, _⟩ := find_slot_some hf
    have hilt := lt_of_getElem? hi
    have hc31 : c.timeoutSeconds < 2 ^ 31 := hto c (List.mem_of_getElem? hi)
    simp only []
    rw [getD_of hi]
    have hct : ∀ o (s0 : Netcode.NetcodeServer), (reprNS o s0).current_time = s0.currentTime := fun _ _ => rfl
    have hts : ∀ c0 : Netcode.Connection, (reprNConn c0).timeout_seconds = c0.timeoutSeconds := fun _ => rfl
    have hlr : ∀ c0 : Netcode.Connection, (reprNConn c0).last_packet_received_time = c0.lastPacketReceivedTime := fun _ => rfl
    rw [Exec.bind_val']
    simp only [idx_clients hi]
    rw [Exec.bind_val']
    simp only [Option.map_some, Option.isSome_some, if_true]
    rw [Exec.bind_val']
    simp only [RustSem.unwrap]
    rw [Exec.bind_val']
    simp only [hts, hlr, hct]
    -- the time-out test
    generalize hEg : (ite (decide (c.timeoutSeconds > 0) = true) _ (Exec.val false) : Exec ε (SNetcodeServer × SServerResult) Bool) = Eg
    generalize hEm : (ite (c.timeoutSeconds > 0) _ (pure false) : Res Empty Bool) = Em
    have hrel : (∃ to, Eg = .val to ∧ Em = .ok to) ∨ (∃ m1 m2, Eg = .panic m1 ∧ Em = .panic m2) := by
      subst hEg hEm
      by_cases hpos : c.timeoutSeconds > 0
      · simp only [hpos, decide_true, if_true]
        rw [Exec.bind_val']
        simp only [RustSem.unwrap]
        rw [Exec.bind_val', Exec.bind_val']
        simp only [RustSem.unwrap]
        rw [Exec.bind_val']
        rw [hts, hlr, cast_i32_pos hpos hc31]
        unfold RustSem.Duration.add durAdd
        have hmax : RustSem.Duration.MAX = DURATION_MAX := by decide
        rw [hmax]
        by_cases hov : c.lastPacketReceivedTime + fs c.timeoutSeconds.toNat ≤ DURATION_MAX
        · left; simp only [hov, if_true]; rw [Exec.bind_val']; exact ⟨_, rfl, rfl⟩
        · right; simp only [hov, if_false]; rw [Exec.bind_panic']; exact ⟨_, _, rfl, rfl⟩
      · left; simp only [hpos, decide_false, if_false, Bool.false_eq_true]; exact ⟨false, rfl, rfl⟩
    rcases hrel with ⟨to, hg, hm⟩ | ⟨m1, m2, hg, hm⟩
    case inr =>
      rw [hg, hm, Res.bind_panic, Exec.bind_panic']
      simp only [Exec.run_panic, NsOut]; exact ⟨_, rfl⟩
    rw [hg, hm, Res.bind_ok, Exec.bind_val']
    -- the connection after the time-out step
    generalize hc' : (if to = true then ({ c with state := .disconnected } : Netcode.Connection) else c) = c'
    rw [Exec.bind_skip (ite (to = true) _ _) _ (reprNS out { s with clients := s.clients.set i (some c') }) ?hstep]
    case hstep =>
      subst hc'
      cases to with
      | false =>
        simp only [Bool.false_eq_true, if_false]
        rw [set_self hi]
      | true =>
        simp only [if_true, idx_clients hi, Exec.bind_val', Option.map_some]
        rw [Exec.bind_skip (RustSem.set _ _ _ _) _
          ((s.clients.set i (some ({ c with state := .disconnected } : Netcode.Connection))).map (Option.map reprNConn)) ?h1]
        case h1 => exact set_clients hilt _ (some { c with state := .disconnected }) rfl _
        rfl
    have hi' : (s.clients.set i (some c'))[i]? = some (some c') := by simp [hilt]
    have hst : ∀ c0 : Netcode.Connection, (reprNConn c0).state = reprCS c0.state := fun _ => rfl
    have hsq : ∀ c0 : Netcode.Connection, (reprNConn c0).sequence = c0.sequence := fun _ => rfl
    have hsk : ∀ c0 : Netcode.Connection, (reprNConn c0).send_key = toNats c0.sendKey := fun _ => rfl
    have haddr : ∀ c0 : Netcode.Connection, (reprNConn c0).addr = reprAddr c0.addr := fun _ => rfl
    have hls : ∀ c0 : Netcode.Connection, (reprNConn c0).last_packet_send_time = c0.lastPacketSendTime := fun _ => rfl
    have hgo : ∀ o (s0 : Netcode.NetcodeServer), (reprNS o s0).out = o := fun _ _ => rfl
    have hpid : ∀ o (s0 : Netcode.NetcodeServer), (reprNS o s0).protocol_id = s0.protocolId := fun _ _ => rfl
    have hmc : ∀ o (s0 : Netcode.NetcodeServer), (reprNS o s0).max_clients = s0.maxClients := fun _ _ => rfl
    simp only [hc, idx_clients hi', Exec.bind_val', Option.map_some, hst, reprCS_disc, hsq, hsk, haddr, hls, hct]
    by_cases hd : c'.state = .disconnected
    · -- the client is dropped
      simp only [hd, decide_true, if_true]
      rw [Exec.bind_skip (RustSem.set _ _ _ _) _ (((s.clients.set i (some c')).set i none).map (Option.map reprNConn)) ?h2]
      case h2 => exact set_clients (by simpa using hilt) _ none rfl _
      have henc := enc_out a hl .disconnect out hout s.protocolId c'.sequence c'.sendKey
      simp only [reprNP] at henc
      simp only [hgo, hpid]
      cases hme : Netcode.Packet.encode a .disconnect C.NETCODE_MAX_PACKET_BYTES s.protocolId (some (c'.sequence, c'.sendKey)) with
      | panic m =>
        rw [hme] at henc; obtain ⟨msg, hge⟩ := henc
        rw [hge]
        simp only [Exec.attempt, Exec.bind_panic', Exec.run_panic, NsOut]; exact ⟨_, rfl⟩
      | err e =>
        rw [hme] at henc; obtain ⟨st, hge, hst'⟩ := henc
        rw [hge]
        simp only [Exec.attempt, Exec.bind_val', Exec.bind_ret', Exec.run_ret, NsOut, Res.pure_eq, List.set_set]
        exact ⟨st, hst', rfl⟩
      | ok bytes =>
        rw [hme] at henc; obtain ⟨buf', hge, htake, hblen⟩ := henc
        rw [hge]
        simp only [Exec.attempt, Exec.bind_val', slice_of_take buf' bytes htake, Exec.bind_ret', Exec.run_ret, NsOut, Res.pure_eq,
          List.set_set]
        exact ⟨buf', hblen, rfl⟩
    · -- keep-alive
      have hto' : to = false := by
        cases to with
        | false => rfl
        | true => subst hc'; exact absurd rfl hd
      subst hto'
      simp only [Bool.false_eq_true, if_false] at hc'
      subst hc'
      have hs1 : ({ s with clients := s.clients.set i (some c) } : Netcode.NetcodeServer) = s := by rw [set_self hi]
      rw [hs1]
      -- (from here on by `rw`: the kernel does not terminate on `dsimp`-style steps over this goal)
      simp only [hd, decide_false, if_false, Bool.false_eq_true]
      rw [Exec.bind_val']
      simp only [hc, idx_clients hi, Option.map_some]
      rw [Exec.bind_val', Exec.bind_val', hls]
      unfold RustSem.Duration.add durAdd
      have hmax : RustSem.Duration.MAX = DURATION_MAX := by decide
      rw [hmax]
      by_cases hov : c.lastPacketSendTime + rate ≤ DURATION_MAX
      case neg =>
        simp only [hov, if_false]
        rw [Exec.bind_panic', Res.bind_panic]
        simp only [Exec.run_panic, NsOut]; exact ⟨_, rfl⟩
      simp only [hov, if_true]
      rw [Exec.bind_val', Res.bind_ok, hct]
      by_cases hdue : c.lastPacketSendTime + rate ≤ s.currentTime
      case neg =>
        simp only [hdue, decide_false, if_false, Bool.false_eq_true]
        rw [Exec.bind_val']
        simp only [Exec.run_val, NsOut, Res.pure_eq, reprNSR]
        exact ⟨out, hout, rfl⟩
      simp only [hdue, decide_true, if_true]
      rw [Exec.bind_val', Exec.bind_val', Exec.bind_val', Exec.bind_val', hsq, hsk, hgo, hpid, hmc]
      have henc := enc_out a hl (.keepAlive (i % 2 ^ 32) (s.maxClients % 2 ^ 32)) out hout s.protocolId c.sequence c.sendKey
      have hka : reprNP (.keepAlive (i % 2 ^ 32) (s.maxClients % 2 ^ 32))
          = Src.renetcode.packet.Packet.KeepAlive (RustSem.cast 32 i) (RustSem.cast 32 s.maxClients) := rfl
      rw [hka] at henc
      cases hme : Netcode.Packet.encode a (.keepAlive (i % 2 ^ 32) (s.maxClients % 2 ^ 32)) C.NETCODE_MAX_PACKET_BYTES
          s.protocolId (some (c.sequence, c.sendKey)) with
      | panic m =>
        rw [hme] at henc; obtain ⟨msg, hge⟩ := henc
        rw [hge, attempt_panic', Exec.bind_panic', Exec.bind_panic']
        simp only [Exec.run_panic, NsOut]; exact ⟨_, rfl⟩
      | err e =>
        rw [hme] at henc; obtain ⟨st, hge, hst'⟩ := henc
        rw [hge, attempt_err', Exec.bind_val', Exec.bind_ret', Exec.bind_ret']
        simp only [Exec.run_ret, NsOut, Res.pure_eq, reprNSR]
        exact ⟨st, hst', rfl⟩
      | ok bytes =>
        rw [hme] at henc; obtain ⟨buf', hge, htake, hblen⟩ := henc
        rw [hge, attempt_ok', Exec.bind_val', Exec.bind_val']
        have hcb : ({ reprNS out s with out := buf' } : SNetcodeServer).clients = s.clients.map (Option.map reprNConn) := rfl
        simp only [hcb, idx_clients hi, Option.map_some]
        rw [Exec.bind_val', Exec.bind_val', hsq]
        unfold incU64
        by_cases hsov : c.sequence + 1 ≤ U64_MAX
        · have hsov' : c.sequence + 1 < 2 ^ 64 := by simp only [U64_MAX] at hsov; omega
          rw [add_val hsov', Exec.bind_val', Exec.bind_val', Exec.bind_val']
          simp only [if_pos hsov]
          rw [Res.bind_ok]
          let c1 : Netcode.Connection := { c with sequence := c.sequence + 1 }
          let c2 : Netcode.Connection := { c with sequence := c.sequence + 1, lastPacketSendTime := s.currentTime }
          rw [Exec.bind_skip (RustSem.set _ _ _ _) _ ((s.clients.set i (some c1)).map (Option.map reprNConn)) ?h3]
          case h3 => exact set_clients hilt _ (some c1) rfl _
          have hi2 : (s.clients.set i (some c1))[i]? = some (some c1) := by simp [hilt]
          simp only [idx_clients hi2, Option.map_some]
          rw [Exec.bind_val', Exec.bind_val']
          rw [Exec.bind_skip (RustSem.set _ _ _ _) _ (((s.clients.set i (some c1)).set i (some c2)).map (Option.map reprNConn)) ?h4]
          case h4 => exact set_clients (by simpa using hilt) _ (some c2) rfl _
          have hi3 : ((s.clients.set i (some c1)).set i (some c2))[i]? = some (some c2) := by simp [hilt]
          simp only [idx_clients hi3, Option.map_some]
          rw [Exec.bind_val', Exec.bind_val']
          rw [Exec.bind_skip (RustSem.slice _ _ _ _) _ (toNats bytes) (slice_of_take buf' bytes htake _)]
          rw [Exec.bind_ret']
          simp only [Exec.run_ret, NsOut, Res.pure_eq]
          refine ⟨buf', hblen, ?_⟩
          simp only [List.set_set]
          rfl
        · have hsov' : ¬ c.sequence + 1 < 2 ^ 64 := by simp only [U64_MAX] at hsov; omega
          rw [add_panic hsov', Exec.bind_panic']
          simp only [if_neg hsov]
          rw [Res.bind_panic]
          simp only [Exec.run_panic, NsOut]; exact ⟨_, rfl⟩

end NcServerSend
end RenetVerif.SrcEquiv
