/-
  Source tie, group NcCrypto: the four functions of `renetcode/src/crypto.rs`, TRANSLATED from the Rust text
  (`Generated/Src/NcCrypto.lean`, over the RustCrypto primitives of `Base/RustSemCrypto.lean`), equal the hand-written
  `RustSem.encrypt_in_place` / `dencrypted_in_place` / `encrypt_in_place_xnonce` / `dencrypted_in_place_xnonce` of
  `Base/RustSem.lean` that every other generated group calls.  Helper lemmas; headline statements in
  `Props/SrcTieNcCrypto.lean`.
-/
import RenetVerif.Generated.Src.NcCrypto
set_option linter.unusedSimpArgs false
set_option linter.unusedVariables false
namespace RenetVerif.SrcEquiv.NcCrypto
open RenetVerif RenetVerif.RustSem

/-! ## step lemmas for the primitives used by the generated code -/
section prims
variable {ε ρ α β : Type}

theorem leBytes_length (x n : Nat) : (RustSem.leBytes x n).length = n := by
  induction n generalizing x with
  | zero => rfl
  | succ k ih => simp [RustSem.leBytes, ih]

theorem to_le_bytes_64_length (x : Nat) : (RustSem.to_le_bytes 64 x).length = 8 := by
  simp [RustSem.to_le_bytes, leBytes_length]

theorem bindv (a : α) (f : α → Exec ε ρ β) : (Exec.val a >>= f) = f a := rfl
theorem bindp (s : String) (f : α → Exec ε ρ β) : ((Exec.panic s : Exec ε ρ α) >>= f) = .panic s := rfl
theorem binde (e : ε) (f : α → Exec ε ρ β) : ((Exec.err e : Exec ε ρ α) >>= f) = .err e := rfl
theorem purev (a : α) : (pure a : Exec ε ρ α) = .val a := rfl

theorem sub_val {w a b : Nat} {s : String} (h : b ≤ a) : (RustSem.sub w a b s : Exec ε ρ Nat) = .val (a - b) := by
  simp [RustSem.sub, h]
theorem sub_panic {w a b : Nat} {s : String} (h : ¬ b ≤ a) : (RustSem.sub w a b s : Exec ε ρ Nat) = .panic s := by
  simp [RustSem.sub, h]
theorem slice_val {l : List α} {a b : Nat} {s : String} (h : a ≤ b ∧ b ≤ l.length) :
    (RustSem.slice l a b s : Exec ε ρ (List α)) = .val ((l.take b).drop a) := by
  simp [RustSem.slice, h]
theorem splice_val {l v : List α} {a b : Nat} {s : String} (h : a ≤ b ∧ b ≤ l.length) :
    (RustSem.splice l a b v s : Exec ε ρ (List α)) = .val (l.take a ++ v ++ l.drop b) := by
  simp [RustSem.splice, h]
theorem copy_val {l src : List α} {a b : Nat} {s : String} (h : a ≤ b ∧ b ≤ l.length ∧ src.length = b - a) :
    (RustSem.copy_from_slice l a b src s : Exec ε ρ (List α)) = .val (l.take a ++ src ++ l.drop b) := by
  simp [RustSem.copy_from_slice, h]
theorem copy_panic {l src : List α} {a b : Nat} {s : String} (h : ¬ (a ≤ b ∧ b ≤ l.length ∧ src.length = b - a)) :
    (RustSem.copy_from_slice l a b src s : Exec ε ρ (List α)) = .panic s := by
  simp only [RustSem.copy_from_slice, if_neg h]

theorem from_slice_ok {n : Nat} {s : List Nat} {site : String} (h : s.length = n) :
    (RustSem.GenericArray.from_slice n s site : Res ε (List Nat)) = .ok s := by
  simp [RustSem.GenericArray.from_slice, h]
theorem from_slice_panic {n : Nat} {s : List Nat} {site : String} (h : s.length ≠ n) :
    (RustSem.GenericArray.from_slice n s site : Res ε (List Nat)) = .panic site := by
  simp [RustSem.GenericArray.from_slice, h]
end prims

/-! ## the nonce built by the generated code -/

/-- `let mut nonce = [0; 12]; nonce[4..12].copy_from_slice(&sequence.to_le_bytes());` never panics and yields
    `RustSem.crypto_nonce sequence` = `[0,0,0,0] ++ LE64(sequence)` -/
theorem nonce_build {ε ρ : Type} (sequence : Nat) (site : String) :
    (RustSem.copy_from_slice (RustSem.repeat_ 0 12) 4 12 (RustSem.to_le_bytes 64 sequence) site : Exec ε ρ (List Nat)) =
      .val (RustSem.crypto_nonce sequence) := by
  rw [copy_val (by simp [RustSem.repeat_, to_le_bytes_64_length])]
  simp [RustSem.repeat_, RustSem.crypto_nonce, List.replicate]

theorem crypto_nonce_length (sequence : Nat) : (RustSem.crypto_nonce sequence).length = 12 := by
  simp [RustSem.crypto_nonce, to_le_bytes_64_length]

theorem leBytes_inj {k : Nat} : ∀ {x y : Nat}, x < 256 ^ k → y < 256 ^ k → RustSem.leBytes x k = RustSem.leBytes y k → x = y := by
  induction k with
  | zero => intro x y hx hy _; simp at hx hy; omega
  | succ k ih =>
    intro x y hx hy h
    simp only [RustSem.leBytes, List.cons.injEq] at h
    have hq : x / 256 = y / 256 :=
      ih (by rw [Nat.pow_succ] at hx; omega) (by rw [Nat.pow_succ] at hy; omega) h.2
    have := Nat.div_add_mod x 256
    have := Nat.div_add_mod y 256
    omega

/-- the nonce is injective in the sequence number (a `u64`) -/
theorem crypto_nonce_inj {s1 s2 : Nat} (h1 : s1 < 2 ^ 64) (h2 : s2 < 2 ^ 64)
    (h : RustSem.crypto_nonce s1 = RustSem.crypto_nonce s2) : s1 = s2 := by
  simp only [RustSem.crypto_nonce, RustSem.to_le_bytes, List.append_cancel_left_eq] at h
  exact leBytes_inj (k := 8) (by simpa using h1) (by simpa using h2) h

/-! ## the four functions -/
section fns
variable [a : RustSem.Aead]

omit a in
theorem mac_bytes : Src.renetcode.NETCODE_MAC_BYTES = 16 := rfl

/-- `encrypt_in_place`, buffer shorter than the MAC: the subtraction underflows (same site as the hand-written version) -/
theorem encrypt_in_place_short (buffer : List Nat) (sequence : Nat) (key aad : List Nat) (h : buffer.length < 16) :
    Src.renetcode.crypto.encrypt_in_place buffer sequence key aad = RustSem.encrypt_in_place buffer sequence key aad := by
  simp only [Src.renetcode.crypto.encrypt_in_place, RustSem.encrypt_in_place, if_pos h, bind_pure_comp, nonce_build, bindv,
    map_pure, RustSem.Nonce.from, from_slice_ok (crypto_nonce_length sequence), Exec.call, RustSem.len, mac_bytes,
    sub_panic (show ¬ 16 ≤ buffer.length by omega), bindp, Exec.run]

omit a in
/-- the statements after the detached encryption (`S` = what `seal` returned, of the length of the buffer): the
    ciphertext goes to `buffer[..len-16]`, the tag to `buffer[len-16..]`; the buffer is then exactly `S` -/
theorem encrypt_tail {ε : Type} (buffer S : List Nat) (s1 s2 s3 : String) (h16 : 16 ≤ buffer.length)
    (hs : S.length = buffer.length) :
    ((do
        let t10 ← RustSem.splice buffer 0 (buffer.length - 16) (List.take (buffer.length - 16) S) s1
        let t11 ← RustSem.slice t10 (buffer.length - 16) t10.length s1
        let t12 ← RustSem.copy_from_slice t11 0 t11.length (List.drop (buffer.length - 16) S) s2
        let t13 ← RustSem.splice t10 (buffer.length - 16) t10.length t12 s3
        pure (t13, ())) : Exec ε (List Nat × Unit) (List Nat × Unit)).run = Res.ok (S, ()) := by
  have hl : (List.take 0 buffer ++ List.take (buffer.length - 16) S ++ List.drop (buffer.length - 16) buffer).length
      = buffer.length := by
    simp only [List.length_append, List.length_take, List.length_drop]; omega
  rw [splice_val (by omega), bindv, hl, slice_val (by omega), bindv]
  have hd : (List.drop (buffer.length - 16)
      (List.take buffer.length (List.take 0 buffer ++ List.take (buffer.length - 16) S ++ List.drop (buffer.length - 16) buffer))).length = 16 := by
    simp only [List.length_append, List.length_take, List.length_drop]; omega
  rw [hd, copy_val (by simp only [List.length_drop, hd]; omega), bindv, splice_val (by omega), bindv, purev, Exec.run]
  congr 2
  simp [List.take_append, List.length_take, hs, hd]
  have e1 : List.drop 16 (List.take (buffer.length - (buffer.length - 16)) (List.drop (buffer.length - 16) buffer)) = [] :=
    List.drop_eq_nil_of_le (by simp only [List.length_take, List.length_drop]; omega)
  have e2 : List.drop buffer.length (List.take (buffer.length - 16) S ++ List.drop (buffer.length - 16) buffer) = [] :=
    List.drop_eq_nil_of_le (by simp only [List.length_append, List.length_take, List.length_drop]; omega)
  rw [e1, e2]
  simp

/-- `encrypt_in_place`, main case -/
theorem encrypt_in_place_long (buffer : List Nat) (sequence : Nat) (key aad : List Nat) (h : ¬ buffer.length < 16)
    (hk : key.length = 32)
    (hs : (a.seal key (RustSem.crypto_nonce sequence) aad (buffer.take (buffer.length - 16))).length = buffer.length) :
    Src.renetcode.crypto.encrypt_in_place buffer sequence key aad = RustSem.encrypt_in_place buffer sequence key aad := by
  have h16 : 16 ≤ buffer.length := by omega
  generalize hS : a.seal key (RustSem.crypto_nonce sequence) aad (buffer.take (buffer.length - 16)) = S at hs
  have htk : (List.take (buffer.length - 16) buffer).length = buffer.length - 16 := by simp
  simp only [Src.renetcode.crypto.encrypt_in_place, RustSem.encrypt_in_place, if_neg h, bind_pure_comp, nonce_build, bindv,
    map_pure, RustSem.Nonce.from, from_slice_ok (crypto_nonce_length sequence), Exec.call, RustSem.len, mac_bytes,
    sub_val h16, RustSem.Key.from_slice, from_slice_ok hk, RustSem.ChaCha20Poly1305.new,
    slice_val (show 0 ≤ buffer.length - 16 ∧ buffer.length - 16 ≤ buffer.length by omega), List.drop_zero,
    RustSem.ChaCha20Poly1305.encrypt_in_place_detached, Exec.callFrom, htk, hS]
  exact encrypt_tail buffer S _ _ _ h16 hs

/-- `encrypt_in_place_xnonce`, buffer shorter than the MAC -/
theorem encrypt_in_place_xnonce_short (buffer xnonce key aad : List Nat) (h : buffer.length < 16) :
    Src.renetcode.crypto.encrypt_in_place_xnonce buffer xnonce key aad = RustSem.encrypt_in_place_xnonce buffer xnonce key aad := by
  simp only [Src.renetcode.crypto.encrypt_in_place_xnonce, RustSem.encrypt_in_place_xnonce, if_pos h, bind_pure_comp,
    RustSem.len, mac_bytes, sub_panic (show ¬ 16 ≤ buffer.length by omega), bindp, Exec.run]

/-- `encrypt_in_place_xnonce`, main case -/
theorem encrypt_in_place_xnonce_long (buffer xnonce key aad : List Nat) (h : ¬ buffer.length < 16)
    (hx : xnonce.length = 24) (hk : key.length = 32)
    (hs : (a.xseal key xnonce aad (buffer.take (buffer.length - 16))).length = buffer.length) :
    Src.renetcode.crypto.encrypt_in_place_xnonce buffer xnonce key aad = RustSem.encrypt_in_place_xnonce buffer xnonce key aad := by
  have h16 : 16 ≤ buffer.length := by omega
  generalize hS : a.xseal key xnonce aad (buffer.take (buffer.length - 16)) = S at hs
  have htk : (List.take (buffer.length - 16) buffer).length = buffer.length - 16 := by simp
  simp only [Src.renetcode.crypto.encrypt_in_place_xnonce, RustSem.encrypt_in_place_xnonce, if_neg h, bind_pure_comp, bindv,
    map_pure, RustSem.XNonce.from_slice, from_slice_ok hx, Exec.call, RustSem.len, mac_bytes,
    sub_val h16, RustSem.Key.from_slice, from_slice_ok hk, RustSem.XChaCha20Poly1305.new,
    slice_val (show 0 ≤ buffer.length - 16 ∧ buffer.length - 16 ≤ buffer.length by omega), List.drop_zero,
    RustSem.XChaCha20Poly1305.encrypt_in_place_detached, Exec.callFrom, htk, hS]
  exact encrypt_tail buffer S _ _ _ h16 hs

/-! ### decryption -/

omit a in
/-- the tag half `buffer[len-16..]` of the split has 16 bytes -/
theorem tag_half_length (buffer : List Nat) (h16 : 16 ≤ buffer.length) :
    (List.drop (buffer.length - 16) (List.take buffer.length buffer)).length = 16 := by
  simp only [List.length_drop, List.length_take]; omega

omit a in
theorem halves (buffer : List Nat) :
    List.take (buffer.length - 16) buffer ++ List.drop (buffer.length - 16) (List.take buffer.length buffer) = buffer := by
  simp

/-- `dencrypted_in_place`, buffer shorter than the MAC -/
theorem dencrypted_in_place_short (buffer : List Nat) (sequence : Nat) (key aad : List Nat) (h : buffer.length < 16) :
    Src.renetcode.crypto.dencrypted_in_place buffer sequence key aad = RustSem.dencrypted_in_place buffer sequence key aad := by
  simp only [Src.renetcode.crypto.dencrypted_in_place, RustSem.dencrypted_in_place, if_pos h, bind_pure_comp, nonce_build, bindv,
    map_pure, RustSem.Nonce.from, from_slice_ok (crypto_nonce_length sequence), Exec.call, RustSem.len, mac_bytes,
    sub_panic (show ¬ 16 ≤ buffer.length by omega), bindp, Exec.run]

/-- `dencrypted_in_place`, main case -/
theorem dencrypted_in_place_long (buffer : List Nat) (sequence : Nat) (key aad : List Nat) (h : ¬ buffer.length < 16)
    (hk : key.length = 32) :
    Src.renetcode.crypto.dencrypted_in_place buffer sequence key aad = RustSem.dencrypted_in_place buffer sequence key aad := by
  have h16 : 16 ≤ buffer.length := by omega
  simp only [Src.renetcode.crypto.dencrypted_in_place, RustSem.dencrypted_in_place, if_neg h, bind_pure_comp, nonce_build, bindv,
    map_pure, RustSem.Nonce.from, from_slice_ok (crypto_nonce_length sequence), Exec.call, RustSem.len, mac_bytes,
    sub_val h16, RustSem.Key.from_slice, from_slice_ok hk, RustSem.ChaCha20Poly1305.new,
    slice_val (show 0 ≤ buffer.length - 16 ∧ buffer.length - 16 ≤ buffer.length by omega),
    slice_val (show buffer.length - 16 ≤ buffer.length ∧ buffer.length ≤ buffer.length by omega), List.drop_zero,
    RustSem.Tag.from_slice, from_slice_ok (tag_half_length buffer h16),
    RustSem.ChaCha20Poly1305.decrypt_in_place_detached, halves]
  cases a.open key (RustSem.crypto_nonce sequence) aad buffer with
  | none => simp [Exec.callFrom, bindv, binde, Exec.run]
  | some p =>
    simp only [Exec.callFrom, bindv, splice_val (show 0 ≤ buffer.length - 16 ∧ buffer.length - 16 ≤ buffer.length by omega),
      purev, Exec.run]
    simp

/-- `dencrypted_in_place_xnonce`, buffer shorter than the MAC -/
theorem dencrypted_in_place_xnonce_short (buffer xnonce key aad : List Nat) (hx : xnonce.length = 24) (h : buffer.length < 16) :
    Src.renetcode.crypto.dencrypted_in_place_xnonce buffer xnonce key aad = RustSem.dencrypted_in_place_xnonce buffer xnonce key aad := by
  simp only [Src.renetcode.crypto.dencrypted_in_place_xnonce, RustSem.dencrypted_in_place_xnonce, if_pos h, bind_pure_comp,
    RustSem.XNonce.from_slice, from_slice_ok hx, Exec.call, bindv,
    RustSem.len, mac_bytes, sub_panic (show ¬ 16 ≤ buffer.length by omega), bindp, Exec.run]

/-- `dencrypted_in_place_xnonce`, main case -/
theorem dencrypted_in_place_xnonce_long (buffer xnonce key aad : List Nat) (h : ¬ buffer.length < 16)
    (hx : xnonce.length = 24) (hk : key.length = 32) :
    Src.renetcode.crypto.dencrypted_in_place_xnonce buffer xnonce key aad = RustSem.dencrypted_in_place_xnonce buffer xnonce key aad := by
  have h16 : 16 ≤ buffer.length := by omega
  simp only [Src.renetcode.crypto.dencrypted_in_place_xnonce, RustSem.dencrypted_in_place_xnonce, if_neg h, bind_pure_comp, bindv,
    map_pure, RustSem.XNonce.from_slice, from_slice_ok hx, Exec.call, RustSem.len, mac_bytes,
    sub_val h16, RustSem.Key.from_slice, from_slice_ok hk, RustSem.XChaCha20Poly1305.new,
    slice_val (show 0 ≤ buffer.length - 16 ∧ buffer.length - 16 ≤ buffer.length by omega),
    slice_val (show buffer.length - 16 ≤ buffer.length ∧ buffer.length ≤ buffer.length by omega), List.drop_zero,
    RustSem.Tag.from_slice, from_slice_ok (tag_half_length buffer h16),
    RustSem.XChaCha20Poly1305.decrypt_in_place_detached, halves]
  cases a.xopen key xnonce aad buffer with
  | none => simp [Exec.callFrom, bindv, binde, Exec.run]
  | some p =>
    simp only [Exec.callFrom, bindv, splice_val (show 0 ≤ buffer.length - 16 ∧ buffer.length - 16 ≤ buffer.length by omega),
      purev, Exec.run]
    simp

/-! ### what the hypothesis `key.length = 32` (the Rust type `&[u8; 32]`) is used for -/

/-- a key of another length (impossible in Rust: the parameter type is `&[u8; 32]`) makes the generated code panic in
    `Key::from_slice`, where the hand-written version does not look at the key length -/
theorem encrypt_in_place_bad_key (buffer : List Nat) (sequence : Nat) (key aad : List Nat) (h16 : 16 ≤ buffer.length)
    (hk : key.length ≠ 32) :
    Src.renetcode.crypto.encrypt_in_place buffer sequence key aad =
      .panic "chacha20poly1305: Key::from_slice: slice length is not 32" := by
  simp only [Src.renetcode.crypto.encrypt_in_place, bind_pure_comp, nonce_build, bindv,
    map_pure, RustSem.Nonce.from, from_slice_ok (crypto_nonce_length sequence), Exec.call, RustSem.len, mac_bytes,
    sub_val h16, RustSem.Key.from_slice, from_slice_panic hk,
    slice_val (show 0 ≤ buffer.length - 16 ∧ buffer.length - 16 ≤ buffer.length by omega), bindp, Exec.run]

end fns
end RenetVerif.SrcEquiv.NcCrypto
