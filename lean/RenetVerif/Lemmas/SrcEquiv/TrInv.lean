/-
  Instances of the abstract hypotheses of the transport ties (`TrServer.lean`, `TrClient.lean`):
    * `NcInv a NS.ServerInv` — the netcode connection-table invariant of `Lemmas/NcTable.lean` / `NcTablePP.lean` implies the
      per-call hypotheses of the `NetcodeServer` ties and is kept by every operation the transport calls;
    * `NcCInv a CliInv` — the same for the netcode client, with the invariant `CliInv` defined here.
-/
import RenetVerif.Lemmas.SrcEquiv.TrServer
import RenetVerif.Lemmas.SrcEquiv.TrClient
import RenetVerif.Lemmas.NcTablePP
set_option linter.unusedSimpArgs false
set_option linter.unusedVariables false
namespace RenetVerif.SrcEquiv
open RenetVerif RenetVerif.RustSem RenetVerif.Netcode RenetVerif.Transport

/-- the connection-table invariant is an `NcInv` -/
theorem ncInv_serverInv (a : AEAD) : NcInv a NS.ServerInv where
  ent := fun h => h.entriesPos
  to := fun h c hc => by
    obtain ⟨i, hi⟩ := NS.mem_at hc
    exact (h.slotsOK i c hi).tmo
  pend := fun h p hp => by
    rw [(h.pend p hp).state]; exact fun h' => nomatch h'
  update := fun dt h hu => NS.update_inv h hu
  pp := fun addr buf h hp => NS.ppOut_inv h (NS.pp_ok h hp)
  uc := fun id h hu => NS.updateClient_inv h hu
  disc := fun id h hd => NS.disconnect_inv h hd
  gen := fun id p h hg => NS.generatePayload_inv h hg

/-- `NetcodeServer::new` establishes it -/
theorem serverInv_new {t m pid : Nat} {pa : List Addr} {sec : Bool} {k ck : Bytes} {s : Netcode.NetcodeServer}
    (h : Netcode.NetcodeServer.new t m pid pa sec k ck = .ok s) : NS.ServerInv s := (NS.new_inv h).1

/-- the netcode client: the token's time-out is an `i32`; the address index is at most 32, and below 32 while the client
    is not disconnected (a time-out moves to the next address and disconnects at the 32nd) -/
structure CliInv (c : Netcode.NetcodeClient) : Prop where
  tmo : c.connectToken.timeoutSeconds < 2 ^ 31
  idx : c.serverAddrIndex ≤ C.NETCODE_TOKEN_MAX_ADDRESSES
  live : c.isDisconnected = false → c.serverAddrIndex < C.NETCODE_TOKEN_MAX_ADDRESSES

/-- the token and the address index stay, a disconnected client stays disconnected -/
structure CliFrame (c c' : Netcode.NetcodeClient) : Prop where
  tok : c'.connectToken = c.connectToken
  idx : c'.serverAddrIndex = c.serverAddrIndex
  dead : c.isDisconnected = true → c'.isDisconnected = true

theorem CliInv.frame {c c' : Netcode.NetcodeClient} (h : CliInv c) (f : CliFrame c c') : CliInv c' := by
  refine ⟨by rw [f.tok]; exact h.tmo, by rw [f.idx]; exact h.idx, fun hl => ?_⟩
  rw [f.idx]
  apply h.live
  cases hd : c.isDisconnected with
  | false => rfl
  | true => rw [f.dead hd] at hl; cases hl

theorem cli_pp_frame {a : AEAD} {c c' : Netcode.NetcodeClient} {buf : Bytes} {p : Option Bytes}
    (h : c.processPacket a buf = .ok (p, c')) : CliFrame c c' := by
  unfold Netcode.NetcodeClient.processPacket at h
  generalize Netcode.Packet.decode a buf c.connectToken.protocolId (some c.connectToken.serverToClientKey)
    (some c.replayProtection) = dr at h
  obtain ⟨r, rp⟩ := dr
  simp only [] at h
  cases r with
  | panic m => cases h
  | err e =>
    simp only [Res.ok.injEq, Prod.mk.injEq] at h
    obtain ⟨_, rfl⟩ := h
    exact ⟨rfl, rfl, fun hd => hd⟩
  | ok v =>
    obtain ⟨sq, packet⟩ := v
    simp only [] at h
    cases packet <;> cases hst : c.state <;> simp only [hst] at h <;>
      simp only [Res.ok.injEq, Prod.mk.injEq] at h <;> obtain ⟨_, rfl⟩ := h <;>
      refine ⟨rfl, rfl, fun hd => ?_⟩ <;>
      simp_all [Netcode.NetcodeClient.isDisconnected]

theorem res_bind_eq_ok {ε α β : Type} {x : Res ε α} {f : α → Res ε β} {b : β} :
    (x >>= f) = .ok b ↔ ∃ a, x = .ok a ∧ f a = .ok b := by
  cases x with
  | ok a => simp [Res.bind_ok]
  | err e => simp [Res.bind_err]
  | panic m => simp [Res.bind_panic]

theorem CliInv.of_dead {c c' : Netcode.NetcodeClient} (h : CliInv c) (ht : c'.connectToken = c.connectToken)
    (hx : c'.serverAddrIndex ≤ C.NETCODE_TOKEN_MAX_ADDRESSES) (hd : c'.isDisconnected = true) : CliInv c' :=
  ⟨by rw [ht]; exact h.tmo, hx, fun hl => by rw [hd] at hl; cases hl⟩

theorem CliInv.live_of {c : Netcode.NetcodeClient} (h : CliInv c) (hs : c.state = .sendingConnectionRequest ∨
    c.state = .sendingConnectionResponse) : c.serverAddrIndex < C.NETCODE_TOKEN_MAX_ADDRESSES := by
  apply h.live
  unfold Netcode.NetcodeClient.isDisconnected
  rcases hs with hs | hs <;> rw [hs]

theorem CliInv.next {c c' : Netcode.NetcodeClient} (h : CliInv c) (ht : c'.connectToken = c.connectToken)
    (hx : c'.serverAddrIndex = c.serverAddrIndex + 1) (hlt : ¬ c.serverAddrIndex + 1 ≥ C.NETCODE_TOKEN_MAX_ADDRESSES) :
    CliInv c' :=
  ⟨by rw [ht]; exact h.tmo, by rw [hx]; omega, fun _ => by rw [hx]; omega⟩

/-- `update_internal_state` keeps `CliInv` (a time-out of the handshake moves to the next address, or disconnects) -/
theorem cli_uis_inv {c c' : Netcode.NetcodeClient} {dt : Nat} {e : Option NetcodeError} (hi : CliInv c)
    (h : c.updateInternalState dt = .ok (e, c')) : CliInv c' := by
  unfold Netcode.NetcodeClient.updateInternalState at h
  rw [res_bind_eq_ok] at h
  obtain ⟨now, h1, h⟩ := h
  rw [res_bind_eq_ok] at h
  obtain ⟨timedOut, h2, h⟩ := h
  simp only at h
  clear h1 h2
  cases hst : c.state with
  | disconnected r =>
    rw [hst] at h; simp only [pure, Res.ok.injEq, Prod.mk.injEq] at h
    obtain ⟨_, rfl⟩ := h
    exact hi.frame ⟨rfl, rfl, fun _ => rfl⟩
  | connected =>
    have hnd : c.isDisconnected = true → False := by
      intro hd; unfold Netcode.NetcodeClient.isDisconnected at hd; rw [hst] at hd; cases hd
    rw [hst] at h; simp only at h
    split at h
    · cases h; exact hi.frame ⟨rfl, rfl, fun _ => rfl⟩
    · cases h; exact hi.frame ⟨rfl, rfl, fun hd => (hnd hd).elim⟩
  | sendingConnectionRequest =>
    have hlt := hi.live_of (Or.inl hst)
    have hnd : c.isDisconnected = true → False := by
      intro hd; unfold Netcode.NetcodeClient.isDisconnected at hd; rw [hst] at hd; cases hd
    rw [hst] at h; simp only at h
    rw [res_bind_eq_ok] at h
    obtain ⟨elapsed, _, h⟩ := h
    split at h
    · cases h; exact hi.of_dead rfl hi.idx rfl
    · split at h
      · split at h
        · cases h; exact hi.of_dead rfl hlt rfl
        · rename_i hge
          split at h
          · cases h
          · cases h; exact hi.of_dead rfl (Nat.le_of_lt (Nat.lt_of_not_ge hge)) rfl
          · cases h; exact hi.next rfl rfl hge
      · cases h; exact hi.frame ⟨rfl, rfl, fun hd => (hnd hd).elim⟩
  | sendingConnectionResponse =>
    have hlt := hi.live_of (Or.inr hst)
    have hnd : c.isDisconnected = true → False := by
      intro hd; unfold Netcode.NetcodeClient.isDisconnected at hd; rw [hst] at hd; cases hd
    rw [hst] at h; simp only at h
    rw [res_bind_eq_ok] at h
    obtain ⟨elapsed, _, h⟩ := h
    split at h
    · cases h; exact hi.of_dead rfl hi.idx rfl
    · split at h
      · split at h
        · cases h; exact hi.of_dead rfl hlt rfl
        · rename_i hge
          split at h
          · cases h
          · cases h; exact hi.of_dead rfl (Nat.le_of_lt (Nat.lt_of_not_ge hge)) rfl
          · cases h; exact hi.next rfl rfl hge
      · cases h; exact hi.frame ⟨rfl, rfl, fun hd => (hnd hd).elim⟩

theorem cli_gen_frame {a : AEAD} {c c' : Netcode.NetcodeClient} {o : Option (Bytes × Addr)}
    (h : c.generatePacket a = .ok (o, c')) : CliFrame c c' := by
  unfold Netcode.NetcodeClient.generatePacket at h
  rw [res_bind_eq_ok] at h
  obtain ⟨tooSoon, _, h⟩ := h
  split at h
  · cases h; exact ⟨rfl, rfl, fun hd => hd⟩
  · simp only at h
    cases hst : c.state with
    | disconnected r =>
      simp only [hst, Bool.false_eq_true, if_false] at h
      simp only [pure, Res.ok.injEq, Prod.mk.injEq] at h
      obtain ⟨_, rfl⟩ := h
      exact ⟨rfl, rfl, fun hd => hd⟩
    | _ =>
      simp only [hst, if_true] at h
      have hnd : c.isDisconnected = true → False := by
        intro hd; unfold Netcode.NetcodeClient.isDisconnected at hd; rw [hst] at hd; cases hd
      split at h
      · cases h
      · simp only [pure, Res.ok.injEq, Prod.mk.injEq] at h
        obtain ⟨_, rfl⟩ := h
        exact ⟨rfl, rfl, fun hd => (hnd hd).elim⟩
      · rw [res_bind_eq_ok] at h
        obtain ⟨sq, _, h⟩ := h
        simp only [pure, Res.ok.injEq, Prod.mk.injEq] at h
        obtain ⟨_, rfl⟩ := h
        exact ⟨rfl, rfl, fun hd => (hnd hd).elim⟩

/-- `update` keeps `CliInv` -/
theorem cli_update_inv {a : AEAD} {c c' : Netcode.NetcodeClient} {dt : Nat} {r : Option (Bytes × Addr)} (hi : CliInv c)
    (h : c.update a dt = .ok (r, c')) : CliInv c' := by
  unfold Netcode.NetcodeClient.update at h
  rw [res_bind_eq_ok] at h
  obtain ⟨⟨e, c1⟩, h1, h⟩ := h
  have hi1 := cli_uis_inv hi h1
  simp only at h
  cases e with
  | some e =>
    simp only [pure, Res.ok.injEq, Prod.mk.injEq] at h
    obtain ⟨_, rfl⟩ := h
    exact hi1
  | none => exact hi1.frame (cli_gen_frame h)

theorem cli_gpp_frame {a : AEAD} {c c' : Netcode.NetcodeClient} {p : Bytes} {r : Addr × Bytes}
    (h : c.generatePayloadPacket a p = .ok (r, c')) : CliFrame c c' := by
  unfold Netcode.NetcodeClient.generatePayloadPacket at h
  split at h
  · cases h
  · split at h
    · cases h
    · rw [res_bind_eq_ok] at h
      obtain ⟨out, _, h⟩ := h
      rw [res_bind_eq_ok] at h
      obtain ⟨sq, _, h⟩ := h
      simp only [pure, Res.ok.injEq, Prod.mk.injEq] at h
      obtain ⟨_, rfl⟩ := h
      exact ⟨rfl, rfl, fun hd => hd⟩

/-- `CliInv` is an `NcCInv` -/
theorem ncCInv_cliInv (a : AEAD) : NcCInv a CliInv where
  to := fun h => h.tmo
  idx := fun h => by
    have := h.idx
    have h32 : C.NETCODE_TOKEN_MAX_ADDRESSES = 32 := rfl
    omega
  pp := fun buf h hp => h.frame (cli_pp_frame hp)
  update := fun dt h hu => cli_update_inv h hu
  gen := fun p h hg => h.frame (cli_gpp_frame hg)
  disc := fun h => h.of_dead rfl h.idx rfl

/-- `NetcodeClient::new` establishes it for a token whose time-out is an `i32` -/
theorem cliInv_new {ct : Nat} {tok : Netcode.ConnectToken} {c : Netcode.NetcodeClient} (ht : tok.timeoutSeconds < 2 ^ 31)
    (h : Netcode.NetcodeClient.new ct tok = .ok c) : CliInv c := by
  unfold Netcode.NetcodeClient.new at h
  split at h
  · simp only [Res.ok.injEq] at h
    subst h
    exact ⟨ht, Nat.zero_le _, fun _ => (by decide : 0 < C.NETCODE_TOKEN_MAX_ADDRESSES)⟩
  · cases h

end RenetVerif.SrcEquiv
