/-
  H. unreliable SEND channel: generated `SendChannelUnreliable::{new, can_send_message, available_memory,
  send_message, get_packets_to_send}` agree with `SendUnrel` of `Renet/Channels.lean`.
  Headline statements in `Props/SrcTieSendUnrel.lean`.
-/
import RenetVerif.Generated.Src.SendUnrel
import RenetVerif.Lemmas.SrcEquiv.Prims
import RenetVerif.Lemmas.SrcEquiv.CommonRepr
import RenetVerif.Lemmas.SrcEquiv.ChanLemmas
namespace RenetVerif.SrcEquiv
open RenetVerif RenetVerif.RustSem

section SendUnrel
open Src.renet.channel.unreliable

def reprSU (s : SendUnrel) : SendChannelUnreliable := ⟨s.ch, s.queue.map toNats, s.slicedId, s.maxMem, s.mem⟩
def absSU (c : SendChannelUnreliable) : SendUnrel :=
  ⟨c.channel_id, c.unreliable_messages.map ofNats, c.sliced_message_id, c.max_memory_usage_bytes, c.memory_usage_bytes⟩

theorem absSU_reprSU (s : SendUnrel) : absSU (reprSU s) = s := by
  cases s; simp [absSU, reprSU, Function.comp_def, ofNats_toNats]

theorem reprSU_absSU (c : SendChannelUnreliable) (h : ∀ m ∈ c.unreliable_messages, BytesOk m) : reprSU (absSU c) = c := by
  cases c with
  | mk ch q sid mx mem =>
    simp only [reprSU, absSU, List.map_map]
    congr 1
    have : ∀ l : List (List Nat), (∀ m ∈ l, BytesOk m) → List.map (toNats ∘ ofNats) l = l := by
      intro l hl
      induction l with
      | nil => rfl
      | cons x r ih =>
        simp only [List.map_cons, Function.comp_apply, toNats_ofNats (hl x (by simp))]
        rw [ih (fun m hm => hl m (by simp [hm]))]
    exact this q h

/-- sum of the queued message lengths -/
def qBytes (l : List Bytes) : Nat := (l.map List.length).sum

theorem new_eq {ε : Type} (ch maxMem : Nat) :
    (SendChannelUnreliable.new ch maxMem : Res ε _) = .ok (reprSU (SendUnrel.new ch maxMem)) := rfl

theorem can_send_eq {ε : Type} (s : SendUnrel) (n : Nat) (h : n + s.mem < 2 ^ 64) :
    (SendChannelUnreliable.can_send_message (reprSU s) n : Res ε Bool) = .ok (s.canSend n) := by
  unfold SendChannelUnreliable.can_send_message
  simp only [reprSU, add_val h, Exec.bind_eq, Exec.bind_val', Exec.pure_eq, Exec.run_val, SendUnrel.canSend]
  congr

theorem available_eq {ε : Type} (s : SendUnrel) (h : s.mem ≤ s.maxMem) :
    (SendChannelUnreliable.available_memory (reprSU s) : Res ε Nat) = .ok s.available := by
  unfold SendChannelUnreliable.available_memory
  simp only [reprSU, sub_val h, Exec.run_val, SendUnrel.available]

theorem send_message_eq {ε : Type} (s : SendUnrel) (m : Bytes) (h : s.mem + m.length < 2 ^ 64) :
    (SendChannelUnreliable.send_message (reprSU s) (toNats m) : Res ε _) = .ok (reprSU (s.sendMessage m), ()) := by
  unfold SendChannelUnreliable.send_message SendUnrel.sendMessage
  have hl : RustSem.len (toNats m) = m.length := by simp [RustSem.len, toNats]
  simp only [reprSU, hl, add_val h, Exec.bind_eq, Exec.bind_val', Exec.pure_eq,
    show Src.renet.packet.SLICE_SIZE = 1200 from rfl, RustSem.div, show (1200 : Nat) ≠ 0 by decide, if_false]
  by_cases hm : s.mem + m.length > s.maxMem
  · simp only [hm, decide_true, if_true, Exec.bind_ret', Exec.run_ret]
  · simp only [hm, decide_false, Bool.false_eq_true, if_false, Exec.bind_val']
    split <;> simp [Exec.bind_val', Exec.run_val, RustSem.push, toNats]

/-! ### get_packets_to_send -/

/-- one round of `unrelLoop` -/
def stepGPU (ch : Nat) (g : GPU) (m : Bytes) : GPU :=
  let g := { g with mem := g.mem - m.length }
  if g.avail < m.length then g else
  let g := { g with avail := g.avail - m.length }
  if m.length > C.SLICE_SIZE then
    let n := divCeil m.length C.SLICE_SIZE
    { g with packets := g.packets ++ unrelSlices ch g.slicedId m n (List.range n) g.seq,
             seq := g.seq + n, slicedId := g.slicedId + 1 }
  else
    let ser := m.length + varintLen m.length
    let g := if g.smallBytes + ser > C.SLICE_SIZE then
        { g with packets := g.packets ++ [Packet.smallUnreliable g.seq ch g.small], small := [], smallBytes := 0, seq := g.seq + 1 }
      else g
    { g with smallBytes := g.smallBytes + ser, small := g.small ++ [m] }

theorem unrelLoop_cons (ch : Nat) (m : Bytes) (rest : List Bytes) (g : GPU) :
    unrelLoop ch (m :: rest) g = unrelLoop ch rest (stepGPU ch g m) := by
  rw [unrelLoop]
  unfold stepGPU
  simp only
  split
  · rfl
  · split <;> rfl

/-- packets the remaining queue can still produce (bound for the `packet_sequence` counter) -/
def need (l : List Bytes) : Nat := (l.map fun m => divCeil m.length C.SLICE_SIZE + 1).sum

/-- loop invariant: the memory counter covers the queued bytes, counters stay in `u64`/`usize` -/
structure LInv (g : GPU) (rest : List Bytes) : Prop where
  mem : qBytes rest ≤ g.mem
  memlt : g.mem < 2 ^ 64
  seq : g.seq + need rest + 1 < 2 ^ 64
  sid : g.slicedId + rest.length < 2 ^ 64
  small : g.smallBytes ≤ 1208

theorem LInv_step (ch : Nat) (g : GPU) (m : Bytes) (rest : List Bytes) (h : LInv g (m :: rest)) :
    LInv (stepGPU ch g m) rest := by
  obtain ⟨h1, h2, h3, h4, h5⟩ := h
  simp only [qBytes, need, List.map_cons, List.sum_cons, List.length_cons] at h1 h3 h4
  have hv := varintLen_le m.length
  unfold stepGPU
  simp only
  split
  · exact ⟨by simp only [qBytes]; omega, by simp only; omega, by simp only [need]; omega, by simp only; omega, h5⟩
  · split
    · exact ⟨by simp only [qBytes]; omega, by simp only; omega, by simp only [need]; omega, by simp only; omega, h5⟩
    · rename_i hs
      simp only [C.SLICE_SIZE] at hs
      split
      · refine ⟨by simp only [qBytes]; omega, by simp only; omega, ?_, by simp only; omega, by simp only; omega⟩
        simp only [need]
        have : 0 < divCeil m.length C.SLICE_SIZE + 1 := by omega
        omega
      · rename_i hb
        simp only [C.SLICE_SIZE] at hb
        exact ⟨by simp only [qBytes]; omega, by simp only; omega, by simp only [need]; omega, by simp only; omega,
          by simp only; omega⟩


/-- the `for slice_index in 0..num_slices` loop -/
theorem slices_loop {ε ρ : Type} (ch id : Nat) (m : Bytes) (n : Nat)
    (body : Nat → Nat × List SPacket → Exec ε ρ (Nat × List SPacket))
    (hb : ∀ i sq pk, i < n → sq + 1 < 2 ^ 64 → body i (sq, pk) =
      .val (sq + 1, pk ++ [reprPacket (.unreliableSlice sq ch ⟨id, i, n, sliceBytes m n i⟩)])) :
    ∀ (k i sq : Nat) (pk : List SPacket), i + k ≤ n → sq + k < 2 ^ 64 →
      RustSem.forRange.loop body k i (sq, pk) =
        .val (sq + k, pk ++ (unrelSlices ch id m n (List.range' i k) sq).map reprPacket) := by
  intro k
  induction k with
  | zero => intro i sq pk _ _; simp [RustSem.forRange.loop, List.range', unrelSlices]
  | succ k ih =>
    intro i sq pk hi hs
    rw [RustSem.forRange.loop, hb i sq pk (by omega) (by omega), Exec.bind_val', ih (i + 1) (sq + 1) _ (by omega) (by omega)]
    simp only [List.range', unrelSlices, List.map_cons, List.append_assoc, List.singleton_append]
    congr 2
    omega

/-- the tuple `(available_bytes, packet_sequence, packets, self, small_messages, small_messages_bytes)` carried by the
    generated `while let` loop -/
def reprLoop (s0 : SendUnrel) (g : GPU) (rest : List Bytes) :
    Nat × Nat × List SPacket × SendChannelUnreliable × List (List Nat) × Nat :=
  (g.avail, g.seq, g.packets.map reprPacket, ⟨s0.ch, rest.map toNats, g.slicedId, s0.maxMem, g.mem⟩,
   g.small.map toNats, g.smallBytes)

theorem unrel_while {ε ρ : Type} (s0 : SendUnrel) (site : String)
    (body : Nat × Nat × List SPacket × SendChannelUnreliable × List (List Nat) × Nat →
      Exec ε (LoopExit ρ (Nat × Nat × List SPacket × SendChannelUnreliable × List (List Nat) × Nat))
        (Nat × Nat × List SPacket × SendChannelUnreliable × List (List Nat) × Nat))
    (hnil : ∀ g, body (reprLoop s0 g []) = .ret (.brk (reprLoop s0 g [])))
    (hcons : ∀ g m rest, LInv g (m :: rest) →
      body (reprLoop s0 g (m :: rest)) = .val (reprLoop s0 (stepGPU s0.ch g m) rest) ∨
      body (reprLoop s0 g (m :: rest)) = .ret (.cont (reprLoop s0 (stepGPU s0.ch g m) rest))) :
    ∀ (rest : List Bytes) (g : GPU) (fuel : Nat), rest.length < fuel → LInv g rest →
      RustSem.whileFuel fuel site (reprLoop s0 g rest) body = .val (reprLoop s0 (unrelLoop s0.ch rest g) []) := by
  intro rest
  induction rest with
  | nil =>
    intro g fuel hf _
    obtain ⟨n, rfl⟩ : ∃ n, fuel = n + 1 := ⟨fuel - 1, by simp at hf; omega⟩
    rw [RustSem.whileFuel, hnil]; rfl
  | cons m rest ih =>
    intro g fuel hf hinv
    obtain ⟨n, rfl⟩ : ∃ n, fuel = n + 1 := ⟨fuel - 1, by simp at hf; omega⟩
    rw [RustSem.whileFuel, unrelLoop_cons]
    rcases hcons g m rest hinv with h | h <;> rw [h] <;>
      exact ih _ n (by simp at hf; omega) (LInv_step s0.ch g m rest hinv)

theorem LInv_loop (ch : Nat) : ∀ (rest : List Bytes) (g : GPU), LInv g rest → LInv (unrelLoop ch rest g) [] := by
  intro rest
  induction rest with
  | nil => intro g h; simpa [unrelLoop] using h
  | cons m r ih => intro g h; rw [unrelLoop_cons]; exact ih _ (LInv_step ch g m r h)

theorem need_ge_length (l : List Bytes) : l.length ≤ need l := by
  induction l with
  | nil => simp [need]
  | cons m r ih => simp only [need, List.map_cons, List.sum_cons, List.length_cons] at ih ⊢; omega

set_option maxRecDepth 10000 in
theorem get_packets_eq {ε : Type} (s : SendUnrel) (seq avail : Nat)
    (hmem : qBytes s.queue ≤ s.mem) (hmemlt : s.mem < 2 ^ 64) (hseq : seq + need s.queue + 1 < 2 ^ 64)
    (hsid : s.slicedId + s.queue.length < 2 ^ 64) :
    (SendChannelUnreliable.get_packets_to_send (reprSU s) seq avail : Res ε _) =
      .ok (reprSU (s.getPackets seq avail).1, (s.getPackets seq avail).2.2.1, (s.getPackets seq avail).2.2.2,
           (s.getPackets seq avail).2.1.map reprPacket) := by
  unfold SendChannelUnreliable.get_packets_to_send
  have hfuel : s.queue.length + 1 < 2 ^ 64 := by have := need_ge_length s.queue; omega
  have hl : RustSem.len (reprSU s).unreliable_messages = s.queue.length := by simp [RustSem.len, reprSU]
  simp only [hl, add_val hfuel, Exec.bind_eq, Exec.pure_eq, Exec.bind_val']
  have h0 : ((avail, seq, ([] : List SPacket), reprSU s, ([] : List (List Nat)), 0) :
      Nat × Nat × List SPacket × SendChannelUnreliable × List (List Nat) × Nat)
      = reprLoop s ⟨[], [], 0, seq, avail, s.slicedId, s.mem⟩ s.queue := rfl
  rw [h0, unrel_while s _ _ ?hnil ?hcons s.queue _ (s.queue.length + 1) (Nat.lt_succ_self _)
    ⟨hmem, hmemlt, hseq, hsid, Nat.zero_le _⟩]
  case hnil =>
    intro g
    simp [reprLoop]
  case hcons =>
    intro g m rest hinv
    obtain ⟨i1, i2, i3, i4, i5⟩ := hinv
    simp only [qBytes, need, List.map_cons, List.sum_cons, List.length_cons] at i1 i3 i4
    have hml : RustSem.len (toNats m) = m.length := by simp [RustSem.len, toNats]
    have hmlt : m.length < 2 ^ 64 := by omega
    simp only [reprLoop, List.map_cons, List.head?_cons, List.tail_cons, hml, sub_val (show m.length ≤ g.mem by omega),
      Exec.bind_val', cast_of_lt hmlt, show Src.renet.packet.SLICE_SIZE = C.SLICE_SIZE from rfl]
    have hS : C.SLICE_SIZE = 1200 := rfl
    by_cases hA : g.avail < m.length
    · right
      simp only [hA, decide_true, if_true, Exec.bind_ret', stepGPU]
    simp only [hA, decide_false, Bool.false_eq_true, if_false, Exec.bind_val', sub_val (show m.length ≤ g.avail by omega)]
    left
    by_cases hB : m.length > C.SLICE_SIZE
    · -- sliced message
      simp only [hB, decide_true, if_true, div_ceil_1200, Exec.bind_val', RustSem.forRange, Nat.sub_zero]
      generalize hn : divCeil m.length C.SLICE_SIZE = n at *
      have hn1 : 1 ≤ n := by rw [← hn]; exact divCeil_pos hB
      have hlo : (n - 1) * 1200 < m.length := by
        rw [← hn]; unfold divCeil; simp only [hS] at *; omega
      have hhi : m.length ≤ n * 1200 := by
        rw [← hn]; unfold divCeil; simp only [hS] at *; omega
      rw [slices_loop s.ch g.slicedId m n _ ?hb n 0 g.seq _ (by omega) (by omega)]
      case hb =>
        intro i sq pk hi hsq
        have h1 : i * C.SLICE_SIZE < 2 ^ 64 := by simp only [hS]; omega
        simp only [mul_val h1, Exec.bind_val', sub_val hn1]
        have hsl : sliceBytes m n i = (m.drop (i * C.SLICE_SIZE)).take
            ((if i = n - 1 then m.length else (i + 1) * C.SLICE_SIZE) - i * C.SLICE_SIZE) := rfl
        by_cases hlast : i = n - 1
        · have hle : i * C.SLICE_SIZE ≤ m.length := by simp only [hS]; subst hlast; omega
          simp only [hlast, decide_true, if_true, Exec.bind_val'] at hsl ⊢
          rw [slice_toNats m _ _ _ (by simpa [hlast] using hle) (Nat.le_refl _), Exec.bind_val', add_val hsq, Exec.bind_val']
          simp only [RustSem.push, reprPacket, reprSlice, hsl]
        · have h2 : i + 1 < 2 ^ 64 := by omega
          have h3 : (i + 1) * C.SLICE_SIZE < 2 ^ 64 := by simp only [hS]; omega
          have hle : (i + 1) * C.SLICE_SIZE ≤ m.length := by simp only [hS]; omega
          simp only [hlast, decide_false, Bool.false_eq_true, if_false, add_val h2, mul_val h3, Exec.bind_val'] at hsl ⊢
          rw [slice_toNats m _ _ _ (by simp only [hS]; omega) hle, Exec.bind_val', add_val hsq, Exec.bind_val']
          simp only [RustSem.push, reprPacket, reprSlice, hsl]
      have hsid1 : g.slicedId + 1 < 2 ^ 64 := by omega
      simp only [Exec.bind_val', add_val hsid1, stepGPU, hA, hB, if_false, if_true, hn, List.range_eq_range',
        List.map_append]
    · -- small message
      have hB' : m.length ≤ C.SLICE_SIZE := by omega
      have hmax : m.length ≤ Varint.MAX := by unfold Varint.MAX; simp only [hS] at hB'; omega
      have hv := varintLen_le m.length
      have ha1 : m.length + varintLen m.length < 2 ^ 64 := by simp only [hS] at hB'; omega
      have ha2 : g.smallBytes + (m.length + varintLen m.length) < 2 ^ 64 := by simp only [hS] at hB'; omega
      simp only [hB, decide_false, Bool.false_eq_true, if_false, varint_len_eq _ hmax, Exec.call_ok, Exec.bind_val',
        add_val ha1, add_val ha2]
      by_cases hF : g.smallBytes + (m.length + varintLen m.length) > C.SLICE_SIZE
      · have hs1 : g.seq + 1 < 2 ^ 64 := by omega
        have ha3 : 0 + (m.length + varintLen m.length) < 2 ^ 64 := by omega
        simp only [hF, decide_true, if_true, Exec.bind_val', add_val hs1, add_val ha3, stepGPU, hA, hB, if_false,
          RustSem.push, List.map_append, List.map_cons, List.map_nil, reprPacket]
      · simp only [hF, decide_false, Bool.false_eq_true, if_false, Exec.bind_val', add_val ha2, stepGPU, hA, hB,
          RustSem.push, List.map_append, List.map_cons, List.map_nil]
  -- after the loop: the final packet for the remaining small messages
  simp only [Exec.bind_val', reprLoop, SendUnrel.getPackets]
  have hfin := LInv_loop s.ch s.queue ⟨[], [], 0, seq, avail, s.slicedId, s.mem⟩ ⟨hmem, hmemlt, hseq, hsid, Nat.zero_le _⟩
  generalize unrelLoop s.ch s.queue ⟨[], [], 0, seq, avail, s.slicedId, s.mem⟩ = g at hfin
  have hs1 : g.seq + 1 < 2 ^ 64 := by have := hfin.seq; simp only [need, List.map_nil, List.sum_nil] at this; omega
  have hemp : RustSem.is_empty (List.map toNats g.small) = g.small.isEmpty := by
    cases g.small <;> rfl
  rw [hemp]
  cases hsm : g.small.isEmpty with
  | true => simp [Exec.bind_val', Exec.run_val, reprSU]
  | false =>
    simp [Exec.bind_val', Exec.run_val, reprSU, add_val hs1, RustSem.push, reprPacket]
end SendUnrel
end RenetVerif.SrcEquiv
