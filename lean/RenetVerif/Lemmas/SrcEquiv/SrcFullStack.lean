/-
  The FULL STACK of `Lemmas/FullStack.lean` (`FS`: client `NetcodeClientTransport` + `RenetClient`, server
  `NetcodeServerTransport` + `RenetServer`, 14 operations `FSOp`), rebuilt over the GENERATED code: `GFS` holds the generated
  transports (each with its model socket, its generated `NetcodeClient` / `NetcodeServer` and its receive buffer), the generated
  `RenetClient` and the generated `RenetServer`; `GFS.step` mirrors `FS.step` operation by operation and calls only generated
  functions:
      cliSend / cliRecv / cliTick / cliDisconnect              RenetClient::{send_message, receive_message, update, disconnect}
      cliUpdate d inbox / cliSendPackets / cliTransportDisconnect   NetcodeClientTransport::{update, send_packets, disconnect}
      srvSend / srvRecv / srvTick / srvDisconnect               RenetServer::{send_message(cid,…), receive_message(cid,…), update, disconnect(cid)}
      srvUpdate d inbox / srvSendPackets / srvDisconnectAll     NetcodeServerTransport::{update, send_packets, disconnect_all}
  The AEAD of the generated netcode is `aeadOf a` (the model AEAD `a` on `List Nat`).  THE SOCKET is the environment: before a
  transport call the adversary's `inbox` becomes the socket's script (`update`) and the socket's log is emptied (the network has
  taken what was sent); after `send_packets` the log is appended to the ghost history `emC` / `emS`.

  THE DATAGRAM CUT.  The generated `recv_from` cuts a datagram to the transport's buffer; the glue model takes the already-cut
  inbox.  So a generated operation `op` corresponds to the model operation `cutOp op` (`inbox.map (recvFrom BUFFER)`).

  The ghost records `sealedC` / `sealedS` of `FS` (one per successful `generate_payload_packet`) only serve to STATE the
  hypothesis `NoForgeryRunD`; they are not mirrored in `GFS` (the hypothesis stays on the model run).
-/
import RenetVerif.Lemmas.SrcEquiv.SrcMulti
import RenetVerif.Lemmas.FullStack
import RenetVerif.Props.SrcTieTrClosed
import RenetVerif.Props.SrcTieTrLocal
set_option linter.unusedSimpArgs false
set_option linter.unusedVariables false
set_option maxRecDepth 10000
namespace RenetVerif.SrcFullStack
open RenetVerif RenetVerif.RustSem RenetVerif.C RenetVerif.System RenetVerif.Netcode RenetVerif.Transport RenetVerif.FullStack
open RenetVerif.SrcEquiv RenetVerif.SrcSystem RenetVerif.SrcMulti
open Src.renet.remote_connection Src.renet.server Src.renet_netcode.server Src.renet_netcode.client

/-! ## the generated full stack -/

/-- a datagram of the socket log: generated destination address and bytes -/
abbrev GDgram := RustSem.SocketAddr × List Nat

structure GFS where
  /-- the client's generated `NetcodeClientTransport` (socket, generated `NetcodeClient`, receive buffer) and `RenetClient` -/
  tc : SClientTransport
  rc : SRenetClient
  /-- the server's generated `NetcodeServerTransport` (socket, generated `NetcodeServer`, receive buffer) and `RenetServer` -/
  ts : SServerTransport
  rs : SRenetServer
  /-- ghost: every datagram the client's / the server's `send_packets` handed to the socket, in order -/
  emC : List GDgram
  emS : List GDgram
  /-- ghost: `packet_sequence` of the server's `RenetClient` for `cid`, as of the last moment it was in the table -/
  ySeq : Nat
  subC : Nat → List GBytes
  subCU : Nat → List GBytes
  obtS : Nat → List GBytes
  subS : Nat → List GBytes
  subSU : Nat → List GBytes
  obtC : Nat → List GBytes

/-- the adversary's datagrams as the script of a socket with an empty log -/
def sockOf (inbox : List Dgram) : RustSem.UdpSocket := sockR inbox #[]

/-- the socket with its log emptied (the network has taken the datagrams) -/
def clearLog (s : RustSem.UdpSocket) : RustSem.UdpSocket := ⟨s.inbox, []⟩

/-- mirror of `FullStack.trackSeq` (reads the field `connections` of the generated server) -/
def gtrackSeq (cid : Nat) (rs : SRenetServer) (old : Nat) : Nat :=
  match gconn? rs cid with
  | some y => y.packet_sequence
  | none => old

/-- one operation through the generated functions only (mirror of `FS.step`); `none` = a generated function panicked.
    An `Err(..)` of a client transport call is a normal return (the model's `Except`). -/
def GFS.step (a : AEAD) (cid : Nat) (g : GFS) : FSOp → Option GFS
  | .cliSend ch m =>
    match (RenetClient.send_message g.rc ch (toNats m) : Res Empty _) with
    | .ok (r', _) => some { g with rc := r'
                                   subC := if gAccepted g.rc r' ch then gpush g.subC ch (toNats m) else g.subC
                                   subCU := if gOfferedU g.rc ch then gpush g.subCU ch (toNats m) else g.subCU }
    | _ => none
  | .cliRecv ch =>
    match (RenetClient.receive_message g.rc ch : Res Empty _) with
    | .ok (r', some m) => some { g with rc := r', obtC := gpush g.obtC ch m }
    | .ok (r', none) => some { g with rc := r' }
    | _ => none
  | .cliTick dt =>
    match (RenetClient.update g.rc dt : Res Empty _) with
    | .ok (r', _) => some { g with rc := r' }
    | _ => none
  | .cliDisconnect =>
    match (RenetClient.disconnect g.rc : Res Empty _) with
    | .ok (r', _) => some { g with rc := r' }
    | _ => none
  | .cliUpdate d inbox =>
    match @NetcodeClientTransport.update (aeadOf a) { g.tc with socket := sockOf inbox } d g.rc with
    | .ok (t', r', _) => some { g with tc := t', rc := r' }
    | .err (_, (t', r')) => some { g with tc := t', rc := r' }
    | .panic _ => none
  | .cliSendPackets =>
    match @NetcodeClientTransport.send_packets (aeadOf a) { g.tc with socket := clearLog g.tc.socket } g.rc with
    | .ok (t', r', _) => some { g with tc := t', rc := r', emC := g.emC ++ t'.socket.outbox }
    | .err (_, (t', r')) => some { g with tc := t', rc := r', emC := g.emC ++ t'.socket.outbox }
    | .panic _ => none
  | .cliTransportDisconnect =>
    match (@NetcodeClientTransport.disconnect (aeadOf a) Empty { g.tc with socket := clearLog g.tc.socket }) with
    | .ok (t', _) => some { g with tc := t' }
    | _ => none
  | .srvDisconnectAll =>
    match (@NetcodeServerTransport.disconnect_all (aeadOf a) Empty { g.ts with socket := clearLog g.ts.socket } g.rs) with
    | .ok (t', r', _) => some { g with ts := t', rs := r', ySeq := gtrackSeq cid r' g.ySeq }
    | _ => none
  | .srvSend ch m =>
    match (RenetServer.send_message g.rs cid ch (toNats m) : Res Empty _) with
    | .ok (rs', _) =>
      let acc := match gconn? g.rs cid, gconn? rs' cid with
        | some y0, some y1 => gAccepted y0 y1 ch
        | _, _ => false
      let off := match gconn? g.rs cid with
        | some y0 => gOfferedU y0 ch
        | none => false
      some { g with rs := rs', ySeq := gtrackSeq cid rs' g.ySeq
                    subS := if acc then gpush g.subS ch (toNats m) else g.subS
                    subSU := if off then gpush g.subSU ch (toNats m) else g.subSU }
    | _ => none
  | .srvRecv ch =>
    match (RenetServer.receive_message g.rs cid ch : Res Empty _) with
    | .ok (rs', some m) => some { g with rs := rs', ySeq := gtrackSeq cid rs' g.ySeq, obtS := gpush g.obtS ch m }
    | .ok (rs', none) => some { g with rs := rs', ySeq := gtrackSeq cid rs' g.ySeq }
    | _ => none
  | .srvTick dt =>
    match (RenetServer.update g.rs dt : Res Empty _) with
    | .ok (rs', _) => some { g with rs := rs', ySeq := gtrackSeq cid rs' g.ySeq }
    | _ => none
  | .srvDisconnect =>
    match (RenetServer.disconnect g.rs cid : Res Empty _) with
    | .ok (rs', _) => some { g with rs := rs', ySeq := gtrackSeq cid rs' g.ySeq }
    | _ => none
  | .srvUpdate d inbox =>
    match @NetcodeServerTransport.update (aeadOf a) { g.ts with socket := sockOf inbox } d g.rs with
    | .ok (t', r', _) => some { g with ts := t', rs := r', ySeq := gtrackSeq cid r' g.ySeq }
    | _ => none
  | .srvSendPackets =>
    match (@NetcodeServerTransport.send_packets (aeadOf a) Empty { g.ts with socket := clearLog g.ts.socket } g.rs) with
    | .ok (t', r', _) => some { g with ts := t', rs := r', ySeq := gtrackSeq cid r' g.ySeq, emS := g.emS ++ t'.socket.outbox }
    | _ => none

def GFS.run (a : AEAD) (cid : Nat) (g : GFS) : List FSOp → Option GFS
  | [] => some g
  | op :: ops =>
    match g.step a cid op with
    | some g' => g'.run a cid ops
    | none => none

/-- the model operation a generated operation corresponds to: the inbox cut to the transport's receive buffer -/
def cutOp : FSOp → FSOp
  | .cliUpdate d inbox => .cliUpdate d (inbox.map (recvFrom C.TRANSPORT_CLIENT_BUFFER))
  | .srvUpdate d inbox => .srvUpdate d (inbox.map (recvFrom C.TRANSPORT_SERVER_BUFFER))
  | op => op

/-! ## the simulation relation -/

def reprDgram (d : Dgram) : GDgram := (reprAddr d.1, toNats d.2)

/-- generated state `g` represents model state `fs`: the transports are `ctrR` / `trR` of the model netcode states (some
    socket script and log, scratch buffer of `NETCODE_MAX_PACKET_BYTES`, receive buffer of the transport's size), the renet
    endpoints are `reprConn` / `reprServer`, ghost histories and logs agree up to `toNats` -/
structure SimFS (fs : FS) (g : GFS) : Prop where
  tc : ∃ rest out o buf, o.length = C.NETCODE_MAX_PACKET_BYTES ∧ buf.length = C.TRANSPORT_CLIENT_BUFFER ∧
    g.tc = ctrR rest out o fs.c.netcode buf
  rc : ∃ mrs, g.rc = reprConn mrs fs.c.renet
  ts : ∃ rest out o buf, o.length = C.NETCODE_MAX_PACKET_BYTES ∧ buf.length = C.TRANSPORT_SERVER_BUFFER ∧
    g.ts = trR rest out o fs.s.netcode buf
  rs : ∃ mrss, g.rs = reprServer mrss fs.s.renet
  emC : g.emC = fs.emC.map reprDgram
  emS : g.emS = fs.emS.map reprDgram
  ySeq : g.ySeq = fs.ySeq
  subC : ∀ ch, g.subC ch = (fs.subC ch).map toNats
  subCU : ∀ ch, g.subCU ch = (fs.subCU ch).map toNats
  obtS : ∀ ch, g.obtS ch = (fs.obtS ch).map toNats
  subS : ∀ ch, g.subS ch = (fs.subS ch).map toNats
  subSU : ∀ ch, g.subSU ch = (fs.subSU ch).map toNats
  obtC : ∀ ch, g.obtC ch = (fs.obtC ch).map toNats

/-- the model invariants the ties need: the renet invariants of `SrcSystem` / `SrcMulti`, the netcode table invariant
    `NS.ServerInv` and the netcode client invariant `CliInv` (`SrcTieTrInv.lean`) -/
structure FSGood (fs : FS) : Prop where
  cli : EpGood fs.c.renet
  srv : SGood fs.s.renet
  ncC : CliInv fs.c.netcode
  ncS : NS.ServerInv fs.s.netcode

/-! ## the per-call transport ties

  The existing transport ties (`SrcTieTrServer/TrClient/TrInv/TrClosed.lean`) are stated for an abstract simulation `RcSim R` /
  `RnSim R` that must be CLOSED under `process_packet`, `get_packets_to_send`, … for every input; `TrClosed` instantiates it with
  a range predicate `Rg` that is closed under those operations (`RangeClosed Rg`).  Here the conclusion of those ties, for ONE
  call, with the fixed relations `RcRel` / `RsRel` ("model invariants ∧ generated = repr (model)"), is a named hypothesis of the
  step simulation (`OpTie`); `opTie_of_closed` derives it from `RangeClosed Rg`. -/

-- the relations of the ties are `SrcEquiv.RcRel` / `SrcEquiv.RsRel` (`Lemmas/SrcEquiv/TrLocal.lean`):
--   `RcRel c g := EpGood c ∧ ∃ mrs, g = reprConn mrs c`,  `RsRel s g := SGood s ∧ ∃ mrss, g = reprServer mrss s`

def CliUpdateTie (a : AEAD) (g : ClientGlue) (d : Nat) (inbox : List Dgram) : Prop :=
  ∀ (mrs : Nat → Nat) (o buf : List Nat), o.length = C.NETCODE_MAX_PACKET_BYTES → buf.length = C.TRANSPORT_CLIENT_BUFFER →
    match clientUpdateFrom a g d (inbox.map (recvFrom C.TRANSPORT_CLIENT_BUFFER)) #[] with
    | .ok r => ∃ rest, CliTrOut RcRel CliInv C.TRANSPORT_CLIENT_BUFFER r.result r.g r.out rest
        (@NetcodeClientTransport.update (aeadOf a) (ctrR inbox #[] o g.netcode buf) d (reprConn mrs g.renet))
    | .err e => nomatch e
    | .panic _ => ∃ msg, @NetcodeClientTransport.update (aeadOf a) (ctrR inbox #[] o g.netcode buf) d (reprConn mrs g.renet) = .panic msg

def CliSendTie (a : AEAD) (g : ClientGlue) : Prop :=
  ∀ (mrs : Nat → Nat) (rest : List Dgram) (o buf : List Nat), o.length = C.NETCODE_MAX_PACKET_BYTES →
    match clientSendPacketsFrom a g #[] with
    | .ok (res, g', out') => CliTrOut RcRel CliInv buf.length res g' out' rest
        (@NetcodeClientTransport.send_packets (aeadOf a) (ctrR rest #[] o g.netcode buf) (reprConn mrs g.renet))
    | .err e => nomatch e
    | .panic _ => ∃ msg, @NetcodeClientTransport.send_packets (aeadOf a) (ctrR rest #[] o g.netcode buf) (reprConn mrs g.renet) = .panic msg

def SrvUpdateTie (a : AEAD) (g : ServerGlue) (d : Nat) (inbox : List Dgram) : Prop :=
  ∀ (mrss : Nat → Nat → Nat) (o buf : List Nat), o.length = C.NETCODE_MAX_PACKET_BYTES → buf.length = C.TRANSPORT_SERVER_BUFFER →
    TrOut RsRel NS.ServerInv [] C.TRANSPORT_SERVER_BUFFER
      (serverUpdateFrom a g d (inbox.map (recvFrom C.TRANSPORT_SERVER_BUFFER)) #[])
      (@NetcodeServerTransport.update (aeadOf a) (trR inbox #[] o g.netcode buf) d (reprServer mrss g.renet))

def SrvSendTie (a : AEAD) (g : ServerGlue) : Prop :=
  ∀ (mrss : Nat → Nat → Nat) (rest : List Dgram) (o buf : List Nat), o.length = C.NETCODE_MAX_PACKET_BYTES →
    TrOut (ε := Empty) RsRel NS.ServerInv rest buf.length (serverSendLoop a g g.renet.clientsId #[])
      (@NetcodeServerTransport.send_packets (aeadOf a) Empty (trR rest #[] o g.netcode buf) (reprServer mrss g.renet))

def SrvDiscAllTie (a : AEAD) (g : ServerGlue) : Prop :=
  ∀ (mrss : Nat → Nat → Nat) (rest : List Dgram) (o buf : List Nat), o.length = C.NETCODE_MAX_PACKET_BYTES →
    TrOut (ε := Empty) RsRel NS.ServerInv rest buf.length
      (serverIdLoop (fun ns id => ns.disconnect a id) g g.netcode.clientsId #[])
      (@NetcodeServerTransport.disconnect_all (aeadOf a) Empty (trR rest #[] o g.netcode buf) (reprServer mrss g.renet))

/-- the tie hypothesis of one operation (nothing for the application-level calls and for `NetcodeClientTransport::disconnect`) -/
def OpTie (a : AEAD) (fs : FS) : FSOp → Prop
  | .cliUpdate d inbox => CliUpdateTie a fs.c d inbox
  | .cliSendPackets => CliSendTie a fs.c
  | .srvUpdate d inbox => SrvUpdateTie a fs.s d inbox
  | .srvSendPackets => SrvSendTie a fs.s
  | .srvDisconnectAll => SrvDiscAllTie a fs.s
  | _ => True

/-! ## the range side condition (decidable) -/

def SrvInRange (s : Server) : Prop := ∀ x ∈ s.conns, ConnInRange x.2

/-- what the ties of one operation need of the state it starts from: the endpoint(s) the application-level call works on in
    range (`SrcSystem.ConnInRange`), messages shorter than `2^63`, clocks within `Duration::MAX`, fewer than `2^64 - 1` queued
    datagrams -/
def FSOpInRange (fs : FS) : FSOp → Prop
  | .cliSend _ m => m.length < 2 ^ 63 ∧ ConnInRange fs.c.renet
  | .cliRecv _ => ConnInRange fs.c.renet
  | .cliTick dt => ConnInRange fs.c.renet ∧ fs.c.renet.now + dt ≤ RustSem.Duration.MAX
  | .srvSend _ m => m.length < 2 ^ 63 ∧ SrvInRange fs.s.renet
  | .srvRecv _ => SrvInRange fs.s.renet
  | .srvTick dt => SrvInRange fs.s.renet ∧ ∀ x ∈ fs.s.renet.conns, x.2.now + dt ≤ RustSem.Duration.MAX
  | .cliUpdate _ inbox => inbox.length + 1 < 2 ^ 64
  | .srvUpdate _ inbox => inbox.length + 1 < 2 ^ 64
  | _ => True

instance (s : Server) : Decidable (SrvInRange s) := by unfold SrvInRange; infer_instance
instance (fs : FS) (op : FSOp) : Decidable (FSOpInRange fs op) := by cases op <;> unfold FSOpInRange <;> infer_instance

/-! ## helpers -/

theorem gtrackSeq_repr (mrss : Nat → Nat → Nat) (cid : Nat) (s : Server) (old : Nat) :
    gtrackSeq cid (reprServer mrss s) old = trackSeq cid s old := by
  unfold gtrackSeq trackSeq
  rw [gconn_repr]
  unfold MultiSystem.conn?
  cases SMap.find? s.conns cid <;> rfl

theorem ctrR_setSocket (rest inbox : List Dgram) (out : Array Dgram) (o : List Nat) (nc : NetcodeClient) (buf : List Nat) :
    ({ ctrR rest out o nc buf with socket := sockOf inbox } : SClientTransport) = ctrR inbox #[] o nc buf := rfl
theorem ctrR_clearLog (rest : List Dgram) (out : Array Dgram) (o : List Nat) (nc : NetcodeClient) (buf : List Nat) :
    ({ ctrR rest out o nc buf with socket := clearLog (ctrR rest out o nc buf).socket } : SClientTransport) = ctrR rest #[] o nc buf := rfl
theorem trR_setSocket (rest inbox : List Dgram) (out : Array Dgram) (o : List Nat) (ns : NetcodeServer) (buf : List Nat) :
    ({ trR rest out o ns buf with socket := sockOf inbox } : SServerTransport) = trR inbox #[] o ns buf := rfl
theorem trR_clearLog (rest : List Dgram) (out : Array Dgram) (o : List Nat) (ns : NetcodeServer) (buf : List Nat) :
    ({ trR rest out o ns buf with socket := clearLog (trR rest out o ns buf).socket } : SServerTransport) = trR rest #[] o ns buf := rfl

theorem ctrR_outbox (rest : List Dgram) (out : Array Dgram) (o : List Nat) (nc : NetcodeClient) (buf : List Nat) :
    (ctrR rest out o nc buf).socket.outbox = out.toList.map reprDgram := rfl
theorem trR_outbox (rest : List Dgram) (out : Array Dgram) (o : List Nat) (ns : NetcodeServer) (buf : List Nat) :
    (trR rest out o ns buf).socket.outbox = out.toList.map reprDgram := rfl

theorem gacc_repr (mrss : Nat → Nat → Nat) (s s' : Server) (cid ch : Nat) :
    (match gconn? (reprServer mrss s) cid, gconn? (reprServer mrss s') cid with
      | some y0, some y1 => gAccepted y0 y1 ch
      | _, _ => false) =
    (match SMap.find? s.conns cid, SMap.find? s'.conns cid with
      | some y0, some y1 => accepted y0 y1 ch
      | _, _ => false) := by
  rw [gconn_repr, gconn_repr]
  unfold MultiSystem.conn?
  cases SMap.find? s.conns cid with
  | none => rfl
  | some y0 =>
    cases SMap.find? s'.conns cid with
    | none => rfl
    | some y1 => exact gAccepted_repr _ _ y0 y1 ch

theorem goff_repr (mrss : Nat → Nat → Nat) (s : Server) (cid ch : Nat) :
    (match gconn? (reprServer mrss s) cid with
      | some y0 => gOfferedU y0 ch
      | none => false) =
    (match SMap.find? s.conns cid with
      | some y0 => offeredU y0 ch
      | none => false) := by
  rw [gconn_repr]
  unfold MultiSystem.conn?
  cases SMap.find? s.conns cid with
  | none => rfl
  | some y0 => exact gOfferedU_repr _ y0 ch

theorem clientDisconnectFrom_inv {a : AEAD} {g g' : ClientGlue} {out out' : Array Dgram}
    (h : clientDisconnectFrom a g out = .ok (g', out')) (hi : CliInv g.netcode) : CliInv g'.netcode ∧ g'.renet = g.renet := by
  unfold clientDisconnectFrom at h
  split at h
  · cases h; exact ⟨hi, rfl⟩
  · simp only at h
    split at h
    · cases h
    · cases h; exact ⟨(ncCInv_cliInv a).disc hi, rfl⟩
    · cases h; exact ⟨(ncCInv_cliInv a).disc hi, rfl⟩

/-! ## one step -/

/-- the application-level calls on the client, and `NetcodeClientTransport::disconnect` -/
theorem fstep_sim_cli (a : AEAD) (hl : a.Laws) (cid : Nat) {fs : FS} {g : GFS} (hg : FSGood fs) (sim : SimFS fs g) (op : FSOp)
    (hrg : FSOpInRange fs op)
    (hk : match op with
      | .cliSend .. | .cliRecv _ | .cliTick _ | .cliDisconnect | .cliTransportDisconnect => True
      | _ => False) :
    match fs.step a cid (cutOp op) with
    | some fs' => ∃ g', g.step a cid op = some g' ∧ SimFS fs' g' ∧ FSGood fs'
    | none => g.step a cid op = none := by
  obtain ⟨mrs, hrc⟩ := sim.rc
  cases op with
  | cliSend ch m =>
    have tie := ep_send mrs hg.cli hrg.2 ch m hrg.1
    simp only [cutOp, FS.step, GFS.step, hrc]
    cases hm : fs.c.renet.sendMessage ch m with
    | ok r' =>
      rw [so_map_ok tie hm]
      refine ⟨_, rfl, ⟨sim.tc, ⟨mrs, rfl⟩, sim.ts, sim.rs, sim.emC, sim.emS, sim.ySeq, ?_, ?_, sim.obtS, sim.subS, sim.subSU,
        sim.obtC⟩, ⟨hg.cli.sendMessage hm, hg.srv, hg.ncC, hg.ncS⟩⟩
      · intro c
        simp only [gAccepted_repr]
        split
        · exact gpush_map _ _ sim.subC ch m c
        · exact sim.subC c
      · intro c
        simp only [gOfferedU_repr]
        split
        · exact gpush_map _ _ sim.subCU ch m c
        · exact sim.subCU c
    | err e => exact nomatch e
    | panic msg =>
      obtain ⟨m', e⟩ := so_map_panic tie hm
      rw [e]
  | cliRecv ch =>
    have tie := ep_receive mrs hg.cli hrg ch
    simp only [cutOp, FS.step, GFS.step, hrc]
    cases hm : fs.c.renet.receiveMessage ch with
    | ok v =>
      obtain ⟨r', o⟩ := v
      rw [so_map_ok tie hm]
      cases o with
      | none =>
        exact ⟨_, rfl, ⟨sim.tc, ⟨mrs, rfl⟩, sim.ts, sim.rs, sim.emC, sim.emS, sim.ySeq, sim.subC, sim.subCU, sim.obtS, sim.subS,
          sim.subSU, sim.obtC⟩, ⟨hg.cli.receiveMessage hm, hg.srv, hg.ncC, hg.ncS⟩⟩
      | some msg =>
        exact ⟨_, rfl, ⟨sim.tc, ⟨mrs, rfl⟩, sim.ts, sim.rs, sim.emC, sim.emS, sim.ySeq, sim.subC, sim.subCU, sim.obtS, sim.subS,
          sim.subSU, gpush_map _ _ sim.obtC ch msg⟩, ⟨hg.cli.receiveMessage hm, hg.srv, hg.ncC, hg.ncS⟩⟩
    | err e => exact nomatch e
    | panic msg =>
      obtain ⟨m', e⟩ := so_map_panic tie hm
      rw [e]
  | cliTick dt =>
    have tie := ep_update mrs hg.cli hrg.1 dt hrg.2
    simp only [cutOp, FS.step, GFS.step, hrc]
    cases hm : fs.c.renet.update dt with
    | ok r' =>
      rw [so_map_ok tie hm]
      exact ⟨_, rfl, ⟨sim.tc, ⟨mrs, rfl⟩, sim.ts, sim.rs, sim.emC, sim.emS, sim.ySeq, sim.subC, sim.subCU, sim.obtS, sim.subS,
        sim.subSU, sim.obtC⟩, ⟨hg.cli.update hm, hg.srv, hg.ncC, hg.ncS⟩⟩
    | err e => exact nomatch e
    | panic msg =>
      obtain ⟨m', e⟩ := so_map_panic tie hm
      rw [e]
  | cliDisconnect =>
    have e := conn_disconnect_eq (ε := Empty) mrs fs.c.renet
    simp only [cutOp, FS.step, GFS.step, hrc, e]
    exact ⟨_, rfl, ⟨sim.tc, ⟨mrs, rfl⟩, sim.ts, sim.rs, sim.emC, sim.emS, sim.ySeq, sim.subC, sim.subCU, sim.obtS, sim.subS,
      sim.subSU, sim.obtC⟩, ⟨hg.cli.disconnectWith _, hg.srv, hg.ncC, hg.ncS⟩⟩
  | cliTransportDisconnect =>
    obtain ⟨rest, out, o, buf, ho, hb, htc⟩ := sim.tc
    have e0 : ({ g.tc with socket := clearLog g.tc.socket } : SClientTransport) = ctrR rest #[] o fs.c.netcode buf := by
      rw [htc]; rfl
    have tie := ctr_disconnect_eq (ε := Empty) a hl fs.c.netcode fs.c.renet rest #[] o buf ho
    have hmod : clientDisconnect a fs.c = clientDisconnectFrom a ⟨fs.c.netcode, fs.c.renet⟩ #[] := clientDisconnect_eq_from a fs.c
    simp only [cutOp, FS.step, GFS.step, e0, hmod]
    cases hm : clientDisconnectFrom a ⟨fs.c.netcode, fs.c.renet⟩ #[] with
    | ok v =>
      obtain ⟨g', out'⟩ := v
      rw [hm] at tie
      obtain ⟨o', ho', hren, hgen⟩ := tie
      obtain ⟨hci, hre⟩ := clientDisconnectFrom_inv hm hg.ncC
      rw [hgen]
      refine ⟨_, rfl, ⟨⟨rest, out', o', buf, ho', hb, rfl⟩, ⟨mrs, ?_⟩, sim.ts, sim.rs, sim.emC, sim.emS, sim.ySeq, sim.subC, sim.subCU,
        sim.obtS, sim.subS, sim.subSU, sim.obtC⟩, ⟨?_, hg.srv, hci, hg.ncS⟩⟩
      · show g.rc = reprConn mrs g'.renet
        rw [hren]; exact hrc
      · show EpGood g'.renet
        rw [hren]; exact hg.cli
    | err e => exact nomatch e
    | panic msg =>
      rw [hm] at tie
      obtain ⟨m', e⟩ := tie
      rw [e]
  | cliUpdate d inbox => exact hk.elim
  | cliSendPackets => exact hk.elim
  | srvSend ch m => exact hk.elim
  | srvRecv ch => exact hk.elim
  | srvTick dt => exact hk.elim
  | srvDisconnect => exact hk.elim
  | srvUpdate d inbox => exact hk.elim
  | srvSendPackets => exact hk.elim
  | srvDisconnectAll => exact hk.elim

theorem gpush_if_map (b : Bool) (f : Nat → List Bytes) (gf : Nat → List GBytes) (h : ∀ c, gf c = (f c).map toNats) (ch : Nat)
    (m : Bytes) (c : Nat) :
    (if b = true then gpush gf ch (toNats m) else gf) c = ((if b = true then System.push f ch m else f) c).map toNats := by
  cases b with
  | true => simp only [if_true]; exact gpush_map _ _ h ch m c
  | false => simp only [Bool.false_eq_true, if_false]; exact h c

/-- the application-level calls on the server -/
theorem fstep_sim_srv (a : AEAD) (cid : Nat) {fs : FS} {g : GFS} (hg : FSGood fs) (sim : SimFS fs g) (op : FSOp)
    (hrg : FSOpInRange fs op)
    (hk : match op with
      | .srvSend .. | .srvRecv _ | .srvTick _ | .srvDisconnect => True
      | _ => False) :
    match fs.step a cid (cutOp op) with
    | some fs' => ∃ g', g.step a cid op = some g' ∧ SimFS fs' g' ∧ FSGood fs'
    | none => g.step a cid op = none := by
  obtain ⟨mrss, hrs⟩ := sim.rs
  have hsg := hg.srv
  cases op with
  | srvSend ch m =>
    have tie := server_send_message_eq (ε := Empty) mrss fs.s.renet cid ch m hsg.sorted
      (fun c hf => sendMsgOk_of (hsg.find hf) (hrg.2 (cid, c) (SMap.mem_of_find? hf)) ch m hrg.1)
    simp only [cutOp, FS.step, GFS.step, hrs]
    cases hm : fs.s.renet.sendMessage cid ch m with
    | ok rs' =>
      rw [so_map_ok tie hm]
      simp only [gacc_repr, goff_repr, gtrackSeq_repr, sim.ySeq]
      refine ⟨_, rfl, ⟨sim.tc, sim.rc, sim.ts, ⟨mrss, rfl⟩, sim.emC, sim.emS, rfl, sim.subC, sim.subCU, sim.obtS, ?_, ?_,
        sim.obtC⟩, ⟨hg.cli, hsg.sendMessage hm, hg.ncC, hg.ncS⟩⟩
      · intro c
        exact gpush_if_map _ _ _ sim.subS ch m c
      · intro c
        exact gpush_if_map _ _ _ sim.subSU ch m c
    | err e => exact nomatch e
    | panic msg =>
      obtain ⟨m', e⟩ := so_map_panic tie hm
      rw [e]
  | srvRecv ch =>
    have tie := server_receive_message_eq (ε := Empty) mrss fs.s.renet cid ch hsg.sorted
      (fun c hf => recvOk_of (hsg.find hf) (hrg (cid, c) (SMap.mem_of_find? hf)) ch)
    simp only [cutOp, FS.step, GFS.step, hrs]
    cases hm : fs.s.renet.receiveMessage cid ch with
    | ok v =>
      obtain ⟨rs', o⟩ := v
      rw [so_map_ok tie hm]
      cases o with
      | none =>
        simp only [Option.map_none, gtrackSeq_repr, sim.ySeq]
        exact ⟨_, rfl, ⟨sim.tc, sim.rc, sim.ts, ⟨mrss, rfl⟩, sim.emC, sim.emS, rfl, sim.subC, sim.subCU, sim.obtS, sim.subS,
          sim.subSU, sim.obtC⟩, ⟨hg.cli, hsg.receiveMessage hm, hg.ncC, hg.ncS⟩⟩
      | some msg =>
        simp only [Option.map_some, gtrackSeq_repr, sim.ySeq]
        exact ⟨_, rfl, ⟨sim.tc, sim.rc, sim.ts, ⟨mrss, rfl⟩, sim.emC, sim.emS, rfl, sim.subC, sim.subCU,
          gpush_map _ _ sim.obtS ch msg, sim.subS, sim.subSU, sim.obtC⟩, ⟨hg.cli, hsg.receiveMessage hm, hg.ncC, hg.ncS⟩⟩
    | err e => exact nomatch e
    | panic msg =>
      obtain ⟨m', e⟩ := so_map_panic tie hm
      rw [e]
  | srvTick dt =>
    have tie := server_update_eq (ε := Empty) mrss fs.s.renet dt
      (fun p hp => updateOk_of (hsg.conns p hp) (hrg.1 p hp) dt (hrg.2 p hp))
    simp only [cutOp, FS.step, GFS.step, hrs]
    cases hm : fs.s.renet.update dt with
    | ok rs' =>
      rw [so_map_ok tie hm]
      simp only [gtrackSeq_repr, sim.ySeq]
      exact ⟨_, rfl, ⟨sim.tc, sim.rc, sim.ts, ⟨mrss, rfl⟩, sim.emC, sim.emS, rfl, sim.subC, sim.subCU, sim.obtS, sim.subS,
        sim.subSU, sim.obtC⟩, ⟨hg.cli, hsg.update hm, hg.ncC, hg.ncS⟩⟩
    | err e => exact nomatch e
    | panic msg =>
      obtain ⟨m', e⟩ := so_map_panic tie hm
      rw [e]
  | srvDisconnect =>
    have e := server_disconnect_eq (ε := Empty) mrss fs.s.renet cid hsg.sorted
    simp only [cutOp, FS.step, GFS.step, hrs, e, gtrackSeq_repr, sim.ySeq]
    exact ⟨_, rfl, ⟨sim.tc, sim.rc, sim.ts, ⟨mrss, rfl⟩, sim.emC, sim.emS, rfl, sim.subC, sim.subCU, sim.obtS, sim.subS,
      sim.subSU, sim.obtC⟩, ⟨hg.cli, hsg.disconnect cid, hg.ncC, hg.ncS⟩⟩
  | cliSend ch m => exact hk.elim
  | cliRecv ch => exact hk.elim
  | cliTick dt => exact hk.elim
  | cliDisconnect => exact hk.elim
  | cliUpdate d inbox => exact hk.elim
  | cliSendPackets => exact hk.elim
  | cliTransportDisconnect => exact hk.elim
  | srvUpdate d inbox => exact hk.elim
  | srvSendPackets => exact hk.elim
  | srvDisconnectAll => exact hk.elim

/-- the transport calls (`update`, `send_packets` of both transports, `disconnect_all`), from their per-call ties -/
theorem fstep_sim_tr (a : AEAD) (cid : Nat) {fs : FS} {g : GFS} (hg : FSGood fs) (sim : SimFS fs g) (op : FSOp)
    (ht : OpTie a fs op)
    (hk : match op with
      | .cliUpdate .. | .cliSendPackets | .srvUpdate .. | .srvSendPackets | .srvDisconnectAll => True
      | _ => False) :
    match fs.step a cid (cutOp op) with
    | some fs' => ∃ g', g.step a cid op = some g' ∧ SimFS fs' g' ∧ FSGood fs'
    | none => g.step a cid op = none := by
  cases op with
  | cliUpdate d inbox =>
    obtain ⟨rest, out, o, buf, ho, hb, htc⟩ := sim.tc
    obtain ⟨mrs, hrc⟩ := sim.rc
    have e0 : ({ g.tc with socket := sockOf inbox } : SClientTransport) = ctrR inbox #[] o fs.c.netcode buf := by
      rw [htc]; rfl
    have T := ht mrs o buf ho hb
    have hmod : clientUpdate a fs.c d (inbox.map (recvFrom C.TRANSPORT_CLIENT_BUFFER)) =
        clientUpdateFrom a fs.c d (inbox.map (recvFrom C.TRANSPORT_CLIENT_BUFFER)) #[] := clientUpdate_eq_from a fs.c d _
    simp only [cutOp, FS.step, GFS.step, e0, hrc, hmod]
    cases hm : clientUpdateFrom a fs.c d (inbox.map (recvFrom C.TRANSPORT_CLIENT_BUFFER)) #[] with
    | ok r =>
      rw [hm] at T
      obtain ⟨rest', o', buf', gr', ho', hb', hI, ⟨hgd, mrs', hgr⟩, hgen⟩ := T
      rw [hgen]
      cases hres : r.result with
      | ok u =>
        exact ⟨_, rfl, ⟨⟨rest', r.out, o', buf', ho', hb', rfl⟩, ⟨mrs', hgr⟩, sim.ts, sim.rs, sim.emC, sim.emS, sim.ySeq, sim.subC,
          sim.subCU, sim.obtS, sim.subS, sim.subSU, sim.obtC⟩, ⟨hgd, hg.srv, hI, hg.ncS⟩⟩
      | error er =>
        exact ⟨_, rfl, ⟨⟨rest', r.out, o', buf', ho', hb', rfl⟩, ⟨mrs', hgr⟩, sim.ts, sim.rs, sim.emC, sim.emS, sim.ySeq, sim.subC,
          sim.subCU, sim.obtS, sim.subS, sim.subSU, sim.obtC⟩, ⟨hgd, hg.srv, hI, hg.ncS⟩⟩
    | err e => exact nomatch e
    | panic msg =>
      rw [hm] at T
      obtain ⟨m', e⟩ := T
      rw [e]
  | cliSendPackets =>
    obtain ⟨rest, out, o, buf, ho, hb, htc⟩ := sim.tc
    obtain ⟨mrs, hrc⟩ := sim.rc
    have e0 : ({ g.tc with socket := clearLog g.tc.socket } : SClientTransport) = ctrR rest #[] o fs.c.netcode buf := by
      rw [htc]; rfl
    have T := ht mrs rest o buf ho
    have hmod : clientSendPackets a fs.c = clientSendPacketsFrom a fs.c #[] := rfl
    simp only [cutOp, FS.step, GFS.step, e0, hrc, hmod]
    cases hm : clientSendPacketsFrom a fs.c #[] with
    | ok v =>
      obtain ⟨res, g', out'⟩ := v
      rw [hm] at T
      obtain ⟨o', buf', gr', ho', hb', hI, ⟨hgd, mrs', hgr⟩, hgen⟩ := T
      rw [hgen]
      cases res with
      | ok u =>
        refine ⟨_, rfl, ⟨⟨rest, out', o', buf', ho', by rw [hb', hb], rfl⟩, ⟨mrs', hgr⟩, sim.ts, sim.rs, ?_, sim.emS, sim.ySeq, sim.subC,
          sim.subCU, sim.obtS, sim.subS, sim.subSU, sim.obtC⟩, ⟨hgd, hg.srv, hI, hg.ncS⟩⟩
        show g.emC ++ (ctrR rest out' o' g'.netcode buf').socket.outbox = (fs.emC ++ out'.toList).map reprDgram
        rw [ctrR_outbox, sim.emC, List.map_append]
      | error er =>
        refine ⟨_, rfl, ⟨⟨rest, out', o', buf', ho', by rw [hb', hb], rfl⟩, ⟨mrs', hgr⟩, sim.ts, sim.rs, ?_, sim.emS, sim.ySeq, sim.subC,
          sim.subCU, sim.obtS, sim.subS, sim.subSU, sim.obtC⟩, ⟨hgd, hg.srv, hI, hg.ncS⟩⟩
        show g.emC ++ (ctrR rest out' o' g'.netcode buf').socket.outbox = (fs.emC ++ out'.toList).map reprDgram
        rw [ctrR_outbox, sim.emC, List.map_append]
    | err e => exact nomatch e
    | panic msg =>
      rw [hm] at T
      obtain ⟨m', e⟩ := T
      rw [e]
  | srvUpdate d inbox =>
    obtain ⟨rest, out, o, buf, ho, hb, hts⟩ := sim.ts
    obtain ⟨mrss, hrs⟩ := sim.rs
    have e0 : ({ g.ts with socket := sockOf inbox } : SServerTransport) = trR inbox #[] o fs.s.netcode buf := by
      rw [hts]; rfl
    have T := ht mrss o buf ho hb
    have hmod : serverUpdate a fs.s d (inbox.map (recvFrom C.TRANSPORT_SERVER_BUFFER)) =
        serverUpdateFrom a fs.s d (inbox.map (recvFrom C.TRANSPORT_SERVER_BUFFER)) #[] := rfl
    simp only [cutOp, FS.step, GFS.step, e0, hrs, hmod]
    unfold TrOut at T
    cases hm : serverUpdateFrom a fs.s d (inbox.map (recvFrom C.TRANSPORT_SERVER_BUFFER)) #[] with
    | ok v =>
      obtain ⟨g', out'⟩ := v
      rw [hm] at T
      obtain ⟨o', buf', gr', ho', hb', hI, ⟨hgd, mrss', hgr⟩, hgen⟩ := T
      rw [hgen]
      simp only [hgr, gtrackSeq_repr, sim.ySeq]
      exact ⟨_, rfl, ⟨sim.tc, sim.rc, ⟨[], out', o', buf', ho', hb', rfl⟩, ⟨mrss', rfl⟩, sim.emC, sim.emS, rfl, sim.subC,
        sim.subCU, sim.obtS, sim.subS, sim.subSU, sim.obtC⟩, ⟨hg.cli, hgd, hg.ncC, hI⟩⟩
    | err e => exact nomatch e
    | panic msg =>
      rw [hm] at T
      obtain ⟨m', e⟩ := T
      rw [e]
  | srvSendPackets =>
    obtain ⟨rest, out, o, buf, ho, hb, hts⟩ := sim.ts
    obtain ⟨mrss, hrs⟩ := sim.rs
    have e0 : ({ g.ts with socket := clearLog g.ts.socket } : SServerTransport) = trR rest #[] o fs.s.netcode buf := by
      rw [hts]; rfl
    have T := ht mrss rest o buf ho
    have hmod : serverSendPackets a fs.s = serverSendLoop a fs.s fs.s.renet.clientsId #[] := rfl
    simp only [cutOp, FS.step, GFS.step, e0, hrs, hmod]
    unfold TrOut at T
    cases hm : serverSendLoop a fs.s fs.s.renet.clientsId #[] with
    | ok v =>
      obtain ⟨g', out'⟩ := v
      rw [hm] at T
      obtain ⟨o', buf', gr', ho', hb', hI, ⟨hgd, mrss', hgr⟩, hgen⟩ := T
      rw [hgen]
      simp only [hgr, gtrackSeq_repr, sim.ySeq]
      refine ⟨_, rfl, ⟨sim.tc, sim.rc, ⟨rest, out', o', buf', ho', by rw [hb', hb], rfl⟩, ⟨mrss', rfl⟩, sim.emC, ?_, rfl, sim.subC,
        sim.subCU, sim.obtS, sim.subS, sim.subSU, sim.obtC⟩, ⟨hg.cli, hgd, hg.ncC, hI⟩⟩
      show g.emS ++ (trR rest out' o' g'.netcode buf').socket.outbox = (fs.emS ++ out'.toList).map reprDgram
      rw [trR_outbox, sim.emS, List.map_append]
    | err e => exact nomatch e
    | panic msg =>
      rw [hm] at T
      obtain ⟨m', e⟩ := T
      rw [e]
  | srvDisconnectAll =>
    obtain ⟨rest, out, o, buf, ho, hb, hts⟩ := sim.ts
    obtain ⟨mrss, hrs⟩ := sim.rs
    have e0 : ({ g.ts with socket := clearLog g.ts.socket } : SServerTransport) = trR rest #[] o fs.s.netcode buf := by
      rw [hts]; rfl
    have T := ht mrss rest o buf ho
    have hmod : serverDisconnectAll a fs.s = serverIdLoop (fun ns id => ns.disconnect a id) fs.s fs.s.netcode.clientsId #[] := rfl
    simp only [cutOp, FS.step, GFS.step, e0, hrs, hmod]
    unfold TrOut at T
    cases hm : serverIdLoop (fun ns id => ns.disconnect a id) fs.s fs.s.netcode.clientsId #[] with
    | ok v =>
      obtain ⟨g', out'⟩ := v
      rw [hm] at T
      obtain ⟨o', buf', gr', ho', hb', hI, ⟨hgd, mrss', hgr⟩, hgen⟩ := T
      rw [hgen]
      simp only [hgr, gtrackSeq_repr, sim.ySeq]
      exact ⟨_, rfl, ⟨sim.tc, sim.rc, ⟨rest, out', o', buf', ho', by rw [hb', hb], rfl⟩, ⟨mrss', rfl⟩, sim.emC, sim.emS, rfl, sim.subC,
        sim.subCU, sim.obtS, sim.subS, sim.subSU, sim.obtC⟩, ⟨hg.cli, hgd, hg.ncC, hI⟩⟩
    | err e => exact nomatch e
    | panic msg =>
      rw [hm] at T
      obtain ⟨m', e⟩ := T
      rw [e]
  | cliSend ch m => exact hk.elim
  | cliRecv ch => exact hk.elim
  | cliTick dt => exact hk.elim
  | cliDisconnect => exact hk.elim
  | cliTransportDisconnect => exact hk.elim
  | srvSend ch m => exact hk.elim
  | srvRecv ch => exact hk.elim
  | srvTick dt => exact hk.elim
  | srvDisconnect => exact hk.elim

/-! ## the per-call ties from the LOCAL condition of the call (`SrcTieTrLocal.lean`) -/

/-- the local condition of one transport call: `ConnInRange` at every model state the glue loop of THIS call reaches where a
    renet `process_packet(_from)` / `get_packets_to_send` is made (decidable; nothing for the other nine operations) -/
def OpLocalOk (a : AEAD) (fs : FS) : FSOp → Prop
  | .cliUpdate _ inbox => CliUpdateOk a fs.c (inbox.map (recvFrom C.TRANSPORT_CLIENT_BUFFER))
  | .cliSendPackets =>
    match fs.c.netcode.disconnectReason with
    | none => ConnInRange fs.c.renet
    | some _ => True
  | .srvUpdate d inbox => SrvUpdateOk a fs.s d (inbox.map (recvFrom C.TRANSPORT_SERVER_BUFFER)) #[]
  | .srvSendPackets => SendLoopOk a fs.s fs.s.renet.clientsId #[]
  | .srvDisconnectAll => IdLoopOk (fun ns id => ns.disconnect a id) fs.s fs.s.netcode.clientsId #[]
  | _ => True

instance (a : AEAD) (fs : FS) (op : FSOp) : Decidable (OpLocalOk a fs op) := by
  cases op <;> unfold OpLocalOk <;> try infer_instance
  cases fs.c.netcode.disconnectReason <;> infer_instance

/-- **the per-call transport ties hold under the local condition** -/
theorem opTie_of_local (a : AEAD) (hl : a.Laws) {fs : FS} (hg : FSGood fs) (op : FSOp) (hrg : FSOpInRange fs op)
    (hloc : OpLocalOk a fs op) : OpTie a fs op := by
  cases op with
  | cliUpdate d inbox =>
    intro mrs o buf ho hb
    have T := SrcTie.ctr_update_local a hl fs.c mrs hg.ncC hg.cli d inbox hrg #[] o buf ho hb hloc
    cases hm : clientUpdateFrom a fs.c d (inbox.map (recvFrom C.TRANSPORT_CLIENT_BUFFER)) #[] with
    | ok r =>
      rw [hm] at T
      obtain ⟨rest, -, h⟩ := T
      exact ⟨rest, h⟩
    | err e => exact nomatch e
    | panic msg => rw [hm] at T; exact T
  | cliSendPackets =>
    intro mrs rest o buf ho
    exact SrcTie.ctr_send_packets_local a hl fs.c mrs hg.ncC hg.cli rest #[] o buf ho
      (fun h => by simp only [OpLocalOk, h] at hloc; exact hloc)
  | srvUpdate d inbox =>
    intro mrss o buf ho hb
    exact SrcTie.tr_update_local a hl fs.s mrss hg.ncS hg.srv d inbox hrg #[] o buf ho hb hloc
  | srvSendPackets =>
    intro mrss rest o buf ho
    exact SrcTie.tr_send_packets_local (ε := Empty) a hl fs.s mrss hg.ncS hg.srv rest #[] o buf ho hloc
  | srvDisconnectAll =>
    intro mrss rest o buf ho
    exact SrcTie.tr_disconnect_all_local (ε := Empty) a hl fs.s mrss hg.ncS hg.srv rest #[] o buf ho hloc
  | cliSend ch m => trivial
  | cliRecv ch => trivial
  | cliTick dt => trivial
  | cliDisconnect => trivial
  | cliTransportDisconnect => trivial
  | srvSend ch m => trivial
  | srvRecv ch => trivial
  | srvTick dt => trivial
  | srvDisconnect => trivial

/-- **one operation** (all 14): from related states, in range and with the per-call transport tie, the generated step
    succeeds iff the model step (on the cut inbox) does, and the results are related -/
theorem fstep_sim (a : AEAD) (hl : a.Laws) (cid : Nat) {fs : FS} {g : GFS} (hg : FSGood fs) (sim : SimFS fs g) (op : FSOp)
    (hrg : FSOpInRange fs op) (ht : OpTie a fs op) :
    match fs.step a cid (cutOp op) with
    | some fs' => ∃ g', g.step a cid op = some g' ∧ SimFS fs' g' ∧ FSGood fs'
    | none => g.step a cid op = none := by
  cases op with
  | cliSend ch m => exact fstep_sim_cli a hl cid hg sim _ hrg trivial
  | cliRecv ch => exact fstep_sim_cli a hl cid hg sim _ hrg trivial
  | cliTick dt => exact fstep_sim_cli a hl cid hg sim _ hrg trivial
  | cliDisconnect => exact fstep_sim_cli a hl cid hg sim _ hrg trivial
  | cliTransportDisconnect => exact fstep_sim_cli a hl cid hg sim _ hrg trivial
  | srvSend ch m => exact fstep_sim_srv a cid hg sim _ hrg trivial
  | srvRecv ch => exact fstep_sim_srv a cid hg sim _ hrg trivial
  | srvTick dt => exact fstep_sim_srv a cid hg sim _ hrg trivial
  | srvDisconnect => exact fstep_sim_srv a cid hg sim _ hrg trivial
  | cliUpdate d inbox => exact fstep_sim_tr a cid hg sim _ ht trivial
  | cliSendPackets => exact fstep_sim_tr a cid hg sim _ ht trivial
  | srvUpdate d inbox => exact fstep_sim_tr a cid hg sim _ ht trivial
  | srvSendPackets => exact fstep_sim_tr a cid hg sim _ ht trivial
  | srvDisconnectAll => exact fstep_sim_tr a cid hg sim _ ht trivial

/-! ## runs -/

/-- **the side condition of a run** (decidable): before every operation (as far as the model run on the cut inboxes gets)
    the range condition `FSOpInRange` of the state and the local condition `OpLocalOk` of the transport call -/
def FSRunOK (a : AEAD) (cid : Nat) (fs : FS) : List FSOp → Prop
  | [] => True
  | op :: ops => FSOpInRange fs op ∧ OpLocalOk a fs op ∧
      match fs.step a cid (cutOp op) with
      | some fs' => FSRunOK a cid fs' ops
      | none => True

instance decFSRunOK (a : AEAD) (cid : Nat) : ∀ (fs : FS) (ops : List FSOp), Decidable (FSRunOK a cid fs ops)
  | _, [] => isTrue trivial
  | fs, op :: ops => by
    unfold FSRunOK
    have : Decidable (match fs.step a cid (cutOp op) with | some fs' => FSRunOK a cid fs' ops | none => True) := by
      cases fs.step a cid (cutOp op) with
      | none => exact isTrue trivial
      | some fs' => exact decFSRunOK a cid fs' ops
    infer_instance

/-- the state-range part alone -/
def FSRunInRange (a : AEAD) (cid : Nat) (fs : FS) : List FSOp → Prop
  | [] => True
  | op :: ops => FSOpInRange fs op ∧
      match fs.step a cid (cutOp op) with
      | some fs' => FSRunInRange a cid fs' ops
      | none => True

instance decFSRunInRange (a : AEAD) (cid : Nat) : ∀ (fs : FS) (ops : List FSOp), Decidable (FSRunInRange a cid fs ops)
  | _, [] => isTrue trivial
  | fs, op :: ops => by
    unfold FSRunInRange
    have : Decidable (match fs.step a cid (cutOp op) with | some fs' => FSRunInRange a cid fs' ops | none => True) := by
      cases fs.step a cid (cutOp op) with
      | none => exact isTrue trivial
      | some fs' => exact decFSRunInRange a cid fs' ops
    infer_instance

theorem frun_sim_from (a : AEAD) (hl : a.Laws) (cid : Nat) : ∀ (ops : List FSOp) (fs : FS) (g : GFS), FSGood fs → SimFS fs g →
    FSRunOK a cid fs ops →
    match fs.run a cid (ops.map cutOp) with
    | some fs' => ∃ g', g.run a cid ops = some g' ∧ SimFS fs' g' ∧ FSGood fs'
    | none => g.run a cid ops = none := by
  intro ops
  induction ops with
  | nil => intro fs g hg hsim _; exact ⟨g, rfl, hsim, hg⟩
  | cons op ops ih =>
    intro fs g hg hsim hok
    obtain ⟨hrg, hloc, hrest⟩ := hok
    have hstep := fstep_sim a hl cid hg hsim op hrg (opTie_of_local a hl hg op hrg hloc)
    simp only [List.map_cons, FS.run, GFS.run]
    cases hs : fs.step a cid (cutOp op) with
    | none =>
      rw [hs] at hstep
      simp only [hstep]
    | some fs' =>
      rw [hs] at hstep hrest
      obtain ⟨g', e, hsim', hg'⟩ := hstep
      simp only [e]
      exact ih fs' g' hg' hsim' hrest

/-- **`frun_sim`, model → generated** -/
theorem frun_sim (a : AEAD) (hl : a.Laws) (cid : Nat) (ops : List FSOp) (fs0 fs : FS) (g0 : GFS) (hg : FSGood fs0)
    (hsim : SimFS fs0 g0) (hok : FSRunOK a cid fs0 ops) (hr : fs0.run a cid (ops.map cutOp) = some fs) :
    ∃ g, g0.run a cid ops = some g ∧ SimFS fs g ∧ FSGood fs := by
  have := frun_sim_from a hl cid ops fs0 g0 hg hsim hok
  rw [hr] at this
  exact this

/-- **`frun_sim_conv`, generated → model**: if the generated run returns normally, so does the model run (on the cut
    inboxes), in a related state -/
theorem frun_sim_conv (a : AEAD) (hl : a.Laws) (cid : Nat) (ops : List FSOp) (fs0 : FS) (g0 g : GFS) (hg : FSGood fs0)
    (hsim : SimFS fs0 g0) (hok : FSRunOK a cid fs0 ops) (hr : g0.run a cid ops = some g) :
    ∃ fs, fs0.run a cid (ops.map cutOp) = some fs ∧ SimFS fs g ∧ FSGood fs := by
  have := frun_sim_from a hl cid ops fs0 g0 hg hsim hok
  cases hm : fs0.run a cid (ops.map cutOp) with
  | none => rw [hm] at this; rw [hr] at this; cases this
  | some fs =>
    rw [hm] at this
    obtain ⟨g', e, hs, hgd⟩ := this
    rw [hr] at e; cases e
    exact ⟨fs, rfl, hs, hgd⟩

/-- the canonical generated representation of a model state (zeroed buffers, empty sockets) -/
def gOf (fs : FS) : GFS :=
  { tc := ctrR [] #[] (List.replicate C.NETCODE_MAX_PACKET_BYTES 0) fs.c.netcode (List.replicate C.TRANSPORT_CLIENT_BUFFER 0)
    rc := reprConn (fun _ => 0) fs.c.renet
    ts := trR [] #[] (List.replicate C.NETCODE_MAX_PACKET_BYTES 0) fs.s.netcode (List.replicate C.TRANSPORT_SERVER_BUFFER 0)
    rs := reprServer (fun _ _ => 0) fs.s.renet
    emC := fs.emC.map reprDgram, emS := fs.emS.map reprDgram, ySeq := fs.ySeq
    subC := fun ch => (fs.subC ch).map toNats, subCU := fun ch => (fs.subCU ch).map toNats
    obtS := fun ch => (fs.obtS ch).map toNats, subS := fun ch => (fs.subS ch).map toNats
    subSU := fun ch => (fs.subSU ch).map toNats, obtC := fun ch => (fs.obtC ch).map toNats }

theorem simFS_gOf (fs : FS) : SimFS fs (gOf fs) :=
  ⟨⟨[], #[], _, _, List.length_replicate, List.length_replicate, rfl⟩, ⟨_, rfl⟩,
   ⟨[], #[], _, _, List.length_replicate, List.length_replicate, rfl⟩, ⟨_, rfl⟩, rfl, rfl, rfl, fun _ => rfl, fun _ => rfl,
   fun _ => rfl, fun _ => rfl, fun _ => rfl, fun _ => rfl⟩

/-! ## the counter hypotheses of `Props/C20F.lean`, on the generated state -/

structure GCountersUp (cfg : Cfg) (g : GFS) : Prop where
  chan : ∀ c ∈ cfg.send, c.id < 256
  seq : g.rc.packet_sequence ≤ Varint.MAX + 1
  ids : ∀ c ∈ cfg.send, (g.subC c.id).length ≤ Varint.MAX + 1
  lens : ∀ c ∈ cfg.send, ∀ m ∈ g.subC c.id, m.length ≤ MAX_NUM_SLICES * SLICE_SIZE
  lensU : ∀ c ∈ cfg.send, ∀ m ∈ g.subCU c.id, m.length ≤ MAX_NUM_SLICES * SLICE_SIZE

structure GCountersDown (cfg : Cfg) (g : GFS) : Prop where
  chan : ∀ c ∈ cfg.recv, c.id < 256
  seq : g.ySeq ≤ Varint.MAX + 1
  ids : ∀ c ∈ cfg.recv, (g.subS c.id).length ≤ Varint.MAX + 1
  lens : ∀ c ∈ cfg.recv, ∀ m ∈ g.subS c.id, m.length ≤ MAX_NUM_SLICES * SLICE_SIZE
  lensU : ∀ c ∈ cfg.recv, ∀ m ∈ g.subSU c.id, m.length ≤ MAX_NUM_SLICES * SLICE_SIZE

theorem countersUp_of_sim {cfg : Cfg} {fs : FS} {g : GFS} (sim : SimFS fs g) (hc : GCountersUp cfg g) : CountersUp cfg fs := by
  obtain ⟨mrs, hrc⟩ := sim.rc
  refine ⟨hc.chan, ?_, fun c hcs => ?_, fun c hcs => len_le_of_map (sim.subC c.id) (hc.lens c hcs),
    fun c hcs => len_le_of_map (sim.subCU c.id) (hc.lensU c hcs)⟩
  · have h := hc.seq
    rw [hrc] at h
    exact h
  · have := hc.ids c hcs
    rw [sim.subC, List.length_map] at this
    exact this

theorem countersDown_of_sim {cfg : Cfg} {fs : FS} {g : GFS} (sim : SimFS fs g) (hc : GCountersDown cfg g) :
    CountersDown cfg fs := by
  refine ⟨hc.chan, ?_, fun c hcs => ?_, fun c hcs => len_le_of_map (sim.subS c.id) (hc.lens c hcs),
    fun c hcs => len_le_of_map (sim.subSU c.id) (hc.lensU c hcs)⟩
  · rw [← sim.ySeq]; exact hc.seq
  · have := hc.ids c hcs
    rw [sim.subS, List.length_map] at this
    exact this

/-! ## the per-call ties from the closed ties of `SrcTieTrClosed.lean`

  For a range predicate `Rg` with `RangeClosed Rg` (it implies the range conditions and is kept by `process_packet`,
  `get_packets_to_send`, `disconnect_with_reason`, `set_connected`, `set_connecting` on EVERY input) that holds of the client's
  connection, of every connection of the server table and of a fresh connection, every `OpTie` holds.
  CAVEAT: `RangeClosed Rg` asks `Rg` to survive arbitrarily long sequences of `process_packet` / `get_packets_to_send`, along
  which `packet_sequence` grows without bound while `Rg` must imply `flushSeq ≤ 2^60`; so for a LIVE connection no such `Rg`
  holds, and this derivation is of use only for connections that are already disconnected.  What is missing for live sessions
  is a version of the transport ties whose renet-side hypothesis is stated along the model's run of the ONE call (as `LocalOk`
  does for `process_local_client`), from which `OpTie` would follow under a bounded, decidable range condition. -/

theorem _root_.RenetVerif.SrcEquiv.RecvNodup.setConnecting {c : Conn} (h : RecvNodup c) : RecvNodup c.setConnecting := by
  unfold Conn.setConnecting; split
  · exact h
  · exact h.of_eq rfl

theorem rangeClosed_nodup {Rg : Conn → Prop} (hR : RangeClosed Rg) : RangeClosed (fun c => Rg c ∧ RecvNodup c) :=
  ⟨fun h => hR.send h.1, fun h => hR.recv h.1, fun h => hR.sendB h.1, fun h r => ⟨hR.dw h.1 r, h.2.disconnectWith r⟩,
   fun h => ⟨hR.sc h.1, h.2.setConnected⟩, fun h => ⟨hR.sg h.1, h.2.setConnecting⟩,
   fun h hr => ⟨hR.pp h.1 hr, recvNodup_processPacket h.2 hr⟩, fun h hr => ⟨hR.gp h.1 hr, recvNodup_getPacketsToSend h.2 hr⟩⟩

theorem connGood_of {Rg : Conn → Prop} {c : Conn} (h : EpGood c) (hr : Rg c) : ConnGood (fun c => Rg c ∧ RecvNodup c) c :=
  ⟨h.sinv, h.sorted, h.tinv, hr, h.nodup⟩
theorem epGood_of_connGood {Rg : Conn → Prop} {c : Conn} (h : ConnGood (fun c => Rg c ∧ RecvNodup c) c) : EpGood c :=
  ⟨h.sinv, h.sorted, h.tinv, h.rg.2⟩

theorem serverGood_of {Rg : Conn → Prop} {s : Server} (h : SGood s) (hr : ∀ x ∈ s.conns, Rg x.2)
    (hf : Rg s.newConn.setConnected) : ServerGood (fun c => Rg c ∧ RecvNodup c) s :=
  ⟨h.sorted, h.cfg, fun x hx => connGood_of (h.conns x hx) (hr x hx), hf, (epGood_newConn s).nodup⟩
theorem sGood_of_serverGood {Rg : Conn → Prop} {s : Server} (h : ServerGood (fun c => Rg c ∧ RecvNodup c) s) : SGood s :=
  ⟨h.sorted, h.cfg, fun x hx => epGood_of_connGood (h.conns x hx)⟩

theorem cliTrOut_mono {R R' : Conn → SRenetClient → Prop} {I : NetcodeClient → Prop} {bl : Nat} {res : Except TransportError Unit}
    {g' : ClientGlue} {out' : Array Dgram} {rest : List Dgram} {x : Res CTrErr (SClientTransport × SRenetClient × Unit)}
    (himp : ∀ c g, R c g → R' c g) (h : CliTrOut R I bl res g' out' rest x) : CliTrOut R' I bl res g' out' rest x := by
  obtain ⟨o', buf', gr', h1, h2, h3, h4, h5⟩ := h
  exact ⟨o', buf', gr', h1, h2, h3, himp _ _ h4, h5⟩

theorem trOut_mono {ε : Type} {R R' : Server → SRenetServer → Prop} {I : NetcodeServer → Prop} {inbox : List Dgram} {bl : Nat}
    {m : Res Empty (ServerGlue × Array Dgram)} {x : Res ε (SServerTransport × SRenetServer × Unit)}
    (himp : ∀ s g, R s g → R' s g) (h : TrOut R I inbox bl m x) : TrOut R' I inbox bl m x := by
  unfold TrOut at h ⊢
  cases m with
  | ok v =>
    obtain ⟨g', out'⟩ := v
    obtain ⟨o', buf', gr', h1, h2, h3, h4, h5⟩ := h
    exact ⟨o', buf', gr', h1, h2, h3, himp _ _ h4, h5⟩
  | err e => exact nomatch e
  | panic msg => exact h

/-- the per-call ties from a run-closed range predicate (see the caveat above) -/
theorem opTie_of_closed (a : AEAD) (hl : a.Laws) {Rg : Conn → Prop} (hR : RangeClosed Rg) {fs : FS} (hg : FSGood fs)
    (hc : Rg fs.c.renet) (hs : ∀ x ∈ fs.s.renet.conns, Rg x.2) (hf : Rg fs.s.renet.newConn.setConnected) (op : FSOp)
    (hrg : FSOpInRange fs op) : OpTie a fs op := by
  have hR' := rangeClosed_nodup hR
  have hcg := connGood_of hg.cli hc
  have hsg := serverGood_of hg.srv hs hf
  have hci : ∀ c g, (ConnGood (fun c => Rg c ∧ RecvNodup c) c ∧ ∃ mrs, g = reprConn mrs c) → RcRel c g :=
    fun c g h => ⟨epGood_of_connGood h.1, h.2⟩
  have hsi : ∀ s g, (ServerGood (fun c => Rg c ∧ RecvNodup c) s ∧ ∃ mrss, g = reprServer mrss s) → RsRel s g :=
    fun s g h => ⟨sGood_of_serverGood h.1, h.2⟩
  cases op with
  | cliUpdate d inbox =>
    intro mrs o buf ho hb
    have T := SrcTie.ctr_update_closed a hl hR' fs.c mrs hg.ncC hcg d inbox hrg #[] o buf ho hb
    cases hm : clientUpdateFrom a fs.c d (inbox.map (recvFrom C.TRANSPORT_CLIENT_BUFFER)) #[] with
    | ok r =>
      rw [hm] at T
      obtain ⟨rest, -, h⟩ := T
      exact ⟨rest, cliTrOut_mono hci h⟩
    | err e => exact nomatch e
    | panic msg => rw [hm] at T; exact T
  | cliSendPackets =>
    intro mrs rest o buf ho
    have T := SrcTie.ctr_send_packets_closed a hl hR' fs.c mrs hg.ncC hcg rest #[] o buf ho
    cases hm : clientSendPacketsFrom a fs.c #[] with
    | ok v =>
      obtain ⟨res, g', out'⟩ := v
      rw [hm] at T
      exact cliTrOut_mono hci T
    | err e => exact nomatch e
    | panic msg => rw [hm] at T; exact T
  | srvUpdate d inbox =>
    intro mrss o buf ho hb
    exact trOut_mono hsi (SrcTie.tr_update_closed a hl hR' fs.s mrss hg.ncS hsg d inbox hrg #[] o buf ho hb)
  | srvSendPackets =>
    intro mrss rest o buf ho
    exact trOut_mono hsi (SrcTie.tr_send_packets_closed (ε := Empty) a hl hR' fs.s mrss hg.ncS hsg rest #[] o buf ho)
  | srvDisconnectAll =>
    intro mrss rest o buf ho
    exact trOut_mono hsi (SrcTie.tr_disconnect_all_closed (ε := Empty) a hl hR' fs.s mrss hg.ncS hsg rest #[] o buf ho)
  | cliSend ch m => trivial
  | cliRecv ch => trivial
  | cliTick dt => trivial
  | cliDisconnect => trivial
  | cliTransportDisconnect => trivial
  | srvSend ch m => trivial
  | srvRecv ch => trivial
  | srvTick dt => trivial
  | srvDisconnect => trivial

/-! ## the model invariants through one transport `update` (read off the local ties) -/

/-- `NetcodeServerTransport::update` keeps `NS.ServerInv` and `SGood` (under the local condition of the call) -/
theorem srvUpdate_good (a : AEAD) (hl : a.Laws) {g g' : ServerGlue} {out : Array Dgram} (d : Nat) (inbox : List Dgram)
    (hi : NS.ServerInv g.netcode) (hg : SGood g.renet) (hin : inbox.length + 1 < 2 ^ 64)
    (hok : SrvUpdateOk a g d (inbox.map (recvFrom C.TRANSPORT_SERVER_BUFFER)) #[])
    (hm : serverUpdate a g d (inbox.map (recvFrom C.TRANSPORT_SERVER_BUFFER)) = .ok (g', out)) :
    NS.ServerInv g'.netcode ∧ SGood g'.renet := by
  have T := SrcTie.tr_update_local a hl g (fun _ _ => 0) hi hg d inbox hin #[] (List.replicate C.NETCODE_MAX_PACKET_BYTES 0)
    (List.replicate C.TRANSPORT_SERVER_BUFFER 0) List.length_replicate List.length_replicate hok
  unfold TrOut at T
  have hm' : serverUpdateFrom a g d (inbox.map (recvFrom C.TRANSPORT_SERVER_BUFFER)) #[] = .ok (g', out) := hm
  rw [hm'] at T
  obtain ⟨_, _, _, _, _, hI, ⟨hgd, _⟩, _⟩ := T
  exact ⟨hI, hgd⟩

/-- `NetcodeClientTransport::update` keeps `CliInv` and `EpGood` (under the local condition of the call) -/
theorem cliUpdate_good (a : AEAD) (hl : a.Laws) {g : ClientGlue} {r : ClientOut} (d : Nat) (inbox : List Dgram)
    (hi : CliInv g.netcode) (hg : EpGood g.renet) (hin : inbox.length + 1 < 2 ^ 64)
    (hok : CliUpdateOk a g (inbox.map (recvFrom C.TRANSPORT_CLIENT_BUFFER)))
    (hm : clientUpdate a g d (inbox.map (recvFrom C.TRANSPORT_CLIENT_BUFFER)) = .ok r) :
    CliInv r.g.netcode ∧ EpGood r.g.renet := by
  have T := SrcTie.ctr_update_local a hl g (fun _ => 0) hi hg d inbox hin #[] (List.replicate C.NETCODE_MAX_PACKET_BYTES 0)
    (List.replicate C.TRANSPORT_CLIENT_BUFFER 0) List.length_replicate List.length_replicate hok
  rw [← clientUpdate_eq_from, hm] at T
  obtain ⟨_, _, _, _, _, _, _, hI, ⟨hgd, _⟩, _⟩ := T
  exact ⟨hI, hgd⟩

end RenetVerif.SrcFullStack
