/-
  A model-level invariant the source tie of `receive_message` needs (`conn_receive_message`: hypothesis `received.Nodup`):
  the `received` list of every reliable receive channel (unordered mode: the ids already handed over or queued, a `HashSet`
  in the Rust code) has no duplicates.  Established by `from_channels`, kept by every operation (`recvNodup_*`).
-/
import RenetVerif.Lemmas.SrcEquiv.InvBridge
import RenetVerif.Lemmas.SrcEquiv.SendTimeInv
set_option linter.unusedSimpArgs false
set_option linter.unusedVariables false
namespace RenetVerif.SrcEquiv
open RenetVerif RenetVerif.C

/-- no duplicates in the `received` list of any reliable receive channel -/
def RecvNodup (c : Conn) : Prop := ∀ x ∈ c.recvRel, x.2.received.Nodup

/-! ### one channel -/

theorem advanceOldest_nodup : ∀ (f o : Nat) (rec : List Nat), rec.Nodup → (advanceOldest f o rec).2.Nodup := by
  intro f
  induction f with
  | zero => intro o rec h; exact h
  | succ f ih =>
    intro o rec h
    unfold advanceOldest
    split
    · exact ih _ _ (h.erase o)
    · exact h

theorem receive_nodup {r r' : RecvRel} {m : Option Bytes} (hn : r.received.Nodup) (h : r.receive = .ok (r', m)) :
    r'.received.Nodup := by
  unfold RecvRel.receive at h
  split at h
  · split at h
    · cases h; exact hn
    · rw [res_bind_ok_iff] at h
      obtain ⟨mem, _, h⟩ := h
      cases h; exact hn
  · split at h
    · cases h; exact hn
    · rename_i id msg rest _
      generalize hadv : (if r.oldest = id then advanceOldest (r.received.length) r.oldest r.received
        else (r.oldest, r.received)) = p at h
      obtain ⟨o, rec⟩ := p
      simp only at h
      rw [res_bind_ok_iff] at h
      obtain ⟨mem, _, h⟩ := h
      cases h
      show rec.Nodup
      split at hadv
      · have := advanceOldest_nodup r.received.length r.oldest r.received hn
        rw [hadv] at this; exact this
      · cases hadv; exact hn

/-- the channel state an outcome leaves behind has no duplicates -/
def NodupOut : RecvRelRes → Prop
  | .ok r => r.received.Nodup
  | .err (_, r) => r.received.Nodup
  | .panic _ => True

theorem nodupOut_bind {x : RecvRelRes} {f : RecvRel → RecvRelRes} (hx : NodupOut x)
    (hf : ∀ r1, r1.received.Nodup → NodupOut (f r1)) : NodupOut (x >>= f) := by
  cases x with
  | ok a => exact hf a hx
  | err e => obtain ⟨e, r⟩ := e; exact hx
  | panic s => trivial

theorem processMessage_nodupOut (r : RecvRel) (m : Bytes) (id : Nat) (hn : r.received.Nodup) :
    NodupOut (r.processMessage m id) := by
  rcases RecvRel.processMessage_cases r m id with h | ⟨_, h⟩ | ⟨_, _, rec, h, h1, h2⟩
  · rw [h]; exact hn
  · rw [h]; exact hn
  · rw [h]
    show rec.Nodup
    cases ho : r.ordered with
    | true => rw [(h1 ho).2]; exact hn
    | false =>
      obtain ⟨hnot, hrec⟩ := h2 ho
      rw [hrec]
      exact List.nodup_cons.mpr ⟨hnot, hn⟩

theorem relMsgLoop_nodupOut : ∀ (msgs : List (Nat × Bytes)) (r : RecvRel), r.received.Nodup →
    NodupOut (Conn.relMsgLoop r msgs) := by
  intro msgs
  induction msgs with
  | nil => intro r h; exact h
  | cons x rest ih =>
    intro r h
    obtain ⟨id, m⟩ := x
    unfold Conn.relMsgLoop
    have := processMessage_nodupOut r m id h
    cases hp : r.processMessage m id with
    | ok r' => rw [hp] at this; exact ih r' this
    | err e => rw [hp] at this; exact this
    | panic s => trivial

theorem processSlice_nodupOut (r : RecvRel) (sl : Slice) (hn : r.received.Nodup) : NodupOut (r.processSlice sl) := by
  rw [RecvRel.processSlice_eq]
  split
  · exact hn
  split
  · exact hn
  apply nodupOut_bind
  · unfold RecvRel.reserveStep
    split
    · exact hn
    · simp only
      split
      · exact hn
      · exact hn
  · intro r1 h1
    unfold RecvRel.sliceStep
    split
    · trivial
    · split
      · exact h1
      · split
        · trivial
        · exact h1
        · exact h1
        · unfold Res.csub
          split
          · simp only [Res.bind_ok]
            apply nodupOut_bind
            · exact processMessage_nodupOut _ _ _ h1
            · intro r2 h2; exact h2
          · trivial

/-! ### the connection -/

theorem recvNodup_fromChannels (budget : Nat) (send recv : List ChanCfg) : RecvNodup (Conn.fromChannels budget send recv) :=
  foldl_insert_mem' _ _ (fun r : RecvRel => r.received.Nodup) (fun b => List.nodup_nil) _ _ (fun x hx => by cases hx)

theorem RecvNodup.of_eq {c c' : Conn} (h : RecvNodup c) (he : c'.recvRel = c.recvRel) : RecvNodup c' := by
  unfold RecvNodup; rw [he]; exact h

theorem RecvNodup.disconnectWith {c : Conn} (h : RecvNodup c) (r : Reason) : RecvNodup (c.disconnectWith r) := by
  unfold Conn.disconnectWith; split
  · exact h
  · exact h.of_eq rfl

theorem RecvNodup.withRecvRel {c : Conn} (h : RecvNodup c) (ch : Nat) {r : RecvRel} (hr : r.received.Nodup) :
    RecvNodup { c with recvRel := SMap.insert c.recvRel ch r } :=
  CI.forall_insert (Q := fun r : RecvRel => r.received.Nodup) h ch hr

theorem recvNodup_sendMessage {c c' : Conn} {ch : Nat} {m : Bytes} (h : RecvNodup c) (hr : c.sendMessage ch m = .ok c') :
    RecvNodup c' := by
  unfold Conn.sendMessage at hr
  split at hr
  · cases hr; exact h
  · split at hr
    · split at hr
      · cases hr; exact h.of_eq rfl
      · cases hr; exact h.disconnectWith _
    · split at hr
      · cases hr; exact h.of_eq rfl
      · cases hr

theorem recvNodup_receiveMessage {c c' : Conn} {ch : Nat} {o : Option Bytes} (h : RecvNodup c)
    (hr : c.receiveMessage ch = .ok (c', o)) : RecvNodup c' := by
  unfold Conn.receiveMessage at hr
  split at hr
  · cases hr; exact h
  · split at hr
    · rename_i r hf
      rw [res_bind_ok_iff] at hr
      obtain ⟨⟨r', m⟩, h1, hr⟩ := hr
      cases hr
      exact h.withRecvRel _ (receive_nodup (h (ch, r) (SMap.mem_of_find? hf)) h1)
    · split at hr
      · rw [res_bind_ok_iff] at hr
        obtain ⟨⟨r', m⟩, _, hr⟩ := hr
        cases hr; exact h.of_eq rfl
      · cases hr

theorem recvNodup_update {c c' : Conn} {dt : Nat} (h : RecvNodup c) (hr : c.update dt = .ok c') : RecvNodup c' := by
  unfold Conn.update at hr
  rw [res_bind_ok_iff] at hr
  obtain ⟨ru, h1, hr⟩ := hr
  cases hr
  exact h.of_eq rfl

theorem recvNodup_ackOne {c c' : Conn} {seq : Nat} (h : RecvNodup c) (hr : c.ackOne seq = .ok c') : RecvNodup c' := by
  unfold Conn.ackOne at hr
  split at hr
  · cases hr
  · simp only at hr
    split at hr
    · split at hr
      · cases hr
      · rw [res_bind_ok_iff] at hr
        obtain ⟨s', _, hr⟩ := hr
        cases hr
        exact h.of_eq rfl
    · split at hr
      · cases hr
      · rw [res_bind_ok_iff] at hr
        obtain ⟨s', _, hr⟩ := hr
        cases hr
        exact h.of_eq rfl
    · cases hr; exact h.of_eq rfl
    · cases hr; exact h.of_eq rfl

theorem recvNodup_ackLoop : ∀ (l : List Nat) {c c' : Conn}, RecvNodup c → c.ackLoop l = .ok c' → RecvNodup c' := by
  intro l
  induction l with
  | nil => intro c c' h hr; cases hr; exact h
  | cons seq rest ih =>
    intro c c' h hr
    unfold Conn.ackLoop at hr
    rw [res_bind_ok_iff] at hr
    obtain ⟨c1, h1, hr⟩ := hr
    exact ih (recvNodup_ackOne h h1) hr

theorem recvNodup_processPacket {c c' : Conn} {bytes : Bytes} (h : RecvNodup c) (hr : c.processPacket bytes = .ok c') :
    RecvNodup c' := by
  unfold Conn.processPacket at hr
  split at hr
  · cases hr; exact h
  · split at hr
    · cases hr; exact h.disconnectWith _
    · rename_i p _
      have h0 : RecvNodup { c with pendingAcks := Acks.add C.ACK_RANGE_CAP p.sequence c.pendingAcks } := h.of_eq rfl
      simp only at hr
      split at hr
      · split at hr
        · cases hr; exact h0.disconnectWith _
        · rename_i r hf
          have hout := fun msgs => relMsgLoop_nodupOut msgs r (h0 (_, r) (SMap.mem_of_find? hf))
          split at hr
          · rename_i r' heq
            have hout : NodupOut (.ok r') := heq ▸ hout _
            cases hr; exact h0.withRecvRel _ hout
          · rename_i e r' heq
            have hout : NodupOut (.err (e, r')) := heq ▸ hout _
            cases hr; exact (h0.withRecvRel _ hout).disconnectWith _
          · cases hr
      · split at hr
        · cases hr; exact h0.disconnectWith _
        · cases hr; exact h0.of_eq rfl
      · split at hr
        · cases hr; exact h0.disconnectWith _
        · rename_i r hf
          have hout := fun sl => processSlice_nodupOut r sl (h0 (_, r) (SMap.mem_of_find? hf))
          split at hr
          · rename_i r' heq
            have hout : NodupOut (.ok r') := heq ▸ hout _
            cases hr; exact h0.withRecvRel _ hout
          · rename_i e r' heq
            have hout : NodupOut (.err (e, r')) := heq ▸ hout _
            cases hr; exact (h0.withRecvRel _ hout).disconnectWith _
          · cases hr
      · split at hr
        · cases hr; exact h0.disconnectWith _
        · split at hr
          · cases hr; exact h0.of_eq rfl
          · cases hr
            refine RecvNodup.disconnectWith ?_ _
            exact h0.of_eq rfl
          · cases hr
      · rw [res_bind_ok_iff] at hr
        obtain ⟨acks, _, hr⟩ := hr
        exact recvNodup_ackLoop acks h0 hr

theorem recvNodup_getPacketsToSend {c c' : Conn} {bs : List Bytes} (h : RecvNodup c)
    (hr : c.getPacketsToSend = .ok (c', bs)) : RecvNodup c' := by
  unfold Conn.getPacketsToSend at hr
  split at hr
  · cases hr; exact h
  · rw [res_bind_ok_iff] at hr
    obtain ⟨⟨sr, su, pk, seq, avail⟩, h1, hr⟩ := hr
    simp only at hr
    rw [res_bind_ok_iff] at hr
    obtain ⟨sent, _, hr⟩ := hr
    split at hr
    · cases hr; exact h.of_eq rfl
    · cases hr
      exact RecvNodup.disconnectWith (c := { c with sendRel := sr, sendUnrel := su, packetSeq := _, sent := sent })
        (h.of_eq rfl) _
    · cases hr

end RenetVerif.SrcEquiv
