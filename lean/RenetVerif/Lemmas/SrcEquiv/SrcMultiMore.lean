/-
  Helper lemmas for transporting the remaining multi-client theorems (`Props/C11E.lean`, `Props/C11L.lean`, `Props/C01M.lean`)
  along the simulation `SrcMulti.mrun_sim` / `mrun_sim_conv` to the generated system `GMulti`:

    * the range side condition of a prefix (`mrunInRange_prefix`), the relation of the two runs of a prefix
      (`msim_of_runs`), extension of a run (`mext_sim`), and the model run behind a generated run (`mrun_of_exec`);
    * `GLive u i gc gl`: client `i` is connected in the generated state `u` — read off the generated state through the
      generated `RenetClient::is_disconnected` of the server's connection for `i` (field `connections`) and of the remote
      endpoint; its transfer in both directions (`glive_model`, `glive_of_model`);
    * the counting facts on the generated logs (`gcount_facts`).
-/
import RenetVerif.Lemmas.SrcEquiv.SrcMulti
set_option linter.unusedVariables false
namespace RenetVerif.SrcMulti
open RenetVerif RenetVerif.RustSem RenetVerif.C RenetVerif.System RenetVerif.MultiSystem RenetVerif.SrcEquiv RenetVerif.SrcSystem
open Src.renet.remote_connection Src.renet.server

/-! ## the range condition of a prefix, runs of a prefix and of an extension -/

theorem mrunInRangeFrom_prefix : ∀ (ops1 ops2 : List MOp) (m : MSys), MRunInRangeFrom m (ops1 ++ ops2) → MRunInRangeFrom m ops1 := by
  intro ops1
  induction ops1 with
  | nil => intro _ _ _; trivial
  | cons op ops ih =>
    intro ops2 m h
    obtain ⟨h1, h2, h3⟩ := h
    refine ⟨h1, h2, ?_⟩
    cases hs : m.step op with
    | none => trivial
    | some m' => rw [hs] at h3; exact ih ops2 m' h3

theorem mrunInRange_prefix (P : Params) (ops1 ops2 : List MOp) (h : MRunInRange P (ops1 ++ ops2)) : MRunInRange P ops1 :=
  ⟨h.1, mrunInRangeFrom_prefix ops1 ops2 _ h.2⟩

/-- the generated run of `ops` is related to the model run of `ops` (range condition of any extension) -/
theorem msim_of_runs (P : Params) (ops ext : List MOp) (m : MSys) (g : GMulti) (hm : (MSys.init P).run ops = some m)
    (hg : GMulti.exec P ops = some g) (hrg : MRunInRange P (ops ++ ext)) : SimMulti m g := by
  obtain ⟨g', e', sim⟩ := mrun_sim P ops m (mrunInRange_prefix P ops ext hrg) hm
  rw [hg] at e'; cases e'
  exact sim

/-- the model run `ops` ends in `m`, the generated one in `g`, and the model continues with `ext` to `m'`: in range, the
    generated execution of `ops ++ ext` succeeds in a state related to `m'` (and `g` is related to `m`) -/
theorem mext_sim (P : Params) (ops ext : List MOp) (m m' : MSys) (g : GMulti) (hm : (MSys.init P).run ops = some m)
    (hg : GMulti.exec P ops = some g) (hu : m.run ext = some m') (hrg : MRunInRange P (ops ++ ext)) :
    ∃ u, GMulti.exec P (ops ++ ext) = some u ∧ SimMulti m g ∧ SimMulti m' u := by
  have hrun : (MSys.init P).run (ops ++ ext) = some m' := by rw [MSys.run_append, hm]; exact hu
  obtain ⟨u, e, simu⟩ := mrun_sim P _ m' hrg hrun
  exact ⟨u, e, msim_of_runs P ops ext m g hm hg hrg, simu⟩

/-- the model run behind a generated execution of an extension: if the generated code runs through `ops ++ ext`, the model
    continues from `m` through `ext` -/
theorem mrun_of_exec (P : Params) (ops ext : List MOp) (m : MSys) (u : GMulti) (hm : (MSys.init P).run ops = some m)
    (hu : GMulti.exec P (ops ++ ext) = some u) (hrg : MRunInRange P (ops ++ ext)) :
    ∃ m', m.run ext = some m' ∧ SimMulti m' u := by
  obtain ⟨m', hm', sim⟩ := mrun_sim_conv P _ u hrg hu
  rw [MSys.run_append, hm] at hm'
  exact ⟨m', hm', sim⟩

/-! ## "client `i` is connected", on the generated state -/

/-- **client `i` is connected in the generated state `u`**: `gc` is the server's generated connection for `i` (field
    `connections`), `gl` everything else that belongs to `i` (`u.links i`); the generated `is_disconnected` of the server-side
    connection and of the remote endpoint return `false`; no hostile bytes were handed to the server under id `i`. -/
structure GLive (u : GMulti) (i : Nat) (gc : RenetClient) (gl : GLink) : Prop where
  conn : gconn? u.server i = some gc
  link : u.links i = some gl
  srvLive : (RenetClient.is_disconnected gc : Res Empty Bool) = .ok false
  cliLive : (RenetClient.is_disconnected gl.cl : Res Empty Bool) = .ok false
  clean : gl.tainted = false

/-- generated → model: the related model link is untainted, both ends are live -/
theorem glive_model {m : MSys} {g : GMulti} (sim : SimMulti m g) {i : Nat} {gc : RenetClient} {gl : GLink}
    (h : GLive g i gc gl) {c : Conn} {l : Link} (hconn : conn? m.server i = some c) (hml : m.links i = some l) :
    SimLink l gl ∧ l.tainted = false ∧ c.isDisconnected = false ∧ l.cl.isDisconnected = false := by
  obtain ⟨l', hl', hsl⟩ := link_of_sim sim h.link
  rw [hml] at hl'; cases hl'
  obtain ⟨mrss, hS⟩ := sim.server
  obtain ⟨mrs, hcl⟩ := hsl.cl
  have hc := h.conn
  rw [hS, gconn_repr, hconn] at hc
  have hs := h.srvLive
  rw [← Option.some.inj hc] at hs
  have hb := h.cliLive
  rw [hcl] at hb
  exact ⟨hsl, by rw [← hsl.tainted]; exact h.clean, model_live_of_repr hs, model_live_of_repr hb⟩

/-- model → generated -/
theorem glive_of_model {m : MSys} {u : GMulti} (sim : SimMulti m u) {i : Nat} {c : Conn} {l : Link}
    (hconn : conn? m.server i = some c) (hml : m.links i = some l) (hda : c.isDisconnected = false)
    (hdb : l.cl.isDisconnected = false) (hcl : l.tainted = false) :
    ∃ gc gl, GLive u i gc gl ∧ SimLink l gl := by
  obtain ⟨mrss, hS⟩ := sim.server
  have hl := sim.links i
  rw [hml] at hl
  cases hu : u.links i with
  | none => rw [hu] at hl; exact hl.elim
  | some gl =>
    rw [hu] at hl
    have hsl : SimLink l gl := hl
    obtain ⟨mrs, hgcl⟩ := hsl.cl
    refine ⟨reprConn (mrss i) c, gl, ⟨?_, hu, is_disconnected_of_repr _ _ hda, ?_, ?_⟩, hsl⟩
    · rw [hS, gconn_repr, hconn]; rfl
    · rw [hgcl]; exact is_disconnected_of_repr _ _ hdb
    · rw [hsl.tainted]; exact hcl

/-- the generated link related to a model link -/
theorem glink_of_model {m : MSys} {g : GMulti} (sim : SimMulti m g) {i : Nat} {l : Link} (h : m.links i = some l) :
    ∃ gl, g.links i = some gl ∧ SimLink l gl := by
  have := sim.links i
  rw [h] at this
  cases hg : g.links i with
  | none => rw [hg] at this; exact this.elim
  | some gl => rw [hg] at this; exact ⟨gl, rfl, this⟩

/-! ## counting on the generated logs -/

/-- "each at least once, none more often than addressed", from "obtained is a permutation of the log" and "the log is a
    sub-sequence of what was addressed" -/
theorem gcount_facts {obt sub adr : List GBytes} (hd : obt.Perm sub) (hs : sub.Sublist adr) :
    ∀ x ∈ sub, 1 ≤ obt.count x ∧ obt.count x ≤ adr.count x := by
  intro x hx
  rw [hd.count_eq x]
  exact ⟨List.count_pos_iff.mpr hx, hs.count_le x⟩

theorem count_map_toNats (L : List Bytes) (x : Bytes) : (L.map toNats).count (toNats x) = L.count x := by
  induction L with
  | nil => rfl
  | cons a L ih =>
    simp only [List.map_cons, List.count_cons, ih]
    congr 1
    by_cases h : a = x
    · subst h; simp
    · have : toNats a ≠ toNats x := fun e => h (toNats_injective e)
      simp [h, this]

/-! ## "the same view of client `i`" on two generated states -/

/-- two generated connections represent the same model connection: they agree up to the field `most_recent_message_id` of the
    reliable receive channels (bookkeeping of the generated code the model does not have; `ConnRepr.reprConn`) -/
def SameConn (a b : RenetClient) : Prop := ∃ c mrs1 mrs2, a = reprConn mrs1 c ∧ b = reprConn mrs2 c

/-- two generated links agree: the same emission histories, ghost logs, delivery records and taint flag; the remote endpoint
    and the ghost copy `last` represent the same model connection -/
structure GSameLink (a b : GLink) : Prop where
  cl : SameConn a.cl b.cl
  last : SameConn a.last b.last
  outS : a.outS = b.outS
  outC : a.outC = b.outC
  subS : a.subS = b.subS
  subSU : a.subSU = b.subSU
  obtC : a.obtC = b.obtC
  subC : a.subC = b.subC
  subCU : a.subCU = b.subCU
  obtS : a.obtS = b.obtS
  delivC : a.delivC = b.delivC
  delivS : a.delivS = b.delivS
  tainted : a.tainted = b.tainted

def SameOpt {α : Type} (R : α → α → Prop) : Option α → Option α → Prop
  | none, none => True
  | some a, some b => R a b
  | _, _ => False

/-- **the generated states `g1`, `g2` agree on everything about client `i`**: its slot in the server's connection table
    (absent in both, or present in both and the same connection) and its link (absent in both, or the same) -/
def GSameView (g1 g2 : GMulti) (i : Nat) : Prop :=
  SameOpt SameConn (gconn? g1.server i) (gconn? g2.server i) ∧ SameOpt GSameLink (g1.links i) (g2.links i)

theorem gsameLink_of_sim {l : Link} {a b : GLink} (h1 : SimLink l a) (h2 : SimLink l b) : GSameLink a b := by
  obtain ⟨m1, e1⟩ := h1.cl
  obtain ⟨m2, e2⟩ := h2.cl
  obtain ⟨n1, f1⟩ := h1.last
  obtain ⟨n2, f2⟩ := h2.last
  exact ⟨⟨_, _, _, e1, e2⟩, ⟨_, _, _, f1, f2⟩, by rw [h1.outS, h2.outS], by rw [h1.outC, h2.outC],
    funext fun k => by rw [h1.subS, h2.subS], funext fun k => by rw [h1.subSU, h2.subSU],
    funext fun k => by rw [h1.obtC, h2.obtC], funext fun k => by rw [h1.subC, h2.subC],
    funext fun k => by rw [h1.subCU, h2.subCU], funext fun k => by rw [h1.obtS, h2.obtS],
    by rw [h1.delivC, h2.delivC], by rw [h1.delivS, h2.delivS], by rw [h1.tainted, h2.tainted]⟩

/-- equal model views give the same generated views -/
theorem gsameView_of_sim {m1 m2 : MSys} {g1 g2 : GMulti} (sim1 : SimMulti m1 g1) (sim2 : SimMulti m2 g2) {i : Nat}
    (hv : m1.view i = m2.view i) : GSameView g1 g2 i := by
  have hc : conn? m1.server i = conn? m2.server i := congrArg LV.conn hv
  have hl : m1.links i = m2.links i := congrArg LV.link hv
  obtain ⟨s1, e1⟩ := sim1.server
  obtain ⟨s2, e2⟩ := sim2.server
  refine ⟨?_, ?_⟩
  · rw [e1, e2, gconn_repr, gconn_repr, hc]
    cases conn? m2.server i with
    | none => trivial
    | some c => exact ⟨c, _, _, rfl, rfl⟩
  · have r1 := sim1.links i
    have r2 := sim2.links i
    rw [hl] at r1
    cases hm : m2.links i with
    | none =>
      rw [hm] at r1 r2
      cases h1 : g1.links i with
      | some a => rw [h1] at r1; exact r1.elim
      | none =>
        cases h2 : g2.links i with
        | some b => rw [h2] at r2; exact r2.elim
        | none => trivial
    | some l =>
      rw [hm] at r1 r2
      cases h1 : g1.links i with
      | none => rw [h1] at r1; exact r1.elim
      | some a =>
        cases h2 : g2.links i with
        | none => rw [h2] at r2; exact r2.elim
        | some b =>
          rw [h1] at r1; rw [h2] at r2
          exact gsameLink_of_sim (l := l) r1 r2

end RenetVerif.SrcMulti
