/-
  The netcode CLIENT TRACE SYSTEM over the GENERATED code (`Generated/Src/NcClient.lean`, translated from
  `renetcode/src/client.rs`): the state of `GNcC` holds a generated `NetcodeClient` struct, created by the generated
  `NetcodeClient::new(current_time, ClientAuthentication::Secure { connect_token }, ..)` (the four random inputs of the
  `Unsecure` variant are explicit parameters of the generated `new`; they are not read for `Secure`) and driven only through the
  generated `update`, `process_packet`, `generate_payload_packet`, `disconnect`; plus the ghost log `outs` of everything these
  calls returned (datagrams to send, payloads surfaced, errors).

  The operations `CliOp`: `update(d)` | `packet(bytes)` — ANY byte string — | `sendPayload(p)` | `disconnect`, in any order.
  `MNcC` is the same system over the model (`Netcode/Client.lean`; on the three operations of `NcLive3.COp` it is
  `NcLive3.cstep`, see `mcrun_runCOps`).  `SimNcC`: generated client = `reprNC out (model client)` for SOME scratch buffer
  `out` of `NETCODE_MAX_PACKET_BYTES` bytes, output logs equal up to `reprMCOut`.

  `crun_sim` / `crun_sim_conv` / `cexec_sim`: under the range side condition `CliInRange tok ops` — the token's
  `timeout_seconds` is an `i32` (`< 2^31`; the model keeps an `Int`) and every datagram handed to `process_packet` is shorter
  than `2^64 - 16` bytes; nothing else: the rest of what the closed ties need is the model invariant `CliInv`
  (`Lemmas/SrcEquiv/TrInv.lean`), clock / counter overflow unwinds on both sides — the generated run and the model run
  succeed together and end in related states.
-/
import RenetVerif.Props.SrcTieNcClient
import RenetVerif.Lemmas.SrcEquiv.TrInv
import RenetVerif.Lemmas.NcLive3
set_option linter.unusedSimpArgs false
set_option linter.unusedVariables false
namespace RenetVerif.SrcNcClientSystem
open RenetVerif RenetVerif.SrcEquiv RenetVerif.RustSem RenetVerif.Netcode

/-- the public operations of `NetcodeClient` -/
inductive CliOp where
  | update (d : Nat)
  | packet (buf : Bytes)
  | sendPayload (p : Bytes)
  | disconnect
  deriving Repr, DecidableEq

/-- the three operations of `NcLive3.COp` -/
def ofC : NcLive3.COp → CliOp
  | .update d => .update d
  | .packet buf => .packet buf
  | .sendPayload p => .sendPayload p

/-! ## the generated system -/

/-- what a generated call returned -/
inductive GCOut where
  /-- `update`: the datagram to send, if any -/
  | sent (o : Option (List Nat × RustSem.SocketAddr))
  /-- `process_packet`: the payload surfaced, if any -/
  | received (p : Option (List Nat))
  /-- `generate_payload_packet` / `disconnect`: `Ok((addr, datagram))` -/
  | payload (r : RustSem.SocketAddr × List Nat)
  | payloadErr (e : SNErr)
  | disconnected (r : RustSem.SocketAddr × List Nat)
  | disconnectErr (e : SNErr)
  deriving Repr, DecidableEq

structure GNcC where
  cli : SNetcodeClient
  /-- everything the generated calls returned so far, in order -/
  outs : List GCOut

/-- generated `NetcodeClient::new` with `ClientAuthentication::Secure` (`none`: it panicked — a token without server
    address — or returned `Err`) -/
def GNcC.init (a : AEAD) (ct : Nat) (tok : Netcode.ConnectToken) (r1 r2 r3 r4 : List Nat) : Option GNcC :=
  match @Src.renetcode.client.NetcodeClient.new (aeadOf a) ct (.Secure (reprTok tok)) r1 r2 r3 r4 with
  | .ok c => some { cli := c, outs := [] }
  | _ => none

/-- one operation, through the generated functions only; `none` = the generated function panicked -/
def GNcC.step (a : AEAD) (g : GNcC) : CliOp → Option GNcC
  | .update d =>
    match @Src.renetcode.client.NetcodeClient.update (aeadOf a) Empty g.cli d with
    | .ok (c', o) => some { cli := c', outs := g.outs ++ [.sent o] }
    | _ => none
  | .packet buf =>
    match @Src.renetcode.client.NetcodeClient.process_packet (aeadOf a) Empty g.cli (toNats buf) with
    | .ok (c', _, p) => some { cli := c', outs := g.outs ++ [.received p] }
    | _ => none
  | .sendPayload p =>
    match @Src.renetcode.client.NetcodeClient.generate_payload_packet (aeadOf a) g.cli (toNats p) with
    | .ok (c', r) => some { cli := c', outs := g.outs ++ [.payload r] }
    | .err (e, c') => some { cli := c', outs := g.outs ++ [.payloadErr e] }
    | .panic _ => none
  | .disconnect =>
    match @Src.renetcode.client.NetcodeClient.disconnect (aeadOf a) g.cli with
    | .ok (c', r) => some { cli := c', outs := g.outs ++ [.disconnected r] }
    | .err (e, c') => some { cli := c', outs := g.outs ++ [.disconnectErr e] }
    | .panic _ => none

def GNcC.run (a : AEAD) (g : GNcC) : List CliOp → Option GNcC
  | [] => some g
  | op :: ops =>
    match g.step a op with
    | some g' => g'.run a ops
    | none => none

/-- the whole generated execution: `NetcodeClient::new`, then `ops` -/
def GNcC.exec (a : AEAD) (ct : Nat) (tok : Netcode.ConnectToken) (r1 r2 r3 r4 : List Nat) (ops : List CliOp) : Option GNcC :=
  match GNcC.init a ct tok r1 r2 r3 r4 with
  | some g => g.run a ops
  | none => none

/-! ## the model system -/

inductive MCOut where
  | sent (o : Option (Bytes × Addr))
  | received (p : Option Bytes)
  | payload (r : Addr × Bytes)
  | payloadErr (e : NetcodeError)
  | disconnected (r : Addr × Bytes)
  | disconnectErr (e : NetcodeError)

def reprMCOut : MCOut → GCOut
  | .sent o => .sent (o.map fun x => (toNats x.1, reprAddr x.2))
  | .received p => .received (p.map toNats)
  | .payload r => .payload (reprAddr r.1, toNats r.2)
  | .payloadErr e => .payloadErr (reprNErr e)
  | .disconnected r => .disconnected (reprAddr r.1, toNats r.2)
  | .disconnectErr e => .disconnectErr (reprNErr e)

structure MNcC where
  cli : Netcode.NetcodeClient
  outs : List MCOut

def MNcC.init (ct : Nat) (tok : Netcode.ConnectToken) : Option MNcC :=
  match Netcode.NetcodeClient.new ct tok with
  | .ok c => some { cli := c, outs := [] }
  | _ => none

/-- one model operation: the result and the new client; `none` = the call unwound -/
def mcstep (a : AEAD) (c : Netcode.NetcodeClient) : CliOp → Option (MCOut × Netcode.NetcodeClient)
  | .update d =>
    match c.update a d with
    | .ok (o, c') => some (.sent o, c')
    | _ => none
  | .packet buf =>
    match c.processPacket a buf with
    | .ok (p, c') => some (.received p, c')
    | _ => none
  | .sendPayload p =>
    match c.generatePayloadPacket a p with
    | .ok (r, c') => some (.payload r, c')
    | .err e => some (.payloadErr e, c)
    | .panic _ => none
  | .disconnect =>
    match (c.disconnect a).1 with
    | .ok r => some (.disconnected r, (c.disconnect a).2)
    | .err e => some (.disconnectErr e, (c.disconnect a).2)
    | .panic _ => none

def MNcC.step (a : AEAD) (m : MNcC) (op : CliOp) : Option MNcC :=
  match mcstep a m.cli op with
  | some (r, c') => some { cli := c', outs := m.outs ++ [r] }
  | none => none

def MNcC.run (a : AEAD) (m : MNcC) : List CliOp → Option MNcC
  | [] => some m
  | op :: ops =>
    match m.step a op with
    | some m' => m'.run a ops
    | none => none

def MNcC.exec (a : AEAD) (ct : Nat) (tok : Netcode.ConnectToken) (ops : List CliOp) : Option MNcC :=
  match MNcC.init ct tok with
  | some m => m.run a ops
  | none => none

/-! ## the simulation relation and the range side condition -/

structure SimNcC (m : MNcC) (g : GNcC) : Prop where
  cli : ∃ out, out.length = C.NETCODE_MAX_PACKET_BYTES ∧ g.cli = reprNC out m.cli
  outs : g.outs = m.outs.map reprMCOut

/-- a datagram handed to `process_packet` has fewer than `2^64 - 16` bytes; nothing is required of the other operations -/
def CliOpInRange : CliOp → Prop
  | .packet buf => buf.length + 16 < 2 ^ 64
  | _ => True

def CliOpsInRange (ops : List CliOp) : Prop := ∀ op ∈ ops, CliOpInRange op

/-- **the range side condition of a client execution**: the token's `timeout_seconds` fits an `i32`, the datagrams are
    shorter than `2^64 - 16` bytes -/
def CliInRange (tok : Netcode.ConnectToken) (ops : List CliOp) : Prop :=
  tok.timeoutSeconds < 2 ^ 31 ∧ CliOpsInRange ops

instance (op : CliOp) : Decidable (CliOpInRange op) := by cases op <;> unfold CliOpInRange <;> infer_instance
instance (ops : List CliOp) : Decidable (CliOpsInRange ops) := by unfold CliOpsInRange; infer_instance
instance (tok : Netcode.ConnectToken) (ops : List CliOp) : Decidable (CliInRange tok ops) := by
  unfold CliInRange; infer_instance

/-! ## one step -/

theorem so_ok {ε ε' α β : Type} {X : Res ε' β} {Y : Res ε α} {f : α → β} {g : ε → ε'} {y : α}
    (h : SameOutcome X (mapRes f g Y)) (hy : Y = .ok y) : X = .ok (f y) := by
  subst hy
  cases X <;> simp [SameOutcome, mapRes] at h
  rw [h]

theorem so_panic {ε ε' α β : Type} {X : Res ε' β} {Y : Res ε α} {f : α → β} {g : ε → ε'} {m : String}
    (h : SameOutcome X (mapRes f g Y)) (hy : Y = .panic m) : ∃ m', X = .panic m' := by
  subst hy
  cases X <;> simp [SameOutcome, mapRes] at h
  exact ⟨_, rfl⟩

theorem so_err {ε ε' α β : Type} {X : Res ε' β} {Y : Res ε α} {f : α → β} {g : ε → ε'} {e : ε}
    (h : SameOutcome X (mapRes f g Y)) (hy : Y = .err e) : X = .err (g e) := by
  subst hy
  cases X <;> simp [SameOutcome, mapRes] at h
  rw [h]

/-- **one operation**: from related states, the model client satisfying `CliInv`, in range: the generated step succeeds iff
    the model step does, and the results are related -/
theorem cstep_sim (a : AEAD) (hl : a.Laws) {m : MNcC} {g : GNcC} (hi : CliInv m.cli) (hsim : SimNcC m g) (op : CliOp)
    (hop : CliOpInRange op) :
    match m.step a op with
    | some m' => ∃ g', g.step a op = some g' ∧ SimNcC m' g'
    | none => g.step a op = none := by
  obtain ⟨⟨out, hout, hs⟩, hres⟩ := hsim
  cases op with
  | update d =>
    have tie := SrcTie.nc_client_update (ε := Empty) a hl out hout m.cli hi.tmo ((ncCInv_cliInv a).idx hi) d
    unfold MNcC.step mcstep GNcC.step
    simp only [hs]
    cases hm : m.cli.update a d with
    | ok x =>
      obtain ⟨o, c'⟩ := x
      rw [hm] at tie
      obtain ⟨out', ho', e⟩ := tie
      rw [e]
      exact ⟨_, rfl, ⟨out', ho', rfl⟩, by simp only [hres, List.map_append, List.map_cons, List.map_nil, reprMCOut]⟩
    | err e => exact nomatch e
    | panic msg =>
      rw [hm] at tie
      obtain ⟨m', e⟩ := tie
      rw [e]
  | packet buf =>
    have tie := SrcTie.nc_client_process_packet (ε := Empty) a hl out m.cli buf hop
    unfold MNcC.step mcstep GNcC.step
    simp only [hs]
    cases hm : m.cli.processPacket a buf with
    | ok x =>
      obtain ⟨p, c'⟩ := x
      rw [hm] at tie
      obtain ⟨buf', e⟩ := tie
      rw [e]
      exact ⟨_, rfl, ⟨out, hout, rfl⟩, by simp only [hres, List.map_append, List.map_cons, List.map_nil, reprMCOut]⟩
    | err e => exact nomatch e
    | panic msg =>
      rw [hm] at tie
      obtain ⟨m', e⟩ := tie
      rw [e]
  | sendPayload p =>
    have tie := SrcTie.nc_client_generate_payload_packet a hl out hout m.cli p
    unfold MNcC.step mcstep GNcC.step
    simp only [hs]
    cases hm : m.cli.generatePayloadPacket a p with
    | ok x =>
      obtain ⟨⟨ad, bytes⟩, c'⟩ := x
      rw [hm] at tie
      obtain ⟨out', ho', e⟩ := tie
      rw [e]
      exact ⟨_, rfl, ⟨out', ho', rfl⟩, by simp only [hres, List.map_append, List.map_cons, List.map_nil, reprMCOut]⟩
    | err e0 =>
      rw [hm] at tie
      obtain ⟨out', ho', e⟩ := tie
      rw [e]
      exact ⟨_, rfl, ⟨out', ho', rfl⟩, by simp only [hres, List.map_append, List.map_cons, List.map_nil, reprMCOut]⟩
    | panic msg =>
      rw [hm] at tie
      obtain ⟨m', e⟩ := tie
      rw [e]
  | disconnect =>
    have tie := SrcTie.nc_client_disconnect a hl out hout m.cli
    unfold MNcC.step mcstep GNcC.step
    simp only [hs]
    cases hm : (m.cli.disconnect a).1 with
    | ok x =>
      obtain ⟨ad, bytes⟩ := x
      rw [hm] at tie
      obtain ⟨out', ho', e⟩ := tie
      rw [e]
      exact ⟨_, rfl, ⟨out', ho', rfl⟩, by simp only [hres, List.map_append, List.map_cons, List.map_nil, reprMCOut]⟩
    | err e0 =>
      rw [hm] at tie
      obtain ⟨out', ho', e⟩ := tie
      rw [e]
      exact ⟨_, rfl, ⟨out', ho', rfl⟩, by simp only [hres, List.map_append, List.map_cons, List.map_nil, reprMCOut]⟩
    | panic msg =>
      rw [hm] at tie
      obtain ⟨m', e⟩ := tie
      rw [e]

/-! ## the model invariant along a run -/

theorem mcstep_inv {a : AEAD} {c c' : Netcode.NetcodeClient} {op : CliOp} {r : MCOut} (hi : CliInv c)
    (h : mcstep a c op = some (r, c')) : CliInv c' := by
  have I := ncCInv_cliInv a
  cases op with
  | update d =>
    simp only [mcstep] at h
    cases hm : c.update a d with
    | ok x => obtain ⟨o, c1⟩ := x; rw [hm] at h; cases h; exact I.update d hi hm
    | err e => exact nomatch e
    | panic msg => rw [hm] at h; cases h
  | packet buf =>
    simp only [mcstep] at h
    cases hm : c.processPacket a buf with
    | ok x => obtain ⟨o, c1⟩ := x; rw [hm] at h; cases h; exact I.pp buf hi hm
    | err e => exact nomatch e
    | panic msg => rw [hm] at h; cases h
  | sendPayload p =>
    simp only [mcstep] at h
    cases hm : c.generatePayloadPacket a p with
    | ok x => obtain ⟨o, c1⟩ := x; rw [hm] at h; cases h; exact I.gen p hi hm
    | err e => rw [hm] at h; cases h; exact hi
    | panic msg => rw [hm] at h; cases h
  | disconnect =>
    simp only [mcstep] at h
    cases hm : (c.disconnect a).1 with
    | ok x => rw [hm] at h; cases h; exact I.disc hi
    | err e => rw [hm] at h; cases h; exact I.disc hi
    | panic msg => rw [hm] at h; cases h

theorem mstep_spec {a : AEAD} {m m' : MNcC} {op : CliOp} (h : m.step a op = some m') :
    ∃ r, mcstep a m.cli op = some (r, m'.cli) ∧ m'.outs = m.outs ++ [r] := by
  unfold MNcC.step at h
  cases hs : mcstep a m.cli op with
  | none => rw [hs] at h; cases h
  | some x =>
    obtain ⟨r, c'⟩ := x
    rw [hs] at h
    cases h
    exact ⟨r, rfl, rfl⟩

theorem inv_mstep {a : AEAD} {m m' : MNcC} {op : CliOp} (hi : CliInv m.cli) (h : m.step a op = some m') : CliInv m'.cli := by
  obtain ⟨r, hs, -⟩ := mstep_spec h
  exact mcstep_inv hi hs

theorem inv_mrun {a : AEAD} : ∀ (ops : List CliOp) {m m' : MNcC}, CliInv m.cli → m.run a ops = some m' → CliInv m'.cli := by
  intro ops
  induction ops with
  | nil => intro m m' hi h; cases h; exact hi
  | cons op ops ih =>
    intro m m' hi h
    simp only [MNcC.run] at h
    cases hs : m.step a op with
    | none => rw [hs] at h; cases h
    | some m1 => rw [hs] at h; exact ih (inv_mstep hi hs) h

/-! ## runs -/

theorem crun_sim_from (a : AEAD) (hl : a.Laws) : ∀ (ops : List CliOp) (m : MNcC) (g : GNcC), CliInv m.cli → SimNcC m g →
    CliOpsInRange ops →
    match m.run a ops with
    | some m' => ∃ g', g.run a ops = some g' ∧ SimNcC m' g'
    | none => g.run a ops = none := by
  intro ops
  induction ops with
  | nil => intro m g _ hsim _; exact ⟨g, rfl, hsim⟩
  | cons op ops ih =>
    intro m g hi hsim hrg
    have hstep := cstep_sim a hl hi hsim op (hrg op List.mem_cons_self)
    simp only [MNcC.run, GNcC.run]
    cases hs : m.step a op with
    | none =>
      rw [hs] at hstep
      simp only [hstep]
    | some m' =>
      rw [hs] at hstep
      obtain ⟨g', e, hsim'⟩ := hstep
      simp only [e]
      exact ih m' g' (inv_mstep hi hs) hsim' (fun o ho => hrg o (List.mem_cons_of_mem _ ho))

/-- **model → generated**, from any pair of related states -/
theorem crun_sim_of (a : AEAD) (hl : a.Laws) (ops : List CliOp) {m m' : MNcC} {g : GNcC} (hi : CliInv m.cli)
    (hsim : SimNcC m g) (hr : CliOpsInRange ops) (hm : m.run a ops = some m') :
    ∃ g', g.run a ops = some g' ∧ SimNcC m' g' := by
  have := crun_sim_from a hl ops m g hi hsim hr
  rw [hm] at this
  exact this

/-- **generated → model**, from any pair of related states -/
theorem crun_sim_conv_of (a : AEAD) (hl : a.Laws) (ops : List CliOp) {m : MNcC} {g g' : GNcC} (hi : CliInv m.cli)
    (hsim : SimNcC m g) (hr : CliOpsInRange ops) (hg : g.run a ops = some g') :
    ∃ m', m.run a ops = some m' ∧ SimNcC m' g' := by
  have := crun_sim_from a hl ops m g hi hsim hr
  cases hm : m.run a ops with
  | none => rw [hm] at this; rw [hg] at this; cases this
  | some m' =>
    rw [hm] at this
    obtain ⟨g'', e, hsim'⟩ := this
    rw [hg] at e; cases e
    exact ⟨m', rfl, hsim'⟩

/-- the generated constructor succeeds iff the model's does, and builds the representation of the model's initial client -/
theorem cinit_sim (a : AEAD) (ct : Nat) (tok : Netcode.ConnectToken) (r1 r2 r3 r4 : List Nat) :
    match MNcC.init ct tok with
    | some m0 => ∃ g0, GNcC.init a ct tok r1 r2 r3 r4 = some g0 ∧ SimNcC m0 g0
    | none => GNcC.init a ct tok r1 r2 r3 r4 = none := by
  have tie := SrcTie.nc_client_new_secure a ct tok r1 r2 r3 r4
  simp only [MNcC.init, GNcC.init]
  cases hm : Netcode.NetcodeClient.new ct tok with
  | ok c =>
    rw [so_ok tie hm]
    exact ⟨_, rfl, ⟨_, List.length_replicate, rfl⟩, rfl⟩
  | err e =>
    rw [so_err tie hm]
  | panic msg =>
    obtain ⟨m', e⟩ := so_panic tie hm
    rw [e]

theorem inv_minit {ct : Nat} {tok : Netcode.ConnectToken} {m0 : MNcC} (ht : tok.timeoutSeconds < 2 ^ 31)
    (h : MNcC.init ct tok = some m0) : CliInv m0.cli := by
  unfold MNcC.init at h
  split at h
  · rename_i c hc; cases h; exact cliInv_new ht hc
  · cases h

/-- **simulation of whole client executions, both directions at once** -/
theorem cexec_sim (a : AEAD) (hl : a.Laws) (ct : Nat) (tok : Netcode.ConnectToken) (r1 r2 r3 r4 : List Nat) (ops : List CliOp)
    (hr : CliInRange tok ops) :
    match MNcC.exec a ct tok ops with
    | some m => ∃ g, GNcC.exec a ct tok r1 r2 r3 r4 ops = some g ∧ SimNcC m g
    | none => GNcC.exec a ct tok r1 r2 r3 r4 ops = none := by
  have h0 := cinit_sim a ct tok r1 r2 r3 r4
  simp only [MNcC.exec, GNcC.exec]
  cases hm : MNcC.init ct tok with
  | none => rw [hm] at h0; simp only [h0]
  | some m0 =>
    rw [hm] at h0
    obtain ⟨g0, e0, hsim0⟩ := h0
    simp only [e0]
    exact crun_sim_from a hl ops m0 g0 (inv_minit hr.1 hm) hsim0 hr.2

/-- **`crun_sim`, model → generated** -/
theorem crun_sim (a : AEAD) (hl : a.Laws) (ct : Nat) (tok : Netcode.ConnectToken) (r1 r2 r3 r4 : List Nat) (ops : List CliOp)
    (m : MNcC) (hr : CliInRange tok ops) (hm : MNcC.exec a ct tok ops = some m) :
    ∃ g, GNcC.exec a ct tok r1 r2 r3 r4 ops = some g ∧ SimNcC m g := by
  have := cexec_sim a hl ct tok r1 r2 r3 r4 ops hr
  rw [hm] at this
  exact this

/-- **`crun_sim_conv`, generated → model** -/
theorem crun_sim_conv (a : AEAD) (hl : a.Laws) (ct : Nat) (tok : Netcode.ConnectToken) (r1 r2 r3 r4 : List Nat)
    (ops : List CliOp) (g : GNcC) (hr : CliInRange tok ops) (hg : GNcC.exec a ct tok r1 r2 r3 r4 ops = some g) :
    ∃ m, MNcC.exec a ct tok ops = some m ∧ SimNcC m g := by
  have := cexec_sim a hl ct tok r1 r2 r3 r4 ops hr
  cases hm : MNcC.exec a ct tok ops with
  | none => rw [hm] at this; rw [hg] at this; cases this
  | some m =>
    rw [hm] at this
    obtain ⟨g', e, hsim⟩ := this
    rw [hg] at e; cases e
    exact ⟨m, rfl, hsim⟩

theorem inv_mexec {a : AEAD} {ct : Nat} {tok : Netcode.ConnectToken} {ops : List CliOp} {m : MNcC}
    (ht : tok.timeoutSeconds < 2 ^ 31) (h : MNcC.exec a ct tok ops = some m) : CliInv m.cli := by
  unfold MNcC.exec at h
  cases h0 : MNcC.init ct tok with
  | none => rw [h0] at h; cases h
  | some m0 => rw [h0] at h; exact inv_mrun ops (inv_minit ht h0) h

/-! ## the model run and `NcLive3.runCOps` -/

theorem mcstep_ofC (a : AEAD) (c : Netcode.NetcodeClient) (op : NcLive3.COp) :
    (mcstep a c (ofC op)).map (·.2) = (NcLive3.cstep a c op).map (·.2) := by
  cases op with
  | update d =>
    simp only [ofC, mcstep, NcLive3.cstep]
    cases c.update a d with
    | ok x => rfl
    | err e => exact nomatch e
    | panic m => rfl
  | packet buf =>
    simp only [ofC, mcstep, NcLive3.cstep]
    cases c.processPacket a buf with
    | ok x => rfl
    | err e => exact nomatch e
    | panic m => rfl
  | sendPayload p =>
    simp only [ofC, mcstep, NcLive3.cstep]
    cases c.generatePayloadPacket a p with
    | ok x => rfl
    | err e => rfl
    | panic m => rfl

/-- on the operations of `NcLive3.COp` the model run is `NcLive3.runCOps` -/
theorem mcrun_runCOps {a : AEAD} : ∀ (ops : List NcLive3.COp) {m m' : MNcC}, m.run a (ops.map ofC) = some m' →
    ∃ rs, NcLive3.runCOps a m.cli ops = some (rs, m'.cli) := by
  intro ops
  induction ops with
  | nil => intro m m' h; cases h; exact ⟨[], rfl⟩
  | cons op ops ih =>
    intro m m' h
    simp only [List.map_cons, MNcC.run] at h
    cases hs : m.step a (ofC op) with
    | none => rw [hs] at h; cases h
    | some m1 =>
      rw [hs] at h
      obtain ⟨r, hms, -⟩ := mstep_spec hs
      obtain ⟨rs, hro⟩ := ih h
      have hc := mcstep_ofC a m.cli op
      rw [hms] at hc
      cases hcs : NcLive3.cstep a m.cli op with
      | none => rw [hcs] at hc; cases hc
      | some x =>
        obtain ⟨r', c1⟩ := x
        rw [hcs] at hc
        simp only [Option.map_some, Option.some.injEq] at hc
        subst hc
        exact ⟨r' :: rs, by simp only [NcLive3.runCOps, hcs, hro, Option.map_some]⟩

theorem GNcC.run_append (a : AEAD) : ∀ (ops1 ops2 : List CliOp) (g : GNcC),
    g.run a (ops1 ++ ops2) = (g.run a ops1).bind (fun g1 => g1.run a ops2) := by
  intro ops1
  induction ops1 with
  | nil => intro ops2 g; rfl
  | cons op ops ih =>
    intro ops2 g
    simp only [List.cons_append, GNcC.run]
    cases g.step a op with
    | none => rfl
    | some g1 => exact ih ops2 g1

end RenetVerif.SrcNcClientSystem
