/-
  I. unreliable RECEIVE channel: generated `ReceiveChannelUnreliable::{new, process_message, process_slice,
  discard_incomplete_old_slices, receive_message}` agree with `RecvUnrel` of `Renet/Channels.lean`.
  The two `BTreeMap`s are key-sorted association lists on both sides (`RustSem.Map` / `SMap`).
  Headline statements in `Props/SrcTieRecvUnrel.lean`.
-/
import RenetVerif.Generated.Src.RecvUnrel
import RenetVerif.Lemmas.SrcEquiv.Prims
import RenetVerif.Lemmas.SrcEquiv.CommonRepr
import RenetVerif.Lemmas.SrcEquiv.Slice
import RenetVerif.Lemmas.SrcEquiv.ChanLemmas
import RenetVerif.Lemmas.SrcEquiv.SliceTable
namespace RenetVerif.SrcEquiv
open RenetVerif RenetVerif.RustSem

section RecvUnrel
open Src.renet.channel.unreliable
/-! ### states -/

def reprRU (r : RecvUnrel) : ReceiveChannelUnreliable :=
  ⟨r.ch, r.messages.map toNats, reprSlices r.slices, r.lastReceived, r.maxMem, r.mem⟩

theorem ru_new_eq {ε : Type} (ch maxMem : Nat) :
    (ReceiveChannelUnreliable.new ch maxMem : Res ε _) = .ok (reprRU (RecvUnrel.new ch maxMem)) := rfl

theorem process_message_eq {ε : Type} (r : RecvUnrel) (m : Bytes) (h : r.mem + m.length < 2 ^ 64) :
    (ReceiveChannelUnreliable.process_message (reprRU r) (toNats m) : Res ε _) = .ok (reprRU (r.processMessage m), ()) := by
  unfold ReceiveChannelUnreliable.process_message RecvUnrel.processMessage
  have hl : RustSem.len (toNats m) = m.length := by simp [RustSem.len, toNats]
  simp only [reprRU, hl, add_val h, Exec.bind_eq, Exec.bind_val', Exec.pure_eq]
  by_cases hm : r.mem + m.length > r.maxMem
  · simp only [hm, decide_true, if_true, Exec.bind_ret', Exec.run_ret]
  · simp [hm, Exec.bind_val', Exec.run_val, RustSem.push, toNats]

theorem receive_message_eq {ε : Type} (r : RecvUnrel) :
    (ReceiveChannelUnreliable.receive_message (reprRU r) : Res ε _) =
      match r.receive with
      | .ok (r', o) => .ok (reprRU r', o.map toNats)
      | .err e => nomatch e
      | .panic _ => .panic "renet/src/channel/unreliable.rs:ReceiveChannelUnreliable::receive_message: self.memory_usage_bytes -= message.len()" := by
  unfold ReceiveChannelUnreliable.receive_message RecvUnrel.receive
  cases hq : r.messages with
  | nil => simp [reprRU, hq, Exec.bind_eq, Exec.bind_val', Exec.pure_eq, Exec.run_val]
  | cons m rest =>
    have hl : RustSem.len (toNats m) = m.length := by simp [RustSem.len, toNats]
    simp only [reprRU, hq, List.map_cons, List.head?_cons, List.tail_cons, hl, Exec.bind_eq, Exec.pure_eq, Res.csub]
    by_cases hm : m.length ≤ r.mem
    · simp [hm, sub_val hm, Exec.bind_val', Exec.bind_ret', Exec.run_ret, toNats]
    · simp [hm, sub_panic hm, Exec.bind_panic', Exec.run_panic]

/-! ### process_slice -/

abbrev SRU := ReceiveChannelUnreliable

/-- generated outcome predicted by the model outcome -/
def ruOut : Res (ChanErr × RecvUnrel) RecvUnrel → Res (SChannelError × SRU) (SRU × Unit) :=
  mapRes (fun r' => (reprRU r', ())) (fun e => (reprCE e.1, reprRU e.2))

set_option maxRecDepth 10000 in
/-- the slice's message already has a constructor -/
theorem process_slice_has (r : RecvUnrel) (sl : Slice) (now : Nat) (c : SliceCtor)
    (hf : SMap.find? r.slices sl.messageId = some c) (hs : MSorted r.slices) (hc : CtorOk c) (hmem : r.mem < 2 ^ 64) :
    SameOutcome (ReceiveChannelUnreliable.process_slice (reprRU r) (reprSlice sl) now) (ruOut (r.processSlice sl now)) := by
  have hcont : SMap.contains r.slices sl.messageId = true := by simp [SMap.contains, hf]
  have hgf : RustSem.Map.find? (reprSlices r.slices) sl.messageId = some (reprSC sl.messageId c) := by
    rw [find_reprSlices, hf]; rfl
  unfold ReceiveChannelUnreliable.process_slice RecvUnrel.processSlice
  simp only [reprRU, reprSlice, contains_reprSlices, hcont, Bool.not_true, Bool.false_eq_true, if_false, if_true, Exec.bind_eq,
    Exec.pure_eq, Exec.bind_val', RustSem.Map.index, hgf, hf]
  have hnum : (reprSC sl.messageId c).num_slices = c.numSlices := rfl
  rw [hnum]
  by_cases hne : c.numSlices ≠ sl.numSlices
  · simp only [hne, ne_eq, not_false_eq_true, decide_true, if_true, Exec.bind_err', Exec.run_err, ruOut, mapRes,
      SameOutcome, reprCE, reprRU]
  have heq : c.numSlices = sl.numSlices := by simpa using hne
  simp only [hne, decide_false, Bool.false_eq_true, if_false, Exec.bind_val']
  -- the call into the slice constructor (group Slice)
  have hsc := process_slice_eq sl.messageId c sl.sliceIndex sl.payload hc.size hc.recv
  cases hm : c.processSlice sl.sliceIndex sl.payload with
  | panic st =>
    rw [hm] at hsc
    cases hg : Src.renet.channel.slice_constructor.SliceConstructor.process_slice (reprSC sl.messageId c) sl.sliceIndex (toNats sl.payload) with
    | ok x => rw [hg] at hsc; simp [mapRes, SameOutcome] at hsc
    | err x => rw [hg] at hsc; simp [mapRes, SameOutcome] at hsc
    | panic st' => simp only [Exec.callFrom_panic, Exec.bind_panic', Exec.run_panic, ruOut, mapRes, SameOutcome]
  | err e =>
    rw [hm] at hsc
    cases hg : Src.renet.channel.slice_constructor.SliceConstructor.process_slice (reprSC sl.messageId c) sl.sliceIndex (toNats sl.payload) with
    | ok x => rw [hg] at hsc; simp [mapRes, SameOutcome] at hsc
    | panic x => rw [hg] at hsc; simp [mapRes, SameOutcome] at hsc
    | err x =>
      rw [hg] at hsc
      simp only [mapRes, SameOutcome] at hsc
      subst hsc
      simp only [Exec.callFrom]
      simp only [Exec.bind_err', Exec.run_err, ruOut, mapRes, SameOutcome, reprRU, insert_reprSlices,
        insert_same _ _ _ hs hf]
  | ok y =>
    obtain ⟨c', o⟩ := y
    rw [hm] at hsc
    cases hg : Src.renet.channel.slice_constructor.SliceConstructor.process_slice (reprSC sl.messageId c) sl.sliceIndex (toNats sl.payload) with
    | err x => rw [hg] at hsc; simp [mapRes, SameOutcome] at hsc
    | panic x => rw [hg] at hsc; simp [mapRes, SameOutcome] at hsc
    | ok x =>
      rw [hg] at hsc
      simp only [mapRes, SameOutcome] at hsc
      subst hsc
      simp only [Exec.callFrom_ok, Exec.bind_val']
      cases o with
      | none =>
        simp only [Option.map_none, Exec.bind_val', Exec.run_val, ruOut, mapRes, SameOutcome, Res.pure_eq, reprRU,
          insert_reprSlices, map_insert_eq r.lastReceived]
      | some m =>
        have hpl := payload_len_le c _ _ c' m hc.data hm
        have hS : Src.renet.packet.SLICE_SIZE = C.SLICE_SIZE := rfl
        have hmul : sl.numSlices * C.SLICE_SIZE < 2 ^ 64 := by rw [← heq]; exact hc.size
        have hlen : RustSem.len (toNats m) = m.length := by simp [RustSem.len, toNats]
        simp only [Option.map_some, hS, mul_val hmul, Exec.bind_val', hlen, Res.csub, heq]
        by_cases hsub : sl.numSlices * C.SLICE_SIZE ≤ r.mem
        · have hadd : r.mem - sl.numSlices * C.SLICE_SIZE + m.length < 2 ^ 64 := by rw [← heq]; rw [← heq] at hsub; omega
          simp only [sub_val hsub, Exec.bind_val', add_val hadd, Exec.run_val, hsub, if_true, Res.bind_ok, Res.pure_eq, ruOut,
            mapRes, SameOutcome, reprRU, insert_reprSlices, remove_reprSlices, erase_insert _ _ _ _ hs hf, map_remove_eq r.lastReceived,
            RustSem.push, List.map_append, List.map_cons, List.map_nil]
        · simp only [sub_panic hsub, Exec.bind_panic', Exec.run_panic, hsub, if_false, Res.bind_panic, ruOut, mapRes,
            SameOutcome]

/-- the state after memory has been reserved and a fresh constructor inserted -/
def reserved (r : RecvUnrel) (sl : Slice) : RecvUnrel :=
  { r with mem := r.mem + sl.numSlices * C.SLICE_SIZE,
           slices := SMap.insert r.slices sl.messageId (SliceCtor.new sl.numSlices) }

set_option maxRecDepth 10000 in
theorem process_slice_eq_ru (r : RecvUnrel) (sl : Slice) (now : Nat) (hs : MSorted r.slices)
    (hmem : r.mem + sl.numSlices * C.SLICE_SIZE < 2 ^ 64)
    (hctor : ∀ c, SMap.find? r.slices sl.messageId = some c → CtorOk c) :
    SameOutcome (ReceiveChannelUnreliable.process_slice (reprRU r) (reprSlice sl) now) (ruOut (r.processSlice sl now)) := by
  cases hf : SMap.find? r.slices sl.messageId with
  | some c => exact process_slice_has r sl now c hf hs (hctor c hf) (by omega)
  | none =>
    have hcont : SMap.contains r.slices sl.messageId = false := by simp [SMap.contains, hf]
    have hS : Src.renet.packet.SLICE_SIZE = C.SLICE_SIZE := rfl
    have hmul : sl.numSlices * C.SLICE_SIZE < 2 ^ 64 := by omega
    by_cases hfit : r.mem + sl.numSlices * C.SLICE_SIZE > r.maxMem
    · -- memory limited: dropped, state unchanged
      unfold ReceiveChannelUnreliable.process_slice RecvUnrel.processSlice
      simp only [reprRU, reprSlice, contains_reprSlices, hcont, Bool.not_false, if_true, Bool.false_eq_true, if_false, hS,
        mul_val hmul, add_val hmem, Exec.bind_eq, Exec.pure_eq, Exec.bind_val', hfit, decide_true, Exec.bind_ret',
        Exec.run_ret, ruOut, mapRes, SameOutcome]
    · -- both sides continue as on the reserved state
      have hgen : ReceiveChannelUnreliable.process_slice (reprRU r) (reprSlice sl) now
          = ReceiveChannelUnreliable.process_slice (reprRU (reserved r sl)) (reprSlice sl) now := by
        have hc1 : SMap.contains (SMap.insert r.slices sl.messageId (SliceCtor.new sl.numSlices)) sl.messageId = true := by
          simp [SMap.contains, find_insert]
        unfold ReceiveChannelUnreliable.process_slice
        simp only [reprRU, reserved, reprSlice, contains_reprSlices, hcont, hc1, Bool.not_false, Bool.not_true, if_true,
          Bool.false_eq_true, if_false, hS, mul_val hmul, add_val hmem, Exec.bind_eq, Exec.pure_eq, Exec.bind_val', hfit,
          decide_false, sc_new_eq sl.messageId sl.numSlices hmul, Exec.call_ok, insert_reprSlices]
      have hmod : r.processSlice sl now = (reserved r sl).processSlice sl now := by
        have hc1 : SMap.contains (SMap.insert r.slices sl.messageId (SliceCtor.new sl.numSlices)) sl.messageId = true := by
          simp [SMap.contains, find_insert]
        unfold RecvUnrel.processSlice
        simp only [hcont, Bool.false_eq_true, if_false, hfit, reserved, hc1, if_true]
      rw [hgen, hmod]
      refine process_slice_has (reserved r sl) sl now (SliceCtor.new sl.numSlices) (find_insert _ _ _)
        (sorted_insert _ _ _ hs) (ctorOk_new _ hmul) ?_
      simp only [reserved]; omega

/-! ### discard_incomplete_old_slices -/

/-- ids whose last slice is older than the limit (first loop) -/
def lostIds (now : Nat) (l : SMap Nat) : List Nat :=
  (l.filter (fun (p : Nat × Nat) => now - p.2 ≥ C.DISCARD_FRAGMENT_AFTER_NS)).map (·.1)

theorem lost_loop {ε ρ : Type} (now : Nat) (body : Nat × Nat → List Nat → Exec ε ρ (List Nat))
    (hb : ∀ k t acc, t ≤ now → body (k, t) acc = .val (if now - t ≥ C.DISCARD_FRAGMENT_AFTER_NS then acc ++ [k] else acc)) :
    ∀ (l : SMap Nat) (acc : List Nat), (∀ p ∈ l, p.2 ≤ now) →
      RustSem.forEach l acc body = .val (acc ++ lostIds now l) := by
  intro l
  induction l with
  | nil => intro acc _; simp [RustSem.forEach, lostIds]
  | cons p r ih =>
    obtain ⟨k, t⟩ := p
    intro acc h
    have ht : t ≤ now := h (k, t) (by simp)
    rw [RustSem.forEach, hb k t acc ht, Exec.bind_val', ih _ (fun q hq => h q (by simp [hq]))]
    simp only [lostIds, List.filter_cons]
    by_cases hd : now - t ≥ C.DISCARD_FRAGMENT_AFTER_NS
    · simp [hd]
    · simp [hd]

/-- one round of the second loop -/
def discardStep (id : Nat) (r : RecvUnrel) : Res Empty RecvUnrel :=
  match SMap.find? r.slices id with
  | none => .panic "unreliable.rs discarded slice should exist"
  | some c => do
    let mem ← Res.csub r.mem (c.numSlices * C.SLICE_SIZE) "unreliable.rs memory_usage_bytes -= num_slices * SLICE_SIZE (discard)"
    pure { r with lastReceived := SMap.erase r.lastReceived id, slices := SMap.erase r.slices id, mem := mem }

theorem discardLoop_cons (id : Nat) (rest : List Nat) (r : RecvUnrel) :
    discardLoop (id :: rest) r = (discardStep id r >>= discardLoop rest) := by
  rw [discardLoop]
  unfold discardStep
  cases SMap.find? r.slices id with
  | none => rfl
  | some c =>
    simp only
    cases (Res.csub r.mem (c.numSlices * C.SLICE_SIZE)
      "unreliable.rs memory_usage_bytes -= num_slices * SLICE_SIZE (discard)" : Res Empty Nat) <;> rfl

/-- agreement of a generated loop state with a model outcome (panic sites are not compared) -/
def ExecSame {ε ρ : Type} : Exec ε ρ SRU → Res Empty RecvUnrel → Prop
  | .val a, .ok b => a = reprRU b
  | .panic _, .panic _ => True
  | _, _ => False

/-- every constructor in the table has a size that fits `usize` -/
def SizesOk (r : RecvUnrel) : Prop := ∀ p ∈ r.slices, p.2.numSlices * C.SLICE_SIZE < 2 ^ 64

theorem discard_loop {ε ρ : Type} (body : Nat → SRU → Exec ε ρ SRU)
    (hb : ∀ id r, SizesOk r → ExecSame (body id (reprRU r)) (discardStep id r)) :
    ∀ (lost : List Nat) (r : RecvUnrel), SizesOk r →
      ExecSame (RustSem.forEach lost (reprRU r) body) (discardLoop lost r) := by
  intro lost
  induction lost with
  | nil => intro r _; simp [RustSem.forEach, discardLoop, ExecSame]
  | cons id rest ih =>
    intro r hr
    rw [RustSem.forEach, discardLoop_cons]
    have h1 := hb id r hr
    cases hm : discardStep id r with
    | err e => exact nomatch e
    | panic s =>
      rw [hm] at h1
      cases hg : body id (reprRU r) with
      | panic s' => simp [Exec.bind, ExecSame]
      | val a => rw [hg] at h1; simp [ExecSame] at h1
      | ret a => rw [hg] at h1; simp [ExecSame] at h1
      | err a => rw [hg] at h1; simp [ExecSame] at h1
    | ok r' =>
      rw [hm] at h1
      cases hg : body id (reprRU r) with
      | panic s' => rw [hg] at h1; simp [ExecSame] at h1
      | ret a => rw [hg] at h1; simp [ExecSame] at h1
      | err a => rw [hg] at h1; simp [ExecSame] at h1
      | val a =>
        rw [hg] at h1
        simp only [ExecSame] at h1
        subst h1
        simp only [Exec.bind_val', Res.bind_ok]
        apply ih
        -- sizes are preserved: the table only shrinks
        unfold discardStep at hm
        cases hfd : SMap.find? r.slices id with
        | none => rw [hfd] at hm; cases hm
        | some c =>
          rw [hfd] at hm
          simp only [Res.csub] at hm
          split at hm
          · simp only [Res.bind_ok, Res.pure_eq] at hm
            injection hm with hm; subst hm
            intro p hp
            exact hr p (mem_erase hp)
          · cases hm

/-- outcome of `discard_incomplete_old_slices` predicted by the model (`Res Empty`: no `Err`) -/
def discardOut {ε : Type} : Res Empty RecvUnrel → Res ε (SRU × Unit) → Prop
  | .ok b, .ok a => a = (reprRU b, ())
  | .panic _, .panic _ => True
  | _, _ => False

theorem discard_finish {ε : Type} (g : Exec ε (SRU × Unit) SRU) (m : Res Empty RecvUnrel) (h : ExecSame g m) :
    discardOut m ((g.bind fun self => Exec.val (self, ())).run) := by
  cases m with
  | err e => exact nomatch e
  | ok b =>
    cases g with
    | val a => simp only [ExecSame] at h; subst h; simp [Exec.bind, Exec.run, discardOut]
    | ret a => simp [ExecSame] at h
    | err a => simp [ExecSame] at h
    | panic s => simp [ExecSame] at h
  | panic s =>
    cases g with
    | panic s' => simp [Exec.bind, Exec.run, discardOut]
    | val a => simp [ExecSame] at h
    | ret a => simp [ExecSame] at h
    | err a => simp [ExecSame] at h

set_option maxRecDepth 10000 in
theorem discard_eq {ε : Type} (r : RecvUnrel) (now : Nat) (hpast : ∀ p ∈ r.lastReceived, p.2 ≤ now) (hsz : SizesOk r) :
    discardOut (r.discardOld now) (ReceiveChannelUnreliable.discard_incomplete_old_slices (reprRU r) now : Res ε _) := by
  unfold ReceiveChannelUnreliable.discard_incomplete_old_slices RecvUnrel.discardOld
  simp only [Exec.bind_eq, Exec.pure_eq]
  have hlr : (reprRU r).slices_last_received = r.lastReceived := rfl
  rw [hlr, lost_loop now _ ?hb r.lastReceived [] hpast]
  case hb =>
    intro k t acc ht
    have hfs : RustSem.Duration.from_secs 3 = C.DISCARD_FRAGMENT_AFTER_NS := rfl
    simp only [RustSem.Duration.sub, if_pos ht, Exec.bind_val', RustSem.push, hfs]
    by_cases hd : now - t ≥ C.DISCARD_FRAGMENT_AFTER_NS
    · simp [hd]
    · simp [hd]
  simp only [Exec.bind_val', List.nil_append]
  have hlost : (r.lastReceived.filter (fun x => match x with | (_, t) => decide (now - t ≥ C.DISCARD_FRAGMENT_AFTER_NS))).map (·.1)
      = lostIds now r.lastReceived := by
    unfold lostIds; congr 2
  rw [hlost]
  apply discard_finish
  refine discard_loop _ ?hb2 (lostIds now r.lastReceived) r hsz
  intro id r' hr'
  unfold discardStep
  simp only [reprRU, map_remove_eq r'.lastReceived, find_reprSlices, remove_reprSlices]
  cases hfd : SMap.find? r'.slices id with
  | none => simp [RustSem.unwrap, Exec.bind, ExecSame]
  | some c =>
    have hsz' : c.numSlices * C.SLICE_SIZE < 2 ^ 64 := hr' (id, c) (mem_of_find hfd)
    have hS : Src.renet.packet.SLICE_SIZE = C.SLICE_SIZE := rfl
    have hn : (reprSC id c).num_slices = c.numSlices := rfl
    simp only [Option.map_some, RustSem.unwrap, Exec.bind_val', hn, hS, mul_val hsz', Res.csub]
    by_cases hsub : c.numSlices * C.SLICE_SIZE ≤ r'.mem
    · simp [sub_val hsub, Exec.bind_val', hsub, ExecSame, reprRU]
    · simp [sub_panic hsub, Exec.bind_panic', hsub, ExecSame]
end RecvUnrel
end RenetVerif.SrcEquiv
