/-
  I (partial). unreliable RECEIVE channel, message-queue part: generated `ReceiveChannelUnreliable::{process_message,
  receive_message}` (struct view without the `BTreeMap` slice tables) agree with `RecvUnrel.processMessage` /
  `RecvUnrel.receive` of `Renet/Channels.lean`.  Headline statements in `Props/SrcTieRecvUnrel.lean`.
-/
import RenetVerif.Generated.Src.RecvUnrel
import RenetVerif.Lemmas.SrcEquiv.Prims
namespace RenetVerif.SrcEquiv
open RenetVerif RenetVerif.RustSem

section RecvUnrel
open Src.renet.channel.unreliable

/-- the part of a model state the generated struct view contains -/
def viewRU (r : RecvUnrel) : ReceiveChannelUnreliable := ⟨r.ch, r.messages.map toNats, r.maxMem, r.mem⟩

theorem process_message_eq {ε : Type} (r : RecvUnrel) (m : Bytes) (h : r.mem + m.length < 2 ^ 64) :
    (ReceiveChannelUnreliable.process_message (viewRU r) (toNats m) : Res ε _) = .ok (viewRU (r.processMessage m), ()) := by
  unfold ReceiveChannelUnreliable.process_message RecvUnrel.processMessage
  have hl : RustSem.len (toNats m) = m.length := by simp [RustSem.len, toNats]
  simp only [viewRU, hl, add_val h, Exec.bind_eq, Exec.bind_val', Exec.pure_eq]
  by_cases hm : r.mem + m.length > r.maxMem
  · simp only [hm, decide_true, if_true, Exec.bind_ret', Exec.run_ret]
  · simp [hm, Exec.bind_val', Exec.run_val, RustSem.push, toNats]

/-- `processMessage` leaves the slice tables alone -/
theorem processMessage_tables (r : RecvUnrel) (m : Bytes) :
    (r.processMessage m).slices = r.slices ∧ (r.processMessage m).lastReceived = r.lastReceived := by
  unfold RecvUnrel.processMessage; split <;> exact ⟨rfl, rfl⟩

theorem receive_message_eq {ε : Type} (r : RecvUnrel) :
    (ReceiveChannelUnreliable.receive_message (viewRU r) : Res ε _) =
      match r.receive with
      | .ok (r', o) => .ok (viewRU r', o.map toNats)
      | .err e => nomatch e
      | .panic _ => .panic "renet/src/channel/unreliable.rs:ReceiveChannelUnreliable::receive_message: self.memory_usage_bytes -= message.len()" := by
  unfold ReceiveChannelUnreliable.receive_message RecvUnrel.receive
  cases hq : r.messages with
  | nil => simp [viewRU, hq, Exec.bind_eq, Exec.bind_val', Exec.pure_eq, Exec.run_val]
  | cons m rest =>
    have hl : RustSem.len (toNats m) = m.length := by simp [RustSem.len, toNats]
    simp only [viewRU, hq, List.map_cons, List.head?_cons, List.tail_cons, hl, Exec.bind_eq, Exec.pure_eq, Res.csub]
    by_cases hm : m.length ≤ r.mem
    · simp [hm, sub_val hm, Exec.bind_val', Exec.bind_ret', Exec.run_ret, toNats]
    · simp [hm, sub_panic hm, Exec.bind_panic', Exec.run_panic]
end RecvUnrel
end RenetVerif.SrcEquiv
