/-
  HELPERS for `Props/SrcPropsConnTraceMore.lean` — the model side of

    * "a status change has a cause": which operation of an API trace (`SrcConnSystem.COp`) can change the status of a
      connection, to what, and why (`MCause`, `mtr_step_cause`, `mtr_run_cause`);
    * "a flush never changes the status", along a whole run (`mtr_flush_steps`);
    * "a call panics iff it names a channel id that is not configured, on a live connection"
      (`mtr_step_none_iff`, `hasSend_run_iff`, `hasRecv_run_iff`).

  Everything here is about the hand model `Conn` / the model trace system `MTr`; the transfer to the GENERATED `RenetClient`
  is in the Props file (through `SrcConnSystem.crun_sim` / `crun_sim_conv`).
-/
import RenetVerif.Lemmas.SrcEquiv.SrcConnSystem
import RenetVerif.Props.C06
import RenetVerif.Props.C12
import RenetVerif.Props.C13
set_option linter.unusedVariables false
set_option linter.unusedSimpArgs false
namespace RenetVerif.SrcConnMore
open RenetVerif RenetVerif.RustSem RenetVerif.C RenetVerif.System RenetVerif.SrcEquiv RenetVerif.SrcSystem RenetVerif.SrcConnSystem
open Src.renet.remote_connection

/-! ## small facts -/

/-- in range implies the counter condition of the model's flush theorems -/
theorem countersOK_of_inRange {c : Conn} (h : ConnInRange c) : c.CountersOK := by
  have hM : (2 : Nat) ^ 60 ≤ Varint.MAX := by decide
  refine ⟨fun ch s hf => ?_, fun ch s hf => ?_, ?_⟩
  · have h1 : s.nextId ≤ 2 ^ 60 ∧ s.maxMem ≤ 2 ^ 60 := h.1 (ch, s) (SMap.mem_of_find? hf)
    exact ⟨by omega, by omega⟩
  · have h1 : s.slicedId + s.queue.length ≤ 2 ^ 60 ∧ s.maxMem ≤ 2 ^ 60 := h.2.1 (ch, s) (SMap.mem_of_find? hf)
    exact ⟨by omega, by omega⟩
  · have := h.2.2.2.2.1
    omega

theorem isDisc_false_of_status {c0 c : Conn} (hs : c.status = c0.status) (hd : c0.isDisconnected = false) :
    c.isDisconnected = false := by
  unfold Conn.isDisconnected at hd ⊢; rw [hs]; exact hd

theorem dw_fresh {c0 c : Conn} (r : Reason) (hs : c.status = c0.status) (hd : c0.isDisconnected = false) :
    (c.disconnectWith r).status = .disconnected r := by
  rw [SL.Conn.disconnectWith_status, isDisc_false_of_status hs hd]; rfl

theorem status_of_isDisc {c : Conn} (hd : c.isDisconnected = true) : ∃ r, c.status = .disconnected r :=
  (SL.Conn.isDisconnected_iff c).mp hd

theorem not_disc_of_false {c : Conn} (hd : c.isDisconnected = false) (r : Reason) : c.status ≠ .disconnected r := by
  intro h; rw [SL.Conn.isDisconnected_of_status h] at hd; cases hd

/-! ## the cause of a status change -/

/-- **why an operation can disconnect a live connection `c`, and with which reason** (model side) -/
inductive MCause (c : Conn) : COp → Reason → Prop
  /-- `process_packet`: the datagram does not decode -/
  | deser {b : Bytes} {e : SerErr} : Packet.fromBytes b = .error e → MCause c (.process b) (.packetDeser e)
  /-- `process_packet`: a data packet for a channel id that is not in the receive table of its kind -/
  | invalidChannel {b : Bytes} {p : Packet} {ch : Nat} : Packet.fromBytes b = .ok p → SL.Packet.dataChannel p = some ch →
      (SMap.find? c.recvRel ch = none ∨ SMap.find? c.recvUnrel ch = none) → MCause c (.process b) (.invalidChannel ch)
  /-- `process_packet`: the receive channel `ch` (which exists) rejected the packet's content -/
  | recvChan {b : Bytes} {p : Packet} {ch : Nat} (e : ChanErr) : Packet.fromBytes b = .ok p →
      SL.Packet.dataChannel p = some ch → c.hasRecv ch → MCause c (.process b) (.recvChan ch e)
  /-- `send_message`: the reliable channel's memory budget would be exceeded -/
  | sendChan {ch : Nat} {m : Bytes} {s : SendRel} : SMap.find? c.sendRel ch = some s → s.mem + m.length > s.maxMem →
      MCause c (.send ch m) (.sendChan ch .maxMemory)
  | byClient : MCause c .disconnect .byClient
  | transport : MCause c .disconnectTransport .transport

theorem processPacket_cause {c c' : Conn} {b : Bytes} (hd : c.isDisconnected = false) (h : c.processPacket b = .ok c') :
    c'.status = c.status ∨ ∃ r, c'.status = .disconnected r ∧ MCause c (.process b) r := by
  cases hp : Packet.fromBytes b with
  | error e =>
    rw [SL.Conn.processPacket_garbage hp] at h; cases h
    exact Or.inr ⟨_, dw_fresh _ rfl hd, .deser hp⟩
  | ok p =>
    cases p with
    | ack seq ranges => exact Or.inl (SL.Conn.processPacket_ack_frame hp h).2.2.1
    | smallReliable seq ch msgs =>
      unfold Conn.processPacket at h
      rw [hd, hp] at h
      simp only [Bool.false_eq_true, if_false] at h
      split at h
      · rename_i hf
        cases h
        exact Or.inr ⟨_, dw_fresh _ rfl hd, .invalidChannel hp rfl (Or.inl hf)⟩
      · rename_i r hf
        split at h
        · cases h; exact Or.inl rfl
        · cases h
          exact Or.inr ⟨_, dw_fresh _ rfl hd, .recvChan _ hp rfl (Or.inl (by rw [hf]; simp))⟩
        · cases h
    | reliableSlice seq ch sl =>
      unfold Conn.processPacket at h
      rw [hd, hp] at h
      simp only [Bool.false_eq_true, if_false] at h
      split at h
      · rename_i hf
        cases h
        exact Or.inr ⟨_, dw_fresh _ rfl hd, .invalidChannel hp rfl (Or.inl hf)⟩
      · rename_i r hf
        split at h
        · cases h; exact Or.inl rfl
        · cases h
          exact Or.inr ⟨_, dw_fresh _ rfl hd, .recvChan _ hp rfl (Or.inl (by rw [hf]; simp))⟩
        · cases h
    | smallUnreliable seq ch msgs =>
      unfold Conn.processPacket at h
      rw [hd, hp] at h
      simp only [Bool.false_eq_true, if_false] at h
      split at h
      · rename_i hf
        cases h
        exact Or.inr ⟨_, dw_fresh _ rfl hd, .invalidChannel hp rfl (Or.inr hf)⟩
      · cases h; exact Or.inl rfl
    | unreliableSlice seq ch sl =>
      unfold Conn.processPacket at h
      rw [hd, hp] at h
      simp only [Bool.false_eq_true, if_false] at h
      split at h
      · rename_i hf
        cases h
        exact Or.inr ⟨_, dw_fresh _ rfl hd, .invalidChannel hp rfl (Or.inr hf)⟩
      · rename_i r hf
        split at h
        · cases h; exact Or.inl rfl
        · cases h
          exact Or.inr ⟨_, dw_fresh _ rfl hd, .recvChan _ hp rfl (Or.inr (by rw [hf]; simp))⟩
        · cases h

theorem sendMessage_cause {c c' : Conn} {ch : Nat} {m : Bytes} (hd : c.isDisconnected = false)
    (h : c.sendMessage ch m = .ok c') :
    c'.status = c.status ∨ ∃ r, c'.status = .disconnected r ∧ MCause c (.send ch m) r := by
  unfold Conn.sendMessage at h
  rw [hd] at h
  simp only [Bool.false_eq_true, if_false] at h
  split at h
  · rename_i s hs
    split at h
    · cases h; exact Or.inl rfl
    · rename_i e he
      cases h
      unfold SendRel.sendMessage at he
      split at he
      · rename_i hmem
        cases he
        exact Or.inr ⟨_, dw_fresh _ rfl hd, .sendChan hs hmem⟩
      · cases he
  · split at h
    · cases h; exact Or.inl rfl
    · cases h

/-- **one step of an API trace**: the status is unchanged, or the connection was live and the operation is one of the
    status setters (with the obvious result) or a disconnect with a cause -/
theorem mtr_step_cause {t t' : MTr} {op : COp} (hg : EpGood t.c) (hr : ConnInRange t.c) (h : t.step op = some t') :
    t'.c.status = t.c.status ∨
    (t.c.isDisconnected = false ∧
      ((op = .setConnected ∧ t'.c.status = .connected) ∨ (op = .setConnecting ∧ t'.c.status = .connecting) ∨
        ∃ r, t'.c.status = .disconnected r ∧ MCause t.c op r)) := by
  cases hd : t.c.isDisconnected with
  | true =>
    obtain ⟨r, hst⟩ := status_of_isDisc hd
    left
    rw [C12.status_first_reason t.c t'.c op.toConnOp r (mtr_step_conn h) hst, hst]
  | false =>
    cases op with
    | send ch m =>
      simp only [MTr.step] at h
      cases hm : t.c.sendMessage ch m with
      | ok c' =>
        rw [hm] at h; cases h
        rcases sendMessage_cause hd hm with e | e
        · exact Or.inl e
        · exact Or.inr ⟨rfl, Or.inr (Or.inr e)⟩
      | err e => exact nomatch e
      | panic s => rw [hm] at h; cases h
    | recv ch =>
      simp only [MTr.step] at h
      cases hm : t.c.receiveMessage ch with
      | ok x =>
        obtain ⟨c', o⟩ := x
        rw [hm] at h; cases h
        left
        unfold Conn.receiveMessage at hm
        rw [hd] at hm
        simp only [Bool.false_eq_true, if_false] at hm
        split at hm
        · rename_i r hf
          cases hrr : r.receive with
          | ok y => obtain ⟨r', m'⟩ := y; rw [hrr] at hm; cases hm; rfl
          | err e => exact nomatch e
          | panic s => rw [hrr] at hm; cases hm
        · split at hm
          · rename_i r hf
            cases hrr : r.receive with
            | ok y => obtain ⟨r', m'⟩ := y; rw [hrr] at hm; cases hm; rfl
            | err e => exact nomatch e
            | panic s => rw [hrr] at hm; cases hm
          · cases hm
      | err e => exact nomatch e
      | panic s => rw [hm] at h; cases h
    | update dt =>
      simp only [MTr.step] at h
      cases hm : t.c.update dt with
      | ok c' => rw [hm] at h; cases h; exact Or.inl (SL.Conn.update_status hm)
      | err e => exact nomatch e
      | panic s => rw [hm] at h; cases h
    | flush =>
      simp only [MTr.step] at h
      cases hm : t.c.getPacketsToSend with
      | ok x =>
        obtain ⟨c', o⟩ := x
        rw [hm] at h; cases h
        have hc := countersOK_of_inRange hr
        obtain ⟨c1, bs1, e1, hst, -, -⟩ := C13.connection_fits t.c (CI.flushInv_of hg.sinv hc) hc.seq
        rw [hm] at e1; cases e1
        exact Or.inl hst
      | err e => exact nomatch e
      | panic s => rw [hm] at h; cases h
    | process b =>
      simp only [MTr.step] at h
      cases hm : t.c.processPacket b with
      | ok c' =>
        rw [hm] at h; cases h
        rcases processPacket_cause hd hm with e | e
        · exact Or.inl e
        · exact Or.inr ⟨rfl, Or.inr (Or.inr e)⟩
      | err e => exact nomatch e
      | panic s => rw [hm] at h; cases h
    | setConnected =>
      cases h
      refine Or.inr ⟨rfl, Or.inl ⟨rfl, ?_⟩⟩
      show (t.c.setConnected).status = _
      unfold Conn.setConnected; rw [hd]; rfl
    | setConnecting =>
      cases h
      refine Or.inr ⟨rfl, Or.inr (Or.inl ⟨rfl, ?_⟩)⟩
      show (t.c.setConnecting).status = _
      unfold Conn.setConnecting; rw [hd]; rfl
    | disconnect =>
      cases h
      exact Or.inr ⟨rfl, Or.inr (Or.inr ⟨_, dw_fresh _ rfl hd, .byClient⟩)⟩
    | disconnectTransport =>
      cases h
      exact Or.inr ⟨rfl, Or.inr (Or.inr ⟨_, dw_fresh _ rfl hd, .transport⟩)⟩

/-- conversely, for the four causes that do not depend on the content of a channel: the cause is sufficient -/
theorem mtr_step_cause_conv {t t' : MTr} {op : COp} (hd : t.c.isDisconnected = false) (h : t.step op = some t') :
    (op = .disconnect → t'.c.status = .disconnected .byClient) ∧
    (op = .disconnectTransport → t'.c.status = .disconnected .transport) ∧
    (∀ b e, op = .process b → Packet.fromBytes b = .error e → t'.c.status = .disconnected (.packetDeser e)) ∧
    (∀ ch m s, op = .send ch m → SMap.find? t.c.sendRel ch = some s → s.mem + m.length > s.maxMem →
      t'.c.status = .disconnected (.sendChan ch .maxMemory)) := by
  refine ⟨?_, ?_, ?_, ?_⟩
  · rintro rfl; cases h; exact dw_fresh _ rfl hd
  · rintro rfl; cases h; exact dw_fresh _ rfl hd
  · rintro b e rfl hp
    simp only [MTr.step, SL.Conn.processPacket_garbage hp] at h
    cases h; exact dw_fresh _ rfl hd
  · rintro ch m s rfl hf hmem
    have e : t.c.sendMessage ch m = .ok (t.c.disconnectWith (.sendChan ch .maxMemory)) := by
      unfold Conn.sendMessage
      rw [hd]
      simp only [Bool.false_eq_true, if_false, hf]
      unfold SendRel.sendMessage
      rw [if_pos hmem]
    simp only [MTr.step, e] at h
    cases h; exact dw_fresh _ rfl hd

/-- the status at the end of a run from a disconnected state -/
theorem mtr_run_keeps (r : Reason) : ∀ (ext : List COp) (t t' : MTr), t.c.status = .disconnected r →
    t.run ext = some t' → t'.c.status = .disconnected r
  | [], t, t', h, hr => by cases hr; exact h
  | op :: ext, t, t', h, hr => by
    simp only [MTr.run] at hr
    cases hs : t.step op with
    | none => rw [hs] at hr; cases hr
    | some t1 =>
      rw [hs] at hr
      exact mtr_run_keeps r ext t1 t' (C12.status_first_reason t.c t1.c op.toConnOp r (mtr_step_conn hs) h) hr

/-- **a disconnect has a cause** (model run): if a run from a live state ends disconnected with `r`, it splits at the
    one operation that disconnected it, and that operation has a cause for `r` -/
theorem mtr_run_cause (r : Reason) : ∀ (ops : List COp) (t0 t : MTr), EpGood t0.c → CRunInRangeFrom t0 ops →
    t0.c.isDisconnected = false → t0.run ops = some t → t.c.status = .disconnected r →
    ∃ pre op post t1 t2, ops = pre ++ op :: post ∧ t0.run pre = some t1 ∧ t1.step op = some t2 ∧
      t1.c.isDisconnected = false ∧ t2.c.status = .disconnected r ∧ MCause t1.c op r
  | [], t0, t, _, _, hd, hr, hst => by cases hr; exact absurd hst (not_disc_of_false hd r)
  | op :: ops, t0, t, hg, hrg, hd, hr, hst => by
    obtain ⟨hrange, hop, hrest⟩ := hrg
    simp only [MTr.run] at hr
    cases hs : t0.step op with
    | none => rw [hs] at hr; cases hr
    | some t1 =>
      rw [hs] at hr hrest
      cases hd1 : t1.c.isDisconnected with
      | true =>
        obtain ⟨r1, hst1⟩ := status_of_isDisc hd1
        have hfin := mtr_run_keeps r1 ops t1 t hst1 hr
        rw [hst] at hfin
        cases hfin
        rcases mtr_step_cause hg hrange hs with e | ⟨-, ⟨-, e⟩ | ⟨-, e⟩ | ⟨r', e1, e2⟩⟩
        · rw [e] at hst1; exact absurd hst1 (not_disc_of_false hd r)
        · rw [e] at hst1; cases hst1
        · rw [e] at hst1; cases hst1
        · rw [e1] at hst1; cases hst1
          exact ⟨[], op, ops, t0, t1, rfl, rfl, hs, hd, e1, e2⟩
      | false =>
        obtain ⟨pre, op', post, t1', t2', e, h1, h2, h3, h4, h5⟩ :=
          mtr_run_cause r ops t1 t (epGood_step hg hs) hrest hd1 hr hst
        refine ⟨op :: pre, op', post, t1', t2', by rw [e]; rfl, ?_, h2, h3, h4, h5⟩
        simp only [MTr.run, hs]; exact h1

/-! ## flush steps along a run -/

/-- every flush step of a run (in range, from a good state) leaves the status unchanged, appends exactly its output to the
    log, and its datagrams fit -/
theorem mtr_flush_steps : ∀ (pre : List COp) (post : List COp) (t0 t : MTr), EpGood t0.c →
    CRunInRangeFrom t0 (pre ++ .flush :: post) → t0.run (pre ++ .flush :: post) = some t →
    ∃ t1 t2 bs, t0.run pre = some t1 ∧ t1.step .flush = some t2 ∧ t2.c.status = t1.c.status ∧
      t2.flushes = t1.flushes ++ [bs] ∧ (∀ b ∈ bs, b.length ≤ NETCODE_MAX_PAYLOAD_BYTES) ∧ t2.run post = some t
  | [], post, t0, t, hg, hrg, hr => by
    obtain ⟨hrange, -, -⟩ := hrg
    simp only [List.nil_append, MTr.run] at hr
    cases hs : t0.step .flush with
    | none => rw [hs] at hr; cases hr
    | some t2 =>
      rw [hs] at hr
      have hc := countersOK_of_inRange hrange
      obtain ⟨c1, bs1, e1, hst, hfit, -⟩ := C13.connection_fits t0.c (CI.flushInv_of hg.sinv hc) hc.seq
      have hs' := hs
      simp only [MTr.step, e1] at hs'
      cases hs'
      exact ⟨t0, _, bs1, rfl, hs, hst, rfl, hfit, hr⟩
  | op :: pre, post, t0, t, hg, hrg, hr => by
    obtain ⟨hrange, hop, hrest⟩ := hrg
    simp only [List.cons_append, MTr.run] at hr
    cases hs : t0.step op with
    | none => rw [hs] at hr; cases hr
    | some t1 =>
      rw [hs] at hr
      rw [hs] at hrest
      obtain ⟨t1', t2, bs, a1, a2, a3, a4, a5, a6⟩ := mtr_flush_steps pre post t1 t (epGood_step hg hs) hrest hr
      exact ⟨t1', t2, bs, by simp only [MTr.run, hs]; exact a1, a2, a3, a4, a5, a6⟩

/-! ## the channel tables of a reachable state are those of the configuration -/

theorem foldl_insert_isSome_conv {α β : Type} (key : β → Nat) (val : β → α) : ∀ (l : List β) (m0 : SMap α) (k : Nat),
    (SMap.find? (l.foldl (fun m c => SMap.insert m (key c) (val c)) m0) k).isSome = true →
    ((SMap.find? m0 k).isSome = true ∨ ∃ c ∈ l, key c = k)
  | [], m0, k, h => Or.inl h
  | c :: l, m0, k, h => by
    simp only [List.foldl_cons] at h
    rcases foldl_insert_isSome_conv key val l _ k h with h1 | ⟨c', hc', e⟩
    · rw [SMap.find?_insert] at h1
      split at h1
      · rename_i hk
        exact Or.inr ⟨c, List.mem_cons_self .., hk⟩
      · exact Or.inl h1
    · exact Or.inr ⟨c', List.mem_cons_of_mem _ hc', e⟩

theorem fromChannels_hasSend_iff (budget : Nat) (send recv : List ChanCfg) (ch : Nat) :
    (Conn.fromChannels budget send recv).hasSend ch ↔ ch ∈ send.map (·.id) := by
  refine ⟨fun h => ?_, CI.fromChannels_hasSend budget send recv ch⟩
  unfold Conn.hasSend at h
  rw [CI.ne_none_iff_isSome, CI.ne_none_iff_isSome] at h
  rcases h with h | h
  · rcases foldl_insert_isSome_conv (fun c : ChanCfg => c.id) (fun c => SendRel.new c.id c.resend c.maxMem) _ _ _ h with
      h0 | ⟨c, hc, e⟩
    · cases h0
    · exact List.mem_map.mpr ⟨c, (List.mem_filter.mp hc).1, e⟩
  · rcases foldl_insert_isSome_conv (fun c : ChanCfg => c.id) (fun c => SendUnrel.new c.id c.maxMem) _ _ _ h with
      h0 | ⟨c, hc, e⟩
    · cases h0
    · exact List.mem_map.mpr ⟨c, (List.mem_filter.mp hc).1, e⟩

theorem fromChannels_hasRecv_iff (budget : Nat) (send recv : List ChanCfg) (ch : Nat) :
    (Conn.fromChannels budget send recv).hasRecv ch ↔ ch ∈ recv.map (·.id) := by
  refine ⟨fun h => ?_, CI.fromChannels_hasRecv budget send recv ch⟩
  unfold Conn.hasRecv at h
  rw [CI.ne_none_iff_isSome, CI.ne_none_iff_isSome] at h
  rcases h with h | h
  · rcases foldl_insert_isSome_conv (fun c : ChanCfg => c.id) (fun c => RecvRel.new c.maxMem (c.kind == .ordered)) _ _ _ h with
      h0 | ⟨c, hc, e⟩
    · cases h0
    · exact List.mem_map.mpr ⟨c, (List.mem_filter.mp hc).1, e⟩
  · rcases foldl_insert_isSome_conv (fun c : ChanCfg => c.id) (fun c => RecvUnrel.new c.id c.maxMem) _ _ _ h with
      h0 | ⟨c, hc, e⟩
    · cases h0
    · exact List.mem_map.mpr ⟨c, (List.mem_filter.mp hc).1, e⟩

/-- a successful step keeps the key sets of the channel tables -/
theorem mtr_step_sameChans {t t' : MTr} {op : COp} (hg : EpGood t.c) (h : t.step op = some t') : t.c.SameChans t'.c := by
  have hi : t.c.Inv := CI.sinv_inv hg.sinv
  cases op with
  | send ch m =>
    simp only [MTr.step] at h
    cases hm : t.c.sendMessage ch m with
    | ok c' =>
      rw [hm] at h; cases h
      cases hd : t.c.isDisconnected with
      | true =>
        obtain ⟨r, hst⟩ := status_of_isDisc hd
        rw [SL.Conn.sendMessage_of_disconnected hst] at hm; cases hm
        exact Conn.SameChans.refl _
      | false =>
        have hch : t.c.hasSend ch := Classical.byContradiction fun hn => by
          obtain ⟨s, hs⟩ := (C06.sendMessage_panics_only_on_invalid_channel t.c hi ch m).mpr ⟨hd, hn⟩
          rw [hs] at hm; cases hm
        obtain ⟨c1, e1, -, -, same⟩ := C06.sendMessage_total t.c hi ch m hch
        rw [hm] at e1; cases e1; exact same
    | err e => exact nomatch e
    | panic s => rw [hm] at h; cases h
  | recv ch =>
    simp only [MTr.step] at h
    cases hm : t.c.receiveMessage ch with
    | ok x =>
      obtain ⟨c', o⟩ := x
      rw [hm] at h; cases h
      cases hd : t.c.isDisconnected with
      | true =>
        obtain ⟨r, hst⟩ := status_of_isDisc hd
        rw [SL.Conn.receiveMessage_of_disconnected hst] at hm; cases hm
        exact Conn.SameChans.refl _
      | false =>
        have hch : t.c.hasRecv ch := Classical.byContradiction fun hn => by
          obtain ⟨s, hs⟩ := (C06.receiveMessage_panics_only_on_invalid_channel t.c hi ch).mpr ⟨hd, hn⟩
          rw [hs] at hm; cases hm
        obtain ⟨c1, m1, e1, -, -, same⟩ := C06.receiveMessage_total t.c hi ch hch
        rw [hm] at e1; cases e1; exact same
    | err e => exact nomatch e
    | panic s => rw [hm] at h; cases h
  | update dt =>
    simp only [MTr.step] at h
    cases hm : t.c.update dt with
    | ok c' =>
      rw [hm] at h; cases h
      obtain ⟨c1, e1, -, -, -, same⟩ := C06.update_total t.c hi dt
      rw [hm] at e1; cases e1; exact same
    | err e => exact nomatch e
    | panic s => rw [hm] at h; cases h
  | flush =>
    simp only [MTr.step] at h
    cases hm : t.c.getPacketsToSend with
    | ok x =>
      obtain ⟨c', o⟩ := x
      rw [hm] at h; cases h
      exact (C06.getPacketsToSend_keeps_inv t.c c' o hi hm).2
    | err e => exact nomatch e
    | panic s => rw [hm] at h; cases h
  | process b =>
    simp only [MTr.step] at h
    cases hm : t.c.processPacket b with
    | ok c' =>
      rw [hm] at h; cases h
      obtain ⟨c1, e1, -, -, same⟩ := C06.processPacket_total t.c hi b
      rw [hm] at e1; cases e1; exact same
    | err e => exact nomatch e
    | panic s => rw [hm] at h; cases h
  | setConnected => cases h; exact CI.sameChans_setConnected _
  | setConnecting => cases h; exact CI.sameChans_setConnecting _
  | disconnect => cases h; exact CI.sameChans_dw _ _
  | disconnectTransport => cases h; exact CI.sameChans_dw _ _

theorem mtr_run_sameChans : ∀ (ops : List COp) (t t' : MTr), EpGood t.c → t.run ops = some t' → t.c.SameChans t'.c
  | [], t, t', _, hr => by cases hr; exact Conn.SameChans.refl _
  | op :: ops, t, t', hg, hr => by
    simp only [MTr.run] at hr
    cases hs : t.step op with
    | none => rw [hs] at hr; cases hr
    | some t1 =>
      rw [hs] at hr
      exact (mtr_step_sameChans hg hs).trans (mtr_run_sameChans ops t1 t' (epGood_step hg hs) hr)

/-- in a state reached from `from_channels`, the send channels are exactly the configured ones -/
theorem hasSend_run_iff (cfg : Cfg) (ops : List COp) (t : MTr) (h : (MTr.init cfg).run ops = some t) (ch : Nat) :
    t.c.hasSend ch ↔ ch ∈ cfg.send.map (·.id) :=
  ((mtr_run_sameChans ops _ t (epGood_init cfg) h).hasSend ch).trans (fromChannels_hasSend_iff _ _ _ ch)

theorem hasRecv_run_iff (cfg : Cfg) (ops : List COp) (t : MTr) (h : (MTr.init cfg).run ops = some t) (ch : Nat) :
    t.c.hasRecv ch ↔ ch ∈ cfg.recv.map (·.id) :=
  ((mtr_run_sameChans ops _ t (epGood_init cfg) h).hasRecv ch).trans (fromChannels_hasRecv_iff _ _ _ ch)

/-! ## when a step panics -/

/-- **the model step fails (= the model function panics) iff the connection is live and the operation names a channel the
    connection does not have** — from a good state in range -/
theorem mtr_step_none_iff {t : MTr} (hg : EpGood t.c) (hr : ConnInRange t.c) (op : COp) :
    t.step op = none ↔ (t.c.isDisconnected = false ∧ ¬ CI.ChanValid t.c op.toConnOp) := by
  have hi : t.c.Inv := CI.sinv_inv hg.sinv
  cases op with
  | send ch m =>
    show _ ↔ (t.c.isDisconnected = false ∧ ¬ t.c.hasSend ch)
    rw [← C06.sendMessage_panics_only_on_invalid_channel t.c hi ch m]
    simp only [MTr.step]
    cases hm : t.c.sendMessage ch m with
    | ok c' => simp
    | err e => exact nomatch e
    | panic s => simp
  | recv ch =>
    show _ ↔ (t.c.isDisconnected = false ∧ ¬ t.c.hasRecv ch)
    rw [← C06.receiveMessage_panics_only_on_invalid_channel t.c hi ch]
    simp only [MTr.step]
    cases hm : t.c.receiveMessage ch with
    | ok x => simp
    | err e => exact nomatch e
    | panic s => simp
  | update dt =>
    obtain ⟨c1, e1, -⟩ := C06.update_total t.c hi dt
    simp [MTr.step, e1, CI.ChanValid, COp.toConnOp]
  | flush =>
    obtain ⟨c1, o, e1, -⟩ := C06.getPacketsToSend_total t.c hi (countersOK_of_inRange hr)
    simp [MTr.step, e1, CI.ChanValid, COp.toConnOp]
  | process b =>
    obtain ⟨c1, e1, -⟩ := C06.processPacket_total t.c hi b
    simp [MTr.step, e1, CI.ChanValid, COp.toConnOp]
  | setConnected => simp [MTr.step, CI.ChanValid, COp.toConnOp]
  | setConnecting => simp [MTr.step, CI.ChanValid, COp.toConnOp]
  | disconnect => simp [MTr.step, CI.ChanValid, COp.toConnOp]
  | disconnectTransport => simp [MTr.step, CI.ChanValid, COp.toConnOp]

/-- the range condition of the state an extension starts from -/
theorem inRange_last : ∀ (ops : List COp) (op : COp) (t0 t : MTr), t0.run ops = some t →
    CRunInRangeFrom t0 (ops ++ [op]) → ConnInRange t.c ∧ COpInRange t.c op := by
  intro ops op
  induction ops with
  | nil => intro t0 t h hr; cases h; exact ⟨hr.1, hr.2.1⟩
  | cons o ops ih =>
    intro t0 t h hr
    simp only [MTr.run] at h
    cases hs : t0.step o with
    | none => rw [hs] at h; cases h
    | some t1 =>
      rw [hs] at h
      have h3 := hr.2.2
      rw [hs] at h3
      exact ih t1 t h h3

end RenetVerif.SrcConnMore
