/-
  C. slice constructor.
  (split of the source-tie helper lemmas so that an edit of one Rust function only breaks the properties that
  depend on that function; headline statements in `Props/SrcTieSlice.lean`)
-/
import RenetVerif.Generated.Src.Slice
import RenetVerif.Lemmas.SrcEquiv.Prims
import RenetVerif.Lemmas.SrcEquiv.CommonRepr
namespace RenetVerif.SrcEquiv
open RenetVerif RenetVerif.RustSem

/-! ## C. slice constructor -/
section C
open Src.renet.channel.slice_constructor

def reprSC (mid : Nat) (c : SliceCtor) : SliceConstructor := ⟨mid, c.numSlices, c.numReceived, c.received, toNats c.data⟩

theorem sc_new_eq {ε} (mid n : Nat) (h : n * C.SLICE_SIZE < 2 ^ 64) :
    (SliceConstructor.new mid n : Res ε _) = .ok (reprSC mid (SliceCtor.new n)) := by
  unfold SliceConstructor.new
  simp only [Src.renet.packet.SLICE_SIZE, mul_val (show n * 1200 < 2 ^ 64 from h), Exec.bind_val, Exec.pure_eq, Exec.run_val,
    reprSC, SliceCtor.new, RustSem.repeat_, toNats_replicate, C.SLICE_SIZE]

theorem toNats_resize (d : Bytes) (n : Nat) : toNats (resize d n) = RustSem.resize (toNats d) n 0 := by
  simp [toNats, resize, RustSem.resize]

set_option maxRecDepth 10000 in
theorem process_slice_eq (mid : Nat) (c : SliceCtor) (idx : Nat) (bytes : Bytes)
    (hn : c.numSlices * C.SLICE_SIZE < 2 ^ 64) (hr : c.numReceived + 1 < 2 ^ 64) :
    SameOutcome (SliceConstructor.process_slice (reprSC mid c) idx (toNats bytes))
      (mapRes (fun r => (reprSC mid r.1, r.2.map toNats)) (fun e => (reprCE e, reprSC mid c)) (c.processSlice idx bytes)) := by
  obtain ⟨n, nr, rc, d⟩ := c
  simp only [C.SLICE_SIZE] at hn hr
  unfold SliceConstructor.process_slice SliceCtor.processSlice
  simp only [reprSC, Src.renet.packet.SLICE_SIZE, C.SLICE_SIZE, RustSem.len, toNats_length, Exec.pure_eq]
  by_cases h1 : idx ≥ n
  · simp [h1, Exec.bind_eq, Exec.bind, Exec.run, mapRes, SameOutcome, reprCE]
  have hn1 : 1 ≤ n := by omega
  simp only [h1, decide_false, Bool.false_eq_true, if_false, Exec.bind_val, sub_val hn1]
  have hset : ∀ (dd : Bytes) (a b : Nat) (st : String) (st' : String), b = a + bytes.length →
      ∀ (k : List Nat → Exec (SChannelError × SliceConstructor) (SliceConstructor × Option (List Nat)) (SliceConstructor × Option (List Nat)))
        (k' : Bytes → Res ChanErr (SliceCtor × Option Bytes)),
      (∀ x, SameOutcome (k (toNats x)).run (mapRes (fun r => (reprSC mid r.1, r.2.map toNats)) (fun e => (reprCE e, reprSC mid ⟨n, nr, rc, d⟩)) (k' x))) →
      SameOutcome ((RustSem.copy_from_slice (toNats dd) a b (toNats bytes) st).bind k).run
        (mapRes (fun r => (reprSC mid r.1, r.2.map toNats)) (fun e => (reprCE e, reprSC mid ⟨n, nr, rc, d⟩)) (setRange dd a bytes st' >>= k')) := by
    intro dd a b st st' hb k k' hk
    subst hb
    unfold RustSem.copy_from_slice setRange
    simp only [toNats_length]
    by_cases hle : a + bytes.length ≤ dd.length
    · have : a ≤ a + bytes.length ∧ a + bytes.length ≤ dd.length ∧ bytes.length = a + bytes.length - a := by omega
      rw [if_pos this, if_pos hle]
      have e : List.take a (toNats dd) ++ toNats bytes ++ List.drop (a + bytes.length) (toNats dd)
          = toNats (List.take a dd ++ bytes ++ List.drop (a + bytes.length) dd) := by
        simp only [toNats, List.map_append, List.map_take, List.map_drop]
      rw [e]; exact hk _
    · have : ¬ (a ≤ a + bytes.length ∧ a + bytes.length ≤ dd.length ∧ bytes.length = a + bytes.length - a) := by omega
      rw [if_neg this, if_neg hle]
      trivial
  have hfin : ∀ (nr' : Nat) (rc' : List Bool) (x : Bytes),
      SameOutcome
        (((if decide (nr' = n) = true then
            (Exec.ret (({ message_id := mid, num_slices := n, num_received_slices := nr', received := rc', sliced_data := [] } : SliceConstructor),
              some (toNats x)) : Exec (SChannelError × SliceConstructor) _ SliceConstructor)
          else Exec.val ({ message_id := mid, num_slices := n, num_received_slices := nr', received := rc', sliced_data := toNats x } : SliceConstructor)).bind
            fun self => Exec.val (self, none)).run)
        (mapRes (fun r => (reprSC mid r.1, r.2.map toNats)) (fun e => (reprCE e, reprSC mid ⟨n, nr, rc, d⟩))
          (if nr' = n then (pure (({ numSlices := n, numReceived := nr', received := rc', data := [] } : SliceCtor), some x) : Res ChanErr _)
           else pure (({ numSlices := n, numReceived := nr', received := rc', data := x } : SliceCtor), none))) := by
    intro nr' rc' x
    by_cases h : nr' = n <;> simp [h, Exec.bind, Exec.run, mapRes, SameOutcome, reprSC, toNats]
  simp only [reprSC] at hset hfin
  by_cases hl : idx = n - 1
  · subst hl
    simp only [decide_true, if_true, beq_self_eq_true, true_and, not_true_eq_false, false_and, if_false]
    by_cases hb : bytes.length > 1200
    · simp only [hb, decide_true, if_true, Exec.bind_eq, Exec.bind_err', Exec.run_err, mapRes, SameOutcome, reprCE]
    simp only [hb, decide_false, Bool.false_eq_true, if_false, Exec.bind_eq, Exec.bind_val']
    cases hg : rc[n - 1]? with
    | none => simp only [index_panic hg, Exec.bind_panic', Exec.run_panic, mapRes, SameOutcome]
    | some got =>
      simp only [index_val hg, Exec.bind_val']
      have hlt : n - 1 < rc.length := (List.getElem?_eq_some_iff.mp hg).1
      cases got with
      | true =>
        simp only [Bool.not_true, Bool.false_eq_true, if_false, Exec.bind_val', if_true, Res.bind_ok, Res.pure_eq]
        exact hfin nr rc d
      | false =>
        have hm : (n - 1) * 1200 < 2 ^ 64 := by omega
        have ha : (n - 1) * 1200 + bytes.length < 2 ^ 64 := by omega
        have hr' : nr + 1 < 2 ^ 64 := by omega
        simp only [Bool.not_false, if_true, set_val hlt, Exec.bind_val', Exec.bind_assoc', add_val hr', mul_val hm, add_val ha,
          sub_val hn1, decide_true, Bool.false_eq_true, if_false, ← toNats_resize]
        refine hset _ _ _ _ _ rfl _ _ (fun x => ?_)
        simp only [Res.bind_ok, Res.pure_eq]
        exact hfin (nr + 1) (rc.set (n - 1) true) x
  · have hbeq : (idx == n - 1) = false := by simpa using hl
    simp only [hl, decide_false, Bool.false_eq_true, if_false, hbeq, false_and, not_false_eq_true, true_and]
    by_cases hb : bytes.length ≠ 1200
    · simp only [hb, ne_eq, not_false_eq_true, decide_true, if_true, Exec.bind_eq, Exec.bind_err', Exec.run_err, mapRes, SameOutcome, reprCE]
    have hb' : bytes.length = 1200 := by simpa using hb
    simp only [hb', ne_eq, not_true_eq_false, decide_false, Bool.false_eq_true, if_false, Exec.bind_eq, Exec.bind_val']
    cases hg : rc[idx]? with
    | none => simp only [index_panic hg, Exec.bind_panic', Exec.run_panic, mapRes, SameOutcome]
    | some got =>
      simp only [index_val hg, Exec.bind_val']
      have hlt : idx < rc.length := (List.getElem?_eq_some_iff.mp hg).1
      cases got with
      | true =>
        simp only [Bool.not_true, Bool.false_eq_true, if_false, Exec.bind_val', if_true, Res.bind_ok, Res.pure_eq]
        exact hfin nr rc d
      | false =>
        have hm : idx * 1200 < 2 ^ 64 := by omega
        have ha : idx + 1 < 2 ^ 64 := by omega
        have hm2 : (idx + 1) * 1200 < 2 ^ 64 := by omega
        have hr' : nr + 1 < 2 ^ 64 := by omega
        simp only [Bool.not_false, if_true, set_val hlt, Exec.bind_val', Exec.bind_assoc', add_val hr', mul_val hm, add_val ha,
          mul_val hm2, sub_val hn1, hl, decide_false, Bool.false_eq_true, if_false]
        refine hset _ _ _ _ _ (by omega) _ _ (fun x => ?_)
        simp only [Res.bind_ok, Res.pure_eq]
        exact hfin (nr + 1) (rc.set idx true) x

theorem sc_new_overflow {ε} (mid n : Nat) (h : ¬ n * C.SLICE_SIZE < 2 ^ 64) :
    ∃ site, (SliceConstructor.new mid n : Res ε _) = .panic site := by
  unfold SliceConstructor.new
  simp only [Src.renet.packet.SLICE_SIZE, mul_panic (show ¬ n * 1200 < 2 ^ 64 from h), Exec.bind_panic, Exec.run_panic]
  exact ⟨_, rfl⟩

/-- abstraction: generated `SliceConstructor` ↦ model `SliceCtor` (the model does not store `message_id`) -/
def absSC (st : SliceConstructor) : SliceCtor :=
  ⟨st.num_slices, st.num_received_slices, st.received, ofNats st.sliced_data⟩

/-- well-formed source state: data bytes are bytes, `num_slices * SLICE_SIZE` and the receive counter fit `usize` -/
def WfSC (st : SliceConstructor) : Prop :=
  BytesOk st.sliced_data ∧ st.num_slices * C.SLICE_SIZE < 2 ^ 64 ∧ st.num_received_slices + 1 < 2 ^ 64
instance (st : SliceConstructor) : Decidable (WfSC st) := by unfold WfSC; infer_instance

theorem reprSC_absSC (st : SliceConstructor) (h : BytesOk st.sliced_data) : reprSC st.message_id (absSC st) = st := by
  cases st; simp only [reprSC, absSC] at h ⊢; rw [toNats_ofNats h]
theorem absSC_reprSC (mid : Nat) (c : SliceCtor) : absSC (reprSC mid c) = c := by
  cases c; simp [absSC, reprSC, ofNats_toNats]
end C

end RenetVerif.SrcEquiv
