/-
  `renet_netcode/src/client.rs` (group TrClient): the client transport against `Transport/Glue.lean`.
  The socket is the semantic-model socket (see `TrSocket.lean`); what the transport needs from the `RenetClient` it drives
  is the abstract simulation `RcSim`, from the `NetcodeClient` the invariant `NcCInv`.
  Headline statements in `Props/SrcTieTrClient.lean`.
-/
import RenetVerif.Generated.Src.TrClient
import RenetVerif.Lemmas.SrcEquiv.TrSocket
import RenetVerif.Lemmas.SrcEquiv.NcClient
import RenetVerif.Lemmas.SrcEquiv.ConnRecv
import RenetVerif.Lemmas.SrcEquiv.ConnSend
set_option linter.unusedSimpArgs false
set_option linter.unusedVariables false
namespace RenetVerif.SrcEquiv
open RenetVerif RenetVerif.RustSem RenetVerif.Netcode RenetVerif.Transport

section TrClient
open Src.renet_netcode.client

abbrev SRenetClient := Src.renet.remote_connection.RenetClient
abbrev SClientTransport := Src.renet_netcode.client.NetcodeClientTransport
abbrev CTrErr := Src.renet_netcode.NetcodeTransportError × (SClientTransport × SRenetClient)

def reprTErr : TransportError → Src.renet_netcode.NetcodeTransportError
  | .netcode e => .Netcode (reprNErr e)
  | .renet r => .Renet (reprReason r)

/-- the client transport (socket script `inbox`, log `out`; netcode client with scratch buffer `o`; receive buffer `buf`) -/
def ctrR (inbox : List Dgram) (out : Array Dgram) (o : List Nat) (nc : Netcode.NetcodeClient) (buf : List Nat) : SClientTransport :=
  ⟨sockR inbox out, reprNC o nc, buf⟩

/-- the simulation the transport needs from the renet client: `R` relates the model connection and the generated
    `RenetClient` and is kept by the operations the transport calls, with the model's results -/
structure RcSim (R : Conn → SRenetClient → Prop) : Prop where
  reason : ∀ {c : Conn} {g : SRenetClient}, R c g →
    (Src.renet.remote_connection.RenetClient.disconnect_reason g : Res CTrErr _) = .ok (c.disconnectReason.map reprReason)
  dtt : ∀ {c : Conn} {g : SRenetClient}, R c g → ∃ g', R (c.disconnectWith .transport) g' ∧
    (Src.renet.remote_connection.RenetClient.disconnect_due_to_transport g : Res CTrErr _) = .ok (g', ())
  setc : ∀ {c : Conn} {g : SRenetClient}, R c g → ∃ g', R c.setConnected g' ∧
    (Src.renet.remote_connection.RenetClient.set_connected g : Res CTrErr _) = .ok (g', ())
  setg : ∀ {c : Conn} {g : SRenetClient}, R c g → ∃ g', R c.setConnecting g' ∧
    (Src.renet.remote_connection.RenetClient.set_connecting g : Res CTrErr _) = .ok (g', ())
  pp : ∀ {c : Conn} {g : SRenetClient}, R c g → ∀ (bytes : Bytes),
    match c.processPacket bytes with
    | .ok c' => ∃ g', R c' g' ∧
        (Src.renet.remote_connection.RenetClient.process_packet g (toNats bytes) : Res CTrErr _) = .ok (g', ())
    | .panic _ => ∃ m, (Src.renet.remote_connection.RenetClient.process_packet g (toNats bytes) : Res CTrErr _) = .panic m
    | .err e => nomatch e
  gpts : ∀ {c : Conn} {g : SRenetClient}, R c g →
    match c.getPacketsToSend with
    | .ok (c', ps) => ∃ g', R c' g' ∧
        (Src.renet.remote_connection.RenetClient.get_packets_to_send g : Res CTrErr _) = .ok (g', ps.map toNats)
    | .panic _ => ∃ m, (Src.renet.remote_connection.RenetClient.get_packets_to_send g : Res CTrErr _) = .panic m
    | .err e => nomatch e

/-- the invariant the transport needs from the netcode client: the per-call hypotheses of `SrcTieNcClient` follow from `I`,
    and the model's operations keep `I` -/
structure NcCInv (a : AEAD) (I : Netcode.NetcodeClient → Prop) : Prop where
  to : ∀ {c : Netcode.NetcodeClient}, I c → c.connectToken.timeoutSeconds < 2 ^ 31
  idx : ∀ {c : Netcode.NetcodeClient}, I c → c.serverAddrIndex + 1 < 2 ^ 64
  pp : ∀ {c c' : Netcode.NetcodeClient} {p : Option Bytes} (buf : Bytes), I c → c.processPacket a buf = .ok (p, c') → I c'
  update : ∀ {c c' : Netcode.NetcodeClient} {r : Option (Bytes × Addr)} (dt : Nat), I c → c.update a dt = .ok (r, c') → I c'
  gen : ∀ {c c' : Netcode.NetcodeClient} {r : Addr × Bytes} (p : Bytes), I c → c.generatePayloadPacket a p = .ok (r, c') → I c'
  disc : ∀ {c : Netcode.NetcodeClient}, I c → I (c.disconnect a).2

/-! ### `disconnect` -/

/-- `Transport.clientDisconnect` started with `out` already in the socket's log (`clientDisconnect` is the case `#[]`) -/
def clientDisconnectFrom (a : AEAD) (g : ClientGlue) (out : Array Dgram) : Res Empty (ClientGlue × Array Dgram) :=
  if g.netcode.isDisconnected then pure (g, out) else
  let (r, nc) := g.netcode.disconnect a
  let g := { g with netcode := nc }
  match r with
  | .panic m => .panic m
  | .err _ => pure (g, out)
  | .ok (addr, pkt) => pure (g, out.push (addr, pkt))

theorem clientDisconnect_eq_from (a : AEAD) (g : ClientGlue) : clientDisconnect a g = clientDisconnectFrom a g #[] := by
  unfold clientDisconnect clientDisconnectFrom
  split
  · rfl
  · simp only []
    cases (g.netcode.disconnect a).1 with
    | panic m => rfl
    | err e => rfl
    | ok v => rfl

/-- `disconnect`: nothing for a disconnected client; else the netcode client becomes `Disconnected(DisconnectedByClient)` and
    its `Disconnect` packet goes out (a failed encode is ignored) -/
theorem ctr_disconnect_eq {ε : Type} (a : AEAD) (hl : a.Laws) (nc : Netcode.NetcodeClient) (rc : Conn) (inbox : List Dgram)
    (out : Array Dgram) (o buf : List Nat) (ho : o.length = C.NETCODE_MAX_PACKET_BYTES) :
    match clientDisconnectFrom a ⟨nc, rc⟩ out with
    | .ok (g', out') => ∃ o', o'.length = C.NETCODE_MAX_PACKET_BYTES ∧ g'.renet = rc ∧
        (@NetcodeClientTransport.disconnect (aeadOf a) ε (ctrR inbox out o nc buf)) = .ok (ctrR inbox out' o' g'.netcode buf, ())
    | .err e => nomatch e
    | .panic _ => ∃ msg, (@NetcodeClientTransport.disconnect (aeadOf a) ε (ctrR inbox out o nc buf)) = .panic msg := by
  unfold NetcodeClientTransport.disconnect clientDisconnectFrom
  have hd := nc_disconnect_eq a hl o ho nc
  simp only [ctrR, Exec.bind_eq, Exec.pure_eq, nc_is_disconnected_eq, Exec.call_ok, Exec.bind_val']
  cases hdis : nc.isDisconnected with
  | true =>
    simp only [if_true, Exec.bind_ret', Exec.run_ret, Res.pure_eq]
    exact ⟨o, ho, trivial, rfl⟩
  | false =>
    simp only [Bool.false_eq_true, if_false, Exec.bind_val']
    generalize hM : nc.disconnect a = M at hd ⊢
    obtain ⟨r, nc'⟩ := M
    simp only [] at hd ⊢
    cases r with
    | panic m =>
      obtain ⟨msg, hg⟩ := hd
      simp only [hg, attempt_panic', Exec.bind_panic', Exec.run_panic]
      exact ⟨_, rfl⟩
    | err e =>
      obtain ⟨o', ho', hg⟩ := hd
      simp only [hg, attempt_err', Exec.bind_val', Exec.run_val, Res.pure_eq]
      exact ⟨o', ho', trivial, rfl⟩
    | ok v =>
      obtain ⟨addr, pkt⟩ := v
      obtain ⟨o', ho', hg⟩ := hd
      simp only [hg, attempt_ok', Exec.bind_val', send_to_eq, Exec.run_val, Res.pure_eq]
      exact ⟨o', ho', trivial, rfl⟩

/-! ### `send_packets` -/

/-- what a `Result<(), NetcodeTransportError>` method leaves: the model's result, glue state and log; the scratch buffers
    are some buffers of their length; `rest` = the datagrams still queued at the socket -/
def CliTrOut (R : Conn → SRenetClient → Prop) (I : Netcode.NetcodeClient → Prop) (bl : Nat) (res : Except TransportError Unit)
    (g' : ClientGlue) (out' : Array Dgram) (rest : List Dgram) (g : Res CTrErr (SClientTransport × SRenetClient × Unit)) : Prop :=
  ∃ o' buf' gr', o'.length = C.NETCODE_MAX_PACKET_BYTES ∧ buf'.length = bl ∧ I g'.netcode ∧ R g'.renet gr' ∧
    g = match res with
        | .ok _ => .ok (ctrR rest out' o' g'.netcode buf', gr', ())
        | .error e => .err (reprTErr e, (ctrR rest out' o' g'.netcode buf', gr'))

/-- `Transport.clientSendPackets` started with `out` already in the socket's log -/
def clientSendPacketsFrom (a : AEAD) (g : ClientGlue) (out : Array Dgram) :
    Res Empty (Except TransportError Unit × ClientGlue × Array Dgram) :=
  match g.netcode.disconnectReason with
  | some reason => pure (.error (.netcode (.disconnected reason)), g, out)
  | none => do
    let (rc, packets) ← g.renet.getPacketsToSend
    let (e, nc, out) ← clientSendLoop a g.netcode packets out
    let g := { netcode := nc, renet := rc }
    match e with
    | some e => pure (.error (.netcode e), g, out)
    | none => pure (.ok (), g, out)

theorem clientSendPackets_eq_from (a : AEAD) (g : ClientGlue) : clientSendPackets a g = clientSendPacketsFrom a g #[] := rfl

/-- the body of `for packet in packets` (the text of the generated definition; `csend_packets_unfold` is by `rfl`) -/
def csendBody [RustSem.Aead] {ρ : Type} (connection : SRenetClient) : List Nat → SClientTransport → Exec CTrErr ρ SClientTransport :=
  (fun packet self => (do
        let t4 ← Exec.callFrom (fun err => Res.bind (Src.renet_netcode.NetcodeTransportError.from_NetcodeError err.1) (fun e' => Res.ok (e', ({ self with netcode_client := err.2 }, connection)))) (Src.renetcode.client.NetcodeClient.generate_payload_packet self.netcode_client packet)
        let self := { self with netcode_client := t4.1 }
        let (addr, payload) := t4.2
        let t5 ← Exec.callFrom (fun err => Res.bind (Src.renet_netcode.NetcodeTransportError.from_Error err.1) (fun e' => Res.ok (e', ({ self with socket := err.2 }, connection)))) (RustSem.UdpSocket.send_to self.socket payload addr)
        let self := { self with socket := t5.1 }
        let _ := t5.2
        pure self))

theorem csend_packets_unfold [RustSem.Aead] (self : SClientTransport) (connection : SRenetClient) :
    NetcodeClientTransport.send_packets self connection = Exec.run
      ((Exec.call (Src.renetcode.client.NetcodeClient.disconnect_reason self.netcode_client)).bind fun t1 =>
        (match t1 with
          | some reason => (do
            let t2 ← Exec.call (Src.renet_netcode.NetcodeTransportError.from_NetcodeError (Src.renetcode.error.NetcodeError.Disconnected reason))
            Exec.err (t2, (self, connection)))
          | _ => pure ()).bind fun _ =>
        (Exec.call (Src.renet.remote_connection.RenetClient.get_packets_to_send connection)).bind fun t3 =>
        (RustSem.forEach t3.2 self (csendBody t3.1)).bind fun self' => Exec.val (self', t3.1, ())) := rfl

theorem csendLoop_eq {ρ : Type} (a : AEAD) (hl : a.Laws) {I : Netcode.NetcodeClient → Prop} (hinv : NcCInv a I) (gr : SRenetClient)
    (inbox : List Dgram) (buf : List Nat) :
    ∀ (ps : List Bytes) (nc : Netcode.NetcodeClient) (out : Array Dgram) (o : List Nat), I nc →
      o.length = C.NETCODE_MAX_PACKET_BYTES →
      match clientSendLoop a nc ps out with
      | .ok (none, nc', out') => ∃ o', o'.length = C.NETCODE_MAX_PACKET_BYTES ∧ I nc' ∧
          RustSem.forEach (ps.map toNats) (ctrR inbox out o nc buf) (@csendBody (aeadOf a) ρ gr) = .val (ctrR inbox out' o' nc' buf)
      | .ok (some e, nc', out') => ∃ o', o'.length = C.NETCODE_MAX_PACKET_BYTES ∧ I nc' ∧
          RustSem.forEach (ps.map toNats) (ctrR inbox out o nc buf) (@csendBody (aeadOf a) ρ gr)
            = .err (.Netcode (reprNErr e), (ctrR inbox out' o' nc' buf, gr))
      | .err e => nomatch e
      | .panic _ => ∃ msg, RustSem.forEach (ps.map toNats) (ctrR inbox out o nc buf) (@csendBody (aeadOf a) ρ gr) = .panic msg := by
  intro ps
  induction ps with
  | nil =>
    intro nc out o hi ho
    simp only [clientSendLoop, List.map_nil, RustSem.forEach, Res.pure_eq]
    exact ⟨o, ho, hi, rfl⟩
  | cons p rest ih =>
    intro nc out o hi ho
    have hgen := nc_generate_payload_packet_eq a hl o ho nc p
    simp only [clientSendLoop, List.map_cons, RustSem.forEach]
    cases hm : nc.generatePayloadPacket a p with
    | panic m =>
      rw [hm] at hgen
      obtain ⟨msg, hg⟩ := hgen
      simp only [csendBody, ctrR, Exec.bind_eq, hg, Exec.callFrom_panic, Exec.bind_panic']
      exact ⟨_, rfl⟩
    | err e =>
      rw [hm] at hgen
      obtain ⟨o', ho', hg⟩ := hgen
      simp only [csendBody, ctrR, Exec.bind_eq, hg, Res.pure_eq]
      refine ⟨o', ho', hi, ?_⟩
      rfl
    | ok v =>
      obtain ⟨⟨addr, d⟩, nc'⟩ := v
      rw [hm] at hgen
      obtain ⟨o', ho', hg⟩ := hgen
      have hi' := hinv.gen p hi hm
      have hrec := ih nc' (out.push (addr, d)) o' hi' ho'
      simp only [csendBody, ctrR, Exec.bind_eq, Exec.pure_eq, hg, Exec.callFrom_ok, Exec.bind_val', send_to_eq]
      exact hrec

/-- `send_packets`: `Err(Netcode(Disconnected(reason)))` for a disconnected netcode client; else the renet packets go through
    `generate_payload_packet` and `send_to`, the first netcode error ends the call with `Err(Netcode(e))` -/
theorem ctr_send_packets_eq (a : AEAD) (hl : a.Laws) {R : Conn → SRenetClient → Prop} (hsim : RcSim R)
    {I : Netcode.NetcodeClient → Prop} (hinv : NcCInv a I) (g : ClientGlue) (gr : SRenetClient) (hi : I g.netcode)
    (hr : R g.renet gr) (inbox : List Dgram) (out : Array Dgram) (o buf : List Nat) (ho : o.length = C.NETCODE_MAX_PACKET_BYTES) :
    match clientSendPacketsFrom a g out with
    | .ok (res, g', out') => CliTrOut R I buf.length res g' out' inbox
        (@NetcodeClientTransport.send_packets (aeadOf a) (ctrR inbox out o g.netcode buf) gr)
    | .err e => nomatch e
    | .panic _ => ∃ msg, @NetcodeClientTransport.send_packets (aeadOf a) (ctrR inbox out o g.netcode buf) gr = .panic msg := by
  rw [@csend_packets_unfold (aeadOf a)]
  unfold clientSendPacketsFrom
  have hdr : (Src.renetcode.client.NetcodeClient.disconnect_reason (ctrR inbox out o g.netcode buf).netcode_client : Res CTrErr _)
      = .ok (g.netcode.disconnectReason.map reprDR) := nc_disconnect_reason_eq o g.netcode
  rw [hdr, Exec.call_ok, Exec.bind_val']
  cases hdis : g.netcode.disconnectReason with
  | some reason =>
    simp only [Option.map_some, Res.pure_eq]
    exact ⟨o, buf, gr, ho, rfl, hi, hr, rfl⟩
  | none =>
    simp only [Option.map_none, Exec.pure_eq, Exec.bind_val']
    have hgp := hsim.gpts hr
    cases hm : g.renet.getPacketsToSend with
    | err e => exact nomatch e
    | panic m =>
      rw [hm] at hgp
      obtain ⟨msg, hg⟩ := hgp
      rw [hg, Exec.call_panic, Exec.bind_panic']
      exact ⟨_, rfl⟩
    | ok v =>
      obtain ⟨rc, ps⟩ := v
      rw [hm] at hgp
      obtain ⟨gr', hr', hg⟩ := hgp
      rw [hg, Exec.call_ok, Exec.bind_val']
      have hloop := csendLoop_eq (ρ := SClientTransport × SRenetClient × Unit) a hl hinv gr' inbox buf ps g.netcode out o hi ho
      simp only [Res.bind_ok]
      cases hm2 : clientSendLoop a g.netcode ps out with
      | err e => exact nomatch e
      | panic m =>
        rw [hm2] at hloop
        obtain ⟨msg, hg2⟩ := hloop
        rw [hg2, Exec.bind_panic']
        exact ⟨_, rfl⟩
      | ok v2 =>
        obtain ⟨e, nc', out'⟩ := v2
        rw [hm2] at hloop
        cases e with
        | none =>
          obtain ⟨o', ho', hi', hg2⟩ := hloop
          rw [hg2, Exec.bind_val']
          exact ⟨o', buf, gr', ho', rfl, hi', hr', rfl⟩
        | some e =>
          obtain ⟨o', ho', hi', hg2⟩ := hloop
          rw [hg2, Exec.bind_err']
          exact ⟨o', buf, gr', ho', rfl, hi', hr', rfl⟩

/-! ### `update` -/

open RenetVerif.Src in
/-- the body of the `loop { let packet = match self.socket.recv_from(&mut self.buffer) { … }; … }` of `update` (the text of
    the generated definition; `cupdate_unfold` is by `rfl`) -/
def recvBodyC [RustSem.Aead] : SRenetClient × SClientTransport →
    Exec CTrErr (RustSem.LoopExit (SClientTransport × SRenetClient × Unit) (SRenetClient × SClientTransport)) (SRenetClient × SClientTransport) :=
  (fun (client, self) => (if true then (do
        let t15 ← Exec.attempt2 (RustSem.UdpSocket.recv_from self.socket self.buffer)
        let self := { self with socket := t15.1.1 }
        let self := { self with buffer := t15.1.2 }
        let scrut_t14 := t15.2
        let (self, t18) ←
          (match scrut_t14 with
          | Except.ok (len, addr) => (do
            let t16 ← Exec.call (renetcode.client.NetcodeClient.server_addr' self.netcode_client)
            let _ ←
              (if (decide (addr ≠ t16)) then Exec.ret (RustSem.LoopExit.cont (client, self))
              else pure ())
            pure (self, len))
          | Except.error e => (do
            let t17 ←
              (if (decide ((RustSem.IoError.kind e) = RustSem.ErrorKind.WouldBlock)) then Exec.ret (RustSem.LoopExit.brk (client, self))
              else (if (decide ((RustSem.IoError.kind e) = RustSem.ErrorKind.Interrupted)) then Exec.ret (RustSem.LoopExit.brk (client, self))
              else Exec.err ((renet_netcode.NetcodeTransportError.IO e), (self, client))))
            pure (self, t17)))
        let t19 := t18
        let t20 ← RustSem.slice self.buffer 0 t19 "renet_netcode/src/client.rs:NetcodeClientTransport::update: match self.socket.recv_from(&mut self.buffer) { Ok((len, addr)) => { if addr != self.netcode_client.server_addr() { log::debug!('Discarded packet from unknown server {:?}', addr); continue; } &mut self.buffer[..len] } Err(ref e) if e.kind() == io::ErrorKind::WouldBlock => break, Err(ref e) if e.kind() == io::ErrorKind::Interrupted => break, Err(e) => return Err(NetcodeTransportError::IO(e)), }"
        let t21 ← Exec.call (renetcode.client.NetcodeClient.process_packet self.netcode_client t20)
        let self := { self with netcode_client := t21.1 }
        let t22 ← RustSem.splice self.buffer 0 t19 t21.2.1 "renet_netcode/src/client.rs:NetcodeClientTransport::update: match self.socket.recv_from(&mut self.buffer) { Ok((len, addr)) => { if addr != self.netcode_client.server_addr() { log::debug!('Discarded packet from unknown server {:?}', addr); continue; } &mut self.buffer[..len] } Err(ref e) if e.kind() == io::ErrorKind::WouldBlock => break, Err(ref e) if e.kind() == io::ErrorKind::Interrupted => break, Err(e) => return Err(NetcodeTransportError::IO(e)), }"
        let self := { self with buffer := t22 }
        let (client, self) ←
          (match t21.2.2 with
          | some payload => (do
            let t23 ← Exec.call (renet.remote_connection.RenetClient.process_packet client payload)
            let client := t23.1
            pure (client, self))
          | _ => pure (client, self))
        pure (client, self))
      else Exec.ret (RustSem.LoopExit.brk (client, self))))

open RenetVerif.Src in
/-- the part of `update` after the status update: receive loop, `NetcodeClient::update`, the packet it asks to send -/
def updTail [RustSem.Aead] (duration : Nat) (client : SRenetClient) (self : SClientTransport) :
    Exec CTrErr (SClientTransport × SRenetClient × Unit) (SClientTransport × SRenetClient × Unit) :=
  (do
    let t12 ← Exec.call (RustSem.UdpSocket.pending self.socket)
    let t13 ← RustSem.add 64 t12 1 "renet_netcode/src/client.rs:NetcodeClientTransport::update: self.socket.pending() + 1"
    let (client, self) ←
      RustSem.whileFuel t13 "renet_netcode/src/client.rs:NetcodeClientTransport::update: fuel exhausted" (client, self) recvBodyC
    let t24 ← Exec.call (renetcode.client.NetcodeClient.update self.netcode_client duration)
    let self := { self with netcode_client := t24.1 }
    let self ←
      (match t24.2 with
      | some (packet, addr) => (do
        let t25 ← Exec.callFrom (fun err => Res.bind (renet_netcode.NetcodeTransportError.from_Error err.1) (fun e' => Res.ok (e', ({ self with socket := err.2 }, client)))) (RustSem.UdpSocket.send_to self.socket packet addr)
        let self := { self with socket := t25.1 }
        let _ := t25.2
        pure self)
      | _ => pure self)
    pure (self, client, ()))

open RenetVerif.Src in
theorem cupdate_unfold [RustSem.Aead] (self : SClientTransport) (duration : Nat) (client : SRenetClient) :
    NetcodeClientTransport.update self duration client = Exec.run (do
    let t1 ← Exec.call (renetcode.client.NetcodeClient.disconnect_reason self.netcode_client)
    let client ←
      (match t1 with
      | some reason => (do
        let t2 ← Exec.call (renet.remote_connection.RenetClient.disconnect_due_to_transport client)
        let client := t2.1
        let t3 ← Exec.call (renet_netcode.NetcodeTransportError.from_NetcodeError (renetcode.error.NetcodeError.Disconnected reason))
        Exec.err (t3, (self, client)))
      | _ => pure client)
    let t4 ← Exec.call (renet.remote_connection.RenetClient.disconnect_reason client)
    let self ←
      (match t4 with
      | some error => (do
        let t5 ← Exec.callFrom (fun err => Res.bind (renet_netcode.NetcodeTransportError.from_NetcodeError err.1) (fun e' => Res.ok (e', ({ self with netcode_client := err.2 }, client)))) (renetcode.client.NetcodeClient.disconnect self.netcode_client)
        let self := { self with netcode_client := t5.1 }
        let (addr, disconnect_packet) := t5.2
        let t6 ← Exec.callFrom (fun err => Res.bind (renet_netcode.NetcodeTransportError.from_Error err.1) (fun e' => Res.ok (e', ({ self with socket := err.2 }, client)))) (RustSem.UdpSocket.send_to self.socket disconnect_packet addr)
        let self := { self with socket := t6.1 }
        let _ := t6.2
        let t7 ← Exec.call (renet_netcode.NetcodeTransportError.from_DisconnectReason error)
        Exec.err (t7, (self, client)))
      | _ => pure self)
    let t8 ← Exec.call (renetcode.client.NetcodeClient.is_connected self.netcode_client)
    let client ←
      (if t8 then (do
        let t9 ← Exec.call (renet.remote_connection.RenetClient.set_connected client)
        let client := t9.1
        pure client)
      else (do
        let t10 ← Exec.call (renetcode.client.NetcodeClient.is_connecting self.netcode_client)
        (if t10 then (do
          let t11 ← Exec.call (renet.remote_connection.RenetClient.set_connecting client)
          let client := t11.1
          pure client)
        else pure client)))
    updTail duration client self) := rfl

/-- one datagram of the model's receive loop -/
def clientRecvStep (a : AEAD) (g : ClientGlue) (d : Dgram) : Res Empty ClientGlue :=
  if d.1 ≠ g.netcode.serverAddr then pure g else do
    let (p, nc) ← g.netcode.processPacket a d.2
    match p with
    | none => pure { g with netcode := nc }
    | some p => do
      let rc ← g.renet.processPacket p
      pure { netcode := nc, renet := rc }

theorem clientRecvLoop_cons (a : AEAD) (g : ClientGlue) (d : Dgram) (rest : List Dgram) :
    clientRecvLoop a g (d :: rest) = (clientRecvStep a g d).bind fun g' => clientRecvLoop a g' rest := by
  obtain ⟨addr, buf⟩ := d
  simp only [clientRecvLoop, clientRecvStep]
  by_cases h : addr = g.netcode.serverAddr
  · simp only [h, ne_eq, not_true_eq_false, if_false]
    cases hm : g.netcode.processPacket a buf with
    | err e => exact nomatch e
    | panic m => rfl
    | ok v =>
      obtain ⟨p, nc⟩ := v
      cases p with
      | none => rfl
      | some p =>
        simp only [Res.bind_ok]
        cases g.renet.processPacket p with
        | err e => exact nomatch e
        | panic m => rfl
        | ok rc => rfl
  · simp only [h, ne_eq, not_false_eq_true, if_true]
    rfl

theorem recvBodyC_empty [RustSem.Aead] (out : Array Dgram) (o : List Nat) (nc : Netcode.NetcodeClient) (buf : List Nat)
    (gr : SRenetClient) :
    recvBodyC (gr, ctrR [] out o nc buf) = .ret (.brk (gr, ctrR [] out o nc buf)) := by
  unfold recvBodyC
  simp only [ctrR, if_true, Exec.bind_eq, Exec.pure_eq, recv_from_empty, Exec.attempt2, Exec.bind_val']
  rfl

/-- one datagram through the body of the client's receive loop: dropped unless it comes from the server's address; else
    `process_packet` (decrypting in the receive buffer), and a payload goes to `RenetClient::process_packet` -/
theorem recvBodyC_dgram (a : AEAD) (hl : a.Laws) {R : Conn → SRenetClient → Prop} (hsim : RcSim R)
    {I : Netcode.NetcodeClient → Prop} (hinv : NcCInv a I) (g : ClientGlue) (gr : SRenetClient) (hi : I g.netcode)
    (hr : R g.renet gr) (addr : Addr) (b : Bytes) (rest : List Dgram) (out : Array Dgram) (o buf : List Nat)
    (hcap : buf.length + 16 < 2 ^ 64) :
    match clientRecvStep a g (addr, b.take buf.length) with
    | .ok g' => ∃ buf' gr', buf'.length = buf.length ∧ I g'.netcode ∧ R g'.renet gr' ∧
        (@recvBodyC (aeadOf a) (gr, ctrR ((addr, b) :: rest) out o g.netcode buf) = .val (gr', ctrR rest out o g'.netcode buf') ∨
         @recvBodyC (aeadOf a) (gr, ctrR ((addr, b) :: rest) out o g.netcode buf)
            = .ret (.cont (gr', ctrR rest out o g'.netcode buf')))
    | .err e => nomatch e
    | .panic _ => ∃ msg, @recvBodyC (aeadOf a) (gr, ctrR ((addr, b) :: rest) out o g.netcode buf) = .panic msg := by
  have hbl : (b.take buf.length).length + 16 < 2 ^ 64 := by
    rw [List.length_take]; omega
  have hlen : (toNats (b.take buf.length) ++ buf.drop (toNats (b.take buf.length)).length).length = buf.length := by
    rw [List.length_append, List.length_drop, toNats_length, List.length_take]; omega
  have hpp := nc_process_packet_eqL (ε := CTrErr) a hl o g.netcode (b.take buf.length) hbl
  unfold recvBodyC clientRecvStep
  simp only [ctrR, if_true, Exec.bind_eq, Exec.pure_eq, recv_from_dgram, Exec.attempt2, Exec.bind_val', nc_server_addr_eq,
    Exec.call_ok]
  by_cases haddr : addr = g.netcode.serverAddr
  · have hd : decide (reprAddr addr ≠ reprAddr g.netcode.serverAddr) = false := by
      rw [haddr]; simp
    simp only [hd, Bool.false_eq_true, if_false, Exec.bind_val', slice_prefix]
    have hne : ¬ (addr ≠ g.netcode.serverAddr) := fun h => h haddr
    simp only [hne, if_false]
    cases hm : g.netcode.processPacket a (b.take buf.length) with
    | err e => exact nomatch e
    | panic m =>
      rw [hm] at hpp
      obtain ⟨msg, hg⟩ := hpp
      simp only [hg, Exec.call_panic, Exec.bind_panic', Res.bind_panic]
      exact ⟨_, rfl⟩
    | ok v =>
      obtain ⟨p, nc'⟩ := v
      rw [hm] at hpp
      obtain ⟨buf', hb', hg⟩ := hpp
      have hi' := hinv.pp _ hi hm
      have hlen' : (buf' ++ buf.drop (toNats (b.take buf.length)).length).length = buf.length := by
        rw [List.length_append, hb', List.length_drop, toNats_length, List.length_take]; omega
      simp only [hg, Exec.call_ok, Exec.bind_val', splice_prefix, Res.bind_ok]
      cases p with
      | none =>
        simp only [Option.map_none, Res.pure_eq]
        exact ⟨_, gr, hlen', hi', hr, Or.inl rfl⟩
      | some pl =>
        have hrp := hsim.pp hr pl
        simp only [Option.map_some]
        cases hm2 : g.renet.processPacket pl with
        | err e => exact nomatch e
        | panic m =>
          rw [hm2] at hrp
          obtain ⟨msg, hg2⟩ := hrp
          simp only [hg2, Exec.call_panic, Exec.bind_panic', Res.bind_panic]
          exact ⟨_, rfl⟩
        | ok rc =>
          rw [hm2] at hrp
          obtain ⟨gr', hr', hg2⟩ := hrp
          simp only [hg2, Exec.call_ok, Exec.bind_val', Res.bind_ok, Res.pure_eq]
          exact ⟨_, gr', hlen', hi', hr', Or.inl rfl⟩
  · have hd : decide (reprAddr addr ≠ reprAddr g.netcode.serverAddr) = true := by
      simp only [ne_eq, reprAddr_eq_iff, decide_eq_true_eq]; exact haddr
    simp only [hd, if_true, Exec.bind_ret']
    have hne : addr ≠ g.netcode.serverAddr := haddr
    rw [if_pos hne]
    simp only [Res.pure_eq]
    exact ⟨_, gr, hlen, hi, hr, Or.inr rfl⟩

/-- the client's receive loop; the fuel `pending() + 1` is never exhausted -/
theorem crecvLoop_eq (a : AEAD) (hl : a.Laws) {R : Conn → SRenetClient → Prop} (hsim : RcSim R)
    {I : Netcode.NetcodeClient → Prop} (hinv : NcCInv a I) (site : String) (cap : Nat) (hcap : cap + 16 < 2 ^ 64)
    (out : Array Dgram) (o : List Nat) :
    ∀ (inbox : List Dgram) (g : ClientGlue) (gr : SRenetClient) (buf : List Nat) (fuel : Nat),
      inbox.length < fuel → I g.netcode → R g.renet gr → buf.length = cap →
      match clientRecvLoop a g (inbox.map (recvFrom cap)) with
      | .ok g' => ∃ buf' gr', buf'.length = cap ∧ I g'.netcode ∧ R g'.renet gr' ∧
          RustSem.whileFuel fuel site (gr, ctrR inbox out o g.netcode buf) (@recvBodyC (aeadOf a))
            = .val (gr', ctrR [] out o g'.netcode buf')
      | .err e => nomatch e
      | .panic _ => ∃ msg, RustSem.whileFuel fuel site (gr, ctrR inbox out o g.netcode buf) (@recvBodyC (aeadOf a)) = .panic msg := by
  intro inbox
  induction inbox with
  | nil =>
    intro g gr buf fuel hf hi hr hb
    obtain ⟨n, rfl⟩ : ∃ n, fuel = n + 1 := ⟨fuel - 1, by simp at hf; omega⟩
    rw [whileFuel_step, @recvBodyC_empty (aeadOf a)]
    simp only [List.map_nil, clientRecvLoop, Res.pure_eq]
    exact ⟨buf, gr, hb, hi, hr, rfl⟩
  | cons d rest ih =>
    intro g gr buf fuel hf hi hr hb
    obtain ⟨addr, b⟩ := d
    obtain ⟨n, rfl⟩ : ∃ n, fuel = n + 1 := ⟨fuel - 1, by simp at hf; omega⟩
    have hstep := recvBodyC_dgram a hl hsim hinv g gr hi hr addr b rest out o buf (by rw [hb]; exact hcap)
    rw [whileFuel_step, List.map_cons, clientRecvLoop_cons]
    simp only [recvFrom]
    rw [hb] at hstep
    cases hm : clientRecvStep a g (addr, b.take cap) with
    | err e => exact nomatch e
    | panic m =>
      rw [hm] at hstep
      obtain ⟨msg, hg⟩ := hstep
      rw [hg]
      exact ⟨_, rfl⟩
    | ok g' =>
      rw [hm] at hstep
      obtain ⟨buf', gr', hb', hi', hr', hg | hg⟩ := hstep
      · rw [hg]
        exact ih g' gr' buf' n (by simp at hf; omega) hi' hr' hb'
      · rw [hg]
        exact ih g' gr' buf' n (by simp at hf; omega) hi' hr' hb'

/-- `Transport.clientUpdate` started with `out` already in the socket's log -/
def clientUpdateFrom (a : AEAD) (g : ClientGlue) (duration : Nat) (inbox : List Dgram) (out : Array Dgram) : Res Empty ClientOut :=
  match g.netcode.disconnectReason with
  | some reason =>
    pure ⟨.error (.netcode (.disconnected reason)), { g with renet := g.renet.disconnectWith .transport }, out, inbox⟩
  | none =>
  match g.renet.disconnectReason with
  | some error =>
    let (r, nc) := g.netcode.disconnect a
    let g := { g with netcode := nc }
    match r with
    | .panic m => .panic m
    | .err e => pure ⟨.error (.netcode e), g, out, inbox⟩
    | .ok (addr, pkt) => pure ⟨.error (.renet error), g, out.push (addr, pkt), inbox⟩
  | none => do
    let rc := if g.netcode.isConnected then g.renet.setConnected
              else if g.netcode.isConnecting then g.renet.setConnecting else g.renet
    let g ← clientRecvLoop a { g with renet := rc } inbox
    let (o, nc) ← g.netcode.update a duration
    let g := { g with netcode := nc }
    match o with
    | some (pkt, addr) => pure ⟨.ok (), g, out.push (addr, pkt), []⟩
    | none => pure ⟨.ok (), g, out, []⟩

theorem clientUpdate_eq_from (a : AEAD) (g : ClientGlue) (duration : Nat) (inbox : List Dgram) :
    clientUpdate a g duration inbox = clientUpdateFrom a g duration inbox #[] := by
  unfold clientUpdate clientUpdateFrom
  cases g.netcode.disconnectReason with
  | some reason => rfl
  | none =>
    cases g.renet.disconnectReason with
    | some error =>
      simp only []
      cases (g.netcode.disconnect a).1 with
      | panic m => rfl
      | err e => rfl
      | ok v => rfl
    | none => rfl

/-- the model of `updTail` -/
def clientUpdateTail (a : AEAD) (g : ClientGlue) (duration : Nat) (inbox : List Dgram) (out : Array Dgram) : Res Empty ClientOut := do
  let g ← clientRecvLoop a g inbox
  let (o, nc) ← g.netcode.update a duration
  let g := { g with netcode := nc }
  match o with
  | some (pkt, addr) => pure ⟨.ok (), g, out.push (addr, pkt), []⟩
  | none => pure ⟨.ok (), g, out, []⟩

theorem ctr_update_tail (a : AEAD) (hl : a.Laws) {R : Conn → SRenetClient → Prop} (hsim : RcSim R)
    {I : Netcode.NetcodeClient → Prop} (hinv : NcCInv a I) (g : ClientGlue) (gr : SRenetClient) (hi : I g.netcode)
    (hr : R g.renet gr) (duration : Nat) (inbox : List Dgram) (hin : inbox.length + 1 < 2 ^ 64) (out : Array Dgram)
    (o buf : List Nat) (ho : o.length = C.NETCODE_MAX_PACKET_BYTES) (hb : buf.length = C.TRANSPORT_CLIENT_BUFFER) :
    match clientUpdateTail a g duration (inbox.map (recvFrom C.TRANSPORT_CLIENT_BUFFER)) out with
    | .ok r => ∃ rest, rest.map (recvFrom C.TRANSPORT_CLIENT_BUFFER) = r.rest ∧
        CliTrOut R I C.TRANSPORT_CLIENT_BUFFER r.result r.g r.out rest
          (Exec.run (@updTail (aeadOf a) duration gr (ctrR inbox out o g.netcode buf)))
    | .err e => nomatch e
    | .panic _ => ∃ msg, Exec.run (@updTail (aeadOf a) duration gr (ctrR inbox out o g.netcode buf)) = .panic msg := by
  unfold updTail clientUpdateTail
  simp only [Exec.bind_eq, Exec.pure_eq]
  have hpend : (RustSem.UdpSocket.pending (ctrR inbox out o g.netcode buf).socket : Res CTrErr Nat) = .ok inbox.length :=
    pending_sockR inbox out
  rw [hpend, Exec.call_ok, Exec.bind_val', add_val hin, Exec.bind_val']
  have hloop := crecvLoop_eq a hl hsim hinv "renet_netcode/src/client.rs:NetcodeClientTransport::update: fuel exhausted"
    C.TRANSPORT_CLIENT_BUFFER (by decide) out o inbox g gr buf (inbox.length + 1) (Nat.lt_succ_self _) hi hr hb
  cases hm : clientRecvLoop a g (inbox.map (recvFrom C.TRANSPORT_CLIENT_BUFFER)) with
  | err e => exact nomatch e
  | panic m =>
    rw [hm] at hloop
    obtain ⟨msg, hg⟩ := hloop
    rw [hg, Exec.bind_panic']
    exact ⟨_, rfl⟩
  | ok g1 =>
    rw [hm] at hloop
    obtain ⟨buf1, gr1, hb1, hi1, hr1, hg⟩ := hloop
    rw [hg, Exec.bind_val']
    have hu := nc_update_eq (ε := CTrErr) a hl o ho g1.netcode (hinv.to hi1) (hinv.idx hi1) duration
    simp only [Res.bind_ok]
    cases hm2 : g1.netcode.update a duration with
    | err e => exact nomatch e
    | panic m =>
      rw [hm2] at hu
      obtain ⟨msg, hg2⟩ := hu
      simp only [ctrR, hg2, Exec.call_panic, Exec.bind_panic', Exec.run_panic, Res.bind_panic]
      exact ⟨_, rfl⟩
    | ok v =>
      obtain ⟨r, nc2⟩ := v
      rw [hm2] at hu
      obtain ⟨o2, ho2, hg2⟩ := hu
      have hi2 := hinv.update duration hi1 hm2
      cases r with
      | none =>
        simp only [ctrR, hg2, Exec.call_ok, Exec.bind_val', Option.map_none, Exec.run_val, Res.bind_ok, Res.pure_eq]
        exact ⟨[], rfl, o2, buf1, gr1, ho2, hb1, hi2, hr1, rfl⟩
      | some pa =>
        obtain ⟨pkt, addr⟩ := pa
        simp only [ctrR, hg2, Exec.call_ok, Exec.bind_val', Option.map_some, send_to_eq, Exec.callFrom_ok, Exec.run_val,
          Res.bind_ok, Res.pure_eq]
        exact ⟨[], rfl, o2, buf1, gr1, ho2, hb1, hi2, hr1, rfl⟩

set_option maxRecDepth 10000 in
/-- `update` -/
theorem ctr_update_eq (a : AEAD) (hl : a.Laws) {R : Conn → SRenetClient → Prop} (hsim : RcSim R)
    {I : Netcode.NetcodeClient → Prop} (hinv : NcCInv a I) (g : ClientGlue) (gr : SRenetClient) (hi : I g.netcode)
    (hr : R g.renet gr) (duration : Nat) (inbox : List Dgram) (hin : inbox.length + 1 < 2 ^ 64) (out : Array Dgram)
    (o buf : List Nat) (ho : o.length = C.NETCODE_MAX_PACKET_BYTES) (hb : buf.length = C.TRANSPORT_CLIENT_BUFFER) :
    match clientUpdateFrom a g duration (inbox.map (recvFrom C.TRANSPORT_CLIENT_BUFFER)) out with
    | .ok r => ∃ rest, rest.map (recvFrom C.TRANSPORT_CLIENT_BUFFER) = r.rest ∧
        CliTrOut R I C.TRANSPORT_CLIENT_BUFFER r.result r.g r.out rest
          (@NetcodeClientTransport.update (aeadOf a) (ctrR inbox out o g.netcode buf) duration gr)
    | .err e => nomatch e
    | .panic _ => ∃ msg, @NetcodeClientTransport.update (aeadOf a) (ctrR inbox out o g.netcode buf) duration gr = .panic msg := by
  rw [@cupdate_unfold (aeadOf a)]
  unfold clientUpdateFrom
  simp only [Exec.bind_eq, Exec.pure_eq]
  have hdr : (Src.renetcode.client.NetcodeClient.disconnect_reason (ctrR inbox out o g.netcode buf).netcode_client : Res CTrErr _)
      = .ok (g.netcode.disconnectReason.map reprDR) := nc_disconnect_reason_eq o g.netcode
  rw [hdr, Exec.call_ok, Exec.bind_val']
  cases hdis : g.netcode.disconnectReason with
  | some reason =>
    obtain ⟨gr', hr', hg⟩ := hsim.dtt hr
    simp only [Option.map_some, hg, Exec.call_ok, Exec.bind_val', Res.pure_eq]
    exact ⟨inbox, rfl, o, buf, gr', ho, hb, hi, hr', rfl⟩
  | none =>
    simp only [Option.map_none, Exec.bind_val']
    rw [hsim.reason hr, Exec.call_ok, Exec.bind_val']
    cases hrd : g.renet.disconnectReason with
    | some error =>
      simp only [Option.map_some]
      have hd := nc_disconnect_eq a hl o ho g.netcode
      have hd' : CliSendOut (g.netcode.disconnect a).2 (g.netcode.disconnect a).1
          (@Src.renetcode.client.NetcodeClient.disconnect (aeadOf a) (ctrR inbox out o g.netcode buf).netcode_client) := hd
      have hi' := hinv.disc (a := a) hi
      generalize hM : g.netcode.disconnect a = M at hd' hi' ⊢
      obtain ⟨r, nc'⟩ := M
      simp only [] at hd' hi' ⊢
      cases r with
      | panic m =>
        obtain ⟨msg, hg⟩ := hd'
        rw [hg, Exec.callFrom_panic, Exec.bind_panic', Exec.bind_panic']
        exact ⟨_, rfl⟩
      | err e =>
        obtain ⟨o', ho', hg⟩ := hd'
        rw [hg, Exec.callFrom_err _ _ _ ?hk, Exec.bind_err', Exec.bind_err']
        case hk => rfl
        exact ⟨inbox, rfl, o', buf, gr, ho', hb, hi', hr, rfl⟩
      | ok v =>
        obtain ⟨addr, pkt⟩ := v
        obtain ⟨o', ho', hg⟩ := hd'
        rw [hg, Exec.callFrom_ok, Exec.bind_val']
        simp only [ctrR, send_to_eq, Exec.callFrom_ok, Exec.bind_val', Exec.call_ok, Src.renet_netcode.NetcodeTransportError.from_DisconnectReason,
          Exec.run_val, Exec.bind_err', Exec.run_err, Res.pure_eq]
        exact ⟨inbox, rfl, o', buf, gr, ho', hb, hi', hr, rfl⟩
    | none =>
      simp only [Option.map_none, Exec.bind_val']
      have hisc : (Src.renetcode.client.NetcodeClient.is_connected (ctrR inbox out o g.netcode buf).netcode_client : Res CTrErr _)
          = .ok g.netcode.isConnected := nc_is_connected_eq o g.netcode
      have hisg : (Src.renetcode.client.NetcodeClient.is_connecting (ctrR inbox out o g.netcode buf).netcode_client : Res CTrErr _)
          = .ok g.netcode.isConnecting := nc_is_connecting_eq o g.netcode
      rw [hisc, Exec.call_ok, Exec.bind_val']
      have htail : ∀ (rc : Conn) (gr1 : SRenetClient), R rc gr1 → _ :=
        fun rc gr1 hr1 => ctr_update_tail a hl hsim hinv { g with renet := rc } gr1 hi hr1 duration inbox hin out o buf ho hb
      cases hc : g.netcode.isConnected with
      | true =>
        obtain ⟨gr1, hr1, hg⟩ := hsim.setc hr
        simp only [if_true, hg, Exec.call_ok, Exec.bind_val']
        exact htail _ gr1 hr1
      | false =>
        simp only [Bool.false_eq_true, if_false]
        rw [hisg, Exec.call_ok, Exec.bind_val']
        cases hcg : g.netcode.isConnecting with
        | true =>
          obtain ⟨gr1, hr1, hg⟩ := hsim.setg hr
          simp only [if_true, hg, Exec.call_ok, Exec.bind_val']
          exact htail _ gr1 hr1
        | false =>
          simp only [Bool.false_eq_true, if_false, Exec.bind_val']
          exact htail _ gr hr

/-! ### socket errors in the receive loop (outside `Transport/Glue.lean`; stated on the generated loop body) -/

/-- an error event at the head of the socket's script: `WouldBlock` and `Interrupted` end the receive loop, any other error
    leaves `update` with `Err(NetcodeTransportError::IO(e))`; the event is consumed -/
theorem recvBodyC_error [RustSem.Aead] (e : RustSem.IoError) (evs : List RustSem.RecvEvent)
    (log : List (RustSem.SocketAddr × List Nat)) (nc : SNetcodeClient) (buf : List Nat) (gr : SRenetClient) :
    recvBodyC (gr, (⟨⟨.error e :: evs, log⟩, nc, buf⟩ : SClientTransport)) =
      match e with
      | .wouldBlock => .ret (.brk (gr, ⟨⟨evs, log⟩, nc, buf⟩))
      | .interrupted => .ret (.brk (gr, ⟨⟨evs, log⟩, nc, buf⟩))
      | .connectionReset => .err (.IO .connectionReset, (⟨⟨evs, log⟩, nc, buf⟩, gr))
      | .opaque => .err (.IO .opaque, (⟨⟨evs, log⟩, nc, buf⟩, gr)) := by
  cases e <;> rfl

/-! ### `new` and the accessors -/

/-- `new`: `set_nonblocking(true)` (succeeds on the model socket), `NetcodeClient::new`, a zeroed receive buffer -/
theorem ctr_new_secure_eq (a : AEAD) (ct : Nat) (tok : Netcode.ConnectToken) (r1 r2 r3 r4 : List Nat) (inbox : List Dgram)
    (out : Array Dgram) :
    SameOutcome (@NetcodeClientTransport.new (aeadOf a) ct (.Secure (reprTok tok)) (sockR inbox out) r1 r2 r3 r4)
      (mapRes (fun c => ctrR inbox out (List.replicate C.NETCODE_MAX_PACKET_BYTES 0) c (List.replicate C.TRANSPORT_CLIENT_BUFFER 0))
        reprNErr (Netcode.NetcodeClient.new ct tok)) := by
  have h := nc_new_secure_eq a ct tok r1 r2 r3 r4
  unfold NetcodeClientTransport.new
  simp only [Exec.bind_eq, Exec.pure_eq, RustSem.UdpSocket.set_nonblocking, Exec.callFrom_ok, Exec.bind_val']
  cases hm : Netcode.NetcodeClient.new ct tok with
  | err e =>
    rw [hm] at h
    rw [so_err h]; rfl
  | panic m =>
    rw [hm] at h
    obtain ⟨msg, hg⟩ := so_panic h
    rw [hg]; simp [SameOutcome, mapRes, Exec.call, Exec.bind, Exec.run]
  | ok c =>
    rw [hm] at h
    rw [so_ok h]; rfl

theorem ctr_client_id_eq {ε : Type} (inbox : List Dgram) (out : Array Dgram) (o : List Nat) (c : Netcode.NetcodeClient) (buf : List Nat) :
    (NetcodeClientTransport.client_id (ctrR inbox out o c buf) : Res ε _) = .ok c.clientId := rfl
theorem ctr_disconnect_reason_eq {ε : Type} (inbox : List Dgram) (out : Array Dgram) (o : List Nat) (c : Netcode.NetcodeClient)
    (buf : List Nat) :
    (NetcodeClientTransport.disconnect_reason (ctrR inbox out o c buf) : Res ε _) = .ok (c.disconnectReason.map reprDR) := by
  unfold NetcodeClientTransport.disconnect_reason
  simp only [ctrR, Exec.bind_eq, Exec.pure_eq, nc_disconnect_reason_eq, Exec.call_ok, Exec.bind_val', Exec.run_val]
theorem ctr_time_since_eq {ε : Type} (inbox : List Dgram) (out : Array Dgram) (o : List Nat) (c : Netcode.NetcodeClient) (buf : List Nat) :
    SameOutcome (NetcodeClientTransport.time_since_last_received_packet (ctrR inbox out o c buf) : Res ε _)
      (mapRes (fun x => x) (fun e => nomatch e) c.timeSinceLastReceivedPacket) := by
  have h := nc_time_since_eq (ε := ε) o c
  unfold NetcodeClientTransport.time_since_last_received_packet
  simp only [ctrR, Exec.bind_eq, Exec.pure_eq]
  cases hm : c.timeSinceLastReceivedPacket with
  | err e => exact nomatch e
  | panic m =>
    rw [hm] at h
    obtain ⟨msg, hg⟩ := so_panic h
    rw [hg]; simp [SameOutcome, mapRes, Exec.call, Exec.bind, Exec.run]
  | ok v =>
    rw [hm] at h
    rw [so_ok h]; simp [SameOutcome, mapRes, Exec.call, Exec.bind, Exec.run]

/-! ### the simulation `RcSim` from the `RenetClient` ties -/

/-- an invariant `Inv` of the model connection that implies `ProcOk` for every byte sequence and `SendOk`, and is kept by
    the operations the transport calls, gives the simulation `Inv c ∧ g = reprConn mrs c` (for some ghost `mrs`) -/
theorem rcSim_of_inv (Inv : Conn → Prop) (hproc : ∀ c, Inv c → ∀ bytes, ProcOk c bytes) (hsend : ∀ c, Inv c → SendOk c)
    (hdw : ∀ c, Inv c → ∀ r, Inv (c.disconnectWith r)) (hsc : ∀ c, Inv c → Inv c.setConnected)
    (hsg : ∀ c, Inv c → Inv c.setConnecting) (hpp : ∀ c, Inv c → ∀ bytes c', c.processPacket bytes = .ok c' → Inv c')
    (hgp : ∀ c, Inv c → ∀ c' ps, c.getPacketsToSend = .ok (c', ps) → Inv c') :
    RcSim (fun c g => Inv c ∧ ∃ mrs, g = reprConn mrs c) where
  reason := by
    rintro c g ⟨hi, mrs, rfl⟩
    exact conn_disconnect_reason_eq mrs c
  dtt := by
    rintro c g ⟨hi, mrs, rfl⟩
    exact ⟨_, ⟨hdw c hi _, mrs, rfl⟩, conn_disconnect_transport_eq mrs c⟩
  setc := by
    rintro c g ⟨hi, mrs, rfl⟩
    exact ⟨_, ⟨hsc c hi, mrs, rfl⟩, conn_set_connected_eq mrs c⟩
  setg := by
    rintro c g ⟨hi, mrs, rfl⟩
    exact ⟨_, ⟨hsg c hi, mrs, rfl⟩, conn_set_connecting_eq mrs c⟩
  pp := by
    rintro c g ⟨hi, mrs, rfl⟩ bytes
    obtain ⟨mrs', h⟩ := conn_process_packet_eq (ε := CTrErr) mrs c bytes (hproc c hi bytes)
    cases hm : c.processPacket bytes with
    | err e => exact nomatch e
    | panic m =>
      rw [hm] at h
      exact so_panic h
    | ok c' =>
      rw [hm] at h
      exact ⟨_, ⟨hpp c hi _ _ hm, mrs', rfl⟩, so_ok h⟩
  gpts := by
    rintro c g ⟨hi, mrs, rfl⟩
    have h := conn_get_packets_eq (ε := CTrErr) mrs c (hsend c hi)
    cases hm : c.getPacketsToSend with
    | err e => exact nomatch e
    | panic m =>
      rw [hm] at h
      exact so_panic h
    | ok v =>
      obtain ⟨c', ps⟩ := v
      rw [hm] at h
      exact ⟨_, ⟨hgp c hi _ _ hm, mrs, rfl⟩, so_ok h⟩

end TrClient
end RenetVerif.SrcEquiv
