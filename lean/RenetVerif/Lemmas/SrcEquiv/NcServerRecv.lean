/-
  `renetcode/src/server.rs` (group NcServerRecv): `find_client_mut_by_addr`, `NetcodeServer::{new, handle_connection_request,
  process_packet_internal, process_packet}` against `Netcode/Server.lean`.  Headline statements in
  `Props/SrcTieNcServerRecv.lean`.
-/
import RenetVerif.Generated.Src.NcServerRecv
import RenetVerif.Lemmas.SrcEquiv.NcServerSend
set_option linter.unusedSimpArgs false
set_option linter.unusedVariables false
namespace RenetVerif.SrcEquiv
open RenetVerif RenetVerif.RustSem RenetVerif.Netcode

section NcServerRecv
open Src.renetcode.server

/-! ### the finder `find_client_mut_by_addr` -/

theorem conn_addr_eq (c : Netcode.Connection) (addr : Addr) : ((reprNConn c).addr = reprAddr addr) = (c.addr = addr) := by
  apply propext
  constructor
  · intro h; exact reprAddr_inj h
  · intro h; subst h; rfl

theorem find_addr_idx_go (addr : Addr) : ∀ (clients : List (Option Netcode.Connection)) (i : Nat),
    RustSem.find_some_idx.go (fun c : SConnection => decide (c.addr = reprAddr addr)) i (clients.map (Option.map reprNConn))
      = (findClientByAddr.go addr clients i).map (·.1) := by
  intro clients
  induction clients with
  | nil => intro i; rfl
  | cons c rest ih =>
    intro i
    cases c with
    | none => simp only [List.map_cons, Option.map_none, RustSem.find_some_idx.go, findClientByAddr.go]; exact ih (i + 1)
    | some c =>
      simp only [List.map_cons, Option.map_some, RustSem.find_some_idx.go, findClientByAddr.go, conn_addr_eq]
      by_cases h : c.addr = addr
      · simp [h]
      · simp only [h, decide_false, if_false, Bool.false_eq_true]; exact ih (i + 1)

theorem find_client_mut_by_addr_eq {ε : Type} (clients : List (Option Netcode.Connection)) (addr : Addr) :
    (find_client_mut_by_addr (clients.map (Option.map reprNConn)) (reprAddr addr) : Res ε _)
      = .ok ((findClientByAddr clients addr).map (·.1)) := by
  unfold find_client_mut_by_addr findClientByAddr RustSem.find_some_idx
  simp only [Exec.pure_eq, Exec.run_val, find_addr_idx_go]

theorem find_addr_go_some (addr : Addr) : ∀ (clients : List (Option Netcode.Connection)) (k i : Nat) (c : Netcode.Connection),
    findClientByAddr.go addr clients k = some (i, c) → k ≤ i ∧ clients[i - k]? = some (some c) := by
  intro clients
  induction clients with
  | nil => intro k i c h; simp [findClientByAddr.go] at h
  | cons c0 rest ih =>
    intro k i c h
    cases c0 with
    | none =>
      simp only [findClientByAddr.go] at h
      obtain ⟨hk, hi⟩ := ih (k + 1) i c h
      refine ⟨by omega, ?_⟩
      have : i - k = (i - (k + 1)) + 1 := by omega
      rw [this, List.getElem?_cons_succ]; exact hi
    | some c1 =>
      simp only [findClientByAddr.go] at h
      by_cases hc : c1.addr = addr
      · simp only [hc, if_true, Option.some.injEq, Prod.mk.injEq] at h
        obtain ⟨h1, h2⟩ := h
        subst h1 h2
        exact ⟨Nat.le_refl _, by simp⟩
      · simp only [hc, if_false] at h
        obtain ⟨hk, hi⟩ := ih (k + 1) i c h
        refine ⟨by omega, ?_⟩
        have : i - k = (i - (k + 1)) + 1 := by omega
        rw [this, List.getElem?_cons_succ]; exact hi

theorem find_addr_some {clients : List (Option Netcode.Connection)} {addr : Addr} {i : Nat} {c : Netcode.Connection}
    (h : findClientByAddr clients addr = some (i, c)) : clients[i]? = some (some c) := by
  obtain ⟨_, hi⟩ := find_addr_go_some addr clients 0 i c h
  simpa using hi

/-! ### `NetcodeServer::new` -/

/-- `ServerAuthentication`: the model passes `secure` and the private key separately -/
def reprAuth (secure : Bool) (pk : Bytes) : ServerAuthentication := if secure then .Secure (toNats pk) else .Unsecure

theorem ns_new_eq {ε : Type} (ct mc pid : Nat) (addrs : List Addr) (secure : Bool) (pk ck : Bytes) :
    SameOutcome (Src.renetcode.server.NetcodeServer.new ⟨ct, mc, pid, addrs.map reprAddr, reprAuth secure pk⟩ (toNats ck) : Res ε _)
      (mapRes (reprNS (List.replicate C.NETCODE_MAX_PACKET_BYTES 0)) (fun e => nomatch e)
        (Netcode.NetcodeServer.new ct mc pid addrs secure pk ck)) := by
  unfold Src.renetcode.server.NetcodeServer.new Netcode.NetcodeServer.new
  have hK : Src.renetcode.NETCODE_MAX_CLIENTS = C.NETCODE_MAX_CLIENTS := rfl
  simp only [Exec.bind_eq, Exec.pure_eq, hK]
  by_cases hmc : mc > C.NETCODE_MAX_CLIENTS
  · simp only [hmc, decide_true, if_true, Exec.bind_panic', Exec.run_panic, mapRes, SameOutcome]
  simp only [hmc, decide_false, if_false, Bool.false_eq_true, Exec.bind_val']
  have hmul : (RustSem.mul 64 C.NETCODE_MAX_CLIENTS 2 "renetcode/src/server.rs:NetcodeServer::new: NETCODE_MAX_CLIENTS * 2"
      : Exec ε SNetcodeServer Nat) = .val C.NETCODE_TOKEN_ENTRIES := by
    rw [mul_val (by decide)]; rfl
  have hshl : (RustSem.shl 64 1 63 "renetcode/src/server.rs:NetcodeServer::new: 1 << 63" : Exec ε SNetcodeServer Nat)
      = .val C.NETCODE_GLOBAL_SEQUENCE_START := by
    rw [shl_val (by decide)]; rfl
  cases secure with
  | false =>
    simp only [reprAuth, Bool.false_eq_true, if_false, Exec.bind_val', hmul, hshl, Exec.run_val, mapRes, SameOutcome]
    simp [reprNS, RustSem.repeat_, toNats_replicate]
    exact ⟨rfl, rfl⟩
  | true =>
    simp only [reprAuth, if_true, Exec.bind_val', hmul, hshl, Exec.run_val, mapRes, SameOutcome]
    simp [reprNS, RustSem.repeat_, toNats_replicate]
    rfl

/-! ### the pending table (`HashMap<SocketAddr, Connection>` = `RustSem.AMap`), host list, counters -/

def pendR (l : List (Addr × Netcode.Connection)) : RustSem.AMap RustSem.SocketAddr SConnection :=
  l.map (fun p => (reprAddr p.1, reprNConn p.2))

theorem reprAddr_eq_iff (x y : Addr) : (reprAddr x = reprAddr y) = (x = y) := by
  apply propext; constructor
  · exact reprAddr_inj
  · intro h; rw [h]

theorem amap_find (addr : Addr) : ∀ l : List (Addr × Netcode.Connection),
    RustSem.AMap.find? (pendR l) (reprAddr addr) = (pendingFind l addr).map reprNConn := by
  intro l
  induction l with
  | nil => rfl
  | cons p r ih =>
    obtain ⟨k, c⟩ := p
    simp only [pendR, List.map_cons, RustSem.AMap.find?, pendingFind, reprAddr_eq_iff]
    by_cases h : k = addr
    · simp [h]
    · simp only [h, if_false]; exact ih

theorem amap_contains (addr : Addr) (l : List (Addr × Netcode.Connection)) :
    RustSem.AMap.contains_key (pendR l) (reprAddr addr) = (pendingFind l addr).isSome := by
  simp [RustSem.AMap.contains_key, amap_find]

theorem amap_insert (addr : Addr) (c : Netcode.Connection) : ∀ l : List (Addr × Netcode.Connection),
    RustSem.AMap.insert (pendR l) (reprAddr addr) (reprNConn c) = pendR (pendingSet l addr c) := by
  intro l
  induction l with
  | nil => rfl
  | cons p r ih =>
    obtain ⟨k, c0⟩ := p
    simp only [pendR, List.map_cons, RustSem.AMap.insert, pendingSet, reprAddr_eq_iff]
    by_cases h : k = addr
    · simp [h]
    · simp only [h, if_false, List.map_cons, List.cons.injEq, true_and]; exact ih

theorem amap_remove (addr : Addr) (l : List (Addr × Netcode.Connection)) :
    RustSem.AMap.remove (pendR l) (reprAddr addr) = pendR (pendingRemove l addr) := by
  simp only [RustSem.AMap.remove, pendR, pendingRemove, List.filter_map]
  congr 1
  apply List.filter_congr
  intro p _
  simp only [Function.comp, ne_eq, reprAddr_eq_iff]

theorem amap_index {ε ρ : Type} {addr : Addr} {l : List (Addr × Netcode.Connection)} {c : Netcode.Connection}
    (h : pendingFind l addr = some c) (site : String) :
    (RustSem.AMap.index (pendR l) (reprAddr addr) site : Exec ε ρ _) = .val (reprNConn c) := by
  simp [RustSem.AMap.index, amap_find, h]

theorem contains_map (pub : List Addr) (x : Addr) : RustSem.contains (pub.map reprAddr) (reprAddr x) = pub.contains x := by
  induction pub with
  | nil => rfl
  | cons y r ih =>
    simp only [RustSem.contains, List.map_cons, List.any_cons, reprAddr_eq_iff, List.contains_cons] at ih ⊢
    rw [ih]
    by_cases h : y = x
    · subst h; simp
    · have h' : ¬ x = y := fun e => h e.symm
      simp [h, h']

theorem in_host_list_eq (sa : Netcode.AddrArray) (pub : List Addr) :
    List.any (List.filterMap (fun host => host) (reprAddrs sa)) (fun x => RustSem.contains (pub.map reprAddr) x)
      = sa.any (fun h => match h with | some x => pub.contains x | none => false) := by
  induction sa with
  | nil => rfl
  | cons h r ih =>
    cases h with
    | none => simpa [reprAddrs] using ih
    | some x =>
      simp only [reprAddrs, List.map_cons, Option.map_some, List.filterMap_cons, List.any_cons, contains_map] at ih ⊢
      rw [ih]

theorem count_connected_eq (clients : List (Option Netcode.Connection)) :
    RustSem.len (List.filterMap (fun x => x) (clients.map (Option.map reprNConn))) = countConnected clients := by
  unfold countConnected RustSem.len
  induction clients with
  | nil => rfl
  | cons c r ih =>
    cases c with
    | none => simpa [List.filter_cons] using ih
    | some c => simp only [List.map_cons, Option.map_some, List.filterMap_cons, List.length_cons, List.filter_cons,
        Option.isSome_some, if_true, ih]

theorem slot_isSome_eq (clients : List (Option Netcode.Connection)) (id : Nat) :
    (findClientSlotById clients id).isSome = (findClientById clients id).isSome := by
  cases h : findClientSlotById clients id with
  | none => rw [find_slot_none h]; rfl
  | some i => obtain ⟨c, _, hc⟩ := find_slot_some h; rw [hc]; rfl

theorem ns_find_or_add_eq {ε : Type} (out : List Nat) (s : Netcode.NetcodeServer) (ne : Netcode.ConnectTokenEntry)
    (h : 0 < s.connectTokenEntries.length) :
    (NetcodeServer.find_or_add_connect_token_entry (reprNS out s) (reprEntry ne) : Res ε _)
      = .ok (reprNS out (s.findOrAddConnectTokenEntry ne).1, (s.findOrAddConnectTokenEntry ne).2) := by
  have hb : reprNS out s = reprTable (reprNS out s) s.connectTokenEntries := rfl
  rw [hb, find_or_add_eq (base := reprNS out s) s.connectTokenEntries ne h]
  unfold Netcode.NetcodeServer.findOrAddConnectTokenEntry
  simp only []
  cases (Netcode.NetcodeServer.scanEntries ne.mac s.connectTokenEntries 0 ⟨DURATION_MAX, 0, false, none⟩).matchingEntry with
  | none => rfl
  | some e => rfl

theorem len_pendR (l : List (Addr × Netcode.Connection)) : RustSem.len (pendR l) = l.length := by
  simp [RustSem.len, pendR]

theorem slice_drop {ε ρ : Type} (d : Bytes) (n : Nat) (h : n ≤ d.length) (site : String) :
    (RustSem.slice (toNats d) n (RustSem.len (toNats d)) site : Exec ε ρ _) = .val (toNats (d.drop n)) := by
  unfold RustSem.slice
  have hl : RustSem.len (toNats d) = d.length := by simp [RustSem.len, toNats_length]
  rw [hl, if_pos ⟨h, by rw [toNats_length]; exact Nat.le_refl _⟩]
  congr 1
  rw [← toNats_length d, List.take_length]
  simp [toNats]

/-- lengths of the fields of a decoded packet (`Packet::read` reads fixed-size arrays) -/
def PacketWF : Netcode.Packet → Prop
  | .connectionRequest _ _ _ _ d => d.length = C.NETCODE_CONNECT_TOKEN_PRIVATE_BYTES
  | .response _ d => d.length = C.NETCODE_CHALLENGE_TOKEN_BYTES
  | _ => True

/-! ### `handle_connection_request` -/

/-- outcomes of the `Result<ServerResult, NetcodeError>` functions: the model's result / error and state; the scratch
    buffer is some buffer of the same length -/
def SrvOut (m : Netcode.NetcodeServer.SRes) (g : Res (SNErr × SNetcodeServer) (SNetcodeServer × SServerResult)) : Prop :=
  match m with
  | .ok (r, s') => ∃ out', out'.length = C.NETCODE_MAX_PACKET_BYTES ∧ g = .ok (reprNS out' s', reprNSR r)
  | .err (e, s') => ∃ out', out'.length = C.NETCODE_MAX_PACKET_BYTES ∧ g = .err (reprNErr e, reprNS out' s')
  | .panic _ => ∃ msg, g = .panic msg

theorem so_ok {ε α : Type} {x : Res ε α} {b : α} (h : SameOutcome x (.ok b)) : x = .ok b := by
  cases x <;> simp [SameOutcome] at h; rw [h]
theorem so_err {ε α : Type} {x : Res ε α} {e : ε} (h : SameOutcome x (.err e)) : x = .err e := by
  cases x <;> simp [SameOutcome] at h; rw [h]
theorem so_panic {ε α : Type} {x : Res ε α} {m : String} (h : SameOutcome x (.panic m)) : ∃ m', x = .panic m' := by
  cases x <;> simp [SameOutcome] at h; exact ⟨_, rfl⟩

theorem lift_ok {α : Type} (s : Netcode.NetcodeServer) (x : α) : Netcode.NetcodeServer.lift s (.ok x) = .ok x := rfl
theorem lift_err {α : Type} (s : Netcode.NetcodeServer) (e : NetcodeError) :
    (Netcode.NetcodeServer.lift s (.err e) : Res _ α) = .err (e, s) := rfl
theorem lift_panic {α : Type} (s : Netcode.NetcodeServer) (m : String) :
    (Netcode.NetcodeServer.lift s (.panic m) : Res _ α) = .panic m := rfl

theorem toNats_ne_iff (x y : Bytes) : (toNats x ≠ toNats y) = (x ≠ y) := by
  apply propext; constructor
  · intro h e; exact h (by rw [e])
  · intro h e; exact h (toNats_inj e)

set_option maxRecDepth 10000 in
theorem ns_handle_connection_request_eq (a : AEAD) (hl : a.Laws) (out : List Nat) (hout : out.length = C.NETCODE_MAX_PACKET_BYTES)
    (s : Netcode.NetcodeServer) (hent : 0 < s.connectTokenEntries.length) (addr : Addr) (v : Bytes) (pid exp : Nat)
    (x d : Bytes) (hd : d.length = C.NETCODE_CONNECT_TOKEN_PRIVATE_BYTES) :
    SrvOut (s.handleConnectionRequest a addr v pid exp x d)
      (@NetcodeServer.handle_connection_request (aeadOf a) (reprNS out s) (reprAddr addr) (toNats v) pid exp (toNats x) (toNats d)) := by
  unfold NetcodeServer.handle_connection_request Netcode.NetcodeServer.handleConnectionRequest
  have hpid : ∀ o (s0 : Netcode.NetcodeServer), (reprNS o s0).protocol_id = s0.protocolId := fun _ _ => rfl
  have hct : ∀ o (s0 : Netcode.NetcodeServer), (reprNS o s0).current_time = s0.currentTime := fun _ _ => rfl
  have hck : ∀ o (s0 : Netcode.NetcodeServer), (reprNS o s0).connect_key = toNats s0.connectKey := fun _ _ => rfl
  have hsec : ∀ o (s0 : Netcode.NetcodeServer), (reprNS o s0).secure = s0.secure := fun _ _ => rfl
  have hpub : ∀ o (s0 : Netcode.NetcodeServer), (reprNS o s0).public_addresses = s0.publicAddresses.map reprAddr := fun _ _ => rfl
  have hcl : ∀ o (s0 : Netcode.NetcodeServer), (reprNS o s0).clients = s0.clients.map (Option.map reprNConn) := fun _ _ => rfl
  have hpc : ∀ o (s0 : Netcode.NetcodeServer), (reprNS o s0).pending_clients = pendR s0.pendingClients := fun _ _ => rfl
  have hsecs : ∀ t, RustSem.Duration.as_secs t = asSecs t := fun _ => rfl
  simp only [Exec.bind_eq, Exec.pure_eq, version_info_eq, toNats_ne_iff]
  rw [hpid, hct, hsecs]
  generalize hfa : Netcode.NetcodeServer.findOrAddConnectTokenEntry s _ = fa
  by_cases hver : v = C.NETCODE_VERSION_INFO
  case neg =>
    simp only [ne_eq, hver, not_false_eq_true, decide_true, if_true]
    rw [Exec.bind_err']
    simp only [Exec.run_err, SrvOut, reprNErr]; exact ⟨out, hout, rfl⟩
  simp only [ne_eq, hver, not_true_eq_false, decide_false, if_false, Bool.false_eq_true]
  rw [Exec.bind_val']
  by_cases hp : pid = s.protocolId
  case neg =>
    simp only [ne_eq, hp, not_false_eq_true, decide_true, if_true]
    rw [Exec.bind_err']
    simp only [Exec.run_err, SrvOut, reprNErr]; exact ⟨out, hout, rfl⟩
  simp only [ne_eq, hp, not_true_eq_false, decide_false, if_false, Bool.false_eq_true]
  rw [Exec.bind_val']
  by_cases hexp : asSecs s.currentTime ≥ exp
  · simp only [hexp, decide_true, if_true]
    rw [Exec.bind_err']
    simp only [Exec.run_err, SrvOut, reprNErr]; exact ⟨out, hout, rfl⟩
  simp only [hexp, decide_false, if_false, Bool.false_eq_true]
  rw [Exec.bind_val', hck]
  have hdec := ptok_decode_eq a hl d hd s.protocolId exp x s.connectKey
  cases hm : PrivateConnectToken.decode a d s.protocolId exp x s.connectKey with
  | panic m =>
    rw [hm] at hdec; simp only [mapRes] at hdec
    obtain ⟨m', hg⟩ := so_panic hdec
    rw [hg, Exec.callFrom_panic, Exec.bind_panic']
    simp only [Exec.run_panic, SrvOut]; exact ⟨_, rfl⟩
  | err e =>
    rw [hm] at hdec; simp only [mapRes] at hdec
    rw [so_err hdec, Exec.callFrom_err _ (reprTGE e) (.TokenGenerationError (reprTGE e), reprNS out s) ?hk, Exec.bind_err']
    case hk => rfl
    simp only [Exec.run_err, SrvOut, reprNErr]; exact ⟨out, hout, rfl⟩
  | ok ct =>
    rw [hm] at hdec; simp only [mapRes] at hdec
    rw [so_ok hdec, Exec.callFrom_ok, Exec.bind_val']
    simp only []
    have hsa : (reprPTok ct).server_addresses = reprAddrs ct.serverAddresses := rfl
    have hcid : (reprPTok ct).client_id = ct.clientId := rfl
    rw [hsec, hpub, hsa, hcid]
    generalize hih : (List.any ct.serverAddresses _) = ihl
    have hin : List.any (List.filterMap (fun host => host) (reprAddrs ct.serverAddresses))
        (fun x => RustSem.contains (s.publicAddresses.map reprAddr) x) = ihl := by
      rw [← hih, in_host_list_eq]; rfl
    rw [hin]
    have hhost : ∀ (k : Unit → Exec (SNErr × SNetcodeServer) (SNetcodeServer × SServerResult) (SNetcodeServer × SServerResult)),
        ¬ (s.secure = true ∧ (!ihl) = true) →
        Exec.bind (if s.secure = true then
            Exec.bind (if (!ihl) = true then Exec.err (Src.renetcode.error.NetcodeError.NotInHostList, reprNS out s) else Exec.val ())
              (fun _ => Exec.val ())
          else Exec.val ()) k = k () := by
      intro k hn
      by_cases hs : s.secure = true
      · have hi : ¬ (!ihl) = true := fun h => hn ⟨hs, h⟩
        simp only [hs, hi, if_true, if_false]; rfl
      · simp only [hs, if_false]; rfl
    by_cases hhl : s.secure = true ∧ (!ihl) = true
    · simp only [hhl, and_self, if_true]
      rw [Exec.bind_err', Exec.bind_err']
      simp only [Exec.run_err, SrvOut, reprNErr]; exact ⟨out, hout, rfl⟩
    rw [hhost _ hhl]
    simp only [hhl, if_false]
    rw [hcl, find_client_mut_by_addr_eq, find_client_mut_by_id_eq, Exec.call_ok, Exec.call_ok, Exec.bind_val', Exec.bind_val']
    rw [slot_isSome_eq, Option.isSome_map]
    by_cases hconn : (findClientById s.clients ct.clientId).isSome = true ∨ (findClientByAddr s.clients addr).isSome = true
    · simp only [Bool.or_eq_true, hconn, if_true]
      rw [Exec.bind_ret']
      simp only [Exec.run_ret, SrvOut, reprNSR]; exact ⟨out, hout, rfl⟩
    simp only [Bool.or_eq_true, hconn, if_false]
    rw [Exec.bind_val', hpc, amap_contains, len_pendR]
    have hKp : Src.renetcode.NETCODE_MAX_PENDING_CLIENTS = C.NETCODE_MAX_PENDING_CLIENTS := rfl
    rw [hKp]
    by_cases hpend : (pendingFind s.pendingClients addr).isNone = true ∧ s.pendingClients.length ≥ C.NETCODE_MAX_PENDING_CLIENTS
    · have hg : (!(pendingFind s.pendingClients addr).isSome && decide (s.pendingClients.length ≥ C.NETCODE_MAX_PENDING_CLIENTS)) = true := by
        rw [Bool.and_eq_true, decide_eq_true_eq, Option.not_isSome]; exact hpend
      rw [if_pos hg, if_pos hpend, Exec.bind_ret']
      simp only [Exec.run_ret, SrvOut, reprNSR]; exact ⟨out, hout, rfl⟩
    have hg : ¬ (!(pendingFind s.pendingClients addr).isSome && decide (s.pendingClients.length ≥ C.NETCODE_MAX_PENDING_CLIENTS)) = true := by
      rw [Bool.and_eq_true, decide_eq_true_eq, Option.not_isSome]; exact hpend
    rw [if_neg hg, if_neg hpend, Exec.bind_val']
    have hKpriv : Src.renetcode.NETCODE_CONNECT_TOKEN_PRIVATE_BYTES = C.NETCODE_CONNECT_TOKEN_PRIVATE_BYTES := rfl
    have hKmac : Src.renetcode.NETCODE_MAC_BYTES = C.NETCODE_MAC_BYTES := rfl
    rw [hKpriv, hKmac, sub_val (by decide), Exec.bind_val', slice_drop d _ (by rw [hd]; decide), Exec.bind_val']
    rw [copy_whole _ _ _ (by rw [toNats_length, List.length_drop, hd, len_repeat_]; decide), Exec.bind_val']
    have hent' : ∀ m : List Nat, ({ time := s.currentTime, address := reprAddr addr, mac := m } : Src.renetcode.server.ConnectTokenEntry)
        = ⟨s.currentTime, reprAddr addr, m⟩ := fun _ => rfl
    have hent'' : (⟨s.currentTime, reprAddr addr, toNats (List.drop (C.NETCODE_CONNECT_TOKEN_PRIVATE_BYTES - C.NETCODE_MAC_BYTES) d)⟩ : Src.renetcode.server.ConnectTokenEntry)
        = reprEntry ⟨s.currentTime, addr, List.drop (C.NETCODE_CONNECT_TOKEN_PRIVATE_BYTES - C.NETCODE_MAC_BYTES) d⟩ := rfl
    rw [hent', hent'', ns_find_or_add_eq out s _ hent, hfa, Exec.call_ok, Exec.bind_val']
    obtain ⟨s1, added⟩ := fa
    simp only []
    have hgo : ∀ o (s0 : Netcode.NetcodeServer), (reprNS o s0).out = o := fun _ _ => rfl
    have hgs : ∀ o (s0 : Netcode.NetcodeServer), (reprNS o s0).global_sequence = s0.globalSequence := fun _ _ => rfl
    have hcs : ∀ o (s0 : Netcode.NetcodeServer), (reprNS o s0).challenge_sequence = s0.challengeSequence := fun _ _ => rfl
    have hchk : ∀ o (s0 : Netcode.NetcodeServer), (reprNS o s0).challenge_key = toNats s0.challengeKey := fun _ _ => rfl
    have hmc : ∀ o (s0 : Netcode.NetcodeServer), (reprNS o s0).max_clients = s0.maxClients := fun _ _ => rfl
    have hs2c : (reprPTok ct).server_to_client_key = toNats ct.serverToClientKey := rfl
    cases added with
    | false =>
      simp only [Bool.not_false, if_true]
      rw [Exec.bind_ret']
      simp only [Exec.run_ret, SrvOut, reprNSR]; exact ⟨out, hout, rfl⟩
    | true =>
      simp only [Bool.not_true, Bool.false_eq_true, if_false]
      rw [Exec.bind_val', hcl, count_connected_eq, hmc]
      by_cases hfull : countConnected s1.clients ≥ s1.maxClients
      · simp only [hfull, decide_true, if_true]
        rw [hgo, hpid, hgs, hs2c, hpc, amap_remove]
        have henc := enc_out a hl .connectionDenied out hout s1.protocolId s1.globalSequence ct.serverToClientKey
        simp only [reprNP] at henc
        cases hme : Netcode.Packet.encode a .connectionDenied C.NETCODE_MAX_PACKET_BYTES s1.protocolId
            (some (s1.globalSequence, ct.serverToClientKey)) with
        | panic m =>
          rw [hme] at henc; obtain ⟨msg, hge⟩ := henc
          rw [hge, Exec.callFrom_panic, Exec.bind_panic', Exec.bind_panic', lift_panic, Res.bind_panic]
          simp only [Exec.run_panic, SrvOut]; exact ⟨_, rfl⟩
        | err e =>
          rw [hme] at henc; obtain ⟨st, hge, hst⟩ := henc
          rw [hge, Exec.callFrom_err _ _ _ ?hk, Exec.bind_err', Exec.bind_err', lift_err, Res.bind_err]
          case hk => rfl
          simp only [Exec.run_err, SrvOut]
          exact ⟨st, hst, rfl⟩
        | ok bytes =>
          rw [hme] at henc; obtain ⟨buf', hge, htake, hblen⟩ := henc
          rw [hge, Exec.callFrom_ok, Exec.bind_val', lift_ok, Res.bind_ok]
          unfold incU64
          by_cases hov : s1.globalSequence + 1 ≤ U64_MAX
          · have hov' : s1.globalSequence + 1 < 2 ^ 64 := by simp only [U64_MAX] at hov; omega
            rw [add_val hov', Exec.bind_val', if_pos hov, Res.bind_ok]
            rw [Exec.bind_skip (RustSem.slice _ _ _ _) _ (toNats bytes) (slice_of_take buf' bytes htake _)]
            rw [Exec.bind_ret']
            simp only [Exec.run_ret, SrvOut, Res.pure_eq, reprNSR]
            exact ⟨buf', hblen, rfl⟩
          · have hov' : ¬ s1.globalSequence + 1 < 2 ^ 64 := by simp only [U64_MAX] at hov; omega
            rw [add_panic hov', Exec.bind_panic', Exec.bind_panic', if_neg hov, Res.bind_panic]
            simp only [Exec.run_panic, SrvOut]; exact ⟨_, rfl⟩
      · simp only [hfull, decide_false, if_false, Bool.false_eq_true]
        rw [Exec.bind_val', hcs]
        unfold incU64
        by_cases hov : s1.challengeSequence + 1 ≤ U64_MAX
        case neg =>
          have hov' : ¬ s1.challengeSequence + 1 < 2 ^ 64 := by simp only [U64_MAX] at hov; omega
          rw [add_panic hov', Exec.bind_panic', if_neg hov, Res.bind_panic]
          simp only [Exec.run_panic, SrvOut]; exact ⟨_, rfl⟩
        have hov' : s1.challengeSequence + 1 < 2 ^ 64 := by simp only [U64_MAX] at hov; omega
        rw [add_val hov', Exec.bind_val', if_pos hov, Res.bind_ok]
        have hud : (reprPTok ct).user_data = toNats ct.userData := rfl
        rw [hchk, hud]
        have hgen := generate_challenge_eq a ct.clientId ct.userData (s1.challengeSequence + 1) s1.challengeKey
        cases hmg : ChallengeToken.generate a ct.clientId ct.userData (s1.challengeSequence + 1) s1.challengeKey with
        | panic m =>
          rw [hmg] at hgen; simp only [mapRes] at hgen
          obtain ⟨m', hg⟩ := so_panic hgen
          rw [hg, Exec.callFrom_panic, Exec.bind_panic', lift_panic, Res.bind_panic]
          simp only [Exec.run_panic, SrvOut]; exact ⟨_, rfl⟩
        | err e =>
          rw [hmg] at hgen; simp only [mapRes] at hgen
          rw [so_err hgen, Exec.callFrom_err _ _ _ ?hk, Exec.bind_err', lift_err, Res.bind_err]
          case hk => rfl
          simp only [Exec.run_err, SrvOut]
          exact ⟨out, hout, rfl⟩
        | ok p =>
          rw [hmg] at hgen; simp only [mapRes] at hgen
          rw [so_ok hgen, Exec.callFrom_ok, Exec.bind_val', lift_ok, Res.bind_ok]
          rw [hgo, hpid, hgs, hs2c]
          have henc := enc_out a hl p out hout s1.protocolId s1.globalSequence ct.serverToClientKey
          cases hme : Netcode.Packet.encode a p C.NETCODE_MAX_PACKET_BYTES s1.protocolId
              (some (s1.globalSequence, ct.serverToClientKey)) with
          | panic m =>
            rw [hme] at henc; obtain ⟨msg, hge⟩ := henc
            rw [hge, Exec.callFrom_panic, Exec.bind_panic', lift_panic, Res.bind_panic]
            simp only [Exec.run_panic, SrvOut]; exact ⟨_, rfl⟩
          | err e =>
            rw [hme] at henc; obtain ⟨st, hge, hst⟩ := henc
            rw [hge, Exec.callFrom_err _ _ _ ?hk, Exec.bind_err', lift_err, Res.bind_err]
            case hk => rfl
            simp only [Exec.run_err, SrvOut]
            exact ⟨st, hst, rfl⟩
          | ok bytes =>
            rw [hme] at henc; obtain ⟨buf', hge, htake, hblen⟩ := henc
            rw [hge, Exec.callFrom_ok, Exec.bind_val', lift_ok, Res.bind_ok]
            by_cases hov2 : s1.globalSequence + 1 ≤ U64_MAX
            case neg =>
              have hov2' : ¬ s1.globalSequence + 1 < 2 ^ 64 := by simp only [U64_MAX] at hov2; omega
              rw [add_panic hov2', Exec.bind_panic', if_neg hov2, Res.bind_panic]
              simp only [Exec.run_panic, SrvOut]; exact ⟨_, rfl⟩
            have hov2' : s1.globalSequence + 1 < 2 ^ 64 := by simp only [U64_MAX] at hov2; omega
            rw [add_val hov2', Exec.bind_val', if_pos hov2, Res.bind_ok, rp_new_eq, Exec.call_ok, Exec.bind_val']
            rw [Exec.bind_skip (RustSem.slice _ _ _ _) _ (toNats bytes) (slice_of_take buf' bytes htake _)]
            simp only [Exec.run_val, SrvOut, Res.pure_eq, reprNSR]
            refine ⟨buf', hblen, ?_⟩
            let c0 : Netcode.Connection :=
              { confirmed := false, clientId := ct.clientId, state := .pendingResponse,
                sendKey := ct.serverToClientKey, receiveKey := ct.clientToServerKey, userData := ct.userData,
                addr := addr, lastPacketReceivedTime := s1.currentTime, lastPacketSendTime := s1.currentTime,
                timeoutSeconds := ct.timeoutSeconds, sequence := 0, expireTimestamp := exp, replayProtection := RP.new }
            have key := amap_insert addr c0 s1.pendingClients
            let s2 : Netcode.NetcodeServer := { s1 with challengeSequence := s1.challengeSequence + 1,
                                                        globalSequence := s1.globalSequence + 1 }
            exact congrArg (fun pc => (Res.ok (({ (reprNS buf' s2) with pending_clients := pc } : SNetcodeServer),
                Src.renetcode.server.ServerResult.PacketToSend (reprAddr addr) (toNats bytes))
                : Res (SNErr × SNetcodeServer) (SNetcodeServer × SServerResult))) key

/-! ### `process_packet_internal` -/

theorem readN_len {n : Nat} {src b r : Bytes} (h : readN n src = some (b, r)) : b.length = n := by
  unfold readN at h
  by_cases hl : src.length < n
  · simp [hl] at h
  · simp only [hl, if_false, Option.some.injEq, Prod.mk.injEq] at h
    rw [← h.1, List.length_take]; omega

theorem read_wf {ty : Netcode.PacketType} {src : Bytes} {p : Netcode.Packet} (h : Netcode.Packet.read ty src = .ok p) :
    PacketWF p := by
  unfold Netcode.Packet.read at h
  by_cases hp : ty = .payload
  · simp only [hp, if_true, Res.ok.injEq] at h; subst h; trivial
  simp only [hp, if_false] at h
  cases ty with
  | payload => exact absurd rfl hp
  | connectionRequest =>
    simp only [io?] at h
    cases h1 : readN 13 src with
    | none => simp [h1, Bind.bind, Option.bind] at h
    | some x1 =>
      obtain ⟨v, r1⟩ := x1
      cases h2 : readU64 r1 with
      | none => simp [h1, h2, Bind.bind, Option.bind] at h
      | some x2 =>
        obtain ⟨pid, r2⟩ := x2
        cases h3 : readU64 r2 with
        | none => simp [h1, h2, h3, Bind.bind, Option.bind] at h
        | some x3 =>
          obtain ⟨e, r3⟩ := x3
          cases h4 : readN C.NETCODE_CONNECT_TOKEN_XNONCE_BYTES r3 with
          | none => simp [h1, h2, h3, h4, Bind.bind, Option.bind] at h
          | some x4 =>
            obtain ⟨xn, r4⟩ := x4
            cases h5 : readN C.NETCODE_CONNECT_TOKEN_PRIVATE_BYTES r4 with
            | none => simp [h1, h2, h3, h4, h5, Bind.bind, Option.bind] at h
            | some x5 =>
              obtain ⟨dd, r5⟩ := x5
              simp [h1, h2, h3, h4, h5, Bind.bind, Option.bind, pure] at h
              subst h
              exact readN_len h5
  | response =>
    simp only [io?] at h
    cases h1 : readU64 src with
    | none => simp [h1, Bind.bind, Option.bind] at h
    | some x1 =>
      obtain ⟨sq, r1⟩ := x1
      cases h2 : readN C.NETCODE_CHALLENGE_TOKEN_BYTES r1 with
      | none => simp [h1, h2, Bind.bind, Option.bind] at h
      | some x2 =>
        obtain ⟨dd, r2⟩ := x2
        simp [h1, h2, Bind.bind, Option.bind, pure] at h
        subst h
        exact readN_len h2
  | challenge =>
    simp only [io?] at h
    cases h1 : readU64 src with
    | none => simp [h1, Bind.bind, Option.bind] at h
    | some x1 =>
      obtain ⟨sq, r1⟩ := x1
      cases h2 : readN C.NETCODE_CHALLENGE_TOKEN_BYTES r1 with
      | none => simp [h1, h2, Bind.bind, Option.bind] at h
      | some x2 =>
        obtain ⟨dd, r2⟩ := x2
        simp [h1, h2, Bind.bind, Option.bind, pure] at h
        subst h
        trivial
  | keepAlive =>
    simp only [io?] at h
    cases h1 : readU32 src with
    | none => simp [h1, Bind.bind, Option.bind] at h
    | some x1 =>
      obtain ⟨i, r1⟩ := x1
      cases h2 : readU32 r1 with
      | none => simp [h1, h2, Bind.bind, Option.bind] at h
      | some x2 =>
        obtain ⟨m, r2⟩ := x2
        simp [h1, h2, Bind.bind, Option.bind, pure] at h
        subst h
        trivial
  | connectionDenied => simp only [Res.ok.injEq] at h; subst h; trivial
  | disconnect => simp only [Res.ok.injEq] at h; subst h; trivial

theorem read_bind_wf {ty : Netcode.PacketType} {src : Bytes} {k sq : Nat} {p : Netcode.Packet}
    (h : (do let p ← Netcode.Packet.read ty src; pure (k, p) : NRes (Nat × Netcode.Packet)) = .ok (sq, p)) : PacketWF p := by
  cases hr : Netcode.Packet.read ty src with
  | ok p' =>
    rw [hr] at h
    simp only [Res.bind_ok, Res.pure_eq, Res.ok.injEq, Prod.mk.injEq] at h
    rw [← h.2]; exact read_wf hr
  | err e => rw [hr] at h; simp [Res.bind_err] at h
  | panic m => rw [hr] at h; simp [Res.bind_panic] at h

theorem decode_wf {a : AEAD} {buffer : Bytes} {pid : Nat} {key : Option Bytes} {rp : Option RP} {sq : Nat} {p : Netcode.Packet}
    (h : (Netcode.Packet.decode a buffer pid key rp).1 = .ok (sq, p)) : PacketWF p := by
  unfold Netcode.Packet.decode at h
  repeat' (first | exact read_bind_wf h | (simp at h; done) | split at h | (simp only [] at h))

theorem decode_rp_some (a : AEAD) (buffer : Bytes) (pid : Nat) (key : Option Bytes) (w : RP) :
    ∃ w', (Netcode.Packet.decode a buffer pid key (some w)).2 = some w' := by
  unfold Netcode.Packet.decode
  repeat' (first | exact ⟨_, rfl⟩ | contradiction | split | (simp only []))

/-- outcomes of `process_packet_internal`: as `SrvOut`, plus the caller's buffer (decrypted in place: some contents) -/
def RecvOutL (L : Nat) (m : Netcode.NetcodeServer.SRes)
    (g : Res (SNErr × (SNetcodeServer × List Nat)) (SNetcodeServer × List Nat × SServerResult)) : Prop :=
  match m with
  | .ok (r, s') => ∃ out' buf', out'.length = C.NETCODE_MAX_PACKET_BYTES ∧ buf'.length = L ∧ g = .ok (reprNS out' s', buf', reprNSR r)
  | .err (e, s') => ∃ out' buf', out'.length = C.NETCODE_MAX_PACKET_BYTES ∧ buf'.length = L ∧ g = .err (reprNErr e, (reprNS out' s', buf'))
  | .panic _ => ∃ msg, g = .panic msg

theorem reprNS_set_client (out : List Nat) (s : Netcode.NetcodeServer) (i : Nat) (c : Option Netcode.Connection) :
    ({ reprNS out s with clients := List.set (s.clients.map (Option.map reprNConn)) i (c.map reprNConn) } : SNetcodeServer)
      = reprNS out { s with clients := s.clients.set i c } := by
  simp [reprNS, List.map_set]

theorem unwrap_some {ε ρ α : Type} (x : α) (site : String) : (RustSem.unwrap (some x) site : Exec ε ρ α) = .val x := rfl

theorem set_some_bind {ε ρ β : Type} (l : List (Option Netcode.Connection)) (i : Nat) (hi : i < l.length)
    (c0 : Netcode.Connection) (v : SConnection) (hv : v = reprNConn c0) (site : String)
    (k : List (Option SConnection) → Exec ε ρ β) :
    (RustSem.set (l.map (Option.map reprNConn)) i (some v) site).bind k = k ((l.set i (some c0)).map (Option.map reprNConn)) := by
  rw [set_clients hi (some v) (some c0) (by rw [hv]; rfl), Exec.bind_val']

theorem set_none_bind {ε ρ β : Type} (l : List (Option Netcode.Connection)) (i : Nat) (hi : i < l.length) (site : String)
    (k : List (Option SConnection) → Exec ε ρ β) :
    (RustSem.set (l.map (Option.map reprNConn)) i none site).bind k = k ((l.set i none).map (Option.map reprNConn)) := by
  rw [set_clients hi none none rfl, Exec.bind_val']

theorem idx_set_bind {ε ρ β : Type} (l : List (Option Netcode.Connection)) (i : Nat) (hi : i < l.length)
    (x : Option Netcode.Connection) (site : String) (k : Option SConnection → Exec ε ρ β) :
    (RustSem.index ((l.set i x).map (Option.map reprNConn)) i site).bind k = k (x.map reprNConn) := by
  rw [idx_clients (oc := x) (by simp [hi]), Exec.bind_val']

theorem amap_insert_v (out : List Nat) (s : Netcode.NetcodeServer) (addr : Addr) (v : SConnection) (c : Netcode.Connection)
    (hv : v = reprNConn c) :
    RustSem.AMap.insert (reprNS out s).pending_clients (reprAddr addr) v = pendR (pendingSet s.pendingClients addr c) := by
  have hpc : (reprNS out s).pending_clients = pendR s.pendingClients := rfl
  rw [hv, hpc, amap_insert]

theorem amap_insert_l (l : List (Addr × Netcode.Connection)) (addr : Addr) (v : SConnection) (c : Netcode.Connection)
    (hv : v = reprNConn c) :
    RustSem.AMap.insert (pendR l) (reprAddr addr) v = pendR (pendingSet l addr c) := by
  rw [hv, amap_insert]

/-- the generated server whose pending table has been replaced -/
theorem reprNS_with_pending (out : List Nat) (s : Netcode.NetcodeServer) (l : List (Addr × Netcode.Connection)) :
    (⟨(reprNS out s).clients, pendR l, (reprNS out s).connect_token_entries,
      (reprNS out s).protocol_id, (reprNS out s).connect_key, (reprNS out s).max_clients, (reprNS out s).challenge_sequence,
      (reprNS out s).challenge_key, (reprNS out s).public_addresses, (reprNS out s).current_time, (reprNS out s).global_sequence,
      (reprNS out s).secure, (reprNS out s).out⟩ : SNetcodeServer)
      = reprNS out { s with pendingClients := l } := rfl

theorem pendingFind_set (addr : Addr) (c : Netcode.Connection) : ∀ l : List (Addr × Netcode.Connection),
    pendingFind (pendingSet l addr c) addr = some c := by
  intro l
  induction l with
  | nil => simp [pendingSet, pendingFind]
  | cons p r ih =>
    obtain ⟨k, c0⟩ := p
    by_cases h : k = addr
    · simp [pendingSet, pendingFind, h]
    · simp [pendingSet, pendingFind, h, ih]

theorem find_free_go : ∀ (l : List (Option Netcode.Connection)) (i : Nat),
    List.findIdx?.go (fun c : Option SConnection => c.isNone) (l.map (Option.map reprNConn)) i = firstFreeSlot.go l i := by
  intro l
  induction l with
  | nil => intro i; rfl
  | cons c r ih =>
    intro i
    cases c with
    | none => simp [List.findIdx?.go, firstFreeSlot.go]
    | some c => simp only [List.map_cons, Option.map_some, List.findIdx?.go, Option.isNone_some, Bool.false_eq_true, if_false,
        firstFreeSlot.go]; exact ih (i + 1)

theorem find_free_eq (l : List (Option Netcode.Connection)) :
    List.findIdx? (fun c : Option SConnection => c.isNone) (l.map (Option.map reprNConn)) = firstFreeSlot l := by
  unfold List.findIdx? firstFreeSlot; exact find_free_go l 0

theorem first_free_go_lt : ∀ (l : List (Option Netcode.Connection)) (k i : Nat), firstFreeSlot.go l k = some i →
    k ≤ i ∧ i - k < l.length := by
  intro l
  induction l with
  | nil => intro k i h; simp [firstFreeSlot.go] at h
  | cons c r ih =>
    intro k i h
    cases c with
    | none => simp only [firstFreeSlot.go, Option.some.injEq] at h; subst h; simp
    | some c =>
      simp only [firstFreeSlot.go] at h
      obtain ⟨h1, h2⟩ := ih (k + 1) i h
      constructor
      · omega
      · simp only [List.length_cons]; omega

theorem first_free_lt {l : List (Option Netcode.Connection)} {i : Nat} (h : firstFreeSlot l = some i) : i < l.length := by
  have := (first_free_go_lt l 0 i h).2; simpa using this

theorem getD_map_rp (o : Option RP) (x : RP) : Option.getD (o.map reprRP) (reprRP x) = reprRP (o.getD x) := by
  cases o <;> rfl

/-- a call of `handle_connection_request` from `process_packet_internal` (the caller's buffer rides along in the error) -/
theorem hcr_cases {ρ : Type} {m : Netcode.NetcodeServer.SRes} {g : Res (SNErr × SNetcodeServer) (SNetcodeServer × SServerResult)}
    (h : SrvOut m g) (buf : List Nat) :
    (∃ r s' out', out'.length = C.NETCODE_MAX_PACKET_BYTES ∧ m = .ok (r, s') ∧
        (Exec.callFrom (fun err => Res.ok (err.1, (err.2, buf))) g : Exec (SNErr × (SNetcodeServer × List Nat)) ρ _)
          = .val (reprNS out' s', reprNSR r)) ∨
    (∃ e s' out', out'.length = C.NETCODE_MAX_PACKET_BYTES ∧ m = .err (e, s') ∧
        (Exec.callFrom (fun err => Res.ok (err.1, (err.2, buf))) g : Exec (SNErr × (SNetcodeServer × List Nat)) ρ _)
          = .err (reprNErr e, (reprNS out' s', buf))) ∨
    (∃ mm msg, m = .panic mm ∧
        (Exec.callFrom (fun err => Res.ok (err.1, (err.2, buf))) g : Exec (SNErr × (SNetcodeServer × List Nat)) ρ _)
          = .panic msg) := by
  cases m with
  | ok v =>
    obtain ⟨r, s'⟩ := v
    obtain ⟨out', hol, hg⟩ := h
    left; exact ⟨r, s', out', hol, rfl, by rw [hg]; rfl⟩
  | err v =>
    obtain ⟨e, s'⟩ := v
    obtain ⟨out', hol, hg⟩ := h
    right; left; exact ⟨e, s', out', hol, rfl, by rw [hg]; rfl⟩
  | panic mm =>
    obtain ⟨msg, hg⟩ := h
    right; right; exact ⟨mm, msg, rfl, by rw [hg]; rfl⟩

set_option maxRecDepth 10000 in
theorem ns_process_packet_internal_eqL (a : AEAD) (hl : a.Laws) (out : List Nat) (hout : out.length = C.NETCODE_MAX_PACKET_BYTES)
    (s : Netcode.NetcodeServer) (hent : 0 < s.connectTokenEntries.length) (addr : Addr) (buffer : Bytes)
    (hbl : buffer.length + 16 < 2 ^ 64) :
    RecvOutL buffer.length (s.processPacketInternal a addr buffer)
      (@NetcodeServer.process_packet_internal (aeadOf a) (reprNS out s) (reprAddr addr) (toNats buffer)) := by
  unfold NetcodeServer.process_packet_internal Netcode.NetcodeServer.processPacketInternal
  have hpid : ∀ o (s0 : Netcode.NetcodeServer), (reprNS o s0).protocol_id = s0.protocolId := fun _ _ => rfl
  have hct : ∀ o (s0 : Netcode.NetcodeServer), (reprNS o s0).current_time = s0.currentTime := fun _ _ => rfl
  have hcl : ∀ o (s0 : Netcode.NetcodeServer), (reprNS o s0).clients = s0.clients.map (Option.map reprNConn) := fun _ _ => rfl
  have hpc : ∀ o (s0 : Netcode.NetcodeServer), (reprNS o s0).pending_clients = pendR s0.pendingClients := fun _ _ => rfl
  have hKmac : Src.renetcode.NETCODE_MAC_BYTES = C.NETCODE_MAC_BYTES := rfl
  have hlen : RustSem.len (toNats buffer) = buffer.length := by simp [RustSem.len, toNats_length]
  simp only [Exec.bind_eq, Exec.pure_eq]
  rw [hKmac, add_val (by decide), Exec.bind_val', hlen]
  by_cases hsmall : buffer.length < 2 + C.NETCODE_MAC_BYTES
  · simp only [hsmall, decide_true, if_true]
    rw [Exec.bind_err']
    simp only [Exec.run_err, RecvOutL, reprNErr]; exact ⟨out, _, hout, toNats_length _, rfl⟩
  simp only [hsmall, decide_false, if_false, Bool.false_eq_true]
  rw [Exec.bind_val', hcl, find_client_mut_by_addr_eq, Exec.call_ok, Exec.bind_val']
  cases hfa : findClientByAddr s.clients addr with
  | some sc =>
    obtain ⟨slot, client⟩ := sc
    have hi := find_addr_some hfa
    have hilt := lt_of_getElem? hi
    simp only [Option.map_some]
    have hdec := packet_decode_eqL a hl buffer hbl s.protocolId (some client.receiveKey) (some client.replayProtection)
    simp only [Option.map_some] at hdec
    generalize hM : Netcode.Packet.decode a buffer s.protocolId (some client.receiveKey) (some client.replayProtection) = M at hdec ⊢
    obtain ⟨r, rp⟩ := M
    simp only [] at hdec ⊢
    generalize hc' : ({ client with replayProtection := rp.getD client.replayProtection } : Netcode.Connection) = c'
    have hrk : ∀ c0 : Netcode.Connection, (reprNConn c0).receive_key = toNats c0.receiveKey := fun _ => rfl
    have hrp : ∀ c0 : Netcode.Connection, (reprNConn c0).replay_protection = reprRP c0.replayProtection := fun _ => rfl
    simp only [hcl, idx_clients hi, Option.map_some]
    rw [Exec.bind_val', unwrap_some, Exec.bind_val', Exec.bind_val', unwrap_some, Exec.bind_val',
      Exec.bind_val', unwrap_some, Exec.bind_val', Exec.bind_val', unwrap_some, Exec.bind_val', hpid, hrk, hrp]
    cases r with
    | panic m =>
      simp only [DecOutL] at hdec
      obtain ⟨msg, hg⟩ := hdec
      rw [hg, Exec.callFrom_panic, Exec.bind_panic', Exec.bind_panic']
      simp only [Exec.run_panic, RecvOutL]; exact ⟨_, rfl⟩
    | err e =>
      simp only [DecOutL] at hdec
      obtain ⟨buf', hbl', hg⟩ := hdec
      rw [hg, Exec.callFrom_err _ _ _ ?hk, Exec.bind_err', Exec.bind_err']
      case hk => rfl
      simp only [Exec.run_err, RecvOutL]
      refine ⟨out, buf', hout, hbl', ?_⟩
      rw [getD_map_rp, ← reprNS_set_client, ← hc']
      rfl
    | ok v =>
      obtain ⟨sq, packet⟩ := v
      simp only [DecOutL] at hdec
      obtain ⟨buf', hbl', hg⟩ := hdec
      rw [hg, Exec.callFrom_ok, Exec.bind_val']
      obtain ⟨w', hw⟩ := decode_rp_some a buffer s.protocolId (some client.receiveKey) client.replayProtection
      rw [hM] at hw
      simp only [] at hw
      subst hw
      simp only [Option.getD_some] at hc'
      have hcst : c'.state = client.state := by rw [← hc']
      have hccid : c'.clientId = client.clientId := by rw [← hc']
      rw [Exec.bind_skip _ _ (reprRP w') ?h1]
      case h1 => rfl
      rw [Exec.bind_val', unwrap_some, Exec.bind_val', set_some_bind _ _ hilt c' _ ?hv1, idx_set_bind _ _ hilt, Option.map_some,
        unwrap_some, Exec.bind_val']
      case hv1 => rw [← hc']; rfl
      have hst : ∀ c0 : Netcode.Connection, (reprNConn c0).state = reprCS c0.state := fun _ => rfl
      rw [hst, hcst]
      have hlt2 : slot < (s.clients.set slot (some c')).length := by simpa using hilt
      have hgo : ∀ o (s0 : Netcode.NetcodeServer), (reprNS o s0).out = o := fun _ _ => rfl
      have hccid' : ∀ c0 : Netcode.Connection, (reprNConn c0).client_id = c0.clientId := fun _ => rfl
      have hconf : ∀ c0 : Netcode.Connection, (reprNConn c0).confirmed = c0.confirmed := fun _ => rfl
      -- the leaf for "nothing to report": the client's replay window has been written back
      have hnone : RecvOutL buffer.length (Res.ok (Netcode.ServerResult.none, { s with clients := s.clients.set slot (some c') }))
          (Exec.run (Exec.ret (({ reprNS out s with clients := (s.clients.set slot (some c')).map (Option.map reprNConn) } : SNetcodeServer),
            buf', Src.renetcode.server.ServerResult.None)
            : Exec (SNErr × (SNetcodeServer × List Nat)) (SNetcodeServer × List Nat × SServerResult) (SNetcodeServer × List Nat × SServerResult))) := by
        simp only [Exec.run_ret, RecvOutL, reprNSR]
        exact ⟨out, buf', hout, hbl', rfl⟩
      cases hcs : client.state with
      | disconnected =>
        simp only [reprCS]
        repeat rw [Exec.bind_ret']
        exact hnone
      | pendingResponse =>
        simp only [reprCS]
        repeat rw [Exec.bind_ret']
        exact hnone
      | connected =>
        simp only [reprCS, Option.map_some]
        cases packet with
        | connectionRequest v0 p0 e0 x0 d0 =>
          simp only [reprNP]
          repeat rw [Exec.bind_ret']
          exact hnone
        | connectionDenied =>
          simp only [reprNP]
          repeat rw [Exec.bind_ret']
          exact hnone
        | challenge s0 d0 =>
          simp only [reprNP]
          repeat rw [Exec.bind_ret']
          exact hnone
        | response s0 d0 =>
          simp only [reprNP]
          repeat rw [Exec.bind_ret']
          exact hnone
        | disconnect =>
          simp only [reprNP]
          rw [idx_set_bind _ _ hilt, Option.map_some, unwrap_some, Exec.bind_val']
          rw [set_some_bind _ _ hlt2 { c' with state := .disconnected } _ ?hv]
          case hv => rfl
          rw [idx_set_bind _ _ hlt2, Option.map_some, unwrap_some, Exec.bind_val']
          rw [set_none_bind _ _ (by simpa using hilt)]
          repeat rw [Exec.bind_ret']
          simp only [Exec.run_ret, RecvOutL, reprNSR]
          refine ⟨out, buf', hout, hbl', ?_⟩
          simp only [List.set_set]
          rw [← hccid]
          rfl
        | payload pl =>
          simp only [reprNP]
          rw [idx_set_bind _ _ hilt, Option.map_some, unwrap_some, Exec.bind_val', hct]
          rw [set_some_bind _ _ hlt2 { c' with lastPacketReceivedTime := s.currentTime } _ ?hv]
          case hv => rfl
          rw [idx_set_bind _ _ hlt2, Option.map_some, unwrap_some, Exec.bind_val', hconf]
          simp only []
          have hlt3 : ∀ x, slot < ((s.clients.set slot (some c')).set slot x).length := by intro x; simpa using hilt
          cases hcf : c'.confirmed with
          | true =>
            simp only [Bool.not_true, Bool.false_eq_true, if_false]
            rw [Exec.bind_val', idx_set_bind _ _ hlt2, Option.map_some, unwrap_some, Exec.bind_val']
            repeat rw [Exec.bind_ret']
            simp only [Exec.run_ret, RecvOutL, reprNSR]
            refine ⟨out, buf', hout, hbl', ?_⟩
            subst hc'
            simp only [] at hcf
            simp only [hcf, hcs, Option.getD_some]
            rfl
          | false =>
            simp only [Bool.not_false, if_true]
            rw [idx_set_bind _ _ hlt2, Option.map_some, unwrap_some, Exec.bind_val']
            rw [set_some_bind _ _ (hlt3 _) { c' with lastPacketReceivedTime := s.currentTime, confirmed := true } _ ?hv2]
            case hv2 => rfl
            rw [Exec.bind_val', idx_set_bind _ _ (hlt3 _), Option.map_some, unwrap_some, Exec.bind_val']
            repeat rw [Exec.bind_ret']
            simp only [Exec.run_ret, RecvOutL, reprNSR]
            refine ⟨out, buf', hout, hbl', ?_⟩
            subst hc'
            simp only [List.set_set, hcs, Option.getD_some]
            rfl
        | keepAlive i0 m0 =>
          simp only [reprNP]
          rw [idx_set_bind _ _ hilt, Option.map_some, unwrap_some, Exec.bind_val', hct]
          rw [set_some_bind _ _ hlt2 { c' with lastPacketReceivedTime := s.currentTime } _ ?hv]
          case hv => rfl
          rw [idx_set_bind _ _ hlt2, Option.map_some, unwrap_some, Exec.bind_val', hconf]
          simp only []
          have hlt3 : ∀ x, slot < ((s.clients.set slot (some c')).set slot x).length := by intro x; simpa using hilt
          cases hcf : c'.confirmed with
          | true =>
            simp only [Bool.not_true, Bool.false_eq_true, if_false]
            rw [Exec.bind_val']
            repeat rw [Exec.bind_ret']
            simp only [Exec.run_ret, RecvOutL, reprNSR]
            refine ⟨out, buf', hout, hbl', ?_⟩
            subst hc'
            simp only [] at hcf
            simp only [hcf, hcs, Option.getD_some]
            rfl
          | false =>
            simp only [Bool.not_false, if_true]
            rw [idx_set_bind _ _ hlt2, Option.map_some, unwrap_some, Exec.bind_val']
            rw [set_some_bind _ _ (hlt3 _) { c' with lastPacketReceivedTime := s.currentTime, confirmed := true } _ ?hv2]
            case hv2 => rfl
            rw [Exec.bind_val']
            repeat rw [Exec.bind_ret']
            simp only [Exec.run_ret, RecvOutL, reprNSR]
            refine ⟨out, buf', hout, hbl', ?_⟩
            subst hc'
            simp only [List.set_set, hcs, Option.getD_some]
            rfl
  | none =>
    simp only [Option.map_none]
    rw [Exec.bind_val']
    simp only []
    rw [show RustSem.AMap.contains_key (reprNS out s).pending_clients (reprAddr addr) = (pendingFind s.pendingClients addr).isSome
      from amap_contains addr _]
    cases hpf : pendingFind s.pendingClients addr with
    | none =>
      simp only [Option.isSome_none, Bool.false_eq_true, if_false]
      rw [Exec.bind_val']
      simp only []
      have hdec := packet_decode_eqL a hl buffer hbl s.protocolId none none
      simp only [Option.map_none] at hdec
      generalize hM : Netcode.Packet.decode a buffer s.protocolId none none = M at hdec ⊢
      obtain ⟨r, rp⟩ := M
      simp only [] at hdec ⊢
      rw [hpid]
      cases r with
      | panic m =>
        simp only [DecOutL] at hdec
        obtain ⟨msg, hg⟩ := hdec
        rw [hg, Exec.callFrom_panic, Exec.bind_panic']
        simp only [Exec.run_panic, RecvOutL]; exact ⟨_, rfl⟩
      | err e =>
        simp only [DecOutL] at hdec
        obtain ⟨buf', hbl', hg⟩ := hdec
        rw [hg, Exec.callFrom_err _ _ _ ?hk, Exec.bind_err']
        case hk => rfl
        simp only [Exec.run_err, RecvOutL]
        exact ⟨out, buf', hout, hbl', rfl⟩
      | ok v =>
        obtain ⟨sq, packet⟩ := v
        simp only [DecOutL] at hdec
        obtain ⟨buf', hbl', hg⟩ := hdec
        rw [hg, Exec.callFrom_ok, Exec.bind_val']
        have hwf : PacketWF packet := decode_wf (sq := sq) (by rw [hM])
        cases packet with
        | connectionRequest v0 p0 e0 x0 d0 =>
          simp only [reprNP]
          have hh := ns_handle_connection_request_eq a hl out hout s hent addr v0 p0 e0 x0 d0 hwf
          rcases hcr_cases (ρ := SNetcodeServer × List Nat × SServerResult) hh buf' with
            ⟨r, s', out', hol, hm, hgc⟩ | ⟨e, s', out', hol, hm, hgc⟩ | ⟨mm, msg, hm, hgc⟩
          · rw [hm, hgc, Exec.bind_val']
            simp only [Exec.run_val, RecvOutL]
            exact ⟨out', buf', hol, hbl', rfl⟩
          · rw [hm, hgc, Exec.bind_err']
            simp only [Exec.run_err, RecvOutL]
            exact ⟨out', buf', hol, hbl', rfl⟩
          · rw [hm, hgc, Exec.bind_panic']
            simp only [Exec.run_panic, RecvOutL]; exact ⟨_, rfl⟩
        | connectionDenied => simp only [reprNP, Exec.run_panic, RecvOutL]; exact ⟨_, rfl⟩
        | challenge s0 d0 => simp only [reprNP, Exec.run_panic, RecvOutL]; exact ⟨_, rfl⟩
        | response s0 d0 => simp only [reprNP, Exec.run_panic, RecvOutL]; exact ⟨_, rfl⟩
        | keepAlive i0 m0 => simp only [reprNP, Exec.run_panic, RecvOutL]; exact ⟨_, rfl⟩
        | payload pl => simp only [reprNP, Exec.run_panic, RecvOutL]; exact ⟨_, rfl⟩
        | disconnect => simp only [reprNP, Exec.run_panic, RecvOutL]; exact ⟨_, rfl⟩
    | some pending =>
      simp only [Option.isSome_some, if_true]
      have hdec0 := packet_decode_eqL a hl buffer hbl s.protocolId (some pending.receiveKey) (some pending.replayProtection)
      have hdec : DecOutL buffer.length (Netcode.Packet.decode a buffer s.protocolId (some pending.receiveKey) (some pending.replayProtection))
          (@Src.renetcode.packet.Packet.decode (aeadOf a) (toNats buffer) (reprNS out s).protocol_id
            (some (reprNConn pending).receive_key) (some (reprNConn pending).replay_protection)) := hdec0
      generalize hM : Netcode.Packet.decode a buffer s.protocolId (some pending.receiveKey) (some pending.replayProtection) = M at hdec ⊢
      obtain ⟨r, rp⟩ := M
      simp only [] at hdec ⊢
      have hidx : ∀ site, (RustSem.AMap.index (reprNS out s).pending_clients (reprAddr addr) site
          : Exec (SNErr × (SNetcodeServer × List Nat)) (SNetcodeServer × List Nat × SServerResult) _) = .val (reprNConn pending) :=
        fun site => amap_index hpf site
      simp only [hidx]
      rw [Exec.bind_val', Exec.bind_val', Exec.bind_val', Exec.bind_val']
      cases r with
      | panic m =>
        simp only [DecOutL] at hdec
        obtain ⟨msg, hg⟩ := hdec
        rw [hg, Exec.callFrom_panic, Exec.bind_panic', Exec.bind_panic']
        simp only [Exec.run_panic, RecvOutL]; exact ⟨_, rfl⟩
      | err e =>
        simp only [DecOutL] at hdec
        obtain ⟨buf', hbl', hg⟩ := hdec
        rw [hg, Exec.callFrom_err _ _ _ ?hk, Exec.bind_err', Exec.bind_err']
        case hk => rfl
        simp only [Exec.run_err, RecvOutL]
        refine ⟨out, buf', hout, hbl', ?_⟩
        rw [amap_insert_v out s addr _ { pending with replayProtection := rp.getD pending.replayProtection } ?hv, reprNS_with_pending]
        case hv =>
          have hrp : (reprNConn pending).replay_protection = reprRP pending.replayProtection := rfl
          rw [hrp, getD_map_rp]; rfl
      | ok v =>
        obtain ⟨sq, packet⟩ := v
        simp only [DecOutL] at hdec
        obtain ⟨buf', hbl', hg⟩ := hdec
        rw [hg, Exec.callFrom_ok, Exec.bind_val']
        obtain ⟨w', hw⟩ := decode_rp_some a buffer s.protocolId (some pending.receiveKey) pending.replayProtection
        rw [hM] at hw
        simp only [] at hw
        subst hw
        have hwf : PacketWF packet := decode_wf (sq := sq) (by rw [hM])
        simp only [Option.getD_some]
        rw [Exec.bind_skip _ _ (reprRP w') ?h1]
        case h1 => rfl
        rw [Exec.bind_val', amap_insert_v out s addr _ { pending with replayProtection := w' } ?hv]
        case hv => rfl
        rw [amap_index (pendingFind_set addr _ _), Exec.bind_val']
        rw [amap_insert_l _ addr _ { pending with replayProtection := w', lastPacketReceivedTime := s.currentTime } ?hv2]
        case hv2 => rfl
        rw [reprNS_with_pending]
        have hfind2 : pendingFind (pendingSet (pendingSet s.pendingClients addr { pending with replayProtection := w' }) addr
            { pending with replayProtection := w', lastPacketReceivedTime := s.currentTime }) addr
            = some { pending with replayProtection := w', lastPacketReceivedTime := s.currentTime } := pendingFind_set addr _ _
        generalize hl2 : pendingSet (pendingSet s.pendingClients addr { pending with replayProtection := w' }) addr
            { pending with replayProtection := w', lastPacketReceivedTime := s.currentTime } = l2 at hfind2 ⊢
        have hnone : RecvOutL buffer.length (Res.ok (Netcode.ServerResult.none, { s with pendingClients := l2 }))
            (Exec.run (Exec.ret (reprNS out { s with pendingClients := l2 }, buf', Src.renetcode.server.ServerResult.None)
              : Exec (SNErr × (SNetcodeServer × List Nat)) (SNetcodeServer × List Nat × SServerResult) (SNetcodeServer × List Nat × SServerResult))) := by
          simp only [Exec.run_ret, RecvOutL, reprNSR]
          exact ⟨out, buf', hout, hbl', rfl⟩
        cases packet with
        | connectionRequest v0 p0 e0 x0 d0 =>
          simp only [reprNP]
          have hh := ns_handle_connection_request_eq a hl out hout { s with pendingClients := l2 } hent addr v0 p0 e0 x0 d0 hwf
          rcases hcr_cases (ρ := SNetcodeServer × List Nat × SServerResult) hh buf' with
            ⟨r, s', out', hol, hm, hgc⟩ | ⟨e, s', out', hol, hm, hgc⟩ | ⟨mm, msg, hm, hgc⟩
          · rw [hm, hgc, Exec.bind_val']
            repeat rw [Exec.bind_ret']
            simp only [Exec.run_ret, RecvOutL]
            exact ⟨out', buf', hol, hbl', rfl⟩
          · rw [hm, hgc, Exec.bind_err']
            repeat rw [Exec.bind_err']
            simp only [Exec.run_err, RecvOutL]
            exact ⟨out', buf', hol, hbl', rfl⟩
          · rw [hm, hgc, Exec.bind_panic']
            repeat rw [Exec.bind_panic']
            simp only [Exec.run_panic, RecvOutL]; exact ⟨_, rfl⟩
        | connectionDenied =>
          simp only [reprNP]
          repeat rw [Exec.bind_ret']
          exact hnone
        | challenge s0 d0 =>
          simp only [reprNP]
          repeat rw [Exec.bind_ret']
          exact hnone
        | keepAlive i0 m0 =>
          simp only [reprNP]
          repeat rw [Exec.bind_ret']
          exact hnone
        | payload pl =>
          simp only [reprNP]
          repeat rw [Exec.bind_ret']
          exact hnone
        | disconnect =>
          simp only [reprNP]
          repeat rw [Exec.bind_ret']
          exact hnone
        | response ts td =>
          simp only [reprNP]
          have hcd0 := challenge_decode_eq a hl td hwf ts s.challengeKey
          have hcd : SameOutcome (@Src.renetcode.packet.ChallengeToken.decode (aeadOf a) (toNats td) ts (reprNS out s).challenge_key)
              (mapRes reprCT reprNErr (Netcode.ChallengeToken.decode a td ts s.challengeKey)) := hcd0
          cases hmc : Netcode.ChallengeToken.decode a td ts s.challengeKey with
          | panic m =>
            rw [hmc] at hcd; simp only [mapRes] at hcd
            obtain ⟨m', hg2⟩ := so_panic hcd
            rw [hg2, Exec.callFrom_panic, lift_panic, Res.bind_panic]
            repeat rw [Exec.bind_panic']
            simp only [Exec.run_panic, RecvOutL]; exact ⟨_, rfl⟩
          | err e =>
            rw [hmc] at hcd; simp only [mapRes] at hcd
            rw [so_err hcd, Exec.callFrom_err _ _ _ ?hk, lift_err, Res.bind_err]
            case hk => rfl
            repeat rw [Exec.bind_err']
            simp only [Exec.run_err, RecvOutL]
            exact ⟨out, buf', hout, hbl', rfl⟩
          | ok ct =>
            rw [hmc] at hcd; simp only [mapRes] at hcd
            rw [so_ok hcd, Exec.callFrom_ok, Exec.bind_val', lift_ok, Res.bind_ok, amap_index hfind2, Exec.bind_val']
            rw [Exec.bind_skip (ite _ _ _) _ (decide (ct.clientId ≠ pending.clientId ∨ ct.userData ≠ pending.userData)) ?hc]
            case hc =>
              have h1 : (reprCT ct).client_id = ct.clientId := rfl
              have h2 : (reprCT ct).user_data = toNats ct.userData := rfl
              rw [h1, h2, Exec.bind_val']
              have h3 : (reprNConn { pending with replayProtection := w', lastPacketReceivedTime := s.currentTime }).user_data
                  = toNats pending.userData := rfl
              have h4 : (reprNConn { pending with replayProtection := w', lastPacketReceivedTime := s.currentTime }).client_id
                  = pending.clientId := rfl
              rw [h3, h4]
              by_cases hid : ct.clientId = pending.clientId
              · simp only [hid, ne_eq, not_true_eq_false, decide_false, Bool.false_eq_true, if_false, false_or, toNats_ne_iff]
              · simp only [hid, ne_eq, not_false_eq_true, decide_true, if_true, true_or]
            have hgo : ∀ o (s0 : Netcode.NetcodeServer), (reprNS o s0).out = o := fun _ _ => rfl
            have hgs : ∀ o (s0 : Netcode.NetcodeServer), (reprNS o s0).global_sequence = s0.globalSequence := fun _ _ => rfl
            have hmc' : ∀ o (s0 : Netcode.NetcodeServer), (reprNS o s0).max_clients = s0.maxClients := fun _ _ => rfl
            by_cases hmis : ct.clientId ≠ pending.clientId ∨ ct.userData ≠ pending.userData
            · have hdm : decide (ct.clientId ≠ pending.clientId ∨ ct.userData ≠ pending.userData) = true := by
                rw [decide_eq_true_eq]; exact hmis
              rw [if_pos hdm, if_pos hmis]
              repeat rw [Exec.bind_ret']
              exact hnone
            have hdm : ¬ decide (ct.clientId ≠ pending.clientId ∨ ct.userData ≠ pending.userData) = true := by
              rw [decide_eq_true_eq]; exact hmis
            rw [if_neg hdm, if_neg hmis, Exec.bind_val', amap_find, hfind2, Option.map_some,
              unwrap_some, Exec.bind_val', amap_remove, reprNS_with_pending]
            have hcid : (reprCT ct).client_id = ct.clientId := rfl
            rw [hcid, show (find_client_slot_by_id (reprNS out s).clients ct.clientId
                : Res (SNErr × (SNetcodeServer × List Nat)) _) = .ok (findClientSlotById s.clients ct.clientId)
              from find_client_slot_by_id_eq s.clients ct.clientId, Exec.call_ok, Exec.bind_val']
            by_cases hdup : (findClientSlotById s.clients ct.clientId).isSome = true
            · rw [if_pos hdup, if_pos hdup]
              repeat rw [Exec.bind_ret']
              simp only [Exec.run_ret, RecvOutL, Res.pure_eq, reprNSR]
              exact ⟨out, buf', hout, hbl', rfl⟩
            rw [if_neg hdup, if_neg hdup, Exec.bind_val']
            rw [show List.findIdx? (fun c : Option SConnection => c.isNone) (reprNS out s).clients = firstFreeSlot s.clients
              from find_free_eq s.clients]
            cases hff : firstFreeSlot s.clients with
            | none =>
              simp only []
              have henc : EncOut C.NETCODE_MAX_PACKET_BYTES
                  (Netcode.Packet.encode a .connectionDenied C.NETCODE_MAX_PACKET_BYTES s.protocolId (some (s.globalSequence, pending.sendKey)))
                  (@Src.renetcode.packet.Packet.encode (aeadOf a) .ConnectionDenied (reprNS out s).out (reprNS out s).protocol_id
                    (some ((reprNS out s).global_sequence,
                      (reprNConn { pending with replayProtection := w', lastPacketReceivedTime := s.currentTime }).send_key))) :=
                enc_out a hl .connectionDenied out hout s.protocolId s.globalSequence pending.sendKey
              cases hme : Netcode.Packet.encode a .connectionDenied C.NETCODE_MAX_PACKET_BYTES s.protocolId
                  (some (s.globalSequence, pending.sendKey)) with
              | panic m =>
                rw [hme] at henc; obtain ⟨msg, hge⟩ := henc
                rw [hge, Exec.callFrom_panic, lift_panic, Res.bind_panic]
                repeat rw [Exec.bind_panic']
                simp only [Exec.run_panic, RecvOutL]; exact ⟨_, rfl⟩
              | err e =>
                rw [hme] at henc; obtain ⟨st, hge, hst⟩ := henc
                rw [hge, Exec.callFrom_err _ _ _ ?hk, lift_err, Res.bind_err]
                case hk => rfl
                repeat rw [Exec.bind_err']
                simp only [Exec.run_err, RecvOutL]
                exact ⟨st, buf', hst, hbl', rfl⟩
              | ok bytes =>
                rw [hme] at henc; obtain ⟨buf2, hge, htake, hblen⟩ := henc
                rw [hge, Exec.callFrom_ok, Exec.bind_val', lift_ok, Res.bind_ok, hgs]
                unfold incU64
                by_cases hov : s.globalSequence + 1 ≤ U64_MAX
                · have hov' : s.globalSequence + 1 < 2 ^ 64 := by simp only [U64_MAX] at hov; omega
                  rw [add_val hov', Exec.bind_val', if_pos hov, Res.bind_ok]
                  rw [Exec.bind_skip (RustSem.slice _ _ _ _) _ (toNats bytes) (slice_of_take buf2 bytes htake _)]
                  repeat rw [Exec.bind_ret']
                  simp only [Exec.run_ret, RecvOutL, Res.pure_eq, reprNSR]
                  exact ⟨buf2, buf', hblen, hbl', rfl⟩
                · have hov' : ¬ s.globalSequence + 1 < 2 ^ 64 := by simp only [U64_MAX] at hov; omega
                  rw [add_panic hov', if_neg hov, Res.bind_panic]
                  repeat rw [Exec.bind_panic']
                  simp only [Exec.run_panic, RecvOutL]; exact ⟨_, rfl⟩
            | some idx =>
              simp only []
              have henc : EncOut C.NETCODE_MAX_PACKET_BYTES
                  (Netcode.Packet.encode a (.keepAlive (idx % 2 ^ 32) (s.maxClients % 2 ^ 32)) C.NETCODE_MAX_PACKET_BYTES s.protocolId
                    (some (pending.sequence, pending.sendKey)))
                  (@Src.renetcode.packet.Packet.encode (aeadOf a)
                    (Src.renetcode.packet.Packet.KeepAlive (RustSem.cast 32 idx) (RustSem.cast 32 (reprNS out s).max_clients))
                    (reprNS out s).out (reprNS out s).protocol_id
                    (some ((reprNConn { pending with replayProtection := w', lastPacketReceivedTime := s.currentTime }).sequence,
                      (reprNConn { pending with replayProtection := w', lastPacketReceivedTime := s.currentTime }).send_key))) :=
                enc_out a hl (.keepAlive (idx % 2 ^ 32) (s.maxClients % 2 ^ 32)) out hout s.protocolId pending.sequence pending.sendKey
              cases hme : Netcode.Packet.encode a (.keepAlive (idx % 2 ^ 32) (s.maxClients % 2 ^ 32)) C.NETCODE_MAX_PACKET_BYTES
                  s.protocolId (some (pending.sequence, pending.sendKey)) with
              | panic m =>
                rw [hme] at henc; obtain ⟨msg, hge⟩ := henc
                rw [hge, Exec.callFrom_panic, lift_panic, Res.bind_panic]
                repeat rw [Exec.bind_panic']
                simp only [Exec.run_panic, RecvOutL]; exact ⟨_, rfl⟩
              | err e =>
                rw [hme] at henc; obtain ⟨st, hge, hst⟩ := henc
                rw [hge, Exec.callFrom_err _ _ _ ?hk, lift_err, Res.bind_err]
                case hk => rfl
                repeat rw [Exec.bind_err']
                simp only [Exec.run_err, RecvOutL]
                exact ⟨st, buf', hst, hbl', rfl⟩
              | ok bytes =>
                rw [hme] at henc; obtain ⟨buf2, hge, htake, hblen⟩ := henc
                rw [hge, Exec.callFrom_ok, Exec.bind_val', lift_ok, Res.bind_ok]
                have hsq2 : (reprNConn { pending with replayProtection := w', lastPacketReceivedTime := s.currentTime }).sequence
                    = pending.sequence := rfl
                rw [hsq2]
                unfold incU64
                by_cases hov : pending.sequence + 1 ≤ U64_MAX
                · have hov' : pending.sequence + 1 < 2 ^ 64 := by simp only [U64_MAX] at hov; omega
                  rw [add_val hov', Exec.bind_val', if_pos hov, Res.bind_ok]
                  rw [Exec.bind_skip (RustSem.set _ _ _ _) _ ((s.clients.set idx (some ({ pending with replayProtection := w', lastPacketReceivedTime := s.currentTime, state := .connected, userData := ct.userData, lastPacketSendTime := s.currentTime, sequence := pending.sequence + 1 } : Netcode.Connection))).map (Option.map reprNConn)) ?hset]
                  case hset => exact set_clients (first_free_lt hff) _ (some ({ pending with replayProtection := w', lastPacketReceivedTime := s.currentTime, state := .connected, userData := ct.userData, lastPacketSendTime := s.currentTime, sequence := pending.sequence + 1 } : Netcode.Connection)) rfl _
                  rw [Exec.bind_skip (RustSem.slice _ _ _ _) _ (toNats bytes) (slice_of_take buf2 bytes htake _)]
                  repeat rw [Exec.bind_ret']
                  simp only [Exec.run_ret, RecvOutL, Res.pure_eq, reprNSR]
                  exact ⟨buf2, buf', hblen, hbl', rfl⟩
                · have hov' : ¬ pending.sequence + 1 < 2 ^ 64 := by simp only [U64_MAX] at hov; omega
                  rw [add_panic hov', if_neg hov, Res.bind_panic]
                  repeat rw [Exec.bind_panic']
                  simp only [Exec.run_panic, RecvOutL]; exact ⟨_, rfl⟩

/-! ### `process_packet` -/

/-- outcomes of `process_packet` (no `Err`: errors are logged and become `ServerResult::None`, keeping the state changes made
    before the error) -/
def PktOutL {ε : Type} (L : Nat) (m : Res Empty (Netcode.ServerResult × Netcode.NetcodeServer))
    (g : Res ε (SNetcodeServer × List Nat × SServerResult)) : Prop :=
  match m with
  | .ok (r, s') => ∃ out' buf', out'.length = C.NETCODE_MAX_PACKET_BYTES ∧ buf'.length = L ∧ g = .ok (reprNS out' s', buf', reprNSR r)
  | .err e => nomatch e
  | .panic _ => ∃ msg, g = .panic msg

theorem ns_process_packet_eqL {ε : Type} (a : AEAD) (hl : a.Laws) (out : List Nat) (hout : out.length = C.NETCODE_MAX_PACKET_BYTES)
    (s : Netcode.NetcodeServer) (hent : 0 < s.connectTokenEntries.length) (addr : Addr) (buffer : Bytes)
    (hbl : buffer.length + 16 < 2 ^ 64) :
    PktOutL buffer.length (s.processPacket a addr buffer)
      (@NetcodeServer.process_packet (aeadOf a) ε (reprNS out s) (reprAddr addr) (toNats buffer)) := by
  unfold NetcodeServer.process_packet Netcode.NetcodeServer.processPacket
  have h := ns_process_packet_internal_eqL a hl out hout s hent addr buffer hbl
  cases hm : s.processPacketInternal a addr buffer with
  | ok v =>
    obtain ⟨r, s'⟩ := v
    rw [hm] at h
    obtain ⟨out', buf', hol, hbl', hg⟩ := h
    rw [hg]
    simp only [Exec.attempt2, Exec.bind_eq, Exec.pure_eq, Exec.bind_val', Exec.run_val, PktOutL]
    exact ⟨out', buf', hol, hbl', rfl⟩
  | err v =>
    obtain ⟨e, s'⟩ := v
    rw [hm] at h
    obtain ⟨out', buf', hol, hbl', hg⟩ := h
    rw [hg]
    simp only [Exec.attempt2, Exec.bind_eq, Exec.pure_eq, Exec.bind_val', Exec.run_val, PktOutL]
    exact ⟨out', buf', hol, hbl', rfl⟩
  | panic m =>
    rw [hm] at h
    obtain ⟨msg, hg⟩ := h
    rw [hg]
    simp only [Exec.attempt2, Exec.bind_eq, Exec.bind_panic', Exec.run_panic, PktOutL]
    exact ⟨_, rfl⟩


/-- `RecvOutL` / `PktOutL` without the buffer's length -/
def RecvOut (m : Netcode.NetcodeServer.SRes)
    (g : Res (SNErr × (SNetcodeServer × List Nat)) (SNetcodeServer × List Nat × SServerResult)) : Prop :=
  match m with
  | .ok (r, s') => ∃ out' buf', out'.length = C.NETCODE_MAX_PACKET_BYTES ∧ g = .ok (reprNS out' s', buf', reprNSR r)
  | .err (e, s') => ∃ out' buf', out'.length = C.NETCODE_MAX_PACKET_BYTES ∧ g = .err (reprNErr e, (reprNS out' s', buf'))
  | .panic _ => ∃ msg, g = .panic msg
def PktOut {ε : Type} (m : Res Empty (Netcode.ServerResult × Netcode.NetcodeServer))
    (g : Res ε (SNetcodeServer × List Nat × SServerResult)) : Prop :=
  match m with
  | .ok (r, s') => ∃ out' buf', out'.length = C.NETCODE_MAX_PACKET_BYTES ∧ g = .ok (reprNS out' s', buf', reprNSR r)
  | .err e => nomatch e
  | .panic _ => ∃ msg, g = .panic msg

theorem ns_process_packet_internal_eq (a : AEAD) (hl : a.Laws) (out : List Nat) (hout : out.length = C.NETCODE_MAX_PACKET_BYTES)
    (s : Netcode.NetcodeServer) (hent : 0 < s.connectTokenEntries.length) (addr : Addr) (buffer : Bytes)
    (hbl : buffer.length + 16 < 2 ^ 64) :
    RecvOut (s.processPacketInternal a addr buffer)
      (@NetcodeServer.process_packet_internal (aeadOf a) (reprNS out s) (reprAddr addr) (toNats buffer)) := by
  have h := ns_process_packet_internal_eqL a hl out hout s hent addr buffer hbl
  unfold RecvOut
  unfold RecvOutL at h
  cases hm : s.processPacketInternal a addr buffer with
  | ok v => obtain ⟨r, s'⟩ := v; rw [hm] at h; obtain ⟨o, b, ho, _, hg⟩ := h; exact ⟨o, b, ho, hg⟩
  | err v => obtain ⟨e, s'⟩ := v; rw [hm] at h; obtain ⟨o, b, ho, _, hg⟩ := h; exact ⟨o, b, ho, hg⟩
  | panic x => rw [hm] at h; exact h

theorem ns_process_packet_eq {ε : Type} (a : AEAD) (hl : a.Laws) (out : List Nat) (hout : out.length = C.NETCODE_MAX_PACKET_BYTES)
    (s : Netcode.NetcodeServer) (hent : 0 < s.connectTokenEntries.length) (addr : Addr) (buffer : Bytes)
    (hbl : buffer.length + 16 < 2 ^ 64) :
    PktOut (s.processPacket a addr buffer)
      (@NetcodeServer.process_packet (aeadOf a) ε (reprNS out s) (reprAddr addr) (toNats buffer)) := by
  have h := ns_process_packet_eqL (ε := ε) a hl out hout s hent addr buffer hbl
  unfold PktOut
  unfold PktOutL at h
  cases hm : s.processPacket a addr buffer with
  | ok v => obtain ⟨r, s'⟩ := v; rw [hm] at h; obtain ⟨o, b, ho, _, hg⟩ := h; exact ⟨o, b, ho, hg⟩
  | err e => exact nomatch e
  | panic x => rw [hm] at h; exact h

end NcServerRecv
end RenetVerif.SrcEquiv
