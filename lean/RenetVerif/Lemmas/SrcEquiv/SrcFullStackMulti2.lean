/-
  Helpers for `Props/SrcPropsFullStackMulti2.lean`: the lock-step, frame and broadcast statements of `Props/C20M.lean` about the
  GENERATED several-client stack `GMS` of `Props/SrcPropsFullStackMulti.lean`.

    `GLockStep g`, `GNoDead g`       lock-step read off the generated state with generated accessors only
                                     (`NetcodeServer::clients_id`, `RenetServer::clients_id`, `RenetServer::disconnections_id`,
                                     `contains_key` of the generated connection table);
    `glockStep_of` / `lockStep_of_g` generated lock-step ⇔ model lock-step of the represented state;
    `GSameForCid cid g g'`           mirror of `FullStackMulti.SameForCid` on generated states;
    `gother_frame`                   one generated step addressed to somebody else;
    `gbroadcast_is_send`, `gbroadcastExcept_is_send`
                                     a generated broadcast is, for `cid`, the generated `send_message(cid, …)`.
  The representation parameter `mrss` of the generated server is THE SAME before and after a generated server call (the ties
  `server_…_eq mrss`), which is what makes "the entry of `cid` is unchanged" a statement about generated values.
-/
import RenetVerif.Props.SrcPropsFullStackMulti
set_option linter.unusedSimpArgs false
set_option linter.unusedVariables false
set_option maxRecDepth 100000
namespace RenetVerif.SrcFullStackMulti2
open RenetVerif C RenetVerif.RustSem RenetVerif.System RenetVerif.Netcode RenetVerif.Transport RenetVerif.FullStack
  RenetVerif.FullStackMulti
open RenetVerif.SrcEquiv RenetVerif.SrcSystem RenetVerif.SrcMulti RenetVerif.SrcFullStack RenetVerif.SrcPropsFullStackMulti
open Src.renet.remote_connection Src.renet.server Src.renet_netcode.server Src.renet_netcode.client

/-! ## lock-step, read off the generated state -/

/-- the generated `NetcodeServer::clients_id` returns a duplicate-free list `ids`; the keys of the generated `RenetServer`'s
    connection table are exactly `ids`; the generated `RenetServer::clients_id` (the CONNECTED entries of the table) returns
    ids of `ids` only -/
def GLockStep (g : GFS) : Prop :=
  ∃ ids, (Src.renetcode.server.NetcodeServer.clients_id g.ts.netcode_server : Res Empty _) = .ok ids ∧ ids.Nodup ∧
    (∀ id, RustSem.Map.contains_key g.rs.connections id = true ↔ id ∈ ids) ∧
    ∃ rids, (RenetServer.clients_id g.rs : Res Empty _) = .ok rids ∧ ∀ id ∈ rids, id ∈ ids

/-- the generated `RenetServer::disconnections_id` is empty -/
def GNoDead (g : GFS) : Prop := (RenetServer.disconnections_id g.rs : Res Empty _) = .ok []

theorem mem_clientsId_contains {rs : Server} (hs : SL.SMap.Sorted rs.conns) {id : Nat} (h : id ∈ rs.clientsId) :
    SMap.contains rs.conns id = true := by
  unfold Server.clientsId at h
  obtain ⟨x, hx, rfl⟩ := List.mem_map.mp h
  have hx' := (List.mem_filter.mp hx).1
  have hs' : SI.Sorted rs.conns := List.pairwise_map.mp hs
  have hf := SI.mem_find?_of_sorted (m := rs.conns) (k := x.1) (v := x.2) hs' hx'
  show (SMap.find? rs.conns x.1).isSome = true
  rw [hf]; rfl

theorem contains_repr (mrss : Nat → Nat → Nat) (s : Server) (id : Nat) :
    RustSem.Map.contains_key (reprServer mrss s).connections id = SMap.contains s.conns id :=
  contains_reprConns mrss s.conns id

theorem glockStep_of {fs : FS} {g : GFS} (sim : SimFS fs g) (hl : GI.LockStep fs.s) : GLockStep g := by
  obtain ⟨rest, out, o, buf, -, -, hts⟩ := sim.ts
  obtain ⟨mrss, hrs⟩ := sim.rs
  refine ⟨fs.s.netcode.clientsId, ?_, hl.nodup, fun id => ?_, fs.s.renet.clientsId, ?_, fun id hid => ?_⟩
  · rw [hts]; exact ns_clients_id_eq o fs.s.netcode
  · rw [hrs, contains_repr]; exact hl.sync id
  · rw [hrs]; exact server_clients_id_eq mrss fs.s.renet
  · exact (hl.sync id).mp (mem_clientsId_contains hl.sorted hid)

theorem lockStep_of_g {fs : FS} {g : GFS} (sim : SimFS fs g) (hg : FSGood fs) (h : GLockStep g) : GI.LockStep fs.s := by
  obtain ⟨rest, out, o, buf, -, -, hts⟩ := sim.ts
  obtain ⟨mrss, hrs⟩ := sim.rs
  obtain ⟨ids, h1, hn, hk, -⟩ := h
  have e : (Src.renetcode.server.NetcodeServer.clients_id g.ts.netcode_server : Res Empty _) = .ok fs.s.netcode.clientsId := by
    rw [hts]; exact ns_clients_id_eq o fs.s.netcode
  rw [e] at h1
  cases h1
  refine ⟨hn, hg.srv.sorted, fun id => ?_⟩
  rw [← hk id, hrs, contains_repr]

theorem gnoDead_of {fs : FS} {g : GFS} (sim : SimFS fs g) (hs : SL.SMap.Sorted fs.s.renet.conns)
    (hnd : GI.NoDead fs.s.renet) : GNoDead g := by
  obtain ⟨mrss, hrs⟩ := sim.rs
  unfold GNoDead
  rw [hrs, server_disconnections_id_eq, SrcPropsFullStack.noDead_disconnectionsId hs hnd]

/-! ## the frame relation on generated states -/

/-- `g'` is `g` as far as the observed session `cid` is concerned: same generated client transport and `RenetClient`, same
    generated `NetcodeServerTransport` (hence the same slot for `cid`), same entry of `cid` in the generated `RenetServer`'s
    connection table, same histories and ghost logs.  Other entries of the generated table are unconstrained. -/
structure GSameForCid (cid : Nat) (g g' : GFS) : Prop where
  tc : g'.tc = g.tc
  rc : g'.rc = g.rc
  ts : g'.ts = g.ts
  conn : gconn? g'.rs cid = gconn? g.rs cid
  emC : g'.emC = g.emC
  emS : g'.emS = g.emS
  ySeq : gtrackSeq cid g'.rs g'.ySeq = gtrackSeq cid g.rs g.ySeq
  subC : g'.subC = g.subC
  subCU : g'.subCU = g.subCU
  obtS : g'.obtS = g.obtS
  subS : g'.subS = g.subS
  subSU : g'.subSU = g.subSU
  obtC : g'.obtC = g.obtC

theorem GSameForCid.refl (cid : Nat) (g : GFS) : GSameForCid cid g g :=
  ⟨rfl, rfl, rfl, rfl, rfl, rfl, rfl, rfl, rfl, rfl, rfl, rfl, rfl⟩

theorem gtrackSeq_congr {cid : Nat} {r1 r2 : SRenetServer} (h : gconn? r1 cid = gconn? r2 cid) (old : Nat) :
    gtrackSeq cid r1 (gtrackSeq cid r1 old) = gtrackSeq cid r2 old := by
  unfold gtrackSeq
  rw [h]
  cases gconn? r2 cid <;> rfl

theorem gsame_setRenet {cid : Nat} {g : GFS} {rs' : SRenetServer} (h : gconn? rs' cid = gconn? g.rs cid) :
    GSameForCid cid g (gsetRenet cid g rs') :=
  ⟨rfl, rfl, rfl, h, rfl, rfl, gtrackSeq_congr h _, rfl, rfl, rfl, rfl, rfl, rfl⟩

theorem gsame_sendGhost {cid : Nat} {g : GFS} {r1 r2 : SRenetServer} (ch : Nat) (m : Bytes)
    (h : gconn? r2 cid = gconn? r1 cid) : GSameForCid cid (gsendGhost cid g r1 ch m) (gsendGhost cid g r2 ch m) := by
  refine ⟨rfl, rfl, rfl, h, rfl, rfl, ?_, rfl, rfl, rfl, ?_, rfl, rfl⟩
  · show gtrackSeq cid r2 (gtrackSeq cid r2 g.ySeq) = gtrackSeq cid r1 (gtrackSeq cid r1 g.ySeq)
    rw [gtrackSeq_congr h, gtrackSeq_congr rfl]
  · simp only [gsendGhost, h]

theorem gconn_repr_congr (mrss : Nat → Nat → Nat) {s s' : Server} {cid : Nat}
    (h : SMap.find? s'.conns cid = SMap.find? s.conns cid) :
    gconn? (reprServer mrss s') cid = gconn? (reprServer mrss s) cid := by
  rw [gconn_repr, gconn_repr]
  unfold MultiSystem.conn?
  rw [h]

/-- the generated `srvSend` step, given the result of the generated `send_message(cid, …)` (mirror of `step_srvSend`) -/
theorem gstep_srvSend {a : AEAD} {cid : Nat} {g : GFS} {ch : Nat} {m : Bytes} {rs' : SRenetServer}
    (h : (RenetServer.send_message g.rs cid ch (toNats m) : Res Empty _) = .ok (rs', ())) :
    g.step a cid (.srvSend ch m) = some (gsendGhost cid g rs' ch m) := by
  simp only [GFS.step, h]
  rfl

/-! ## one generated step addressed to somebody else -/

/-- the other client's generated calls do not touch the `GFS` component at all -/
theorem gothStep_g {a : AEAD} {cid : Nat} {gm gm' : GMS} {cop : FSOp} (hs : gm.othStep a cid cop = some gm') :
    gm'.g = gm.g := by
  unfold GMS.othStep at hs
  split at hs
  · cases hs; rfl
  · cases hs

/-- **Frame, generated code, one step.** -/
theorem gother_frame (a : AEAD) (cid : Nat) {ms : MS} {gm gm' : GMS} (hg : MSGood ms) (sim : SimMS ms gm) (op : MOp)
    (hrg : MOpInRange ms op) (ho : isOther cid op = true) (hs : gm.step a cid op = some gm') :
    GSameForCid cid gm.g gm'.g := by
  obtain ⟨mrss, hrs⟩ := sim.fs.rs
  have hsg := hg.fs.srv
  cases op with
  | base op => cases ho
  | srvBroadcast ch m => cases ho
  | srvSendTo id ch m =>
    have hne : id ≠ cid := of_decide_eq_true ho
    have tie := server_send_message_eq (ε := Empty) mrss ms.fs.s.renet id ch m hsg.sorted
      (fun c hf => sendMsgOk_of (hsg.find hf) (hrg.2 (id, c) (SMap.mem_of_find? hf)) ch m hrg.1)
    simp only [GMS.step, if_neg hne, hrs] at hs
    cases hm : ms.fs.s.renet.sendMessage id ch m with
    | ok rs' =>
      rw [so_map_ok tie hm] at hs
      cases hs
      exact gsame_setRenet (by
        rw [hrs]
        exact gconn_repr_congr mrss ((SL.Server.sendMessage_spec hm).1.others cid (fun e => hne e.symm)))
    | err e => exact nomatch e
    | panic msg =>
      obtain ⟨m', e⟩ := so_map_panic tie hm
      rw [e] at hs
      cases hs
  | srvRecvFrom id ch =>
    have hne : id ≠ cid := of_decide_eq_true ho
    have tie := server_receive_message_eq (ε := Empty) mrss ms.fs.s.renet id ch hsg.sorted
      (fun c hf => recvOk_of (hsg.find hf) (hrg (id, c) (SMap.mem_of_find? hf)) ch)
    simp only [GMS.step, if_neg hne, hrs] at hs
    cases hm : ms.fs.s.renet.receiveMessage id ch with
    | ok v =>
      obtain ⟨rs', o⟩ := v
      rw [so_map_ok tie hm] at hs
      cases hs
      exact gsame_setRenet (by
        rw [hrs]
        exact gconn_repr_congr mrss ((SL.Server.receiveMessage_spec hm).1.others cid (fun e => hne e.symm)))
    | err e => exact nomatch e
    | panic msg =>
      obtain ⟨m', e⟩ := so_map_panic tie hm
      rw [e] at hs
      cases hs
  | srvDisconnectId id =>
    have hne : id ≠ cid := of_decide_eq_true ho
    have e := server_disconnect_eq (ε := Empty) mrss ms.fs.s.renet id hsg.sorted
    simp only [GMS.step, if_neg hne, hrs, e] at hs
    cases hs
    exact gsame_setRenet (by
      rw [hrs]
      exact gconn_repr_congr mrss ((SL.Server.disconnect_spec ms.fs.s.renet id).1.others cid (fun e => hne e.symm)))
  | srvBroadcastExcept ex ch m =>
    have he : ex = cid := of_decide_eq_true ho
    subst he
    have tie := server_broadcast_except_eq (ε := Empty) mrss ms.fs.s.renet ex ch m
      (fun p hp _ => sendMsgOk_of (hsg.conns p hp) (hrg.2 p hp) ch m hrg.1)
    simp only [GMS.step, hrs, if_true] at hs
    cases hm : ms.fs.s.renet.broadcastExcept ex ch m with
    | ok rs' =>
      rw [so_map_ok tie hm] at hs
      cases hs
      exact gsame_setRenet (by
        rw [hrs]
        exact gconn_repr_congr mrss (SL.Server.broadcastExcept_spec hm).2.2.1)
    | err e => exact nomatch e
    | panic msg =>
      obtain ⟨m', e⟩ := so_map_panic tie hm
      rw [e] at hs
      cases hs
  | othSend ch m => rw [gothStep_g (cop := .cliSend ch m) hs]; exact .refl _ _
  | othRecv ch => rw [gothStep_g (cop := .cliRecv ch) hs]; exact .refl _ _
  | othTick dt => rw [gothStep_g (cop := .cliTick dt) hs]; exact .refl _ _
  | othDisconnect => rw [gothStep_g (cop := .cliDisconnect) hs]; exact .refl _ _
  | othUpdate d inbox => rw [gothStep_g (cop := .cliUpdate d inbox) hs]; exact .refl _ _
  | othSendPackets => rw [gothStep_g (cop := .cliSendPackets) hs]; exact .refl _ _
  | othTransportDisconnect => rw [gothStep_g (cop := .cliTransportDisconnect) hs]; exact .refl _ _

/-- the other generated client and its ghost-free state are untouched by every server-side and base operation -/
theorem gstep_other_client {a : AEAD} {cid : Nat} {gm gm' : GMS} {op : MOp} (h : othAsCli op = none)
    (hs : gm.step a cid op = some gm') : gm'.to = gm.to ∧ gm'.ro = gm.ro := by
  cases op <;> simp only [othAsCli, reduceCtorEq] at h <;> simp only [GMS.step] at hs
  case base op => split at hs <;> cases hs; exact ⟨rfl, rfl⟩
  case srvSendTo id ch m =>
    split at hs
    · split at hs <;> cases hs; exact ⟨rfl, rfl⟩
    · split at hs <;> cases hs; exact ⟨rfl, rfl⟩
  case srvRecvFrom id ch =>
    split at hs
    · split at hs <;> cases hs; exact ⟨rfl, rfl⟩
    · split at hs <;> cases hs; exact ⟨rfl, rfl⟩
  case srvDisconnectId id =>
    split at hs
    · split at hs <;> cases hs; exact ⟨rfl, rfl⟩
    · split at hs <;> cases hs; exact ⟨rfl, rfl⟩
  case srvBroadcast ch m => split at hs <;> cases hs; exact ⟨rfl, rfl⟩
  case srvBroadcastExcept ex ch m => split at hs <;> cases hs; exact ⟨rfl, rfl⟩

/-! ## a generated broadcast is, for `cid`, the generated `send_message(cid, …)` -/

theorem gsendLike {a : AEAD} {cid : Nat} {ms : MS} {gm : GMS} (hg : MSGood ms) (mrss : Nat → Nat → Nat)
    (hrs : gm.g.rs = reprServer mrss ms.fs.s.renet) {rs' : Server} {ch : Nat} {m : Bytes} (hlen : m.length < 2 ^ 63)
    (hir : SrvInRange ms.fs.s.renet)
    (hn : SMap.find? ms.fs.s.renet.conns cid = none → SMap.find? rs'.conns cid = none)
    (hc : ∀ c, SMap.find? ms.fs.s.renet.conns cid = some c →
      ∃ c', c.sendMessage ch m = .ok c' ∧ SMap.find? rs'.conns cid = some c') :
    ∃ g1, gm.g.step a cid (.srvSend ch m) = some g1 ∧
      GSameForCid cid g1 (gsendGhost cid gm.g (reprServer mrss rs') ch m) := by
  have hsg := hg.fs.srv
  obtain ⟨rs1, h1, h2⟩ := sendMessage_matches hn hc
  have tie := server_send_message_eq (ε := Empty) mrss ms.fs.s.renet cid ch m hsg.sorted
    (fun c hf => sendMsgOk_of (hsg.find hf) (hir (cid, c) (SMap.mem_of_find? hf)) ch m hlen)
  have e := so_map_ok tie h1
  rw [← hrs] at e
  exact ⟨_, gstep_srvSend e, gsame_sendGhost ch m (gconn_repr_congr mrss h2)⟩

theorem gbroadcast_is_send (a : AEAD) (cid : Nat) {ms : MS} {gm gm' : GMS} (hg : MSGood ms) (sim : SimMS ms gm)
    (ch : Nat) (m : Bytes) (hrg : MOpInRange ms (.srvBroadcast ch m)) (hs : gm.step a cid (.srvBroadcast ch m) = some gm') :
    ∃ g1, gm.g.step a cid (.srvSend ch m) = some g1 ∧ GSameForCid cid g1 gm'.g := by
  obtain ⟨mrss, hrs⟩ := sim.fs.rs
  have hsg := hg.fs.srv
  have tie := server_broadcast_eq (ε := Empty) mrss ms.fs.s.renet ch m
    (fun p hp => sendMsgOk_of (hsg.conns p hp) (hrg.2 p hp) ch m hrg.1)
  have hs0 := hs
  simp only [GMS.step, hrs] at hs
  cases hm : ms.fs.s.renet.broadcast ch m with
  | ok rs' =>
    rw [so_map_ok tie hm] at hs
    cases hs
    obtain ⟨-, -, hj⟩ := SL.Server.broadcast_spec hm
    exact gsendLike hg mrss hrs hrg.1 hrg.2 (hj cid).1 (hj cid).2
  | err e => exact nomatch e
  | panic msg =>
    obtain ⟨m', e⟩ := so_map_panic tie hm
    rw [e] at hs
    cases hs

theorem gbroadcastExcept_is_send (a : AEAD) (cid : Nat) {ms : MS} {gm gm' : GMS} (hg : MSGood ms) (sim : SimMS ms gm)
    (ex ch : Nat) (m : Bytes) (hne : ex ≠ cid) (hrg : MOpInRange ms (.srvBroadcastExcept ex ch m))
    (hs : gm.step a cid (.srvBroadcastExcept ex ch m) = some gm') :
    ∃ g1, gm.g.step a cid (.srvSend ch m) = some g1 ∧ GSameForCid cid g1 gm'.g := by
  obtain ⟨mrss, hrs⟩ := sim.fs.rs
  have hsg := hg.fs.srv
  have tie := server_broadcast_except_eq (ε := Empty) mrss ms.fs.s.renet ex ch m
    (fun p hp _ => sendMsgOk_of (hsg.conns p hp) (hrg.2 p hp) ch m hrg.1)
  simp only [GMS.step, hrs, if_neg hne] at hs
  cases hm : ms.fs.s.renet.broadcastExcept ex ch m with
  | ok rs' =>
    rw [so_map_ok tie hm] at hs
    cases hs
    obtain ⟨-, -, -, hj⟩ := SL.Server.broadcastExcept_spec hm
    exact gsendLike hg mrss hrs hrg.1 hrg.2 (hj cid (fun e => hne e.symm)).1 (hj cid (fun e => hne e.symm)).2
  | err e => exact nomatch e
  | panic msg =>
    obtain ⟨m', e⟩ := so_map_panic tie hm
    rw [e] at hs
    cases hs

/-! ## the side condition of a run, at its last operation -/

theorem msRunOK_snoc (a : AEAD) (cid : Nat) : ∀ (ops : List MOp) (ms0 ms : MS) (op : MOp),
    MSRunOK a cid ms0 (ops ++ [op]) → ms0.run a cid (ops.map cutMOp) = some ms →
    MSRunOK a cid ms0 ops ∧ MOpInRange ms op ∧ MOpLocalOk a ms op := by
  intro ops
  induction ops with
  | nil =>
    intro ms0 ms op hok hr
    simp only [List.map_nil, MS.run, Option.some.injEq] at hr
    subst hr
    exact ⟨trivial, hok.1, hok.2.1⟩
  | cons o ops ih =>
    intro ms0 ms op hok hr
    obtain ⟨h1, h2, h3⟩ := hok
    simp only [List.map_cons, MS.run] at hr
    cases hs : ms0.step a cid (cutMOp o) with
    | none => rw [hs] at hr; cases hr
    | some ms1 =>
      rw [hs] at hr h3
      obtain ⟨q1, q2⟩ := ih ms1 ms op h3 hr
      refine ⟨⟨h1, h2, ?_⟩, q2⟩
      rw [hs]; exact q1

theorem gms_run_append (a : AEAD) (cid : Nat) : ∀ (l1 l2 : List MOp) (gm : GMS),
    gm.run a cid (l1 ++ l2) = (gm.run a cid l1).bind (fun gm' => gm'.run a cid l2) := by
  intro l1
  induction l1 with
  | nil => intro l2 gm; rfl
  | cons op l1 ih =>
    intro l2 gm
    simp only [List.cons_append, GMS.run]
    cases gm.step a cid op with
    | none => rfl
    | some gm' => exact ih l2 gm'

theorem msRunOK_prefix (a : AEAD) (cid : Nat) : ∀ (l1 l2 : List MOp) (ms : MS),
    MSRunOK a cid ms (l1 ++ l2) → MSRunOK a cid ms l1 := by
  intro l1
  induction l1 with
  | nil => intro l2 ms _; exact trivial
  | cons o l1 ih =>
    intro l2 ms hok
    obtain ⟨h1, h2, h3⟩ := hok
    refine ⟨h1, h2, ?_⟩
    cases hs : ms.step a cid (cutMOp o) with
    | none => trivial
    | some ms1 =>
      rw [hs] at h3
      exact ih l2 ms1 h3

/-- a generated run through `l1 ++ [op] ++ l2` passes through the state before and the state after `op` -/
theorem grun_split (a : AEAD) (cid : Nat) (l1 : List MOp) (op : MOp) (l2 : List MOp) (gm0 gfin : GMS)
    (h : gm0.run a cid (l1 ++ [op] ++ l2) = some gfin) :
    ∃ gm gm', gm0.run a cid l1 = some gm ∧ gm.step a cid op = some gm' ∧ gm'.run a cid l2 = some gfin := by
  rw [gms_run_append, gms_run_append] at h
  cases h1 : gm0.run a cid l1 with
  | none => rw [h1] at h; cases h
  | some gm =>
    rw [h1] at h
    simp only [Option.bind_some, GMS.run] at h
    cases h2 : gm.step a cid op with
    | none => rw [h2] at h; cases h
    | some gm' =>
      rw [h2] at h
      exact ⟨gm, gm', rfl, h2, h⟩

end RenetVerif.SrcFullStackMulti2
